#!/bin/bash
set -e
n=$1; f=$2
rm -rf /tmp/c06/mut/$n; mkdir -p /tmp/c06/mut/$n; cp -r /repo/vyper /tmp/c06/mut/$n/vyper
python3 - "$n" "$f" "$3" "$4" <<'PY'
import sys
n,f,old,new=sys.argv[1:5]
p=f"/tmp/c06/mut/{n}/vyper/{f}"
s=open(p).read()
assert s.count(old)>=1, (n, "pattern not found")
s=s.replace(old,new,1)
open(p,'w').write(s)
PY
