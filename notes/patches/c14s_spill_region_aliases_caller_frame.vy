@internal
def f4(p0: uint256, p1: uint256, p2: uint256, p3: uint256, p4: uint256, p5: uint256, p6: uint256, p7: uint256, p8: uint256, p9: uint256, p10: uint256, p11: uint256, p12: uint256, p13: uint256, p14: uint256, p15: uint256, p16: uint256, p17: uint256, p18: uint256, p19: uint256) -> uint256:
    t: uint256 = unsafe_add(unsafe_add(unsafe_add(unsafe_add(unsafe_add(unsafe_add(unsafe_add(unsafe_add(unsafe_add(unsafe_add(unsafe_add(unsafe_add(unsafe_add(unsafe_add(unsafe_add(unsafe_add(0, unsafe_mul(p1, 5)), unsafe_mul(p2, 8)), unsafe_mul(p3, 11)), unsafe_mul(p4, 14)), unsafe_mul(p5, 17)), unsafe_mul(p6, 20)), unsafe_mul(p7, 23)), unsafe_mul(p8, 26)), unsafe_mul(p9, 29)), unsafe_mul(p10, 32)), unsafe_mul(p13, 41)), unsafe_mul(p14, 44)), unsafe_mul(p15, 47)), unsafe_mul(p16, 50)), unsafe_mul(p17, 53)), unsafe_mul(p19, 59))
    return t

@external
def w4(x: uint256) -> uint256:
    base: uint256 = unsafe_mul(x, 7)
    r: uint256 = self.f4(unsafe_add(x, 0), unsafe_add(x, 1), unsafe_add(x, 2), unsafe_add(x, 3), unsafe_add(x, 4), unsafe_add(x, 5), unsafe_add(x, 6), unsafe_add(x, 7), unsafe_add(x, 8), unsafe_add(x, 9), unsafe_add(x, 10), unsafe_add(x, 11), unsafe_add(x, 12), unsafe_add(x, 13), unsafe_add(x, 14), unsafe_add(x, 15), unsafe_add(x, 16), unsafe_add(x, 17), unsafe_add(x, 18), unsafe_add(x, 19))
    r2: uint256 = self.f4(unsafe_add(x, 100), unsafe_add(x, 1), unsafe_add(x, 2), unsafe_add(x, 3), unsafe_add(x, 4), unsafe_add(x, 5), unsafe_add(x, 6), unsafe_add(x, 7), unsafe_add(x, 8), unsafe_add(x, 9), unsafe_add(x, 10), unsafe_add(x, 11), unsafe_add(x, 12), unsafe_add(x, 13), unsafe_add(x, 14), unsafe_add(x, 15), unsafe_add(x, 16), unsafe_add(x, 17), unsafe_add(x, 18), unsafe_add(x, 19))
    return unsafe_add(base, unsafe_add(r, unsafe_mul(r2, 3)))

