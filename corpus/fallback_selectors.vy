event Fell:
    x: uint256

@external
def f0() -> uint256:
    return 0

@external
def f1() -> uint256:
    return 1

@external
def f2() -> uint256:
    return 2

@external
def f3() -> uint256:
    return 3

@external
def __default__():
    x: uint256 = 0
    if len(msg.data) >= 4:
        x = 1
    log Fell(x=x)
