import sys, json, subprocess, re
from vyper.compiler import compile_code
FIRSTS = ["""
import math
@external
def a(x: uint256) -> uint256:
    return math.isqrt(x)
""", """
import math
@deploy
def __init__():
    x: uint256 = math.isqrt(16)
""", """
import math
@internal
def g(x: uint256) -> uint256:
    return math.isqrt(x)
@external
def a(x: uint256) -> uint256:
    return self.g(x)
"""]
B = """
import math
@internal
def foo(x: uint256) -> uint256:
    return x + 1
@external
def a(x: uint256) -> uint256:
    return math.isqrt(self.foo(x))
"""
def meta(src, exp=False):
    from vyper.compiler.settings import Settings
    o = compile_code(src, output_formats=["metadata", "bytecode"], settings=Settings(experimental_codegen=exp))
    fi = o["metadata"]["function_info"]
    return sorted((k, v.get("function_id")) for k, v in fi.items()), o["bytecode"]
if sys.argv[1] == "fresh":
    print(json.dumps(meta(B, sys.argv[2] == "1"))); sys.exit()
k = int(sys.argv[1]); exp = sys.argv[2] == "1"
meta(FIRSTS[k], exp)
m1, b1 = meta(B, exp)
out = subprocess.run([sys.executable, __file__, "fresh", sys.argv[2]], capture_output=True, text=True)
m2, b2 = json.loads(out.stdout.strip().splitlines()[-1])
print(k, exp, "same bytecode:", b1 == b2, " same metadata:", [list(x) for x in m1] == m2)
print("  after:", m1); print("  fresh:", m2)
