LA: immutable(uint256)
LB: immutable(String[10])

@deploy
def __init__(a: uint256, b: String[10]):
    LA = a
    LB = b
