import lib
initializes: lib
flag F:
    C
struct P:
    x: uint256
    y: int128
    z: address
MA: public(immutable(P))
MF: public(immutable(F))
MB: public(immutable(Bytes[40]))
MD: public(immutable(DynArray[uint256, 4]))
MN: public(immutable(P[2]))
@deploy
def __init__(a: uint256, b: String[10], p: P, f: F, m: Bytes[40], d: DynArray[uint256, 4]):
    lib.__init__(a, b)
    MA = p
    MF = f
    MB = m
    MD = d
    MN = [p, P(x=1, y=-2, z=empty(address))]
