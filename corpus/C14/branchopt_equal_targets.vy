s: uint256

@external
def f(x: uint256, y: uint256):
    for i: uint256 in range(3):
        if y == i:
            continue
        self.s += i
        if x == i:
            continue
