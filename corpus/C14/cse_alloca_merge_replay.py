"""Latent finding (C14, CSE): CSE treats `alloca N` as an ordinary expression, so two distinct allocations of the same size in
one block are merged (`%r = alloca 32` -> `%r = %m`).  The shipped pipelines run CSE after ConcretizeMemLocPass (no alloca left),
so this is not reachable through the compiler; it is reachable for any pipeline that runs CSE on abstract memory.
Run: PYTHONPATH=/repo:/verif/tools python3 corpus/C14/cse_alloca_merge_replay.py"""
import sys
sys.path.insert(0, "/verif/tools")
from vlib.common import pin_env
pin_env()
TEXT = """function runtime {
  runtime:
    %a = calldataload 0
    %b = calldataload 32
    %m = alloca 32
    mstore %m, %a
    %r = alloca 32
    mstore %r, %b
    %x = mload %m
    %o = alloca 64
    mstore %o, %x
    return %o, 32
}
"""


def main():
    from vyper.compiler.settings import Settings, set_global_settings
    from vyper.venom.analysis import IRAnalysesCache
    from vyper.venom.parser import parse_venom
    from vyper.venom.passes import CSE
    from vlib import c14_pass_harness as H, c14_pass_sem as S
    from vlib.evm import DEPLOYER
    set_global_settings(Settings(evm_version="cancun"))
    c = parse_venom(TEXT)
    fn = list(c.functions.values())[0]
    before = H.snap_text(fn, fn)
    CSE(IRAnalysesCache(fn), fn).run_pass()
    after = H.snap_text(fn, fn)
    print(after)
    inp = {"data": ((5).to_bytes(32, "big") + (9).to_bytes(32, "big")).hex(), "value": 0, "sender": DEPLOYER}
    ob = S.evm_run(S.backend_bytecode(before, "pipeline"), inp)
    oa = S.evm_run(S.backend_bytecode(after, "pipeline"), inp)
    print("before:", ob["out"].hex()[-4:], "after CSE:", oa["out"].hex()[-4:], "(calldata a=5, b=9; expected 5)")
    return 0 if ob["out"] == oa["out"] else 1


if __name__ == "__main__":
    sys.exit(main())
