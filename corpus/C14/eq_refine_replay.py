import sys
from vyper.venom.parser import parse_venom
from vyper.venom import run_passes_on, generate_assembly_experimental
from vyper.compiler.settings import OptimizationLevel, Settings, VenomOptimizationFlags
from vyper.compiler.phases import generate_bytecode
from vyper.ir.compile_ir import assembly_to_evm
import inspect
src = """
function main {
main:
    %x = calldataload 0
    %a = signextend 0, %x
    %y = calldataload 32
    %b2 = mod %y, 115792089237316195423570985008687907853269984665640564039457584007913129639935
    sstore 2, %a
    sstore 3, %b2
    %e = eq %a, %b2
    jnz %e, @then, @exit
then:
    %t = slt %a, 0
    sstore 0, %t
    sstore 1, 7
    stop
exit:
    stop
}
"""
sys.path.insert(0, "/verif/tools")
from vlib.evm import Chain
def build(opt):
    ctx = parse_venom(src)
    if opt:
        flags = VenomOptimizationFlags(level=OptimizationLevel.GAS)
        from vyper.venom import run_passes_on
        try:
            run_passes_on(ctx, flags)
        except TypeError:
            run_passes_on(ctx, OptimizationLevel.GAS)
    asm = generate_assembly_experimental(ctx)
    bc, _ = assembly_to_evm(asm)
    return bc
W = 2**256
for opt in (False, True):
    bc = build(opt)
    ch = Chain()
    addr = ch.set_code(None, bc)
    data = (0xfe).to_bytes(32, "big") + (W-2).to_bytes(32, "big")
    r = ch.call(addr, data)
    print("opt", opt, r, ch.storage(addr,0), ch.storage(addr,1), hex(ch.storage(addr,2)), hex(ch.storage(addr,3)))
