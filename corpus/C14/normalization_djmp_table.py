"""(OPEN known finding cfgpass:CFGNormalization; exits 1 while the value is wrong.  A fail-closed repair was tried and
withdrawn: tests/unit/compiler/venom/test_multi_entry_block.py needs djmp edges without a data segment to be split.)
Replay: CFGNormalization splits the edge of a `djmp` whose target has several predecessors but leaves the jump table
(data segment) pointing at the old label: the dynamic jump skips the forwarding block, the phi of the target reads the
wrong value.  Expected (IR semantics): calldata (x=0, a=1, b=9) -> returns (9, 0); observed at every level: (10, 0).
Run: PYTHONPATH=/repo:/verif/tools /venv/bin/python corpus/C14/normalization_djmp_table.py"""
import os
import sys
from vyper.compiler.phases import generate_bytecode
from vyper.compiler.settings import OptimizationLevel, Settings, VenomOptimizationFlags, set_global_settings
from vyper.venom import generate_assembly_experimental, run_passes_on
from vyper.venom.parser import parse_venom
from vlib.evm import Chain

set_global_settings(Settings(evm_version="cancun"))
text = open(os.path.join(os.path.dirname(os.path.abspath(__file__)), "normalization_djmp_table.venom")).read()
bad = 0
for lvl in (OptimizationLevel.NONE, OptimizationLevel.GAS, OptimizationLevel.CODESIZE, OptimizationLevel.O3):
    ctx = parse_venom(text)
    try:
        run_passes_on(ctx, VenomOptimizationFlags(level=lvl))
    except Exception as e:
        ok = "of a djmp has another predecessor" in str(e)
        print(lvl.name, "refused:" if ok else "UNEXPECTED:", type(e).__name__, str(e).strip().splitlines()[0][:120])
        bad += not ok
        continue
    code, _ = generate_bytecode(generate_assembly_experimental(ctx, OptimizationLevel.O2))
    ch = Chain("cancun")
    addr = ch.set_code(None, code)
    for (x, a, b), want in (((0, 1, 9), (9, 0)), ((1, 1, 9), (10, 10)), ((0, 0, 9), (0, 0))):
        r = ch.call(addr, x.to_bytes(32, "big") + a.to_bytes(32, "big") + b.to_bytes(32, "big"))
        got = (int.from_bytes(r.out[:32], "big"), int.from_bytes(r.out[32:64], "big")) if r.ok else None
        print(lvl.name, (x, a, b), "returned", got, "expected", want, "" if got == want else "  <-- WRONG")
        bad += got != want
sys.exit(1 if bad else 0)
