import sys, warnings; warnings.simplefilter("ignore")
from vyper.compiler import compile_code
from vyper.compiler.settings import Settings
import pyrevm
from vyper.utils import method_id
from eth_abi import encode
src = """
@external
def bp0(t: address, off: uint256) -> address:
    return create_from_blueprint(t, code_offset=off)
@external
def bp1(t: address, off: uint256, x: uint256) -> address:
    return create_from_blueprint(t, x, code_offset=off)
"""
bad = 0
for venom in (False, True):
    o = compile_code(src, output_formats=["bytecode"], settings=Settings(experimental_codegen=venom))
    evm = pyrevm.EVM(); d = "0x" + "11"*20; evm.set_balance(d, 10**20)
    a = evm.deploy(d, bytes.fromhex(o["bytecode"][2:]))
    # a real blueprint: preamble fe7100 + initcode returning 1 byte of code (600160005360016000f3)
    init = bytes.fromhex("600160005360016000f3")
    bp = evm.deploy(d, bytes.fromhex("61") + (3+len(init)).to_bytes(2,"big") + bytes.fromhex("3d81600a3d39f3") + b"\xfe\x71\x00" + init)
    size = 3 + len(init)
    for tgt, tsize in (("0x" + "22"*20, 0), (bp, size)):
        for off in (0, 3, tsize - 1, tsize, tsize + 1, 2**255, 2**255 + tsize + 1, 2**256 - 1):
            if off < 0: continue
            for fn, args, tys in (("bp0(address,uint256)", [tgt, off], ["address", "uint256"]), ("bp1(address,uint256,uint256)", [tgt, off, 7], ["address","uint256","uint256"])):
                try:
                    r = evm.message_call(d, a, calldata=method_id(fn) + encode(tys, args)); ok = True
                except RuntimeError:
                    ok = False
                must_revert = off >= tsize
                if ok and must_revert:
                    bad += 1; print("VIOLATION venom=%s %s target_size=%d code_offset=%d: returned %s instead of reverting" % (venom, fn, tsize, off, bytes(r).hex()[-40:]))
print("violations:", bad); sys.exit(1 if bad else 0)
