import sys, warnings; warnings.simplefilter("ignore")
from vyper.compiler import compile_code
import pyrevm
from vyper.utils import method_id
src = """
@external
def folded() -> bool:
    return 0xA1AAB33F in [0xa1aab33f, 0x00000000]
@external
def runtime(x: bytes4) -> bool:
    return x in [0xa1aab33f, 0x00000000]
@external
def folded_eq() -> bool:
    return 0xA1AAB33F == 0xa1aab33f
"""
o = compile_code(src, output_formats=["bytecode"])
evm = pyrevm.EVM()
d = "0x" + "11"*20
evm.set_balance(d, 10**20)
a = evm.deploy(d, bytes.fromhex(o["bytecode"][2:]))
f = evm.message_call(d, a, calldata=method_id("folded()"))
r = evm.message_call(d, a, calldata=method_id("runtime(bytes4)") + bytes.fromhex("A1AAB33F") + b"\0"*28)
e = evm.message_call(d, a, calldata=method_id("folded_eq()"))
print("folded in:", int.from_bytes(bytes(f),"big"), " runtime in:", int.from_bytes(bytes(r),"big"), " folded ==:", int.from_bytes(bytes(e),"big"))
