(* C04 T-tie: the integer kernels regenerated from vyper/codegen/memory_allocator.py (GenLegacy.v:
   FreeMemory.partially_allocate, MemoryAllocator._expand_memory, _ALLOCATION_LIMIT) are the
   arithmetic the hand model AllocModel.v uses. *)
From Coq Require Import ZArith Bool List Lia ZifyBool.
From Verif Require Import Base.PyInt C04.GenLegacy C04.AllocModel.
Import ListNotations.
Open Scope Z_scope.

Lemma limit_is_generated : ALLOCATION_LIMIT = GEN_ALLOCATION_LIMIT.
Proof. reflexivity. Qed.

Lemma partially_allocate_model : forall p s size,
  partially_allocate p s size = if size >=? s then Err Raised else Ok (p, p + size, s - size).
Proof. intros. unfold partially_allocate. destruct (size >=? s); reflexivity. Qed.

Lemma expand_memory_model : forall nm sm size, size mod 32 = 0 ->
  expand_memory nm sm GEN_ALLOCATION_LIMIT size =
    if Z.max sm (nm + size) >=? ALLOCATION_LIMIT then Err Raised else Ok (nm, nm + size, Z.max sm (nm + size)).
Proof.
  intros nm sm size M. unfold expand_memory, py_mod. change (32 =? 0) with false. cbv beta iota delta [bind].
  rewrite M. change (0 =? 0) with true. cbn [negb]. rewrite <- limit_is_generated. reflexivity.
Qed.

(* the model's take_free uses exactly partially_allocate on a larger block *)
Lemma take_free_head_larger : forall p s rest size, size < s ->
  take_free ((p, s) :: rest) size =
    match partially_allocate p s size with
    | Ok (r, p', s') => Some (r, (p', s') :: rest)
    | Err _ => None
    end.
Proof.
  intros. cbn [take_free]. rewrite partially_allocate_model.
  replace (s =? size) with false by lia. replace (s >? size) with true by lia. replace (size >=? s) with false by lia. reflexivity.
Qed.

(* the model's expansion branch is exactly _expand_memory *)
Theorem legacy_allocate_expand_is_generated : forall st size,
  size mod 32 = 0 -> 0 <= size -> take_free (free st) size = None ->
  legacy_allocate st size =
    match expand_memory (next_mem st) (size_of_mem st) GEN_ALLOCATION_LIMIT size with
    | Ok (p, nm, sm) => LOk p (mkL nm sm (free st))
    | Err _ => LErr
    end.
Proof.
  intros st size M N T. unfold legacy_allocate. rewrite T, (expand_memory_model _ _ _ M).
  replace (negb (size mod 32 =? 0) || (size <? 0)) with false by lia.
  destruct (Z.max (size_of_mem st) (next_mem st + size) >=? ALLOCATION_LIMIT); reflexivity.
Qed.
