(* C04 (session 3, seed m6) property theorems: x.append(<arg>) with an argument that may change x.
   GenSelfMut.v is regenerated on every run: one record per call of append_dyn_array made by the REAL Expr.parse_Call while
   compiling the self-mutation canary family (tools/vlib/c04_selfmut.py). *)
From Coq Require Import ZArith List Bool Lia.
From Verif Require Import C04.SelfMutModel C04.SelfMutProofs C04.GenSelfMut.
Import ListNotations.
Open Scope Z_scope.

(* every element expression the real generator hands to append_dyn_array is a leaf, or contains neither a call nor a store
   next to a variable of the array expression: nothing that can change the array runs between the length load and the stores *)
Theorem observed_append_sites_ordered : forallb site_ok append_sites_observed = true.
Proof. vm_compute. reflexivity. Qed.
Print Assumptions observed_append_sites_ordered.

(* staging (tmp := arg; append(tmp)) is the source semantics for EVERY argument, whatever it does to the array *)
Theorem staged_append_is_spec : forall B e a, staged_append B e a = spec_append B e a.
Proof. exact staged_is_spec_l. Qed.
Print Assumptions staged_append_is_spec.

(* the unstaged code of append_dyn_array is the source semantics when the argument leaves the length alone *)
Theorem lazy_append_is_spec_if_len_kept : forall B e a, keeps_len e -> emitted_append B e a = spec_append B e a.
Proof. exact lazy_is_spec_if_len_kept_l. Qed.
Print Assumptions lazy_append_is_spec_if_len_kept.

(* the source-level append writes exactly the element at the current length, stays within the bound, keeps every other slot *)
Theorem append_writes_only_target : forall B a v a', 0 <= alen a -> push B a v = Some a' ->
  alen a' = alen a + 1 /\ alen a' <= B /\ live a' (alen a) = Some v /\
  (forall i, i <> alen a -> aslot a' i = aslot a i) /\ (forall i, i <> alen a -> live a' i = live a i \/ live a i = None).
Proof. exact push_only_target_l. Qed.
Print Assumptions append_writes_only_target.

(* transferred to every observed site: assumed only that an element expression WITHOUT call / shared store keeps the length *)
Theorem observed_appends_are_spec : forall s, In s append_sites_observed ->
  forall B e a, (may_mutate s = false -> keeps_len e) -> site_sem s B e a = spec_append B e a.
Proof. exact (observed_sites_sound_l append_sites_observed observed_append_sites_ordered). Qed.
Print Assumptions observed_appends_are_spec.

(* the staging is necessary: the unstaged order loses / resurrects an element / misses the revert at the bound *)
Theorem lazy_append_refuted :
  (dump 4 (emitted_append 4 (arg_pushes 4 30) a_two) = Some (3, [10; 20; 31; 0]) /\
   dump 4 (spec_append 4 (arg_pushes 4 30) a_two) = Some (4, [10; 20; 30; 31])) /\
  (dump 3 (emitted_append 4 arg_pops a_two) = Some (3, [10; 20; 20]) /\
   dump 3 (spec_append 4 arg_pops a_two) = Some (2, [10; 20; 0])) /\
  (dump 2 (emitted_append 3 (arg_pushes 3 30) a_two) = Some (3, [10; 20]) /\ spec_append 3 (arg_pushes 3 30) a_two = None).
Proof. exact (conj lazy_loses_element_l (conj lazy_resurrects_l lazy_misses_revert_l)). Qed.
Print Assumptions lazy_append_refuted.

(* non-vacuity: a site with a mutating argument that is staged is accepted, the same site unstaged is not; keeps_len is satisfiable *)
Example site_ok_nonvacuous : site_ok (mkSite true true true) = true /\ site_ok (mkSite false true false) = false /\
  site_ok (mkSite false false false) = true /\ keeps_len (pure_arg 5) /\ push 4 a_two 7 <> None.
Proof. repeat split; try (vm_compute; reflexivity); try (vm_compute; discriminate).
  intros a a1 v H. unfold pure_arg in H. inversion H. reflexivity. Qed.
