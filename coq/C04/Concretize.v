(* C04: the greedy loop of vyper/venom/passes/concretize_mem_loc.py over an abstract interference
   relation, on top of venom_allocate (AllocModel.v), and a verified checker for real pass output.

   for mem in to_allocate:                       (any order)
       reserved = global_allocation + [(ptr, size) of every already placed alloca whose liveset
                                        intersects mem's]
       ptr = allocate(mem)                       (first fit over reserved)
       already_allocated.append(mem) *)
From Coq Require Import ZArith Bool List Lia ZifyBool.
From Verif Require Import C04.AllocModel C04.AllocProofs.
Import ListNotations.
Open Scope Z_scope.

(* a placed alloca: identifier, offset, size *)
Definition placed := (nat * Z * Z)%type.
Definition p_id (p : placed) := fst (fst p).
Definition p_rng (p : placed) : Z * Z := (snd (fst p), snd p).

Section Greedy.
  Variable interf : nat -> nat -> bool.     (* livesets intersect *)
  Variable globals : list (Z * Z).          (* MemoryAllocator.global_allocation (pinned) *)

  Definition reserved_for (m : nat) (already : list placed) : list (Z * Z) :=
    globals ++ map p_rng (filter (fun p => interf m (p_id p)) already).

  Definition place_one (already : list placed) (m : nat * Z) : list placed :=
    already ++ [(fst m, venom_allocate (reserved_for (fst m) already) (snd m), snd m)].

  Definition concretize (pinned : list placed) (todo : list (nat * Z)) : list placed :=
    fold_left place_one todo pinned.

  (* a and b do not share a byte *)
  Definition rdisj (a b : Z * Z) : Prop := forall x, fst a <= x < fst a + snd a -> ~ (fst b <= x < fst b + snd b).

  (* every newly placed alloca avoids the globals and every interfering alloca placed before it
     (pinned ones included) *)
  Fixpoint good_from (before : list placed) (l : list placed) : Prop :=
    match l with
    | [] => True
    | p :: l' =>
        (Forall (rdisj (p_rng p)) globals /\
         Forall (fun q => interf (p_id p) (p_id q) = true -> rdisj (p_rng p) (p_rng q)) before) /\
        good_from (before ++ [p]) l'
    end.

  Lemma avoid_reserved : forall m already sz,
    let ptr := venom_allocate (reserved_for m already) sz in
    Forall (rdisj (ptr, sz)) globals /\
    Forall (fun q => interf m (p_id q) = true -> rdisj (ptr, sz) (p_rng q)) already.
  Proof.
    intros m already sz ptr. split; rewrite Forall_forall; intros r Hr.
    - pose proof (venom_allocate_avoids_reserved_l (reserved_for m already) sz r) as A.
      unfold rdisj. cbn [fst snd]. apply A. unfold reserved_for. apply in_or_app. left. exact Hr.
    - intros I. pose proof (venom_allocate_avoids_reserved_l (reserved_for m already) sz (p_rng r)) as A.
      unfold rdisj. cbn [fst snd]. apply A. unfold reserved_for. apply in_or_app. right.
      apply in_map. apply filter_In. split; auto.
  Qed.

  Lemma good_snoc : forall news before x, good_from before news ->
    Forall (rdisj (p_rng x)) globals ->
    Forall (fun q => interf (p_id x) (p_id q) = true -> rdisj (p_rng x) (p_rng q)) (before ++ news) ->
    good_from before (news ++ [x]).
  Proof.
    induction news as [|p news IH]; intros before x G Hg Hb.
    - cbn. rewrite app_nil_r in Hb. split; [split; [exact Hg|exact Hb]|exact I].
    - cbn [app good_from] in *. destruct G as [G1 G2]. split; [exact G1|].
      apply IH; auto. rewrite <- app_assoc. exact Hb.
  Qed.

  (* generalised invariant: the list is pinned ++ news, and the news are good *)
  Lemma concretize_inv : forall todo pinned news,
    good_from pinned news ->
    exists news', fold_left place_one todo (pinned ++ news) = pinned ++ news' /\ good_from pinned news' /\
                  map (fun p => (p_id p, snd p)) news' = map (fun p => (p_id p, snd p)) news ++ todo.
  Proof.
    induction todo as [|[m sz] todo IH]; intros pinned news G; cbn [fold_left].
    - exists news. rewrite app_nil_r. auto.
    - unfold place_one at 2. cbn [fst snd]. rewrite <- app_assoc.
      destruct (avoid_reserved m (pinned ++ news) sz) as [Hg Hb].
      set (x := (m, venom_allocate (reserved_for m (pinned ++ news)) sz, sz)) in *.
      assert (G' : good_from pinned (news ++ [x])) by (apply good_snoc; auto).
      destruct (IH pinned (news ++ [x]) G') as [news' [E [G'' M]]]. exists news'. split; [exact E|]. split; [exact G''|].
      rewrite M, map_app. cbn [map]. unfold x, p_id. cbn [fst snd]. rewrite <- app_assoc. reflexivity.
  Qed.

  Theorem concretize_interfering_disjoint_l : forall pinned todo,
    exists news, concretize pinned todo = pinned ++ news /\
                 map (fun p => (p_id p, snd p)) news = todo /\
                 good_from pinned news.
  Proof.
    intros. unfold concretize. destruct (concretize_inv todo pinned [] I) as [news' [E [G M]]].
    rewrite app_nil_r in E. exists news'. repeat split; auto.
  Qed.
End Greedy.

(* ---------- verified checker for real pass output ---------- *)
(* one row per alloca: offset, size, liveset (instruction numbers) *)
Record arow := mkA { a_off : Z; a_size : Z; a_live : list Z; a_new : bool }.

Definition live_meet (a b : arow) : bool := existsb (fun i => existsb (Z.eqb i) (a_live b)) (a_live a).
Definition rng_disj (a b : arow) : bool :=
  (a_size a <=? 0) || (a_size b <=? 0) || (a_off a + a_size a <=? a_off b) || (a_off b + a_size b <=? a_off a).
Definition glob_disj (a : arow) (g : Z * Z) : bool :=
  (a_size a <=? 0) || (snd g <=? 0) || (a_off a + a_size a <=? fst g) || (fst g + snd g <=? a_off a).

Fixpoint pairs_ok (l : list arow) : bool :=
  match l with
  | [] => true
  | a :: l' => forallb (fun b => negb ((a_new a || a_new b) && live_meet a b) || rng_disj a b) l' && pairs_ok l'
  end.
Definition no_overlap_if_interfere (globals : list (Z * Z)) (l : list arow) : bool :=
  pairs_ok l && forallb (fun a => negb (a_new a) || forallb (glob_disj a) globals) l && forallb (fun a => 0 <=? a_off a) l.

Lemma pairs_ok_sound : forall l, pairs_ok l = true ->
  forall i j a b, (i < j)%nat -> nth_error l i = Some a -> nth_error l j = Some b ->
  (a_new a || a_new b) = true -> live_meet a b = true ->
  forall x, a_off a <= x < a_off a + a_size a -> ~ (a_off b <= x < a_off b + a_size b).
Proof.
  induction l as [|h l IH]; intros P i j a b L Ha Hb N M x Hx; [destruct i; discriminate|].
  cbn [pairs_ok] in P. apply andb_prop in P. destruct P as [P1 P2]. destruct j; [lia|]. cbn [nth_error] in Hb.
  destruct i.
  - cbn in Ha. inversion Ha; subst. rewrite forallb_forall in P1. apply nth_error_In in Hb. specialize (P1 b Hb).
    rewrite N, M in P1. cbn in P1. unfold rng_disj in P1. lia.
  - cbn [nth_error] in Ha. eapply (IH P2 i j a b); eauto. lia.
Qed.

Theorem no_overlap_checker_sound : forall globals l, no_overlap_if_interfere globals l = true ->
  (forall i j a b, (i < j)%nat -> nth_error l i = Some a -> nth_error l j = Some b ->
     (a_new a || a_new b) = true -> live_meet a b = true ->
     forall x, a_off a <= x < a_off a + a_size a -> ~ (a_off b <= x < a_off b + a_size b)) /\
  (forall a g, In a l -> a_new a = true -> In g globals ->
     forall x, a_off a <= x < a_off a + a_size a -> ~ (fst g <= x < fst g + snd g)).
Proof.
  intros globals l C. unfold no_overlap_if_interfere in C. apply andb_prop in C. destruct C as [C C3].
  apply andb_prop in C. destruct C as [C1 C2]. split.
  - apply pairs_ok_sound. exact C1.
  - intros a g Ia Na Ig x Hx. rewrite forallb_forall in C2. specialize (C2 a Ia). rewrite Na in C2. cbn in C2.
    rewrite forallb_forall in C2. specialize (C2 g Ig). unfold glob_disj in C2. lia.
Qed.

(* harness: offsets the model assigns, given interference as a list of id pairs *)
Definition interf_of (pairs : list (nat * nat)) (a b : nat) : bool :=
  existsb (fun p => (Nat.eqb (fst p) a && Nat.eqb (snd p) b) || (Nat.eqb (fst p) b && Nat.eqb (snd p) a)) pairs.
Definition concretize_out (pairs : list (nat * nat)) (globals : list (Z * Z)) (pinned : list placed) (todo : list (nat * Z)) : list Z :=
  map (fun p => snd (fst p)) (concretize (interf_of pairs) globals pinned todo).
