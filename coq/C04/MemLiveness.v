(* C04: soundness of the dataflow in vyper/venom/analysis/mem_liveness.py (MemLivenessAnalysis) over an
   abstract instruction-level CFG, and a verified checker that validates the tables the REAL analysis
   computed (translation validation: the checker is evaluated by vm_compute on exported data).

   Instructions are numbered; [succ i] are the instructions that may execute right after i (next
   instruction of the block, or the first instructions of the successor blocks).  Per instruction:
     reads i   allocas the instruction may read   (base allocas of get_memory_read_op, plus the callee's
               mems_used and pointer operands for invoke)
     writes i  allocas it may write               (base allocas of get_memory_write_op)
     kill i    the alloca it certainly overwrites completely (single candidate, literal size = alloca size)
     refs i    allocas referenced by any operand  (>= reads, writes)
   These come from BasePtrAnalysis / memory_location tables, whose soundness is ASSUMED (stated in the
   evidence).  What is proved: any tables [liveat], [used] satisfying the analysis' fixpoint inequations
   over-approximate true liveness / "referenced before", hence an alloca whose value may still be read
   after instruction i and any alloca accessed at i both have i in their livesets. *)
From Coq Require Import Arith Bool List Lia.
Import ListNotations.

Section Live.
  Variable succ : nat -> list nat.
  Variables reads writes refs : nat -> list nat.
  Variable kill : nat -> option nat.
  Variables liveat used : nat -> list nat.

  (* a may still be read after i without being completely overwritten first *)
  Inductive live_after : nat -> nat -> Prop :=
  | la_read : forall i s a, In s (succ i) -> In a (reads s) -> live_after i a
  | la_step : forall i s a, In s (succ i) -> kill s <> Some a -> live_after s a -> live_after i a.

  (* a has been referenced by i or by an instruction from which i is reachable *)
  Inductive touched_before : nat -> nat -> Prop :=
  | tb_here : forall i a, In a (refs i) -> touched_before i a
  | tb_step : forall j s a, In s (succ j) -> touched_before j a -> touched_before s a.

  (* the inequations the analysis' fixpoint satisfies *)
  Hypothesis L1 : forall i a, In a (reads i) -> In a (liveat i).
  Hypothesis L2 : forall i s a, In s (succ i) -> In a (liveat s) -> (kill s <> Some a \/ In a (reads s)) -> In a (liveat i).
  Hypothesis U1 : forall i a, In a (refs i) -> In a (used i).
  Hypothesis U2 : forall i s a, In s (succ i) -> In a (used i) -> In a (used s).
  Hypothesis R1 : forall i a, In a (reads i) -> In a (refs i).

  Theorem liveat_sound : forall i a, live_after i a -> In a (liveat i).
  Proof.
    induction 1.
    - apply (L2 i s a H); [apply L1; auto | right; auto].
    - apply (L2 i s a H); [exact IHlive_after | left; auto].
  Qed.

  Theorem used_sound : forall i a, touched_before i a -> In a (used i).
  Proof. induction 1; [apply U1; auto | eapply U2; eauto]. Qed.

  (* livesets[m] = { i | m in liveat[i] and m in used[i] }  +  _mark_store_locations_live *)
  Definition in_liveset (m i : nat) : Prop := (In m (liveat i) /\ In m (used i)) \/ In m (writes i).

  (* if b is accessed at i while the value of a (referenced before) may still be read at or after i,
     then i belongs to the livesets of both: they interfere and are never overlapped by concretization *)
  Theorem interfere_sound : forall i a b,
    (In b (reads i) \/ In b (writes i)) ->
    touched_before i a -> (live_after i a \/ In a (reads i)) ->
    in_liveset a i /\ in_liveset b i.
  Proof.
    intros i a b Hb T La. split.
    - left. split; [|apply used_sound; auto]. destruct La as [La|La]; [apply liveat_sound; auto|apply L1; auto].
    - destruct Hb as [Hb|Hb]; [|right; auto]. left. split; [apply L1; auto|apply U1, R1; auto].
  Qed.
End Live.

(* ---------- verified checker for exported tables ---------- *)
Record mrow := mkM { m_succ : list nat; m_reads : list nat; m_writes : list nat; m_refs : list nat;
                     m_kill : option nat; m_liveat : list nat; m_used : list nat }.

Definition memb (a : nat) (l : list nat) : bool := existsb (Nat.eqb a) l.
Lemma memb_In : forall a l, memb a l = true <-> In a l.
Proof.
  intros. unfold memb. rewrite existsb_exists. split.
  - intros [x [I E]]. apply Nat.eqb_eq in E. subst. auto.
  - intros I. exists a. split; [auto|apply Nat.eqb_refl].
Qed.
Definition subset (l m : list nat) : bool := forallb (fun a => memb a m) l.
Lemma subset_In : forall l m, subset l m = true -> forall a, In a l -> In a m.
Proof. intros l m S a I. unfold subset in S. rewrite forallb_forall in S. apply memb_In. auto. Qed.

Definition row0 : mrow := mkM [] [] [] [] None [] [].
Definition rowat (tbl : list mrow) (i : nat) : mrow := nth i tbl row0.
Definition kill_is (r : mrow) (a : nat) : bool := match m_kill r with Some k => Nat.eqb k a | None => false end.

Definition row_check (tbl : list mrow) (r : mrow) : bool :=
  subset (m_reads r) (m_liveat r) && subset (m_refs r) (m_used r) && subset (m_reads r) (m_refs r) &&
  forallb (fun s =>
             (s <? length tbl) &&
             let rs := rowat tbl s in
             forallb (fun a => (kill_is rs a && negb (memb a (m_reads rs))) || memb a (m_liveat r)) (m_liveat rs) &&
             subset (m_used r) (m_used rs)) (m_succ r).
Definition table_check (tbl : list mrow) : bool := forallb (row_check tbl) tbl.

(* livesets: list of (alloca, instructions); every (m, i) required by the definition must be present *)
Definition liveset_of (ls : list (nat * list nat)) (m : nat) : list nat :=
  match find (fun p => Nat.eqb (fst p) m) ls with Some p => snd p | None => [] end.
Definition livesets_check (tbl : list mrow) (ls : list (nat * list nat)) : bool :=
  forallb (fun i => let r := rowat tbl i in
                    forallb (fun m => negb (memb m (m_used r)) || memb i (liveset_of ls m)) (m_liveat r) &&
                    forallb (fun m => memb i (liveset_of ls m)) (m_writes r))
          (seq 0 (length tbl)).
Definition memliveness_check (tbl : list mrow) (ls : list (nat * list nat)) : bool :=
  table_check tbl && livesets_check tbl ls.

Lemma rowat_in : forall tbl i, i < length tbl -> In (rowat tbl i) tbl.
Proof. intros. unfold rowat. apply nth_In. auto. Qed.

Theorem memliveness_check_sound : forall tbl ls, memliveness_check tbl ls = true ->
  let succ i := m_succ (rowat tbl i) in let reads i := m_reads (rowat tbl i) in
  let writes i := m_writes (rowat tbl i) in let refs i := m_refs (rowat tbl i) in
  let kill i := m_kill (rowat tbl i) in let liveat i := m_liveat (rowat tbl i) in let used i := m_used (rowat tbl i) in
  forall i a b, i < length tbl ->
    (In b (reads i) \/ In b (writes i)) ->
    touched_before succ refs i a -> (live_after succ reads kill i a \/ In a (reads i)) ->
    In i (liveset_of ls a) /\ In i (liveset_of ls b).
Proof.
  intros tbl ls C succ reads writes refs kill liveat used i a b Hi Hb T La.
  unfold memliveness_check in C. apply andb_prop in C. destruct C as [TC LC].
  unfold table_check in TC. rewrite forallb_forall in TC.
  (* rows outside the table are empty, so the inequations hold for every index *)
  assert (RC : forall j, row_check tbl (rowat tbl j) = true).
  { intros j. destruct (lt_dec j (length tbl)) as [L|L]; [apply TC, rowat_in; auto|].
    unfold rowat. rewrite nth_overflow by lia. reflexivity. }
  assert (Hyp : forall j, subset (reads j) (liveat j) = true /\ subset (refs j) (used j) = true /\ subset (reads j) (refs j) = true /\
                          forall s, In s (succ j) -> s < length tbl /\
                            (forall x, In x (liveat s) -> (kill s <> Some x \/ In x (reads s)) -> In x (liveat j)) /\
                            (forall x, In x (used j) -> In x (used s))).
  { intros j. specialize (RC j). unfold row_check in RC.
    apply andb_prop in RC. destruct RC as [RC S4]. apply andb_prop in RC. destruct RC as [RC S3].
    apply andb_prop in RC. destruct RC as [S1 S2].
    split; [exact S1|]. split; [exact S2|]. split; [exact S3|].
    intros s Is. rewrite forallb_forall in S4. specialize (S4 s Is).
    apply andb_prop in S4. destruct S4 as [Lt S4]. apply andb_prop in S4. destruct S4 as [Lv Us].
    split; [apply Nat.ltb_lt; exact Lt|]. split.
    - intros x Ix K. rewrite forallb_forall in Lv. specialize (Lv x Ix).
      apply orb_prop in Lv. destruct Lv as [Lv|Lv]; [|apply memb_In; exact Lv].
      apply andb_prop in Lv. destruct Lv as [K1 K2]. exfalso. unfold kill_is in K1.
      destruct K as [K|K].
      + unfold kill in K. destruct (m_kill (rowat tbl s)) as [k|]; [|discriminate]. apply Nat.eqb_eq in K1. subst. apply K. reflexivity.
      + apply memb_In in K. unfold reads in K. rewrite K in K2. discriminate.
    - intros x Ix. eapply subset_In; eauto. }
  assert (HL1 : forall j x, In x (reads j) -> In x (liveat j)).
  { intros j x I. destruct (Hyp j) as [A _]. eapply subset_In; eauto. }
  assert (HU1 : forall j x, In x (refs j) -> In x (used j)).
  { intros j x I. destruct (Hyp j) as [_ [A _]]. eapply subset_In; eauto. }
  assert (HR1 : forall j x, In x (reads j) -> In x (refs j)).
  { intros j x I. destruct (Hyp j) as [_ [_ [A _]]]. eapply subset_In; eauto. }
  assert (HL2 : forall j s x, In s (succ j) -> In x (liveat s) -> (kill s <> Some x \/ In x (reads s)) -> In x (liveat j)).
  { intros j s x Is Ix K. destruct (Hyp j) as [_ [_ [_ D]]]. destruct (D s Is) as [_ [A _]]. auto. }
  assert (HU2 : forall j s x, In s (succ j) -> In x (used j) -> In x (used s)).
  { intros j s x Is Ix. destruct (Hyp j) as [_ [_ [_ D]]]. destruct (D s Is) as [_ [_ A]]. auto. }
  pose proof (interfere_sound succ reads writes refs kill liveat used HL1 HL2 HU1 HU2 HR1 i a b Hb T La) as [Sa Sb].
  unfold livesets_check in LC. rewrite forallb_forall in LC.
  assert (Ii : In i (seq 0 (length tbl))) by (apply in_seq; lia). specialize (LC i Ii). cbv zeta in LC.
  apply andb_prop in LC. destruct LC as [LC1 LC2]. rewrite forallb_forall in LC1, LC2.
  assert (Conv : forall m, in_liveset writes liveat used m i -> In i (liveset_of ls m)).
  { intros m [[I1 I2]|I3].
    - specialize (LC1 m I1). apply orb_prop in LC1. destruct LC1 as [N|Y]; [|apply memb_In; auto].
      apply memb_In in I2. unfold used in I2. rewrite I2 in N. discriminate.
    - apply memb_In. apply LC2. exact I3. }
  split; apply Conv; auto.
Qed.
