(* C04: the bounds-check templates of vyper/codegen/core.py as parametric LIR generators, and
   their exact meaning against Base/Word256.v.  (Proof file; the generators are 3 lines each.)
   idx_check      : _get_element_ptr_array   seq(assert(iszero(or(LT ix 0, ge ix bound))), ix)
   buf_check      : check_buffer_overflow_ir with end (add start length) (assert (iszero (or (lt end start) (gt end src_len)))) *)
From Coq Require Import ZArith Bool List String Lia ZifyBool.
From Verif Require Import Base.Word256 C03.LIR.
Import ListNotations.
Open Scope Z_scope.

Definition idx_check (signed : bool) (bound : lir) : lir :=
  LSeq (LAssert (L1 OIszero (L2 OOr (L2 (if signed then OSlt else OLt) (LVar "ix"%string) (LInt 0))
                                    (L2 OGe (LVar "ix"%string) bound))))
       (LVar "ix"%string).

Definition buf_check (start len src_len : lir) : lir :=
  LWith "end"%string (L2 OAdd start len)
    (LAssert (L1 OIszero (L2 OOr (L2 OLt (LVar "end"%string) start) (L2 OGt (LVar "end"%string) src_len)))).

Lemma W_pos : W = 2 ^ 256. Proof. reflexivity. Qed.
Lemma HALF_pos : HALF = 2 ^ 255. Proof. reflexivity. Qed.

Ltac no_if t := lazymatch t with context [if _ then _ else _] => fail | _ => idtac end.
Ltac cmp1 :=
  match goal with
  | |- context [?a <? ?b] => no_if a; no_if b; destruct (Z.ltb_spec a b)
  | |- context [?a <=? ?b] => no_if a; no_if b; destruct (Z.leb_spec a b)
  | |- context [?a =? ?b] => is_var a; destruct (Z.eqb_spec a b)
  end.
(* innermost comparisons first, so that no hypothesis ever contains an [if] *)
Ltac cmp := repeat (first [rewrite Z.gtb_ltb | cmp1]; cbv beta iota).

(* the index the source program means: two's complement for signed index types *)
Definition idx_value (signed : bool) (x : Z) : Z := if signed then to_signed x else x.

Theorem index_check_iff_l : forall signed e x b bound,
  lookup e "ix"%string = Some x -> 0 <= x < W ->
  leval e bound = Val b -> 0 <= b < W ->
  leval e (idx_check signed bound) =
    if (0 <=? idx_value signed x) && (idx_value signed x <? b) then Val x else Revert.
Proof.
  intros signed e x b bound Hix Hx Hb Hbr. pose proof W_pos. pose proof HALF_pos.
  unfold idx_check. destruct signed; cbn [leval ev1 ev2 idx_value]; rewrite Hb, Hix;
    change (wrap 0) with 0; unfold w_slt; try replace (to_signed 0) with 0 by reflexivity;
    unfold w_iszero, w_or, w_lt, to_signed, b2z; cmp; cbn; try reflexivity; lia.
Qed.

Theorem buffer_overflow_check_iff_l : forall e s l n start len src_len,
  (forall v, leval (("end"%string, v) :: e) start = Val s) -> leval e start = Val s ->
  leval e len = Val l -> (forall v, leval (("end"%string, v) :: e) src_len = Val n) ->
  0 <= s < W -> 0 <= l < W -> 0 <= n < W ->
  leval e (buf_check start len src_len) = if s + l <=? n then Unit else Revert.
Proof.
  intros e s l n start len src_len Hs' Hs Hl Hn Rs Rl Rn. pose proof W_pos.
  unfold buf_check. cbn [leval ev1 ev2]. rewrite Hl, Hs. cbn [leval ev1 ev2 lookup String.eqb Ascii.eqb Bool.eqb].
  rewrite Hn, Hs'. unfold w_add, wrap.
  assert (E : (s + l) mod W = if s + l <? W then s + l else s + l - W).
  { destruct (Z.ltb_spec (s + l) W).
    - apply Z.mod_small. lia.
    - rewrite <- (Z.mod_small (s + l - W) W) by lia. replace (s + l - W) with (s + l + (-1) * W) by lia.
      rewrite Z.mod_add by lia. reflexivity. }
  rewrite E. unfold w_iszero, w_or, w_lt, w_gt, b2z. cmp; cbn; try reflexivity; lia.
Qed.

(* ================= round 2: remaining legacy templates ================= *)
(* append_dyn_array: assert (lt old_darray_len count) *)
Definition append_check (count : Z) : lir := LAssert (L2 OLt (LVar "old_darray_len"%string) (LInt count)).
(* pop_dyn_array: new_len = sub (clamp gt len 0) 1 *)
Definition pop_newlen (len : lir) : lir :=
  L2 OSub (LWith "clamp_arg"%string len
             (LSeq (LAssert (L2 OGt (LVar "clamp_arg"%string) (LInt 0))) (LVar "clamp_arg"%string))) (LInt 1).
(* Extract32: clamp2(0, ix, sub(len, 32), signed=True) *)
Definition extract32_check (ix len : lir) : lir :=
  LSeq (LAssert (L2 OAnd (L2 OSge ix (LInt 0)) (L2 OSle ix (L2 OSub len (LInt 32))))) ix.

Theorem append_within_bound_l : forall e n count,
  lookup e "old_darray_len"%string = Some n -> 0 <= n < W -> 0 <= count < W ->
  leval e (append_check count) = if n <? count then Unit else Revert.
Proof.
  intros e n count Hn Rn Rc. pose proof W_pos. unfold append_check. cbn [leval ev2]. rewrite Hn.
  unfold wrap. rewrite Z.mod_small by lia. unfold w_lt, b2z. cmp; cbn; try reflexivity; lia.
Qed.

Theorem pop_nonempty_l : forall e n len,
  leval e len = Val n -> 0 <= n < W ->
  leval e (pop_newlen len) = if 0 <? n then Val (n - 1) else Revert.
Proof.
  intros e n len Hl Rn. pose proof W_pos. unfold pop_newlen.
  cbn [leval ev2 lookup String.eqb Ascii.eqb Bool.eqb]. rewrite Hl.
  cbn [leval ev2 lookup String.eqb Ascii.eqb Bool.eqb].
  change (wrap 0) with 0. change (wrap 1) with 1. unfold w_gt, b2z. rewrite Z.gtb_ltb.
  destruct (Z.ltb_spec 0 n); cbn.
  - unfold w_sub, wrap. rewrite Z.mod_small by lia. reflexivity.
  - reflexivity.
Qed.

Theorem extract32_bounds_iff_l : forall e x n ix len,
  leval e ix = Val x -> leval e len = Val n -> 0 <= x < W -> 0 <= n < HALF ->
  leval e (extract32_check ix len) = if (x <? HALF) && (x + 32 <=? n) then Val x else Revert.
Proof.
  intros e x n ix len Hx Hn Rx Rn. pose proof W_pos. pose proof HALF_pos. unfold extract32_check.
  cbn [leval ev2]. rewrite Hn, Hx. change (wrap 32) with 32. change (wrap 0) with 0.
  unfold w_iszero, w_and, w_slt, w_sgt, b2z. replace (to_signed 0) with 0 by reflexivity.
  destruct (Z.leb_spec 32 n) as [L|L].
  - assert (S : w_sub n 32 = n - 32) by (unfold w_sub; apply Z.mod_small; lia).
    rewrite S. unfold to_signed. repeat rewrite Z.gtb_ltb. cmp; cbn; try reflexivity; lia.
  - assert (S : w_sub n 32 = n - 32 + W).
    { unfold w_sub. rewrite <- (Z.mod_small (n - 32 + W) W) by lia. replace (n - 32 + W) with (n - 32 + 1 * W) by lia.
      rewrite Z.mod_add by lia. reflexivity. }
    rewrite S. unfold to_signed. repeat rewrite Z.gtb_ltb. cmp; cbn; try reflexivity; lia.
Qed.

(* ================= round 2: venom templates (C03/VSL.v) ================= *)
From Coq Require Import Ascii.
From Verif Require Import C03.VSL.
Local Open Scope string_scope.

Definition vidx_check (signed : bool) (bound : vop) : list vinstr :=
  if signed then
    [V2 "t0" OSlt (VLit 0) (VVar "p1"); V2 "t1" OLt bound (VVar "p1"); V1 "t2" OIszero (VVar "t1");
     V2 "t3" OOr (VVar "t2") (VVar "t0"); V1 "t4" OIszero (VVar "t3"); VAssert (VVar "t4")]
  else
    [V2 "t0" OLt bound (VVar "p1"); V1 "t1" OIszero (VVar "t0"); V2 "t2" OOr (VVar "t1") (VLit 0);
     V1 "t3" OIszero (VVar "t2"); VAssert (VVar "t3")].

Definition vslice_check : list vinstr :=
  [V2 "t0" OAdd (VVar "p1") (VVar "p0"); V2 "t1" OLt (VVar "p0") (VVar "t0"); V2 "t2" OGt (VVar "p2") (VVar "t0");
   V2 "t3" OOr (VVar "t2") (VVar "t1"); V1 "t4" OIszero (VVar "t3"); VAssert (VVar "t4")].

Definition vextract32_check : list vinstr :=
  [V2 "t0" OAdd (VLit 32) (VVar "p0"); V2 "t1" OAdd (VLit 32) (VVar "p1"); V2 "t2" OLt (VVar "p1") (VVar "t1");
   V2 "t3" OGt (VVar "ld0") (VVar "t1"); V2 "t4" OOr (VVar "t3") (VVar "t2"); V1 "t5" OIszero (VVar "t4"); VAssert (VVar "t5")].

Definition vpop_check : list vinstr :=
  [V1 "t0" OIszero (VVar "ld0"); V1 "t1" OIszero (VVar "t0"); VAssert (VVar "t1")].
Definition vappend_check (count : Z) : list vinstr :=
  [V2 "t0" OLt (VLit count) (VVar "ld0"); VAssert (VVar "t0")].

Local Close Scope string_scope.

(* Some true = all asserts passed, Some false = reverted, None = ill-formed *)
Definition vpass (r : vres) : option bool :=
  match r with VOk _ => Some true | VRevert => Some false | VStuck => None end.

(* the bound operand is a literal or a variable that is not one of the template's temporaries *)
Definition not_t (s : string) : bool :=
  match s with String c _ => negb (Ascii.eqb "t"%char c) | EmptyString => true end.
Definition vop_fresh (a : vop) : bool := match a with VLit _ => true | VVar s => not_t s end.

Lemma t_neq : forall rest s, not_t s = true -> String.eqb (String "t"%char rest) s = false.
Proof.
  intros rest s H. destruct s as [|c s']; [reflexivity|]. cbn [String.eqb]. cbn [not_t] in H.
  destruct (Ascii.eqb "t"%char c); [discriminate|reflexivity].
Qed.

Lemma vval_skip : forall rest v e a, vop_fresh a = true -> vval ((String "t"%char rest, v) :: e) a = vval e a.
Proof. intros rest v e [n|s] H; cbn [vval lookup]; [reflexivity|]. rewrite (t_neq rest s H). reflexivity. Qed.

Ltac vstep1 :=
  cbn [vsl vstep vval lookup String.eqb Ascii.eqb Bool.eqb];
  repeat rewrite vval_skip by assumption.

Theorem venom_index_check_iff_l : forall signed e x b bound,
  lookup e "p1" = Some x -> 0 <= x < W -> vop_fresh bound = true -> vval e bound = Some b -> 0 <= b < W ->
  vpass (vsl e (vidx_check signed bound)) = Some ((0 <=? idx_value signed x) && (idx_value signed x <? b)).
Proof.
  intros signed e x b bound Hx Rx Fb Hb Rb. pose proof W_pos. pose proof HALF_pos.
  destruct signed; unfold vidx_check, idx_value.
  - vstep1. rewrite Hx. vstep1. rewrite Hb. vstep1. rewrite Hx. vstep1.
    change (wrap 0) with 0. unfold ev1, ev2, w_iszero, w_or, w_slt, w_lt. replace (to_signed 0) with 0 by reflexivity.
    unfold to_signed, b2z. cmp; cbn; try reflexivity; lia.
  - vstep1. rewrite Hb. vstep1. rewrite Hx. vstep1.
    change (wrap 0) with 0. unfold ev1, ev2, w_iszero, w_or, w_lt, b2z. cmp; cbn; try reflexivity; lia.
Qed.

Lemma add_wrap_cases : forall s l, 0 <= s < W -> 0 <= l < W ->
  (s + l) mod W = if s + l <? W then s + l else s + l - W.
Proof.
  intros s l Rs Rl. pose proof W_pos. destruct (Z.ltb_spec (s + l) W).
  - apply Z.mod_small. lia.
  - rewrite <- (Z.mod_small (s + l - W) W) by lia. replace (s + l - W) with (s + l + (-1) * W) by lia.
    rewrite Z.mod_add by lia. reflexivity.
Qed.

Theorem venom_slice_bounds_iff_l : forall e s l n,
  lookup e "p0" = Some s -> lookup e "p1" = Some l -> lookup e "p2" = Some n ->
  0 <= s < W -> 0 <= l < W -> 0 <= n < W ->
  vpass (vsl e vslice_check) = Some (s + l <=? n).
Proof.
  intros e s l n Hs Hl Hn Rs Rl Rn. pose proof W_pos. unfold vslice_check.
  vstep1. rewrite Hs, Hl. vstep1. rewrite Hs. vstep1. rewrite Hn. vstep1.
  unfold ev1, ev2, w_add, wrap. rewrite (add_wrap_cases s l Rs Rl).
  unfold w_iszero, w_or, w_lt, w_gt, b2z. cmp; cbn; try reflexivity; lia.
Qed.

Theorem venom_extract32_bounds_iff_l : forall e p s n,
  lookup e "p0" = Some p -> lookup e "p1" = Some s -> lookup e "ld0" = Some n ->
  0 <= s < W -> 0 <= n < W ->
  vpass (vsl e vextract32_check) = Some (s + 32 <=? n).
Proof.
  intros e p s n Hp Hs Hn Rs Rn. pose proof W_pos. unfold vextract32_check.
  vstep1. rewrite Hp. vstep1. rewrite Hs. vstep1. rewrite Hs. vstep1. rewrite Hn. vstep1.
  change (wrap 32) with 32. unfold ev1, ev2, w_add, wrap. rewrite (add_wrap_cases s 32 Rs ltac:(lia)).
  unfold w_iszero, w_or, w_lt, w_gt, b2z. cmp; cbn; try reflexivity; lia.
Qed.

Theorem venom_pop_nonempty_l : forall e n, lookup e "ld0" = Some n -> 0 <= n < W ->
  vpass (vsl e vpop_check) = Some (0 <? n).
Proof.
  intros e n Hn Rn. unfold vpop_check. vstep1. rewrite Hn. vstep1.
  unfold ev1, w_iszero, b2z. cmp; cbn; try reflexivity; lia.
Qed.

Theorem venom_append_within_bound_l : forall e n count, lookup e "ld0" = Some n -> 0 <= n < W -> 0 <= count < W ->
  vpass (vsl e (vappend_check count)) = Some (n <? count).
Proof.
  intros e n count Hn Rn Rc. pose proof W_pos. unfold vappend_check. vstep1. rewrite Hn. vstep1.
  unfold wrap. rewrite Z.mod_small by lia. unfold ev2, w_lt, b2z. cmp; cbn; try reflexivity; lia.
Qed.
