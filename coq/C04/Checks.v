(* C04: the bounds-check templates of vyper/codegen/core.py as parametric LIR generators, and
   their exact meaning against Base/Word256.v.  (Proof file; the generators are 3 lines each.)
   idx_check      : _get_element_ptr_array   seq(assert(iszero(or(LT ix 0, ge ix bound))), ix)
   buf_check      : check_buffer_overflow_ir with end (add start length) (assert (iszero (or (lt end start) (gt end src_len)))) *)
From Coq Require Import ZArith Bool List String Lia ZifyBool.
From Verif Require Import Base.Word256 C03.LIR.
Import ListNotations.
Open Scope Z_scope.

Definition idx_check (signed : bool) (bound : lir) : lir :=
  LSeq (LAssert (L1 OIszero (L2 OOr (L2 (if signed then OSlt else OLt) (LVar "ix"%string) (LInt 0))
                                    (L2 OGe (LVar "ix"%string) bound))))
       (LVar "ix"%string).

Definition buf_check (start len src_len : lir) : lir :=
  LWith "end"%string (L2 OAdd start len)
    (LAssert (L1 OIszero (L2 OOr (L2 OLt (LVar "end"%string) start) (L2 OGt (LVar "end"%string) src_len)))).

Lemma W_pos : W = 2 ^ 256. Proof. reflexivity. Qed.
Lemma HALF_pos : HALF = 2 ^ 255. Proof. reflexivity. Qed.

Ltac cmp :=
  repeat match goal with
         | |- context [?a <? ?b] => destruct (Z.ltb_spec a b)
         | |- context [?a >? ?b] => rewrite (Z.gtb_ltb a b)
         | |- context [?a <=? ?b] => destruct (Z.leb_spec a b)
         end.

(* the index the source program means: two's complement for signed index types *)
Definition idx_value (signed : bool) (x : Z) : Z := if signed then to_signed x else x.

Theorem index_check_iff_l : forall signed e x b bound,
  lookup e "ix"%string = Some x -> 0 <= x < W ->
  leval e bound = Val b -> 0 <= b < W ->
  leval e (idx_check signed bound) =
    if (0 <=? idx_value signed x) && (idx_value signed x <? b) then Val x else Revert.
Proof.
  intros signed e x b bound Hix Hx Hb Hbr. pose proof W_pos. pose proof HALF_pos.
  unfold idx_check. destruct signed; cbn [leval ev1 ev2 idx_value]; rewrite Hb, Hix;
    change (wrap 0) with 0; unfold w_slt; try replace (to_signed 0) with 0 by reflexivity;
    unfold w_iszero, w_or, w_lt, to_signed, b2z; cmp; cbn; try reflexivity; lia.
Qed.

Theorem buffer_overflow_check_iff_l : forall e s l n start len src_len,
  (forall v, leval (("end"%string, v) :: e) start = Val s) -> leval e start = Val s ->
  leval e len = Val l -> (forall v, leval (("end"%string, v) :: e) src_len = Val n) ->
  0 <= s < W -> 0 <= l < W -> 0 <= n < W ->
  leval e (buf_check start len src_len) = if s + l <=? n then Unit else Revert.
Proof.
  intros e s l n start len src_len Hs' Hs Hl Hn Rs Rl Rn. pose proof W_pos.
  unfold buf_check. cbn [leval ev1 ev2]. rewrite Hl, Hs. cbn [leval ev1 ev2 lookup String.eqb Ascii.eqb Bool.eqb].
  rewrite Hn, Hs'. unfold w_add, wrap.
  assert (E : (s + l) mod W = if s + l <? W then s + l else s + l - W).
  { destruct (Z.ltb_spec (s + l) W).
    - apply Z.mod_small. lia.
    - rewrite <- (Z.mod_small (s + l - W) W) by lia. replace (s + l - W) with (s + l + (-1) * W) by lia.
      rewrite Z.mod_add by lia. reflexivity. }
  rewrite E. unfold w_iszero, w_or, w_lt, w_gt, b2z. cmp; cbn; try reflexivity; lia.
Qed.
