(* C04: legacy call-frame layout (vyper/codegen/function_definitions/common.py: initialize_context,
   tag_frame_info).  A function's allocator starts at RESERVED_MEMORY + max(frame_size of its direct
   callees); frame_size = size_of_mem - RESERVED_MEMORY.  Model: the call DAG unfolded as a tree, each
   node carrying [own] = memory the function's own allocator expanded by (size_of_mem - start >= 0,
   legacy_alloc_inv).  Theorem frame_above_callees + a verified checker for real frame tables. *)
From Coq Require Import ZArith Bool List Lia ZifyBool.
Import ListNotations.
Open Scope Z_scope.

Inductive fn : Type := Fn (own : Z) (callees : list fn).

Definition fn_own (f : fn) : Z := match f with Fn o _ => o end.
Definition fn_callees (f : fn) : list fn := match f with Fn _ cs => cs end.

Fixpoint frame_size (f : fn) : Z :=
  match f with
  | Fn own cs => fold_right (fun c acc => Z.max (frame_size c) acc) 0 cs + own
  end.
Definition max_callee (f : fn) : Z := fold_right (fun c acc => Z.max (frame_size c) acc) 0 (fn_callees f).
Definition frame_start (R : Z) (f : fn) : Z := R + max_callee f.
Definition mem_used (R : Z) (f : fn) : Z := R + frame_size f.

Lemma frame_size_eq : forall f, frame_size f = max_callee f + fn_own f.
Proof. destruct f; reflexivity. Qed.

(* g is a transitive callee of f *)
Inductive desc : fn -> fn -> Prop :=
| d_direct : forall f g, In g (fn_callees f) -> desc f g
| d_trans : forall f c g, In c (fn_callees f) -> desc c g -> desc f g.

Inductive owns_nonneg : fn -> Prop :=
| on_intro : forall o cs, 0 <= o -> Forall owns_nonneg cs -> owns_nonneg (Fn o cs).

Lemma max_callee_ge : forall cs c, In c cs -> frame_size c <= fold_right (fun c acc => Z.max (frame_size c) acc) 0 cs.
Proof. induction cs; intros c I; [contradiction|]. cbn [fold_right]. destruct I as [<-|I]; [lia|]. specialize (IHcs c I). lia. Qed.

Lemma owns_callee : forall f c, owns_nonneg f -> In c (fn_callees f) -> owns_nonneg c.
Proof. intros f c O I. inversion O; subst. cbn in I. rewrite Forall_forall in H0. auto. Qed.

Lemma start_le_used : forall R f, owns_nonneg f -> frame_start R f <= mem_used R f.
Proof. intros R f O. unfold frame_start, mem_used. rewrite frame_size_eq. inversion O; subst. cbn. lia. Qed.

Theorem frame_above_callees_l : forall R f g, owns_nonneg f -> desc f g -> mem_used R g <= frame_start R f.
Proof.
  intros R f g O D. induction D.
  - unfold mem_used, frame_start, max_callee. pose proof (max_callee_ge _ _ H). lia.
  - pose proof (owns_callee _ _ O H) as Oc. specialize (IHD Oc).
    pose proof (start_le_used R c Oc). unfold mem_used, frame_start, max_callee in *.
    pose proof (max_callee_ge _ _ H). lia.
Qed.

(* ---------- verified checker for a real frame table ---------- *)
(* one row per function: frame_start, frame_size, memory variables (pos, size), indices of all
   transitively reachable internal functions *)
Record frow := mkRow { r_start : Z; r_size : Z; r_vars : list (Z * Z); r_reach : list nat }.

Definition row_ok (R : Z) (tbl : list frow) (r : frow) : bool :=
  forallb (fun v => (r_start r <=? fst v) && (0 <=? snd v) && (fst v + snd v <=? R + r_size r)) (r_vars r) &&
  forallb (fun k => match nth_error tbl k with
                    | Some g => (R + r_size g <=? r_start r) && (R <=? r_start g)
                    | None => false end) (r_reach r).
Definition frames_check (R : Z) (tbl : list frow) : bool := forallb (row_ok R tbl) tbl.

(* soundness: no memory variable of a function overlaps a variable of a function it (transitively) calls *)
Theorem frames_check_sound : forall R tbl, frames_check R tbl = true ->
  forall f, In f tbl -> forall k g, In k (r_reach f) -> nth_error tbl k = Some g ->
  forall v w, In v (r_vars f) -> In w (r_vars g) -> fst w + snd w <= fst v.
Proof.
  intros R tbl C f Hf k g Hk Hg v w Hv Hw. unfold frames_check in C. rewrite forallb_forall in C.
  pose proof (C f Hf) as Cf. apply nth_error_In in Hg as Hg'. pose proof (C g Hg') as Cg.
  unfold row_ok in Cf, Cg. apply andb_prop in Cf. destruct Cf as [Vf Rf]. apply andb_prop in Cg. destruct Cg as [Vg _].
  rewrite forallb_forall in Vf, Rf, Vg. specialize (Vf v Hv). specialize (Vg w Hw). specialize (Rf k Hk). rewrite Hg in Rf. lia.
Qed.

(* harness output: [frame_start; frame_size] of a tree *)
Definition frame_out (R : Z) (f : fn) : list Z := [frame_start R f; frame_size f].
