(* C04: container accesses in bounds or revert -- property theorems.
   O-tie: every bounds check the real code generator emits for the whole family (GenChecks.v, regenerated
   from vyper/codegen/core.py on every run) is syntactically one of the parametric templates of Checks.v. *)
From Coq Require Import ZArith Bool List String Lia.
From Verif Require Import Base.Word256 C03.LIR C04.AllocModel C04.AllocProofs C04.Checks C04.GenChecks.
Import ListNotations.
Open Scope Z_scope.

Theorem observed_index_checks_are_template :
  forallb (fun t => match t with (s, bnd, obs) => lir_eqb obs (idx_check s bnd) end) idx_observed = true.
Proof. vm_compute. reflexivity. Qed.

Theorem observed_buffer_checks_are_template :
  forallb (fun t => match t with (s, l, n, obs) => lir_eqb obs (buf_check (LVar s) (LVar l) (LVar n)) end) buf_observed = true.
Proof. vm_compute. reflexivity. Qed.

(* the emitted index check passes (and yields the index) iff 0 <= ix < bound, where ix is read as a
   two's-complement number for signed index types; otherwise it reverts *)
Theorem index_check_iff : forall signed e x b bound,
  lookup e "ix"%string = Some x -> 0 <= x < W ->
  leval e bound = Val b -> 0 <= b < W ->
  leval e (idx_check signed bound) =
    if (0 <=? idx_value signed x) && (idx_value signed x <? b) then Val x else Revert.
Proof. exact index_check_iff_l. Qed.
Print Assumptions index_check_iff.

(* check_buffer_overflow_ir passes iff start + length <= src_len in Z (no wrap-around) *)
Theorem buffer_overflow_check_iff : forall e s l n start len src_len,
  (forall v, leval (("end"%string, v) :: e) start = Val s) -> leval e start = Val s ->
  leval e len = Val l -> (forall v, leval (("end"%string, v) :: e) src_len = Val n) ->
  0 <= s < W -> 0 <= l < W -> 0 <= n < W ->
  leval e (buf_check start len src_len) = if s + l <=? n then Unit else Revert.
Proof. exact buffer_overflow_check_iff_l. Qed.
Print Assumptions buffer_overflow_check_iff.

(* Venom allocator: the returned block shares no byte with any reserved interval (any reserved
   set: unsorted, overlapping, empty or negative-size entries) *)
Theorem venom_allocate_avoids_reserved : forall reserved size r,
  In r reserved -> avoids (venom_allocate reserved size) size r.
Proof. exact venom_allocate_avoids_reserved_l. Qed.
Print Assumptions venom_allocate_avoids_reserved.

(* Legacy allocator, PARTIAL: one allocate step is safe under the state invariant [linv]
   (free blocks below next_mem and disjoint from live blocks; live blocks below next_mem).
   Missing for the full legacy_alloc_inv: preservation of [linv] by deallocate (insert/merge/shrink);
   that part is validated by the exact-output differential + executable invariant check only. *)
Theorem legacy_alloc_inv_partial : forall st live size p st',
  linv st live -> legacy_allocate st size = LOk p st' ->
  Forall (bdisj (p, size)) live /\ bend (p, size) <= next_mem st' /\ size mod 32 = 0 /\ 0 <= size /\
  next_mem st <= next_mem st' /\ next_mem st' <= Z.max (size_of_mem st') (next_mem st).
Proof. exact legacy_allocate_step_safe_l. Qed.
Print Assumptions legacy_alloc_inv_partial.

(* ---- non-vacuity ---- *)
Example index_check_nonvacuous :
  leval [("ix"%string, 4)] (idx_check true (LInt 5)) = Val 4 /\
  leval [("ix"%string, 5)] (idx_check true (LInt 5)) = Revert /\
  leval [("ix"%string, W - 1)] (idx_check true (LInt 5)) = Revert /\
  leval [("ix"%string, W - 1); ("len"%string, 3)] (idx_check false (LVar "len"%string)) = Revert /\
  leval [("ix"%string, 2); ("len"%string, 3)] (idx_check false (LVar "len"%string)) = Val 2.
Proof. repeat split; vm_compute; reflexivity. Qed.

Example buffer_check_nonvacuous :
  leval [("s"%string, 10); ("l"%string, 5); ("n"%string, 15)] (buf_check (LVar "s") (LVar "l") (LVar "n")) = Unit /\
  leval [("s"%string, 10); ("l"%string, 6); ("n"%string, 15)] (buf_check (LVar "s") (LVar "l") (LVar "n")) = Revert /\
  leval [("s"%string, W - 1); ("l"%string, 2); ("n"%string, 15)] (buf_check (LVar "s") (LVar "l") (LVar "n")) = Revert.
Proof. repeat split; vm_compute; reflexivity. Qed.

Example venom_alloc_nonvacuous :
  venom_allocate [(64, 32); (0, 64); (200, 10); (96, 0)] 64 = 96 /\
  venom_allocate [(64, 32); (0, 64)] 0 = 0 /\
  venom_allocate [] 32 = 0.
Proof. repeat split; vm_compute; reflexivity. Qed.

Example legacy_alloc_nonvacuous :
  run_ops [(0, 64); (0, 32); (0, 32); (1, 1); (0, 32); (1, 0); (0, 96)] (mkL 64 64 []) [] =
    [64; 128; 160; 192; 128; 192; 192; 288; 288; 64; 64].
Proof. vm_compute. reflexivity. Qed.
