(* C04: container accesses in bounds or revert -- property theorems.
   O-tie: every bounds check the real code generator emits for the whole family (GenChecks.v, regenerated
   from vyper/codegen/core.py on every run) is syntactically one of the parametric templates of Checks.v. *)
From Coq Require Import ZArith Bool List String Lia.
From Verif Require Import Base.Word256 Base.PyInt C03.LIR C03.VSL C04.AllocModel C04.AllocProofs C04.LegacyProofs C04.GenLegacy C04.LegacyTie C04.Frames C04.Concretize C04.MemLiveness C04.Fmp C04.GenVenomAlloc C04.VenomAllocSeq C04.Checks C04.GenChecks.
Import ListNotations.
Open Scope Z_scope.

Theorem observed_index_checks_are_template :
  forallb (fun t => match t with (s, bnd, obs) => lir_eqb obs (idx_check s bnd) end) idx_observed = true.
Proof. vm_compute. reflexivity. Qed.

Theorem observed_buffer_checks_are_template :
  forallb (fun t => match t with (s, l, n, obs) => lir_eqb obs (buf_check (LVar s) (LVar l) (LVar n)) end) buf_observed = true.
Proof. vm_compute. reflexivity. Qed.

(* round 2: append / pop / extract32 / slice (legacy) and subscript / slice / extract32 / pop / append (venom) *)
Theorem observed_more_checks_are_template :
  forallb (fun t => lir_eqb (snd t) (append_check (fst t))) append_observed = true /\
  forallb (fun t => lir_eqb t (pop_newlen (LVar "len"%string))) pop_observed = true /\
  forallb (fun t => lir_eqb t (extract32_check (LVar "ix"%string) (LVar "len"%string))) extract32_observed = true /\
  forallb (fun t => lir_eqb t (buf_check (LVar "start"%string) (LVar "length"%string) (LVar "len"%string))) slice_observed = true /\
  forallb (fun t => match t with (s, bnd, obs) => vlist_eqb obs (vidx_check s bnd) && vop_fresh bnd end) vsubscript_observed = true /\
  forallb (fun t => vlist_eqb t vslice_check) vslice_observed = true /\
  forallb (fun t => vlist_eqb t vextract32_check) vextract32_observed = true /\
  forallb (fun t => vlist_eqb t vpop_check) vpop_observed = true /\
  forallb (fun t => vlist_eqb (snd t) (vappend_check (fst t))) vappend_observed = true.
Proof. repeat split; vm_compute; reflexivity. Qed.

(* the emitted index check passes (and yields the index) iff 0 <= ix < bound, where ix is read as a
   two's-complement number for signed index types; otherwise it reverts *)
Theorem index_check_iff : forall signed e x b bound,
  lookup e "ix"%string = Some x -> 0 <= x < W ->
  leval e bound = Val b -> 0 <= b < W ->
  leval e (idx_check signed bound) =
    if (0 <=? idx_value signed x) && (idx_value signed x <? b) then Val x else Revert.
Proof. exact index_check_iff_l. Qed.
Print Assumptions index_check_iff.

(* check_buffer_overflow_ir passes iff start + length <= src_len in Z (no wrap-around) *)
Theorem buffer_overflow_check_iff : forall e s l n start len src_len,
  (forall v, leval (("end"%string, v) :: e) start = Val s) -> leval e start = Val s ->
  leval e len = Val l -> (forall v, leval (("end"%string, v) :: e) src_len = Val n) ->
  0 <= s < W -> 0 <= l < W -> 0 <= n < W ->
  leval e (buf_check start len src_len) = if s + l <=? n then Unit else Revert.
Proof. exact buffer_overflow_check_iff_l. Qed.
Print Assumptions buffer_overflow_check_iff.

Theorem append_within_bound : forall e n count,
  lookup e "old_darray_len"%string = Some n -> 0 <= n < W -> 0 <= count < W ->
  leval e (append_check count) = if n <? count then Unit else Revert.
Proof. exact append_within_bound_l. Qed.
Print Assumptions append_within_bound.

Theorem pop_nonempty : forall e n len, leval e len = Val n -> 0 <= n < W ->
  leval e (pop_newlen len) = if 0 <? n then Val (n - 1) else Revert.
Proof. exact pop_nonempty_l. Qed.
Print Assumptions pop_nonempty.

(* extract32 (legacy): passes and yields the index iff index + 32 <= len (index read as a non-negative
   signed word), for byte lengths below 2^255 *)
Theorem extract32_bounds_iff : forall e x n ix len,
  leval e ix = Val x -> leval e len = Val n -> 0 <= x < W -> 0 <= n < HALF ->
  leval e (extract32_check ix len) = if (x <? HALF) && (x + 32 <=? n) then Val x else Revert.
Proof. exact extract32_bounds_iff_l. Qed.
Print Assumptions extract32_bounds_iff.

(* slice (legacy) = buffer_overflow_check_iff at (start, length, len): see observed_more_checks_are_template *)
Theorem slice_bounds_iff : forall e s l n,
  lookup e "start"%string = Some s -> lookup e "length"%string = Some l -> lookup e "len"%string = Some n ->
  0 <= s < W -> 0 <= l < W -> 0 <= n < W ->
  leval e (buf_check (LVar "start"%string) (LVar "length"%string) (LVar "len"%string)) = if s + l <=? n then Unit else Revert.
Proof.
  intros e s l n Hs Hl Hn Rs Rl Rn. apply buffer_overflow_check_iff_l; auto; cbn [leval lookup String.eqb Ascii.eqb Bool.eqb]; intros;
    rewrite ?Hs, ?Hl, ?Hn; reflexivity.
Qed.
Print Assumptions slice_bounds_iff.

(* venom front end: subscript / slice / extract32 / pop / append bounds (vpass: Some true = passes, Some false = reverts) *)
Theorem venom_index_check_iff : forall signed e x b bound,
  lookup e "p1"%string = Some x -> 0 <= x < W -> vop_fresh bound = true -> vval e bound = Some b -> 0 <= b < W ->
  vpass (vsl e (vidx_check signed bound)) = Some ((0 <=? idx_value signed x) && (idx_value signed x <? b)).
Proof. exact venom_index_check_iff_l. Qed.
Print Assumptions venom_index_check_iff.

Theorem venom_slice_bounds_iff : forall e s l n,
  lookup e "p0"%string = Some s -> lookup e "p1"%string = Some l -> lookup e "p2"%string = Some n ->
  0 <= s < W -> 0 <= l < W -> 0 <= n < W -> vpass (vsl e vslice_check) = Some (s + l <=? n).
Proof. exact venom_slice_bounds_iff_l. Qed.
Print Assumptions venom_slice_bounds_iff.

Theorem venom_extract32_bounds_iff : forall e p s n,
  lookup e "p0"%string = Some p -> lookup e "p1"%string = Some s -> lookup e "ld0"%string = Some n ->
  0 <= s < W -> 0 <= n < W -> vpass (vsl e vextract32_check) = Some (s + 32 <=? n).
Proof. exact venom_extract32_bounds_iff_l. Qed.
Print Assumptions venom_extract32_bounds_iff.

Theorem venom_pop_nonempty : forall e n, lookup e "ld0"%string = Some n -> 0 <= n < W ->
  vpass (vsl e vpop_check) = Some (0 <? n).
Proof. exact venom_pop_nonempty_l. Qed.

Theorem venom_append_within_bound : forall e n count, lookup e "ld0"%string = Some n -> 0 <= n < W -> 0 <= count < W ->
  vpass (vsl e (vappend_check count)) = Some (n <? count).
Proof. exact venom_append_within_bound_l. Qed.

(* Venom allocator: the returned block shares no byte with any reserved interval (any reserved
   set: unsorted, overlapping, empty or negative-size entries) *)
Theorem venom_allocate_avoids_reserved : forall reserved size r,
  In r reserved -> avoids (venom_allocate reserved size) size r.
Proof. exact venom_allocate_avoids_reserved_l. Qed.
Print Assumptions venom_allocate_avoids_reserved.

(* Legacy allocator: for EVERY sequence of allocate / deallocate operations (allocation sizes > 0;
   deallocate frees the k-th currently live block) that the allocator accepts, the live blocks are
   pairwise disjoint, non-empty and inside [start, next_mem]; the free list is sorted, non-empty
   blocks, non-adjacent (gap >= 1), above start and strictly below next_mem, and every free block is
   disjoint from every live block; start <= next_mem <= size_of_mem.  (Invariant by induction over
   fold_left lstep ops.) *)
Theorem legacy_alloc_inv : forall ops start st live,
  0 <= start -> pos_sizes ops -> lrun ops (linit start) = Some (st, live) ->
  ForallOrdPairs bdisj live /\
  Forall (fun b => start <= fst b /\ 0 < snd b /\ bend b <= next_mem st) live /\
  chainG 1 start (free st) /\
  Forall (fun f => bend f < next_mem st) (free st) /\
  Forall (fun f => Forall (bdisj f) live) (free st) /\
  start <= next_mem st <= size_of_mem st.
Proof.
  intros ops start st live Hs P R. destruct (legacy_alloc_inv_l ops start (st, live) Hs P R).
  cbn [fst snd] in *. repeat split; auto; lia.
Qed.
Print Assumptions legacy_alloc_inv.

(* one allocation step under the invariant (kept from round 1; implied by the theorem above) *)
Theorem legacy_alloc_step_safe : forall st live size p st',
  linv st live -> legacy_allocate st size = LOk p st' ->
  Forall (bdisj (p, size)) live /\ bend (p, size) <= next_mem st' /\ size mod 32 = 0 /\ 0 <= size /\
  next_mem st <= next_mem st' /\ next_mem st' <= Z.max (size_of_mem st') (next_mem st).
Proof. exact legacy_allocate_step_safe_l. Qed.

(* T-tie: the arithmetic of the model is the regenerated source (partially_allocate, _expand_memory) *)
Theorem legacy_model_uses_generated_kernels :
  (forall p s rest size, size < s ->
     take_free ((p, s) :: rest) size =
       match partially_allocate p s size with Ok (r, p', s') => Some (r, (p', s') :: rest) | Err _ => None end) /\
  (forall st size, size mod 32 = 0 -> 0 <= size -> take_free (free st) size = None ->
     legacy_allocate st size =
       match expand_memory (next_mem st) (size_of_mem st) GEN_ALLOCATION_LIMIT size with
       | Ok (p, nm, sm) => LOk p (mkL nm sm (free st)) | Err _ => LErr end).
Proof. split; [exact take_free_head_larger | exact legacy_allocate_expand_is_generated]. Qed.
Print Assumptions legacy_model_uses_generated_kernels.

(* Legacy call frames: every transitive callee's whole frame [RESERVED, RESERVED + frame_size g) ends at or
   below the first byte the caller's own allocator can hand out (frame_start f); own >= 0 is
   legacy_alloc_inv's  start <= size_of_mem. *)
Theorem frame_above_callees : forall R f g, owns_nonneg f -> desc f g -> mem_used R g <= frame_start R f.
Proof. exact frame_above_callees_l. Qed.
Print Assumptions frame_above_callees.

(* verified checker for real frame tables (evaluated by vm_compute on the tables exported from the compiler) *)
Theorem frames_checker_sound : forall R tbl, frames_check R tbl = true ->
  forall f, In f tbl -> forall k g, In k (r_reach f) -> nth_error tbl k = Some g ->
  forall v w, In v (r_vars f) -> In w (r_vars g) -> fst w + snd w <= fst v.
Proof. exact frames_check_sound. Qed.
Print Assumptions frames_checker_sound.

(* Venom ConcretizeMemLocPass greedy loop, for any interference relation, any pinned allocations, any
   order of placement: the result is pinned ++ news where news has the requested ids/sizes in order, and
   every newly placed alloca shares no byte with a global allocation nor with any alloca placed before it
   (pinned ones included) that it interferes with. *)
Theorem concretize_interfering_disjoint : forall interf globals pinned todo,
  exists news, concretize interf globals pinned todo = pinned ++ news /\
               map (fun p => (p_id p, snd p)) news = todo /\
               good_from interf globals pinned news.
Proof. exact concretize_interfering_disjoint_l. Qed.
Print Assumptions concretize_interfering_disjoint.

(* verified checker applied (vm_compute) to the real pass output: allocas with intersecting livesets (at least
   one of them placed by this pass) share no byte; placed allocas avoid the global allocations *)
Theorem no_overlap_if_interfere_sound : forall globals l, no_overlap_if_interfere globals l = true ->
  (forall i j a b, (i < j)%nat -> nth_error l i = Some a -> nth_error l j = Some b ->
     (a_new a || a_new b) = true -> live_meet a b = true ->
     forall x, a_off a <= x < a_off a + a_size a -> ~ (a_off b <= x < a_off b + a_size b)) /\
  (forall a g, In a l -> a_new a = true -> In g globals ->
     forall x, a_off a <= x < a_off a + a_size a -> ~ (fst g <= x < fst g + snd g)).
Proof. exact no_overlap_checker_sound. Qed.
Print Assumptions no_overlap_if_interfere_sound.

(* venom MemoryAllocator as an object (round 4).  T-tie: the first-fit loop regenerated from the source of
   MemoryAllocator.allocate (allocate_scan) is the model's scan; for EVERY sequence of start_fn / reset / reserve /
   reserve_all / add_allocated / allocate / add_global / set_position calls, each interval returned by allocate starts
   at or above FN_START = 0 and shares no byte with any interval reserved at that moment *)
Theorem venom_allocate_loop_is_source : forall reserved size,
  allocate_scan (isort reserved) GEN_FN_START size = Ok (venom_allocate reserved size).
Proof. exact venom_allocate_is_generated. Qed.
Print Assumptions venom_allocate_loop_is_source.

Theorem venom_alloc_seq_disjoint : forall ops st' evs,
  vmrun vm0 ops = Some (st', evs) ->
  forall id ptr size resv, In (id, ptr, size, resv) evs ->
    0 <= ptr /\ forall r, In r resv -> avoids ptr size r.
Proof. intros ops st' evs R. eapply venom_alloc_seq_disjoint_l; eauto. Qed.
Print Assumptions venom_alloc_seq_disjoint.

(* fmp_lowering: the size rounding emitted for `dalloca` is ceil32 (observed template = vceil32), and bump
   allocation with LIFO rewinds keeps the live dynamic regions stacked: pairwise disjoint, above the static frame
   (eom) and below the free-memory pointer; every new region starts at the old pointer, i.e. above all live ones *)
Theorem observed_fmp_ceil32_is_template : vtemplate_eqb fmp_ceil32_observed vceil32 = true.
Proof. vm_compute. reflexivity. Qed.

Theorem fmp_ceil32_correct : forall e s, lookup e "p0"%string = Some s -> 0 <= s -> s + 31 < W ->
  vrun e vceil32 = Val (ceil32z s) /\ ceil32z s mod 32 = 0 /\ s <= ceil32z s < s + 32.
Proof. exact fmp_ceil32_correct_l. Qed.
Print Assumptions fmp_ceil32_correct.

Theorem fmp_bump_disjoint : forall ops fmp0 eom fmp live,
  sizes_ok ops -> eom <= fmp0 -> frun ops (fmp0, []) = (fmp, live) ->
  ForallOrdPairs (fun a b => fst a + snd a <= fst b) live /\
  (forall p n, In (p, n) live -> eom <= p /\ p + n <= fmp).
Proof.
  intros ops fmp0 eom fmp live P E R. pose proof (fmp_bump_stacked_l ops fmp0 [] eom P E) as S. rewrite R in S.
  split; [eapply stacked_disjoint; eauto | intros p n I; eapply stacked_bounds; eauto].
Qed.
Print Assumptions fmp_bump_disjoint.

(* MemLivenessAnalysis: any tables satisfying the analysis' fixpoint inequations over-approximate true liveness
   (live_after: a path to a read with no complete overwrite in between) and "referenced before"; therefore, if b is
   accessed at instruction i while the value of a (referenced before i) may still be read at/after i, both livesets
   contain i -- such allocas interfere and concretize_interfering_disjoint keeps them apart.
   Assumed (not proved): BasePtrAnalysis / memory_location tables give sound reads / writes / kill sets. *)
Theorem memliveness_sound : forall succ reads writes refs kill liveat used,
  (forall i a, In a (reads i) -> In a (liveat i)) ->
  (forall i s a, In s (succ i) -> In a (liveat s) -> (kill s <> Some a \/ In a (reads s)) -> In a (liveat i)) ->
  (forall i a, In a (refs i) -> In a (used i)) ->
  (forall i s a, In s (succ i) -> In a (used i) -> In a (used s)) ->
  (forall i a, In a (reads i) -> In a (refs i)) ->
  (forall i a, live_after succ reads kill i a -> In a (liveat i)) /\
  (forall i a, touched_before succ refs i a -> In a (used i)) /\
  (forall i a b, (In b (reads i) \/ In b (writes i)) -> touched_before succ refs i a ->
     (live_after succ reads kill i a \/ In a (reads i)) ->
     in_liveset writes liveat used a i /\ in_liveset writes liveat used b i).
Proof.
  intros succ reads writes refs kill liveat used L1 L2 U1 U2 R1. split; [|split].
  - apply liveat_sound; auto.
  - apply used_sound; auto.
  - apply interfere_sound; auto.
Qed.
Print Assumptions memliveness_sound.

(* verified checker evaluated (vm_compute) on the tables of the real analysis *)
Theorem memliveness_checker_sound : forall tbl ls, memliveness_check tbl ls = true ->
  let succ i := m_succ (rowat tbl i) in let reads i := m_reads (rowat tbl i) in
  let writes i := m_writes (rowat tbl i) in let refs i := m_refs (rowat tbl i) in
  let kill i := m_kill (rowat tbl i) in
  forall i a b, (i < List.length tbl)%nat ->
    (In b (reads i) \/ In b (writes i)) ->
    touched_before succ refs i a -> (live_after succ reads kill i a \/ In a (reads i)) ->
    In i (liveset_of ls a) /\ In i (liveset_of ls b).
Proof. intros tbl ls C. cbv zeta. intros. eapply (memliveness_check_sound tbl ls C); eauto. Qed.
Print Assumptions memliveness_checker_sound.

(* ---- non-vacuity ---- *)
Example memliveness_nonvacuous :
  (* 0: write a(0) fully; 1: write b(1) fully; 2: read a; 3: read b *)
  let tbl := [mkM [1%nat] [] [0%nat] [0%nat] (Some 0%nat) [0%nat] [0%nat];
              mkM [2%nat] [] [1%nat] [1%nat] (Some 1%nat) [0%nat; 1%nat] [0%nat; 1%nat];
              mkM [3%nat] [0%nat] [] [0%nat] None [0%nat; 1%nat] [0%nat; 1%nat];
              mkM [] [1%nat] [] [1%nat] None [1%nat] [0%nat; 1%nat]] in
  memliveness_check tbl [(0%nat, [0%nat; 1%nat; 2%nat]); (1%nat, [1%nat; 2%nat; 3%nat])] = true /\
  memliveness_check tbl [(0%nat, [0%nat; 2%nat]); (1%nat, [1%nat; 2%nat; 3%nat])] = false /\
  live_after (fun i => m_succ (rowat tbl i)) (fun i => m_reads (rowat tbl i)) (fun i => m_kill (rowat tbl i)) 1%nat 0%nat.
Proof.
  cbv zeta. split; [vm_compute; reflexivity|]. split; [vm_compute; reflexivity|].
  eapply la_read; [left; reflexivity|left; reflexivity].
Qed.

Example venom_seq_nonvacuous :
  vm_trace [MAllocate 0%nat 64; MReserve 0%nat; MAllocate 1%nat 32; MAddGlobal 1%nat; MReset; MAllocate 2%nat 96;
            MReserveAll; MAllocate 3%nat 32] = [0; 64; 96; 192] /\
  vm_trace [MAllocate 0%nat 64; MAllocate 0%nat 64] = [-1].
Proof. split; vm_compute; reflexivity. Qed.

Example fmp_nonvacuous :
  vrun [("p0"%string, 33)] vceil32 = Val 64 /\ vrun [("p0"%string, 0)] vceil32 = Val 0 /\
  frun [FBump 10; FBump 33; FBump 1; FRewind 1%nat; FBump 5] (640, []) = (704, [(640, 32); (672, 32)]).
Proof. repeat split; vm_compute; reflexivity. Qed.

Example concretize_nonvacuous :
  concretize_out [(0%nat, 1%nat); (1%nat, 2%nat)] [(0, 32)] [(0%nat, 64, 64)] [(1%nat, 64); (2%nat, 32)] = [64; 128; 32] /\
  no_overlap_if_interfere [(0, 32)] [mkA 64 64 [1; 2] false; mkA 128 64 [2; 3] true; mkA 32 32 [3] true] = true /\
  no_overlap_if_interfere [] [mkA 64 64 [1; 2] false; mkA 96 64 [2; 3] true] = false.
Proof. repeat split; vm_compute; reflexivity. Qed.

Example frames_nonvacuous :
  let leaf := Fn 224 [] in let mid := Fn 256 [leaf] in let other := Fn 320 [] in let top := Fn 96 [mid; other] in
  owns_nonneg top /\ desc top leaf /\ frame_start 64 top = 544 /\ frame_size top = 576 /\ mem_used 64 leaf = 288 /\
  frames_check 64 [mkRow 64 224 [(64, 96); (160, 128)] []; mkRow 288 480 [(288, 32)] [0%nat]] = true /\
  frames_check 64 [mkRow 64 224 [(64, 96); (160, 128)] []; mkRow 256 480 [(256, 32)] [0%nat]] = false.
Proof.
  cbv zeta. split; [|split; [|repeat split; vm_compute; reflexivity]].
  - repeat (constructor; try lia).
  - eapply d_trans; [left; reflexivity|]. apply d_direct. left. reflexivity.
Qed.

Example index_check_nonvacuous :
  leval [("ix"%string, 4)] (idx_check true (LInt 5)) = Val 4 /\
  leval [("ix"%string, 5)] (idx_check true (LInt 5)) = Revert /\
  leval [("ix"%string, W - 1)] (idx_check true (LInt 5)) = Revert /\
  leval [("ix"%string, W - 1); ("len"%string, 3)] (idx_check false (LVar "len"%string)) = Revert /\
  leval [("ix"%string, 2); ("len"%string, 3)] (idx_check false (LVar "len"%string)) = Val 2.
Proof. repeat split; vm_compute; reflexivity. Qed.

Example more_checks_nonvacuous :
  leval [("old_darray_len"%string, 4)] (append_check 5) = Unit /\ leval [("old_darray_len"%string, 5)] (append_check 5) = Revert /\
  leval [("len"%string, 0)] (pop_newlen (LVar "len"%string)) = Revert /\ leval [("len"%string, 3)] (pop_newlen (LVar "len"%string)) = Val 2 /\
  leval [("ix"%string, 8); ("len"%string, 40)] (extract32_check (LVar "ix"%string) (LVar "len"%string)) = Val 8 /\
  leval [("ix"%string, 9); ("len"%string, 40)] (extract32_check (LVar "ix"%string) (LVar "len"%string)) = Revert /\
  leval [("ix"%string, 0); ("len"%string, 31)] (extract32_check (LVar "ix"%string) (LVar "len"%string)) = Revert /\
  vpass (vsl [("p1"%string, 4)] (vidx_check true (VLit 5))) = Some true /\
  vpass (vsl [("p1"%string, W - 1)] (vidx_check true (VLit 5))) = Some false /\
  vpass (vsl [("p1"%string, 3); ("ld0"%string, 3)] (vidx_check false (VVar "ld0"%string))) = Some false /\
  vpass (vsl [("p0"%string, 10); ("p1"%string, 5); ("p2"%string, 15)] vslice_check) = Some true /\
  vpass (vsl [("p0"%string, W - 1); ("p1"%string, 5); ("p2"%string, 15)] vslice_check) = Some false.
Proof. repeat split; vm_compute; reflexivity. Qed.

Example buffer_check_nonvacuous :
  leval [("s"%string, 10); ("l"%string, 5); ("n"%string, 15)] (buf_check (LVar "s") (LVar "l") (LVar "n")) = Unit /\
  leval [("s"%string, 10); ("l"%string, 6); ("n"%string, 15)] (buf_check (LVar "s") (LVar "l") (LVar "n")) = Revert /\
  leval [("s"%string, W - 1); ("l"%string, 2); ("n"%string, 15)] (buf_check (LVar "s") (LVar "l") (LVar "n")) = Revert.
Proof. repeat split; vm_compute; reflexivity. Qed.

Example venom_alloc_nonvacuous :
  venom_allocate [(64, 32); (0, 64); (200, 10); (96, 0)] 64 = 96 /\
  venom_allocate [(64, 32); (0, 64)] 0 = 0 /\
  venom_allocate [] 32 = 0.
Proof. repeat split; vm_compute; reflexivity. Qed.

Example legacy_inv_nonvacuous :
  pos_sizes [OAlloc 64; OAlloc 32; OAlloc 32; OFree 1%nat; OAlloc 32; OFree 0%nat; OAlloc 96] /\
  lrun [OAlloc 64; OAlloc 32; OAlloc 32; OFree 1%nat; OAlloc 32; OFree 0%nat; OAlloc 96] (linit 64) =
    Some (mkL 288 288 [(64, 64)], [(160, 32); (128, 32); (192, 96)]).
Proof. split; [repeat constructor|vm_compute; reflexivity]. Qed.

Example legacy_alloc_nonvacuous :
  run_ops [(0, 64); (0, 32); (0, 32); (1, 1); (0, 32); (1, 0); (0, 96)] (mkL 64 64 []) [] =
    [64; 128; 160; 192; 128; 192; 192; 288; 288; 64; 64].
Proof. vm_compute. reflexivity. Qed.
