(* C04 (session 3) property theorems: the stores of the legacy slice() copy stay inside the builtin's own buffer.
   GenSliceBuf.v is regenerated on every run from the real Slice.build_IR / copy_bytes (tools/vlib/c04_slicebuf.py). *)
From Coq Require Import ZArith List Bool String Lia.
From Verif Require Import Base.Word256 C03.LIR C04.SliceBufModel C04.GenSliceBuf.
Import ListNotations.
Open Scope Z_scope.

(* every observed record (source location x type x capacity x literal / run-time length) is an instance of the template *)
Theorem observed_slice_copies_are_template : forallb cpy_is_tpl slice_copy_observed = true.
Proof. vm_compute. reflexivity. Qed.
Print Assumptions observed_slice_copies_are_template.

(* ... and the allocation handed out by the real allocator covers the template's worst case:
   word loop: 32 * BOUND + 32 <= alloc;  bulk copy: 32 + dst_maxlen <= alloc;  single word: 64 <= alloc *)
Theorem observed_slice_buffers_suffice :
  forallb (fun o => alloc_ok o && (so_buf o + so_alloc o <? W)) slice_copy_observed = true.
Proof. vm_compute. reflexivity. Qed.
Print Assumptions observed_slice_buffers_suffice.

(* template + alloc_ok  ==>  every store of slice() (copy, then length word) lies inside [buf, buf+alloc), for ALL
   start / length words (byte-addressed sources: length <= dst_maxlen, which the bounds check start+length <= len(src)
   <= maxlen gives for a run-time length; a literal length IS dst_maxlen) *)
Theorem slice_copy_in_buffer : forall o start length,
  cpy_is_tpl o = true -> alloc_ok o = true ->
  0 <= start < W -> 0 <= length < W -> so_buf o + so_alloc o < W ->
  (so_word o = false -> length <= so_dstmax o) ->
  exists ws, slice_writes o start length = Some ws /\
             Forall (inside (so_buf o) (so_buf o + so_alloc o)) ws.
Proof. exact slice_copy_in_buffer_l. Qed.
Print Assumptions slice_copy_in_buffer.

Theorem observed_slice_writes_in_buffer : forall o, In o slice_copy_observed ->
  forall start length, 0 <= start < W -> 0 <= length < W ->
  (so_word o = false -> length <= so_dstmax o) ->
  exists ws, slice_writes o start length = Some ws /\
             Forall (inside (so_buf o) (so_buf o + so_alloc o)) ws.
Proof. exact (observed_writes_in_buffer_l slice_copy_observed observed_slice_copies_are_template observed_slice_buffers_suffice). Qed.
Print Assumptions observed_slice_writes_in_buffer.

(* the slack word is necessary: the same template with alloc = 32 + ceil32(33) stores past the end at start = 1 *)
Theorem slice_slack_is_needed :
  cpy_is_tpl (sample_word 96) = true /\ alloc_ok (sample_word 96) = false /\
  slice_writes (sample_word 96) 1 33 = Some [(95, 32); (127, 32); (159, 32); (64, 32)] /\
  ~ inside 64 (64 + 96) (159, 32).
Proof. exact slice_slack_needed. Qed.
Print Assumptions slice_slack_is_needed.

(* non-vacuity: the family is not empty, contains word-addressed members with a bound that is not a multiple of 32,
   and the theorem's conclusion is computed on a concrete member / input *)
Example slice_family_nonvacuous :
  (0 <? Z.of_nat (List.length (filter (fun o => so_word o && negb (so_dstmax o mod 32 =? 0)) slice_copy_observed))) = true.
Proof. vm_compute. reflexivity. Qed.
Example slice_writes_sample :
  slice_writes (sample_word 128) 31 33 = Some [(65, 32); (97, 32); (129, 32); (64, 32)] /\ alloc_ok (sample_word 128) = true.
Proof. split; vm_compute; reflexivity. Qed.
