(* C04 (session 3, seed m6): x.append(<arg>) when evaluating <arg> may change x itself.
   A DynArray object is its current length and its backing slots (slots at or above the length are dead storage).
   An argument expression is an arbitrary partial state transformer yielding a value: it may append to / pop from the
   object (internal call, re-entrant external call, x.pop() in the expression) or revert. *)
From Coq Require Import ZArith List Bool Lia.
Import ListNotations.
Open Scope Z_scope.

Record arr := mkArr { alen : Z; aslot : Z -> Z }.
Definition upd (f : Z -> Z) (k v : Z) : Z -> Z := fun i => if i =? k then v else f i.
(* source-level view: only the live prefix *)
Definition live (a : arr) (i : Z) : option Z := if (0 <=? i) && (i <? alen a) then Some (aslot a i) else None.

Definition argeff := arr -> option (arr * Z).
Definition pure_arg (v : Z) : argeff := fun a => Some (a, v).

(* SOURCE semantics: the argument is evaluated first; then ONE element is written at the current length (revert at the bound) *)
Definition push (B : Z) (a : arr) (v : Z) : option arr :=
  if alen a <? B then Some (mkArr (alen a + 1) (upd (aslot a) (alen a) v)) else None.
Definition spec_append (B : Z) (e : argeff) (a : arr) : option arr :=
  match e a with Some (a1, v) => push B a1 v | None => None end.

(* what core.append_dyn_array emits for (darray, elem): load the length, cache it, assert (lt len B); THEN evaluate elem and store
   it at the cached length; then store cached length + 1 (template append_check in Checks.v, tied by observed_more_checks_are_template) *)
Definition emitted_append (B : Z) (elem : argeff) (a : arr) : option arr :=
  let l := alen a in
  if l <? B then
    match elem a with Some (a1, v) => Some (mkArr (l + 1) (upd (aslot a1) l v)) | None => None end
  else None.

(* what Expr.parse_Call emits when it stages the argument: tmp := <arg>; append_dyn_array(darray, tmp) -- tmp is a leaf *)
Definition staged_append (B : Z) (e : argeff) (a : arr) : option arr :=
  match e a with Some (a1, v) => emitted_append B (pure_arg v) a1 | None => None end.

Definition keeps_len (e : argeff) : Prop := forall a a1 v, e a = Some (a1, v) -> alen a1 = alen a.

(* one observed call of append_dyn_array made by the real Expr.parse_Call (GenSelfMut.v):
   leaf: the element node has no operands (a variable / literal: nothing is evaluated after the length load);
   calls: the array is not a memory local and the element node (including the bodies of the internal functions it invokes)
          contains an external call (call / staticcall / delegatecall / create, create2);
   wshared: the element node (including those bodies) contains a store and mentions a variable that the array expression mentions *)
Record site := mkSite { s_leaf : bool; s_calls : bool; s_wshared : bool }.
Definition may_mutate (s : site) : bool := s_calls s || s_wshared s.
Definition site_ok (s : site) : bool := s_leaf s || negb (may_mutate s).
Definition site_sem (s : site) (B : Z) (e : argeff) (a : arr) : option arr :=
  if s_leaf s then staged_append B e a else emitted_append B e a.

(* witnesses for the refutation of the lazy order *)
Definition a_two : arr := mkArr 2 (fun i => if i =? 0 then 10 else if i =? 1 then 20 else 0).
Definition arg_pushes (B v : Z) : argeff := fun a => match push B a v with Some a1 => Some (a1, v + 1) | None => None end.
Definition arg_pops : argeff := fun a => if 0 <? alen a then Some (mkArr (alen a - 1) (aslot a), aslot a (alen a - 1)) else None.
Definition dump (n : nat) (r : option arr) : option (Z * list Z) :=
  match r with Some a => Some (alen a, map (fun i => aslot a (Z.of_nat i)) (seq 0 n)) | None => None end.
