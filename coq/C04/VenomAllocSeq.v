(* C04 round 4: vyper/venom/memory_allocator.py as a state machine over arbitrary call sequences.
   T-tie: the first-fit loop of MemoryAllocator.allocate is regenerated from source (GenVenomAlloc.v
   allocate_scan, py2coq LoopTranslator) and proved equal to AllocModel.scan for all inputs; sorted(list(set))
   is the hand-modelled isort (order-insensitive by venom_allocate_avoids_reserved; exact differential).
   Theorem: for every sequence of start_fn / reset / reserve / reserve_all / allocate / add_global / set_position
   calls, every interval returned by allocate is disjoint from every interval reserved at that moment (the
   simultaneously live allocations) and starts at or above FN_START. *)
From Coq Require Import ZArith Bool List Lia.
From Verif Require Import Base.PyInt C04.AllocModel C04.AllocProofs C04.GenVenomAlloc.
Import ListNotations.
Open Scope Z_scope.

Lemma for_res_scan : forall reserved ptr size,
  allocate_scan reserved ptr size = Ok (scan reserved ptr size).
Proof.
  unfold allocate_scan. induction reserved as [|[rp rs] l IH]; intros ptr size; cbn [for_res scan bind]; [reflexivity|].
  destruct (rp + rs <=? ptr) eqn:A; cbn [bind snd fst].
  - apply IH.
  - destruct (rp >=? ptr + size) eqn:B; cbn [bind snd fst]; [reflexivity|apply IH].
Qed.

Lemma fn_start_generated : FN_START = GEN_FN_START. Proof. reflexivity. Qed.

Theorem venom_allocate_is_generated : forall reserved size,
  allocate_scan (isort reserved) GEN_FN_START size = Ok (venom_allocate reserved size).
Proof. intros. rewrite <- fn_start_generated. apply for_res_scan. Qed.

(* ---------- the allocator object ---------- *)
Inductive vmop :=
| MStartFn                       (* start_fn_allocation: reserved := globals, allocated_fn := {} *)
| MReset                         (* reset: reserved := globals *)
| MReserve (id : nat)            (* reserve(alloca) *)
| MReserveAll                    (* reserve every alloca of allocated_fn *)
| MAllocate (id : nat) (size : Z)
| MAddGlobal (id : nat)
| MSetPos (id : nat) (ptr size : Z)    (* set_position (clone_alloca): pinned position *)
| MAddFn (ids : list nat).             (* add_allocated: already placed allocas used by this function *)

Record vmst := mkVM { v_alloc : list (nat * (Z * Z)); v_glob : list (Z * Z); v_resv : list (Z * Z); v_fn : list nat }.
Definition vm0 : vmst := mkVM [] [] [] [].

Fixpoint aget (l : list (nat * (Z * Z))) (id : nat) : option (Z * Z) :=
  match l with [] => None | (k, v) :: l' => if Nat.eqb k id then Some v else aget l' id end.

(* self.reserved is a set: adding an interval twice has no effect *)
Definition iv_eqb (a b : Z * Z) : bool := (fst a =? fst b) && (snd a =? snd b).
Definition radd (iv : Z * Z) (l : list (Z * Z)) : list (Z * Z) := if existsb (iv_eqb iv) l then l else iv :: l.

(* an allocate event: id, returned pointer, size, intervals reserved when it was placed *)
Definition vevent := (nat * Z * Z * list (Z * Z))%type.

Definition vmstep (st : vmst) (o : vmop) : option (vmst * list vevent) :=
  match o with
  | MStartFn => Some (mkVM (v_alloc st) (v_glob st) (v_glob st) [], [])
  | MReset => Some (mkVM (v_alloc st) (v_glob st) (v_glob st) (v_fn st), [])
  | MReserve id =>
      match aget (v_alloc st) id with
      | Some iv => Some (mkVM (v_alloc st) (v_glob st) (radd iv (v_resv st)) (v_fn st), [])
      | None => None
      end
  | MReserveAll =>
      Some (mkVM (v_alloc st) (v_glob st)
                 (fold_right (fun id acc => match aget (v_alloc st) id with Some iv => radd iv acc | None => acc end) (v_resv st) (v_fn st))
                 (v_fn st), [])
  | MAllocate id size =>
      match aget (v_alloc st) id with
      | Some _ => None                                       (* assert alloca not in self.allocated *)
      | None =>
          let ptr := venom_allocate (v_resv st) size in
          Some (mkVM ((id, (ptr, size)) :: v_alloc st) (v_glob st) (v_resv st) (id :: v_fn st), [(id, ptr, size, v_resv st)])
      end
  | MAddGlobal id =>
      match aget (v_alloc st) id with
      | Some iv => Some (mkVM (v_alloc st) (radd iv (v_glob st)) (v_resv st) (v_fn st), [])
      | None => None
      end
  | MSetPos id ptr size => Some (mkVM ((id, (ptr, size)) :: v_alloc st) (v_glob st) (v_resv st) (v_fn st), [])
  | MAddFn ids => Some (mkVM (v_alloc st) (v_glob st) (v_resv st) (ids ++ v_fn st), [])
  end.

Fixpoint vmrun (st : vmst) (ops : list vmop) : option (vmst * list vevent) :=
  match ops with
  | [] => Some (st, [])
  | o :: ops' =>
      match vmstep st o with
      | Some (st1, ev1) => match vmrun st1 ops' with Some (st2, ev2) => Some (st2, ev1 ++ ev2) | None => None end
      | None => None
      end
  end.

Theorem venom_alloc_seq_disjoint_l : forall ops st st' evs,
  vmrun st ops = Some (st', evs) ->
  forall id ptr size resv, In (id, ptr, size, resv) evs ->
    0 <= ptr /\ forall r, In r resv -> avoids ptr size r.
Proof.
  induction ops as [|o ops IH]; intros st st' evs R id ptr size resv I; cbn [vmrun] in R.
  - inversion R; subst. contradiction.
  - destruct (vmstep st o) as [[st1 ev1]|] eqn:S; [|discriminate].
    destruct (vmrun st1 ops) as [[st2 ev2]|] eqn:R2; [|discriminate]. inversion R; subst.
    apply in_app_or in I. destruct I as [I|I]; [|eapply IH; eauto].
    destruct o; cbn [vmstep] in S;
      repeat match type of S with context [match ?x with _ => _ end] => destruct x; try discriminate end;
      inversion S; subst; try contradiction.
    destruct I as [E|[]]. inversion E; subst. split.
    + apply venom_allocate_nonneg_l.
    + intros r Hr. apply venom_allocate_avoids_reserved_l. exact Hr.
Qed.

(* harness output: pointers returned by the allocate calls, -1 if the sequence is rejected *)
Definition vm_trace (ops : list vmop) : list Z :=
  match vmrun vm0 ops with
  | Some (_, evs) => map (fun e => snd (fst (fst e))) evs
  | None => [-1]
  end.
