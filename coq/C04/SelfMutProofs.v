From Coq Require Import ZArith List Bool Lia.
From Verif Require Import C04.SelfMutModel.
Import ListNotations.
Open Scope Z_scope.

Lemma staged_is_spec_l : forall B e a, staged_append B e a = spec_append B e a.
Proof.
  intros B e a. unfold staged_append, spec_append. destruct (e a) as [[a1 v]|]; [|reflexivity].
  unfold emitted_append, push, pure_arg. reflexivity.
Qed.

Lemma lazy_is_spec_if_len_kept_l : forall B e a, keeps_len e -> emitted_append B e a = spec_append B e a.
Proof.
  intros B e a K. unfold emitted_append, spec_append, push.
  destruct (e a) as [[a1 v]|] eqn:E.
  - rewrite (K _ _ _ E). reflexivity.
  - destruct (alen a <? B); reflexivity.
Qed.

Lemma push_only_target_l : forall B a v a', 0 <= alen a -> push B a v = Some a' ->
  alen a' = alen a + 1 /\ alen a' <= B /\ live a' (alen a) = Some v /\
  (forall i, i <> alen a -> aslot a' i = aslot a i) /\ (forall i, i <> alen a -> live a' i = live a i \/ live a i = None).
Proof.
  intros B a v a' H0 H. unfold push in H. destruct (alen a <? B) eqn:L; [|discriminate]. inversion H; subst a'; clear H.
  apply Z.ltb_lt in L. cbn [alen aslot]. repeat split.
  - lia.
  - unfold live; cbn [alen aslot]. unfold upd. rewrite Z.eqb_refl.
    replace ((0 <=? alen a) && (alen a <? alen a + 1)) with true; [reflexivity|].
    symmetry. apply andb_true_iff. split; [apply Z.leb_le|apply Z.ltb_lt]; lia.
  - intros i Hi. unfold upd. destruct (i =? alen a) eqn:E; [apply Z.eqb_eq in E; contradiction|reflexivity].
  - intros i Hi. unfold live; cbn [alen aslot]. unfold upd.
    destruct (i =? alen a) eqn:E; [apply Z.eqb_eq in E; contradiction|].
    destruct (0 <=? i) eqn:P; cbn [andb]; [|left; reflexivity].
    destruct (i <? alen a) eqn:Q.
    + left. replace (i <? alen a + 1) with true; [reflexivity|]. symmetry. apply Z.ltb_lt. apply Z.ltb_lt in Q. lia.
    + right. reflexivity.
Qed.

Lemma site_ok_sound_l : forall s B e a, site_ok s = true -> (may_mutate s = false -> keeps_len e) ->
  site_sem s B e a = spec_append B e a.
Proof.
  intros s B e a OK K. unfold site_sem. destruct (s_leaf s) eqn:L.
  - apply staged_is_spec_l.
  - apply lazy_is_spec_if_len_kept_l. apply K. unfold site_ok in OK. rewrite L in OK. cbn [orb] in OK.
    destruct (may_mutate s); [discriminate|reflexivity].
Qed.

Lemma observed_sites_sound_l : forall sites, forallb site_ok sites = true ->
  forall s, In s sites -> forall B e a, (may_mutate s = false -> keeps_len e) -> site_sem s B e a = spec_append B e a.
Proof.
  intros sites H s Hin B e a K. apply site_ok_sound_l; [|exact K].
  rewrite forallb_forall in H. apply H. exact Hin.
Qed.

(* the lazy order with an argument that appends: the argument's own element is overwritten (lost) *)
Lemma lazy_loses_element_l :
  dump 4 (emitted_append 4 (arg_pushes 4 30) a_two) = Some (3, [10; 20; 31; 0]) /\
  dump 4 (spec_append 4 (arg_pushes 4 30) a_two) = Some (4, [10; 20; 30; 31]).
Proof. split; vm_compute; reflexivity. Qed.

(* ... with an argument that pops: the popped element is live again and the array has grown *)
Lemma lazy_resurrects_l :
  dump 3 (emitted_append 4 arg_pops a_two) = Some (3, [10; 20; 20]) /\
  dump 3 (spec_append 4 arg_pops a_two) = Some (2, [10; 20; 0]).
Proof. split; vm_compute; reflexivity. Qed.

(* ... at the bound: succeeds (array keeps its length, last element replaced) where the source reverts *)
Lemma lazy_misses_revert_l :
  dump 2 (emitted_append 3 (arg_pushes 3 30) a_two) = Some (3, [10; 20]) /\ spec_append 3 (arg_pushes 3 30) a_two = None.
Proof. split; vm_compute; reflexivity. Qed.
