(* C04: dynamic (free-memory-pointer) allocation of vyper/venom/passes/fmp_lowering.py.
   (1) the size rounding emitted by _ceil32_insts (add 31; not 31; and) computes ceil32(size);
   (2) the bump / LIFO-restore discipline of the lowered `dalloca` (ptr = fmp; fmp += ceil32 size) and of the
       synthesized rewinds (fmp := mark of a dead suffix): live dynamic regions are pairwise disjoint, lie above
       the static frame and below the free-memory pointer; a new region is disjoint from every live one.
   NOT modelled: which suffixes the pass decides to rewind (liveness / capture / escape reasoning). *)
From Coq Require Import ZArith Bool List String Lia ZifyBool.
From Verif Require Import Base.Word256 C03.LIR C03.VSL.
Import ListNotations.
Open Scope Z_scope.
Ltac Zify.zify_post_hook ::= Z.to_euclidean_division_equations.

Definition ceil32z (s : Z) : Z := (s + 31) / 32 * 32.

Definition vceil32 : vtemplate :=
  ([V2 "t0"%string OAdd (VLit 31) (VVar "p0"%string); V1 "t1"%string ONot (VLit 31);
    V2 "t2"%string OAnd (VVar "t1"%string) (VVar "t0"%string)], VVar "t2"%string).

Lemma mask_is : w_not 31 = Z.land (Z.lnot 31) (Z.ones 256).
Proof. vm_compute. reflexivity. Qed.

Lemma land_mask : forall x, 0 <= x < W -> Z.land (w_not 31) x = x / 32 * 32.
Proof.
  intros x R. rewrite mask_is. rewrite Z.land_comm, Z.land_assoc.
  assert (E : Z.land x (Z.lnot 31) = Z.ldiff x (Z.ones 5)) by reflexivity.
  rewrite (Z.land_comm _ (Z.ones 256)), Z.land_assoc.
  assert (X : Z.land (Z.ones 256) x = x).
  { rewrite Z.land_comm, Z.land_ones by lia. apply Z.mod_small. exact R. }
  rewrite X, E, Z.ldiff_ones_r by lia. rewrite Z.shiftr_div_pow2, Z.shiftl_mul_pow2 by lia. reflexivity.
Qed.

Theorem fmp_ceil32_correct_l : forall e s, lookup e "p0"%string = Some s -> 0 <= s -> s + 31 < W ->
  vrun e vceil32 = Val (ceil32z s) /\ ceil32z s mod 32 = 0 /\ s <= ceil32z s < s + 32.
Proof.
  intros e s Hs R0 R1. assert (Wv : W = 2 ^ 256) by reflexivity. split.
  - unfold vrun, vceil32. cbn [fst snd vsl vstep vval lookup String.eqb Ascii.eqb Bool.eqb]. rewrite Hs.
    cbn [vsl vstep vval lookup String.eqb Ascii.eqb Bool.eqb]. f_equal.
    change (wrap 31) with 31. unfold ev1, ev2, w_and, w_add. rewrite (Z.mod_small (s + 31) W) by lia.
    unfold ceil32z. rewrite Z.land_comm. apply land_mask. lia.
  - unfold ceil32z. split; [|lia]. apply Z.mod_mul. lia.
Qed.

(* ---------- bump allocation with LIFO rewinds ---------- *)
Inductive fop := FBump (size : Z) | FRewind (k : nat).   (* rewind: keep the k oldest live regions *)
(* state: free-memory pointer, live regions oldest first (ptr, aligned size) *)
Definition fstate := (Z * list (Z * Z))%type.

Definition fstep (st : fstate) (o : fop) : fstate :=
  let '(fmp, live) := st in
  match o with
  | FBump size => (fmp + ceil32z size, live ++ [(fmp, ceil32z size)])
  | FRewind k =>
      match nth_error live k with
      | Some (mark, _) => (mark, firstn k live)     (* FMP := mark frees [mark, FMP) *)
      | None => st
      end
  end.
Definition frun (ops : list fop) (st : fstate) : fstate := fold_left fstep ops st.

(* regions are stacked: each starts at or after the end of the previous one, the first at or above [lo],
   the last ends at or below [hi] *)
Fixpoint stacked (lo hi : Z) (l : list (Z * Z)) : Prop :=
  match l with
  | [] => lo <= hi
  | (p, n) :: l' => lo <= p /\ 0 <= n /\ stacked (p + n) hi l'
  end.

Lemma stacked_snoc : forall l lo hi n, stacked lo hi l -> 0 <= n -> stacked lo (hi + n) (l ++ [(hi, n)]).
Proof.
  induction l as [|[p m] l IH]; intros lo hi n S Hn; cbn [app stacked] in *.
  - repeat split; lia.
  - destruct S as [A [B C]]. repeat split; auto.
Qed.

Lemma stacked_firstn : forall l k lo hi mark n, stacked lo hi l -> nth_error l k = Some (mark, n) ->
  stacked lo mark (firstn k l).
Proof.
  induction l as [|[p m] l IH]; intros k lo hi mark n S E; destruct k; cbn in E; try discriminate.
  - inversion E; subst. cbn in *. lia.
  - cbn [firstn stacked] in *. destruct S as [A [B C]]. repeat split; auto. eapply IH; eauto.
Qed.

Lemma ceil32z_nonneg : forall s, 0 <= s -> 0 <= ceil32z s.
Proof. intros. unfold ceil32z. assert (0 <= (s + 31) / 32) by (apply Z.div_pos; lia). lia. Qed.

Definition sizes_ok (ops : list fop) : Prop := Forall (fun o => match o with FBump s => 0 <= s | _ => True end) ops.

Theorem fmp_bump_stacked_l : forall ops fmp0 live0 eom,
  sizes_ok ops -> stacked eom fmp0 live0 ->
  let '(fmp, live) := frun ops (fmp0, live0) in stacked eom fmp live.
Proof.
  induction ops as [|o ops IH]; intros fmp0 live0 eom P S; cbn [frun fold_left].
  - exact S.
  - inversion P as [|? ? Po P']; subst. fold (frun ops (fstep (fmp0, live0) o)).
    destruct o as [size|k]; cbn [fstep].
    + apply IH; auto. apply stacked_snoc; auto. apply ceil32z_nonneg. exact Po.
    + destruct (nth_error live0 k) as [[mark n]|] eqn:E; [|apply IH; auto].
      apply IH; auto. eapply stacked_firstn; eauto.
Qed.

(* stacked regions are pairwise disjoint, above lo and below hi *)
Lemma stacked_bounds : forall l lo hi p n, stacked lo hi l -> In (p, n) l -> lo <= p /\ p + n <= hi.
Proof.
  induction l as [|[q m] l IH]; intros lo hi p n S I; [contradiction|]. cbn [stacked] in S. destruct S as [A [B C]].
  destruct I as [E|I].
  - inversion E; subst. split; [auto|]. clear IH. revert C. generalize (p + n). induction l as [|[q m] l IH]; intros z C; cbn in C; [lia|].
    destruct C as [C1 [C2 C3]]. specialize (IH _ C3). lia.
  - destruct (IH _ _ _ _ C I). lia.
Qed.

Lemma stacked_disjoint : forall l lo hi, stacked lo hi l ->
  ForallOrdPairs (fun a b => fst a + snd a <= fst b) l.
Proof.
  induction l as [|[q m] l IH]; intros lo hi S; constructor.
  - cbn [stacked] in S. destruct S as [A [B C]]. rewrite Forall_forall. intros [p n] I.
    destruct (stacked_bounds _ _ _ _ _ C I). cbn. lia.
  - cbn [stacked] in S. destruct S as [A [B C]]. eapply IH; eauto.
Qed.
