(* C04 hand models of the two memory allocators.  No proofs here.
   venom_allocate : vyper/venom/memory_allocator.py MemoryAllocator.allocate
                    (first fit over sorted(list(self.reserved)), starting at FN_START = 0)
   legacy_*       : vyper/codegen/memory_allocator.py MemoryAllocator (free list, first fit,
                    merge on deallocate, shrink of next_mem)
   Tied to /repo by exact-output differential on seeded inputs (tools/checks/c04.py). *)
From Coq Require Import ZArith Bool List.
Import ListNotations.
Open Scope Z_scope.

(* ---------- venom ---------- *)
(* sorted() of (ptr, size) tuples: lexicographic *)
Definition lex_le (a b : Z * Z) : bool :=
  (fst a <? fst b) || ((fst a =? fst b) && (snd a <=? snd b)).
Fixpoint insert (x : Z * Z) (l : list (Z * Z)) : list (Z * Z) :=
  match l with
  | [] => [x]
  | y :: l' => if lex_le x y then x :: l else y :: insert x l'
  end.
Fixpoint isort (l : list (Z * Z)) : list (Z * Z) :=
  match l with [] => [] | x :: l' => insert x (isort l') end.

(* the for-loop of allocate: continue / break / ptr = resv_end *)
Fixpoint scan (reserved : list (Z * Z)) (ptr size : Z) : Z :=
  match reserved with
  | [] => ptr
  | (rp, rs) :: rest =>
      let re := rp + rs in
      if re <=? ptr then scan rest ptr size
      else if rp >=? ptr + size then ptr
      else scan rest re size
  end.

Definition FN_START : Z := 0.
Definition venom_allocate (reserved : list (Z * Z)) (size : Z) : Z := scan (isort reserved) FN_START size.

(* ---------- legacy ---------- *)
Record lstate := mkL { next_mem : Z; size_of_mem : Z; free : list (Z * Z) }.  (* free: (position, size) *)
Definition ALLOCATION_LIMIT : Z := 2 ^ 64.

Inductive lres := LOk (pos : Z) (s : lstate) | LErr.

(* the scan of allocate_memory over deallocated_mem *)
Fixpoint take_free (fl : list (Z * Z)) (size : Z) : option (Z * list (Z * Z)) :=
  match fl with
  | [] => None
  | (p, s) :: rest =>
      if s =? size then Some (p, rest)
      else if s >? size then Some (p, (p + size, s - size) :: rest)
      else match take_free rest size with
           | Some (r, rest') => Some (r, (p, s) :: rest')
           | None => None
           end
  end.

Definition legacy_allocate (st : lstate) (size : Z) : lres :=
  if negb (size mod 32 =? 0) || (size <? 0) then LErr
  else match take_free (free st) size with
       | Some (p, fl) => LOk p (mkL (next_mem st) (size_of_mem st) fl)
       | None =>
           let nm := next_mem st + size in
           let sm := Z.max (size_of_mem st) nm in
           if sm >=? ALLOCATION_LIMIT then LErr
           else LOk (next_mem st) (mkL nm sm (free st))
       end.

(* append + stable sort by position = insert after every block with position <= pos *)
Fixpoint insert_pos (x : Z * Z) (l : list (Z * Z)) : list (Z * Z) :=
  match l with
  | [] => [x]
  | y :: l' => if fst x <? fst y then x :: l else y :: insert_pos x l'
  end.
(* the merge loop: [active] absorbs following adjacent blocks *)
Fixpoint merge_from (active : Z * Z) (l : list (Z * Z)) : list (Z * Z) :=
  match l with
  | [] => [active]
  | b :: l' => if fst b =? fst active + snd active then merge_from (fst active, snd active + snd b) l'
               else active :: merge_from b l'
  end.
Definition merge (l : list (Z * Z)) : list (Z * Z) :=
  match l with [] => [] | a :: l' => merge_from a l' end.
(* shrink: if the last free block ends at next_mem, drop it and lower next_mem *)
Fixpoint shrink (nm : Z) (l : list (Z * Z)) : Z * list (Z * Z) :=
  match l with
  | [] => (nm, [])
  | b :: l' =>
      match l' with
      | [] => if fst b + snd b =? nm then (fst b, []) else (nm, [b])
      | _ => let '(nm', r) := shrink nm l' in (nm', b :: r)
      end
  end.

Definition legacy_deallocate (st : lstate) (pos size : Z) : option lstate :=
  if negb (size mod 32 =? 0) then None
  else let fl := merge (insert_pos (pos, size) (free st)) in
       let '(nm, fl') := shrink (next_mem st) fl in
       Some (mkL nm (size_of_mem st) fl').

(* operation sequences for the differential: op = (0, size) allocate | (1, k) deallocate the k-th live block *)
Fixpoint nth_remove {A} (l : list A) (k : nat) : option (A * list A) :=
  match l, k with
  | [], _ => None
  | x :: l', O => Some (x, l')
  | x :: l', S k' => match nth_remove l' k' with Some (y, r) => Some (y, x :: r) | None => None end
  end.

(* ---- operation sequences (theorem legacy_alloc_inv): state = allocator state + live blocks ---- *)
Inductive lop := OAlloc (size : Z) | OFree (k : nat).
Definition lstep (s : lstate * list (Z * Z)) (o : lop) : option (lstate * list (Z * Z)) :=
  let '(st, live) := s in
  match o with
  | OAlloc size =>
      match legacy_allocate st size with
      | LOk p st' => Some (st', live ++ [(p, size)])
      | LErr => None
      end
  | OFree k =>
      match nth_remove live k with
      | Some ((p, sz), live') =>
          match legacy_deallocate st p sz with Some st' => Some (st', live') | None => None end
      | None => None
      end
  end.
Definition lrun (ops : list lop) (s : lstate * list (Z * Z)) : option (lstate * list (Z * Z)) :=
  fold_left (fun acc o => match acc with Some s => lstep s o | None => None end) ops (Some s).
Definition linit (start : Z) : lstate * list (Z * Z) := (mkL start start [], []).

(* trace: for allocate the returned position, for deallocate next_mem afterwards; -1 on error *)
Fixpoint run_ops (ops : list (Z * Z)) (st : lstate) (live : list (Z * Z)) : list Z :=
  match ops with
  | [] => [next_mem st; size_of_mem st] ++ flat_map (fun b => [fst b; snd b]) (free st)
  | (0, size) :: rest =>
      match legacy_allocate st size with
      | LOk p st' => p :: run_ops rest st' (live ++ [(p, size)])
      | LErr => [-1]
      end
  | (_, k) :: rest =>
      match nth_remove live (Z.to_nat k) with
      | Some ((p, s), live') =>
          match legacy_deallocate st p s with
          | Some st' => next_mem st' :: run_ops rest st' live'
          | None => [-1]
          end
      | None => [-2]
      end
  end.
