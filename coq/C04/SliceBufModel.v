(* C04 (session 3): what the copy emitted by the legacy `slice()` generator WRITES, and that it stays inside the
   internal buffer the generator allocated.

   vyper/builtins/functions.py Slice.build_IR allocates  buf = context.new_internal_variable(BytesT(buflen))
   ([buf, buf+alloc) belongs to the builtin: length word + ceil32(buflen) data bytes) and emits
       seq (bounds check) (copy_bytes copy_dst copy_src copy_len copy_maxlen) (mstore buf length) buf
   vyper/codegen/core.py copy_bytes lowers the copy to one of
       repeat ix 0 COUNT BOUND (mstore ADDR (sload ..))      word-addressed source (storage / transient): CLoop
       mcopy / calldatacopy / dloadbytes / identity call        byte-addressed source, > 32 bytes:              CBulk
       mstore DST (load SRC)                                    byte-addressed source, <= 32 bytes:             CWord
   For a word-addressed source the loop starts at the word that contains `start` and stores to
   dst_data - start % 32, so it touches up to 31 bytes before dst_data (the length word, rewritten afterwards) and
   one word more than the output bound: the buffer needs 32 bytes of slack.

   This file: the record exported for every family member (tools/vlib/c04_slicebuf.py -> GenSliceBuf.v), the
   parametric templates, the footprint semantics and the theorem
       cpy_is_tpl o = true -> alloc_ok o = true -> every store of the copy lies inside [buf, buf+alloc).
   Semantics of `repeat` (trusted, vyper/ir/compile_ir.py): the run-time count is asserted <= BOUND before the
   first iteration; iterations ix = 0 .. COUNT-1. *)
From Coq Require Import ZArith Bool List String Lia ZifyBool.
From Verif Require Import Base.Word256 C03.LIR.
Import ListNotations.
Open Scope string_scope.
Open Scope Z_scope.

Inductive cpy :=
  | CLoop (count : lir) (bound : Z) (addr : lir)
  | CBulk (dst len : lir)
  | CWord (dst : lir)
  | CNone.

Record sobs := mkS {
  so_word : bool;      (* source location is word addressed *)
  so_buf : Z;          (* address returned by the allocator *)
  so_alloc : Z;        (* bytes handed out by the allocator *)
  so_dstmax : Z;       (* bound of the returned type *)
  so_len : lir;        (* the length operand: LVar "length" or a literal *)
  so_copy : cpy;
  so_lenptr : Z;       (* address of the final length store *)
  so_ret : Z }.        (* returned pointer *)

(* ---------------- templates ---------------- *)
Definition loop_count_tpl (len : lir) : lir :=
  LWith "copy_bytes_count"
    (L2 OAdd len (L2 OMul (LInt 32) (L1 OIszero (L1 OIszero (L2 OMod (LVar "start") (LInt 32))))))
    (L2 ODiv (L2 OAdd (LInt 31) (LVar "copy_bytes_count")) (LInt 32)).
Definition loop_addr_tpl (buf : Z) : lir :=
  LWith "dst" (L2 OSub (L2 OAdd (LInt buf) (LInt 32)) (L2 OMod (LVar "start") (LInt 32)))
    (L2 OAdd (LVar "dst") (L2 OMul (LVar "ix") (LInt 32))).
Definition data_ptr_tpl (buf : Z) : lir := L2 OAdd (LInt buf) (LInt 32).
(* byte-addressed source without a bulk copy instruction (immutables while in the constructor): word loop from dst_data *)
Definition bloop_count_tpl (len : lir) : lir := L2 ODiv (L2 OAdd (LInt 31) len) (LInt 32).
Definition bloop_addr_tpl (buf : Z) : lir := L2 OAdd (data_ptr_tpl buf) (L2 OMul (LVar "ix") (LInt 32)).

Definition len_shape_ok (o : sobs) : bool :=
  match so_len o with
  | LVar s => String.eqb s "length"
  | LInt n => (n =? so_dstmax o) && (0 <=? n)
  | _ => false
  end.

Definition cpy_is_tpl (o : sobs) : bool :=
  match so_copy o with
  | CLoop c _ a =>
      if so_word o then lir_eqb c (loop_count_tpl (so_len o)) && lir_eqb a (loop_addr_tpl (so_buf o))
      else lir_eqb c (bloop_count_tpl (so_len o)) && lir_eqb a (bloop_addr_tpl (so_buf o))
  | CBulk d l => negb (so_word o) && lir_eqb d (data_ptr_tpl (so_buf o)) && lir_eqb l (so_len o)
  | CWord d => negb (so_word o) && lir_eqb d (data_ptr_tpl (so_buf o))
  | CNone => false
  end && len_shape_ok o && (so_lenptr o =? so_buf o) && (so_ret o =? so_buf o).

(* the buffer-size arithmetic: what the allocation must cover *)
Definition alloc_ok (o : sobs) : bool :=
  (0 <=? so_buf o) &&
  match so_copy o with
  | CLoop _ b _ => (0 <=? b) && (32 * b + 32 <=? so_alloc o)
  | CBulk _ _ => 32 + so_dstmax o <=? so_alloc o
  | CWord _ => 64 <=? so_alloc o
  | CNone => 32 <=? so_alloc o
  end.

(* ---------------- footprint ---------------- *)
Definition senv (start length : Z) : env := [("start", start); ("length", length)].

Fixpoint loop_writes (e : env) (addr : lir) (k : nat) (i : Z) : option (list (Z * Z)) :=
  match k with
  | O => Some []
  | S k' =>
      match leval (("ix", i) :: e) addr with
      | Val a => match loop_writes e addr k' (i + 1) with Some r => Some ((a, 32) :: r) | None => None end
      | _ => None
      end
  end.

Definition footprint (e : env) (c : cpy) : option (list (Z * Z)) :=
  match c with
  | CLoop count bound addr =>
      match leval e count with
      | Val n => if n <=? bound then loop_writes e addr (Z.to_nat n) 0 else Some []   (* reverts before the first store *)
      | _ => None
      end
  | CBulk d l => match leval e d, leval e l with Val a, Val n => Some [(a, n)] | _, _ => None end
  | CWord d => match leval e d with Val a => Some [(a, 32)] | _ => None end
  | CNone => Some []
  end.

(* all stores of slice(): the copy, then the length word *)
Definition slice_writes (o : sobs) (start length : Z) : option (list (Z * Z)) :=
  match footprint (senv start length) (so_copy o) with
  | Some ws => Some (ws ++ [(so_lenptr o, 32)])%list
  | None => None
  end.

Definition inside (lo hi : Z) (w : Z * Z) : Prop := lo <= fst w /\ 0 <= snd w /\ fst w + snd w <= hi.

(* ---------------- proofs ---------------- *)
Lemma W_is : W = 2 ^ 256. Proof. reflexivity. Qed.

Lemma lir_eqb_eq : forall s t, lir_eqb s t = true -> s = t.
Proof.
  assert (O1 : forall a b, op1_eqb a b = true -> a = b) by (intros [] []; cbn; congruence).
  assert (O2 : forall a b, op2_eqb a b = true -> a = b)
    by (intros a b; unfold op2_eqb; destruct a, b; cbn; intros; try reflexivity; discriminate).
  assert (O3 : forall a b, op3_eqb a b = true -> a = b) by (intros [] []; cbn; congruence).
  induction s; destruct t; cbn [lir_eqb]; intros H; try discriminate;
    repeat match goal with H : _ && _ = true |- _ => apply andb_true_iff in H; destruct H end.
  - apply Z.eqb_eq in H. congruence.
  - apply String.eqb_eq in H. congruence.
  - f_equal; auto.
  - f_equal; auto.
  - f_equal; auto.
  - match goal with H : String.eqb _ _ = true |- _ => apply String.eqb_eq in H end. f_equal; auto.
  - f_equal; auto.
  - reflexivity.
  - f_equal; auto.
  - f_equal; auto.
Qed.

Lemma loop_addr_val : forall buf start length i bound alloc,
  0 <= buf -> 0 <= start < W -> 0 <= i < bound -> 32 * bound + 32 <= alloc -> buf + alloc < W ->
  exists a, leval (("ix", i) :: senv start length) (loop_addr_tpl buf) = Val a /\
            buf < a /\ a + 32 <= buf + alloc.
Proof.
  intros buf start length i bound alloc Hb Hs Hi Ha Hw. pose proof W_is as HW.
  unfold loop_addr_tpl, senv.
  cbn [leval lookup String.eqb Ascii.eqb Bool.eqb ev1 ev2].
  change (wrap 32) with 32. unfold wrap. rewrite (Z.mod_small buf W) by lia.
  unfold w_add, w_sub, w_mod, w_mul. change (32 =? 0) with false. cbv iota.
  assert (Hm : 0 <= start mod 32 < 32) by (apply Z.mod_pos_bound; lia).
  rewrite (Z.mod_small (buf + 32) W) by lia.
  rewrite (Z.mod_small (buf + 32 - start mod 32) W) by lia.
  rewrite (Z.mod_small (i * 32) W) by lia.
  rewrite (Z.mod_small (buf + 32 - start mod 32 + i * 32) W) by lia.
  eexists. split; [reflexivity|]. lia.
Qed.

Lemma bloop_addr_val : forall buf start length i bound alloc,
  0 <= buf -> 0 <= i < bound -> 32 * bound + 32 <= alloc -> buf + alloc < W ->
  exists a, leval (("ix", i) :: senv start length) (bloop_addr_tpl buf) = Val a /\
            buf < a /\ a + 32 <= buf + alloc.
Proof.
  intros buf start length i bound alloc Hb Hi Ha Hw. pose proof W_is as HW.
  unfold bloop_addr_tpl, data_ptr_tpl, senv.
  cbn [leval lookup String.eqb Ascii.eqb Bool.eqb ev1 ev2].
  change (wrap 32) with 32. unfold wrap. rewrite (Z.mod_small buf W) by lia.
  unfold w_add, w_mul.
  rewrite (Z.mod_small (buf + 32) W) by lia.
  rewrite (Z.mod_small (i * 32) W) by lia.
  rewrite (Z.mod_small (buf + 32 + i * 32) W) by lia.
  eexists. split; [reflexivity|]. lia.
Qed.

Lemma loop_writes_inside : forall e addr buf bound alloc,
  (forall i, 0 <= i < bound -> exists a, leval (("ix", i) :: e) addr = Val a /\ buf < a /\ a + 32 <= buf + alloc) ->
  forall k i, 0 <= i -> i + Z.of_nat k <= bound ->
  exists ws, loop_writes e addr k i = Some ws /\ Forall (inside buf (buf + alloc)) ws.
Proof.
  intros e addr buf bound alloc HA k. induction k as [|k IH]; intros i Hi Hk.
  - exists []. split; [reflexivity | constructor].
  - destruct (HA i ltac:(lia)) as [a [Ea [La Ua]]].
    destruct (IH (i + 1) ltac:(lia) ltac:(lia)) as [ws [Ews Fws]].
    exists ((a, 32) :: ws). split.
    + cbn [loop_writes]. rewrite Ea, Ews. reflexivity.
    + constructor; [unfold inside; cbn [fst snd]; lia | exact Fws].
Qed.

Lemma bloop_count_val : forall len e l0, leval e len = Val l0 ->
  exists n, leval e (bloop_count_tpl len) = Val n /\ 0 <= n.
Proof.
  intros len e l0 Hl. unfold bloop_count_tpl. cbn [leval ev2]. rewrite Hl.
  eexists. split; [reflexivity|].
  change (wrap 32) with 32. unfold w_div. change (32 =? 0) with false. cbv iota.
  apply Z.div_pos; [|lia]. unfold w_add. apply Z.mod_pos_bound. pose proof W_is. lia.
Qed.

Lemma loop_count_val : forall len e l0, leval e len = Val l0 -> lookup e "start" <> None ->
  exists n, leval e (loop_count_tpl len) = Val n /\ 0 <= n.
Proof.
  intros len e l0 Hl Hs. unfold loop_count_tpl.
  destruct (lookup e "start") as [s|] eqn:Es; [|congruence].
  cbn [leval lookup String.eqb Ascii.eqb Bool.eqb ev1 ev2]. rewrite Es, Hl.
  cbn [leval lookup String.eqb Ascii.eqb Bool.eqb ev1 ev2].
  eexists. split; [reflexivity|].
  change (wrap 32) with 32. unfold w_div. change (32 =? 0) with false. cbv iota.
  apply Z.div_pos; [|lia]. unfold w_add. apply Z.mod_pos_bound. pose proof W_is. lia.
Qed.

Lemma len_eval : forall o start length, len_shape_ok o = true ->
  exists l, leval (senv start length) (so_len o) = Val l /\
            (l = length \/ (so_len o = LInt (so_dstmax o) /\ 0 <= so_dstmax o /\ l = wrap (so_dstmax o))).
Proof.
  intros o start length H. unfold len_shape_ok in H. destruct (so_len o) eqn:E; try discriminate.
  - apply andb_true_iff in H. destruct H as [H1 H2]. apply Z.eqb_eq in H1. apply Z.leb_le in H2. subst n.
    eexists. split; [reflexivity|]. right. auto.
  - apply String.eqb_eq in H. subst s. exists length. split; [reflexivity | left; reflexivity].
Qed.

Theorem slice_copy_in_buffer_l : forall o start length,
  cpy_is_tpl o = true -> alloc_ok o = true ->
  0 <= start < W -> 0 <= length < W -> so_buf o + so_alloc o < W ->
  (so_word o = false -> length <= so_dstmax o) ->
  exists ws, slice_writes o start length = Some ws /\
             Forall (inside (so_buf o) (so_buf o + so_alloc o)) ws.
Proof.
  intros o start length HT HA Hs Hl Hw Hlen. pose proof W_is as HW.
  unfold cpy_is_tpl in HT. unfold alloc_ok in HA.
  repeat match goal with H : _ && _ = true |- _ => apply andb_true_iff in H; destruct H end.
  match goal with H : (so_lenptr o =? _) = true |- _ => apply Z.eqb_eq in H; rename H into HP end.
  match goal with H : (0 <=? so_buf o) = true |- _ => apply Z.leb_le in H; rename H into HB end.
  destruct (len_eval o start length ltac:(assumption)) as [l [El Cl]].
  unfold slice_writes. rewrite HP.
  assert (Last : forall ws, Forall (inside (so_buf o) (so_buf o + so_alloc o)) ws -> 32 <= so_alloc o ->
                 Forall (inside (so_buf o) (so_buf o + so_alloc o)) (ws ++ [(so_buf o, 32)])%list).
  { intros ws F A. apply Forall_app. split; [exact F|]. constructor; [|constructor]. unfold inside; cbn [fst snd]. lia. }
  destruct (so_copy o) as [c b a | d ln | d | ] eqn:EC; try discriminate.
  - (* word loop *)
    match goal with H : (0 <=? b) && _ = true |- _ => apply andb_true_iff in H; destruct H as [Hb0 Hb1] end.
    apply Z.leb_le in Hb0. apply Z.leb_le in Hb1.
    destruct (so_word o) eqn:EW.
    + match goal with H : _ && _ = true |- _ => apply andb_true_iff in H; destruct H as [Hc Had] end.
      apply lir_eqb_eq in Hc. apply lir_eqb_eq in Had. subst c a.
      destruct (loop_count_val (so_len o) (senv start length) l El ltac:(cbn; congruence)) as [n [En Hn]].
      cbn [footprint]. rewrite En. destruct (Z.leb_spec n b).
      * destruct (loop_writes_inside (senv start length) (loop_addr_tpl (so_buf o)) (so_buf o) b (so_alloc o)
                    ltac:(intros i Hi; apply (loop_addr_val (so_buf o) start length i b (so_alloc o)); lia)
                    (Z.to_nat n) 0) as [ws [Ews F]]; try lia.
        rewrite Ews. eexists. split; [reflexivity|]. apply Last; [exact F | lia].
      * eexists. split; [reflexivity|]. apply (Last []); [constructor | lia].
    + match goal with H : _ && _ = true |- _ => apply andb_true_iff in H; destruct H as [Hc Had] end.
      apply lir_eqb_eq in Hc. apply lir_eqb_eq in Had. subst c a.
      destruct (bloop_count_val (so_len o) (senv start length) l El) as [n [En Hn]].
      cbn [footprint]. rewrite En. destruct (Z.leb_spec n b).
      * destruct (loop_writes_inside (senv start length) (bloop_addr_tpl (so_buf o)) (so_buf o) b (so_alloc o)
                    ltac:(intros i Hi; apply (bloop_addr_val (so_buf o) start length i b (so_alloc o)); lia)
                    (Z.to_nat n) 0) as [ws [Ews F]]; try lia.
        rewrite Ews. eexists. split; [reflexivity|]. apply Last; [exact F | lia].
      * eexists. split; [reflexivity|]. apply (Last []); [constructor | lia].
  - (* bulk copy of `length` bytes to dst_data *)
    repeat match goal with H : _ && _ = true |- _ => apply andb_true_iff in H; destruct H end.
    match goal with H : lir_eqb d _ = true |- _ => apply lir_eqb_eq in H; subst d end.
    match goal with H : lir_eqb ln _ = true |- _ => apply lir_eqb_eq in H; subst ln end.
    match goal with H : negb (so_word o) = true |- _ => apply negb_true_iff in H; specialize (Hlen H) end.
    match goal with H : (32 + so_dstmax o <=? _) = true |- _ => apply Z.leb_le in H end.
    cbn [footprint]. rewrite El. unfold data_ptr_tpl. cbn [leval ev2].
    change (wrap 32) with 32. unfold wrap, w_add. rewrite (Z.mod_small (so_buf o) W) by lia.
    rewrite (Z.mod_small (so_buf o + 32) W) by lia.
    eexists. split; [reflexivity|]. apply Last; [|lia]. constructor; [|constructor].
    unfold inside; cbn [fst snd].
    destruct Cl as [-> | [_ [P ->]]]; [lia|]. unfold wrap. rewrite Z.mod_small by lia. lia.
  - (* one word *)
    repeat match goal with H : _ && _ = true |- _ => apply andb_true_iff in H; destruct H end.
    match goal with H : lir_eqb d _ = true |- _ => apply lir_eqb_eq in H; subst d end.
    match goal with H : (64 <=? _) = true |- _ => apply Z.leb_le in H end.
    cbn [footprint]. unfold data_ptr_tpl. cbn [leval ev2].
    change (wrap 32) with 32. unfold wrap, w_add. rewrite (Z.mod_small (so_buf o) W) by lia.
    rewrite (Z.mod_small (so_buf o + 32) W) by lia.
    eexists. split; [reflexivity|]. apply Last; [|lia]. constructor; [|constructor].
    unfold inside; cbn [fst snd]. lia.
Qed.

(* transfer to a whole observed family *)
Lemma observed_writes_in_buffer_l : forall obs,
  forallb cpy_is_tpl obs = true ->
  forallb (fun o => alloc_ok o && (so_buf o + so_alloc o <? W)) obs = true ->
  forall o, In o obs ->
  forall start length, 0 <= start < W -> 0 <= length < W ->
  (so_word o = false -> length <= so_dstmax o) ->
  exists ws, slice_writes o start length = Some ws /\
             Forall (inside (so_buf o) (so_buf o + so_alloc o)) ws.
Proof.
  intros obs H1 H2 o Hin start length Hs Hl Hlen.
  pose proof (proj1 (forallb_forall _ _) H1 o Hin) as HT.
  pose proof (proj1 (forallb_forall _ _) H2 o Hin) as HA.
  cbv beta in HA. apply andb_true_iff in HA. destruct HA as [HA HF]. apply Z.ltb_lt in HF.
  exact (slice_copy_in_buffer_l o start length HT HA Hs Hl HF Hlen).
Qed.

(* the slack is NECESSARY for an unaligned start: with alloc = 32 + ceil32(dst_maxlen) (no extra word) and a bound that
   is not a multiple of 32, the template's last iteration stores past the end (non-vacuity of alloc_ok). *)
Definition sample_word (alloc : Z) : sobs :=
  mkS true 64 alloc 33 (LInt 33) (CLoop (loop_count_tpl (LInt 33)) 3 (loop_addr_tpl 64)) 64 64.

Lemma slice_slack_needed :
  cpy_is_tpl (sample_word 96) = true /\ alloc_ok (sample_word 96) = false /\
  slice_writes (sample_word 96) 1 33 = Some [(95, 32); (127, 32); (159, 32); (64, 32)] /\
  ~ inside 64 (64 + 96) (159, 32).
Proof.
  repeat split; try (vm_compute; reflexivity). unfold inside; cbn [fst snd]. lia.
Qed.
