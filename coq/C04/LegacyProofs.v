(* C04: legacy_alloc_inv -- the free-list allocator keeps live blocks pairwise disjoint for every
   sequence of allocate / deallocate operations (invariant by induction over fold_left lstep ops). *)
From Coq Require Import ZArith Bool List Lia ZifyBool.
From Verif Require Import C04.AllocModel C04.AllocProofs.
Import ListNotations.
Open Scope Z_scope.

(* free list sorted by position, every block non-empty, consecutive blocks at distance >= g *)
Fixpoint chainG (g lo : Z) (l : list (Z * Z)) : Prop :=
  match l with
  | [] => True
  | b :: l' => lo <= fst b /\ 0 < snd b /\ chainG g (bend b + g) l'
  end.

Lemma chain_weaken : forall g l lo lo', lo' <= lo -> chainG g lo l -> chainG g lo' l.
Proof. destruct l; cbn; intros; [auto|]. destruct H0 as [? [? ?]]. repeat split; auto; lia. Qed.

Lemma chain_g_weaken : forall l lo, chainG 1 lo l -> chainG 0 lo l.
Proof.
  induction l; cbn; intros; [auto|]. destruct H as [? [? C]]. repeat split; auto.
  apply IHl. eapply chain_weaken; [|exact C]. lia.
Qed.

Lemma chain_lower : forall g l lo b, 0 <= g -> chainG g lo l -> In b l -> lo <= fst b /\ 0 < snd b.
Proof.
  induction l; cbn; intros lo b Hg C I; [contradiction|]. destruct C as [? [? C]]. destruct I as [<-|I]; [auto|].
  destruct (IHl _ _ Hg C I). unfold bend in *. lia.
Qed.

(* ---------- pairwise disjoint live blocks ---------- *)
Definition pw (l : list (Z * Z)) : Prop := ForallOrdPairs bdisj l.

Lemma bdisj_sym : forall a b, bdisj a b -> bdisj b a.
Proof. unfold bdisj. intros. lia. Qed.

Lemma pw_snoc : forall l x, pw l -> Forall (fun b => bdisj b x) l -> pw (l ++ [x]).
Proof.
  induction l; intros x P F; cbn.
  - repeat constructor.
  - inversion P; subst. inversion F; subst. constructor.
    + apply Forall_app. split; [auto|]. constructor; auto.
    + apply IHl; auto.
Qed.

Lemma nth_remove_spec : forall (l : list (Z * Z)) k x r, nth_remove l k = Some (x, r) -> pw l ->
  pw r /\ Forall (bdisj x) r /\ In x l /\ (forall y, In y r -> In y l).
Proof.
  induction l; intros k x r E P; destruct k; cbn in E; try discriminate.
  - inversion E; subst. inversion P; subst. split; [auto|]. split; [auto|]. split; [left; reflexivity|]. intros; right; auto.
  - destruct (nth_remove l k) as [[y r']|] eqn:N; [|discriminate]. inversion E; subst.
    inversion P; subst. destruct (IHl _ _ _ N H2) as [Pr [Fx [Ix Sub]]].
    rewrite Forall_forall in H1. repeat split.
    + constructor; [|auto]. rewrite Forall_forall. intros z Hz. apply H1. apply Sub. auto.
    + constructor; [|auto]. apply bdisj_sym. apply H1. auto.
    + right; auto.
    + intros z [<-|Hz]; [left; auto|right; apply Sub; auto].
Qed.

(* ---------- allocate from the free list ---------- *)
Lemma take_free_spec : forall fl lo size p fl', 0 < size -> chainG 1 lo fl ->
  take_free fl size = Some (p, fl') ->
  chainG 1 lo fl' /\
  (exists f, In f fl /\ inside (p, size) f) /\
  (forall b, In b fl' -> (exists f, In f fl /\ inside b f) /\ bdisj b (p, size)).
Proof.
  induction fl as [|[q s] fl IH]; intros lo size p fl' Hs C E; cbn [take_free] in E; [discriminate|].
  cbn [chainG] in C. destruct C as [Lo [Sp C]]. cbn [fst snd] in Lo, Sp. unfold bend in C. cbn [fst snd] in C.
  destruct (s =? size) eqn:A.
  - inversion E; subst. split; [eapply chain_weaken; [|exact C]; lia|]. split.
    + exists (p, s). split; [left; auto|]. unfold inside, bend. cbn. lia.
    + intros b Hb. split; [exists b; split; [right; auto|unfold inside; lia]|].
      destruct (chain_lower 1 _ _ _ ltac:(lia) C Hb). unfold bdisj, bend. cbn. lia.
  - destruct (s >? size) eqn:B.
    + inversion E; subst. split; [|split].
      * cbn [chainG]. unfold bend. cbn [fst snd]. repeat split; try lia.
        replace (p + size + (s - size) + 1) with (p + s + 1) by lia. exact C.
      * exists (p, s). split; [left; auto|]. unfold inside, bend. cbn. lia.
      * intros b [<-|Hb].
        -- split; [exists (p, s); split; [left; auto|unfold inside, bend; cbn; lia]|]. unfold bdisj, bend. cbn. lia.
        -- split; [exists b; split; [right; auto|unfold inside; lia]|].
           destruct (chain_lower 1 _ _ _ ltac:(lia) C Hb). unfold bdisj, bend. cbn. lia.
    + destruct (take_free fl size) as [[r rest]|] eqn:T; [|discriminate]. inversion E; subst.
      destruct (IH _ _ _ _ Hs C T) as [C' [[f [If Jf]] All]]. split; [|split].
      * cbn [chainG]. unfold bend. cbn [fst snd]. repeat split; auto.
      * exists f. split; [right; auto|auto].
      * intros b [<-|Hb].
        -- split; [exists (q, s); split; [left; auto|unfold inside; lia]|].
           destruct (chain_lower 1 _ _ _ ltac:(lia) C If). unfold inside, bend in Jf. cbn [fst snd] in Jf.
           unfold bdisj, bend. cbn. lia.
        -- destruct (All b Hb) as [[f' [If' Jf']] D]. split; [exists f'; split; [right; auto|auto]|auto].
Qed.

(* ---------- deallocate: insert, merge, shrink ---------- *)
Lemma insert_pos_in : forall x l y, In y (insert_pos x l) <-> y = x \/ In y l.
Proof.
  induction l; intros y; cbn [insert_pos]; [cbn; intuition|].
  destruct (fst x <? fst a); cbn [In]; [intuition|]. rewrite IHl. intuition.
Qed.

Lemma insert_pos_chain : forall l lo x, chainG 0 lo l -> lo <= fst x -> 0 < snd x ->
  Forall (fun b => bdisj b x) l -> chainG 0 lo (insert_pos x l).
Proof.
  induction l as [|y l IH]; intros lo x C Lo Sx F; cbn [insert_pos].
  - cbn. repeat split; auto.
  - cbn [chainG] in C. destruct C as [Ly [Sy C]]. inversion F as [|? ? D F']; subst.
    unfold bdisj, bend in D. destruct (fst x <? fst y) eqn:E.
    + cbn [chainG]. unfold bend. repeat split; auto; try lia.
    + cbn [chainG]. repeat split; auto. apply IH; auto. unfold bend. lia.
Qed.

Lemma merge_from_spec : forall l a lo, lo <= fst a -> 0 < snd a -> chainG 0 (bend a) l ->
  chainG 1 lo (merge_from a l) /\
  (forall c, 0 < snd c -> bdisj a c -> Forall (fun b => bdisj b c) l -> Forall (fun b => bdisj b c) (merge_from a l)) /\
  (forall hi, bend a <= hi -> Forall (fun b => bend b <= hi) l -> Forall (fun b => bend b <= hi) (merge_from a l)).
Proof.
  induction l as [|b l IH]; intros a lo Lo Sa C; cbn [merge_from].
  - split; [cbn; repeat split; auto|]. split; intros; (constructor; [auto|constructor]).
  - cbn [chainG] in C. destruct C as [Lb [Sb C]]. destruct (fst b =? fst a + snd a) eqn:E.
    + assert (C' : chainG 0 (bend (fst a, snd a + snd b)) l).
      { eapply chain_weaken; [|exact C]. unfold bend. cbn [fst snd]. lia. }
      destruct (IH (fst a, snd a + snd b) lo ltac:(cbn; lia) ltac:(cbn; lia)
                  ltac:(eapply chain_weaken; [|exact C']; lia)) as [Ch [Dj Up]].
      split; [exact Ch|]. split.
      * intros c Sc Da F. inversion F as [|? ? Db F']; subst. apply Dj; auto.
        unfold bdisj, bend in *. cbn [fst snd]. lia.
      * intros hi Ha F. inversion F as [|? ? Hb F']; subst. apply Up; auto. unfold bend in *. cbn [fst snd]. lia.
    + destruct (IH b (bend a + 1) ltac:(unfold bend in *; lia) Sb ltac:(eapply chain_weaken; [|exact C]; lia)) as [Ch [Dj Up]].
      split; [cbn [chainG]; repeat split; auto|]. split.
      * intros c Sc Da F. inversion F; subst. constructor; auto.
      * intros hi Ha F. inversion F; subst. constructor; auto.
Qed.

Lemma shrink_spec : forall l lo nm nm' l', chainG 1 lo l -> lo <= nm -> Forall (fun b => bend b <= nm) l ->
  shrink nm l = (nm', l') ->
  chainG 1 lo l' /\ Forall (fun b => bend b < nm') l' /\ lo <= nm' <= nm /\
  (forall y, In y l' -> In y l) /\
  (forall c, 0 < snd c -> bend c <= nm -> Forall (fun b => bdisj b c) l -> bend c <= nm').
Proof.
  induction l as [|b l IH]; intros lo nm nm' l' C Lo F E; cbn [shrink] in E.
  - inversion E; subst. repeat split; auto; try lia; try constructor.
  - cbn [chainG] in C. destruct C as [Lb [Sb C]]. inversion F as [|? ? Hb F']; subst.
    destruct l as [|b2 l2].
    + fold (bend b) in E. destruct (bend b =? nm) eqn:Q; inversion E; subst.
      * split; [exact I|]. split; [constructor|]. split; [unfold bend in *; lia|]. split; [intros y []|].
        intros c Sc Hc Fc. inversion Fc; subst. unfold bdisj, bend in *. lia.
      * split; [cbn [chainG]; repeat split; auto|]. split; [constructor; [unfold bend in *; lia|constructor]|].
        split; [lia|]. split; [auto|]. intros; lia.
    + destruct (shrink nm (b2 :: l2)) as [nm2 r] eqn:S. inversion E; subst.
      assert (Lo2 : bend b + 1 <= nm).
      { cbn [chainG] in C. destruct C as [L2 [S2 _]]. inversion F'; subst. unfold bend in *. lia. }
      destruct (IH _ _ _ _ C Lo2 F' S) as [Ch [Lt [Bd [Sub Live]]]].
      split; [cbn [chainG]; repeat split; auto|]. split; [constructor; [lia|auto]|]. split; [unfold bend in *; lia|]. split.
      * intros y [<-|Hy]; [left; auto|right; apply Sub; auto].
      * intros c Sc Hc Fc. inversion Fc; subst. apply Live; auto.
Qed.

(* ---------- the invariant ---------- *)
Record Inv (start : Z) (st : lstate) (live : list (Z * Z)) : Prop := {
  v_chain : chainG 1 start (free st);                         (* sorted, non-empty, non-adjacent, >= start *)
  v_free_hi : Forall (fun f => bend f < next_mem st) (free st);
  v_pw : pw live;                                             (* live blocks pairwise disjoint *)
  v_live : Forall (fun b => start <= fst b /\ 0 < snd b /\ bend b <= next_mem st) live;
  v_fl : Forall (fun f => Forall (bdisj f) live) (free st);   (* free blocks disjoint from live blocks *)
  v_mem : start <= next_mem st <= size_of_mem st
}.

Lemma inv_alloc : forall start st live size p st', 0 < size ->
  Inv start st live -> legacy_allocate st size = LOk p st' -> Inv start st' (live ++ [(p, size)]).
Proof.
  intros start st live size p st' Hs I E. destruct I. unfold legacy_allocate in E.
  destruct (negb (size mod 32 =? 0) || (size <? 0)); [discriminate|].
  destruct (take_free (free st) size) as [[q fl]|] eqn:T.
  - inversion E; subst. clear E. destruct (take_free_spec _ _ _ _ _ Hs v_chain0 T) as [Ch [[f [If Jf]] All]].
    rewrite Forall_forall in v_free_hi0, v_fl0. pose proof (v_free_hi0 f If) as Hf. pose proof (v_fl0 f If) as Df.
    destruct (chain_lower 1 _ _ _ ltac:(lia) v_chain0 If) as [Lf Sf].
    unfold inside, bend in Jf. cbn [fst snd] in Jf. unfold bend in Hf.
    constructor; cbn [free next_mem size_of_mem]; auto.
    + rewrite Forall_forall. intros b Hb. destruct (All b Hb) as [[f' [If' [J1 J2]]] _].
      pose proof (v_free_hi0 f' If'). lia.
    + apply pw_snoc; auto. rewrite Forall_forall in *. intros b Hb. specialize (Df b Hb).
      unfold bdisj, bend in *. cbn [fst snd]. lia.
    + apply Forall_app. split; [auto|]. constructor; [|constructor]. cbn [fst snd]. unfold bend. cbn [fst snd]. lia.
    + rewrite Forall_forall. intros b Hb. destruct (All b Hb) as [[f' [If' [J1 J2]]] D].
      apply Forall_app. split; [|constructor; [auto|constructor]].
      pose proof (v_fl0 f' If') as Df'. rewrite Forall_forall in *. intros c Hc. specialize (Df' c Hc).
      destruct (v_live0 c Hc) as [_ [Sc _]]. unfold bdisj, bend in *. lia.
  - destruct (Z.max (size_of_mem st) (next_mem st + size) >=? ALLOCATION_LIMIT); [discriminate|].
    inversion E; subst. clear E. constructor; cbn [free next_mem size_of_mem]; auto.
    + rewrite Forall_forall in *. intros f Hf. specialize (v_free_hi0 f Hf). lia.
    + apply pw_snoc; auto. rewrite Forall_forall in *. intros b Hb. specialize (v_live0 b Hb).
      unfold bdisj, bend in *. cbn [fst snd]. lia.
    + apply Forall_app. split.
      * rewrite Forall_forall in *. intros b Hb. specialize (v_live0 b Hb). lia.
      * constructor; [|constructor]. unfold bend. cbn [fst snd]. lia.
    + rewrite Forall_forall in *. intros f Hf. apply Forall_app. split; [apply v_fl0; auto|].
      constructor; [|constructor]. specialize (v_free_hi0 f Hf). unfold bdisj, bend in *. cbn [fst snd]. lia.
    + lia.
Qed.

Lemma inv_free : forall start st live k p sz live' st',
  Inv start st live -> nth_remove live k = Some ((p, sz), live') -> legacy_deallocate st p sz = Some st' ->
  Inv start st' live'.
Proof.
  intros start st live k p sz live' st' I N E. destruct I.
  destruct (nth_remove_spec _ _ _ _ N v_pw0) as [Pw' [Dx [Ix Sub]]].
  rewrite Forall_forall in v_live0. destruct (v_live0 _ Ix) as [Lx [Sx Hx]]. cbn [fst snd] in Lx, Sx.
  unfold legacy_deallocate in E. destruct (negb (sz mod 32 =? 0)); [discriminate|].
  destruct (shrink (next_mem st) (merge (insert_pos (p, sz) (free st)))) as [nm fl] eqn:S. inversion E; subst. clear E.
  (* the freed block is disjoint from every free block *)
  assert (Fx : Forall (fun b => bdisj b (p, sz)) (free st)).
  { rewrite Forall_forall in *. intros f Hf. specialize (v_fl0 f Hf). rewrite Forall_forall in v_fl0. apply v_fl0. auto. }
  pose proof (insert_pos_chain _ start (p, sz) (chain_g_weaken _ _ v_chain0) Lx Sx Fx) as Ci.
  remember (insert_pos (p, sz) (free st)) as ins eqn:Hins.
  assert (Ins_in : forall y, In y ins <-> y = (p, sz) \/ In y (free st)) by (subst ins; apply insert_pos_in).
  destruct ins as [|a ins']; [exfalso; apply (Ins_in (p, sz)); auto|].
  cbn [merge] in S. cbn [chainG] in Ci. destruct Ci as [La [Sa Ca]].
  rewrite Z.add_0_r in Ca. destruct (merge_from_spec ins' a start La Sa Ca) as [Ch [Dj Up]].
  assert (Hi : Forall (fun b => bend b <= next_mem st) (merge_from a ins')).
  { assert (All : forall y, In y (a :: ins') -> bend y <= next_mem st).
    { intros y Hy. apply Ins_in in Hy. destruct Hy as [->|Hy]; [exact Hx|].
      rewrite Forall_forall in v_free_hi0. specialize (v_free_hi0 y Hy). lia. }
    apply Up; [apply All; left; auto|]. rewrite Forall_forall. intros y Hy. apply All. right; auto. }
  destruct v_mem0 as [M1 M2].
  destruct (shrink_spec _ _ _ _ _ Ch M1 Hi S) as [Ch' [Lt [Bd [Sub' Live]]]].
  (* every remaining live block is disjoint from every block of the merged list *)
  assert (DL : forall c, In c live' -> Forall (fun b => bdisj b c) (merge_from a ins')).
  { intros c Hc. destruct (v_live0 c (Sub c Hc)) as [_ [Sc _]].
    assert (All : forall y, In y (a :: ins') -> bdisj y c).
    { intros y Hy. apply Ins_in in Hy. destruct Hy as [->|Hy].
      - rewrite Forall_forall in Dx. apply Dx. auto.
      - rewrite Forall_forall in v_fl0. specialize (v_fl0 y Hy). rewrite Forall_forall in v_fl0. apply v_fl0. apply Sub. auto. }
    apply Dj; [exact Sc | apply All; left; auto | rewrite Forall_forall; intros y Hy; apply All; right; auto]. }
  constructor; cbn [free next_mem size_of_mem]; auto.
  - rewrite Forall_forall. intros c Hc. destruct (v_live0 c (Sub c Hc)) as [L1 [S1 H1]]. repeat split; auto.
  - rewrite Forall_forall. intros f Hf. rewrite Forall_forall. intros c Hc.
    pose proof (DL c Hc) as D. rewrite Forall_forall in D. apply D. apply Sub'. auto.
  - lia.
Qed.

Lemma inv_step : forall start s o s', (forall size, o = OAlloc size -> 0 < size) ->
  Inv start (fst s) (snd s) -> lstep s o = Some s' -> Inv start (fst s') (snd s').
Proof.
  intros start [st live] o s' Hs I E. cbn [fst snd] in *. destruct o as [size|k]; cbn [lstep] in E.
  - destruct (legacy_allocate st size) as [p st'|] eqn:A; [|discriminate]. inversion E; subst. cbn [fst snd].
    eapply inv_alloc; eauto.
  - destruct (nth_remove live k) as [[[p sz] live']|] eqn:N; [|discriminate].
    destruct (legacy_deallocate st p sz) as [st'|] eqn:D; [|discriminate]. inversion E; subst. cbn [fst snd].
    eapply inv_free; eauto.
Qed.

Definition pos_sizes (ops : list lop) : Prop := Forall (fun o => match o with OAlloc size => 0 < size | OFree _ => True end) ops.

Theorem legacy_alloc_inv_l : forall ops start s,
  0 <= start -> pos_sizes ops -> lrun ops (linit start) = Some s -> Inv start (fst s) (snd s).
Proof.
  intros ops start s Hs P R.
  assert (I0 : Inv start (fst (linit start)) (snd (linit start))).
  { cbn. constructor; cbn; try constructor; lia. }
  unfold lrun in R. revert I0 R. generalize (linit start). induction ops as [|o ops IH]; intros s0 I0 R; cbn [fold_left] in R.
  - inversion R; subst. exact I0.
  - inversion P as [|? ? Po P']; subst. destruct (lstep s0 o) as [s1|] eqn:E.
    + apply (IH P' s1); auto. eapply inv_step; eauto. intros size ->. exact Po.
    + exfalso. clear -R. induction ops; cbn in R; [discriminate|auto].
Qed.
