(* C04: proofs about the allocator models. *)
From Coq Require Import ZArith Bool List Lia ZifyBool.
From Verif Require Import C04.AllocModel.
Import ListNotations.
Open Scope Z_scope.

(* ---------- venom: first fit avoids every reserved interval ---------- *)
Definition sorted_fst (l : list (Z * Z)) : Prop :=
  ForallOrdPairs (fun a b => fst a <= fst b) l.

Lemma insert_in : forall x l y, In y (insert x l) <-> y = x \/ In y l.
Proof.
  induction l; intros y; cbn [insert].
  - cbn. intuition.
  - destruct (lex_le x a); cbn [In]; [intuition|]. rewrite IHl. intuition.
Qed.

Lemma isort_in : forall l y, In y (isort l) <-> In y l.
Proof. induction l; intros y; cbn [isort]; [tauto|]. rewrite insert_in, IHl. cbn [In]. intuition. Qed.

Lemma insert_sorted : forall x l, sorted_fst l -> sorted_fst (insert x l).
Proof.
  induction l; intros S; cbn [insert].
  - repeat constructor.
  - inversion S; subst. destruct (lex_le x a) eqn:E.
    + constructor; [|exact S]. constructor; [unfold lex_le in E; lia|].
      rewrite Forall_forall in *. intros y Hy. specialize (H1 y Hy). unfold lex_le in E. lia.
    + constructor; [|apply IHl; exact H2].
      rewrite Forall_forall in *. intros y Hy. apply insert_in in Hy. destruct Hy as [->|Hy].
      * unfold lex_le in E. lia.
      * apply H1. exact Hy.
Qed.

Lemma isort_sorted : forall l, sorted_fst (isort l).
Proof. induction l; cbn [isort]; [constructor|apply insert_sorted; exact IHl]. Qed.

(* no word is both in [ptr, ptr+size) and in the reserved interval r *)
Definition avoids (ptr size : Z) (r : Z * Z) : Prop :=
  forall x, ptr <= x < ptr + size -> ~ (fst r <= x < fst r + snd r).

Lemma scan_ge : forall l ptr size, ptr <= scan l ptr size.
Proof.
  induction l as [|[rp rs] l IH]; intros ptr size; cbn [scan]; [lia|].
  destruct (rp + rs <=? ptr) eqn:A; [apply IH|].
  destruct (rp >=? ptr + size) eqn:B; [lia|]. specialize (IH (rp + rs) size). lia.
Qed.

Lemma scan_avoids : forall l ptr size, sorted_fst l ->
  Forall (avoids (scan l ptr size) size) l.
Proof.
  induction l as [|[rp rs] l IH]; intros ptr size S; [constructor|].
  inversion S as [|? ? Hall S']; subst. cbn [scan].
  destruct (rp + rs <=? ptr) eqn:A.
  - constructor; [|apply IH; exact S'].
    pose proof (scan_ge l ptr size). unfold avoids. cbn [fst snd]. intros x Hx. lia.
  - destruct (rp >=? ptr + size) eqn:B.
    + constructor.
      * unfold avoids. cbn [fst snd]. intros x Hx. lia.
      * rewrite Forall_forall in *. intros r Hr. specialize (Hall r Hr). cbn [fst] in Hall.
        unfold avoids. intros x Hx. lia.
    + constructor; [|apply IH; exact S'].
      pose proof (scan_ge l (rp + rs) size). unfold avoids. cbn [fst snd]. intros x Hx. lia.
Qed.

Theorem venom_allocate_avoids_reserved_l : forall reserved size r,
  In r reserved -> avoids (venom_allocate reserved size) size r.
Proof.
  intros reserved size r Hr. unfold venom_allocate.
  pose proof (scan_avoids (isort reserved) FN_START size (isort_sorted reserved)) as F.
  rewrite Forall_forall in F. apply F. apply isort_in. exact Hr.
Qed.

Theorem venom_allocate_nonneg_l : forall reserved size, 0 <= venom_allocate reserved size.
Proof. intros. unfold venom_allocate. apply (scan_ge (isort reserved) FN_START size). Qed.

(* ---------- legacy: one allocation step is safe under the state invariant ---------- *)
Definition bend (b : Z * Z) : Z := fst b + snd b.
Definition bdisj (a b : Z * Z) : Prop := bend a <= fst b \/ bend b <= fst a.
Definition inside (a b : Z * Z) : Prop := fst b <= fst a /\ bend a <= bend b.

(* state invariant: free blocks lie below next_mem and are disjoint from every live block;
   live blocks lie below next_mem *)
Definition linv (st : lstate) (live : list (Z * Z)) : Prop :=
  Forall (fun f => bend f <= next_mem st /\ Forall (bdisj f) live) (free st) /\
  Forall (fun b => bend b <= next_mem st) live.

Lemma take_free_inside : forall fl size p fl', 0 <= size ->
  take_free fl size = Some (p, fl') -> exists f, In f fl /\ inside (p, size) f.
Proof.
  induction fl as [|[q s] fl IH]; intros size p fl' Hs E; cbn [take_free] in E; [discriminate|].
  destruct (s =? size) eqn:A.
  - inversion E; subst. eexists. split; [left; reflexivity|]. unfold inside, bend. cbn. lia.
  - destruct (s >? size) eqn:B.
    + inversion E; subst. eexists. split; [left; reflexivity|]. unfold inside, bend. cbn. lia.
    + destruct (take_free fl size) as [[r rest]|] eqn:T; [|discriminate]. inversion E; subst.
      destruct (IH size p rest Hs T) as [f [I J]]. exists f. split; [right; exact I|exact J].
Qed.

Theorem legacy_allocate_step_safe_l : forall st live size p st',
  linv st live -> legacy_allocate st size = LOk p st' ->
  Forall (bdisj (p, size)) live /\ bend (p, size) <= next_mem st' /\ size mod 32 = 0 /\ 0 <= size /\
  next_mem st <= next_mem st' /\ next_mem st' <= Z.max (size_of_mem st') (next_mem st).
Proof.
  intros st live size p st' [IF IL] E. unfold legacy_allocate in E.
  destruct (negb (size mod 32 =? 0) || (size <? 0)) eqn:G; [discriminate|].
  assert (Hs : 0 <= size) by lia. assert (Hm : size mod 32 = 0) by lia.
  destruct (take_free (free st) size) as [[q fl]|] eqn:T.
  - inversion E; subst. cbn [next_mem size_of_mem].
    destruct (take_free_inside _ _ _ _ Hs T) as [f [I [J1 J2]]].
    rewrite Forall_forall in IF. destruct (IF f I) as [Fe Fd].
    split.
    { rewrite Forall_forall in *. intros b Hb. specialize (Fd b Hb). unfold bdisj, bend in *. cbn [fst snd] in *. lia. }
    split.
    { unfold bend in *. cbn [fst snd] in *. lia. }
    repeat split; lia.
  - destruct (Z.max (size_of_mem st) (next_mem st + size) >=? ALLOCATION_LIMIT) eqn:L; [discriminate|].
    inversion E; subst. cbn [next_mem size_of_mem].
    split.
    { rewrite Forall_forall in *. intros b Hb. specialize (IL b Hb). unfold bdisj, bend in *. cbn [fst snd]. lia. }
    split.
    { unfold bend. cbn [fst snd]. lia. }
    repeat split; lia.
Qed.
