(* C03, the explicitly unchecked operations, legacy front end: unsafe_add/sub/mul/div on all 64 integer types wrap
   EXACTLY modulo 2^bits (signed: two's-complement reinterpretation; unsafe_div by zero gives 0), pow_mod256 is the
   power modulo 2^256, << >> & | ^ are the exact bit operations.  For all operand values. *)
From Coq Require Import ZArith Bool List String Lia.
From Verif Require Import Base.Word256 C03.LIR C03.ArithSpec C03.TypeLemmas C03.TieBase C03.TieModels C03.LegacyExact
  C03.UnsafeExact C03.UnsafeTie C03.GenUnsafeLegacy C03.TieUnsafeLegacy.
Import ListNotations.
Open Scope Z_scope.

Theorem unsafe_ops_wrap_legacy : forall o T t, In (o, T, t) legacy_unsafes -> is_arith o = true ->
  forall x y, in_range T x -> in_range T y ->
  leval (env2 x y) t = Val (wrap (unsafe_spec T o x y)) /\
  in_range T (unsafe_spec T o x y) /\ (unsafe_spec T o x y - umath o x y) mod 2 ^ nbits T = 0.
Proof.
  intros o T t HIn A x y Hx Hy.
  pose proof tie_unsafe_legacy as Tie. rewrite forallb_forall in Tie. specialize (Tie _ HIn).
  unfold utie_one in Tie. apply andb_true_iff in Tie. destruct Tie as [Ok E]. apply lir_eqb_eq in E. subst t.
  destruct (unsafe_okb_parts o T Ok) as [OkT [ND _]].
  split; [|exact (twrap_spec T (umath o x y) OkT)].
  apply unsafe_arith_exact; try assumption; reflexivity.
Qed.
Print Assumptions unsafe_ops_wrap_legacy.

Theorem unchecked_bitops_legacy : forall o T t, In (o, T, t) legacy_unsafes -> is_arith o = false ->
  forall x y, in_range T x -> (if is_shift o then 0 <= y < W else in_range T y) ->
  leval [("x"%string, wrap x); ("y"%string, wrap y)] t = Val (wrap (umath o x y)).
Proof.
  intros o T t HIn A x y Hx Hy.
  pose proof tie_unsafe_legacy as Tie. rewrite forallb_forall in Tie. specialize (Tie _ HIn).
  unfold utie_one in Tie. apply andb_true_iff in Tie. destruct Tie as [Ok E]. apply lir_eqb_eq in E. subst t.
  destruct (unsafe_okb_parts o T Ok) as [OkT [ND [PM SH]]].
  apply unsafe_bits_exact; try assumption; try reflexivity.
  - intros S. rewrite S in Hy. exact Hy.
  - destruct o; try discriminate A; cbn [bits_ok is_shift] in *; try exact I.
    + apply PM. reflexivity.
    + split; [apply SH; reflexivity | split; assumption].
    + split; [apply SH; reflexivity | split; assumption].
Qed.
Print Assumptions unchecked_bitops_legacy.

Example unsafe_nonvacuous :
  unsafe_spec (Build_nty 1 false false) UAdd 200 100 = 44 /\ unsafe_spec (Build_nty 1 true false) UMul (-128) (-1) = -128 /\
  unsafe_spec (Build_nty 1 true false) UDiv (-128) (-1) = -128 /\ unsafe_spec (Build_nty 1 true false) UDiv 5 0 = 0 /\
  unsafe_spec (Build_nty 1 true false) USub (-128) 1 = 127.
Proof. repeat split; vm_compute; reflexivity. Qed.
