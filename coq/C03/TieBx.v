(* O-tie for as_wei_value / floor / ceil / min / max: exported templates = models; family = expected keys. *)
From Coq Require Import ZArith Bool List String.
From Verif Require Import C03.LIR C03.VSL C03.ArithSpec C03.BxModel C03.BxTie C03.GenBx.
Import ListNotations.
Lemma tie_bx_legacy : forallb xtie_l legacy_bx = true.
Proof. vm_compute. reflexivity. Qed.
Lemma tie_bx_venom : forallb xtie_v venom_bx = true.
Proof. vm_compute. reflexivity. Qed.
Lemma family_complete_bx : xkeys_eqb (map fst legacy_bx) xkeys = true /\ xkeys_eqb (map fst venom_bx) xkeys = true.
Proof. split; vm_compute; reflexivity. Qed.
