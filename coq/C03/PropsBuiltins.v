(* C03: the arithmetic builtins outside the operator tables and the flag conversions, about the REAL exported templates
   (GenBuiltins.v is regenerated from /repo on every run), both front ends, variable and literal operands:
     shift(x, n)            = x * 2^n wrapped to the type of x for n >= 0 (0 for n >= 256), floor(x / 2^-n) for n < 0
                              (arithmetic for int256; 0 / -1 for n <= -256); an unsigned amount never shifts right
     abs(x)                 = |x|, reverts exactly for x = MIN_INT256
     uint256_addmod/mulmod  = (a + b) mod c / (a * b) mod c over the integers, revert exactly for c = 0
     pow_mod256(a, b)       = a^b mod 2^256
     ~x                     = max - x for uint256 / bytes32, (2^n - 1) - x for a flag with n members (stays in range)
     convert(flag_n <-> uint256), convert(flag_n, bytes32) for EVERY n = 1..256: uint256 -> flag_n reverts iff v >= 2^n. *)
From Coq Require Import ZArith Bool List String Lia.
From Verif Require Import Base.Word256 C03.LIR C03.VSL C03.ArithSpec C03.WordArith C03.TypeLemmas C03.TieBase C03.TieModels
  C03.LegacyExact C03.ConvSpec C03.ConvModel C03.ConvExact C03.VConvExact C03.UnsafeExact C03.ConvTie
  C03.BuiltinExact C03.BuiltinTie C03.GenBuiltins C03.TieBuiltins.
Import ListNotations.
Open Scope Z_scope.

Theorem legacy_builtin_exact : forall f ls t, In (f, ls, t) legacy_builtins ->
  forall vs, agree ls vs -> b_domb f vs = true -> leval (lenv vs) t = enc_out (b_spec f vs).
Proof.
  intros f ls t HIn vs Ag Dom. pose proof tie_builtins_legacy as Tie. rewrite forallb_forall in Tie.
  exact (builtin_exact_legacy f ls t vs (Tie _ HIn) Ag Dom).
Qed.
Print Assumptions legacy_builtin_exact.

Theorem venom_builtin_exact : forall f ls t, In (f, ls, t) venom_builtins ->
  forall vs, agree ls vs -> b_domb f vs = true -> vrun (venv vs) t = enc_out (b_spec f vs).
Proof.
  intros f ls t HIn vs Ag Dom. pose proof tie_builtins_venom as Tie. rewrite forallb_forall in Tie.
  exact (builtin_exact_venom f ls t vs (Tie _ HIn) Ag Dom).
Qed.
Print Assumptions venom_builtin_exact.

(* the revert cases, spelled out *)
Corollary builtin_revert_cases :
  b_spec BAbs [MINS] = Revert /\ (forall a b, b_spec BAddmod [a; b; 0] = Revert) /\ (forall a b, b_spec BMulmod [a; b; 0] = Revert) /\
  (forall x, x <> MINS -> b_spec BAbs [x] = Val (Z.abs x)) /\
  (forall a b c, c <> 0 -> b_spec BAddmod [a; b; c] = Val ((a + b) mod c) /\ b_spec BMulmod [a; b; c] = Val ((a * b) mod c)).
Proof.
  repeat split; try reflexivity.
  - intros x Hx. cbn [b_spec]. replace (x =? MINS) with false by lia. reflexivity.
  - cbn [b_spec]. replace (c =? 0) with false by lia. reflexivity.
  - cbn [b_spec]. replace (c =? 0) with false by lia. reflexivity.
Qed.

Theorem shift_amount_regression :
  in_range uint256_t MAXU /\
  leval [("x"%string, wrap 12); ("y"%string, wrap MAXU)] (m_shift false false (LVar "x") (LVar "y")) = Val 0 /\
  leval [("x"%string, wrap 12); ("y"%string, wrap MAXU)] (m_shift false true (LVar "x") (LVar "y")) = Val 6.
Proof. exact shift_unsigned_amount_regression. Qed.

(* shift by |n| >= 256 (shift_large, BuiltinTie.v): 0 for n >= 256; 0 / -1 for n <= -256 *)
Corollary shift_out_of_width sx x n : in_range (int_t sx) x ->
  (256 <= n -> shift_spec sx x n = 0) /\ (n <= -256 -> shift_spec sx x n = if x <? 0 then -1 else 0).
Proof. apply shift_large. Qed.

(* flags with every member count *)
Theorem legacy_flag_convert_exact : forall Tin Tout t, In (Tin, Tout, t) legacy_flag_converts ->
  forall v, c_in_range Tin v -> leval [("x"%string, c_enc Tin v)] t = c_enc_out Tout (conv_spec Tin Tout v).
Proof.
  intros Tin Tout t HIn v Hv.
  pose proof tie_flag_converts_legacy as Tie. rewrite forallb_forall in Tie. specialize (Tie _ HIn).
  unfold ctie_one in Tie. repeat (apply andb_true_iff in Tie; destruct Tie as [Tie ?]).
  apply existsb_exists in H. destruct H as [m [Mm E]]. apply lir_eqb_eq in E. subst t.
  unfold cmodels in Mm. apply in_flat_map in Mm. destruct Mm as [i1 [_ Mm]].
  apply in_map_iff in Mm. destruct Mm as [i2 [<- _]].
  apply convert_exact; try assumption; apply cty_okb_ok; assumption.
Qed.
Theorem venom_flag_convert_exact : forall Tin Tout t, In (Tin, Tout, t) venom_flag_converts ->
  forall v, c_in_range Tin v -> vrun [("%1"%string, c_enc Tin v)] t = c_enc_out Tout (conv_spec Tin Tout v).
Proof.
  intros Tin Tout t HIn v Hv.
  pose proof tie_flag_converts_venom as Tie. rewrite forallb_forall in Tie. specialize (Tie _ HIn).
  unfold vctie_one in Tie. repeat (apply andb_true_iff in Tie; destruct Tie as [Tie ?]).
  apply vtemplate_eqb_eq in H. subst t.
  apply vconvert_exact; try assumption; apply cty_okb_ok; assumption.
Qed.
Print Assumptions venom_flag_convert_exact.

(* the range check of uint256 -> flag: exactly the values below 2^n_members pass, unchanged *)
Corollary flag_range_check n v : 1 <= n <= 256 -> 0 <= v < W ->
  conv_spec (CNum uint256_t) (CFlag n) v = if v <? 2 ^ n then Val v else Revert.
Proof.
  intros Hn Hv. unfold conv_spec, c_chk, c_in_rangeb. cbn [c_lo c_hi].
  destruct (Z.ltb_spec v (2 ^ n)); [replace ((0 <=? v) && (v <=? 2 ^ n - 1)) with true by lia
                                    | replace ((0 <=? v) && (v <=? 2 ^ n - 1)) with false by lia]; reflexivity.
Qed.
Corollary flag_to_uint_identity n v : 1 <= n <= 256 -> 0 <= v < 2 ^ n ->
  conv_spec (CFlag n) (CNum uint256_t) v = Val v.
Proof.
  intros Hn Hv. pose proof (pow2_le_W n ltac:(lia)). pose proof W_val. unfold conv_spec. cbn [ndec uint256_t].
  unfold c_chk, c_in_rangeb. cbn [c_lo c_hi].
  change (ty_lo uint256_t) with 0. change (ty_hi uint256_t) with MAXU.
  replace ((0 <=? v) && (v <=? MAXU)) with true by wl. reflexivity.
Qed.

Theorem builtins_family_complete :
  bkeys_eqb' (map fst legacy_builtins) bkeys = true /\ bkeys_eqb' (map fst venom_builtins) bkeys = true /\
  ckeys_eqb (ckeys legacy_flag_converts) flag_pairs = true /\ ckeys_eqb (ckeys venom_flag_converts) flag_pairs = true /\
  Z.of_nat (List.length legacy_builtins) = 507 /\ Z.of_nat (List.length legacy_flag_converts) = 768.
Proof.
  destruct family_complete_builtins as [A B]. destruct family_complete_flag_converts as [C D].
  repeat split; try assumption; reflexivity.
Qed.

Example builtins_nonvacuous :
  b_spec (BShift true (Build_nty 1 true false)) [-8; -1] = Val (-4) /\
  b_spec (BShift false (Build_nty 32 true false)) [3; 255] = Val HALF /\
  b_spec (BShift true (Build_nty 32 true false)) [3; 255] = Val MINS /\
  b_spec BAddmod [MAXU; MAXU; 7] = Val ((MAXU + MAXU) mod 7) /\
  b_spec (BInvert (CFlag 3)) [5] = Val 2 /\
  conv_spec (CNum uint256_t) (CFlag 3) 8 = Revert /\ conv_spec (CNum uint256_t) (CFlag 3) 7 = Val 7.
Proof. repeat split; vm_compute; reflexivity. Qed.
