(* O-tie for safe_pow, Venom. *)
From Coq Require Import ZArith Bool List String.
From Verif Require Import C03.LIR C03.VSL C03.ArithSpec C03.TieModels C03.PowExact C03.PowTie C03.GenPowVenom.
Import ListNotations.
Lemma tie_pow_venom : forallb vptie_one venom_pows = true.
Proof. vm_compute. reflexivity. Qed.
Lemma family_complete_pow_venom : pkeys_eqb (map pkey venom_pows) pow_keys = true.
Proof. vm_compute. reflexivity. Qed.
