(* O-tie, Venom front end: every template exported from vyper/codegen_venom/arithmetic.py (GenVenom.v,
   regenerated each run) is syntactically equal to the parametric model (ArithModel.v, v_ generators);
   a literal-operand template equals the variable-operand model with the operand substituted (VSubst.v). *)
From Coq Require Import ZArith Bool List String Lia.
From Verif Require Import Base.Word256 C03.LIR C03.VSL C03.ArithSpec C03.ArithModel C03.TieBase C03.VSubst C03.GenVenom.
Import ListNotations.
Open Scope Z_scope.

Definition vmodel (op : aop) (T : nty) : option vtemplate :=
  match op with
  | AAdd => Some (v_safe_add T) | ASub => Some (v_safe_sub T) | AMul => Some (v_safe_mul T)
  | ADiv => Some (v_safe_div T) | AMod => Some (v_safe_mod T)
  | _ => None
  end.

Definition vshape (sh lit : Z) (m : vtemplate) : vtemplate :=
  if sh =? 1 then vsub "%1" lit m else if sh =? 2 then vsub "%2" lit m else m.

Definition vtie_one (p : aop * nty * Z * Z * vtemplate) : bool :=
  match p with (op, T, sh, lit, t) =>
    ty_okb T && shape_okb T sh lit &&
    match vmodel op T with
    | Some m => vtemplate_eqb t (vshape sh lit m) && no_write "%1" (fst m) && no_write "%2" (fst m)
    | None => false end end.
Lemma tie_arith_venom : forallb vtie_one venom_templates = true.
Proof. vm_compute. reflexivity. Qed.

Definition vtie_clamp_one (p : nty * vtemplate) : bool :=
  match p with (T, t) => ty_okb T && vtemplate_eqb t (v_clamp_basetype T) end.
Lemma tie_clamp_venom : forallb vtie_clamp_one venom_clamps = true.
Proof. vm_compute. reflexivity. Qed.

Definition vexpected_keys : list (aop * nty * Z * Z) :=
  flat_map (fun T =>
    app (map (fun op => (op, T, 0, 0)) ops5)
        (flat_map (fun lit => flat_map (fun op => [(op, T, 1, lit); (op, T, 2, lit)]) ops5) (lit_values T)))
    num_types.
Lemma family_complete_venom : map fst venom_templates = vexpected_keys.
Proof. vm_compute. reflexivity. Qed.
Lemma family_complete_venom_clamps : map fst venom_clamps = num_types.
Proof. vm_compute. reflexivity. Qed.
