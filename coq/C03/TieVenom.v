(* O-tie, Venom front end: every template exported from vyper/codegen_venom/arithmetic.py (GenVenom.v,
   regenerated each run) is syntactically equal to the parametric model (ArithModel.v, v_ generators). *)
From Coq Require Import ZArith Bool List String Lia.
From Verif Require Import Base.Word256 C03.LIR C03.VSL C03.ArithSpec C03.ArithModel C03.GenVenom C03.TieLegacy.
Import ListNotations.
Open Scope Z_scope.

Lemma vop_eqb_eq a b : vop_eqb a b = true -> a = b.
Proof.
  destruct a, b; cbn; intros H; try discriminate H; f_equal; [apply Z.eqb_eq | apply String.eqb_eq]; assumption.
Qed.
Lemma vinstr_eqb_eq i j : vinstr_eqb i j = true -> i = j.
Proof.
  destruct i, j; cbn [vinstr_eqb]; intros H; try discriminate H;
    repeat match goal with H : _ && _ = true |- _ => apply andb_true_iff in H; destruct H end;
    repeat match goal with
           | H : String.eqb _ _ = true |- _ => apply String.eqb_eq in H; subst
           | H : vop_eqb _ _ = true |- _ => apply vop_eqb_eq in H; subst
           | H : op1_eqb _ _ = true |- _ => apply op1_eqb_eq in H; subst
           | H : op2_eqb _ _ = true |- _ => apply op2_eqb_eq in H; subst
           | H : op3_eqb _ _ = true |- _ => apply op3_eqb_eq in H; subst
           end; reflexivity.
Qed.
Lemma vlist_eqb_eq l : forall m, vlist_eqb l m = true -> l = m.
Proof.
  induction l as [|i l IH]; destruct m as [|j m]; cbn; intros H; try discriminate H; [reflexivity|].
  apply andb_true_iff in H. destruct H as [H1 H2]. f_equal; [apply vinstr_eqb_eq | apply IH]; assumption.
Qed.
Lemma vtemplate_eqb_eq s t : vtemplate_eqb s t = true -> s = t.
Proof.
  destruct s, t. unfold vtemplate_eqb. cbn [fst snd]. intros H. apply andb_true_iff in H. destruct H.
  f_equal; [apply vlist_eqb_eq | apply vop_eqb_eq]; assumption.
Qed.

Definition vmodel (op : aop) (T : nty) : option vtemplate :=
  match op with
  | AAdd => Some (v_safe_add T) | ASub => Some (v_safe_sub T) | AMul => Some (v_safe_mul T)
  | ADiv => Some (v_safe_div T) | AMod => Some (v_safe_mod T)
  | _ => None
  end.

Definition vtie_one (p : aop * nty * vtemplate) : bool :=
  match p with (op, T, t) =>
    ty_okb T && match vmodel op T with Some m => vtemplate_eqb t m | None => false end end.
Lemma tie_arith_venom : forallb vtie_one venom_templates = true.
Proof. vm_compute. reflexivity. Qed.

Definition vtie_clamp_one (p : nty * vtemplate) : bool :=
  match p with (T, t) => ty_okb T && vtemplate_eqb t (v_clamp_basetype T) end.
Lemma tie_clamp_venom : forallb vtie_clamp_one venom_clamps = true.
Proof. vm_compute. reflexivity. Qed.

Definition vexpected_keys : list (aop * nty) :=
  flat_map (fun T => [(AAdd, T); (ASub, T); (AMul, T); (ADiv, T); (AMod, T)]) num_types.
Lemma family_complete_venom : map fst venom_templates = vexpected_keys.
Proof. vm_compute. reflexivity. Qed.
Lemma family_complete_venom_clamps : map fst venom_clamps = num_types.
Proof. vm_compute. reflexivity. Qed.
