(* O-tie, Venom front end: every template exported from vyper/codegen_venom/arithmetic.py (GenVenom.v,
   regenerated each run) is syntactically equal to the parametric model (ArithModel.v, v_ generators);
   a literal-operand template equals the variable-operand model with the operand substituted (VSubst.v). *)
From Coq Require Import ZArith Bool List String Lia.
From Verif Require Import Base.Word256 C03.LIR C03.VSL C03.ArithSpec C03.ArithModel C03.TieBase C03.VSubst C03.TieModels C03.GenVenom.
Import ListNotations.
Open Scope Z_scope.

Lemma tie_arith_venom : forallb vtie_one venom_templates = true.
Proof. vm_compute. reflexivity. Qed.

Lemma tie_clamp_venom : forallb vtie_clamp_one venom_clamps = true.
Proof. vm_compute. reflexivity. Qed.

Lemma family_complete_venom : map fst venom_templates = vexpected_keys.
Proof. vm_compute. reflexivity. Qed.
Lemma family_complete_venom_clamps : map fst venom_clamps = num_types.
Proof. vm_compute. reflexivity. Qed.
