(* Word-level lemmas used by the C03 exactness proofs (all about Base/Word256.v). *)
From Coq Require Import ZArith Bool List Lia ZifyBool.
From Verif Require Import Base.Word256.
Open Scope Z_scope.
Ltac Zify.zify_post_hook ::= Z.to_euclidean_division_equations.

Lemma W_val : W = 115792089237316195423570985008687907853269984665640564039457584007913129639936.
Proof. reflexivity. Qed.
Lemma HALF_val : HALF = 57896044618658097711785492504343953926634992332820282019728792003956564819968.
Proof. reflexivity. Qed.
Lemma W_HALF : W = 2 * HALF. Proof. reflexivity. Qed.
Ltac wl := pose proof W_val; pose proof HALF_val; unfold MINS, MAXU, MAXS in *; lia.

Definition sword (v : Z) : Prop := MINS <= v <= MAXS.
Definition uword (v : Z) : Prop := 0 <= v < W.

Lemma wrap_range a : 0 <= wrap a < W.
Proof. unfold wrap. apply Z.mod_pos_bound. wl. Qed.
Lemma wrap_small a : 0 <= a < W -> wrap a = a.
Proof. intros. unfold wrap. apply Z.mod_small. lia. Qed.
Lemma wrap_neg a : - W <= a < 0 -> wrap a = a + W.
Proof. intros H. unfold wrap. symmetry. apply Z.mod_unique with (q := -1); wl. Qed.
Lemma ts_wrap v : sword v -> to_signed (wrap v) = v.
Proof.
  unfold sword, to_signed. intros H. destruct (Z_lt_dec v 0).
  - rewrite wrap_neg by wl. destruct (v + W <? HALF) eqn:E; wl.
  - rewrite wrap_small by wl. destruct (v <? HALF) eqn:E; wl.
Qed.
Lemma ts_range w : uword w -> sword (to_signed w).
Proof. unfold uword, sword, to_signed. intros. destruct (w <? HALF) eqn:E; wl. Qed.
Lemma wrap_ts w : uword w -> wrap (to_signed w) = w.
Proof.
  unfold uword, to_signed. intros. destruct (w <? HALF) eqn:E.
  - apply wrap_small; lia.
  - rewrite wrap_neg by wl. lia.
Qed.
Lemma wrap_inj_s a b : sword a -> sword b -> wrap a = wrap b -> a = b.
Proof. intros Ha Hb E. rewrite <- (ts_wrap a Ha), <- (ts_wrap b Hb), E. reflexivity. Qed.
Lemma wrap_add a b : wrap (wrap a + wrap b) = wrap (a + b).
Proof. unfold wrap. symmetry. apply Zplus_mod. Qed.
Lemma wrap_sub a b : wrap (wrap a - wrap b) = wrap (a - b).
Proof. unfold wrap. symmetry. apply Zminus_mod. Qed.
Lemma wrap_mul a b : wrap (wrap a * wrap b) = wrap (a * b).
Proof. unfold wrap. symmetry. apply Zmult_mod. Qed.
Lemma w_add_wrap a b : w_add (wrap a) (wrap b) = wrap (a + b).
Proof. exact (wrap_add a b). Qed.
Lemma w_sub_wrap a b : w_sub (wrap a) (wrap b) = wrap (a - b).
Proof. exact (wrap_sub a b). Qed.
Lemma w_mul_wrap a b : w_mul (wrap a) (wrap b) = wrap (a * b).
Proof. exact (wrap_mul a b). Qed.
Lemma wrap_sub_W v : W <= v < 2 * W -> wrap v = v - W.
Proof. intros H. unfold wrap. symmetry. apply Z.mod_unique with (q := 1); wl. Qed.
Lemma wrap_cases v : - W <= v < 2 * W ->
  (v < 0 /\ wrap v = v + W) \/ (0 <= v < W /\ wrap v = v) \/ (W <= v /\ wrap v = v - W).
Proof.
  intros H. destruct (Z_lt_dec v 0); [left; split; [lia | apply wrap_neg; lia]|].
  destruct (Z_lt_dec v W); [right; left; split; [lia | apply wrap_small; lia]|].
  right; right; split; [lia | apply wrap_sub_W; lia].
Qed.

(* case-split every boolean comparison in the goal *)
Ltac bcase1 := match goal with
  | |- context [?a <? ?b] => destruct (Z.ltb_spec a b)
  | |- context [?a <=? ?b] => destruct (Z.leb_spec a b)
  | |- context [?a =? ?b] => destruct (Z.eqb_spec a b)
  | |- context [?a >? ?b] => rewrite (Z.gtb_ltb a b)
  | H : context [?a <? ?b] |- _ => destruct (Z.ltb_spec a b)
  | H : context [?a <=? ?b] |- _ => destruct (Z.leb_spec a b)
  | H : context [?a =? ?b] |- _ => destruct (Z.eqb_spec a b)
  | H : context [?a >? ?b] |- _ => rewrite (Z.gtb_ltb a b) in H
  end.
Ltac bsolve := unfold b2z in *;
  repeat (bcase1; try lia; try (exfalso; lia); cbv iota in *; cbn [andb orb negb] in * );
  try reflexivity; try lia; try (exfalso; lia).

Lemma wrap_eq0 v : - W < v < W -> (wrap v = 0 <-> v = 0).
Proof.
  intros H. split; [|intros ->; reflexivity]. intros E.
  destruct (Z_lt_dec v 0); [rewrite wrap_neg in E by lia | rewrite wrap_small in E by lia]; lia.
Qed.

(* there is k with wrap v = v - k*W *)
Lemma wrap_k v : exists k, wrap v = v - k * W.
Proof. exists (v / W). unfold wrap. pose proof (Z.div_mod v W). wl. Qed.

(* ---- the 256-bit overflow checks ---- *)

(* unsigned mul: res/y == x  <->  no overflow *)
Lemma umul_check x y : uword x -> uword y -> y <> 0 ->
  (wrap (x * y) / y = x <-> x * y < W).
Proof.
  unfold uword. intros Hx Hy Hy0.
  destruct (wrap_k (x * y)) as [k Hk]. pose proof (wrap_range (x * y)) as Hr.
  split.
  - intros E. pose proof (Z.div_mod (wrap (x * y)) y Hy0) as D. rewrite E in D.
    pose proof (Z.mod_pos_bound (wrap (x * y)) y ltac:(lia)) as M.
    assert (k = 0) by wl. subst k. lia.
  - intros L. rewrite wrap_small by nia. apply Z.div_mul. lia.
Qed.

(* signed mul: sdiv(res, y) == x  <->  no overflow, except the (MIN, -1) pair *)
Lemma smul_check x y : sword x -> sword y -> y <> 0 ->
  (wrap (Z.quot (to_signed (wrap (x * y))) y) = wrap x
   <-> (sword (x * y) \/ (x = MINS /\ y = -1))).
Proof.
  intros Hx Hy Hy0.
  destruct (wrap_k (x * y)) as [k Hk]. pose proof (wrap_range (x * y)) as Hr.
  set (r := to_signed (wrap (x * y))) in *.
  assert (Hrs : sword r) by (apply ts_range; exact Hr).
  assert (Hrk : exists k', r = x * y - k' * W).
  { unfold r, to_signed. destruct (wrap (x * y) <? HALF); [exists k | exists (k + 1)]; lia. }
  destruct Hrk as [k' Hk'].
  pose proof (Z.quot_rem' r y) as QR.
  pose proof (Z.rem_bound_abs r y Hy0) as RB.
  split.
  - intros E.
    assert (Hq : - HALF <= Z.quot r y <= HALF).
    { assert (Z.abs (Z.quot r y) <= Z.abs r) by (clear - Hy0; nia).
      unfold sword in *. wl. }
    destruct (Z.eq_dec (Z.quot r y) HALF) as [Eh|Nh].
    + right. rewrite Eh in E. unfold sword in *.
      assert (x = MINS).
      { apply wrap_inj_s; [exact Hx | unfold sword; wl |].
        rewrite <- E. vm_compute. reflexivity. }
      split; [assumption|]. rewrite Eh in QR. subst x. clear - QR RB Hy Hy0 Hrs. unfold sword in *. wl.
    + left. assert (Z.quot r y = x).
      { apply wrap_inj_s; [unfold sword; wl | exact Hx | exact E]. }
      rewrite H in QR. unfold sword in *.
      assert (k' = 0) by (clear - QR RB Hk' Hy; unfold sword in *; wl).
      subst k'. replace (x * y) with r by lia. exact Hrs.
  - intros [S | [-> ->]].
    + assert (r = x * y) by (unfold r; apply ts_wrap; exact S).
      rewrite H. rewrite Z.quot_mul by exact Hy0. reflexivity.
    + vm_compute. reflexivity.
Qed.

(* ---- boolean-valued words ---- *)
Lemma w_or_b2z a b : w_or (b2z a) (b2z b) = b2z (a || b).
Proof. destruct a, b; reflexivity. Qed.
Lemma w_and_b2z a b : w_and (b2z a) (b2z b) = b2z (a && b).
Proof. destruct a, b; reflexivity. Qed.
Lemma w_iszero_b2z a : w_iszero (b2z a) = b2z (negb a).
Proof. destruct a; reflexivity. Qed.
Lemma b2z_eq0 a : (b2z a =? 0) = negb a.
Proof. destruct a; reflexivity. Qed.

Definition swordb (v : Z) : bool := (MINS <=? v) && (v <=? MAXS).
Lemma swordb_iff v : swordb v = true <-> sword v.
Proof. unfold swordb, sword. lia. Qed.

Lemma wrap_MINS : wrap MINS = HALF. Proof. reflexivity. Qed.
Lemma wrap_m1 : wrap (-1) = MAXU. Proof. reflexivity. Qed.
Lemma min256_val : w_shl (wrap 255) (wrap 1) = HALF. Proof. reflexivity. Qed.

Lemma wrap_eq_MINS x : sword x -> (wrap x =? HALF) = (x =? MINS).
Proof.
  intros Hx. destruct (Z.eqb_spec x MINS) as [->|N]; [reflexivity|].
  apply Z.eqb_neq. intros E. apply N. apply wrap_inj_s; [exact Hx | unfold sword; wl | exact E].
Qed.
Lemma wrap_eq_m1 y : sword y -> (w_not (wrap y) =? 0) = (y =? -1).
Proof.
  intros Hy. unfold w_not. destruct (Z.eqb_spec y (-1)) as [->|N]; [reflexivity|].
  apply Z.eqb_neq. intros E. apply N. apply wrap_inj_s; [exact Hy | unfold sword; wl |].
  rewrite wrap_m1. lia.
Qed.

(* value of the legacy/venom `res / y == x or y == 0` test *)
Lemma smul_ok_val x y : sword x -> sword y ->
  w_or (w_eq (w_sdiv (wrap (x * y)) (wrap y)) (wrap x)) (w_iszero (wrap y))
  = b2z ((swordb (x * y) || ((x =? MINS) && (y =? -1))) || (y =? 0)).
Proof.
  intros Hx Hy. unfold w_eq, w_iszero. rewrite w_or_b2z. f_equal.
  assert (E0 : (wrap y =? 0) = (y =? 0)).
  { destruct (Z.eqb_spec y 0) as [->|N]; [reflexivity|]. apply Z.eqb_neq. rewrite wrap_eq0; [exact N|]. unfold sword in Hy. wl. }
  rewrite E0. destruct (Z.eqb_spec y 0) as [->|N].
  - rewrite !orb_true_r. reflexivity.
  - rewrite !orb_false_r. unfold w_sdiv. rewrite E0.
    unfold of_signed. fold (wrap (Z.quot (to_signed (wrap (x * y))) (to_signed (wrap y)))).
    rewrite (ts_wrap y Hy).
    pose proof (smul_check x y Hx Hy N) as I. rewrite <- swordb_iff in I.
    destruct (Z.eqb_spec (wrap (Z.quot (to_signed (wrap (x * y))) y)) (wrap x)) as [E|E].
    + apply I in E. symmetry. destruct E as [E|[-> ->]]; [rewrite E; reflexivity | rewrite orb_true_r; reflexivity].
    + symmetry. apply not_true_is_false. intros C. apply E. apply I.
      apply orb_true_iff in C. destruct C as [C|C]; [left; exact C | right; lia].
Qed.

Lemma umul_ok_val x y : uword x -> uword y ->
  w_or (w_eq (w_div (wrap (x * y)) y) x) (w_iszero y) = b2z ((x * y <? W) || (y =? 0)).
Proof.
  intros Hx Hy. unfold w_eq, w_iszero. rewrite w_or_b2z. f_equal.
  destruct (Z.eqb_spec y 0) as [->|N].
  - rewrite !orb_true_r. reflexivity.
  - rewrite !orb_false_r. assert (N' : (y =? 0) = false) by (apply Z.eqb_neq; exact N). unfold w_div. rewrite N'.
    pose proof (umul_check x y Hx Hy N) as I.
    destruct (Z.eqb_spec (wrap (x * y) / y) x) as [E|E]; symmetry; [apply Z.ltb_lt; apply I; exact E|].
    apply Z.ltb_ge. destruct (Z_lt_dec (x * y) W); [exfalso; apply E; apply I; assumption | lia].
Qed.

(* ---- division / modulo ---- *)
Lemma wrap_eqb0 y : - W < y < W -> (wrap y =? 0) = (y =? 0).
Proof.
  intros H. destruct (Z.eqb_spec y 0) as [->|N]; [reflexivity|]. apply Z.eqb_neq. rewrite wrap_eq0; assumption.
Qed.
Lemma gt0_val y : - W < y < W -> w_gt (wrap y) (wrap 0) = b2z (negb (y =? 0)).
Proof.
  intros H. unfold w_gt. f_equal. change (wrap 0) with 0. rewrite <- (wrap_eqb0 y H).
  pose proof (wrap_range y). bsolve.
Qed.
Lemma sdiv_val x y : sword x -> sword y -> y <> 0 -> w_sdiv (wrap x) (wrap y) = wrap (Z.quot x y).
Proof.
  intros Hx Hy N. unfold w_sdiv. rewrite wrap_eqb0 by (unfold sword in Hy; wl).
  replace (y =? 0) with false by (symmetry; apply Z.eqb_neq; exact N).
  rewrite (ts_wrap x Hx), (ts_wrap y Hy). reflexivity.
Qed.
Lemma smod_val x y : sword x -> sword y -> y <> 0 -> w_smod (wrap x) (wrap y) = wrap (Z.rem x y).
Proof.
  intros Hx Hy N. unfold w_smod. rewrite wrap_eqb0 by (unfold sword in Hy; wl).
  replace (y =? 0) with false by (symmetry; apply Z.eqb_neq; exact N).
  rewrite (ts_wrap x Hx), (ts_wrap y Hy). reflexivity.
Qed.
Lemma udiv_val x y : 0 <= x -> 0 <= y -> y <> 0 -> w_div x y = Z.quot x y.
Proof.
  intros Hx Hy N. unfold w_div. replace (y =? 0) with false by (symmetry; apply Z.eqb_neq; exact N).
  symmetry. apply Z.quot_div_nonneg; lia.
Qed.
Lemma umod_val x y : 0 <= x -> 0 <= y -> y <> 0 -> w_mod x y = Z.rem x y.
Proof.
  intros Hx Hy N. unfold w_mod. replace (y =? 0) with false by (symmetry; apply Z.eqb_neq; exact N).
  symmetry. apply Z.rem_mod_nonneg; lia.
Qed.
Lemma quot_abs_le x y : y <> 0 -> Z.abs (Z.quot x y) <= Z.abs x.
Proof. intros. nia. Qed.
Lemma rem_abs_le x y : y <> 0 -> Z.abs (Z.rem x y) <= Z.abs x /\ (0 <= x -> 0 <= Z.rem x y) /\ (x <= 0 -> Z.rem x y <= 0).
Proof.
  intros N. split; [|split].
  - rewrite <- Z.rem_abs by exact N. apply Z.rem_le; lia.
  - intros. apply Z.rem_nonneg; lia.
  - intros. apply Z.rem_nonpos; lia.
Qed.
Lemma quot_sword x y : sword x -> sword y -> y <> 0 -> ~ (x = MINS /\ y = -1) -> sword (Z.quot x y).
Proof.
  unfold sword. intros Hx Hy N S. pose proof (quot_abs_le x y N) as A.
  destruct (Z.eq_dec x MINS) as [->|Nx].
  - destruct (Z.eq_dec y (-1)); [tauto|].
    destruct (Z.eq_dec y 1) as [->|]; [rewrite Z.quot_1_r; wl|].
    assert (Z.abs (Z.quot MINS y) <= HALF / 2).
    { pose proof HALF_val. pose proof W_val. unfold MINS, MAXS in *. nia. }
    wl.
  - wl.
Qed.

Lemma w_eq_wrap a b : sword a -> sword b -> w_eq (wrap a) (wrap b) = b2z (a =? b).
Proof.
  intros Ha Hb. unfold w_eq. f_equal. destruct (Z.eqb_spec a b) as [->|N]; [apply Z.eqb_refl|].
  apply Z.eqb_neq. intros E. apply N. apply wrap_inj_s; assumption.
Qed.
Lemma w_not0 : w_not (wrap 0) = wrap (-1). Proof. reflexivity. Qed.
Lemma min256_wrap : w_shl (wrap 255) (wrap 1) = wrap MINS. Proof. reflexivity. Qed.
Lemma sword_MINS : sword MINS. Proof. unfold sword. wl. Qed.
Lemma sword_m1 : sword (-1). Proof. unfold sword. wl. Qed.
Lemma sword_0 : sword 0. Proof. unfold sword. wl. Qed.
Lemma w_not_eq0 y : sword y -> w_eq (w_not (wrap y)) (wrap 0) = b2z (y =? -1).
Proof. intros Hy. unfold w_eq. change (wrap 0) with 0. rewrite wrap_eq_m1 by exact Hy. reflexivity. Qed.

(* |x quot y| stays within a signed range [-h, h-1] unless x = -h and y = -1 *)
Lemma quot_bound h x y : 1 <= h -> - h <= x <= h - 1 -> y <> 0 -> (x <> - h \/ y <> -1) ->
  - h <= Z.quot x y <= h - 1.
Proof.
  intros Hh Hx N S. pose proof (quot_abs_le x y N) as A.
  destruct (Z.eq_dec x (- h)) as [->|Nx]; [|lia].
  destruct S as [S|S]; [lia|].
  destruct (Z.eq_dec y 1) as [->|]; [rewrite Z.quot_1_r; lia|].
  assert (2 * Z.abs (Z.quot (- h) y) <= h) by nia. lia.
Qed.
