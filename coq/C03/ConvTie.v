(* Gen-independent definitions for the convert() O-ties (static, also used by the Search). *)
From Coq Require Import ZArith Bool List String Lia.
From Verif Require Import Base.Word256 C03.LIR C03.VSL C03.ArithSpec C03.ConvSpec C03.ArithModel C03.ConvModel
  C03.TieBase C03.TieModels C03.LegacyExact C03.ConvExact.
Import ListNotations.
Open Scope Z_scope.

Definition cty_okb (T : cty) : bool :=
  match T with
  | CNum T => ty_okb T | CBytes m => (1 <=? m) && (m <=? 32) | CFlag n => (1 <=? n) && (n <=? 256) | _ => true
  end.
Lemma cty_okb_ok T : cty_okb T = true -> cty_ok T.
Proof. destruct T; cbn; intros H; try exact I; try lia. apply ty_okb_ok. exact H. Qed.

Definition cmodels (a b : cty) : list lir := flat_map (fun i1 => map (m_convert a b i1) bools) bools.
Definition ctie_one (p : cty * cty * lir) : bool :=
  match p with (a, b, t) => cty_okb a && cty_okb b && conv_allowed a b && existsb (lir_eqb t) (cmodels a b) end.
Definition vctie_one (p : cty * cty * vtemplate) : bool :=
  match p with (a, b, t) => cty_okb a && cty_okb b && conv_allowed a b && vtemplate_eqb t (v_convert a b) end.
Definition ckeys {A} (l : list (cty * cty * A)) : list (cty * cty) := map fst l.
Definition ckey_eqb (a b : cty * cty) : bool := cty_eqb (fst a) (fst b) && cty_eqb (snd a) (snd b).
Fixpoint ckeys_eqb (l m : list (cty * cty)) : bool :=
  match l, m with
  | [], [] => true | a :: l', b :: m' => ckey_eqb a b && ckeys_eqb l' m' | _, _ => false
  end.
