(* Gen-independent definitions for the safe_pow O-ties (static, also used by the Search). *)
From Coq Require Import ZArith Bool List String Lia.
From Verif Require Import Base.Word256 C03.LIR C03.VSL C03.ArithSpec C03.ArithModel C03.TieBase C03.TieModels C03.PowExact.
Import ListNotations.
Open Scope Z_scope.

(* entry = (kind, T, lit, p1, p2, template): kind 0 = literal base lit with bound p1; kind 1 = literal exponent lit
   with base interval [p1, p2] *)
Definition pow_side_okb (kind : Z) (T : nty) (lit p1 p2 : Z) : bool :=
  ty_okb T && negb (ndec T) && in_rangeb T lit &&
  (if kind =? 0 then (if special_base lit then true else pow_bound_okb T lit p1)
   else (0 <=? lit) && (if special_exp lit then true else base_bounds_okb T lit p1 p2)).
Definition ptie_one (p : Z * nty * Z * Z * Z * lir) : bool :=
  match p with (kind, T, lit, p1, p2, t) =>
    ((kind =? 0) || (kind =? 1)) && pow_side_okb kind T lit p1 p2 &&
    lir_eqb t (if kind =? 0 then m_pow_base T lit p1 else m_pow_exp T lit p1 p2) end.
Definition vptie_one (p : Z * nty * Z * Z * Z * vtemplate) : bool :=
  match p with (kind, T, lit, p1, p2, t) =>
    ((kind =? 0) || (kind =? 1)) && pow_side_okb kind T lit p1 p2 &&
    vtemplate_eqb t (if kind =? 0 then v_pow_base T lit p1 else v_pow_exp T lit p1 p2) end.

(* the literal family (mirrors c03_export.pow_literals) *)
Definition pow_bases (T : nty) : list Z :=
  let h := 2 ^ (nbits T / 2) in
  dedup (filter (in_rangeb T)
                [-1; 0; 1; 2; 3; 7; 10; 16; 20; 255; 256; 257; -2; -3; -7; -10; -20; ty_lo T; ty_hi T; h; h + 1; h - 1; - h]) [].
Definition pow_exps (T : nty) : list Z :=
  let V := nbits T - (if nsigned T then 1 else 0) in
  dedup (filter (fun b => (0 <=? b) && (b <=? V) && (b <=? ty_hi T))
                [0; 1; 2; 3; 4; 5; 7; 8; 16; 31; 32; 64; 127; 128; V - 1; V]) [].
Definition pow_keys : list (Z * nty * Z) :=
  flat_map (fun T => app (map (fun a => (0, T, a)) (pow_bases T)) (map (fun b => (1, T, b)) (pow_exps T))) int_types.
Definition pkey {A} (p : Z * nty * Z * Z * Z * A) : Z * nty * Z :=
  match p with (kind, T, lit, _, _, _) => (kind, T, lit) end.
Definition pkey_eqb (a b : Z * nty * Z) : bool :=
  match a, b with (k, T, l), (k', T', l') =>
    (k =? k') && (nbytes T =? nbytes T') && Bool.eqb (nsigned T) (nsigned T') && Bool.eqb (ndec T) (ndec T') && (l =? l') end.
Fixpoint pkeys_eqb (l m : list (Z * nty * Z)) : bool :=
  match l, m with [], [] => true | a :: l', b :: m' => pkey_eqb a b && pkeys_eqb l' m' | _, _ => false end.
