(* O-tie for convert(), legacy: exported templates = model (some cache flags); family = all allowed pairs. *)
From Coq Require Import ZArith Bool List String.
From Verif Require Import C03.LIR C03.VSL C03.ArithSpec C03.ConvSpec C03.ConvModel C03.TieModels C03.ConvTie C03.GenConvLegacy.
Import ListNotations.
Lemma tie_convert_legacy : forallb ctie_one legacy_converts = true.
Proof. vm_compute. reflexivity. Qed.
Lemma family_complete_convert_legacy : ckeys_eqb (ckeys legacy_converts) conv_pairs = true.
Proof. vm_compute. reflexivity. Qed.
