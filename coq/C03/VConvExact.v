(* Exactness of the Venom convert() templates (ConvModel.v, v_convert) w.r.t. ConvSpec.conv_spec. *)
From Coq Require Import ZArith Znumtheory Bool List Lia ZifyBool String.
From Verif Require Import Base.Word256 C03.LIR C03.VSL C03.ArithSpec C03.ConvSpec C03.WordArith C03.TypeLemmas
  C03.ArithModel C03.ConvModel C03.LegacyExact C03.VenomExact C03.ConvExact.
Import ListNotations.
Open Scope Z_scope.
Open Scope list_scope.
Ltac Zify.zify_post_hook ::= Z.to_euclidean_division_equations.

Definition cenv (w : Z) : env := [("%1"%string, w)].

Ltac cstep := unfold vrun; cbn [vsl vstep vval lookup cenv String.eqb Ascii.eqb Bool.eqb ev1 ev2 ev3 px py fst snd app
                   v_clamp v_assert_ule v_assert_sge v_assert_sle pn Nat.add nbytes nsigned ndec andb orb negb].

(* comparisons against literal bounds, as booleans *)
Lemma v_ule_val w hi : uword w -> uword hi -> (w_iszero (w_gt w (wrap hi)) =? 0) = negb (w <=? hi).
Proof.
  intros Hw Hh. unfold w_gt. rewrite w_iszero_b2z, b2z_eq0, wrap_small by exact Hh. rewrite Z.gtb_ltb.
  f_equal. lia.
Qed.
Lemma v_sge_val w lo : uword w -> sword lo -> (w_iszero (w_slt w (wrap lo)) =? 0) = negb (lo <=? to_signed w).
Proof. intros Hw Hl. unfold w_slt. rewrite w_iszero_b2z, b2z_eq0, ts_wrap by exact Hl. f_equal. lia. Qed.
Lemma v_sle_val w hi : uword w -> sword hi -> (w_iszero (w_sgt w (wrap hi)) =? 0) = negb (to_signed w <=? hi).
Proof.
  intros Hw Hl. unfold w_sgt. rewrite w_iszero_b2z, b2z_eq0, ts_wrap by exact Hl. rewrite Z.gtb_ltb. f_equal. lia.
Qed.

(* _int_to_int *)
Theorem v_int_to_int_exact S T v : ty_ok S -> ty_ok T -> in_range S v ->
  vrun (cenv (wrap v)) (v_int_to_int S T px 3, px) = enc_out (chk T v).
Proof.
  destruct S as [ks ss ds], T as [kt st dt]. intros [Hks _] [Hkt _] Hv. cbn [nbytes] in *.
  pose proof (range_bounds ks ss ds v ltac:(lia) Hv) as Bv.
  pose proof (in_range_fits ks ss ds v Hks Hv) as Fv.
  pose proof W_val. pose proof HALF_val.
  pose proof (Hb_pos ks ltac:(lia)). pose proof (Hb_pos kt ltac:(lia)).
  pose proof (Hb_le_HALF ks Hks). pose proof (Hb_le_HALF kt Hkt).
  assert (HT : 2 ^ (8 * kt) = 2 * Hb kt) by (apply pow8k; lia).
  unfold v_int_to_int, nbits. cbn [nbytes nsigned].
  rewrite enc_out_chk. unfold in_rangeb.
  destruct ss, st; cbn [andb negb fits256] in *.
  - (* signed -> signed *)
    rewrite ty_lo_s, ty_hi_s.
    destruct (Z.ltb_spec (8 * kt) (8 * ks)).
    + cstep. rewrite !vclamp_s_val by (try lia; apply wrap_range). rewrite b2z_eq0, ts_wrap by exact Fv.
      unfold in_rangeb. rewrite ty_lo_s, ty_hi_s.
      destruct ((- Hb kt <=? v) && (v <=? Hb kt - 1)); reflexivity.
    + cstep. pose proof (Hb_mono ks kt ltac:(lia)). replace ((- Hb kt <=? v) && (v <=? Hb kt - 1)) with true by lia.
      reflexivity.
  - (* signed -> unsigned *)
    rewrite ty_lo_u, ty_hi_u by lia.
    destruct (Z.ltb_spec (8 * kt) (8 * ks)).
    + cstep. rewrite HT.
      assert (Uh : uword (2 * Hb kt - 1)) by (unfold uword; pose proof (Hb_le247 kt ltac:(lia)); pose proof P247_val; lia).
      unfold w_slt. change (to_signed (wrap 0)) with 0. rewrite (ts_wrap v Fv).
      unfold w_gt. rewrite (wrap_small (2 * Hb kt - 1)) by exact Uh.
      rewrite !w_iszero_b2z, w_and_b2z, b2z_eq0.
      pose proof (Hb_le247 kt ltac:(lia)). pose proof P247_val.
      destruct (Z_lt_dec v 0); [rewrite !(wrap_neg v) by lia | rewrite !(wrap_small v) by lia]; bsolve.
    + cstep. rewrite v_sge_val by (try apply wrap_range; apply sword_0). rewrite ts_wrap by exact Fv.
      pose proof (Hb_mono ks kt ltac:(lia)). bsolve.
  - (* unsigned -> signed *)
    rewrite ty_lo_s, ty_hi_s. unfold uword in Fv. cstep.
    rewrite Hb_pow by lia.
    rewrite v_ule_val by (try apply wrap_range; unfold uword; lia). rewrite !wrap_small by lia. bsolve.
  - (* unsigned -> unsigned *)
    rewrite ty_lo_u, ty_hi_u by lia. unfold uword in Fv.
    destruct (Z.ltb_spec (8 * kt) (8 * ks)).
    + cstep. rewrite ty_hi_u by lia.
      pose proof (Hb_le247 kt ltac:(lia)). pose proof P247_val.
      rewrite v_ule_val by (try apply wrap_range; unfold uword; lia). rewrite !wrap_small by lia. bsolve.
    + cstep. pose proof (Hb_mono ks kt ltac:(lia)). rewrite wrap_small by lia. bsolve.
Qed.

Ltac cn_unfold := unfold v_clamp_numeric, v_cn_next.

Lemma sword_of_bounds lo hi v : lo <= v <= hi -> sword lo -> sword hi -> sword v.
Proof. unfold sword. lia. Qed.

(* decimal -> int *)
Theorem v_fixed_to_int_exact T v : ty_ok T -> ndec T = false -> in_range decimal_t v ->
  vrun (cenv (wrap v)) (v_to_int (CNum decimal_t) T)
  = enc_out (if (ty_lo T * DIVISOR <=? v) && (v <=? ty_hi T * DIVISOR) then Val (Z.quot v DIVISOR) else Revert).
Proof.
  intros OkT ND Hv. unfold in_range in Hv. destruct dec_bounds as [L H]. rewrite L, H in *.
  pose proof P167_val. pose proof W_val. pose proof HALF_val. pose proof DIVISOR_val.
  pose proof (ty_lo_hi_sign T OkT) as SG.
  assert (Sv : sword v) by (unfold sword, MINS, MAXS; lia).
  unfold v_to_int. cbn [ndec decimal_t]. cn_unfold. rewrite L, H.
  assert (SD : w_sdiv (wrap v) (wrap DIVISOR) = wrap (Z.quot v DIVISOR))
    by (apply sdiv_val; [exact Sv | unfold sword; wl | lia]).
  destruct (Z.ltb_spec (- P167) (ty_lo T * DIVISOR)) as [A|A];
    destruct (Z.ltb_spec (ty_hi T * DIVISOR) (P167 - 1)) as [B|B]; cstep;
    rewrite ?v_sge_val by (try apply wrap_range; unfold sword, MINS, MAXS; nia);
    rewrite ?v_sle_val by (try apply wrap_range; unfold sword, MINS, MAXS; nia);
    rewrite ?(ts_wrap v Sv), ?SD.
  - destruct (ty_lo T * DIVISOR <=? v) eqn:E1; cbn [negb andb]; [|reflexivity]. cstep.
    rewrite ?v_sle_val by (try apply wrap_range; unfold sword, MINS, MAXS; nia). rewrite ?(ts_wrap v Sv).
    destruct (v <=? ty_hi T * DIVISOR) eqn:E2; cbn [negb]; [|reflexivity]. cstep. rewrite SD. reflexivity.
  - replace (v <=? ty_hi T * DIVISOR) with true by lia. rewrite andb_true_r.
    destruct (ty_lo T * DIVISOR <=? v) eqn:E1; cbn [negb]; [|reflexivity]. cstep. rewrite SD. reflexivity.
  - replace (ty_lo T * DIVISOR <=? v) with true by lia. cbn [andb].
    destruct (v <=? ty_hi T * DIVISOR) eqn:E2; cbn [negb]; [|reflexivity]. cstep. rewrite SD. reflexivity.
  - replace (ty_lo T * DIVISOR <=? v) with true by lia. replace (v <=? ty_hi T * DIVISOR) with true by lia.
    reflexivity.
Qed.

(* int -> decimal *)
Theorem v_int_to_fixed_exact S v : ty_ok S -> ndec S = false -> in_range S v ->
  vrun (cenv (wrap v)) (v_to_decimal (CNum S) decimal_t) = enc_out (chk decimal_t (v * DIVISOR)).
Proof.
  destruct S as [k s d]. intros [Hk _] ND Hv. cbn [nbytes nsigned ndec] in *. subst d.
  pose proof (range_bounds k s false v ltac:(lia) Hv) as Bv.
  pose proof (in_range_fits k s false v Hk Hv) as Fv.
  pose proof P167_val. pose proof W_val. pose proof HALF_val. pose proof DIVISOR_val.
  pose proof (Hb_pos k ltac:(lia)). pose proof (Hb_le_HALF k Hk).
  unfold v_to_decimal. cn_unfold.
  change (Z.quot (ty_lo decimal_t) DIVISOR) with (-18707220957835557353007165858768422651595).
  change (Z.quot (ty_hi decimal_t) DIVISOR) with 18707220957835557353007165858768422651595.
  rewrite enc_out_chk. unfold in_rangeb. destruct dec_bounds as [-> ->].
  cbn [nsigned].
  destruct s; cbn [fits256] in Fv.
  - rewrite ty_lo_s, ty_hi_s.
    destruct (Z.ltb_spec (- Hb k) (-18707220957835557353007165858768422651595)) as [A|A];
      destruct (Z.ltb_spec 18707220957835557353007165858768422651595 (Hb k - 1)) as [B|B]; cstep;
      rewrite ?v_sge_val by (try apply wrap_range; unfold sword; wl);
      rewrite ?v_sle_val by (try apply wrap_range; unfold sword; wl);
      rewrite ?(ts_wrap v Fv), ?w_mul_wrap.
    + destruct (-18707220957835557353007165858768422651595 <=? v) eqn:E1; cbn [negb]; [|bsolve]. cstep.
      rewrite ?v_sle_val by (try apply wrap_range; unfold sword; wl). rewrite ?(ts_wrap v Fv).
      destruct (v <=? 18707220957835557353007165858768422651595) eqn:E2; cbn [negb]; [|bsolve]. cstep.
      rewrite w_mul_wrap. bsolve.
    + destruct (-18707220957835557353007165858768422651595 <=? v) eqn:E1; cbn [negb]; [|bsolve]. cstep.
      rewrite w_mul_wrap. bsolve.
    + destruct (v <=? 18707220957835557353007165858768422651595) eqn:E2; cbn [negb]; [|bsolve]. cstep.
      rewrite w_mul_wrap. bsolve.
    + bsolve.
  - rewrite ty_lo_u, ty_hi_u by lia. unfold uword in Fv.
    replace (0 <? -18707220957835557353007165858768422651595) with false by lia.
    destruct (Z.ltb_spec 18707220957835557353007165858768422651595 (2 * Hb k - 1)) as [B|B]; cstep.
    + rewrite v_ule_val by (try apply wrap_range; unfold uword; lia). rewrite !wrap_small by lia.
      destruct (v <=? 18707220957835557353007165858768422651595) eqn:E2; cbn [negb]; [|bsolve]. cstep.
      change (w_mul v DIVISOR) with (wrap (v * DIVISOR)). bsolve.
    + rewrite w_mul_wrap. bsolve.
Qed.

(* v_clamp T on a word holding the value r (signed reading if T signed) *)
Lemma vclamp_cond T w : 1 <= nbytes T <= 32 -> uword w ->
  (if nsigned T
   then w_and (w_iszero (w_slt w (wrap (ty_lo T)))) (w_iszero (w_sgt w (wrap (ty_hi T))))
   else w_iszero (w_gt w (wrap (ty_hi T)))) = b2z (in_rangeb T (sval (nsigned T) w)).
Proof.
  destruct T as [k s d]. cbn [nbytes nsigned]. intros Hk Hw. destruct s; cbn [sval].
  - apply vclamp_s_val; assumption.
  - apply vclamp_u_val; assumption.
Qed.

(* ---- to_int (all sources) ---- *)
Theorem v_to_int_exact Tin T v :
  cty_ok Tin -> ty_ok T -> ndec T = false -> to_int_ok Tin T -> c_in_range Tin v ->
  vrun (cenv (c_enc Tin v)) (v_to_int Tin T) = enc_out (conv_spec Tin (CNum T) v).
Proof.
  intros OkI OkT ND Al Hv. unfold conv_spec. rewrite ND.
  pose proof W_val. pose proof HALF_val.
  destruct Tin as [S0| | |m|n]; cbn [v_to_int c_enc] in *.
  - cbn in OkI. destruct (ndec S0) eqn:DS.
    + pose proof (dec_is_decimal_t S0 OkI DS). subst S0. apply v_fixed_to_int_exact; assumption.
    + apply v_int_to_int_exact; assumption.
  - (* bool *)
    unfold c_in_range in Hv. cbn [c_lo c_hi] in Hv. change (c_chk (CNum T) v) with (chk T v). cstep.
    rewrite chk_val; [reflexivity|]. pose proof (ty_lo_hi_sign T OkT).
    destruct T as [k s d]. destruct OkT as [Hk _]. cbn in Hk. pose proof (Hb_pos k ltac:(lia)).
    unfold in_range. destruct s; [rewrite ty_lo_s, ty_hi_s | rewrite ty_lo_u, ty_hi_u by lia]; lia.
  - (* address *)
    unfold c_in_range in Hv. cbn [c_lo c_hi] in Hv. change (c_chk (CNum T) v) with (chk T v).
    destruct T as [k s d]. destruct OkT as [Hk _]. cbn in Hk, ND, Al. subst d s.
    unfold nbits. cbn [nbytes].
    assert (P160 : 2 ^ 160 = 1461501637330902918203684832716283019655932542976) by reflexivity.
    pose proof (Hb_pos k ltac:(lia)).
    rewrite enc_out_chk. unfold in_rangeb. rewrite ty_lo_u, ty_hi_u by lia.
    destruct (Z.ltb_spec (8 * k) 160).
    + cstep. rewrite ty_hi_u by lia. pose proof (Hb_le247 k ltac:(lia)). pose proof P247_val.
      rewrite v_ule_val by (try apply wrap_range; unfold uword; lia). rewrite !wrap_small by lia. bsolve.
    + cstep. assert (Hb 20 <= Hb k) by (apply Hb_mono; lia). change (Hb 20) with (2 ^ 159) in *.
      assert (2 ^ 160 = 2 * 2 ^ 159) by reflexivity. rewrite wrap_small by lia. bsolve.
  - (* bytesM *)
    cbn in OkI. unfold c_in_range in Hv. cbn [c_lo c_hi] in Hv.
    change (c_chk (CNum T) (if nsigned T then sbytes m v else v)) with (chk T (if nsigned T then sbytes m v else v)).
    pose proof (sbytes_range m v OkI ltac:(lia)) as SR. pose proof (Hb_pos m ltac:(lia)). pose proof (Hb_le_HALF m OkI).
    assert (HB : 2 ^ (8 * m) = 2 * Hb m) by (apply pow8k; lia).
    destruct T as [k s d]. destruct OkT as [Hk _]. cbn in Hk, ND. subst d. unfold nbits. cbn [nbytes nsigned] in *.
    pose proof (Hb_pos k ltac:(lia)).
    rewrite enc_out_chk.
    destruct s.
    + (* signed target: sar *)
      assert (Hn : w_sar (wrap (8 * (32 - m))) (v * 2 ^ (8 * (32 - m))) = wrap (sbytes m v))
        by (apply sar_bytes; [exact OkI | lia]).
      assert (Fr : sword (sbytes m v)) by (unfold sword, MINS, MAXS; lia).
      destruct (Z.ltb_spec (8 * k) (8 * m)).
      * cstep. rewrite !Hn.
        rewrite (vclamp_s_val k false (wrap (sbytes m v))) by (try lia; apply wrap_range).
        rewrite b2z_eq0, (ts_wrap _ Fr). destruct (in_rangeb _ (sbytes m v)); reflexivity.
      * cstep. rewrite !Hn. replace (in_rangeb _ _) with true; [reflexivity|]. symmetry. apply in_rangeb_iff.
        unfold in_range. pose proof (Hb_mono m k ltac:(lia)). rewrite ty_lo_s, ty_hi_s. lia.
    + (* unsigned target: shr *)
      assert (Hn : w_shr (wrap (8 * (32 - m))) (v * 2 ^ (8 * (32 - m))) = v) by (apply shr_bytes; lia).
      destruct (Z.ltb_spec (8 * k) (8 * m)).
      * cstep. rewrite !Hn.
        rewrite (vclamp_u_val k false v) by (try lia; unfold uword; lia).
        rewrite b2z_eq0. rewrite (wrap_small v) by lia. destruct (in_rangeb _ v); reflexivity.
      * cstep. rewrite !Hn. rewrite (wrap_small v) by lia. replace (in_rangeb _ _) with true; [reflexivity|].
        symmetry. apply in_rangeb_iff.
        unfold in_range. pose proof (Hb_mono m k ltac:(lia)). rewrite ty_lo_u, ty_hi_u by lia. lia.
  - (* flag: only to uint256 *)
    cbn in OkI. unfold c_in_range in Hv. cbn [c_lo c_hi] in Hv. cbn in Al. subst T.
    change (c_chk (CNum uint256_t) v) with (chk uint256_t v).
    assert (2 ^ n <= W) by (apply pow2_le_W; lia).
    apply (v_int_to_int_exact uint256_t uint256_t); try assumption.
    unfold in_range. change (ty_lo uint256_t) with 0. change (ty_hi uint256_t) with (W - 1). lia.
Qed.

(* ---- to_decimal ---- *)
Theorem v_to_decimal_exact Tin T v :
  cty_ok Tin -> ty_ok T -> ndec T = true -> conv_allowed Tin (CNum T) = true -> c_in_range Tin v ->
  vrun (cenv (c_enc Tin v)) (v_to_decimal Tin T) = enc_out (conv_spec Tin (CNum T) v).
Proof.
  intros OkI OkT DT Al Hv. pose proof (dec_is_decimal_t T OkT DT). subst T.
  unfold conv_spec. cbn [ndec decimal_t].
  pose proof W_val. pose proof HALF_val. pose proof DIVISOR_val. pose proof P167_val.
  destruct Tin as [S0| | |m|n]; cbn [v_to_decimal c_enc] in *;
    try (unfold conv_allowed in Al; cbn in Al; discriminate Al).
  - cbn in OkI. unfold conv_allowed in Al. cbn in Al.
    assert (NS : ndec S0 = false).
    { destruct (ndec S0); [|reflexivity]. rewrite andb_false_r in Al. discriminate Al. }
    change (c_chk (CNum decimal_t) (v * DIVISOR)) with (chk decimal_t (v * DIVISOR)).
    apply v_int_to_fixed_exact; assumption.
  - unfold c_in_range in Hv. cbn [c_lo c_hi] in Hv. cstep. rewrite w_mul_wrap. reflexivity.
  - cbn in OkI. unfold c_in_range in Hv. cbn [c_lo c_hi] in Hv.
    change (c_chk (CNum decimal_t) (sbytes m v)) with (chk decimal_t (sbytes m v)).
    pose proof (sbytes_range m v OkI ltac:(lia)) as SR. pose proof (Hb_pos m ltac:(lia)). pose proof (Hb_le_HALF m OkI).
    assert (Hn : w_sar (wrap (8 * (32 - m))) (v * 2 ^ (8 * (32 - m))) = wrap (sbytes m v))
      by (apply sar_bytes; [exact OkI | lia]).
    assert (Fr : sword (sbytes m v)) by (unfold sword, MINS, MAXS; lia).
    rewrite enc_out_chk.
    destruct (Z.ltb_spec 168 (8 * m)).
    + unfold decimal_t. cstep. rewrite !Hn.
      rewrite (vclamp_s_val 21 true (wrap (sbytes m v))) by (try lia; apply wrap_range).
      rewrite b2z_eq0, (ts_wrap _ Fr).
      destruct (in_rangeb _ (sbytes m v)); reflexivity.
    + cstep. rewrite !Hn. replace (in_rangeb _ _) with true; [reflexivity|]. symmetry. apply in_rangeb_iff.
      unfold in_range. destruct dec_bounds as [-> ->].
      pose proof (Hb_mono m 21 ltac:(lia)). rewrite Hb_21 in *. lia.
Qed.

(* ---- to_bytesM ---- *)
Theorem v_to_bytes_exact Tin M v :
  cty_ok Tin -> 1 <= M <= 32 -> conv_allowed Tin (CBytes M) = true -> c_in_range Tin v ->
  vrun (cenv (c_enc Tin v)) (v_to_bytes Tin M) = c_enc_out (CBytes M) (conv_spec Tin (CBytes M) v).
Proof.
  intros OkI HM Al Hv. unfold conv_spec. pose proof W_val.
  assert (NUM : forall w, vrun (cenv (wrap w)) ([ V2 "%3" OShl px (VLit (8 * (32 - M))) ], VVar "%3")
                           = c_enc_out (CBytes M) (Val (w mod 2 ^ (8 * M)))).
  { intros w. cstep. cbn [c_enc_out c_enc]. f_equal. replace (8 * (32 - M)) with (256 - 8 * M) at 1 by lia.
    rewrite shl_num by exact HM. reflexivity. }
  destruct Tin as [S0| | |m|n]; cbn [v_to_bytes c_enc].
  - apply NUM.
  - apply NUM.
  - apply NUM.
  - cbn in OkI. unfold c_in_range in Hv. cbn [c_lo c_hi] in Hv.
    destruct (Z.ltb_spec M m) as [L|L].
    + replace (m <=? M) with false by lia. cstep. unfold w_iszero.
      rewrite shl_bytes_check by lia. rewrite b2z_eq0.
      destruct (Z.eqb_spec (v mod 2 ^ (8 * (m - M))) 0) as [E|E]; cbn [negb]; [|reflexivity].
      cstep. cbn [c_enc_out c_enc]. f_equal.
      assert (P : 0 < 2 ^ (8 * (m - M))) by (apply Z.pow_pos_nonneg; lia).
      replace (8 * (32 - M)) with (8 * (m - M) + 8 * (32 - m)) by lia. rewrite Z.pow_add_r by lia.
      pose proof (Z.div_mod v (2 ^ (8 * (m - M))) ltac:(lia)). nia.
    + replace (m <=? M) with true by lia. cstep. cbn [c_enc_out c_enc]. f_equal.
      replace (8 * (32 - m)) with (8 * (M - m) + 8 * (32 - M)) by lia. rewrite Z.pow_add_r by lia. ring.
  - (* flag -> bytes32: shl 0 *)
    apply NUM.
Qed.

(* ---- all of convert() on word types, Venom ---- *)
Theorem vconvert_exact Tin Tout v :
  cty_ok Tin -> cty_ok Tout -> conv_allowed Tin Tout = true -> c_in_range Tin v ->
  vrun (cenv (c_enc Tin v)) (v_convert Tin Tout) = c_enc_out Tout (conv_spec Tin Tout v).
Proof.
  intros OkI OkO Al Hv. pose proof W_val.
  destruct Tout as [T| | |M|n]; cbn [v_convert].
  - cbn in OkO. destruct (ndec T) eqn:D.
    + change (c_enc_out (CNum T)) with enc_out. apply v_to_decimal_exact; assumption.
    + change (c_enc_out (CNum T)) with enc_out. apply v_to_int_exact; try assumption.
      apply allowed_to_int_ok; assumption.
  - cstep. cbn [conv_spec c_enc_out c_enc]. f_equal.
    unfold w_iszero at 2. rewrite w_iszero_b2z. rewrite (c_enc_zero Tin v OkI Hv).
    destruct (v =? 0); reflexivity.
  - assert (OkU : ty_ok uint160_t) by (split; cbn; [lia | intros C; discriminate C]).
    assert (Al' : to_int_ok Tin uint160_t).
    { unfold conv_allowed in Al. destruct Tin as [S0| | |m|n]; cbn in *; try exact I;
        rewrite ?andb_false_r in Al; discriminate Al. }
    rewrite (v_to_int_exact Tin uint160_t v OkI OkU eq_refl Al' Hv).
    unfold conv_spec. cbn [ndec uint160_t].
    destruct Tin as [S0| | |m|n]; try (unfold conv_allowed in Al; cbn in Al; rewrite ?andb_false_r in Al; discriminate Al).
    + unfold conv_allowed in Al. cbn in Al. destruct (ndec S0); cbn in Al;
        [rewrite ?andb_false_r in Al; discriminate Al | reflexivity].
    + cbn [nsigned uint160_t]. reflexivity.
  - cbn in OkO. apply v_to_bytes_exact; assumption.
  - cbn in OkO. unfold conv_allowed in Al. apply andb_true_iff in Al. destruct Al as [_ Al].
    destruct Tin as [S0| | |m|n']; try discriminate Al. apply nty_eqb_eq in Al. subst S0.
    unfold c_in_range in Hv. cbn [c_lo c_hi] in Hv. change (ty_lo uint256_t) with 0 in Hv. change (ty_hi uint256_t) with (W - 1) in Hv.
    cbn [c_enc conv_spec]. unfold c_chk, c_in_rangeb. cbn [c_lo c_hi].
    assert (2 ^ n <= W) by (apply pow2_le_W; lia).
    destruct (Z.ltb_spec n 256).
    + cstep. rewrite v_ule_val by (try apply wrap_range; unfold uword; lia). rewrite !wrap_small by lia.
      bsolve; cbn [c_enc_out c_enc]; rewrite ?wrap_small by lia; reflexivity.
    + assert (n = 256) by lia. subst n. cstep. fold W. rewrite wrap_small by lia.
      bsolve; cbn [c_enc_out c_enc]; rewrite ?wrap_small by lia; reflexivity.
Qed.
