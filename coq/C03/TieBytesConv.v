From Coq Require Import ZArith Bool List String.
From Verif Require Import C03.LIR C03.VSL C03.LIRMem C03.VSLMem C03.ArithSpec C03.ConvSpec C03.BytesConv C03.BytesConvTie C03.GenBytesConv.
Import ListNotations.
Lemma tie_bconvert_legacy : forallb btie_one legacy_bconverts = true. Proof. vm_compute. reflexivity. Qed.
Lemma tie_bconvert_venom : forallb vbtie_one venom_bconverts = true. Proof. vm_compute. reflexivity. Qed.
Lemma family_complete_bconvert :
  bkeys_eqb (map bkey legacy_bconverts) bconv_keys = true /\ bkeys_eqb (map bkey venom_bconverts) bconv_keys = true.
Proof. split; vm_compute; reflexivity. Qed.
