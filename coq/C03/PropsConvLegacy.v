(* C03, convert() on word-sized types, legacy front end: every template that vyper/builtins/_convert.py emits
   for the 8618 allowed (input type, output type) pairs over {64 integer types, decimal, bool, address,
   bytes1..32, flags} returns exactly conv_spec (the converted value if defined and representable) or reverts,
   for ALL input values.  GenConvLegacy.v is regenerated from /repo on every run. *)
From Coq Require Import ZArith Bool List String Lia.
From Verif Require Import Base.Word256 C03.LIR C03.ArithSpec C03.ConvSpec C03.ConvModel C03.TieBase C03.TieModels
  C03.LegacyExact C03.ConvExact C03.ConvTie C03.GenConvLegacy C03.TieConvLegacy.
Import ListNotations.
Open Scope Z_scope.

Theorem legacy_convert_exact : forall Tin Tout t, In (Tin, Tout, t) legacy_converts ->
  forall v, c_in_range Tin v ->
  leval [("x"%string, c_enc Tin v)] t = c_enc_out Tout (conv_spec Tin Tout v).
Proof.
  intros Tin Tout t HIn v Hv.
  pose proof tie_convert_legacy as Tie. rewrite forallb_forall in Tie. specialize (Tie _ HIn).
  unfold ctie_one in Tie. repeat (apply andb_true_iff in Tie; destruct Tie as [Tie ?]).
  apply existsb_exists in H. destruct H as [m [Mm E]]. apply lir_eqb_eq in E. subst t.
  unfold cmodels in Mm. apply in_flat_map in Mm. destruct Mm as [i1 [_ Mm]].
  apply in_map_iff in Mm. destruct Mm as [i2 [<- _]].
  apply convert_exact; try assumption; apply cty_okb_ok; assumption.
Qed.
Print Assumptions legacy_convert_exact.

(* the classical special cases are instances: *)
Corollary int_to_int_exact_real : forall S0 T t, In (CNum S0, CNum T, t) legacy_converts ->
  ndec S0 = false -> ndec T = false ->
  forall v, in_range S0 v -> leval [("x"%string, wrap v)] t = enc_out (chk T v).
Proof.
  intros S0 T t HIn NS NT v Hv. change (wrap v) with (c_enc (CNum S0) v).
  rewrite (legacy_convert_exact _ _ _ HIn v Hv).
  unfold conv_spec. rewrite NT, NS. reflexivity.
Qed.

Theorem legacy_convert_family_complete :
  ckeys_eqb (ckeys legacy_converts) conv_pairs = true /\ Z.of_nat (List.length legacy_converts) = 8618.
Proof. split; [exact family_complete_convert_legacy | reflexivity]. Qed.

Example legacy_convert_nonvacuous :
  (exists t, In (CNum (Build_nty 2 true false), CNum (Build_nty 1 false false), t) legacy_converts) /\
  c_in_range (CNum (Build_nty 2 true false)) (-1) /\
  conv_spec (CNum (Build_nty 2 true false)) (CNum (Build_nty 1 false false)) (-1) = Revert /\
  conv_spec (CNum decimal_t) (CNum (Build_nty 1 false false)) 2550000000001 = Revert /\
  conv_spec (CNum decimal_t) (CNum (Build_nty 1 false false)) 2549999999999 = Val 254 /\
  conv_spec (CBytes 2) (CNum (Build_nty 1 true false)) 65535 = Val (-1).
Proof.
  split.
  - assert (E : existsb (fun p => ckey_eqb (fst p) (CNum (Build_nty 2 true false), CNum (Build_nty 1 false false)))
                        legacy_converts = true) by (vm_compute; reflexivity).
    apply existsb_exists in E. destruct E as [[[a b] t] [HIn K]]. unfold ckey_eqb in K. cbn [fst snd] in K.
    apply andb_true_iff in K. destruct K as [K1 K2].
    assert (a = CNum (Build_nty 2 true false)).
    { destruct a as [[k s d]| | | |]; cbn in K1; try discriminate K1. unfold nty_eqb in K1. cbn in K1.
      destruct s, d; cbn in K1; try (rewrite ?andb_false_r in K1; discriminate K1).
      rewrite !andb_true_r in K1. apply Z.eqb_eq in K1. subst. reflexivity. }
    assert (b = CNum (Build_nty 1 false false)).
    { destruct b as [[k s d]| | | |]; cbn in K2; try discriminate K2. unfold nty_eqb in K2. cbn in K2.
      destruct s, d; cbn in K2; try (rewrite ?andb_false_r in K2; discriminate K2).
      rewrite !andb_true_r in K2. apply Z.eqb_eq in K2. subst. reflexivity. }
    subst. exists t. exact HIn.
  - split; [unfold c_in_range; cbn; lia|]. repeat split; vm_compute; reflexivity.
Qed.
