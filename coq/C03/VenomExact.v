(* Exactness of the Venom safe-arithmetic templates (the v_ generators of ArithModel.v) w.r.t. ArithSpec.arith_spec,
   for every numeric type, all operand values. *)
From Coq Require Import ZArith Bool List Lia ZifyBool String.
From Verif Require Import Base.Word256 C03.LIR C03.VSL C03.ArithSpec C03.WordArith C03.TypeLemmas C03.ArithModel
  C03.LegacyExact.
Import ListNotations.
Open Scope Z_scope.
Ltac Zify.zify_post_hook ::= Z.to_euclidean_division_equations.

Definition venv2 (x y : Z) : env := [("%2"%string, enc y); ("%1"%string, enc x)].

Ltac vstep := unfold vrun; cbn [vsl vstep vval lookup venv2 String.eqb Ascii.eqb Bool.eqb ev1 ev2 ev3 px py fst snd app
                   v_clamp v_not_special v_nonzero_y v_min256 pn Nat.add nbytes nsigned ndec m_DIV andb orb].

(* the Venom range test as a boolean *)
Lemma vclamp_s_val k d w : 1 <= k <= 32 -> uword w ->
  w_and (w_iszero (w_slt w (wrap (ty_lo (Build_nty k true d))))) (w_iszero (w_sgt w (wrap (ty_hi (Build_nty k true d)))))
  = b2z (in_rangeb (Build_nty k true d) (to_signed w)).
Proof.
  intros Hk Hw. rewrite ty_lo_s, ty_hi_s. unfold w_sgt, w_slt. rewrite !w_iszero_b2z, w_and_b2z. f_equal.
  destruct (Hb_W k Hk) as [c [Hc HW]]. pose proof (Hb_pos k ltac:(lia)). pose proof W_HALF.
  assert (Hb k <= HALF) by nia.
  rewrite !ts_wrap by (unfold sword, MINS, MAXS; lia).
  unfold in_rangeb. rewrite ty_lo_s, ty_hi_s. lia.
Qed.
Lemma vclamp_u_val k d w : 1 <= k <= 32 -> uword w ->
  w_iszero (w_gt w (wrap (ty_hi (Build_nty k false d)))) = b2z (in_rangeb (Build_nty k false d) w).
Proof.
  intros Hk Hw. unfold w_gt. rewrite w_iszero_b2z. f_equal.
  destruct (Hb_W k Hk) as [c [Hc HW]]. pose proof (Hb_pos k ltac:(lia)).
  unfold in_rangeb. rewrite ty_lo_u, ty_hi_u by lia. unfold uword in Hw.
  rewrite wrap_small by nia. lia.
Qed.

(* chk on the exact result r, given the range test on its word *)
Lemma vfinish T r (A B : outcome) : 1 <= nbytes T <= 32 -> fits256 (nsigned T) r ->
  (if negb (in_rangeb T (sval (nsigned T) (wrap r))) then Revert else Val (wrap r)) = enc_out (chk T r).
Proof. intros Hk Hf. rewrite sval_wrap by exact Hf. unfold chk. destruct (in_rangeb T r); reflexivity. Qed.

Theorem vsafe_add_exact T x y : ty_ok T -> in_range T x -> in_range T y ->
  vrun (venv2 x y) (v_safe_add T) = enc_out (arith_spec T AAdd x y).
Proof.
  destruct T as [k s d]. intros [Hk _] Hx Hy. cbn [nbytes] in Hk.
  pose proof (range_bounds k s d x ltac:(lia) Hx) as Bx. pose proof (range_bounds k s d y ltac:(lia) Hy) as By.
  unfold v_safe_add, v_safe_addsub. cbn [nbytes nsigned arith_spec].
  destruct (k <? 32) eqn:E.
  - range_facts k. destruct s; vstep; unfold enc; rewrite !w_add_wrap.
    + rewrite !vclamp_s_val by (try lia; apply wrap_range). rewrite b2z_eq0.
      rewrite ts_wrap by (unfold sword, MINS, MAXS; lia).
      unfold chk. destruct (in_rangeb _ _); reflexivity.
    + rewrite !vclamp_u_val by (try lia; apply wrap_range). rewrite b2z_eq0.
      unfold chk. rewrite !(wrap_small (x + y)) by lia.
      destruct (in_rangeb _ _); cbn [negb enc_out]; unfold enc; rewrite ?(wrap_small (x + y)) by lia; reflexivity.
  - assert (k = 32) by lia. subst k. rewrite Hb_32 in *.
    pose proof W_val; pose proof HALF_val.
    destruct s; vstep; unfold enc; rewrite !w_add_wrap.
    + assert (Sx : sword x) by (unfold sword, MINS, MAXS; lia).
      assert (Sy : sword y) by (unfold sword, MINS, MAXS; lia).
      unfold w_slt, w_eq. rewrite (ts_wrap x Sx), (ts_wrap y Sy).
      change (to_signed (wrap 0)) with 0.
      rewrite enc_out_chk. unfold in_rangeb. rewrite ty_lo_s, ty_hi_s, Hb_32.
      destruct (wrap_cases (x + y) ltac:(lia)) as [[C ->]|[[C ->]|[C ->]]]; unfold to_signed; bsolve.
    + rewrite ?(wrap_small x), ?(wrap_small y) by lia.
      rewrite enc_out_chk. unfold in_rangeb. rewrite ty_lo_u, ty_hi_u, Hb_32 by lia.
      unfold w_iszero, w_lt.
      destruct (wrap_cases (x + y) ltac:(lia)) as [[C ->]|[[C ->]|[C ->]]]; bsolve.
Qed.

Theorem vsafe_sub_exact T x y : ty_ok T -> in_range T x -> in_range T y ->
  vrun (venv2 x y) (v_safe_sub T) = enc_out (arith_spec T ASub x y).
Proof.
  destruct T as [k s d]. intros [Hk _] Hx Hy. cbn [nbytes] in Hk.
  pose proof (range_bounds k s d x ltac:(lia) Hx) as Bx. pose proof (range_bounds k s d y ltac:(lia) Hy) as By.
  unfold v_safe_sub, v_safe_addsub. cbn [nbytes nsigned arith_spec].
  destruct (k <? 32) eqn:E.
  - range_facts k. destruct s; vstep; unfold enc; rewrite !w_sub_wrap.
    + rewrite !vclamp_s_val by (try lia; apply wrap_range). rewrite b2z_eq0.
      rewrite ts_wrap by (unfold sword, MINS, MAXS; lia).
      unfold chk. destruct (in_rangeb _ _); reflexivity.
    + rewrite !vclamp_u_val by (try lia; apply wrap_range). rewrite b2z_eq0.
      unfold chk, in_rangeb. rewrite ty_lo_u, ty_hi_u by lia.
      destruct (Z_lt_dec (x - y) 0).
      * rewrite !(wrap_neg (x - y)) by lia. bsolve.
      * rewrite !(wrap_small (x - y)) by lia.
        destruct ((0 <=? x - y) && (x - y <=? 2 * Hb k - 1)); cbn [negb enc_out]; unfold enc;
          rewrite ?(wrap_small (x - y)) by lia; reflexivity.
  - assert (k = 32) by lia. subst k. rewrite Hb_32 in *.
    pose proof W_val; pose proof HALF_val.
    destruct s; vstep; unfold enc; rewrite !w_sub_wrap.
    + assert (Sx : sword x) by (unfold sword, MINS, MAXS; lia).
      assert (Sy : sword y) by (unfold sword, MINS, MAXS; lia).
      unfold w_slt, w_sgt, w_eq. rewrite (ts_wrap x Sx), (ts_wrap y Sy).
      change (to_signed (wrap 0)) with 0.
      rewrite enc_out_chk. unfold in_rangeb. rewrite ty_lo_s, ty_hi_s, Hb_32.
      destruct (wrap_cases (x - y) ltac:(lia)) as [[C ->]|[[C ->]|[C ->]]]; unfold to_signed; bsolve.
    + rewrite ?(wrap_small x), ?(wrap_small y) by lia.
      rewrite enc_out_chk. unfold in_rangeb. rewrite ty_lo_u, ty_hi_u, Hb_32 by lia.
      unfold w_iszero, w_gt.
      destruct (wrap_cases (x - y) ltac:(lia)) as [[C ->]|[[C ->]|[C ->]]]; bsolve.
Qed.

Lemma nz_val y : - W < y < W -> w_iszero (w_iszero (wrap y)) = b2z (negb (y =? 0)).
Proof. intros H. unfold w_iszero at 2. rewrite w_iszero_b2z. rewrite wrap_eqb0 by exact H. reflexivity. Qed.

Theorem vsafe_mod_exact T x y : ty_ok T -> in_range T x -> in_range T y ->
  vrun (venv2 x y) (v_safe_mod T) = enc_out (arith_spec T AMod x y).
Proof.
  destruct T as [k s d]. intros [Hk _] Hx Hy. cbn [nbytes] in Hk.
  pose proof (in_range_fits k s d x Hk Hx) as Fx. pose proof (in_range_fits k s d y Hk Hy) as Fy.
  pose proof (range_bounds k s d x ltac:(lia) Hx) as Bx.
  pose proof W_val; pose proof HALF_val.
  assert (Wy : - W < y < W) by (destruct s; cbn in Fy; unfold sword, uword, MINS, MAXS in Fy; lia).
  unfold v_safe_mod. cbn [nsigned arith_spec]. vstep. unfold enc.
  rewrite !nz_val by exact Wy. rewrite b2z_eq0, negb_involutive.
  destruct (Z.eqb_spec y 0) as [->|N]; [reflexivity|]. vstep.
  pose proof (rem_abs_le x y N) as [R1 [R2 R3]].
  assert (IR : in_rangeb (Build_nty k s d) (Z.rem x y) = true).
  { apply in_rangeb_iff. unfold in_range. destruct s;
    [rewrite ty_lo_s, ty_hi_s | rewrite ty_lo_u, ty_hi_u by lia]; lia. }
  unfold chk. rewrite IR. cbn [enc_out].
  destruct s; vstep; unfold enc; f_equal.
  - apply smod_val; assumption.
  - cbn in Fx, Fy. unfold uword in *. rewrite (wrap_small x), (wrap_small y) by lia.
    rewrite umod_val by lia. symmetry. apply wrap_small. lia.
Qed.

Lemma wrap_2p255 : wrap (2 ^ 255) = HALF. Proof. reflexivity. Qed.

(* value of the venom  iszero (and (iszero (not y)) (eq x MIN))  test *)
Lemma not_special_val x y : sword x -> sword y ->
  w_iszero (w_and (w_eq (wrap x) HALF) (w_iszero (w_not (wrap y)))) = b2z (negb ((x =? MINS) && (y =? -1))).
Proof.
  intros Hx Hy. unfold w_eq, w_iszero at 2. rewrite w_and_b2z, w_iszero_b2z.
  rewrite (wrap_eq_MINS x Hx), (wrap_eq_m1 y Hy). reflexivity.
Qed.

Theorem vsafe_div_exact T x y : ty_ok T -> in_range T x -> in_range T y ->
  vrun (venv2 x y) (v_safe_div T) = enc_out (arith_spec T ADiv x y).
Proof.
  destruct T as [k s d]. intros [Hk Hd] Hx Hy. cbn [nbytes nsigned ndec] in Hk, Hd.
  pose proof (in_range_fits k s d x Hk Hx) as Fx. pose proof (in_range_fits k s d y Hk Hy) as Fy.
  pose proof (range_bounds k s d x ltac:(lia) Hx) as Bx. pose proof (range_bounds k s d y ltac:(lia) Hy) as By.
  pose proof W_val; pose proof HALF_val; pose proof DIVISOR_val.
  assert (Wy : - W < y < W) by (destruct s; cbn in Fy; unfold sword, uword, MINS, MAXS in Fy; lia).
  unfold v_safe_div. cbn [nbytes nsigned ndec arith_spec].
  destruct d.
  - (* decimal *)
    destruct (Hd eq_refl) as [-> ->]. cbn in Fx, Fy. rewrite Hb_21 in *. pose proof P167_val.
    change (21 <? 32) with true. vstep. unfold enc.
    rewrite !nz_val by exact Wy. rewrite b2z_eq0, negb_involutive.
    destruct (Z.eqb_spec y 0) as [->|N]; [reflexivity|]. vstep.
    change (wrap x) with (enc x). unfold enc.
    replace (w_mul (wrap x) (wrap DIVISOR)) with (wrap (x * DIVISOR)) by (symmetry; apply w_mul_wrap).
    assert (Sx : sword (x * DIVISOR)) by (unfold sword, MINS, MAXS; lia).
    rewrite !sdiv_val by assumption.
    rewrite !vclamp_s_val by (try lia; apply wrap_range). rewrite b2z_eq0.
    pose proof (quot_abs_le (x * DIVISOR) y N).
    rewrite ts_wrap by (unfold sword, MINS, MAXS; lia).
    unfold chk. destruct (in_rangeb _ _); reflexivity.
  - destruct s; [destruct (Z.eqb_spec k 32) as [->|N32]|]; vstep; unfold enc;
      rewrite !nz_val by exact Wy; rewrite b2z_eq0, negb_involutive;
      (destruct (Z.eqb_spec y 0) as [->|N]; [reflexivity|]); vstep; unfold enc.
    + (* int256 *)
      cbn in Fx, Fy. rewrite !sdiv_val by assumption. rewrite wrap_2p255.
      rewrite !not_special_val by assumption. rewrite b2z_eq0, negb_involutive.
      rewrite enc_out_chk. unfold in_rangeb. rewrite ty_lo_s, ty_hi_s, Hb_32.
      destruct ((x =? MINS) && (y =? -1)) eqn:S.
      * assert (x = MINS /\ y = -1) as [-> ->] by lia. vm_compute. reflexivity.
      * assert (Q : sword (Z.quot x y)) by (apply quot_sword; try assumption; lia).
        unfold sword, MINS, MAXS in Q. vstep. bsolve.
    + cbn in Fx, Fy. range_facts k. rewrite !sdiv_val by assumption.
      rewrite !vclamp_s_val by (try lia; apply wrap_range). rewrite b2z_eq0.
      pose proof (quot_abs_le x y N).
      rewrite ts_wrap by (unfold sword, MINS, MAXS; lia).
      unfold chk. destruct (in_rangeb _ _); reflexivity.
    + cbn in Fx, Fy. unfold uword in Fx, Fy.
      rewrite (wrap_small x), (wrap_small y) by lia. rewrite udiv_val by lia.
      pose proof (quot_abs_le x y N). assert (0 <= Z.quot x y) by (apply Z.quot_pos; lia).
      rewrite enc_out_chk. unfold in_rangeb. rewrite ty_lo_u, ty_hi_u by lia.
      rewrite wrap_small by lia. bsolve.
Qed.

Theorem vsafe_mul_exact T x y : ty_ok T -> in_range T x -> in_range T y ->
  vrun (venv2 x y) (v_safe_mul T) = enc_out (arith_spec T AMul x y).
Proof.
  destruct T as [k s d]. intros [Hk Hd] Hx Hy. cbn [nbytes nsigned ndec] in Hk, Hd.
  pose proof (in_range_fits k s d x Hk Hx) as Fx. pose proof (in_range_fits k s d y Hk Hy) as Fy.
  pose proof (range_bounds k s d x ltac:(lia) Hx) as Bx. pose proof (range_bounds k s d y ltac:(lia) Hy) as By.
  pose proof W_val; pose proof HALF_val; pose proof DIVISOR_val.
  unfold v_safe_mul. cbn [nbytes nsigned ndec arith_spec].
  destruct d.
  - (* decimal *)
    destruct (Hd eq_refl) as [-> ->]. cbn in Fx, Fy. rewrite Hb_21 in *. pose proof P167_val.
    change (16 <? 21) with true. change (21 =? 32) with false. change (21 <? 32) with true.
    vstep. unfold enc. rewrite !w_mul_wrap. rewrite !smul_ok_val by assumption. rewrite b2z_eq0.
    assert (Nsp : (x =? MINS) && (y =? -1) = false) by (unfold MINS; lia). rewrite Nsp, orb_false_r.
    destruct (Z.eqb_spec y 0) as [->|N].
    + rewrite orb_true_r. cbn [negb]. replace (x * 0) with 0 by lia. vm_compute. reflexivity.
    + rewrite orb_false_r. destruct (swordb (x * y)) eqn:S; cbn [negb]; vstep.
      * apply swordb_iff in S.
        rewrite !sdiv_val by (try assumption; try lia; unfold sword; wl).
        rewrite !vclamp_s_val by (try lia; apply wrap_range). rewrite b2z_eq0.
        pose proof (quot_abs_le (x * y) DIVISOR ltac:(lia)).
        rewrite ts_wrap by (unfold sword, MINS, MAXS in *; lia).
        unfold chk. destruct (in_rangeb _ _); reflexivity.
      * assert (~ sword (x * y)) by (rewrite <- swordb_iff; congruence).
        rewrite enc_out_chk. unfold in_rangeb. rewrite ty_lo_s, ty_hi_s, Hb_21.
        assert (~ (- P167 <= Z.quot (x * y) DIVISOR <= P167 - 1)).
        { intros C. apply H3. unfold sword, MINS, MAXS. rewrite H2 in C. clear - C H0 H1 H2.
          pose proof (Z.quot_rem' (x * y) DIVISOR). pose proof (Z.rem_bound_abs (x * y) DIVISOR ltac:(lia)). lia. }
        bsolve.
  - destruct (Z.ltb_spec 16 k) as [L|L]; [destruct (Z.eqb_spec k 32) as [->|N32]|].
    + (* 256 bits *)
      change (32 <? 32) with false. rewrite Hb_32 in *.
      destruct s; cbn [andb]; vstep; unfold enc; rewrite !w_mul_wrap.
      * cbn in Fx, Fy. rewrite wrap_2p255. rewrite !smul_ok_val by assumption.
        rewrite !not_special_val by assumption. rewrite w_and_b2z, b2z_eq0.
        rewrite enc_out_chk. unfold in_rangeb. rewrite ty_lo_s, ty_hi_s, Hb_32.
        fold MINS. fold MAXS. fold (swordb (x * y)).
        destruct (Z.eqb_spec y 0) as [->|N].
        -- replace (x * 0) with 0 by lia. rewrite !orb_true_r, andb_false_r. reflexivity.
        -- rewrite !orb_false_r.
           destruct (swordb (x * y)) eqn:S.
           ++ assert (Nsp : (x =? MINS) && (y =? -1) = false).
              { apply swordb_iff in S. unfold sword, MINS, MAXS in S. unfold MINS. bsolve. }
              rewrite Nsp. reflexivity.
           ++ cbn [orb]. destruct ((x =? MINS) && (y =? -1)); reflexivity.
      * cbn in Fx, Fy. unfold uword in Fx, Fy.
        rewrite (wrap_small x), (wrap_small y) by lia. rewrite !umul_ok_val by assumption.
        rewrite b2z_eq0.
        rewrite enc_out_chk. unfold in_rangeb. rewrite ty_lo_u, ty_hi_u, Hb_32 by lia.
        destruct (Z.eqb_spec y 0) as [->|N].
        -- replace (x * 0) with 0 by lia. reflexivity.
        -- rewrite orb_false_r. assert (0 <= x * y) by nia.
           destruct (Z.ltb_spec (x * y) W); cbn [negb]; vstep; bsolve.
    + (* 128 < bits < 256 *)
      assert (k <? 32 = true) as -> by lia. rewrite andb_false_r.
      range_facts k.
      destruct s; vstep; unfold enc; rewrite !w_mul_wrap.
      * cbn in Fx, Fy. rewrite !smul_ok_val by assumption.
        assert (Nsp : (x =? MINS) && (y =? -1) = false) by (unfold MINS; lia). rewrite Nsp, orb_false_r.
        rewrite b2z_eq0.
        destruct (Z.eqb_spec y 0) as [->|N].
        -- rewrite orb_true_r. cbn [negb]. replace (x * 0) with 0 by lia. vstep.
           rewrite !vclamp_s_val by (try lia; apply wrap_range). rewrite b2z_eq0.
           rewrite ts_wrap by (unfold sword, MINS, MAXS; lia).
           unfold chk. destruct (in_rangeb _ _); reflexivity.
        -- rewrite orb_false_r. destruct (swordb (x * y)) eqn:S; cbn [negb]; vstep.
           ++ apply swordb_iff in S.
              rewrite !vclamp_s_val by (try lia; apply wrap_range). rewrite b2z_eq0.
              rewrite ts_wrap by exact S.
              unfold chk. destruct (in_rangeb _ _); reflexivity.
           ++ destruct (not_sword_chk (Build_nty k true false) (x * y) ltac:(cbn; lia)) as [F|F].
              ** cbn in F. apply swordb_iff in F. congruence.
              ** rewrite F. reflexivity.
      * cbn in Fx, Fy. unfold uword in Fx, Fy.
        rewrite (wrap_small x), (wrap_small y) by lia. rewrite !umul_ok_val by assumption.
        rewrite b2z_eq0.
        destruct (Z.eqb_spec y 0) as [->|N].
        -- rewrite orb_true_r. cbn [negb]. replace (x * 0) with 0 by lia. vstep.
           rewrite !vclamp_u_val by (try lia; apply wrap_range). rewrite b2z_eq0.
           change (wrap 0) with 0.
           unfold chk. destruct (in_rangeb _ _); reflexivity.
        -- rewrite orb_false_r. assert (0 <= x * y) by nia.
           destruct (Z.ltb_spec (x * y) W); cbn [negb]; vstep.
           ++ rewrite !vclamp_u_val by (try lia; apply wrap_range). rewrite b2z_eq0.
              rewrite !(wrap_small (x * y)) by lia.
              unfold chk. destruct (in_rangeb _ _); cbn [negb enc_out]; unfold enc;
                rewrite ?(wrap_small (x * y)) by lia; reflexivity.
           ++ destruct (not_sword_chk (Build_nty k false false) (x * y) ltac:(cbn; lia)) as [F|F].
              ** cbn in F. unfold uword in F. lia.
              ** rewrite F. reflexivity.
    + (* bits <= 128 *)
      pose proof (Hb_le127 k L). pose proof P127_val. pose proof (Hb_pos k ltac:(lia)).
      destruct s; vstep; unfold enc; rewrite !w_mul_wrap.
      * rewrite !vclamp_s_val by (try lia; apply wrap_range). rewrite b2z_eq0.
        rewrite ts_wrap by (unfold sword, MINS, MAXS; nia).
        unfold chk. destruct (in_rangeb _ _); reflexivity.
      * rewrite !vclamp_u_val by (try lia; apply wrap_range). rewrite b2z_eq0.
        assert (0 <= x * y < W) by nia.
        rewrite !(wrap_small (x * y)) by lia.
        unfold chk. destruct (in_rangeb _ _); cbn [negb enc_out]; unfold enc;
          rewrite ?(wrap_small (x * y)) by lia; reflexivity.
Qed.

(* codegen_venom clamp_basetype on a word in %1 *)
Theorem vclamp_basetype_iff T w : ty_ok T -> uword w ->
  vrun [("%1"%string, w)] (v_clamp_basetype T)
  = if in_rangeb T (sval (nsigned T) w) then Val w else Revert.
Proof.
  destruct T as [k s d]. intros [Hk _] Hw. cbn [nbytes nsigned] in *. unfold v_clamp_basetype. cbn [nbytes nsigned].
  destruct (Z.ltb_spec k 32).
  - destruct s; vstep.
    + rewrite !vclamp_s_val by (try lia; exact Hw). rewrite b2z_eq0. cbn [sval].
      destruct (in_rangeb _ _); reflexivity.
    + rewrite !vclamp_u_val by (try lia; exact Hw). rewrite b2z_eq0. cbn [sval].
      destruct (in_rangeb _ _); reflexivity.
  - assert (k = 32) by lia. subst k. vstep.
    replace (in_rangeb _ _) with true; [reflexivity|]. symmetry. apply in_rangeb_iff. unfold in_range.
    pose proof W_val. pose proof HALF_val.
    destruct s; cbn [sval]; [rewrite ty_lo_s, ty_hi_s, Hb_32 | rewrite ty_lo_u, ty_hi_u, Hb_32 by lia].
    + pose proof (ts_range w Hw). unfold sword, MINS, MAXS in *. lia.
    + unfold uword in Hw. lia.
Qed.
