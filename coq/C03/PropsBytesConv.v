(* C03: convert(b, T) for b : Bytes[N] / String[N], N = 1..32, to every word type the rules allow, both front ends
   (2704 templates each).  For every memory and every pointer whose length word is len (0 <= len <= N), and EVERY content
   of the data word beyond the first len bytes (dirty padding, stale bytes of a longer earlier value), the template returns
   exactly conv_spec of the len bytes actually present (zero-/sign-extension of exactly those bytes; 0 for len = 0), or
   reverts when that value is out of range.  No precondition on the data word.
   (Before 762c8bd the signed targets returned -1 for an empty bytestring over a stale word with the top bit set: finding
   convert-empty-bytes-signed-stale, found by this proof; the glue probe of that name stays as a regression.) *)
From Coq Require Import ZArith Bool List String Lia.
From Verif Require Import Base.Word256 C03.LIR C03.VSL C03.LIRMem C03.VSLMem C03.ArithSpec C03.ConvSpec C03.WordArith C03.TieBase
  C03.ConvExact C03.ConvTie C03.BytesConv C03.BytesConvTie C03.GenBytesConv C03.TieBytesConv.
Import ListNotations.
Open Scope Z_scope.

Theorem legacy_bytes_convert_exact : forall s N Tout t, In (s, N, Tout, t) legacy_bconverts ->
  forall mem bp len dw, 0 <= len <= N -> mem bp = len -> mem (w_add bp (wrap 32)) = dw -> uword dw ->
  mleval mem [("b"%string, bp)] t = c_enc_out Tout (conv_spec (blen_ty len) Tout (bval len dw)).
Proof.
  intros s N Tout t HIn mem bp len dw Hl Hlen Hdw Rdw.
  pose proof tie_bconvert_legacy as Tie. rewrite forallb_forall in Tie. specialize (Tie _ HIn).
  unfold btie_one in Tie. apply andb_true_iff in Tie. destruct Tie as [Tie E]. apply andb_true_iff in Tie. destruct Tie as [Tie Ok].
  apply andb_true_iff in Tie. destruct Tie as [_ Al]. apply mlir_eqb_eq in E. subst t.
  apply (bconvert_exact N Tout (s =? 1)); try assumption. apply cty_okb_ok. exact Ok.
Qed.
Print Assumptions legacy_bytes_convert_exact.

Theorem venom_bytes_convert_exact : forall s N Tout t, In (s, N, Tout, t) venom_bconverts ->
  forall mem bp len dw, 0 <= len <= N -> mem bp = len -> mem (w_add bp (wrap 32)) = dw -> uword dw ->
  mvrun mem [("%1"%string, bp)] t = c_enc_out Tout (conv_spec (blen_ty len) Tout (bval len dw)).
Proof.
  intros s N Tout t HIn mem bp len dw Hl Hlen Hdw Rdw.
  pose proof tie_bconvert_venom as Tie. rewrite forallb_forall in Tie. specialize (Tie _ HIn).
  unfold vbtie_one in Tie. apply andb_true_iff in Tie. destruct Tie as [Tie E]. apply andb_true_iff in Tie. destruct Tie as [Tie Ok].
  apply andb_true_iff in Tie. destruct Tie as [_ Al]. apply mvtemplate_eqb_eq in E. subst t.
  apply (vbconvert_exact N Tout (s =? 1)); try assumption. apply cty_okb_ok. exact Ok.
Qed.
Print Assumptions venom_bytes_convert_exact.

(* dirty-padding / stale-byte independence, stated explicitly: two data words with the same len leading bytes
   (any len in 0..N; for len = 0 ANY two words) give the same result, in both pipelines *)
Corollary bytes_convert_padding_independent : forall s N Tout t, In (s, N, Tout, t) legacy_bconverts ->
  forall mem1 mem2 bp len, 0 <= len <= N -> mem1 bp = len -> mem2 bp = len ->
  uword (mem1 (w_add bp (wrap 32))) -> uword (mem2 (w_add bp (wrap 32))) ->
  bval len (mem1 (w_add bp (wrap 32))) = bval len (mem2 (w_add bp (wrap 32))) ->
  mleval mem1 [("b"%string, bp)] t = mleval mem2 [("b"%string, bp)] t.
Proof.
  intros s N Tout t HIn mem1 mem2 bp len Hl H1 H2 U1 U2 E.
  rewrite (legacy_bytes_convert_exact s N Tout t HIn mem1 bp len _ Hl H1 eq_refl U1).
  rewrite (legacy_bytes_convert_exact s N Tout t HIn mem2 bp len _ Hl H2 eq_refl U2).
  rewrite E. reflexivity.
Qed.
Corollary venom_bytes_convert_padding_independent : forall s N Tout t, In (s, N, Tout, t) venom_bconverts ->
  forall mem1 mem2 bp len, 0 <= len <= N -> mem1 bp = len -> mem2 bp = len ->
  uword (mem1 (w_add bp (wrap 32))) -> uword (mem2 (w_add bp (wrap 32))) ->
  bval len (mem1 (w_add bp (wrap 32))) = bval len (mem2 (w_add bp (wrap 32))) ->
  mvrun mem1 [("%1"%string, bp)] t = mvrun mem2 [("%1"%string, bp)] t.
Proof.
  intros s N Tout t HIn mem1 mem2 bp len Hl H1 H2 U1 U2 E.
  rewrite (venom_bytes_convert_exact s N Tout t HIn mem1 bp len _ Hl H1 eq_refl U1).
  rewrite (venom_bytes_convert_exact s N Tout t HIn mem2 bp len _ Hl H2 eq_refl U2).
  rewrite E. reflexivity.
Qed.

(* the empty bytestring converts to 0 (False, the zero address, zero bytesM) whatever the stale data word is *)
Definition empty_zero (Tout : cty) : bool :=
  match c_enc_out Tout (conv_spec (blen_ty 0) Tout 0) with Val 0 => true | _ => false end.
Lemma empty_zero_legacy : forallb (fun p => match p with (_, _, Tout, _) => empty_zero Tout end) legacy_bconverts = true.
Proof. vm_compute. reflexivity. Qed.
Lemma empty_zero_venom : forallb (fun p => match p with (_, _, Tout, _) => empty_zero Tout end) venom_bconverts = true.
Proof. vm_compute. reflexivity. Qed.

Theorem legacy_bytes_convert_empty : forall s N Tout t, In (s, N, Tout, t) legacy_bconverts ->
  forall mem bp, mem bp = 0 -> uword (mem (w_add bp (wrap 32))) -> mleval mem [("b"%string, bp)] t = Val 0.
Proof.
  intros s N Tout t HIn mem bp H0 U.
  pose proof tie_bconvert_legacy as Tie. rewrite forallb_forall in Tie. specialize (Tie _ HIn).
  unfold btie_one in Tie. repeat (apply andb_true_iff in Tie; destruct Tie as [Tie ?]).
  assert (1 <= N) by (unfold bconv_allowed in *; lia).
  rewrite (legacy_bytes_convert_exact s N Tout t HIn mem bp 0 _ ltac:(lia) H0 eq_refl U). rewrite bval_0 by exact U.
  pose proof empty_zero_legacy as Z0. rewrite forallb_forall in Z0. specialize (Z0 _ HIn). cbn beta iota in Z0.
  unfold empty_zero in Z0. destruct (c_enc_out Tout _) as [[| |]| | |]; try discriminate Z0. reflexivity.
Qed.
Theorem venom_bytes_convert_empty : forall s N Tout t, In (s, N, Tout, t) venom_bconverts ->
  forall mem bp, mem bp = 0 -> uword (mem (w_add bp (wrap 32))) -> mvrun mem [("%1"%string, bp)] t = Val 0.
Proof.
  intros s N Tout t HIn mem bp H0 U.
  pose proof tie_bconvert_venom as Tie. rewrite forallb_forall in Tie. specialize (Tie _ HIn).
  unfold vbtie_one in Tie. repeat (apply andb_true_iff in Tie; destruct Tie as [Tie ?]).
  assert (1 <= N) by (unfold bconv_allowed in *; lia).
  rewrite (venom_bytes_convert_exact s N Tout t HIn mem bp 0 _ ltac:(lia) H0 eq_refl U). rewrite bval_0 by exact U.
  pose proof empty_zero_venom as Z0. rewrite forallb_forall in Z0. specialize (Z0 _ HIn). cbn beta iota in Z0.
  unfold empty_zero in Z0. destruct (c_enc_out Tout _) as [[| |]| | |]; try discriminate Z0. reflexivity.
Qed.

Theorem bytes_convert_family_complete :
  bkeys_eqb (map bkey legacy_bconverts) bconv_keys = true /\ bkeys_eqb (map bkey venom_bconverts) bconv_keys = true.
Proof. exact family_complete_bconvert. Qed.
