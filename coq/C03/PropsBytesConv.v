(* C03: convert(b, T) for b : Bytes[N] / String[N], N = 1..32, to every word type the rules allow, both front ends
   (2704 templates each).  For every memory and every pointer whose length word is len (0 <= len <= N) the template returns
   exactly conv_spec of the len bytes actually present -- whatever the padding after the data is -- or reverts;
   the only exception is len = 0 with a signed target, where the result is right iff the stale data word has a clear
   top bit (bytes_convert_empty_signed_refuted; reported as a finding). *)
From Coq Require Import ZArith Bool List String Lia.
From Verif Require Import Base.Word256 C03.LIR C03.VSL C03.LIRMem C03.VSLMem C03.ArithSpec C03.ConvSpec C03.WordArith C03.TieBase
  C03.ConvExact C03.ConvTie C03.BytesConv C03.BytesConvTie C03.GenBytesConv C03.TieBytesConv.
Import ListNotations.
Open Scope Z_scope.

Theorem legacy_bytes_convert_exact : forall s N Tout t, In (s, N, Tout, t) legacy_bconverts ->
  forall mem bp len dw, 0 <= len <= N -> mem bp = len -> mem (w_add bp (wrap 32)) = dw -> uword dw ->
  (len = 0 -> signed_target Tout = true -> dw < HALF) ->
  mleval mem [("b"%string, bp)] t = c_enc_out Tout (conv_spec (blen_ty len) Tout (bval len dw)).
Proof.
  intros s N Tout t HIn mem bp len dw Hl Hlen Hdw Rdw Clean.
  pose proof tie_bconvert_legacy as Tie. rewrite forallb_forall in Tie. specialize (Tie _ HIn).
  unfold btie_one in Tie. apply andb_true_iff in Tie. destruct Tie as [Tie E]. apply andb_true_iff in Tie. destruct Tie as [Tie Ok].
  apply andb_true_iff in Tie. destruct Tie as [_ Al]. apply mlir_eqb_eq in E. subst t.
  apply (bconvert_exact N Tout (s =? 1)); try assumption. apply cty_okb_ok. exact Ok.
Qed.
Print Assumptions legacy_bytes_convert_exact.

Theorem venom_bytes_convert_exact : forall s N Tout t, In (s, N, Tout, t) venom_bconverts ->
  forall mem bp len dw, 0 <= len <= N -> mem bp = len -> mem (w_add bp (wrap 32)) = dw -> uword dw ->
  (len = 0 -> signed_target Tout = true -> dw < HALF) ->
  mvrun mem [("%1"%string, bp)] t = c_enc_out Tout (conv_spec (blen_ty len) Tout (bval len dw)).
Proof.
  intros s N Tout t HIn mem bp len dw Hl Hlen Hdw Rdw Clean.
  pose proof tie_bconvert_venom as Tie. rewrite forallb_forall in Tie. specialize (Tie _ HIn).
  unfold vbtie_one in Tie. apply andb_true_iff in Tie. destruct Tie as [Tie E]. apply andb_true_iff in Tie. destruct Tie as [Tie Ok].
  apply andb_true_iff in Tie. destruct Tie as [_ Al]. apply mvtemplate_eqb_eq in E. subst t.
  apply (vbconvert_exact N Tout (s =? 1)); try assumption. apply cty_okb_ok. exact Ok.
Qed.
Print Assumptions venom_bytes_convert_exact.

(* dirty-padding independence, stated explicitly: two data words with the same len leading bytes give the same result *)
Corollary bytes_convert_padding_independent : forall s N Tout t, In (s, N, Tout, t) legacy_bconverts ->
  forall mem1 mem2 bp len, 1 <= len <= N -> mem1 bp = len -> mem2 bp = len ->
  uword (mem1 (w_add bp (wrap 32))) -> uword (mem2 (w_add bp (wrap 32))) ->
  bval len (mem1 (w_add bp (wrap 32))) = bval len (mem2 (w_add bp (wrap 32))) ->
  mleval mem1 [("b"%string, bp)] t = mleval mem2 [("b"%string, bp)] t.
Proof.
  intros s N Tout t HIn mem1 mem2 bp len Hl H1 H2 U1 U2 E.
  rewrite (legacy_bytes_convert_exact s N Tout t HIn mem1 bp len _ ltac:(lia) H1 eq_refl U1 ltac:(lia)).
  rewrite (legacy_bytes_convert_exact s N Tout t HIn mem2 bp len _ ltac:(lia) H2 eq_refl U2 ltac:(lia)).
  rewrite E. reflexivity.
Qed.

Theorem bytes_convert_empty_signed_defect :
  exists mem bp, mem bp = 0 /\ uword (mem (w_add bp (wrap 32))) /\
    mleval mem [("b"%string, bp)] (m_bconvert 32 (CNum (Build_nty 32 true false))) = Val (wrap (-1)) /\
    conv_spec (blen_ty 0) (CNum (Build_nty 32 true false)) 0 = Val 0.
Proof. exact bytes_convert_empty_signed_refuted. Qed.

Theorem bytes_convert_family_complete :
  bkeys_eqb (map bkey legacy_bconverts) bconv_keys = true /\ bkeys_eqb (map bkey venom_bconverts) bconv_keys = true.
Proof. exact family_complete_bconvert. Qed.
