(* Gen-independent definitions for the unchecked-operation O-ties. *)
From Coq Require Import ZArith Bool List String Lia.
From Verif Require Import Base.Word256 C03.LIR C03.VSL C03.ArithSpec C03.ArithModel C03.TieBase C03.TieModels C03.UnsafeExact.
Import ListNotations.
Open Scope Z_scope.

Definition uop_code (o : uop) : Z :=
  match o with UAdd => 0 | USub => 1 | UMul => 2 | UDiv => 3 | UPowMod => 4 | UShl => 5 | UShr => 6 | UAnd => 7 | UOr => 8 | UXor => 9 end.
(* which (operation, type) pairs exist *)
Definition unsafe_okb (o : uop) (T : nty) : bool :=
  ty_okb T && negb (ndec T) &&
  match o with
  | UPowMod => (nbytes T =? 32) && negb (nsigned T)
  | UShl | UShr => nbytes T =? 32
  | _ => true
  end.
Definition utie_one (p : uop * nty * lir) : bool :=
  match p with (o, T, t) => unsafe_okb o T && lir_eqb t (m_unsafe T o vx vy) end.
Definition vutie_one (p : uop * nty * vtemplate) : bool :=
  match p with (o, T, t) => unsafe_okb o T && vtemplate_eqb t (v_unsafe T o) end.
Definition unsafe_keys : list (uop * nty) :=
  flat_map (fun T => app (map (fun o => (o, T)) [UAdd; USub; UMul; UDiv; UAnd; UOr; UXor])
                    (app (if nbytes T =? 32 then [(UShl, T); (UShr, T)] else [])
                         (if (nbytes T =? 32) && negb (nsigned T) then [(UPowMod, T)] else []))) int_types.
Definition ukey_eqb (a b : uop * nty) : bool :=
  (uop_code (fst a) =? uop_code (fst b)) && (nbytes (snd a) =? nbytes (snd b))
  && Bool.eqb (nsigned (snd a)) (nsigned (snd b)) && Bool.eqb (ndec (snd a)) (ndec (snd b)).
Fixpoint ukeys_eqb (l m : list (uop * nty)) : bool :=
  match l, m with [], [] => true | a :: l', b :: m' => ukey_eqb a b && ukeys_eqb l' m' | _, _ => false end.

Lemma unsafe_okb_parts o T : unsafe_okb o T = true ->
  ty_ok T /\ ndec T = false /\
  (o = UPowMod -> T = Build_nty 32 false false) /\ (is_shift o = true -> nbytes T = 32).
Proof.
  unfold unsafe_okb. intros H. destruct (ty_okb T) eqn:O; [|discriminate H]. destruct (ndec T) eqn:D; [discriminate H|].
  cbn [andb negb] in H. split; [apply ty_okb_ok; exact O|]. split; [reflexivity|]. split.
  - intros ->. destruct T as [k s d]. cbn in *. subst d. destruct s; cbn in H; [rewrite andb_false_r in H; discriminate H|].
    rewrite andb_true_r in H. apply Z.eqb_eq in H. subst. reflexivity.
  - intros S. destruct o; try discriminate S; lia.
Qed.
