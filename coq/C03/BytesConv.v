(* convert(b, T) for b : Bytes[N] / String[N] (N = 1..32) to a word-sized type, both front ends.
   The operand is a pointer to [length][data...]; the templates read the length word and the FIRST data word and
   compute on  v = dataword >> 8*(32-len), i.e. on the len bytes actually present: the result is conv_spec of
   bytes<len> applied to v, INDEPENDENT of the padding bytes after the data (dirty-padding independence), for every
   len in 0..N (an empty bytestring converts to 0: the number is zero-extended by `shr` and then sign-extended from
   byte len-1 with `signextend`, which is the identity for len = 0).
   History: until 2026-09-26 the signed targets used `sar 8*(32-len)`, which for len = 0 returned the sign of the stale
   data word (finding convert-empty-bytes-signed-stale, found while proving this file; fixed in /repo). *)
From Coq Require Import ZArith Znumtheory Bool List Lia ZifyBool String.
From Verif Require Import Base.Word256 C03.LIR C03.VSL C03.LIRMem C03.VSLMem C03.ArithSpec C03.ConvSpec C03.WordArith
  C03.TypeLemmas C03.ArithModel C03.ConvModel C03.LegacyExact C03.VenomExact C03.ConvExact C03.VConvExact.
Import ListNotations.
Open Scope Z_scope.
Open Scope list_scope.

(* ---------------- models ---------------- *)
Definition mb : mlir := MP (LVar "b").
Definition m_blen : mlir := MLoad mb.
Definition m_bdata : mlir := MLoad (MP (L2 OAdd (LVar "b") (LInt 32))).
(* _convert._bytes_to_num on a bytestring: (with len (mload b) [signextend (sub len 1)] (shr (mul 8 (sub 32 len)) data)) *)
Definition m_bshr : mlir := M2 OShr (MP (L2 OMul (LInt 8) (L2 OSub (LInt 32) (LVar "len")))) m_bdata.
Definition m_bnum (signed : bool) : mlir :=
  MWith "len" m_blen (if signed then M2 OSignextend (MP (L2 OSub (LVar "len") (LInt 1))) m_bshr else m_bshr).
Definition m_bclamp (bits : Z) (signed : bool) (num : mlir) : mlir :=
  MWith "val" num (MP (if signed then m_clamp_of (bits / 8) true (LVar "val") else m_uclamp_of bits (LVar "val"))).

Definition m_bconvert (N : Z) (Tout : cty) : mlir :=
  match Tout with
  | CBool => M1 OIszero (M1 OIszero (m_bnum false))
  | CNum T => if ndec T then (if 168 <? 8 * N then m_bclamp 168 true (m_bnum true) else m_bnum true)
              else (if nbits T <? 8 * N then m_bclamp (nbits T) (nsigned T) (m_bnum (nsigned T)) else m_bnum (nsigned T))
  | CAddr => if 160 <? 8 * N then m_bclamp 160 false (m_bnum false) else m_bnum false
  | CBytes M => MWith "bits" (M2 OMul (M2 OSub (MP (LInt 32)) m_blen) (MP (LInt 8)))
                      (M2 OShl (MP (LVar "bits")) (M2 OShr (MP (LVar "bits")) m_bdata))
  | CFlag _ => mb
  end.

(* Venom: %1 = pointer *)
Definition v_bload : list mvinstr :=
  [ MVLoad "%3" px; MV (V2 "%4" OAdd (VLit 32) px); MVLoad "%5" (VVar "%4");
    MV (V2 "%6" OSub (VVar "%3") (VLit 32)); MV (V2 "%7" OMul (VLit 8) (VVar "%6")) ].
Definition v_bhead_u : list mvinstr := v_bload ++ [ MV (V2 "%8" OShr (VVar "%5") (VVar "%7")) ].
(* _to_int: shr, sub, signextend;  _to_decimal: sub, shr, signextend *)
Definition v_bhead_si : list mvinstr :=
  v_bload ++ [ MV (V2 "%8" OShr (VVar "%5") (VVar "%7")); MV (V2 "%9" OSub (VLit 1) (VVar "%3"));
               MV (V2 "%10" OSignextend (VVar "%8") (VVar "%9")) ].
Definition v_bhead_sd : list mvinstr :=
  v_bload ++ [ MV (V2 "%8" OSub (VLit 1) (VVar "%3")); MV (V2 "%9" OShr (VVar "%5") (VVar "%7"));
               MV (V2 "%10" OSignextend (VVar "%9") (VVar "%8")) ].
Definition v_bconvert (N : Z) (Tout : cty) : mvtemplate :=
  match Tout with
  | CBool => (v_bhead_u ++ [ MV (V1 "%9" OIszero (VVar "%8")); MV (V1 "%10" OIszero (VVar "%9")) ], VVar "%10")
  | CNum T => if ndec T then (v_bhead_sd ++ (if 168 <? 8 * N then map MV (v_clamp T (VVar "%10") 11) else []), VVar "%10")
              else if nsigned T
                   then (v_bhead_si ++ (if nbits T <? 8 * N then map MV (v_clamp T (VVar "%10") 11) else []), VVar "%10")
                   else (v_bhead_u ++ (if nbits T <? 8 * N then map MV (v_clamp T (VVar "%8") 9) else []), VVar "%8")
  | CAddr => (v_bhead_u ++ (if 160 <? 8 * N then map MV (v_clamp uint160_t (VVar "%8") 9) else []), VVar "%8")
  | CBytes M => (v_bhead_u ++ [ MV (V2 "%9" OShl (VVar "%8") (VVar "%7")) ], VVar "%9")
  | CFlag _ => ([], px)
  end.

(* which targets a bytestring can be converted to *)
Definition bconv_allowed (is_string : bool) (N : Z) (Tout : cty) : bool :=
  (1 <=? N) && (N <=? 32) &&
  if is_string then match Tout with CBool => true | _ => false end
  else match Tout with CBool | CAddr | CNum _ => true | CBytes M => N <=? M | CFlag _ => false end.

(* ---------------- the value denoted by (len, data word) ---------------- *)
Definition bval (len dw : Z) : Z := dw / 2 ^ (8 * (32 - len)).
Definition blen_ty (len : Z) : cty := CBytes (Z.max 1 len).
Definition signed_target (T : cty) : bool := match T with CNum T => nsigned T | _ => false end.

Lemma bval_range len dw : 0 <= len <= 32 -> uword dw -> 0 <= bval len dw < 2 ^ (8 * len).
Proof.
  intros Hl Hw. unfold bval, uword in *. assert (P : 0 < 2 ^ (8 * (32 - len))) by (apply Z.pow_pos_nonneg; lia).
  assert (HW : W = 2 ^ (8 * (32 - len)) * 2 ^ (8 * len)).
  { rewrite (W_split (8 * (32 - len))) by lia. f_equal. f_equal. lia. }
  split; [apply Z.div_pos; lia|]. apply Z.div_lt_upper_bound; lia.
Qed.
Lemma bval_0 dw : uword dw -> bval 0 dw = 0.
Proof. intros H. unfold bval. change (8 * (32 - 0)) with 256. fold W. apply Z.div_small. exact H. Qed.

Lemma shift_word len : 0 <= len <= 32 -> w_mul (wrap 8) (w_sub (wrap 32) len) = 8 * (32 - len).
Proof.
  intros H. pose proof W_val. unfold w_mul, w_sub. rewrite (wrap_small 8), (wrap_small 32) by lia.
  rewrite (Z.mod_small (32 - len)) by lia. apply Z.mod_small. lia.
Qed.
Lemma shift_word' len : 0 <= len <= 32 -> w_mul (w_sub (wrap 32) len) (wrap 8) = 8 * (32 - len).
Proof. intros H. unfold w_mul. rewrite Z.mul_comm. exact (shift_word len H). Qed.

Lemma shr_bval len dw : 0 <= len <= 32 -> uword dw -> w_shr (8 * (32 - len)) dw = bval len dw.
Proof.
  intros Hl Hw. unfold w_shr, bval. destruct (Z.ltb_spec (8 * (32 - len)) 256); [reflexivity|].
  assert (len = 0) by lia. subst len. change (8 * (32 - 0)) with 256. fold W. symmetry. apply Z.div_small. exact Hw.
Qed.

(* sign extension from byte len-1 of a len-byte number is its two's-complement reading; for len = 0 the byte index
   wraps to 2^256-1 and signextend is the identity *)
Lemma signext_bytes len v : 0 <= len <= 32 -> 0 <= v < 2 ^ (8 * Z.max 1 len) -> (len = 0 -> v = 0) ->
  w_signextend (w_sub len (wrap 1)) v = wrap (sbytes (Z.max 1 len) v).
Proof.
  intros Hl Hv H0. pose proof W_val. pose proof HALF_val. unfold w_signextend, w_sub. rewrite (wrap_small 1) by lia.
  destruct (Z.eq_dec len 0) as [E0|N0].
  - rewrite E0 in *. rewrite (H0 eq_refl). vm_compute. reflexivity.
  - replace (Z.max 1 len) with len in * by lia. rewrite (Z.mod_small (len - 1)) by lia.
    unfold sbytes. destruct (Z.ltb_spec (len - 1) 31).
    + replace (8 * (len - 1 + 1)) with (8 * len) by lia. cbv zeta. rewrite (Z.mod_small v) by lia.
      pose proof (pow2_le_W (8 * len) ltac:(lia)).
      assert (PB : 0 < 2 ^ (8 * len - 1)) by (apply Z.pow_pos_nonneg; lia).
      assert (HB : 2 ^ (8 * len) = 2 * 2 ^ (8 * len - 1)).
      { replace (8 * len) with (1 + (8 * len - 1)) at 1 by lia. rewrite Z.pow_add_r by lia. reflexivity. }
      destruct (v <? 2 ^ (8 * len - 1)); [symmetry; apply wrap_small; lia|].
      unfold wrap. replace (v - 2 ^ (8 * len)) with (v + (W - 2 ^ (8 * len)) + (-1) * W) by lia.
      rewrite Z.mod_add by lia. symmetry. apply Z.mod_small. lia.
    + assert (len = 32) by lia. subst len. change (8 * 32 - 1) with 255. change (8 * 32) with 256 in *. fold W in *. fold HALF.
      destruct (Z.ltb_spec v HALF); [symmetry; apply wrap_small; lia|].
      unfold wrap. replace (v - W) with (v + (-1) * W) by lia. rewrite Z.mod_add by lia. symmetry. apply Z.mod_small. lia.
Qed.

(* ---------------- evaluation of the head ---------------- *)
Section Legacy.
  Variables (mem : Z -> Z) (bp len dw : Z).
  Hypothesis Hlen : mem bp = len.
  Hypothesis Hdw : mem (w_add bp (wrap 32)) = dw.
  Hypothesis Rlen : 0 <= len <= 32.
  Hypothesis Rdw : uword dw.
  Let e0 : env := [("b"%string, bp)].

  Lemma blen_eval e : lookup e "b" = Some bp -> mleval mem e m_blen = Val len.
  Proof. intros L. unfold m_blen, mb. cbn [mleval leval]. rewrite L. rewrite Hlen. reflexivity. Qed.
  Lemma bdata_eval e : lookup e "b" = Some bp -> mleval mem e m_bdata = Val dw.
  Proof. intros L. unfold m_bdata. cbn [mleval leval]. rewrite L. cbn [leval ev2]. rewrite Hdw. reflexivity. Qed.

  (* the number read from the bytestring *)
  Definition bnum_val (signed : bool) : Z :=
    if signed then sbytes (Z.max 1 len) (bval len dw) else bval len dw.

  Lemma bval_range' : 0 <= bval len dw < 2 ^ (8 * Z.max 1 len).
  Proof.
    destruct (Z.eq_dec len 0) as [E0|N0].
    - rewrite E0, bval_0 by exact Rdw. split; [lia | apply Z.pow_pos_nonneg; lia].
    - replace (Z.max 1 len) with len by lia. exact (bval_range len dw Rlen Rdw).
  Qed.

  Lemma bnum_word (signed : bool) :
    (if signed then w_signextend (w_sub len (wrap 1)) (w_shr (8 * (32 - len)) dw) else w_shr (8 * (32 - len)) dw)
    = wrap (bnum_val signed).
  Proof.
    rewrite shr_bval by assumption. unfold bnum_val. pose proof bval_range' as R.
    destruct signed.
    - apply signext_bytes; [exact Rlen | exact R |]. intros E0. rewrite E0. apply bval_0. exact Rdw.
    - pose proof (pow2_le_W (8 * Z.max 1 len) ltac:(lia)). symmetry. apply wrap_small. lia.
  Qed.

  Lemma bnum_eval signed e : lookup e "b" = Some bp -> mleval mem e (m_bnum signed) = Val (wrap (bnum_val signed)).
  Proof.
    intros L. unfold m_bnum. cbn [mleval]. rewrite (blen_eval e L). cbn [mleval].
    assert (L' : lookup (("len"%string, len) :: e) "b" = Some bp) by (cbn [lookup String.eqb Ascii.eqb Bool.eqb]; exact L).
    rewrite <- (bnum_word signed).
    destruct signed; unfold m_bshr; cbn [mleval]; rewrite (bdata_eval _ L'); cbn [leval lookup String.eqb Ascii.eqb Bool.eqb];
      cbn [ev2]; rewrite shift_word by exact Rlen; reflexivity.
  Qed.
End Legacy.

(* ---------------- legacy: exactness and dirty-padding independence ---------------- *)
Lemma sbytes_small m v : 1 <= m -> 0 <= v < 2 ^ (8 * m - 1) -> sbytes m v = v.
Proof. intros Hm Hv. unfold sbytes. replace (v <? 2 ^ (8 * m - 1)) with true by lia. reflexivity. Qed.

Theorem bconvert_exact N Tout (is_str : bool) mem bp len dw :
  bconv_allowed is_str N Tout = true -> cty_ok Tout -> 0 <= len <= N ->
  mem bp = len -> mem (w_add bp (wrap 32)) = dw -> uword dw ->
  mleval mem [("b"%string, bp)] (m_bconvert N Tout) = c_enc_out Tout (conv_spec (blen_ty len) Tout (bval len dw)).
Proof.
  intros Al OkO Hl Hlen Hdw Rdw. pose proof W_val. pose proof HALF_val.
  unfold bconv_allowed in Al. apply andb_true_iff in Al. destruct Al as [HN Al]. assert (RN : 1 <= N <= 32) by lia.
  assert (Rlen : 0 <= len <= 32) by lia.
  set (e := [("b"%string, bp)]).
  assert (Lb : lookup e "b" = Some bp) by reflexivity.
  pose proof (bval_range len dw Rlen Rdw) as Rv.
  set (v := bval len dw) in *.
  set (l' := Z.max 1 len). assert (Hl' : 1 <= l' <= 32) by (unfold l'; lia).
  assert (Rv' : 0 <= v < 2 ^ (8 * l')).
  { destruct (Z.eq_dec len 0) as [E0|N0]; [unfold v; rewrite E0, bval_0 by exact Rdw; split; [lia | apply Z.pow_pos_nonneg; lia]
                                          | unfold l'; replace (Z.max 1 len) with len by lia; exact Rv]. }
  (* the number the head computes, in terms of the bytes<l'> reading of v *)
  assert (NUM : forall (sg : bool), mleval mem e (m_bnum sg) = Val (wrap (if sg then sbytes l' v else v))).
  { intros sg. exact (bnum_eval mem bp len dw Hlen Hdw Rlen Rdw sg e Lb). }
  pose proof (sbytes_range l' v Hl' ltac:(lia)) as SR. pose proof (Hb_pos l' ltac:(lia)). pose proof (Hb_le_HALF l' Hl').
  assert (HBl : 2 ^ (8 * l') = 2 * Hb l') by (apply pow8k; lia).
  assert (LN : l' <= N) by (unfold l'; lia).
  unfold blen_ty. fold l'. unfold conv_spec.
  destruct Tout as [T| | |M|n]; cbn [m_bconvert signed_target] in *.
  - (* numeric targets *)
    cbn in OkO. destruct is_str; [discriminate Al|].
    destruct (ndec T) eqn:D.
    + (* decimal: a bit cast of the two's-complement reading *)
      pose proof (dec_is_decimal_t T OkO D). subst T.
      change (c_chk (CNum decimal_t) (sbytes l' v)) with (chk decimal_t (sbytes l' v)). change (c_enc_out (CNum decimal_t)) with enc_out.
      specialize (NUM true).
      destruct (Z.ltb_spec 168 (8 * N)).
      * unfold m_bclamp. cbn [mleval]. rewrite NUM. cbn [mleval]. change (168 / 8) with 21.
        apply (clamp_of_exact _ _ 21 true true); [lia | reflexivity |]. cbn. unfold sword, MINS, MAXS. lia.
      * rewrite NUM. rewrite chk_val; [reflexivity|]. unfold in_range. destruct dec_bounds as [-> ->].
        pose proof (Hb_mono l' 21 ltac:(lia)). rewrite Hb_21 in *. lia.
    + (* integers *)
      change (c_chk (CNum T) (if nsigned T then sbytes l' v else v)) with (chk T (if nsigned T then sbytes l' v else v)).
      change (c_enc_out (CNum T)) with enc_out.
      specialize (NUM (nsigned T)).
      set (r := if nsigned T then sbytes l' v else v) in *.
      destruct T as [k s d]. destruct OkO as [Hk _]. cbn [nbytes nsigned ndec] in *. subst d. unfold nbits. cbn [nbytes nsigned].
      pose proof (Hb_pos k ltac:(lia)).
      destruct (Z.ltb_spec (8 * k) (8 * N)).
      * unfold m_bclamp. cbn [mleval]. rewrite NUM. cbn [mleval].
        destruct s.
        -- replace (8 * k / 8) with k by (rewrite Z.mul_comm, Z.div_mul; lia).
           apply clamp_of_exact; [lia | reflexivity |]. cbn. unfold r, sword, MINS, MAXS. lia.
        -- rewrite (uclamp_of_eval _ _ _ (wrap r)); [| lia | reflexivity | apply wrap_range].
           unfold r. rewrite wrap_small by lia. rewrite pow8k by lia.
           rewrite enc_out_chk. unfold in_rangeb. rewrite ty_lo_u, ty_hi_u by lia. rewrite wrap_small by lia. bsolve.
      * rewrite NUM. rewrite chk_val; [reflexivity|]. unfold in_range, r.
        pose proof (Hb_mono l' k ltac:(lia)).
        destruct s; [rewrite ty_lo_s, ty_hi_s | rewrite ty_lo_u, ty_hi_u by lia]; lia.
  - (* bool *)
    specialize (NUM false). cbn [mleval]. rewrite NUM. cbn [c_enc_out c_enc]. f_equal.
    cbn [ev1]. unfold w_iszero at 2. rewrite w_iszero_b2z. pose proof (pow2_le_W (8 * l') ltac:(lia)).
    rewrite wrap_eqb0 by lia. destruct (v =? 0); reflexivity.
  - (* address *)
    destruct is_str; [discriminate Al|]. specialize (NUM false).
    assert (P160 : 2 ^ 160 = 1461501637330902918203684832716283019655932542976) by reflexivity.
    unfold c_chk, c_in_rangeb. cbn [c_lo c_hi c_enc_out c_enc]. pose proof (pow2_le_W (8 * l') ltac:(lia)).
    destruct (Z.ltb_spec 160 (8 * N)).
    + unfold m_bclamp. cbn [mleval]. rewrite NUM. cbn [mleval].
      rewrite (uclamp_of_eval _ _ _ (wrap v)); [| lia | reflexivity | apply wrap_range].
      rewrite wrap_small by lia. bsolve; cbn [c_enc_out c_enc]; rewrite ?wrap_small by lia; reflexivity.
    + rewrite NUM. assert (Hb l' <= Hb 20) by (apply Hb_mono; lia). change (Hb 20) with (2 ^ 159) in *.
      assert (2 ^ 160 = 2 * 2 ^ 159) by reflexivity. bsolve; cbn [c_enc_out c_enc]; reflexivity.
  - (* bytesM: left-align the len bytes, zero the rest *)
    cbn in OkO. destruct is_str; [discriminate Al|]. assert (NM : N <= M) by lia.
    replace (l' <=? M) with true by lia. cbn [c_enc_out c_enc].
    cbn [mleval]. rewrite (blen_eval mem bp len Hlen e Lb). cbn [leval mleval]. cbn [ev2].
    rewrite shift_word' by exact Rlen.
    assert (Lb' : lookup (("bits"%string, 8 * (32 - len)) :: e) "b" = Some bp) by reflexivity.
    rewrite (bdata_eval mem bp dw Hdw _ Lb'). cbn [leval lookup String.eqb Ascii.eqb Bool.eqb]. cbn [ev2].
    rewrite shr_bval by assumption. fold v. f_equal.
    unfold w_shl. destruct (Z.ltb_spec (8 * (32 - len)) 256).
    + assert (len <> 0) by lia. unfold l' in *. replace (Z.max 1 len) with len in * by lia.
      assert (P : 0 < 2 ^ (8 * (32 - len))) by (apply Z.pow_pos_nonneg; lia).
      assert (HW : W = 2 ^ (8 * (32 - len)) * 2 ^ (8 * len)) by (rewrite (W_split (8 * (32 - len))) by lia; f_equal; f_equal; lia).
      rewrite Z.mod_small by nia. rewrite <- Z.mul_assoc, <- Z.pow_add_r by lia. f_equal. f_equal. lia.
    + assert (E0 : len = 0) by lia. unfold v. rewrite E0, bval_0 by exact Rdw. reflexivity.
  - destruct is_str; discriminate Al.
Qed.

(* ---------------- Venom ---------------- *)
Lemma mvsl_app mem l1 : forall e l2,
  mvsl mem e (l1 ++ l2) = match mvsl mem e l1 with VOk e' => mvsl mem e' l2 | r => r end.
Proof. induction l1 as [|i l IH]; intros e l2; [reflexivity|]. cbn [app mvsl]. destruct (mvstep mem e i); try reflexivity. apply IH. Qed.
Lemma mvsl_MV mem l : forall e, mvsl mem e (map MV l) = vsl e l.
Proof. induction l as [|i l IH]; intros e; [reflexivity|]. cbn [map mvsl mvstep vsl]. destruct (vstep e i); try reflexivity. apply IH. Qed.

Definition benv7 (bp len dw : Z) : env :=
  [("%7"%string, 8 * (32 - len)); ("%6"%string, w_sub (wrap 32) len); ("%5"%string, dw);
   ("%4"%string, w_add bp (wrap 32)); ("%3"%string, len); ("%1"%string, bp)].
Definition benv_u (bp len dw : Z) : env := ("%8"%string, wrap (bnum_val len dw false)) :: benv7 bp len dw.
Definition benv_si (bp len dw : Z) : env :=
  ("%10"%string, wrap (bnum_val len dw true)) :: ("%9"%string, w_sub len (wrap 1)) :: ("%8"%string, w_shr (8 * (32 - len)) dw)
    :: benv7 bp len dw.
Definition benv_sd (bp len dw : Z) : env :=
  ("%10"%string, wrap (bnum_val len dw true)) :: ("%9"%string, w_shr (8 * (32 - len)) dw) :: ("%8"%string, w_sub len (wrap 1))
    :: benv7 bp len dw.

Ltac bhstep := cbn [mvsl mvstep vstep vval lookup String.eqb Ascii.eqb Bool.eqb px ev2 app v_bload].

Section VHead.
  Variables (mem : Z -> Z) (bp len dw : Z).
  Hypothesis Hlen : mem bp = len.
  Hypothesis Hdw : mem (w_add bp (wrap 32)) = dw.
  Hypothesis Rlen : 0 <= len <= 32.
  Hypothesis Rdw : uword dw.

  Lemma vbhead_u_eval : mvsl mem [("%1"%string, bp)] v_bhead_u = VOk (benv_u bp len dw).
  Proof.
    unfold v_bhead_u, benv_u, benv7. bhstep. rewrite Hlen. bhstep. rewrite Hdw. bhstep. rewrite shift_word' by exact Rlen.
    rewrite <- (bnum_word len dw Rlen Rdw false). reflexivity.
  Qed.
  Lemma vbhead_si_eval : mvsl mem [("%1"%string, bp)] v_bhead_si = VOk (benv_si bp len dw).
  Proof.
    unfold v_bhead_si, benv_si, benv7. bhstep. rewrite Hlen. bhstep. rewrite Hdw. bhstep. rewrite shift_word' by exact Rlen.
    rewrite <- (bnum_word len dw Rlen Rdw true). reflexivity.
  Qed.
  Lemma vbhead_sd_eval : mvsl mem [("%1"%string, bp)] v_bhead_sd = VOk (benv_sd bp len dw).
  Proof.
    unfold v_bhead_sd, benv_sd, benv7. bhstep. rewrite Hlen. bhstep. rewrite Hdw. bhstep. rewrite shift_word' by exact Rlen.
    rewrite <- (bnum_word len dw Rlen Rdw true). reflexivity.
  Qed.
End VHead.

Ltac b8step := cbn [vsl vstep vval lookup benv7 benv_u benv_si benv_sd String.eqb Ascii.eqb Bool.eqb ev1 ev2 v_clamp pn Nat.add nsigned nbytes mvsl mvstep].

Theorem vbconvert_exact N Tout (is_str : bool) mem bp len dw :
  bconv_allowed is_str N Tout = true -> cty_ok Tout -> 0 <= len <= N ->
  mem bp = len -> mem (w_add bp (wrap 32)) = dw -> uword dw ->
  mvrun mem [("%1"%string, bp)] (v_bconvert N Tout) = c_enc_out Tout (conv_spec (blen_ty len) Tout (bval len dw)).
Proof.
  intros Al OkO Hl Hlen Hdw Rdw. pose proof W_val. pose proof HALF_val.
  unfold bconv_allowed in Al. apply andb_true_iff in Al. destruct Al as [HN Al]. assert (RN : 1 <= N <= 32) by lia.
  assert (Rlen : 0 <= len <= 32) by lia.
  pose proof (bval_range len dw Rlen Rdw) as Rv.
  set (v := bval len dw) in *.
  set (l' := Z.max 1 len). assert (Hl' : 1 <= l' <= 32) by (unfold l'; lia).
  assert (Rv' : 0 <= v < 2 ^ (8 * l')).
  { destruct (Z.eq_dec len 0) as [E0|N0]; [unfold v; rewrite E0, bval_0 by exact Rdw; split; [lia | apply Z.pow_pos_nonneg; lia]
                                          | unfold l'; replace (Z.max 1 len) with len by lia; exact Rv]. }
  assert (NUM : forall (sg : bool), bnum_val len dw sg = (if sg then sbytes l' v else v)) by (intros [|]; reflexivity).
  pose proof (sbytes_range l' v Hl' ltac:(lia)) as SR. pose proof (Hb_pos l' ltac:(lia)). pose proof (Hb_le_HALF l' Hl').
  assert (HBl : 2 ^ (8 * l') = 2 * Hb l') by (apply pow8k; lia).
  assert (LN : l' <= N) by (unfold l'; lia).
  unfold blen_ty. fold l'. unfold conv_spec, mvrun.
  destruct Tout as [T| | |M|n]; cbn [v_bconvert signed_target fst snd] in *.
  - cbn in OkO. destruct is_str; [discriminate Al|].
    destruct (ndec T) eqn:D.
    + pose proof (dec_is_decimal_t T OkO D). subst T.
      change (c_chk (CNum decimal_t) (sbytes l' v)) with (chk decimal_t (sbytes l' v)). change (c_enc_out (CNum decimal_t)) with enc_out.
      cbn [fst snd]. rewrite mvsl_app, (vbhead_sd_eval mem bp len dw Hlen Hdw Rlen Rdw). unfold benv_sd. rewrite (NUM true).
      assert (Fr : sword (sbytes l' v)) by (unfold sword, MINS, MAXS; lia).
      rewrite enc_out_chk.
      destruct (Z.ltb_spec 168 (8 * N)).
      * rewrite mvsl_MV. unfold decimal_t. b8step.
        rewrite (vclamp_s_val 21 true (wrap (sbytes l' v))) by (try lia; apply wrap_range).
        rewrite b2z_eq0, (ts_wrap _ Fr). destruct (in_rangeb _ (sbytes l' v)); reflexivity.
      * b8step. replace (in_rangeb _ _) with true; [reflexivity|]. symmetry. apply in_rangeb_iff.
        unfold in_range. destruct dec_bounds as [-> ->]. pose proof (Hb_mono l' 21 ltac:(lia)). rewrite Hb_21 in *. lia.
    + change (c_chk (CNum T) (if nsigned T then sbytes l' v else v)) with (chk T (if nsigned T then sbytes l' v else v)).
      change (c_enc_out (CNum T)) with enc_out.
      destruct T as [k s d]. destruct OkO as [Hk _]. cbn [nbytes nsigned ndec] in *. subst d. unfold nbits. cbn [nbytes nsigned].
      pose proof (Hb_pos k ltac:(lia)). rewrite enc_out_chk.
      destruct s; cbn [fst snd].
      * set (r := sbytes l' v) in *.
        assert (Fr : sword r) by (unfold sword, MINS, MAXS; lia).
        rewrite mvsl_app, (vbhead_si_eval mem bp len dw Hlen Hdw Rlen Rdw). unfold benv_si. rewrite (NUM true). fold r.
        destruct (Z.ltb_spec (8 * k) (8 * N)).
        -- rewrite mvsl_MV. b8step. rewrite (vclamp_s_val k false (wrap r)) by (try lia; apply wrap_range).
           rewrite b2z_eq0, (ts_wrap _ Fr). destruct (in_rangeb _ r); reflexivity.
        -- b8step. replace (in_rangeb _ r) with true; [reflexivity|]. symmetry. apply in_rangeb_iff.
           unfold in_range. pose proof (Hb_mono l' k ltac:(lia)). rewrite ty_lo_s, ty_hi_s. lia.
      * rewrite mvsl_app, (vbhead_u_eval mem bp len dw Hlen Hdw Rlen Rdw). unfold benv_u. rewrite (NUM false).
        assert (Fr : uword v) by (unfold uword; lia).
        destruct (Z.ltb_spec (8 * k) (8 * N)).
        -- rewrite mvsl_MV. b8step. rewrite (vclamp_u_val k false (wrap v)) by (try lia; apply wrap_range).
           rewrite b2z_eq0, (wrap_small v) by exact Fr. destruct (in_rangeb _ v); reflexivity.
        -- b8step. replace (in_rangeb _ v) with true; [reflexivity|]. symmetry. apply in_rangeb_iff.
           unfold in_range. pose proof (Hb_mono l' k ltac:(lia)). rewrite ty_lo_u, ty_hi_u by lia. lia.
  - rewrite mvsl_app, (vbhead_u_eval mem bp len dw Hlen Hdw Rlen Rdw). unfold benv_u. rewrite (NUM false).
    b8step. cbn [c_enc_out c_enc]. f_equal.
    unfold w_iszero at 2. rewrite w_iszero_b2z. pose proof (pow2_le_W (8 * l') ltac:(lia)).
    rewrite wrap_eqb0 by lia. destruct (v =? 0); reflexivity.
  - destruct is_str; [discriminate Al|].
    rewrite mvsl_app, (vbhead_u_eval mem bp len dw Hlen Hdw Rlen Rdw). unfold benv_u. rewrite (NUM false).
    assert (P160 : 2 ^ 160 = 1461501637330902918203684832716283019655932542976) by reflexivity.
    unfold c_chk, c_in_rangeb. cbn [c_lo c_hi c_enc_out c_enc]. pose proof (pow2_le_W (8 * l') ltac:(lia)).
    destruct (Z.ltb_spec 160 (8 * N)).
    + rewrite mvsl_MV. unfold uint160_t. b8step.
      rewrite (vclamp_u_val 20 false (wrap v)) by (try lia; apply wrap_range). rewrite b2z_eq0.
      unfold in_rangeb. rewrite ty_lo_u, ty_hi_u by lia. change (2 * Hb 20) with (2 ^ 160). rewrite !wrap_small by lia.
      bsolve; cbn [c_enc_out c_enc]; rewrite ?wrap_small by lia; reflexivity.
    + b8step. assert (Hb l' <= Hb 20) by (apply Hb_mono; lia). change (Hb 20) with (2 ^ 159) in *.
      assert (2 ^ 160 = 2 * 2 ^ 159) by reflexivity. bsolve; cbn [c_enc_out c_enc]; reflexivity.
  - cbn in OkO. destruct is_str; [discriminate Al|]. assert (NM : N <= M) by lia.
    replace (l' <=? M) with true by lia. cbn [c_enc_out c_enc].
    rewrite mvsl_app, (vbhead_u_eval mem bp len dw Hlen Hdw Rlen Rdw). unfold benv_u. rewrite (NUM false).
    b8step. f_equal. pose proof (pow2_le_W (8 * l') ltac:(lia)). rewrite wrap_small by lia.
    unfold w_shl. destruct (Z.ltb_spec (8 * (32 - len)) 256).
    + assert (len <> 0) by lia. unfold l' in *. replace (Z.max 1 len) with len in * by lia.
      assert (P : 0 < 2 ^ (8 * (32 - len))) by (apply Z.pow_pos_nonneg; lia).
      assert (HW : W = 2 ^ (8 * (32 - len)) * 2 ^ (8 * len)) by (rewrite (W_split (8 * (32 - len))) by lia; f_equal; f_equal; lia).
      rewrite Z.mod_small by nia. rewrite <- Z.mul_assoc, <- Z.pow_add_r by lia. f_equal. f_equal. lia.
    + assert (E0 : len = 0) by lia. unfold v. rewrite E0, bval_0 by exact Rdw. reflexivity.
  - destruct is_str; discriminate Al.
Qed.
