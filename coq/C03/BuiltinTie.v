(* Gen-independent definitions for the O-tie of the builtin family (BuiltinExact.v) and of the flag conversions with
   1..256 members; the general theorems "tied template => exact" used by PropsBuiltins.v. *)
From Coq Require Import ZArith Bool List String Lia.
From Verif Require Import Base.Word256 Base.WordLemmas C03.LIR C03.VSL C03.ArithSpec C03.WordArith C03.TypeLemmas C03.TieBase C03.VSubst
  C03.LegacyExact C03.ConvSpec C03.ConvExact C03.PowExact C03.UnsafeExact C03.ConvTie C03.BuiltinExact.
Import ListNotations.
Open Scope Z_scope.

(* ---------------- operands of a shape: None = the variable x / y / z (%1 / %2 / %3), Some v = the literal v ---------------- *)
Definition lname (i : nat) : string := nth i ["x"%string; "y"%string; "z"%string] ""%string.
Definition pname (i : nat) : string := nth i ["%1"%string; "%2"%string; "%3"%string] ""%string.
Definition lopd (i : nat) (l : option Z) : lir := match l with None => LVar (lname i) | Some v => LInt v end.
Fixpoint lopds (i : nat) (ls : list (option Z)) : list lir :=
  match ls with [] => [] | l :: r => lopd i l :: lopds (S i) r end.
Fixpoint vsubs (i : nat) (ls : list (option Z)) (t : vtemplate) : vtemplate :=
  match ls with [] => t | None :: r => vsubs (S i) r t | Some v :: r => vsubs (S i) r (vsub (pname i) v t) end.
Definition arity (f : bfn) : nat :=
  match f with BShift _ _ | BPowMod => 2 | BAbs | BInvert _ => 1 | BAddmod | BMulmod => 3 end%nat.

Definition btie_l (p : bfn * list (option Z) * lir) : bool :=
  match p with (f, ls, t) =>
    b_okb f && match m_builtin f (lopds 0 ls) with Some m => lir_eqb t m | None => false end end.
Definition btie_v (p : bfn * list (option Z) * vtemplate) : bool :=
  match p with (f, ls, t) =>
    b_okb f && Nat.eqb (List.length ls) (arity f) && vtemplate_eqb t (vsubs 0 ls (v_builtin f)) end.

(* the operand values agree with the literals of the shape *)
Fixpoint agree (ls : list (option Z)) (vs : list Z) : Prop :=
  match ls, vs with
  | [], [] => True
  | l :: r, v :: w => match l with None => True | Some c => c = v end /\ agree r w
  | _, _ => False
  end.
Definition lenv (vs : list Z) : env :=
  match vs with
  | [a] => [("x"%string, wrap a)]
  | [a; b] => [("x"%string, wrap a); ("y"%string, wrap b)]
  | [a; b; c] => [("x"%string, wrap a); ("y"%string, wrap b); ("z"%string, wrap c)]
  | _ => []
  end.
Definition venv (vs : list Z) : env :=
  match vs with
  | [a] => benv1 a | [a; b] => benv2 a b | [a; b; c] => benv3 a b c | _ => []
  end.

Lemma uwordb_iff v : uwordb v = true <-> uword v.
Proof. unfold uwordb, uword. lia. Qed.

Ltac opd_solve :=
  match goal with
  | |- leval _ (lopd _ ?l) = _ => destruct l; cbn [lopd lname nth leval lookup String.eqb Ascii.eqb Bool.eqb]; try congruence; reflexivity
  end.

(* ---------------- legacy: a tied template is exact ---------------- *)
Theorem builtin_exact_legacy f ls t vs : btie_l (f, ls, t) = true -> agree ls vs -> b_domb f vs = true ->
  leval (lenv vs) t = enc_out (b_spec f vs).
Proof.
  intros Tie Ag Dom. unfold btie_l in Tie. apply andb_true_iff in Tie. destruct Tie as [Ok Tie].
  destruct (m_builtin f (lopds 0 ls)) as [m|] eqn:M; [|discriminate Tie]. apply lir_eqb_eq in Tie. subst t.
  destruct f as [sx Tb| | | | |T]; cbn [b_domb] in Dom.
  - destruct vs as [|x [|n [|? ?]]]; try discriminate Dom.
    destruct ls as [|l0 [|l1 [|? ?]]]; cbn [agree] in Ag; try contradiction; cbn [lopds m_builtin] in M; try discriminate M.
    injection M as <-. destruct Ag as [A0 [A1 _]].
    apply andb_true_iff in Dom. destruct Dom as [Hx Hn].
    cbn [b_okb] in Ok. apply andb_true_iff in Ok. destruct Ok as [OkB _]. apply ty_okb_ok in OkB.
    apply in_rangeb_iff in Hx. apply in_rangeb_iff in Hn.
    cbn [b_spec enc_out lenv]. apply (shift_exact sx Tb); try assumption; opd_solve.
  - destruct vs as [|x [|? ?]]; try discriminate Dom.
    destruct ls as [|l0 [|? ?]]; cbn [agree] in Ag; try contradiction; cbn [lopds m_builtin] in M; try discriminate M.
    injection M as <-. destruct Ag as [A0 _]. apply swordb_iff in Dom. cbn [b_spec lenv].
    apply abs_exact; [exact Dom | opd_solve].
  - destruct vs as [|a [|b [|c [|? ?]]]]; try discriminate Dom.
    destruct ls as [|l0 [|l1 [|l2 [|? ?]]]]; cbn [agree] in Ag; try contradiction; cbn [lopds m_builtin] in M; try discriminate M.
    injection M as <-. destruct Ag as [A0 [A1 [A2 _]]].
    apply andb_true_iff in Dom. destruct Dom as [Dom Hc]. apply andb_true_iff in Dom. destruct Dom as [Ha Hb].
    apply uwordb_iff in Ha. apply uwordb_iff in Hb. apply uwordb_iff in Hc. cbn [b_spec lenv].
    apply (modop_exact OAddmod); try assumption; try discriminate; opd_solve.
  - destruct vs as [|a [|b [|c [|? ?]]]]; try discriminate Dom.
    destruct ls as [|l0 [|l1 [|l2 [|? ?]]]]; cbn [agree] in Ag; try contradiction; cbn [lopds m_builtin] in M; try discriminate M.
    injection M as <-. destruct Ag as [A0 [A1 [A2 _]]].
    apply andb_true_iff in Dom. destruct Dom as [Dom Hc]. apply andb_true_iff in Dom. destruct Dom as [Ha Hb].
    apply uwordb_iff in Ha. apply uwordb_iff in Hb. apply uwordb_iff in Hc. cbn [b_spec lenv].
    apply (modop_exact OMulmod); try assumption; try discriminate; opd_solve.
  - destruct vs as [|a [|b [|? ?]]]; try discriminate Dom.
    destruct ls as [|l0 [|l1 [|? ?]]]; cbn [agree] in Ag; try contradiction; cbn [lopds m_builtin] in M; try discriminate M.
    injection M as <-. destruct Ag as [A0 [A1 _]].
    apply andb_true_iff in Dom. destruct Dom as [Ha Hb]. apply uwordb_iff in Ha. apply uwordb_iff in Hb.
    cbn [b_spec enc_out lenv]. apply powmod_exact; try assumption; opd_solve.
  - destruct vs as [|x [|? ?]]; try discriminate Dom.
    destruct ls as [|l0 [|? ?]]; cbn [agree] in Ag; try contradiction; cbn [lopds m_builtin] in M; try discriminate M.
    injection M as <-. destruct Ag as [A0 _]. cbn [b_okb] in Ok.
    assert (Hx : c_in_range T x) by (unfold c_in_rangeb in Dom; unfold c_in_range; lia).
    cbn [b_spec enc_out lenv]. apply invert_exact; try assumption; opd_solve.
Qed.

(* ---------------- Venom: literal operands are substitutions of never-written parameters ---------------- *)
Lemma vout_sub s v i : vout (vsub_instr s v i) = vout i.
Proof. destruct i; reflexivity. Qed.
Lemma no_write_sub s s' v l : no_write s (map (vsub_instr s' v) l) = no_write s l.
Proof. induction l as [|i l IH]; [reflexivity|]. cbn [map no_write forallb]. rewrite vout_sub. unfold no_write in IH. rewrite IH. reflexivity. Qed.

Lemma vrun_vsubs e : forall ls i t vs,
  agree ls vs ->
  (forall j l v, nth_error ls j = Some (Some l) -> nth_error vs j = Some v -> lookup e (pname (i + j)) = Some (wrap v)) ->
  (forall j, (j < List.length ls)%nat -> no_write (pname (i + j)) (fst t) = true) ->
  vrun e (vsubs i ls t) = vrun e t.
Proof.
  induction ls as [|l r IH]; intros i t vs Ag Lk Nw; [reflexivity|].
  destruct vs as [|v w]; [destruct l; contradiction|]. cbn [agree] in Ag. destruct Ag as [A0 Ag].
  assert (Lk' : forall j l0 v0, nth_error r j = Some (Some l0) -> nth_error w j = Some v0 ->
                lookup e (pname (S i + j)) = Some (wrap v0)).
  { intros j l0 v0 H1 H2. replace (S i + j)%nat with (i + S j)%nat by lia. exact (Lk (S j) l0 v0 H1 H2). }
  destruct l as [c|]; cbn [vsubs].
  - subst c. rewrite (IH (S i) (vsub (pname i) v t) w Ag Lk').
    + apply vrun_sub.
      * replace i with (i + 0)%nat by lia. exact (Lk 0%nat v v eq_refl eq_refl).
      * replace i with (i + 0)%nat by lia. apply Nw. cbn. lia.
    + intros j Hj. unfold vsub. cbn [fst]. rewrite no_write_sub.
      replace (S i + j)%nat with (i + S j)%nat by lia. apply Nw. cbn. lia.
  - apply (IH (S i) t w Ag Lk'). intros j Hj. replace (S i + j)%nat with (i + S j)%nat by lia. apply Nw. cbn. lia.
Qed.

Lemma params_not_written f j : (j < arity f)%nat -> no_write (pname j) (fst (v_builtin f)) = true.
Proof.
  intros H. destruct f as [sx Tb| | | | |T]; cbn [arity] in H.
  - destruct j as [|[|j]]; [| |lia]; cbn [v_builtin]; destruct sx, (nsigned Tb); reflexivity.
  - destruct j as [|j]; [reflexivity | lia].
  - destruct j as [|[|[|j]]]; try lia; reflexivity.
  - destruct j as [|[|[|j]]]; try lia; reflexivity.
  - destruct j as [|[|j]]; [| |lia]; reflexivity.
  - destruct j as [|j]; [|lia]. destruct T; reflexivity.
Qed.

Lemma dom_len f vs : b_domb f vs = true -> List.length vs = arity f.
Proof.
  intros D. destruct f; cbn [b_domb] in D; destruct vs as [|a [|b [|c [|d r]]]]; try discriminate D; reflexivity.
Qed.
Lemma venv_lookup vs j v : (1 <= List.length vs <= 3)%nat -> nth_error vs j = Some v ->
  lookup (venv vs) (pname j) = Some (wrap v).
Proof.
  intros L H. assert (J : (j < List.length vs)%nat) by (apply nth_error_Some; congruence).
  destruct vs as [|a [|b [|c [|d r]]]]; cbn [List.length] in *; try lia;
    destruct j as [|[|[|j]]]; try lia; cbn [nth_error] in H; injection H as <-; reflexivity.
Qed.

Theorem builtin_exact_venom f ls t vs : btie_v (f, ls, t) = true -> agree ls vs -> b_domb f vs = true ->
  vrun (venv vs) t = enc_out (b_spec f vs).
Proof.
  intros Tie Ag Dom. unfold btie_v in Tie. apply andb_true_iff in Tie. destruct Tie as [Tie E].
  apply andb_true_iff in Tie. destruct Tie as [Ok Len]. apply Nat.eqb_eq in Len. apply vtemplate_eqb_eq in E. subst t.
  assert (SUB : vrun (venv vs) (vsubs 0 ls (v_builtin f)) = vrun (venv vs) (v_builtin f)).
  { apply (vrun_vsubs (venv vs) ls 0%nat (v_builtin f) vs Ag).
    - intros j l v H1 H2. cbn [Nat.add]. apply venv_lookup; [|exact H2].
      rewrite (dom_len f vs Dom). destruct f; cbn; lia.
    - intros j Hj. cbn [Nat.add]. apply params_not_written. lia. }
  rewrite SUB. clear SUB Ag Len ls.
  destruct f as [sx Tb| | | | |T]; cbn [b_domb] in Dom.
  - destruct vs as [|x [|n [|? ?]]]; try discriminate Dom.
    apply andb_true_iff in Dom. destruct Dom as [Hx Hn].
    cbn [b_okb] in Ok. apply andb_true_iff in Ok. destruct Ok as [OkB _]. apply ty_okb_ok in OkB.
    apply in_rangeb_iff in Hx. apply in_rangeb_iff in Hn.
    cbn [b_spec enc_out venv v_builtin]. apply (vshift_exact sx Tb); assumption.
  - destruct vs as [|x [|? ?]]; try discriminate Dom. apply swordb_iff in Dom. cbn [b_spec venv v_builtin].
    apply vabs_exact. exact Dom.
  - destruct vs as [|a [|b [|c [|? ?]]]]; try discriminate Dom.
    apply andb_true_iff in Dom. destruct Dom as [Dom Hc]. apply andb_true_iff in Dom. destruct Dom as [Ha Hb].
    apply uwordb_iff in Ha. apply uwordb_iff in Hb. apply uwordb_iff in Hc. cbn [b_spec venv v_builtin].
    apply (vmodop_exact OAddmod); try assumption; discriminate.
  - destruct vs as [|a [|b [|c [|? ?]]]]; try discriminate Dom.
    apply andb_true_iff in Dom. destruct Dom as [Dom Hc]. apply andb_true_iff in Dom. destruct Dom as [Ha Hb].
    apply uwordb_iff in Ha. apply uwordb_iff in Hb. apply uwordb_iff in Hc. cbn [b_spec venv v_builtin].
    apply (vmodop_exact OMulmod); try assumption; discriminate.
  - destruct vs as [|a [|b [|? ?]]]; try discriminate Dom.
    apply andb_true_iff in Dom. destruct Dom as [Ha Hb]. apply uwordb_iff in Ha. apply uwordb_iff in Hb.
    cbn [b_spec enc_out venv v_builtin]. apply vpowmod_exact; assumption.
  - destruct vs as [|x [|? ?]]; try discriminate Dom. cbn [b_okb] in Ok.
    assert (Hx : c_in_range T x) by (unfold c_in_rangeb in Dom; unfold c_in_range; lia).
    cbn [b_spec enc_out venv v_builtin]. apply vinvert_exact; assumption.
Qed.

(* ---------------- an evaluable form of the spec (no astronomically large powers) ---------------- *)
(* shift by |n| >= 256 *)
Corollary shift_large sx x n : in_range (int_t sx) x ->
  (256 <= n -> shift_spec sx x n = 0) /\ (n <= -256 -> shift_spec sx x n = if x <? 0 then -1 else 0).
Proof.
  intros Hx. pose proof W_val. pose proof HALF_val. split; intros Hn; unfold shift_spec.
  - replace (n <? 0) with false by lia. unfold twrap, int_t, nbits. cbn [nbytes nsigned]. change (2 ^ (8 * 32)) with W.
    destruct (W_div_pow n Hn) as [c E]. rewrite E, Z.mul_assoc, Z.mod_mul by lia.
    replace (2 ^ (8 * 32 - 1) <=? 0) with false by (change (2 ^ (8 * 32 - 1)) with HALF; lia). rewrite andb_false_r. reflexivity.
  - replace (n <? 0) with true by lia.
    assert (Rx : - HALF <= x < W).
    { unfold in_range, int_t in Hx. destruct sx; [rewrite ty_lo_s, ty_hi_s in Hx | rewrite ty_lo_u, ty_hi_u in Hx by lia];
        change (Hb 32) with HALF in Hx; lia. }
    destruct (W_div_pow (- n) ltac:(lia)) as [c E]. assert (P : 0 < 2 ^ (- n)) by (apply Z.pow_pos_nonneg; lia).
    assert (1 <= c) by nia. destruct (Z.ltb_spec x 0).
    + symmetry. apply Z.div_unique with (r := x + 2 ^ (- n)); nia.
    + apply Z.div_small. nia.
Qed.

Definition shift_safe (sx : bool) (x n : Z) : Z :=
  if n <? 0 then (if n <=? -256 then (if x <? 0 then -1 else 0) else x / 2 ^ (- n))
  else if 256 <=? n then 0 else twrap (int_t sx) (x * 2 ^ n).
Definition b_spec_safe (f : bfn) (vs : list Z) : outcome :=
  match f, vs with
  | BShift sx _, [x; n] => Val (shift_safe sx x n)
  | BPowMod, [a; b] => Val (powmod a b W)
  | _, _ => b_spec f vs
  end.
Lemma b_spec_safe_eq f vs : b_domb f vs = true -> b_spec_safe f vs = b_spec f vs.
Proof.
  intros Dom. destruct f as [sx Tb| | | | |T]; try reflexivity; cbn [b_domb] in Dom.
  - destruct vs as [|x [|n [|? ?]]]; try discriminate Dom. cbn [b_spec_safe b_spec]. f_equal.
    apply andb_true_iff in Dom. destruct Dom as [Hx _].
    apply in_rangeb_iff in Hx. destruct (shift_large sx x n Hx) as [L1 L2]. unfold shift_safe.
    destruct (Z.ltb_spec n 0).
    + destruct (Z.leb_spec n (-256)); [rewrite L2 by lia; reflexivity | unfold shift_spec; replace (n <? 0) with true by lia; reflexivity].
    + destruct (Z.leb_spec 256 n); [rewrite L1 by lia; reflexivity | unfold shift_spec; replace (n <? 0) with false by lia; reflexivity].
  - destruct vs as [|a [|b [|? ?]]]; try discriminate Dom. cbn [b_spec_safe b_spec]. f_equal.
    apply andb_true_iff in Dom. destruct Dom as [_ Hb]. apply uwordb_iff in Hb. unfold uword in Hb.
    change (powmod a b W) with (w_exp a b). rewrite w_exp_eq by lia. reflexivity.
Qed.

(* ---------------- the expected family ---------------- *)
Definition blit (s : bool) : list Z :=
  if s then [MINS; -256; -255; -1; 0; 1; 7; 255; 256; MAXS] else [0; 1; 7; 255; 256; HALF; MAXU].
Definition one_lit (n pos : nat) (v : Z) : list (option Z) :=
  map (fun i => if Nat.eqb i pos then Some v else None) (seq 0 n).
Definition bkeys : list (bfn * list (option Z)) :=
  flat_map (fun sx =>
      map (fun T => (BShift sx T, [None; None])) int_types
      ++ flat_map (fun s => map (fun l => (BShift sx (int_t s), [None; Some l])) (blit s)) [false; true]
      ++ map (fun l => (BShift sx (int_t true), [Some l; None])) (blit sx)) [false; true]
  ++ (BAbs, [None]) :: map (fun l => (BAbs, [Some l])) (blit true)
  ++ flat_map (fun f => (f, [None; None; None]) :: flat_map (fun pos => map (fun l => (f, one_lit 3 pos l)) (blit false)) (seq 0 3))
              [BAddmod; BMulmod]
  ++ (BPowMod, [None; None]) :: flat_map (fun pos => map (fun l => (BPowMod, one_lit 2 pos l)) (blit false)) (seq 0 2)
  ++ (BInvert (CNum uint256_t), [None]) :: (BInvert (CBytes 32), [None])
     :: map (fun n => (BInvert (CFlag (Z.of_nat n)), [None])) (seq 1 256).

Definition bfn_eqb (a b : bfn) : bool :=
  match a, b with
  | BShift s T, BShift s' T' => Bool.eqb s s' && nty_eqb T T'
  | BAbs, BAbs | BAddmod, BAddmod | BMulmod, BMulmod | BPowMod, BPowMod => true
  | BInvert T, BInvert T' => cty_eqb T T'
  | _, _ => false
  end.
Definition olit_eqb (a b : option Z) : bool :=
  match a, b with None, None => true | Some x, Some y => x =? y | _, _ => false end.
Fixpoint olits_eqb (a b : list (option Z)) : bool :=
  match a, b with [], [] => true | x :: r, y :: s => olit_eqb x y && olits_eqb r s | _, _ => false end.
Fixpoint bkeys_eqb' (l m : list (bfn * list (option Z))) : bool :=
  match l, m with
  | [], [] => true
  | (f, a) :: l', (g, b) :: m' => bfn_eqb f g && olits_eqb a b && bkeys_eqb' l' m'
  | _, _ => false
  end.

(* flags with 1..256 members against a fixed set of partner types (both directions) *)
Definition flag_partners : list cty :=
  [CNum uint256_t; CNum (Build_nty 32 true false); CNum (Build_nty 16 false false); CNum decimal_t; CBool; CAddr; CBytes 32; CBytes 4].
Definition flag_pairs : list (cty * cty) :=
  flat_map (fun n => flat_map (fun T => filter (fun p => conv_allowed (fst p) (snd p))
                                               [(CFlag (Z.of_nat n), T); (T, CFlag (Z.of_nat n))]) flag_partners) (seq 1 256).
