(* safe_pow: x ** y with a literal base or a literal exponent (both front ends).
   Models, the bound-correctness criteria checked by computation in the tie, and exactness.
   The bounds in the real templates come from calculate_largest_power / calculate_largest_base; their
   correctness for ALL literals is C20's largest_power_total / largest_base_total (under the validated
   hypothesis on the Decimal initial guess).  Here: for every exported template the bound is re-checked by the
   kernel (pow_bound_okb / base_bounds_okb, two/four exponentiations) and the lemmas below turn that check into
   the universally quantified statement the exactness proof needs. *)
From Coq Require Import ZArith Zpow_facts Bool List Lia ZifyBool String.
From Verif Require Import Base.Word256 Base.WordLemmas C03.LIR C03.VSL C03.ArithSpec C03.WordArith C03.TypeLemmas
  C03.ArithModel C03.LegacyExact C03.VenomExact.
Import ListNotations.
Open Scope Z_scope.
Open Scope list_scope.

(* ---------------- models ---------------- *)
Definition special_base (a : Z) : bool := (a =? -1) || (a =? 0) || (a =? 1).
Definition special_exp (b : Z) : bool := (b =? 0) || (b =? 1).

(* arithmetic.safe_pow, literal base a, exponent in variable y; r = calculate_largest_power a bits signed *)
Definition m_pow_base (T : nty) (a r : Z) : lir :=
  let ok := if special_base a then L2 (if nsigned T then OSge else OGe) vy (LInt 0) else L2 OLe vy (LInt r) in
  LSeq (LAssert ok) (L2 OExp (LInt a) vy).
(* literal exponent b, base in variable x; (lo, hi) = calculate_largest_base b bits signed *)
Definition m_pow_exp (T : nty) (b lo hi : Z) : lir :=
  let ok := if special_exp b then LInt 1
            else if nsigned T then L2 OAnd (L2 OSge vx (LInt lo)) (L2 OSle vx (LInt hi)) else L2 OLe vx (LInt hi) in
  LSeq (LAssert ok) (L2 OExp vx (LInt b)).

(* codegen_venom safe_pow; x = %1, y = %2 *)
Definition v_pow_base (T : nty) (a r : Z) : vtemplate :=
  if special_base a then
    (if nsigned T
     then ([ V2 "%3" OSlt (VLit 0) py; V1 "%4" OIszero (VVar "%3"); VAssert (VVar "%4"); V2 "%5" OExp py (VLit a) ], VVar "%5")
     else ([ VAssert (VLit 1); V2 "%3" OExp py (VLit a) ], VVar "%3"))
  else ([ V2 "%3" OGt (VLit r) py; V1 "%4" OIszero (VVar "%3"); VAssert (VVar "%4"); V2 "%5" OExp py (VLit a) ], VVar "%5").
Definition v_pow_exp (T : nty) (b lo hi : Z) : vtemplate :=
  if special_exp b then ([ VAssert (VLit 1); V2 "%3" OExp (VLit b) px ], VVar "%3")
  else if nsigned T then
    ([ V2 "%3" OSlt (VLit lo) px; V1 "%4" OIszero (VVar "%3"); V2 "%5" OSgt (VLit hi) px; V1 "%6" OIszero (VVar "%5");
       V2 "%7" OAnd (VVar "%6") (VVar "%4"); VAssert (VVar "%7"); V2 "%8" OExp (VLit b) px ], VVar "%8")
  else ([ V2 "%3" OGt (VLit hi) px; V1 "%4" OIszero (VVar "%3"); VAssert (VVar "%4"); V2 "%5" OExp (VLit b) px ], VVar "%5").

(* ---------------- bound criteria (decidable, checked by vm_compute in the tie) ---------------- *)
Definition pow_bound_okb (T : nty) (a r : Z) : bool :=
  (2 <=? Z.abs a) && (0 <=? r) && (r <? 256) && in_rangeb T (a ^ r) && negb (in_rangeb T (a ^ (r + 1))).
Definition base_bounds_okb (T : nty) (b lo hi : Z) : bool :=
  in_rangeb T lo && in_rangeb T hi &&
  (2 <=? b) && (0 <=? hi) && in_rangeb T (hi ^ b) && negb (in_rangeb T ((hi + 1) ^ b)) &&
  (if nsigned T then (lo <=? 0) && in_rangeb T (lo ^ b) && negb (in_rangeb T ((lo - 1) ^ b)) else lo =? 0).

(* M = ty_hi T + 1: in_range T z  <->  (signed: -M <= z < M | unsigned: 0 <= z < M) *)
Lemma range_M T z : ty_ok T -> let M := ty_hi T + 1 in
  2 <= M /\ (in_range T z <-> (if nsigned T then - M <= z < M else 0 <= z < M)).
Proof.
  destruct T as [k s d]. intros [Hk _] M. cbn [nbytes nsigned] in *. subst M. pose proof (Hb_pos k ltac:(lia)).
  unfold in_range. destruct s; [rewrite ty_lo_s, ty_hi_s | rewrite ty_lo_u, ty_hi_u by lia]; split; lia.
Qed.

Lemma pow_bound_ok T a r : ty_ok T -> in_range T a -> pow_bound_okb T a r = true ->
  forall p, 0 <= p -> (in_range T (a ^ p) <-> p <= r).
Proof.
  intros OkT Ha B p Hp. unfold pow_bound_okb in B.
  repeat (apply andb_true_iff in B; destruct B as [B ?]).
  apply negb_true_iff in H. rename H into NF. rename H0 into F.
  assert (NF' : ~ in_range T (a ^ (r + 1))) by (rewrite <- in_rangeb_iff; congruence).
  apply in_rangeb_iff in F.
  set (M := ty_hi T + 1).
  assert (RM : forall z, 2 <= M /\ (in_range T z <-> (if nsigned T then - M <= z < M else 0 <= z < M)))
    by (intros z; apply range_M; exact OkT).
  destruct (RM 0) as [HM _].
  set (A := Z.abs a). assert (HA : 2 <= A) by (unfold A; lia).
  assert (ABS : forall q, Z.abs (a ^ q) = A ^ q) by (intros q; apply Z.abs_pow).
  assert (NN : nsigned T = false -> forall q, 0 <= q -> 0 <= a ^ q).
  { intros U q Hq. apply Z.pow_nonneg. apply (RM a) in Ha. rewrite U in Ha. lia. }
  assert (F1 : forall z, in_range T z -> Z.abs z <= M) by (intros z Hz; apply (RM z) in Hz; destruct (nsigned T); lia).
  assert (F2 : forall q, 0 <= q -> A ^ q < M -> in_range T (a ^ q)).
  { intros q Hq Hlt. apply (RM (a ^ q)). rewrite <- ABS in Hlt. destruct (nsigned T) eqn:SG; [lia|].
    pose proof (NN eq_refl q Hq). lia. }
  assert (Ar : A ^ r <= M) by (rewrite <- ABS; apply F1; exact F).
  assert (Ar1 : M <= A ^ (r + 1)).
  { destruct (Z_lt_dec (A ^ (r + 1)) M); [exfalso; apply NF'; apply F2; lia | lia]. }
  split.
  - intros Fp. destruct (Z_le_dec p r); [assumption | exfalso].
    destruct (Z.eq_dec p (r + 1)) as [->|]; [contradiction|].
    assert (A ^ (r + 2) <= A ^ p) by (apply Z.pow_le_mono_r; lia).
    assert (A ^ (r + 2) = A ^ (r + 1) * A) by (replace (r + 2) with (r + 1 + 1) by lia; rewrite Z.pow_add_r by lia; rewrite Z.pow_1_r; reflexivity).
    pose proof (F1 _ Fp) as Q. rewrite ABS in Q. nia.
  - intros Le. destruct (Z.eq_dec p r) as [->|]; [exact F|].
    apply F2; [exact Hp|].
    assert (A ^ p <= A ^ (r - 1)) by (apply Z.pow_le_mono_r; lia).
    assert (A ^ r = A ^ (r - 1) * A) by (replace r with (r - 1 + 1) at 1 by lia; rewrite Z.pow_add_r by lia; rewrite Z.pow_1_r; reflexivity).
    assert (0 < A ^ (r - 1)) by (apply Z.pow_pos_nonneg; lia). nia.
Qed.

Lemma base_bounds_ok T b lo hi : ty_ok T -> base_bounds_okb T b lo hi = true ->
  forall x, in_range T x -> (in_range T (x ^ b) <-> lo <= x <= hi).
Proof.
  intros OkT B x Hx. unfold base_bounds_okb in B.
  repeat (apply andb_true_iff in B; destruct B as [B ?]).
  rename H into SG. apply negb_true_iff in H0. rename H0 into NFh. rename H1 into Fh.
  assert (Hb2 : 2 <= b) by lia. assert (Hh : 0 <= hi) by lia.
  apply in_rangeb_iff in Fh.
  assert (NFh' : ~ in_range T ((hi + 1) ^ b)) by (rewrite <- in_rangeb_iff; congruence).
  set (M := ty_hi T + 1).
  assert (RM : forall z, 2 <= M /\ (in_range T z <-> (if nsigned T then - M <= z < M else 0 <= z < M)))
    by (intros z; apply range_M; exact OkT).
  destruct (RM 0) as [HM _].
  assert (Hhi : hi ^ b < M) by (apply (RM (hi ^ b)) in Fh; destruct (nsigned T); lia).
  assert (Hhi1 : M <= (hi + 1) ^ b).
  { destruct (Z_lt_dec ((hi + 1) ^ b) M); [exfalso; apply NFh'; apply (RM ((hi + 1) ^ b));
      assert (0 <= (hi + 1) ^ b) by (apply Z.pow_nonneg; lia); destruct (nsigned T); lia | lia]. }
  assert (POS : 0 <= x -> (in_range T (x ^ b) <-> x <= hi)).
  { intros Px. assert (0 <= x ^ b) by (apply Z.pow_nonneg; lia). split.
    - intros F. destruct (Z_le_dec x hi); [assumption | exfalso].
      assert ((hi + 1) ^ b <= x ^ b) by (apply Z.pow_le_mono_l; lia).
      apply (RM (x ^ b)) in F. destruct (nsigned T); lia.
    - intros Le. assert (x ^ b <= hi ^ b) by (apply Z.pow_le_mono_l; lia).
      apply (RM (x ^ b)). destruct (nsigned T); lia. }
  destruct (nsigned T) eqn:S.
  - (* signed *)
    repeat (apply andb_true_iff in SG; destruct SG as [SG ?]).
    apply negb_true_iff in H. rename H into NFl. rename H0 into Fl. apply in_rangeb_iff in Fl.
    assert (NFl' : ~ in_range T ((lo - 1) ^ b)) by (rewrite <- in_rangeb_iff; congruence).
    assert (Hl : lo <= 0) by lia.
    destruct (Z_le_dec 0 x) as [Px|Nx]; [rewrite (POS Px); lia|].
    (* negative x: compare |x| with |lo| through the parity of b *)
    set (u := - x). set (L := - lo). assert (0 < u) by (unfold u; lia). assert (0 <= L) by (unfold L; lia).
    replace x with (- u) by (unfold u; lia). replace lo with (- L) in * by (unfold L; lia).
    replace (- L - 1) with (- (L + 1)) in NFl' by lia.
    assert (MONO1 : u <= L -> u ^ b <= L ^ b) by (intros; apply Z.pow_le_mono_l; lia).
    assert (MONO2 : L + 1 <= u -> (L + 1) ^ b <= u ^ b) by (intros; apply Z.pow_le_mono_l; lia).
    assert (PU : 0 <= u ^ b) by (apply Z.pow_nonneg; lia).
    assert (PL : 0 <= L ^ b) by (apply Z.pow_nonneg; lia).
    assert (PL1 : 0 <= (L + 1) ^ b) by (apply Z.pow_nonneg; lia).
    destruct (Z.Even_or_Odd b) as [E|O].
    + rewrite Z.pow_opp_even in * by exact E.
      apply (RM (L ^ b)) in Fl. cbv iota in Fl.
      assert (M <= (L + 1) ^ b).
      { destruct (Z_lt_dec ((L + 1) ^ b) M); [exfalso; apply NFl'; apply (RM ((L + 1) ^ b)); cbv iota; lia | lia]. }
      split.
      * intros F. apply (RM (u ^ b)) in F. cbv iota in F.
        destruct (Z_le_dec u L); [lia | exfalso]. specialize (MONO2 ltac:(lia)). lia.
      * intros Le. apply (RM (u ^ b)). cbv iota. specialize (MONO1 ltac:(lia)). lia.
    + rewrite Z.pow_opp_odd in * by exact O.
      apply (RM (- L ^ b)) in Fl. cbv iota in Fl.
      assert (M < (L + 1) ^ b).
      { destruct (Z_le_dec ((L + 1) ^ b) M); [exfalso; apply NFl'; apply (RM (- (L + 1) ^ b)); cbv iota; lia | lia]. }
      split.
      * intros F. apply (RM (- u ^ b)) in F. cbv iota in F.
        destruct (Z_le_dec u L); [lia | exfalso]. specialize (MONO2 ltac:(lia)). lia.
      * intros Le. apply (RM (- u ^ b)). cbv iota. specialize (MONO1 ltac:(lia)). lia.
  - (* unsigned: x >= 0 *)
    apply Z.eqb_eq in SG. subst lo. apply (RM x) in Hx. cbv iota in Hx. rewrite (POS ltac:(lia)). lia.
Qed.

Lemma chk_val_pow T v : in_range T v -> chk T v = Val v.
Proof. intros H. unfold chk. apply in_rangeb_iff in H. rewrite H. reflexivity. Qed.
Lemma chk_rev_pow T v : ~ in_range T v -> chk T v = Revert.
Proof. intros H. unfold chk. destruct (in_rangeb T v) eqn:E; [apply in_rangeb_iff in E; contradiction | reflexivity]. Qed.

(* ---------------- exactness ---------------- *)
Lemma w_exp_wrap a y : 0 <= y < W -> w_exp (wrap a) (wrap y) = wrap (a ^ y).
Proof.
  intros Hy. rewrite (wrap_small y) by exact Hy. rewrite w_exp_eq by lia. unfold w_exp_spec, wrap.
  symmetry. apply Zpower_mod. pose proof W_val. lia.
Qed.

Lemma w_exp_wrap' a y : 0 <= y < W -> w_exp (wrap a) y = wrap (a ^ y).
Proof. intros Hy. rewrite <- (w_exp_wrap a y Hy). rewrite (wrap_small y) by exact Hy. reflexivity. Qed.

Lemma special_pow_range T a y : ty_ok T -> in_range T a -> special_base a = true -> 0 <= y -> in_range T (a ^ y).
Proof.
  intros OkT Ha S Hy. pose proof (range_M T a OkT) as [HM RA]. pose proof (range_M T (a ^ y) OkT) as [_ RY].
  apply RY. apply RA in Ha. unfold special_base in S.
  assert (Z.abs (a ^ y) = Z.abs a ^ y) by apply Z.abs_pow.
  assert (C : a = -1 \/ a = 0 \/ a = 1) by lia. destruct C as [-> | [-> | ->]].
  - change (Z.abs (-1)) with 1 in H. rewrite Z.pow_1_l in H by lia. destruct (nsigned T); lia.
  - destruct (Z.eq_dec y 0) as [->|]; [rewrite Z.pow_0_r | rewrite Z.pow_0_l by lia]; destruct (nsigned T); lia.
  - rewrite Z.pow_1_l by lia. destruct (nsigned T); lia.
Qed.

Lemma range_words T v : ty_ok T -> in_range T v -> fits256 (nsigned T) v.
Proof. destruct T as [k s d]. intros [Hk _] H. exact (in_range_fits k s d v Hk H). Qed.

Theorem pow_base_exact T a r y : ty_ok T -> in_range T a -> in_range T y ->
  (if special_base a then True else pow_bound_okb T a r = true) ->
  leval (env2 a y) (m_pow_base T a r) = enc_out (arith_spec T APow a y).
Proof.
  intros OkT Ha Hy B. pose proof W_val. pose proof HALF_val.
  pose proof (range_words T y OkT Hy) as Fy.
  assert (Wy : - HALF <= y < W) by (destruct (nsigned T); cbn in Fy; unfold sword, uword, MINS, MAXS in Fy; lia).
  unfold m_pow_base. cbn [arith_spec].
  assert (EXP : 0 <= y -> leval (env2 a y) (L2 OExp (LInt a) vy) = Val (wrap (a ^ y))).
  { intros P. lstep. unfold enc. f_equal. apply w_exp_wrap. lia. }
  destruct (special_base a) eqn:SB.
  - destruct (nsigned T) eqn:SG; cbn [fits256] in Fy.
    + lstep. unfold enc. unfold w_slt. rewrite (ts_wrap y Fy). change (to_signed (wrap 0)) with 0.
      rewrite w_iszero_b2z, b2z_eq0, negb_involutive.
      destruct (Z.ltb_spec y 0); [reflexivity|]. cbv iota.
      fold (enc y). change (LVar "y") with vy. change (Val (w_exp (wrap a) (enc y))) with (Val (ev2 OExp (wrap a) (enc y))).
      rewrite chk_val_pow; [|apply special_pow_range; assumption].
      cbn [ev2 enc_out]. unfold enc. f_equal. apply w_exp_wrap. lia.
    + unfold uword in Fy. lstep. unfold enc. unfold w_lt. rewrite (wrap_small y) by lia. change (wrap 0) with 0.
      rewrite w_iszero_b2z, b2z_eq0, negb_involutive.
      replace (y <? 0) with false by lia. cbv iota.
      rewrite chk_val_pow; [|apply special_pow_range; try assumption; lia].
      cbn [enc_out]. unfold enc. f_equal. rewrite <- (wrap_small y) at 1 by lia. apply w_exp_wrap. lia.
  - pose proof (pow_bound_ok T a r OkT Ha B) as PB.
    unfold pow_bound_okb in B. repeat (apply andb_true_iff in B; destruct B as [B ?]).
    lstep. unfold enc. unfold w_gt. rewrite (wrap_small r) by lia.
    rewrite w_iszero_b2z, b2z_eq0, negb_involutive. rewrite Z.gtb_ltb.
    destruct (Z.ltb_spec y 0) as [N|P].
    + rewrite wrap_neg by lia. replace (r <? y + W) with true by lia. reflexivity.
    + rewrite (wrap_small y) by lia.
      destruct (Z.ltb_spec r y) as [G|G]; cbv iota.
      * rewrite chk_rev_pow; [reflexivity|]. intros F. apply PB in F; lia.
      * rewrite chk_val_pow; [|apply PB; lia]. cbn [enc_out]. unfold enc. f_equal.
        rewrite <- (wrap_small y) at 1 by lia. apply w_exp_wrap. lia.
Qed.

Lemma base_bounds_parts T b lo hi : base_bounds_okb T b lo hi = true ->
  in_range T lo /\ in_range T hi /\ (nsigned T = false -> lo = 0).
Proof.
  unfold base_bounds_okb. intros H.
  destruct (in_rangeb T lo) eqn:E1; [|discriminate H]. destruct (in_rangeb T hi) eqn:E2; [|discriminate H].
  cbn [andb] in H. apply in_rangeb_iff in E1. apply in_rangeb_iff in E2. split; [exact E1|]. split; [exact E2|].
  intros S. rewrite S in H. apply andb_true_iff in H. destruct H as [_ H]. lia.
Qed.

Theorem pow_exp_exact T b lo hi x : ty_ok T -> in_range T x -> in_range T b -> 0 <= b ->
  (if special_exp b then True else base_bounds_okb T b lo hi = true) ->
  leval (env2 x b) (m_pow_exp T b lo hi) = enc_out (arith_spec T APow x b).
Proof.
  intros OkT Hx Hb Pb B. pose proof W_val. pose proof HALF_val.
  pose proof (range_words T x OkT Hx) as Fx. pose proof (range_words T b OkT Hb) as Fb.
  assert (Wb : 0 <= b < W) by (destruct (nsigned T); cbn in Fb; unfold sword, uword, MINS, MAXS in Fb; lia).
  unfold m_pow_exp. cbn [arith_spec]. replace (b <? 0) with false by lia.
  assert (EXP : leval (env2 x b) (L2 OExp vx (LInt b)) = Val (wrap (x ^ b))).
  { lstep. unfold enc. f_equal. apply w_exp_wrap. exact Wb. }
  destruct (special_exp b) eqn:SB.
  - cbn [leval]. change (wrap 1 =? 0) with false. cbv iota. cbn [leval] in EXP. rewrite EXP.
    rewrite chk_val_pow; [reflexivity|]. unfold special_exp in SB.
    assert (C : b = 0 \/ b = 1) by lia. destruct C as [-> | ->]; [rewrite Z.pow_0_r | rewrite Z.pow_1_r; exact Hx].
    pose proof (range_M T 1 OkT) as [HM R1]. apply R1. destruct (nsigned T); lia.
  - pose proof (base_bounds_ok T b lo hi OkT B x Hx) as BB.
    destruct (base_bounds_parts T b lo hi B) as [Rlo [Rhi L0]].
    pose proof (range_words T lo OkT Rlo) as Flo. pose proof (range_words T hi OkT Rhi) as Fhi.
    destruct (nsigned T) eqn:SG; cbn [fits256] in *.
    + cbn [leval]. cbn [leval] in EXP. rewrite EXP.
      lstep. unfold enc.
      unfold w_slt, w_sgt. rewrite !ts_wrap by assumption.
      rewrite !w_iszero_b2z, w_and_b2z, b2z_eq0. rewrite Z.gtb_ltb.
      destruct (Z.ltb_spec x lo), (Z.ltb_spec hi x); cbn [negb andb]; cbv iota;
        first [rewrite chk_rev_pow; [reflexivity | intros F; apply BB in F; lia]
              | rewrite chk_val_pow; [reflexivity | apply BB; lia]].
    + unfold uword in *. cbn [leval]. cbn [leval] in EXP. rewrite EXP.
      lstep. unfold enc. unfold w_gt. rewrite (wrap_small x), (wrap_small hi) by lia.
      rewrite w_iszero_b2z, b2z_eq0, negb_involutive, Z.gtb_ltb.
      rewrite (L0 eq_refl) in *.
      destruct (Z.ltb_spec hi x); cbv iota;
        first [rewrite chk_rev_pow; [reflexivity | intros F; apply BB in F; lia]
              | rewrite chk_val_pow; [reflexivity | apply BB; lia]].
Qed.

(* ---------------- Venom ---------------- *)
Ltac pstep := unfold vrun; cbn [vsl vstep vval lookup venv2 String.eqb Ascii.eqb Bool.eqb ev1 ev2 ev3 px py fst snd].

Theorem vpow_base_exact T a r y : ty_ok T -> in_range T a -> in_range T y ->
  (if special_base a then True else pow_bound_okb T a r = true) ->
  vrun (venv2 a y) (v_pow_base T a r) = enc_out (arith_spec T APow a y).
Proof.
  intros OkT Ha Hy B. pose proof W_val. pose proof HALF_val.
  pose proof (range_words T y OkT Hy) as Fy.
  assert (Wy : - HALF <= y < W) by (destruct (nsigned T); cbn in Fy; unfold sword, uword, MINS, MAXS in Fy; lia).
  unfold v_pow_base. cbn [arith_spec].
  destruct (special_base a) eqn:SB.
  - destruct (nsigned T) eqn:SG; cbn [fits256] in Fy.
    + pstep. unfold enc. unfold w_slt. rewrite (ts_wrap y Fy). change (to_signed (wrap 0)) with 0.
      rewrite w_iszero_b2z, b2z_eq0, negb_involutive.
      destruct (Z.ltb_spec y 0); [reflexivity|]. pstep.
      rewrite chk_val_pow; [|apply special_pow_range; assumption].
      cbn [enc_out]. unfold enc. f_equal. apply w_exp_wrap. lia.
    + unfold uword in Fy. pstep. change (wrap 1 =? 0) with false. pstep. replace (y <? 0) with false by lia.
      rewrite chk_val_pow; [|apply special_pow_range; try assumption; lia].
      cbn [enc_out]. unfold enc. f_equal. apply w_exp_wrap. lia.
  - pose proof (pow_bound_ok T a r OkT Ha B) as PB.
    unfold pow_bound_okb in B. repeat (apply andb_true_iff in B; destruct B as [B ?]).
    pstep. unfold enc. unfold w_gt. rewrite (wrap_small r) by lia.
    rewrite w_iszero_b2z, b2z_eq0, negb_involutive. rewrite Z.gtb_ltb.
    destruct (Z.ltb_spec y 0) as [N|P].
    + rewrite wrap_neg by lia. replace (r <? y + W) with true by lia. reflexivity.
    + rewrite !(wrap_small y) by lia.
      destruct (Z.ltb_spec r y) as [G|G]; pstep.
      * rewrite chk_rev_pow; [reflexivity|]. intros F. apply PB in F; lia.
      * rewrite chk_val_pow; [|apply PB; lia]. cbn [enc_out]. unfold enc. f_equal.
        unfold enc; first [apply w_exp_wrap | apply w_exp_wrap']; lia.
Qed.

Theorem vpow_exp_exact T b lo hi x : ty_ok T -> in_range T x -> in_range T b -> 0 <= b ->
  (if special_exp b then True else base_bounds_okb T b lo hi = true) ->
  vrun (venv2 x b) (v_pow_exp T b lo hi) = enc_out (arith_spec T APow x b).
Proof.
  intros OkT Hx Hb Pb B. pose proof W_val. pose proof HALF_val.
  pose proof (range_words T x OkT Hx) as Fx. pose proof (range_words T b OkT Hb) as Fb.
  assert (Wb : 0 <= b < W) by (destruct (nsigned T); cbn in Fb; unfold sword, uword, MINS, MAXS in Fb; lia).
  unfold v_pow_exp. cbn [arith_spec]. replace (b <? 0) with false by lia.
  assert (EXP : w_exp (wrap x) (wrap b) = wrap (x ^ b)) by (apply w_exp_wrap; exact Wb).
  destruct (special_exp b) eqn:SB.
  - pstep. change (wrap 1 =? 0) with false. pstep. unfold enc. rewrite EXP.
    rewrite chk_val_pow; [reflexivity|]. unfold special_exp in SB.
    assert (C : b = 0 \/ b = 1) by lia. destruct C as [-> | ->]; [rewrite Z.pow_0_r | rewrite Z.pow_1_r; exact Hx].
    pose proof (range_M T 1 OkT) as [HM R1]. apply R1. destruct (nsigned T); lia.
  - pose proof (base_bounds_ok T b lo hi OkT B x Hx) as BB.
    destruct (base_bounds_parts T b lo hi B) as [Rlo [Rhi L0]].
    pose proof (range_words T lo OkT Rlo) as Flo. pose proof (range_words T hi OkT Rhi) as Fhi.
    destruct (nsigned T) eqn:SG; cbn [fits256] in *.
    + pstep. unfold enc. unfold w_slt, w_sgt. rewrite !ts_wrap by assumption.
      rewrite !w_iszero_b2z, w_and_b2z, b2z_eq0. rewrite Z.gtb_ltb.
      destruct (Z.ltb_spec x lo), (Z.ltb_spec hi x); cbn [negb andb]; pstep; unfold enc; rewrite ?EXP;
        first [rewrite chk_rev_pow; [reflexivity | intros F; apply BB in F; lia]
              | rewrite chk_val_pow; [reflexivity | apply BB; lia]].
    + unfold uword in *. pstep. unfold enc. unfold w_gt. rewrite !(wrap_small x), (wrap_small hi) by lia.
      rewrite w_iszero_b2z, b2z_eq0, negb_involutive, Z.gtb_ltb.
      rewrite (L0 eq_refl) in *.
      destruct (Z.ltb_spec hi x); pstep; unfold enc;
        first [rewrite chk_rev_pow; [reflexivity | intros F; apply BB in F; lia]
              | rewrite chk_val_pow; [|apply BB; lia]; cbn [enc_out]; unfold enc; f_equal;
                rewrite <- EXP; rewrite (wrap_small x) by lia; reflexivity].
Qed.
