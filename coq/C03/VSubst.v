(* Literal operands in straight-line Venom: replacing an SSA variable that is never re-defined by a literal
   equal to its value does not change the evaluation.  (codegen_venom/arithmetic.py has no literal-dependent
   branches besides safe_pow, so a literal-operand template is the variable template with the operand
   substituted; TieVenom checks exactly that, syntactically.) *)
From Coq Require Import ZArith Bool List String Lia.
From Verif Require Import Base.Word256 C03.LIR C03.VSL.
Import ListNotations.
Open Scope Z_scope.

Definition vsub_op (s : string) (v : Z) (a : vop) : vop :=
  match a with VVar n => if String.eqb n s then VLit v else a | _ => a end.
Definition vsub_instr (s : string) (v : Z) (i : vinstr) : vinstr :=
  match i with
  | V1 o p a => V1 o p (vsub_op s v a)
  | V2 o p a b => V2 o p (vsub_op s v a) (vsub_op s v b)
  | V3 o p a b c => V3 o p (vsub_op s v a) (vsub_op s v b) (vsub_op s v c)
  | VAssign o a => VAssign o (vsub_op s v a)
  | VAssert a => VAssert (vsub_op s v a)
  end.
Definition vsub (s : string) (v : Z) (t : vtemplate) : vtemplate :=
  (map (vsub_instr s v) (fst t), vsub_op s v (snd t)).

Definition vout (i : vinstr) : option string :=
  match i with V1 o _ _ | V2 o _ _ _ | V3 o _ _ _ _ | VAssign o _ => Some o | VAssert _ => None end.
Definition no_write (s : string) (l : list vinstr) : bool :=
  forallb (fun i => match vout i with Some n => negb (String.eqb n s) | None => true end) l.

Lemma vval_sub e s v a : lookup e s = Some (wrap v) -> vval e (vsub_op s v a) = vval e a.
Proof.
  intros H. destruct a as [n|n]; [reflexivity|]. cbn [vsub_op].
  destruct (String.eqb_spec n s) as [->|N]; [cbn [vval]; symmetry; exact H | reflexivity].
Qed.

Lemma vstep_sub e s v i : lookup e s = Some (wrap v) -> vstep e (vsub_instr s v i) = vstep e i.
Proof. intros H. destruct i; cbn [vsub_instr vstep]; rewrite ?(vval_sub e s v) by exact H; reflexivity. Qed.

Lemma vstep_keeps e s w i e' : lookup e s = Some w ->
  match vout i with Some n => negb (String.eqb n s) | None => true end = true ->
  vstep e i = VOk e' -> lookup e' s = Some w.
Proof.
  intros H N S. destruct i; cbn [vstep vout] in *;
    repeat match goal with
           | S : match vval ?e ?a with _ => _ end = _ |- _ => destruct (vval e a); try discriminate S
           | S : (if ?c then _ else _) = _ |- _ => destruct c; try discriminate S
           end;
    injection S as <-; cbn [lookup]; try (apply negb_true_iff in N; rewrite N); exact H.
Qed.

Lemma vsl_sub s v l : forall e, lookup e s = Some (wrap v) -> no_write s l = true ->
  vsl e (map (vsub_instr s v) l) = vsl e l /\
  (forall e', vsl e l = VOk e' -> lookup e' s = Some (wrap v)).
Proof.
  induction l as [|i l IH]; intros e H N.
  - split; [reflexivity | intros e' E; injection E as <-; exact H].
  - cbn [no_write forallb] in N. apply andb_true_iff in N. destruct N as [N1 N2].
    cbn [map vsl]. rewrite (vstep_sub e s v i H).
    destruct (vstep e i) as [e1| |] eqn:S; try (split; [reflexivity | intros e' E; discriminate E]).
    pose proof (vstep_keeps e s (wrap v) i e1 H N1 S) as H1.
    destruct (IH e1 H1 N2) as [A B]. split; [exact A | exact B].
Qed.

Theorem vrun_sub s v t e : lookup e s = Some (wrap v) -> no_write s (fst t) = true ->
  vrun e (vsub s v t) = vrun e t.
Proof.
  intros H N. destruct (vsl_sub s v (fst t) e H N) as [A B].
  unfold vrun, vsub. cbn [fst snd]. rewrite A.
  destruct (vsl e (fst t)) as [e'| |] eqn:S; try reflexivity.
  rewrite (vval_sub e' s v) by (apply B; reflexivity). reflexivity.
Qed.
