(* C03, the explicitly unchecked operations, Venom front end (codegen_venom/builtins/math.py, arithmetic.apply_binop). *)
From Coq Require Import ZArith Bool List String Lia.
From Verif Require Import Base.Word256 C03.LIR C03.VSL C03.ArithSpec C03.TypeLemmas C03.TieBase C03.TieModels C03.LegacyExact
  C03.VenomExact C03.UnsafeExact C03.UnsafeTie C03.GenUnsafeVenom C03.TieUnsafeVenom.
Import ListNotations.
Open Scope Z_scope.

Theorem unsafe_ops_wrap_venom : forall o T t, In (o, T, t) venom_unsafes -> is_arith o = true ->
  forall x y, in_range T x -> in_range T y ->
  vrun (venv2 x y) t = Val (wrap (unsafe_spec T o x y)) /\
  in_range T (unsafe_spec T o x y) /\ (unsafe_spec T o x y - umath o x y) mod 2 ^ nbits T = 0.
Proof.
  intros o T t HIn A x y Hx Hy.
  pose proof tie_unsafe_venom as Tie. rewrite forallb_forall in Tie. specialize (Tie _ HIn).
  unfold vutie_one in Tie. apply andb_true_iff in Tie. destruct Tie as [Ok E]. apply vtemplate_eqb_eq in E. subst t.
  destruct (unsafe_okb_parts o T Ok) as [OkT [ND _]].
  split; [|exact (twrap_spec T (umath o x y) OkT)].
  apply vunsafe_arith_exact; assumption.
Qed.
Print Assumptions unsafe_ops_wrap_venom.

Theorem unchecked_bitops_venom : forall o T t, In (o, T, t) venom_unsafes -> is_arith o = false ->
  forall x y, in_range T x -> (if is_shift o then 0 <= y < W else in_range T y) ->
  vrun (venv2 x y) t = Val (wrap (umath o x y)).
Proof.
  intros o T t HIn A x y Hx Hy.
  pose proof tie_unsafe_venom as Tie. rewrite forallb_forall in Tie. specialize (Tie _ HIn).
  unfold vutie_one in Tie. apply andb_true_iff in Tie. destruct Tie as [Ok E]. apply vtemplate_eqb_eq in E. subst t.
  destruct (unsafe_okb_parts o T Ok) as [OkT [ND [PM SH]]].
  apply vunsafe_bits_exact; try assumption.
  - intros S. rewrite S in Hy. exact Hy.
  - destruct o; try discriminate A; cbn [bits_ok is_shift] in *; try exact I.
    + apply PM. reflexivity.
    + split; [apply SH; reflexivity | split; assumption].
    + split; [apply SH; reflexivity | split; assumption].
Qed.
Print Assumptions unchecked_bitops_venom.
