(* ArithModel: hand-written Gallina template generators mirroring
     vyper/codegen/arithmetic.py  (safe_add safe_sub safe_mul safe_div safe_mod), expr.py USub,
     vyper/codegen/core.py        (clamp_basetype int_clamp)
   parametric in the numeric type T = (bytes k, signed, decimal), operand shape var/var
   (operands are the IR variables x and y).  No proofs here.  The real generators' output for every
   member of the type family is exported each run (GenLegacy.v / GenVenom.v) and compared
   syntactically with these (TieLegacy.v / TieVenom.v). *)
From Coq Require Import ZArith Bool List String.
From Verif Require Import Base.Word256 C03.LIR C03.VSL C03.ArithSpec.
Import ListNotations.
Open Scope string_scope.
Open Scope Z_scope.

Definition vx := LVar "x".
Definition vy := LVar "y".

(* core.int_clamp applied to a variable (cache_when_complex does not introduce a `with`) *)
Definition m_clamp_var (k : Z) (signed : bool) (v : string) : lir :=
  LSeq (LAssert (if signed
                 then L2 OEq (LVar v) (L2 OSignextend (LInt (k - 1)) (LVar v))
                 else L1 OIszero (L2 OShr (LInt (8 * k)) (LVar v))))
       (LVar v).
(* core.int_clamp applied to a complex expression *)
Definition m_int_clamp (k : Z) (signed : bool) (arg : lir) : lir :=
  LWith "val" arg (m_clamp_var k signed "val").

Definition m_safe_addsub (o : op2) (T : nty) : lir :=
  let k := nbytes T in
  if k <? 32 then m_int_clamp k (nsigned T) (L2 o vx vy)
  else
    let ans := LVar "ans" in
    let ok := if nsigned T
              then L2 OEq (L2 OSlt vy (LInt 0)) (L2 (match o with OAdd => OSlt | _ => OSgt end) ans vx)
              else L2 (match o with OAdd => OGe | _ => OLe end) ans vx in
    LWith "ans" (L2 o vx vy) (LSeq (LAssert ok) ans).
Definition m_safe_add := m_safe_addsub OAdd.
Definition m_safe_sub := m_safe_addsub OSub.

Definition m_DIV (T : nty) : op2 := if nsigned T then OSdiv else ODiv.
Definition m_min256 : lir := L2 OShl (LInt 255) (LInt 1).

Definition m_safe_mul (T : nty) : lir :=
  let k := nbytes T in
  let ans := LVar "ans" in
  let ok0 := if 16 <? k then L2 OOr (L2 OEq (L2 (m_DIV T) ans vy) vx) (L1 OIszero vy) else LInt 1 in
  let ok := if nsigned T && (k =? 32)
            then L2 OAnd ok0 (L2 OOr (L2 ONe vx m_min256) (L2 ONe (L1 ONot vy) (LInt 0)))
            else ok0 in
  let res := if ndec T
             then (if k <? 32 then m_int_clamp k (nsigned T) (L2 (m_DIV T) ans (LInt DIVISOR))
                   else L2 (m_DIV T) ans (LInt DIVISOR))
             else (if k <? 32 then m_clamp_var k (nsigned T) "ans" else ans) in
  LWith "ans" (L2 OMul vx vy) (LSeq (LAssert ok) res).

Definition m_nonzero_y : lir := LSeq (LAssert (L2 OGt vy (LInt 0))) vy.

Definition m_safe_div (T : nty) : lir :=
  let k := nbytes T in
  let res := LVar "res" in
  let x' := if ndec T then L2 OMul vx (LInt DIVISOR) else vx in
  let ok := if nsigned T && (k =? 32)
            then L2 OOr (L2 ONe vy (L1 ONot (LInt 0))) (L2 ONe vx m_min256)
            else LInt 1 in
  let res' := if (nsigned T || ndec T) && (k <? 32) then m_clamp_var k (nsigned T) "res" else res in
  LWith "res" (L2 (m_DIV T) x' m_nonzero_y) (LSeq (LAssert ok) res').

Definition m_safe_mod (T : nty) : lir :=
  L2 (if nsigned T then OSmod else OMod) vx m_nonzero_y.

(* expr.py parse_UnaryOp, USub: (sub 0 (clamp sgt x MIN)) *)
Definition m_usub (T : nty) : lir :=
  L2 OSub (LInt 0) (LSeq (LAssert (L2 OSgt vx (LInt (ty_lo T)))) vx).

(* core.clamp_basetype on a variable of numeric type T *)
Definition m_clamp_basetype (T : nty) : lir :=
  if nbytes T <? 32 then m_clamp_var (nbytes T) (nsigned T) "x" else vx.

(* ------------------------------------------------------------------------------------------
   Venom twins: vyper/codegen_venom/arithmetic.py  (safe_add safe_sub safe_mul safe_floordiv
   safe_div safe_mod clamp_basetype) as emitted through VenomBuilder on a fresh function whose two
   params are %1 (x) and %2 (y).  Operands in Venom storage order (see VSL.v). *)
Local Infix "+++" := (@app vinstr) (right associativity, at level 60).
Definition pn (n : nat) : string :=
  match n with
  | 1 => "%1" | 2 => "%2" | 3 => "%3" | 4 => "%4" | 5 => "%5" | 6 => "%6" | 7 => "%7" | 8 => "%8"
  | 9 => "%9" | 10 => "%10" | 11 => "%11" | 12 => "%12" | 13 => "%13" | 14 => "%14" | 15 => "%15"
  | 16 => "%16" | _ => ""
  end%nat.
Definition px := VVar "%1".
Definition py := VVar "%2".

(* clamp_basetype(b, val, typ) for IntegerT/DecimalT with bits < 256; fresh names start at n *)
Definition v_clamp (T : nty) (v : vop) (n : nat) : list vinstr :=
  if nsigned T then
    [ V2 (pn n) OSlt (VLit (ty_lo T)) v; V1 (pn (n + 1)) OIszero (VVar (pn n));
      V2 (pn (n + 2)) OSgt (VLit (ty_hi T)) v; V1 (pn (n + 3)) OIszero (VVar (pn (n + 2)));
      V2 (pn (n + 4)) OAnd (VVar (pn (n + 3))) (VVar (pn (n + 1))); VAssert (VVar (pn (n + 4))) ]
  else
    [ V2 (pn n) OGt (VLit (ty_hi T)) v; V1 (pn (n + 1)) OIszero (VVar (pn n)); VAssert (VVar (pn (n + 1))) ].

Definition v_safe_addsub (o : op2) (T : nty) : vtemplate :=
  let r := VVar "%3" in
  let body :=
    if nbytes T <? 32 then v_clamp T r 4
    else if nsigned T then
      [ V2 "%4" OSlt (VLit 0) py; V2 "%5" (match o with OAdd => OSlt | _ => OSgt end) px r;
        V2 "%6" OEq (VVar "%5") (VVar "%4"); VAssert (VVar "%6") ]
    else
      [ V2 "%4" (match o with OAdd => OLt | _ => OGt end) px r; V1 "%5" OIszero (VVar "%4"); VAssert (VVar "%5") ] in
  (V2 "%3" o py px :: body, r).
Definition v_safe_add := v_safe_addsub OAdd.
Definition v_safe_sub := v_safe_addsub OSub.

Definition v_min256 : vop := VLit (2 ^ 255).
(* not (x == MIN and y == -1), fresh names n .. n+4, returns name n+4 *)
Definition v_not_special (n : nat) : list vinstr :=
  [ V2 (pn n) OEq v_min256 px; V1 (pn (n + 1)) ONot py; V1 (pn (n + 2)) OIszero (VVar (pn (n + 1)));
    V2 (pn (n + 3)) OAnd (VVar (pn (n + 2))) (VVar (pn n)); V1 (pn (n + 4)) OIszero (VVar (pn (n + 3))) ].

Definition v_safe_mul (T : nty) : vtemplate :=
  let k := nbytes T in
  let r := VVar "%3" in
  let mul := V2 "%3" OMul py px in
  if 16 <? k then
    let chk := [ V2 "%4" (m_DIV T) py r; V2 "%5" OEq px (VVar "%4"); V1 "%6" OIszero py;
                 V2 "%7" OOr (VVar "%6") (VVar "%5") ] in
    if nsigned T && (k =? 32) then
      (mul :: chk +++ v_not_special 8 +++ [ V2 "%13" OAnd (VVar "%12") (VVar "%7"); VAssert (VVar "%13") ], r)
    else
      let chk := chk +++ [ VAssert (VVar "%7") ] in
      if ndec T then
        (mul :: chk +++ [ V2 "%8" (m_DIV T) (VLit DIVISOR) r ] +++ (if k <? 32 then v_clamp T (VVar "%8") 9 else []), VVar "%8")
      else
        (mul :: chk +++ (if k <? 32 then v_clamp T r 8 else []), r)
  else
    (mul :: v_clamp T r 4, r).

Definition v_nonzero_y (n : nat) : list vinstr :=
  [ V1 (pn n) OIszero py; V1 (pn (n + 1)) OIszero (VVar (pn n)); VAssert (VVar (pn (n + 1))) ].

Definition v_safe_div (T : nty) : vtemplate :=
  let k := nbytes T in
  if ndec T then
    ( V2 "%3" OMul (VLit DIVISOR) px :: v_nonzero_y 4 +++ [ V2 "%6" (m_DIV T) py (VVar "%3") ]
        +++ (if k <? 32 then v_clamp T (VVar "%6") 7 else []), VVar "%6")
  else
    let r := VVar "%5" in
    let pre := v_nonzero_y 3 +++ [ V2 "%5" (m_DIV T) py px ] in
    if nsigned T then
      if k =? 32 then (pre +++ v_not_special 6 +++ [ VAssert (VVar "%10") ], r)
      else (pre +++ v_clamp T r 6, r)
    else (pre, r).

Definition v_safe_mod (T : nty) : vtemplate :=
  (v_nonzero_y 3 +++ [ V2 "%5" (if nsigned T then OSmod else OMod) py px ], VVar "%5").

Definition v_clamp_basetype (T : nty) : vtemplate :=
  (if nbytes T <? 32 then v_clamp T px 3 else [], px).
