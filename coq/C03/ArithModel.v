(* ArithModel: hand-written Gallina template generators mirroring
     vyper/codegen/arithmetic.py  (safe_add safe_sub safe_mul safe_div safe_mod), expr.py USub,
     vyper/codegen/core.py        (clamp_basetype int_clamp)
   parametric in the numeric type T = (bytes k, signed, decimal), operand shape var/var
   (operands are the IR variables x and y).  No proofs here.  The real generators' output for every
   member of the type family is exported each run (GenLegacy.v / GenVenom.v) and compared
   syntactically with these (TieLegacy.v / TieVenom.v). *)
From Coq Require Import ZArith Bool List String.
From Verif Require Import Base.Word256 C03.LIR C03.VSL C03.ArithSpec.
Import ListNotations.
Open Scope string_scope.
Open Scope Z_scope.

Definition vx := LVar "x".
Definition vy := LVar "y".

(* core.int_clamp applied to a variable (cache_when_complex does not introduce a `with`) *)
Definition m_clamp_var (k : Z) (signed : bool) (v : string) : lir :=
  LSeq (LAssert (if signed
                 then L2 OEq (LVar v) (L2 OSignextend (LInt (k - 1)) (LVar v))
                 else L1 OIszero (L2 OShr (LInt (8 * k)) (LVar v))))
       (LVar v).
(* core.int_clamp applied to a complex expression *)
Definition m_int_clamp (k : Z) (signed : bool) (arg : lir) : lir :=
  LWith "val" arg (m_clamp_var k signed "val").

Definition m_safe_addsub (o : op2) (T : nty) : lir :=
  let k := nbytes T in
  if k <? 32 then m_int_clamp k (nsigned T) (L2 o vx vy)
  else
    let ans := LVar "ans" in
    let ok := if nsigned T
              then L2 OEq (L2 OSlt vy (LInt 0)) (L2 (match o with OAdd => OSlt | _ => OSgt end) ans vx)
              else L2 (match o with OAdd => OGe | _ => OLe end) ans vx in
    LWith "ans" (L2 o vx vy) (LSeq (LAssert ok) ans).
Definition m_safe_add := m_safe_addsub OAdd.
Definition m_safe_sub := m_safe_addsub OSub.

Definition m_DIV (T : nty) : op2 := if nsigned T then OSdiv else ODiv.
Definition m_min256 : lir := L2 OShl (LInt 255) (LInt 1).

Definition m_safe_mul (T : nty) : lir :=
  let k := nbytes T in
  let ans := LVar "ans" in
  let ok0 := if 16 <? k then L2 OOr (L2 OEq (L2 (m_DIV T) ans vy) vx) (L1 OIszero vy) else LInt 1 in
  let ok := if nsigned T && (k =? 32)
            then L2 OAnd ok0 (L2 OOr (L2 ONe vx m_min256) (L2 ONe (L1 ONot vy) (LInt 0)))
            else ok0 in
  let res := if ndec T
             then (if k <? 32 then m_int_clamp k (nsigned T) (L2 (m_DIV T) ans (LInt DIVISOR))
                   else L2 (m_DIV T) ans (LInt DIVISOR))
             else (if k <? 32 then m_clamp_var k (nsigned T) "ans" else ans) in
  LWith "ans" (L2 OMul vx vy) (LSeq (LAssert ok) res).

Definition m_nonzero_y : lir := LSeq (LAssert (L2 OGt vy (LInt 0))) vy.

Definition m_safe_div (T : nty) : lir :=
  let k := nbytes T in
  let res := LVar "res" in
  let x' := if ndec T then L2 OMul vx (LInt DIVISOR) else vx in
  let ok := if nsigned T && (k =? 32)
            then L2 OOr (L2 ONe vy (L1 ONot (LInt 0))) (L2 ONe vx m_min256)
            else LInt 1 in
  let res' := if (nsigned T || ndec T) && (k <? 32) then m_clamp_var k (nsigned T) "res" else res in
  LWith "res" (L2 (m_DIV T) x' m_nonzero_y) (LSeq (LAssert ok) res').

Definition m_safe_mod (T : nty) : lir :=
  L2 (if nsigned T then OSmod else OMod) vx m_nonzero_y.

(* expr.py parse_UnaryOp, USub: (sub 0 (clamp sgt x MIN)) *)
Definition m_usub (T : nty) : lir :=
  L2 OSub (LInt 0) (LSeq (LAssert (L2 OSgt vx (LInt (ty_lo T)))) vx).

(* core.clamp_basetype on a variable of numeric type T *)
Definition m_clamp_basetype (T : nty) : lir :=
  if nbytes T <? 32 then m_clamp_var (nbytes T) (nsigned T) "x" else vx.
