(* ArithModel: hand-written Gallina template generators mirroring
     vyper/codegen/arithmetic.py  (safe_add safe_sub safe_mul safe_div safe_mod), expr.py USub,
     vyper/codegen/core.py        (clamp_basetype int_clamp)
   parametric in the numeric type T = (bytes k, signed, decimal), operand shape var/var
   (operands are the IR variables x and y).  No proofs here.  The real generators' output for every
   member of the type family is exported each run (GenLegacy.v / GenVenom.v) and compared
   syntactically with these (TieLegacy.v / TieVenom.v). *)
From Coq Require Import ZArith Bool List String.
From Verif Require Import Base.Word256 C03.LIR C03.VSL C03.ArithSpec.
Import ListNotations.
Open Scope string_scope.
Open Scope Z_scope.

Definition vx := LVar "x".
Definition vy := LVar "y".

(* Operands are arbitrary non-complex IR terms [ea], [eb] (an IR variable or an integer literal).
   IRnode.cache_when_complex(name) wraps its node in (with name node body) unless the *optimised* node is not
   "complex", in which case the (unoptimised) node is inlined at every use.  Whether that happens depends on
   vyper/ir/optimizer.py, so every cache point takes a flag [inl]; the theorems hold for both values and the
   tie accepts any combination of flags. *)
Definition m_cache (inl : bool) (n : string) (e : lir) (body : lir -> lir) : lir :=
  if inl then body e else LWith n e (body (LVar n)).

Definition is_lit (t : lir) : option Z := match t with LInt v => Some v | _ => None end.

(* core.int_clamp body on a non-complex / cached term *)
Definition m_clamp_of (k : Z) (signed : bool) (er : lir) : lir :=
  LSeq (LAssert (if signed
                 then L2 OEq er (L2 OSignextend (LInt (k - 1)) er)
                 else L1 OIszero (L2 OShr (LInt (8 * k)) er)))
       er.
Definition m_clamp_var (k : Z) (signed : bool) (v : string) : lir := m_clamp_of k signed (LVar v).
Definition m_int_clamp (k : Z) (signed : bool) (arg : lir) (inl : bool) : lir :=
  m_cache inl "val" arg (m_clamp_of k signed).

Definition m_safe_addsub (o : op2) (T : nty) (ea eb : lir) (inl : bool) : lir :=
  let k := nbytes T in
  if k <? 32 then m_int_clamp k (nsigned T) (L2 o ea eb) inl
  else
    m_cache inl "ans" (L2 o ea eb) (fun ans =>
      let ok := if nsigned T
                then L2 OEq (L2 OSlt eb (LInt 0)) (L2 (match o with OAdd => OSlt | _ => OSgt end) ans ea)
                else L2 (match o with OAdd => OGe | _ => OLe end) ans ea in
      LSeq (LAssert ok) ans).
Definition m_safe_add := m_safe_addsub OAdd.
Definition m_safe_sub := m_safe_addsub OSub.

Definition m_DIV (T : nty) : op2 := if nsigned T then OSdiv else ODiv.
Definition m_min256 : lir := L2 OShl (LInt 255) (LInt 1).

(* safe_mul after the literal swap: ea is the (non-literal) first factor *)
Definition m_mul_ok (T : nty) (ea eb ans : lir) : lir :=
  let k := nbytes T in
  let ok0 := if 16 <? k then L2 OOr (L2 OEq (L2 (m_DIV T) ans eb) ea) (L1 OIszero eb) else LInt 1 in
  let check_x := L2 ONe ea m_min256 in
  let check_y := L2 ONe (L1 ONot eb) (LInt 0) in
  if nsigned T && (k =? 32)
  then match is_lit ea, is_lit eb with
       | None, None => L2 OAnd ok0 (L2 OOr check_x check_y)
       | Some v, _ => if v =? - 2 ^ 255 then L2 OAnd ok0 check_y
                      else match is_lit eb with
                           | Some u => if u =? -1 then L2 OAnd ok0 check_x else ok0
                           | None => ok0 end
       | None, Some u => if u =? -1 then L2 OAnd ok0 check_x else ok0
       end
  else ok0.
Definition m_mul_res (T : nty) (ans : lir) (i2 : bool) : lir :=
  let k := nbytes T in
  if ndec T
  then (if k <? 32 then m_int_clamp k (nsigned T) (L2 (m_DIV T) ans (LInt DIVISOR)) i2
        else L2 (m_DIV T) ans (LInt DIVISOR))
  else (if k <? 32 then m_clamp_of k (nsigned T) ans else ans).
Definition m_mul_core (T : nty) (ea eb : lir) (i1 i2 : bool) : lir :=
  m_cache i1 "ans" (L2 OMul ea eb) (fun ans => LSeq (LAssert (m_mul_ok T ea eb ans)) (m_mul_res T ans i2)).
Definition m_safe_mul (T : nty) (ea eb : lir) (i1 i2 : bool) : lir :=
  match is_lit ea with Some _ => m_mul_core T eb ea i1 i2 | None => m_mul_core T ea eb i1 i2 end.

Definition m_nonzero (eb : lir) : lir := LSeq (LAssert (L2 OGt eb (LInt 0))) eb.

Definition m_div_ok (T : nty) (ea eb : lir) : lir :=
  let nx := L2 ONe ea m_min256 in
  let ny := L2 ONe eb (L1 ONot (LInt 0)) in
  if nsigned T && (nbytes T =? 32)
  then match is_lit ea, is_lit eb with
       | None, None => L2 OOr ny nx
       | Some v, _ => if v =? - 2 ^ 255 then ny
                      else match is_lit eb with
                           | Some u => if u =? -1 then nx else LInt 1
                           | None => LInt 1 end
       | None, Some u => if u =? -1 then nx else LInt 1
       end
  else LInt 1.
Definition m_div_skip (T : nty) (ea eb : lir) : bool :=
  match is_lit ea with Some v => negb (v =? ty_lo T) | None => false end
  || match is_lit eb with Some u => negb (u =? -1) | None => false end.
Definition m_div_res (T : nty) (ea eb res : lir) : lir :=
  let k := nbytes T in
  if ndec T then (if k <? 32 then m_clamp_of k (nsigned T) res else res)
  else if nsigned T && (k <? 32) && negb (m_div_skip T ea eb) then m_clamp_of k (nsigned T) res
  else res.
Definition m_safe_div (T : nty) (ea eb : lir) (i1 : bool) : lir :=
  let x' := if ndec T then L2 OMul ea (LInt DIVISOR) else ea in
  m_cache i1 "res" (L2 (m_DIV T) x' (m_nonzero eb))
          (fun res => LSeq (LAssert (m_div_ok T ea eb)) (m_div_res T ea eb res)).

Definition m_safe_mod (T : nty) (ea eb : lir) : lir :=
  L2 (if nsigned T then OSmod else OMod) ea (m_nonzero eb).

(* expr.py parse_UnaryOp, USub: (sub 0 (clamp sgt x MIN)) *)
Definition m_usub (T : nty) : lir :=
  L2 OSub (LInt 0) (LSeq (LAssert (L2 OSgt vx (LInt (ty_lo T)))) vx).

(* core.clamp_basetype on a variable of numeric type T *)
Definition m_clamp_basetype (T : nty) : lir :=
  if nbytes T <? 32 then m_clamp_var (nbytes T) (nsigned T) "x" else vx.

(* ------------------------------------------------------------------------------------------
   Venom twins: vyper/codegen_venom/arithmetic.py  (safe_add safe_sub safe_mul safe_floordiv
   safe_div safe_mod clamp_basetype) as emitted through VenomBuilder on a fresh function whose two
   params are %1 (x) and %2 (y).  Operands in Venom storage order (see VSL.v). *)
Local Infix "+++" := (@app vinstr) (right associativity, at level 60).
Definition pn (n : nat) : string :=
  match n with
  | 1 => "%1" | 2 => "%2" | 3 => "%3" | 4 => "%4" | 5 => "%5" | 6 => "%6" | 7 => "%7" | 8 => "%8"
  | 9 => "%9" | 10 => "%10" | 11 => "%11" | 12 => "%12" | 13 => "%13" | 14 => "%14" | 15 => "%15"
  | 16 => "%16" | _ => ""
  end%nat.
Definition px := VVar "%1".
Definition py := VVar "%2".

(* clamp_basetype(b, val, typ) for IntegerT/DecimalT with bits < 256; fresh names start at n *)
Definition v_clamp (T : nty) (v : vop) (n : nat) : list vinstr :=
  if nsigned T then
    [ V2 (pn n) OSlt (VLit (ty_lo T)) v; V1 (pn (n + 1)) OIszero (VVar (pn n));
      V2 (pn (n + 2)) OSgt (VLit (ty_hi T)) v; V1 (pn (n + 3)) OIszero (VVar (pn (n + 2)));
      V2 (pn (n + 4)) OAnd (VVar (pn (n + 3))) (VVar (pn (n + 1))); VAssert (VVar (pn (n + 4))) ]
  else
    [ V2 (pn n) OGt (VLit (ty_hi T)) v; V1 (pn (n + 1)) OIszero (VVar (pn n)); VAssert (VVar (pn (n + 1))) ].

Definition v_safe_addsub (o : op2) (T : nty) : vtemplate :=
  let r := VVar "%3" in
  let body :=
    if nbytes T <? 32 then v_clamp T r 4
    else if nsigned T then
      [ V2 "%4" OSlt (VLit 0) py; V2 "%5" (match o with OAdd => OSlt | _ => OSgt end) px r;
        V2 "%6" OEq (VVar "%5") (VVar "%4"); VAssert (VVar "%6") ]
    else
      [ V2 "%4" (match o with OAdd => OLt | _ => OGt end) px r; V1 "%5" OIszero (VVar "%4"); VAssert (VVar "%5") ] in
  (V2 "%3" o py px :: body, r).
Definition v_safe_add := v_safe_addsub OAdd.
Definition v_safe_sub := v_safe_addsub OSub.

Definition v_min256 : vop := VLit (2 ^ 255).
(* not (x == MIN and y == -1), fresh names n .. n+4, returns name n+4 *)
Definition v_not_special (n : nat) : list vinstr :=
  [ V2 (pn n) OEq v_min256 px; V1 (pn (n + 1)) ONot py; V1 (pn (n + 2)) OIszero (VVar (pn (n + 1)));
    V2 (pn (n + 3)) OAnd (VVar (pn (n + 2))) (VVar (pn n)); V1 (pn (n + 4)) OIszero (VVar (pn (n + 3))) ].

Definition v_safe_mul (T : nty) : vtemplate :=
  let k := nbytes T in
  let r := VVar "%3" in
  let mul := V2 "%3" OMul py px in
  if 16 <? k then
    let chk := [ V2 "%4" (m_DIV T) py r; V2 "%5" OEq px (VVar "%4"); V1 "%6" OIszero py;
                 V2 "%7" OOr (VVar "%6") (VVar "%5") ] in
    if nsigned T && (k =? 32) then
      (mul :: chk +++ v_not_special 8 +++ [ V2 "%13" OAnd (VVar "%12") (VVar "%7"); VAssert (VVar "%13") ], r)
    else
      let chk := chk +++ [ VAssert (VVar "%7") ] in
      if ndec T then
        (mul :: chk +++ [ V2 "%8" (m_DIV T) (VLit DIVISOR) r ] +++ (if k <? 32 then v_clamp T (VVar "%8") 9 else []), VVar "%8")
      else
        (mul :: chk +++ (if k <? 32 then v_clamp T r 8 else []), r)
  else
    (mul :: v_clamp T r 4, r).

Definition v_nonzero_y (n : nat) : list vinstr :=
  [ V1 (pn n) OIszero py; V1 (pn (n + 1)) OIszero (VVar (pn n)); VAssert (VVar (pn (n + 1))) ].

Definition v_safe_div (T : nty) : vtemplate :=
  let k := nbytes T in
  if ndec T then
    ( V2 "%3" OMul (VLit DIVISOR) px :: v_nonzero_y 4 +++ [ V2 "%6" (m_DIV T) py (VVar "%3") ]
        +++ (if k <? 32 then v_clamp T (VVar "%6") 7 else []), VVar "%6")
  else
    let r := VVar "%5" in
    let pre := v_nonzero_y 3 +++ [ V2 "%5" (m_DIV T) py px ] in
    if nsigned T then
      if k =? 32 then (pre +++ v_not_special 6 +++ [ VAssert (VVar "%10") ], r)
      else (pre +++ v_clamp T r 6, r)
    else (pre, r).

Definition v_safe_mod (T : nty) : vtemplate :=
  (v_nonzero_y 3 +++ [ V2 "%5" (if nsigned T then OSmod else OMod) py px ], VVar "%5").

Definition v_clamp_basetype (T : nty) : vtemplate :=
  (if nbytes T <? 32 then v_clamp T px 3 else [], px).
