(* C03: the arithmetic builtins outside the operator tables: shift(x, n), abs(x), uint256_addmod / uint256_mulmod, pow_mod256
   and ~x (uint256, bytes32, flags), for both front ends, with variable or literal operands.
     vyper/builtins/functions.py  Shift.build_IR, Abs.build_IR, _AddMulMod.build_IR, PowMod256.build_IR; codegen/expr.py (Invert)
     vyper/codegen_venom/builtins/math.py lower_shift / lower_uint256_addmod / lower_uint256_mulmod / lower_pow_mod256,
     builtins/simple.py lower_abs, codegen_venom/expr.py lower_UnaryOp (Invert); VenomBuilder.select = xor/mul/xor.
   Every template returns exactly b_spec (or reverts exactly when b_spec does): abs(MIN) reverts, addmod/mulmod by 0 revert,
   shift by a negative amount shifts right (arithmetically for int256), by n >= 256 gives 0 (resp. 0 / -1).
   shift(): the sign of the amount is tested (slt) only when its type is signed; an unsigned amount always shifts left.
   (Until 1d5ff18 the test was done whatever the type, so a uint256 amount >= 2^255 shifted RIGHT by 2^256-n: finding
   shift-builtin-unsigned-amount-negative, found while writing this file; shift_unsigned_amount_regression.) *)
From Coq Require Import ZArith Bool List String Lia.
From Verif Require Import Base.Word256 C03.LIR C03.VSL C03.ArithSpec C03.WordArith C03.TypeLemmas C03.ArithModel C03.TieBase
  C03.VSubst C03.LegacyExact C03.VenomExact C03.ConvSpec C03.ConvExact C03.PowExact C03.UnsafeExact.
Import ListNotations.
Open Scope Z_scope.

Definition int_t (s : bool) : nty := Build_nty 32 s false.

Inductive bfn := BShift (sx : bool) (Tb : nty) | BAbs | BAddmod | BMulmod | BPowMod | BInvert (T : cty).

(* ---------------- specification on values ---------------- *)
Definition shift_spec (sx : bool) (x n : Z) : Z :=
  if n <? 0 then x / 2 ^ (- n) else twrap (int_t sx) (x * 2 ^ n).

Definition b_spec (f : bfn) (vs : list Z) : outcome :=
  match f, vs with
  | BShift sx _, [x; n] => Val (shift_spec sx x n)
  | BAbs, [x] => if x =? MINS then Revert else Val (Z.abs x)
  | BAddmod, [a; b; c] => if c =? 0 then Revert else Val ((a + b) mod c)
  | BMulmod, [a; b; c] => if c =? 0 then Revert else Val ((a * b) mod c)
  | BPowMod, [a; b] => Val (a ^ b mod W)
  | BInvert T, [x] => Val (c_hi T - x)
  | _, _ => Stuck
  end.

Definition uwordb (v : Z) : bool := (0 <=? v) && (v <? W).
Definition inv_ok (T : cty) : bool :=
  match T with CNum T => nty_eqb T uint256_t | CBytes m => m =? 32 | CFlag n => (1 <=? n) && (n <=? 256) | _ => false end.
Definition b_okb (f : bfn) : bool :=
  match f with BShift _ Tb => ty_okb Tb && negb (ndec Tb) | BInvert T => inv_ok T | _ => true end.
(* operand values the type system allows *)
Definition b_domb (f : bfn) (vs : list Z) : bool :=
  match f, vs with
  | BShift sx Tb, [x; n] => in_rangeb (int_t sx) x && in_rangeb Tb n
  | BAbs, [x] => swordb x
  | BAddmod, [a; b; c] | BMulmod, [a; b; c] => uwordb a && uwordb b && uwordb c
  | BPowMod, [a; b] => uwordb a && uwordb b
  | BInvert T, [x] => c_in_rangeb T x
  | _, _ => false
  end.

(* ---------------- legacy models (operands: any terms) ---------------- *)
Definition m_shift (sx sb : bool) (x n : lir) : lir :=
  if sb then LIf (L2 OSlt n (LInt 0)) (L2 (if sx then OSar else OShr) (L2 OSub (LInt 0) n) x) (L2 OShl n x)
  else L2 OShl n x.
Definition m_abs (x : lir) : lir :=
  LWith "orig" x
    (LIf (L2 OSlt (LVar "orig") (LInt 0))
         (LSeq (LAssert (L2 ONe (LVar "orig") (L2 OSub (LInt 0) (LVar "orig")))) (L2 OSub (LInt 0) (LVar "orig")))
         (LVar "orig")).
Definition m_modop (o : op3) (x y z : lir) : lir := LSeq (LAssert z) (L3 o x y z).
Definition m_invert (T : cty) (x : lir) : lir :=
  match T with CFlag n => L2 OXor (LInt (2 ^ n - 1)) x | _ => L1 ONot x end.

Definition m_builtin (f : bfn) (a : list lir) : option lir :=
  match f, a with
  | BShift sx Tb, [x; n] => Some (m_shift sx (nsigned Tb) x n)
  | BAbs, [x] => Some (m_abs x)
  | BAddmod, [x; y; z] => Some (m_modop OAddmod x y z)
  | BMulmod, [x; y; z] => Some (m_modop OMulmod x y z)
  | BPowMod, [x; y] => Some (L2 OExp x y)
  | BInvert T, [x] => Some (m_invert T x)
  | _, _ => None
  end.

(* ---------------- Venom models (operands %1 %2 %3; literal operands by substitution) ---------------- *)
Definition p1 : vop := VVar "%1". Definition p2 : vop := VVar "%2". Definition p3 : vop := VVar "%3".
(* VenomBuilder.select(cond, a, b) with results in r1 r2 r3 *)
Definition v_select (r1 r2 r3 : string) (c a b : vop) : list vinstr :=
  [V2 r1 OXor b a; V2 r2 OMul (VVar r1) c; V2 r3 OXor (VVar r2) b].
Definition v_shift (sx sb : bool) : vtemplate :=
  if negb sb then ([V2 "%3" OShl p1 p2], VVar "%3") else
  ([V2 "%3" OSlt (VLit 0) p2; V2 "%4" OSub p2 (VLit 0); V2 "%5" (if sx then OSar else OShr) p1 (VVar "%4");
    V2 "%6" OShl p1 p2] ++ v_select "%7" "%8" "%9" (VVar "%3") (VVar "%5") (VVar "%6"), VVar "%9").
Definition v_abs : vtemplate :=
  ([V2 "%2" OSub p1 (VLit 0); V2 "%3" OSlt (VLit 0) p1; V2 "%4" OEq (VVar "%2") p1; V2 "%5" OAnd (VVar "%4") (VVar "%3");
    V1 "%6" OIszero (VVar "%5"); VAssert (VVar "%6")] ++ v_select "%7" "%8" "%9" (VVar "%3") (VVar "%2") p1, VVar "%9").
Definition v_modop (o : op3) : vtemplate := ([VAssert p3; V3 "%4" o p3 p2 p1], VVar "%4").
Definition v_invert (T : cty) : vtemplate :=
  match T with CFlag n => ([V2 "%2" OXor (VLit (2 ^ n - 1)) p1], VVar "%2") | _ => ([V1 "%2" ONot p1], VVar "%2") end.
Definition v_builtin (f : bfn) : vtemplate :=
  match f with
  | BShift sx Tb => v_shift sx (nsigned Tb) | BAbs => v_abs | BAddmod => v_modop OAddmod | BMulmod => v_modop OMulmod
  | BPowMod => ([V2 "%3" OExp p2 p1], VVar "%3") | BInvert T => v_invert T
  end.

(* ---------------- word facts ---------------- *)
Lemma slt0_val n : sword n -> w_slt (wrap n) (wrap 0) = b2z (n <? 0).
Proof. intros H. unfold w_slt. rewrite (ts_wrap n H), (ts_wrap 0 sword_0). reflexivity. Qed.

Lemma neg_word n : - W < n <= 0 -> w_sub (wrap 0) (wrap n) = - n.
Proof.
  intros H. rewrite w_sub_wrap. cbn [Z.sub]. replace (0 - n) with (- n) by lia.
  destruct (Z.eq_dec n 0) as [->|]; [reflexivity|]. apply wrap_small. lia.
Qed.

Lemma sword_of_range T n : ty_ok T -> nsigned T = true -> in_range T n -> sword n.
Proof. intros Ok S H. pose proof (range_words T n Ok H) as F. rewrite S in F. exact F. Qed.
Lemma uword_of_range T n : ty_ok T -> nsigned T = false -> in_range T n -> uword n.
Proof. intros Ok S H. pose proof (range_words T n Ok H) as F. rewrite S in F. exact F. Qed.

Lemma lxor_ones_sub n x : 0 <= n -> 0 <= x < 2 ^ n -> Z.lxor (2 ^ n - 1) x = 2 ^ n - 1 - x.
Proof.
  intros Hn Hx. replace (2 ^ n - 1) with (Z.ones n) by (rewrite Z.ones_equiv; lia).
  assert (L : Z.land (Z.lxor (Z.ones n) x) x = 0).
  { apply Z.bits_inj'. intros i Hi. rewrite Z.land_spec, Z.lxor_spec, Z.bits_0.
    destruct (Z.ltb_spec i n).
    - rewrite Z.ones_spec_low by lia. destruct (Z.testbit x i); reflexivity.
    - destruct (Z.eq_dec x 0) as [->|Nz]; [rewrite Z.bits_0; apply andb_false_r|].
      rewrite (Z.bits_above_log2 x i); [apply andb_false_r | lia |].
      assert (Z.log2 x < n) by (apply Z.log2_lt_pow2; lia). lia. }
  pose proof (Z.add_nocarry_lxor _ _ L) as A.
  rewrite Z.lxor_assoc, Z.lxor_nilpotent, Z.lxor_0_r in A. lia.
Qed.

(* select(c, a, b) = xor b (mul c (xor a b)) with c in {0, 1} *)
Lemma select_val (c : bool) a b : uword a -> uword b ->
  w_xor b (w_mul (b2z c) (w_xor a b)) = if c then a else b.
Proof.
  intros Ha Hb. unfold w_xor, w_mul. destruct c; cbn [b2z].
  - assert (0 <= Z.lxor a b < W).
    { unfold uword, W in *. split; [apply Z.lxor_nonneg; lia|].
      destruct (Z.eq_dec (Z.lxor a b) 0) as [->|Nz]; [reflexivity|].
      apply Z.log2_lt_pow2; [pose proof (proj2 (Z.lxor_nonneg a b)); lia|].
      pose proof (Z.log2_lxor a b ltac:(lia) ltac:(lia)).
      assert (Z.log2 a < 256) by (destruct (Z.eq_dec a 0) as [->|]; [cbn; lia | apply Z.log2_lt_pow2; lia]).
      assert (Z.log2 b < 256) by (destruct (Z.eq_dec b 0) as [->|]; [cbn; lia | apply Z.log2_lt_pow2; lia]). lia. }
    rewrite Z.mul_1_l, Z.mod_small by assumption. rewrite Z.lxor_comm, Z.lxor_assoc, Z.lxor_nilpotent, Z.lxor_0_r. reflexivity.
  - rewrite Z.mul_0_l. cbn. apply Z.lxor_0_r.
Qed.

(* ---------------- the word computed by each builtin ---------------- *)
Lemma shift_word sx Tb x n : ty_ok Tb -> nsigned Tb = true -> in_range (int_t sx) x -> in_range Tb n ->
  (if w_slt (wrap n) (wrap 0) =? 0 then w_shl (wrap n) (wrap x)
   else ev2 (if sx then OSar else OShr) (w_sub (wrap 0) (wrap n)) (wrap x)) = wrap (shift_spec sx x n).
Proof.
  intros OkB Sb Hx Hn. pose proof W_val. pose proof HALF_val.
  pose proof (sword_of_range Tb n OkB Sb Hn) as Sn.
  assert (OkX : ty_ok (int_t sx)) by (split; cbn; [lia | intros; discriminate]).
  pose proof (range_words _ x OkX Hx) as Fx. cbn [int_t nsigned] in Fx.
  rewrite (slt0_val n Sn), b2z_eq0. unfold shift_spec. unfold sword, MINS, MAXS in Sn.
  destruct (Z.ltb_spec n 0); cbn [negb].
  - rewrite neg_word by lia. destruct sx; cbn [ev2 fits256] in *.
    + apply w_sar_wrap; [lia | exact Fx].
    + unfold uword in Fx. rewrite (wrap_small x) by exact Fx. apply w_shr_wrap; [lia | exact Fx].
  - rewrite (wrap_small n) by lia. rewrite w_shl_wrap by lia. symmetry. apply wrap_twrap256.
Qed.
Lemma shift_word_u sx Tb x n : ty_ok Tb -> nsigned Tb = false -> in_range Tb n ->
  w_shl (wrap n) (wrap x) = wrap (shift_spec sx x n).
Proof.
  intros OkB Sb Hn. pose proof (uword_of_range Tb n OkB Sb Hn) as Un. unfold uword in Un.
  rewrite (wrap_small n) by exact Un. rewrite w_shl_wrap by exact Un. unfold shift_spec.
  replace (n <? 0) with false by lia. symmetry. apply wrap_twrap256.
Qed.

Lemma abs_cases x : sword x -> x < 0 ->
  w_iszero (w_eq (wrap x) (w_sub (wrap 0) (wrap x))) = b2z (negb (x =? MINS)) /\ w_sub (wrap 0) (wrap x) = wrap (Z.abs x).
Proof.
  intros Sx Hx. pose proof W_val. pose proof HALF_val. rewrite w_sub_wrap. replace (0 - x) with (- x) by lia.
  split; [| f_equal; lia].
  destruct (Z.eqb_spec x MINS) as [->|N]; [reflexivity|].
  assert (S2 : sword (- x)) by (unfold sword, MINS, MAXS in *; lia).
  rewrite (w_eq_wrap x (- x) Sx S2). replace (x =? - x) with false by lia. reflexivity.
Qed.

(* ---------------- legacy exactness ---------------- *)
Theorem shift_exact sx Tb e ex en x n : ty_ok Tb -> in_range (int_t sx) x -> in_range Tb n ->
  leval e ex = Val (wrap x) -> leval e en = Val (wrap n) ->
  leval e (m_shift sx (nsigned Tb) ex en) = Val (wrap (shift_spec sx x n)).
Proof.
  intros OkB Hx Hn Ex En. unfold m_shift. destruct (nsigned Tb) eqn:Sb.
  - pose proof (shift_word sx Tb x n OkB Sb Hx Hn) as SW. cbn [leval]. rewrite En. cbn [ev2].
    destruct (w_slt (wrap n) (wrap 0) =? 0).
    + cbn [leval]. rewrite Ex. cbn [ev2]. rewrite SW. reflexivity.
    + cbn [leval]. rewrite Ex. cbn [leval ev2]. rewrite <- SW. destruct sx; reflexivity.
  - cbn [leval]. rewrite Ex, En. cbn [ev2]. rewrite (shift_word_u sx Tb x n OkB Sb Hn). reflexivity.
Qed.

Theorem abs_exact e ex x : sword x -> leval e ex = Val (wrap x) ->
  leval e (m_abs ex) = enc_out (if x =? MINS then Revert else Val (Z.abs x)).
Proof.
  intros Sx Ex. unfold m_abs. cbn [leval]. rewrite Ex.
  cbn [leval lookup String.eqb Ascii.eqb Bool.eqb ev2]. rewrite (slt0_val x Sx), b2z_eq0.
  destruct (Z.ltb_spec x 0); cbn [negb].
  - destruct (abs_cases x Sx ltac:(lia)) as [A B]. rewrite A, B, b2z_eq0.
    destruct (x =? MINS); cbn [negb enc_out]; reflexivity.
  - replace (x =? MINS) with false by (unfold sword, MINS in *; wl). cbn [enc_out]. rewrite Z.abs_eq by lia. reflexivity.
Qed.

Theorem modop_exact (o : op3) e ex ey ez a b c : uword a -> uword b -> uword c -> o <> OSelect ->
  leval e ex = Val (wrap a) -> leval e ey = Val (wrap b) -> leval e ez = Val (wrap c) ->
  leval e (m_modop o ex ey ez) =
  enc_out (if c =? 0 then Revert else Val (match o with OAddmod => (a + b) mod c | _ => (a * b) mod c end)).
Proof.
  intros Ha Hb Hc No Ex Ey Ez. unfold m_modop. cbn [leval]. rewrite Ez, Ey, Ex.
  rewrite (wrap_small a), (wrap_small b), (wrap_small c) by assumption.
  destruct (Z.eqb_spec c 0) as [->|Nz]; [reflexivity|]. cbn [enc_out].
  unfold uword in *.
  destruct o; [| |contradiction]; cbn [ev3]; unfold w_addmod, w_mulmod; replace (c =? 0) with false by lia; f_equal;
    symmetry; apply wrap_small; match goal with |- 0 <= ?m mod c < W => pose proof (Z.mod_pos_bound m c ltac:(lia)) end; lia.
Qed.

Theorem powmod_exact e ex ey a b : uword a -> uword b ->
  leval e ex = Val (wrap a) -> leval e ey = Val (wrap b) -> leval e (L2 OExp ex ey) = Val (wrap (a ^ b mod W)).
Proof.
  intros Ha Hb Ex Ey. cbn [leval]. rewrite Ey, Ex. cbn [ev2]. rewrite (w_exp_wrap a b Hb). f_equal.
  unfold wrap. symmetry. apply Z.mod_mod. pose proof W_val. lia.
Qed.

Theorem invert_exact T e ex x : inv_ok T = true -> c_in_range T x -> leval e ex = Val (wrap x) ->
  leval e (m_invert T ex) = Val (wrap (c_hi T - x)).
Proof.
  intros Ok Hx Ex. pose proof W_val. unfold c_in_range in Hx.
  destruct T as [T| | |m|n]; cbn [inv_ok] in Ok; try discriminate Ok; cbn [m_invert leval]; rewrite Ex; cbn [ev1 ev2].
  - assert (T = uint256_t).
    { destruct T as [k s d]. unfold nty_eqb, uint256_t in Ok. cbn in Ok. destruct s, d; cbn in Ok; rewrite ?andb_false_r in Ok;
        try discriminate Ok. rewrite !andb_true_r in Ok. apply Z.eqb_eq in Ok. subst. reflexivity. }
    subst T. change (c_hi (CNum uint256_t)) with MAXU in *. change (c_lo (CNum uint256_t)) with 0 in *.
    unfold w_not. rewrite (wrap_small x) by wl. f_equal. symmetry. apply wrap_small. wl.
  - apply Z.eqb_eq in Ok. subst m. change (c_hi (CBytes 32)) with MAXU in *. change (c_lo (CBytes 32)) with 0 in *.
    unfold w_not. rewrite (wrap_small x) by wl. f_equal. symmetry. apply wrap_small. wl.
  - assert (Hn : 1 <= n <= 256) by lia. cbn [c_hi c_lo] in *.
    pose proof (pow2_le_W n ltac:(lia)). assert (0 < 2 ^ n) by (apply Z.pow_pos_nonneg; lia).
    unfold w_xor. rewrite (wrap_small x), (wrap_small (2 ^ n - 1)) by lia.
    rewrite lxor_ones_sub by lia. f_equal. symmetry. apply wrap_small. lia.
Qed.

(* regression for the former defect: a uint256 amount with the top bit set shifts LEFT (result 0), never right *)
Theorem shift_unsigned_amount_regression :
  in_range uint256_t MAXU /\
  leval [("x"%string, wrap 12); ("y"%string, wrap MAXU)] (m_shift false false (LVar "x") (LVar "y")) = Val 0 /\
  leval [("x"%string, wrap 12); ("y"%string, wrap MAXU)] (m_shift false true (LVar "x") (LVar "y")) = Val 6.
Proof. split; [vm_compute; split; discriminate|]. split; vm_compute; reflexivity. Qed.

(* ---------------- Venom exactness (variable operands; literal operands by VSubst.vrun_sub) ---------------- *)
Definition benv3 (a b c : Z) : env := [("%3"%string, wrap c); ("%2"%string, wrap b); ("%1"%string, wrap a)].
Definition benv2 (a b : Z) : env := [("%2"%string, wrap b); ("%1"%string, wrap a)].
Definition benv1 (a : Z) : env := [("%1"%string, wrap a)].
Ltac bstep := unfold vrun; cbn [vsl vstep vval lookup benv3 benv2 benv1 String.eqb Ascii.eqb Bool.eqb ev1 ev2 ev3 fst snd app
                                p1 p2 p3 v_select].

Lemma shl_uword s x : uword (w_shl s x).
Proof. unfold w_shl, uword. pose proof W_val. destruct (s <? 256); [apply Z.mod_pos_bound; lia | lia]. Qed.
Lemma shr_uword s x : uword x -> 0 <= s -> uword (w_shr s x).
Proof.
  unfold w_shr, uword. intros Hx Hs. pose proof W_val. destruct (s <? 256); [|lia].
  assert (0 < 2 ^ s) by (apply Z.pow_pos_nonneg; lia). split; [apply Z.div_pos; lia|].
  apply Z.div_lt_upper_bound; [lia|]. nia.
Qed.
Lemma sar_uword s x : uword (w_sar s x).
Proof.
  unfold w_sar, uword, of_signed. pose proof W_val. destruct (s <? 256); [apply Z.mod_pos_bound; lia|].
  destruct (to_signed x <? 0); unfold MAXU; lia.
Qed.

Theorem vshift_exact sx Tb x n : ty_ok Tb -> in_range (int_t sx) x -> in_range Tb n ->
  vrun (benv2 x n) (v_shift sx (nsigned Tb)) = Val (wrap (shift_spec sx x n)).
Proof.
  intros OkB Hx Hn. unfold v_shift. destruct (nsigned Tb) eqn:Sb; cbn [negb].
  - pose proof (shift_word sx Tb x n OkB Sb Hx Hn) as SW.
    pose proof (sword_of_range Tb n OkB Sb Hn) as Sn. rewrite (slt0_val n Sn), b2z_eq0 in SW.
    destruct sx; bstep; rewrite (slt0_val n Sn); f_equal; rewrite <- SW.
    + rewrite select_val by (try apply sar_uword; apply shl_uword). destruct (n <? 0); reflexivity.
    + rewrite select_val; [destruct (n <? 0); reflexivity | | apply shl_uword].
      apply shr_uword; [apply wrap_range | unfold w_sub; apply Z.mod_pos_bound; pose proof W_val; lia].
  - bstep. rewrite (shift_word_u sx Tb x n OkB Sb Hn). reflexivity.
Qed.

Theorem vabs_exact x : sword x ->
  vrun (benv1 x) v_abs = enc_out (if x =? MINS then Revert else Val (Z.abs x)).
Proof.
  intros Sx. pose proof W_val. pose proof HALF_val. unfold v_abs. bstep. rewrite (slt0_val x Sx).
  destruct (Z.ltb_spec x 0).
  - destruct (abs_cases x Sx ltac:(lia)) as [A B]. rewrite B.
    assert (EQ : w_eq (wrap x) (wrap (Z.abs x)) = b2z (x =? MINS)).
    { rewrite B in A. unfold w_iszero, w_eq in *.
      destruct (wrap x =? wrap (Z.abs x)); destruct (x =? MINS); cbn in *; congruence. }
    rewrite EQ. rewrite w_and_b2z, w_iszero_b2z, b2z_eq0. cbn [andb negb].
    destruct (x =? MINS); cbn [negb enc_out]; [reflexivity|].
    bstep. f_equal. rewrite (select_val true) by apply wrap_range. reflexivity.
  - replace (x =? MINS) with false by (unfold sword, MINS in *; wl). cbn [enc_out].
    unfold w_eq. rewrite w_and_b2z, w_iszero_b2z, b2z_eq0. cbn [andb negb].
    bstep. f_equal. rewrite (select_val false) by (try apply wrap_range; unfold w_sub; apply Z.mod_pos_bound; lia).
    rewrite Z.abs_eq by lia. reflexivity.
Qed.

Theorem vmodop_exact (o : op3) a b c : uword a -> uword b -> uword c -> o <> OSelect ->
  vrun (benv3 a b c) (v_modop o) =
  enc_out (if c =? 0 then Revert else Val (match o with OAddmod => (a + b) mod c | _ => (a * b) mod c end)).
Proof.
  intros Ha Hb Hc No. unfold v_modop, benv3. rewrite (wrap_small a), (wrap_small b), (wrap_small c) by assumption. bstep.
  destruct (Z.eqb_spec c 0) as [->|Nz]; [reflexivity|]. cbn [enc_out]. bstep. unfold uword in *.
  destruct o; [| |contradiction]; cbn [ev3]; unfold w_addmod, w_mulmod; replace (c =? 0) with false by lia; f_equal;
    symmetry; apply wrap_small; match goal with |- 0 <= ?m mod c < W => pose proof (Z.mod_pos_bound m c ltac:(lia)) end; lia.
Qed.

Theorem vpowmod_exact a b : uword a -> uword b ->
  vrun (benv2 a b) ([V2 "%3" OExp p2 p1], VVar "%3") = Val (wrap (a ^ b mod W)).
Proof.
  intros Ha Hb. bstep. rewrite (w_exp_wrap a b Hb). f_equal. unfold wrap. symmetry. apply Z.mod_mod. pose proof W_val. lia.
Qed.

Theorem vinvert_exact T x : inv_ok T = true -> c_in_range T x ->
  vrun (benv1 x) (v_invert T) = Val (wrap (c_hi T - x)).
Proof.
  intros Ok Hx.
  pose proof (invert_exact T (benv1 x) (LVar "%1") x Ok Hx eq_refl) as L.
  destruct T as [T| | |m|n]; cbn [inv_ok] in Ok; try discriminate Ok; cbn [v_invert m_invert] in *; bstep;
    cbn [leval lookup benv1 String.eqb Ascii.eqb Bool.eqb ev1 ev2] in L; try exact L.
  unfold w_xor in *. rewrite Z.lxor_comm. exact L.
Qed.
