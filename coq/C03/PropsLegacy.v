(* C03, legacy front end: every arithmetic template that the real code generator
   (vyper/codegen/arithmetic.py, expr.py USub, core.py clamp_basetype) emits for the 65 numeric types,
   operands in variables, evaluates to exactly the mathematical result if representable, else reverts;
   for ALL operand values of the type.  (GenLegacy.v is regenerated from /repo on every run.) *)
From Coq Require Import ZArith Bool List String Lia.
From Verif Require Import Base.Word256 C03.LIR C03.ArithSpec C03.WordArith C03.TypeLemmas C03.ArithModel
  C03.TieBase C03.TieModels C03.GenLegacy C03.LegacyExact C03.TieLegacy.
Import ListNotations.
Open Scope Z_scope.

Lemma opd_ea sh lit x y : (sh = 1 -> x = lit) -> opd (env2 x y) (ea_of sh lit) x.
Proof.
  intros H. unfold ea_of. destruct (Z.eqb_spec sh 1) as [E|E]; [rewrite <- (H E); apply opd_lit | apply opd_x].
Qed.
Lemma opd_eb sh lit x y : (sh = 2 -> y = lit) -> opd (env2 x y) (eb_of sh lit) y.
Proof.
  intros H. unfold eb_of. destruct (Z.eqb_spec sh 2) as [E|E]; [rewrite <- (H E); apply opd_lit | apply opd_y].
Qed.

(* shape sh: 0 = both operands in IR variables; 1 = x is the literal lit; 2 = y is the literal lit *)
Theorem legacy_arith_exact : forall op T sh lit t, In (op, T, sh, lit, t) legacy_templates ->
  forall x y, in_range T x -> in_range T y -> (sh = 1 -> x = lit) -> (sh = 2 -> y = lit) ->
  leval (env2 x y) t = enc_out (arith_spec T op x y).
Proof.
  intros op T sh lit t HIn x y Hx Hy Lx Ly.
  pose proof tie_arith_legacy as Tie. rewrite forallb_forall in Tie. specialize (Tie _ HIn).
  unfold tie_one in Tie. apply andb_true_iff in Tie. destruct Tie as [Ok M].
  apply andb_true_iff in Ok. destruct Ok as [Ok _]. apply ty_okb_ok in Ok.
  apply existsb_exists in M. destruct M as [m [Mm E]]. apply lir_eqb_eq in E. subst t.
  pose proof (opd_ea sh lit x y Lx) as Oa. pose proof (opd_eb sh lit x y Ly) as Ob.
  destruct op; cbn [models] in Mm.
  - apply in_map_iff in Mm. destruct Mm as [b [<- _]]. apply safe_add_exact; assumption.
  - apply in_map_iff in Mm. destruct Mm as [b [<- _]]. apply safe_sub_exact; assumption.
  - apply in_flat_map in Mm. destruct Mm as [b1 [_ Mm]]. apply in_map_iff in Mm. destruct Mm as [b2 [<- _]].
    apply safe_mul_exact; assumption.
  - apply in_map_iff in Mm. destruct Mm as [b [<- _]]. apply safe_div_exact; assumption.
  - destruct Mm as [<- | []]. apply safe_mod_exact; assumption.
  - destruct (nsigned T) eqn:S; [|destruct Mm]. destruct (sh =? 0); cbn [andb] in Mm; [|destruct Mm].
    destruct Mm as [<- | []]. apply usub_exact; assumption.
  - destruct Mm.
Qed.
Print Assumptions legacy_arith_exact.

Theorem legacy_family_complete :
  map fst legacy_templates = expected_keys /\ List.length legacy_templates = 3573%nat.
Proof. split; [exact family_complete_legacy | reflexivity]. Qed.

(* int_clamp_iff: the clamp passes, returning the word unchanged, iff the word is canonical for the type *)
Theorem int_clamp_iff : forall T t, In (T, t) legacy_clamps ->
  forall w, uword w ->
  leval [("x"%string, w)] t = if in_rangeb T (sval (nsigned T) w) then Val w else Revert.
Proof.
  intros T t HIn w Hw.
  pose proof tie_clamp_legacy as Tie. rewrite forallb_forall in Tie. specialize (Tie _ HIn).
  unfold tie_clamp_one in Tie. apply andb_true_iff in Tie. destruct Tie as [Ok M].
  apply ty_okb_ok in Ok. apply lir_eqb_eq in M. subst t. apply clamp_basetype_iff; assumption.
Qed.
Print Assumptions int_clamp_iff.

(* non-vacuity: the hypotheses are satisfiable at the boundaries and the tables are populated *)
Definition aop_code (o : aop) : Z :=
  match o with AAdd => 0 | ASub => 1 | AMul => 2 | ADiv => 3 | AMod => 4 | AUSub => 5 | APow => 6 end.
Definition key_eqb (a b : aop * nty) : bool :=
  (aop_code (fst a) =? aop_code (fst b)) && (nbytes (snd a) =? nbytes (snd b))
  && Bool.eqb (nsigned (snd a)) (nsigned (snd b)) && Bool.eqb (ndec (snd a)) (ndec (snd b)).
Definition outcome_eqb (a b : outcome) : bool :=
  match a, b with Val x, Val y => x =? y | Revert, Revert => true | Unit, Unit => true | _, _ => false end.
Definition has_case (op : aop) (T : nty) (x y : Z) (o : outcome) : bool :=
  existsb (fun p => match p with (o', T', sh, _, t) =>
                      key_eqb (o', T') (op, T) && (sh =? 0) && outcome_eqb (leval (env2 x y) t) o end) legacy_templates.

Example legacy_nonvacuous :
  let i8 := Build_nty 1 true false in
  in_range i8 (-128) /\ in_range i8 127 /\
  has_case AMul i8 (-128) (-1) Revert = true /\ has_case AMul i8 (-128) 1 (Val (W - 128)) = true /\
  has_case ADiv (Build_nty 32 true false) MINS (-1) Revert = true /\
  has_case ADiv decimal_t 10000000000 30000000000 (Val 3333333333) = true.
Proof.
  cbv zeta. split; [unfold in_range; cbn; lia|]. split; [unfold in_range; cbn; lia|].
  repeat split; vm_compute; reflexivity.
Qed.
