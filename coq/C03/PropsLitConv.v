(* C03: convert(<literal>, T), both front ends, about the REAL results exported in GenLitConv.v (literal typed by the REAL
   front end; legacy: _literal_int / _literal_decimal constants or the runtime template on a literal; venom: runtime template on
   a literal): every accepted case evaluates to exactly conv_spec (type of the literal) T (value of the literal) -- the same
   conv_spec that the runtime templates are proved against (PropsConv*.v) and that C17's fold model is proved against
   (C17/PropsBridge.v fold_convert_agrees_runtime_spec, fold_convert_decimal_agrees_runtime_spec) -- and every rejected case
   of an allowed pair has no representable result. *)
From Coq Require Import ZArith Bool List String Lia.
From Verif Require Import Base.Word256 C03.LIR C03.VSL C03.ArithSpec C03.ConvSpec C03.ConvExact C03.ConvTie C03.LitConvTie
  C03.GenLitConv C03.TieLitConv.
Import ListNotations.
Open Scope Z_scope.

Theorem legacy_literal_convert_exact : forall Tin Tout v t, In (Tin, Tout, v, Some t) legacy_litconverts ->
  conv_allowed Tin Tout = true /\ c_in_range Tin v /\ leval [] t = c_enc_out Tout (conv_spec Tin Tout v).
Proof.
  intros Tin Tout v t HIn. pose proof tie_litconverts_legacy as Tie. rewrite forallb_forall in Tie.
  exact (lit_tie_l_sound Tin Tout v t (Tie _ HIn)).
Qed.
Theorem venom_literal_convert_exact : forall Tin Tout v t, In (Tin, Tout, v, Some t) venom_litconverts ->
  conv_allowed Tin Tout = true /\ c_in_range Tin v /\ vrun [] t = c_enc_out Tout (conv_spec Tin Tout v).
Proof.
  intros Tin Tout v t HIn. pose proof tie_litconverts_venom as Tie. rewrite forallb_forall in Tie.
  exact (lit_tie_v_sound Tin Tout v t (Tie _ HIn)).
Qed.
Print Assumptions venom_literal_convert_exact.

Theorem legacy_literal_reject_sound : forall Tin Tout v, In (Tin, Tout, v, None) legacy_litconverts ->
  conv_allowed Tin Tout = true -> forall x, conv_spec Tin Tout v <> Val x.
Proof.
  intros Tin Tout v HIn Al x E. pose proof tie_litconverts_legacy as Tie. rewrite forallb_forall in Tie.
  specialize (Tie _ HIn). unfold lit_tie_l in Tie. apply andb_true_iff in Tie. destruct Tie as [_ H].
  rewrite Al, E in H. discriminate H.
Qed.
Theorem venom_literal_reject_sound : forall Tin Tout v, In (Tin, Tout, v, None) venom_litconverts ->
  conv_allowed Tin Tout = true -> forall x, conv_spec Tin Tout v <> Val x.
Proof.
  intros Tin Tout v HIn Al x E. pose proof tie_litconverts_venom as Tie. rewrite forallb_forall in Tie.
  specialize (Tie _ HIn). unfold lit_tie_v in Tie. apply andb_true_iff in Tie. destruct Tie as [_ H].
  rewrite Al, E in H. discriminate H.
Qed.

(* the literal paths agree with the documented special cases *)
Example literal_spec_cases :
  conv_spec (CBytes 1) (CNum (Build_nty 1 true false)) 255 = Val (-1) /\                    (* convert(0xff, int8) = -1 *)
  conv_spec (CNum decimal_t) (CNum (Build_nty 1 true false)) 1279000000000 = Revert /\      (* convert(127.9, int8): out of range BEFORE truncation *)
  conv_spec (CNum decimal_t) (CNum (Build_nty 1 false false)) 15000000000 = Val 1 /\        (* convert(1.5, uint8) = 1 *)
  conv_spec (CNum (Build_nty 1 false false)) (CNum decimal_t) 5 = Val 50000000000 /\        (* convert(5, decimal) *)
  conv_spec CBool (CNum decimal_t) 1 = Val 10000000000.
Proof. repeat split; vm_compute; reflexivity. Qed.
