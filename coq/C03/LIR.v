(* LIR: deep embedding of the pure (memory-free) subset of vyper's legacy s-expression IR
   (vyper/codegen/ir_node.py IRnode) that the arithmetic / clamp / convert templates use,
   with a big-step evaluator [leval] stated against Base/Word256.v.
   No proofs here.  n-ary [seq a b c] is represented right-nested: LSeq a (LSeq b c).
   Evaluation is structural (no loops in this subset), so no fuel is needed.
   Outcomes: Val w (an EVM word), Unit (statement executed, no value), Revert, Stuck
   (ill-formed term: unbound variable, value expected but statement found ...).  Theorems
   always show Val/Revert explicitly, so Stuck can never make a theorem true. *)
From Coq Require Import ZArith Bool List String.
From Verif Require Import Base.Word256.
Import ListNotations.
Open Scope Z_scope.

Inductive op1 := OIszero | ONot.
Inductive op2 :=
  | OAdd | OSub | OMul | ODiv | OSdiv | OMod | OSmod | OExp
  | OLt | OGt | OSlt | OSgt | OEq
  | OLe | OGe | OSle | OSge | ONe            (* pseudo-ops, lowered by compile_ir.py *)
  | OAnd | OOr | OXor | OShl | OShr | OSar | OSignextend | OByte.
Inductive op3 := OAddmod | OMulmod | OSelect.

Inductive lir :=
  | LInt (n : Z)                       (* literal; negative literals denote their two's complement word *)
  | LVar (s : string)
  | L1 (o : op1) (a : lir)
  | L2 (o : op2) (a b : lir)
  | L3 (o : op3) (a b c : lir)
  | LWith (v : string) (e body : lir)
  | LSeq (a b : lir)
  | LPass
  | LAssert (c : lir)
  | LIf (c t e : lir).

Inductive outcome := Val (w : Z) | Unit | Revert | Stuck.

Definition ev1 (o : op1) (a : Z) : Z :=
  match o with OIszero => w_iszero a | ONot => w_not a end.

Definition ev2 (o : op2) (a b : Z) : Z :=
  match o with
  | OAdd => w_add a b | OSub => w_sub a b | OMul => w_mul a b
  | ODiv => w_div a b | OSdiv => w_sdiv a b | OMod => w_mod a b | OSmod => w_smod a b
  | OExp => w_exp a b
  | OLt => w_lt a b | OGt => w_gt a b | OSlt => w_slt a b | OSgt => w_sgt a b | OEq => w_eq a b
  | OLe => w_iszero (w_gt a b) | OGe => w_iszero (w_lt a b)
  | OSle => w_iszero (w_sgt a b) | OSge => w_iszero (w_slt a b)
  | ONe => w_iszero (w_eq a b)
  | OAnd => w_and a b | OOr => w_or a b | OXor => w_xor a b
  | OShl => w_shl a b | OShr => w_shr a b | OSar => w_sar a b
  | OSignextend => w_signextend a b | OByte => w_byte a b
  end.

(* select cond a b is compiled to  b xor ((a xor b) * cond) *)
Definition ev3 (o : op3) (a b c : Z) : Z :=
  match o with
  | OAddmod => w_addmod a b c | OMulmod => w_mulmod a b c
  | OSelect => w_xor c (w_mul (w_xor b c) a)
  end.

Definition env := list (string * Z).
Fixpoint lookup (e : env) (s : string) : option Z :=
  match e with
  | [] => None
  | (k, v) :: r => if String.eqb k s then Some v else lookup r s
  end.

(* arguments are evaluated last-to-first, as compile_ir does (only matters for Stuck-vs-Revert) *)
Fixpoint leval (e : env) (t : lir) : outcome :=
  match t with
  | LInt n => Val (wrap n)
  | LVar s => match lookup e s with Some v => Val v | None => Stuck end
  | L1 o a =>
      match leval e a with
      | Val x => Val (ev1 o x) | Revert => Revert | _ => Stuck end
  | L2 o a b =>
      match leval e b with
      | Val y => match leval e a with
                 | Val x => Val (ev2 o x y) | Revert => Revert | _ => Stuck end
      | Revert => Revert | _ => Stuck end
  | L3 o a b c =>
      match leval e c with
      | Val z =>
          match leval e b with
          | Val y => match leval e a with
                     | Val x => Val (ev3 o x y z) | Revert => Revert | _ => Stuck end
          | Revert => Revert | _ => Stuck end
      | Revert => Revert | _ => Stuck end
  | LWith v a body =>
      match leval e a with
      | Val x => leval ((v, x) :: e) body
      | Revert => Revert | _ => Stuck end
  | LSeq a b =>
      match leval e a with
      | Revert => Revert | Stuck => Stuck
      | _ => leval e b end
  | LPass => Unit
  | LAssert c =>
      match leval e c with
      | Val x => if x =? 0 then Revert else Unit
      | Revert => Revert | _ => Stuck end
  | LIf c t f =>
      match leval e c with
      | Val x => if x =? 0 then leval e f else leval e t
      | Revert => Revert | _ => Stuck end
  end.

(* ---- decidable syntactic equality (for the O-tie) ---- *)
Definition op1_eqb (a b : op1) : bool :=
  match a, b with OIszero, OIszero | ONot, ONot => true | _, _ => false end.
Definition op2_code (o : op2) : Z :=
  match o with
  | OAdd => 1 | OSub => 2 | OMul => 3 | ODiv => 4 | OSdiv => 5 | OMod => 6 | OSmod => 7 | OExp => 8
  | OLt => 9 | OGt => 10 | OSlt => 11 | OSgt => 12 | OEq => 13
  | OLe => 14 | OGe => 15 | OSle => 16 | OSge => 17 | ONe => 18
  | OAnd => 19 | OOr => 20 | OXor => 21 | OShl => 22 | OShr => 23 | OSar => 24 | OSignextend => 25 | OByte => 26
  end.
Definition op2_eqb (a b : op2) : bool := op2_code a =? op2_code b.
Definition op3_eqb (a b : op3) : bool :=
  match a, b with OAddmod, OAddmod | OMulmod, OMulmod | OSelect, OSelect => true | _, _ => false end.

Fixpoint lir_eqb (s t : lir) : bool :=
  match s, t with
  | LInt a, LInt b => a =? b
  | LVar a, LVar b => String.eqb a b
  | L1 o a, L1 o' a' => op1_eqb o o' && lir_eqb a a'
  | L2 o a b, L2 o' a' b' => op2_eqb o o' && lir_eqb a a' && lir_eqb b b'
  | L3 o a b c, L3 o' a' b' c' => op3_eqb o o' && lir_eqb a a' && lir_eqb b b' && lir_eqb c c'
  | LWith v a b, LWith v' a' b' => String.eqb v v' && lir_eqb a a' && lir_eqb b b'
  | LSeq a b, LSeq a' b' => lir_eqb a a' && lir_eqb b b'
  | LPass, LPass => true
  | LAssert a, LAssert a' => lir_eqb a a'
  | LIf a b c, LIf a' b' c' => lir_eqb a a' && lir_eqb b b' && lir_eqb c c'
  | _, _ => false
  end.
