(* C03, convert() on word-sized types, Venom front end (vyper/codegen_venom/builtins/convert.py), for the pairs
   that the documented conversion rules (= the legacy front end) allow.  GenConvVenom.v regenerated every run. *)
From Coq Require Import ZArith Bool List String Lia.
From Verif Require Import Base.Word256 C03.LIR C03.VSL C03.ArithSpec C03.ConvSpec C03.ConvModel C03.TieBase C03.TieModels
  C03.LegacyExact C03.ConvExact C03.VConvExact C03.ConvTie C03.GenConvVenom C03.TieConvVenom.
Import ListNotations.
Open Scope Z_scope.

Theorem venom_convert_exact : forall Tin Tout t, In (Tin, Tout, t) venom_converts ->
  forall v, c_in_range Tin v ->
  vrun [("%1"%string, c_enc Tin v)] t = c_enc_out Tout (conv_spec Tin Tout v).
Proof.
  intros Tin Tout t HIn v Hv.
  pose proof tie_convert_venom as Tie. rewrite forallb_forall in Tie. specialize (Tie _ HIn).
  unfold vctie_one in Tie. repeat (apply andb_true_iff in Tie; destruct Tie as [Tie ?]).
  apply vtemplate_eqb_eq in H. subst t.
  apply vconvert_exact; try assumption; apply cty_okb_ok; assumption.
Qed.
Print Assumptions venom_convert_exact.

Theorem venom_convert_family_complete :
  ckeys_eqb (ckeys venom_converts) conv_pairs = true /\ Z.of_nat (List.length venom_converts) = 8618.
Proof. split; [exact family_complete_convert_venom | reflexivity]. Qed.
