(* clamp_basetype for every word-sized type (integers, decimal, bool, address, bytesM, flags), three
   implementations: legacy core.clamp_basetype, codegen_venom/arithmetic.clamp_basetype (bounds compares) and
   codegen_venom/abi/abi_decoder.clamp_basetype (signextend / shr / shl forms).  Each passes, returning the word
   unchanged, iff the word is the canonical representation of a value of the type; otherwise it reverts. *)
From Coq Require Import ZArith Znumtheory Bool List Lia ZifyBool String.
From Verif Require Import Base.Word256 C03.LIR C03.VSL C03.ArithSpec C03.ConvSpec C03.WordArith C03.TypeLemmas
  C03.ArithModel C03.ConvModel C03.LegacyExact C03.VenomExact C03.ConvExact C03.VConvExact.
Import ListNotations.
Open Scope Z_scope.
Open Scope list_scope.

(* ---------------- canonical words ---------------- *)
Definition c_canonb (T : cty) (w : Z) : bool :=
  match T with
  | CNum T => in_rangeb T (sval (nsigned T) w)
  | CBool => w <=? 1
  | CAddr => w <? 2 ^ 160
  | CBytes m => w mod 2 ^ (8 * (32 - m)) =? 0
  | CFlag n => w <? 2 ^ n
  end.

Theorem c_canonb_iff T w : cty_ok T -> uword w ->
  (c_canonb T w = true <-> exists v, c_in_range T v /\ c_enc T v = w).
Proof.
  intros Ok Hw. pose proof W_val. pose proof HALF_val. unfold uword in Hw.
  destruct T as [T| | |m|n]; cbn [c_canonb c_enc]; unfold c_in_range; cbn [c_lo c_hi].
  - cbn in Ok. destruct T as [k s d]. destruct Ok as [Hk _]. cbn [nbytes nsigned] in *. rewrite in_rangeb_iff.
    split.
    + intros R. exists (sval s w). split; [exact R|]. destruct s; cbn [sval]; [apply wrap_ts | apply wrap_small]; exact Hw.
    + intros [v [R E]]. subst w. pose proof (in_range_fits k s d v Hk R) as F. rewrite sval_wrap by exact F. exact R.
  - split.
    + intros L. exists w. split; [lia | apply wrap_small; lia].
    + intros [v [R E]]. subst w. rewrite wrap_small by lia. lia.
  - assert (2 ^ 160 <= W) by (apply pow2_le_W; lia). split.
    + intros L. exists w. split; [lia | apply wrap_small; lia].
    + intros [v [R E]]. subst w. rewrite wrap_small by lia. lia.
  - cbn in Ok. assert (P : 0 < 2 ^ (8 * (32 - m))) by (apply Z.pow_pos_nonneg; lia).
    assert (HW : W = 2 ^ (8 * (32 - m)) * 2 ^ (8 * m)).
    { rewrite (W_split (8 * (32 - m))) by lia. f_equal. f_equal. lia. }
    split.
    + intros Z0. exists (w / 2 ^ (8 * (32 - m))).
      pose proof (Z.div_mod w (2 ^ (8 * (32 - m))) ltac:(lia)) as D.
      assert (0 <= w / 2 ^ (8 * (32 - m))) by (apply Z.div_pos; lia).
      split; [|lia]. split; [lia|]. assert (0 < 2 ^ (8 * m)) by (apply Z.pow_pos_nonneg; lia). nia.
    + intros [v [R E]]. subst w. rewrite Z_mod_mult. reflexivity.
  - cbn in Ok. assert (2 ^ n <= W) by (apply pow2_le_W; lia). split.
    + intros L. exists w. split; [lia | apply wrap_small; lia].
    + intros [v [R E]]. subst w. rewrite wrap_small by lia. lia.
Qed.

(* ---------------- models ---------------- *)
Definition m_bytes_clamp (m : Z) (er : lir) : lir := LSeq (LAssert (L1 OIszero (L2 OShl (LInt (8 * m)) er))) er.
Definition m_cclamp (T : cty) : lir :=
  match T with
  | CNum T => m_clamp_basetype T
  | CBool => m_uclamp_of 1 vx
  | CAddr => m_uclamp_of 160 vx
  | CBytes m => if m <? 32 then m_bytes_clamp m vx else vx
  | CFlag n => m_uclamp_of n vx
  end.
(* codegen_venom/arithmetic.clamp_basetype *)
Definition v_cclamp_arith (T : cty) : vtemplate :=
  match T with
  | CNum T => v_clamp_basetype T
  | CBool => (v_assert_ule 1 px 3, px)
  | CAddr => (v_assert_ule (2 ^ 160 - 1) px 3, px)
  | CBytes m => (if m <? 32 then [ V2 "%3" OShl px (VLit (8 * m)); V1 "%4" OIszero (VVar "%3"); VAssert (VVar "%4") ] else [], px)
  | CFlag _ => ([], px)
  end.
(* codegen_venom/abi/abi_decoder.clamp_basetype *)
Definition v_abi_uclamp (bits : Z) : vtemplate :=
  ([ V2 "%3" OShr px (VLit bits); V1 "%4" OIszero (VVar "%3"); VAssert (VVar "%4") ], px).
Definition v_cclamp_abi (T : cty) : vtemplate :=
  match T with
  | CNum T => if nbytes T <? 32
              then (if nsigned T
                    then ([ V2 "%3" OSignextend px (VLit (nbytes T - 1)); V2 "%4" OEq (VVar "%3") px; VAssert (VVar "%4") ], px)
                    else v_abi_uclamp (nbits T))
              else ([], px)
  | CBool => v_abi_uclamp 1
  | CAddr => v_abi_uclamp 160
  | CBytes m => (if m <? 32 then [ V2 "%3" OShl px (VLit (8 * m)); V1 "%4" OIszero (VVar "%3"); VAssert (VVar "%4") ] else [], px)
  | CFlag n => v_abi_uclamp n
  end.

(* ---------------- word facts ---------------- *)
Lemma shl_check m w : 1 <= m <= 31 -> uword w -> (w_shl (wrap (8 * m)) w =? 0) = (w mod 2 ^ (8 * (32 - m)) =? 0).
Proof.
  intros Hm Hw. pose proof W_val. rewrite wrap_small by lia. unfold w_shl. replace (8 * m <? 256) with true by lia.
  rewrite mul_pow_mod by lia. replace (256 - 8 * m) with (8 * (32 - m)) by lia.
  assert (0 < 2 ^ (8 * m)) by (apply Z.pow_pos_nonneg; lia).
  pose proof (Z.mod_pos_bound w (2 ^ (8 * (32 - m))) ltac:(apply Z.pow_pos_nonneg; lia)).
  destruct (Z.eqb_spec (w mod 2 ^ (8 * (32 - m))) 0) as [E|E]; [rewrite E; reflexivity | apply Z.eqb_neq; nia].
Qed.

Lemma canon_num_256 s d w : uword w -> in_rangeb (Build_nty 32 s d) (sval s w) = true.
Proof.
  intros Hw. apply in_rangeb_iff. unfold in_range. pose proof W_val. pose proof HALF_val.
  destruct s; cbn [sval]; [rewrite ty_lo_s, ty_hi_s, Hb_32 | rewrite ty_lo_u, ty_hi_u, Hb_32 by lia].
  - pose proof (ts_range w Hw). unfold sword, MINS, MAXS in *. lia.
  - unfold uword in Hw. lia.
Qed.

(* ---------------- legacy ---------------- *)
Theorem cclamp_iff T w : cty_ok T -> (match T with CFlag n => n < 256 | _ => True end) -> uword w ->
  leval [("x"%string, w)] (m_cclamp T) = if c_canonb T w then Val w else Revert.
Proof.
  intros Ok FL Hw. pose proof W_val. unfold uword in Hw.
  assert (Hx : leval [("x"%string, w)] vx = Val w) by reflexivity.
  destruct T as [T| | |m|n]; cbn [m_cclamp c_canonb].
  - cbn in Ok. apply clamp_basetype_iff; assumption.
  - rewrite (uclamp_of_eval _ _ _ w) by (try lia; assumption). change (2 ^ 1) with 2.
    destruct (Z.ltb_spec w 2), (Z.leb_spec w 1); try lia; reflexivity.
  - apply uclamp_of_eval; try lia; assumption.
  - cbn in Ok. destruct (Z.ltb_spec m 32).
    + unfold m_bytes_clamp. cbn [leval]. rewrite !Hx. cbn [leval ev1 ev2]. unfold w_iszero.
      rewrite shl_check by (try lia; exact Hw). rewrite b2z_eq0.
      destruct (w mod 2 ^ (8 * (32 - m)) =? 0); reflexivity.
    + assert (m = 32) by lia. subst m. rewrite Hx. change (8 * (32 - 32)) with 0. rewrite Z.pow_0_r, Z.mod_1_r. reflexivity.
  - cbn in Ok. apply uclamp_of_eval; try lia; assumption.
Qed.

(* ---------------- venom ---------------- *)
Lemma v_abi_uclamp_eval n w : 0 <= n < 256 -> uword w ->
  vrun (cenv w) (v_abi_uclamp n) = if w <? 2 ^ n then Val w else Revert.
Proof.
  intros Hn Hw. unfold v_abi_uclamp. cstep. unfold w_iszero. rewrite uclamp_bits by assumption. rewrite b2z_eq0.
  destruct (w <? 2 ^ n); reflexivity.
Qed.

Theorem vcclamp_abi_iff T w : cty_ok T -> (match T with CFlag n => n < 256 | _ => True end) -> uword w ->
  vrun (cenv w) (v_cclamp_abi T) = if c_canonb T w then Val w else Revert.
Proof.
  intros Ok FL Hw. pose proof W_val. pose proof Hw as Hw'. unfold uword in Hw'.
  destruct T as [T| | |m|n]; cbn [v_cclamp_abi c_canonb].
  - cbn in Ok. destruct T as [k s d]. destruct Ok as [Hk _]. cbn [nbytes nsigned] in *. unfold nbits. cbn [nbytes].
    destruct (Z.ltb_spec k 32).
    + destruct s; cbn [sval].
      * cstep. pose proof (sclamp_iff k w ltac:(lia) Hw) as I. rewrite <- (in_rangeb_iff (Build_nty k true false)) in I.
        change (in_rangeb (Build_nty k true d)) with (in_rangeb (Build_nty k true false)).
        unfold w_eq. rewrite b2z_eq0.
        destruct (Z.eqb_spec w (w_signextend (wrap (k - 1)) w)) as [E|E];
          destruct (in_rangeb (Build_nty k true false) (to_signed w)); cbn [negb]; try reflexivity.
        -- exfalso. destruct I as [I _]. specialize (I E). discriminate I.
        -- exfalso. apply E. apply I. reflexivity.
      * rewrite v_abi_uclamp_eval by (try lia; exact Hw). rewrite pow_Hb by lia.
        unfold in_rangeb. rewrite ty_lo_u, ty_hi_u by lia.
        destruct (Z.ltb_spec w (2 * Hb k)); [replace ((0 <=? w) && (w <=? 2 * Hb k - 1)) with true by lia
                                            | replace ((0 <=? w) && (w <=? 2 * Hb k - 1)) with false by lia]; reflexivity.
    + assert (k = 32) by lia. subst k. cstep. rewrite canon_num_256 by exact Hw. reflexivity.
  - rewrite v_abi_uclamp_eval by (try lia; exact Hw). change (2 ^ 1) with 2.
    destruct (Z.ltb_spec w 2), (Z.leb_spec w 1); try lia; reflexivity.
  - apply v_abi_uclamp_eval; [lia | exact Hw].
  - cbn in Ok. destruct (Z.ltb_spec m 32).
    + cstep. unfold w_iszero. rewrite shl_check by (try lia; exact Hw). rewrite b2z_eq0.
      destruct (w mod 2 ^ (8 * (32 - m)) =? 0); reflexivity.
    + assert (m = 32) by lia. subst m. cstep. change (8 * (32 - 32)) with 0. rewrite Z.pow_0_r, Z.mod_1_r. reflexivity.
  - cbn in Ok. apply v_abi_uclamp_eval; [lia | exact Hw].
Qed.

Theorem vcclamp_arith_iff T w : cty_ok T -> (match T with CFlag _ => False | _ => True end) -> uword w ->
  vrun (cenv w) (v_cclamp_arith T) = if c_canonb T w then Val w else Revert.
Proof.
  intros Ok FL Hw. pose proof W_val. pose proof Hw as Hw'. unfold uword in Hw'.
  destruct T as [T| | |m|n]; cbn [v_cclamp_arith c_canonb]; try contradiction.
  - cbn in Ok. apply (vclamp_basetype_iff T w Ok Hw).
  - cstep. rewrite v_ule_val by (try exact Hw; unfold uword; lia). destruct (w <=? 1); reflexivity.
  - assert (P160 : 2 ^ 160 <= W) by (apply pow2_le_W; lia). cstep.
    rewrite v_ule_val by (try exact Hw; unfold uword; lia).
    destruct (Z.leb_spec w (2 ^ 160 - 1)), (Z.ltb_spec w (2 ^ 160)); try lia; reflexivity.
  - cbn in Ok. destruct (Z.ltb_spec m 32).
    + cstep. unfold w_iszero. rewrite shl_check by (try lia; exact Hw). rewrite b2z_eq0.
      destruct (w mod 2 ^ (8 * (32 - m)) =? 0); reflexivity.
    + assert (m = 32) by lia. subst m. cstep. change (8 * (32 - 32)) with 0. rewrite Z.pow_0_r, Z.mod_1_r. reflexivity.
Qed.

Ltac pstep := unfold vrun; cbn [vsl vstep vval lookup venv2 String.eqb Ascii.eqb Bool.eqb ev1 ev2 ev3 px py fst snd].

(* ---------------- Venom unary minus (codegen_venom/expr.py lower_UnaryOp, USub) ---------------- *)
Definition v_usub (T : nty) : vtemplate :=
  ([ V2 "%3" OSgt (VLit (ty_lo T)) px; VAssert (VVar "%3"); V2 "%4" OSub px (VLit 0) ], VVar "%4").

Theorem vusub_exact T x y : ty_ok T -> nsigned T = true -> in_range T x ->
  vrun (venv2 x y) (v_usub T) = enc_out (arith_spec T AUSub x y).
Proof.
  destruct T as [k s d]. cbn [nsigned]. intros [Hk _] -> Hx. cbn [nbytes] in Hk.
  pose proof (in_range_fits k true d x Hk Hx) as Fx. cbn in Fx.
  pose proof (range_bounds k true d x ltac:(lia) Hx) as Bx. cbv iota in Bx.
  pose proof (Hb_pos k ltac:(lia)). pose proof (Hb_le_HALF k Hk). pose proof W_val. pose proof HALF_val.
  assert (Sl : sword (- Hb k)) by (unfold sword, MINS, MAXS; lia).
  unfold v_usub. rewrite ty_lo_s. pstep. unfold enc, w_sgt. rewrite (ts_wrap x Fx), (ts_wrap _ Sl).
  cbn [arith_spec]. rewrite enc_out_chk. unfold in_rangeb. rewrite ty_lo_s, ty_hi_s.
  rewrite b2z_eq0. rewrite Z.gtb_ltb.
  destruct (Z.ltb_spec (- Hb k) x); cbn [negb]; pstep.
  - change (wrap 0) with 0. change 0 with (wrap 0) at 1. unfold enc. rewrite w_sub_wrap. bsolve.
  - bsolve.
Qed.
