(* C03/C05 support: every clamp_basetype the three implementations emit for the word-sized types passes (returning
   the word unchanged) iff the word is the canonical representation of a value of the type (bytes_clamp: the
   low 32-M bytes are zero; address: < 2^160; bool: <= 1; flag: < 2^n; integers/decimal: in range), else reverts.
   Plus the Venom unary-minus template for the 33 signed types. *)
From Coq Require Import ZArith Bool List String Lia.
From Verif Require Import Base.Word256 C03.LIR C03.VSL C03.ArithSpec C03.ConvSpec C03.TypeLemmas C03.WordArith C03.TieBase
  C03.TieModels C03.VenomExact C03.ConvExact C03.VConvExact C03.ConvTie C03.ClampExact C03.ClampTie C03.GenClamp C03.TieClamp.
Import ListNotations.
Open Scope Z_scope.

Lemma flag_lt256_ok T : flag_lt256 T = true -> match T with CFlag n => n < 256 | _ => True end.
Proof. destruct T; cbn; intros; try exact I. lia. Qed.

Theorem bytes_clamp_iff : forall T t, In (T, t) legacy_cclamps -> forall w, uword w ->
  leval [("x"%string, w)] t = if c_canonb T w then Val w else Revert.
Proof.
  intros T t HIn w Hw. pose proof tie_cclamp_legacy as Tie. rewrite forallb_forall in Tie. specialize (Tie _ HIn).
  unfold cltie_one in Tie. repeat (apply andb_true_iff in Tie; destruct Tie as [Tie ?]).
  apply lir_eqb_eq in H. subst t. apply cclamp_iff; [apply cty_okb_ok; exact Tie | apply flag_lt256_ok; exact H0 | exact Hw].
Qed.
Print Assumptions bytes_clamp_iff.

Theorem vclamp_abi_iff : forall T t, In (T, t) venom_cclamps_abi -> forall w, uword w ->
  vrun [("%1"%string, w)] t = if c_canonb T w then Val w else Revert.
Proof.
  intros T t HIn w Hw. pose proof tie_cclamp_venom_abi as Tie. rewrite forallb_forall in Tie. specialize (Tie _ HIn).
  unfold vcbtie_one in Tie. repeat (apply andb_true_iff in Tie; destruct Tie as [Tie ?]).
  apply vtemplate_eqb_eq in H. subst t.
  apply vcclamp_abi_iff; [apply cty_okb_ok; exact Tie | apply flag_lt256_ok; exact H0 | exact Hw].
Qed.
Print Assumptions vclamp_abi_iff.

Theorem vclamp_arith_iff : forall T t, In (T, t) venom_cclamps_arith -> forall w, uword w ->
  vrun [("%1"%string, w)] t = if c_canonb T w then Val w else Revert.
Proof.
  intros T t HIn w Hw. pose proof tie_cclamp_venom_arith as Tie. rewrite forallb_forall in Tie. specialize (Tie _ HIn).
  unfold vcatie_one in Tie. repeat (apply andb_true_iff in Tie; destruct Tie as [Tie ?]).
  apply vtemplate_eqb_eq in H. subst t.
  apply vcclamp_arith_iff; [apply cty_okb_ok; exact Tie | destruct T; try exact I; discriminate H0 | exact Hw].
Qed.
Print Assumptions vclamp_arith_iff.

Theorem canonical_words : forall T w, cty_ok T -> uword w ->
  (c_canonb T w = true <-> exists v, c_in_range T v /\ c_enc T v = w).
Proof. exact c_canonb_iff. Qed.

Theorem venom_usub_exact : forall T t, In (T, t) venom_usubs -> forall x y, in_range T x ->
  vrun (venv2 x y) t = enc_out (arith_spec T AUSub x y).
Proof.
  intros T t HIn x y Hx. pose proof tie_usub_venom as Tie. rewrite forallb_forall in Tie. specialize (Tie _ HIn).
  unfold vustie_one in Tie. apply andb_true_iff in Tie. destruct Tie as [Tie E]. apply andb_true_iff in Tie. destruct Tie as [Ok S].
  apply vtemplate_eqb_eq in E. subst t. apply vusub_exact; [apply ty_okb_ok; exact Ok | exact S | exact Hx].
Qed.
Print Assumptions venom_usub_exact.
