From Coq Require Import ZArith Bool List String.
From Verif Require Import C03.LIR C03.VSL C03.ArithSpec C03.ConvSpec C03.TieModels C03.ConvTie C03.ClampExact C03.ClampTie C03.GenClamp.
Import ListNotations.
Lemma tie_cclamp_legacy : forallb cltie_one legacy_cclamps = true. Proof. vm_compute. reflexivity. Qed.
Lemma tie_cclamp_venom_arith : forallb vcatie_one venom_cclamps_arith = true. Proof. vm_compute. reflexivity. Qed.
Lemma tie_cclamp_venom_abi : forallb vcbtie_one venom_cclamps_abi = true. Proof. vm_compute. reflexivity. Qed.
Lemma tie_usub_venom : forallb vustie_one venom_usubs = true. Proof. vm_compute. reflexivity. Qed.
Lemma family_complete_clamps :
  ctys_eqb (map fst legacy_cclamps) clamp_ctypes = true /\
  ctys_eqb (map fst venom_cclamps_abi) clamp_ctypes = true /\
  ctys_eqb (map fst venom_cclamps_arith) (filter not_flag clamp_ctypes) = true /\
  ntys_eqb (map fst venom_usubs) (filter nsigned num_types) = true.
Proof. repeat split; vm_compute; reflexivity. Qed.
