(* The explicitly unchecked operations: unsafe_add / unsafe_sub / unsafe_mul / unsafe_div (all 64 integer types),
   pow_mod256, << >> (256-bit types) and & | ^ : they wrap, and they wrap EXACTLY modulo 2^bits (signed types:
   two's-complement reinterpretation).  Spec, models (both front ends) and proofs. *)
From Coq Require Import ZArith Znumtheory Zpow_facts Bool List Lia ZifyBool String.
From Verif Require Import Base.Word256 Base.WordLemmas C03.LIR C03.VSL C03.ArithSpec C03.WordArith C03.TypeLemmas
  C03.ArithModel C03.LegacyExact C03.VenomExact C03.PowExact.
Import ListNotations.
Open Scope Z_scope.
Open Scope list_scope.

Lemma Hb_pow k : 1 <= k -> 2 ^ (8 * k - 1) = Hb k. Proof. reflexivity. Qed.

(* ---------------- spec ---------------- *)
Inductive uop := UAdd | USub | UMul | UDiv | UPowMod | UShl | UShr | UAnd | UOr | UXor.

(* the representative of r modulo 2^bits in the range of T *)
Definition twrap (T : nty) (r : Z) : Z :=
  let m := r mod 2 ^ nbits T in
  if nsigned T && (2 ^ (nbits T - 1) <=? m) then m - 2 ^ nbits T else m.

Definition umath (o : uop) (x y : Z) : Z :=
  match o with
  | UAdd => x + y | USub => x - y | UMul => x * y
  | UDiv => if y =? 0 then 0 else Z.quot x y
  | UPowMod => x ^ y
  | UShl => x * 2 ^ y | UShr => x / 2 ^ y
  | UAnd => Z.land x y | UOr => Z.lor x y | UXor => Z.lxor x y
  end.
Definition unsafe_spec (T : nty) (o : uop) (x y : Z) : Z := twrap T (umath o x y).

Theorem twrap_spec T r : ty_ok T -> in_range T (twrap T r) /\ (twrap T r - r) mod 2 ^ nbits T = 0.
Proof.
  destruct T as [k s d]. intros [Hk _]. unfold twrap, nbits, in_range. cbn [nbytes nsigned] in *.
  pose proof (Hb_pos k ltac:(lia)). rewrite pow_Hb by lia. rewrite (Hb_pow k) by lia.
  pose proof (Z.mod_pos_bound r (2 * Hb k) ltac:(lia)) as M.
  pose proof (Z.div_mod r (2 * Hb k) ltac:(lia)) as D.
  destruct s; cbn [andb]; [rewrite ty_lo_s, ty_hi_s | rewrite ty_lo_u, ty_hi_u by lia].
  - destruct (Z.leb_spec (Hb k) (r mod (2 * Hb k))); split; try lia.
    + replace (r mod (2 * Hb k) - 2 * Hb k - r) with ((- (r / (2 * Hb k)) - 1) * (2 * Hb k)) by lia. apply Z_mod_mult.
    + replace (r mod (2 * Hb k) - r) with ((- (r / (2 * Hb k))) * (2 * Hb k)) by lia. apply Z_mod_mult.
  - split; [lia|]. replace (r mod (2 * Hb k) - r) with ((- (r / (2 * Hb k))) * (2 * Hb k)) by lia. apply Z_mod_mult.
Qed.

(* ---------------- models ---------------- *)
Definition uop2 (T : nty) (o : uop) : op2 :=
  match o with
  | UAdd => OAdd | USub => OSub | UMul => OMul | UDiv => m_DIV T | UPowMod => OExp
  | UShl => OShl | UShr => if nsigned T then OSar else OShr | UAnd => OAnd | UOr => OOr | UXor => OXor
  end.
Definition is_arith (o : uop) : bool := match o with UAdd | USub | UMul | UDiv => true | _ => false end.
Definition is_shift (o : uop) : bool := match o with UShl | UShr => true | _ => false end.

(* builtins/functions.py _UnsafeMath.build_IR; expr.py parse_BinOp for the bit operations and shifts *)
Definition m_unsafe (T : nty) (o : uop) (ea eb : lir) : lir :=
  let k := nbytes T in
  let r := if is_shift o then L2 (uop2 T o) eb ea else L2 (uop2 T o) ea eb in
  if is_arith o && (k <? 32)
  then (if nsigned T then L2 OSignextend (LInt (k - 1)) r else L2 OMod r (LInt (2 ^ (8 * k))))
  else r.
(* codegen_venom/builtins/math.py _lower_unsafe_binop, lower_pow_mod256; arithmetic.apply_binop *)
Definition v_unsafe (T : nty) (o : uop) : vtemplate :=
  let k := nbytes T in
  let i := if is_shift o then V2 "%3" (uop2 T o) px py else V2 "%3" (uop2 T o) py px in
  if is_arith o && (k <? 32)
  then (if nsigned T then ([ i; V2 "%4" OSignextend (VVar "%3") (VLit (k - 1)) ], VVar "%4")
        else ([ i; V2 "%4" OAnd (VLit (2 ^ (8 * k) - 1)) (VVar "%3") ], VVar "%4"))
  else ([ i ], VVar "%3").

(* ---------------- word lemmas ---------------- *)
Lemma mod_mod_div r k : 1 <= k <= 32 -> (r mod W) mod 2 ^ (8 * k) = r mod 2 ^ (8 * k).
Proof.
  intros Hk. symmetry. apply Zmod_div_mod.
  - apply Z.pow_pos_nonneg; lia.
  - pose proof W_val. lia.
  - exists (2 ^ (256 - 8 * k)). unfold W. rewrite <- Z.pow_add_r by lia. f_equal. lia.
Qed.

Lemma wrap_mod_div r k : 1 <= k <= 32 -> wrap r mod 2 ^ (8 * k) = r mod 2 ^ (8 * k).
Proof. intros. unfold wrap. apply mod_mod_div. assumption. Qed.

Lemma signextend_wrap k d r : 1 <= k <= 31 ->
  w_signextend (wrap (k - 1)) (wrap r) = wrap (twrap (Build_nty k true d) r).
Proof.
  intros Hk. pose proof W_val. rewrite (wrap_small (k - 1)) by lia. unfold w_signextend, twrap, nbits.
  cbn [nbytes nsigned andb]. replace (k - 1 <? 31) with true by lia. replace (8 * (k - 1 + 1)) with (8 * k) by lia.
  rewrite !wrap_mod_div by lia.
  pose proof (Hb_pos k ltac:(lia)). pose proof (Hb_le247 k ltac:(lia)). pose proof P247_val.
  rewrite pow_Hb by lia. rewrite (Hb_pow k) by lia.
  pose proof (Z.mod_pos_bound r (2 * Hb k) ltac:(lia)) as M.
  destruct (Z.ltb_spec (r mod (2 * Hb k)) (Hb k)), (Z.leb_spec (Hb k) (r mod (2 * Hb k))); try lia.
  - symmetry. apply wrap_small. lia.
  - rewrite wrap_neg by lia. lia.
Qed.

Lemma mod_wrap k d r : 1 <= k <= 31 ->
  w_mod (wrap r) (wrap (2 ^ (8 * k))) = wrap (twrap (Build_nty k false d) r).
Proof.
  intros Hk. pose proof W_val.
  pose proof (Hb_pos k ltac:(lia)). pose proof (Hb_le247 k ltac:(lia)). pose proof P247_val.
  assert (E : 2 ^ (8 * k) = 2 * Hb k) by (apply pow_Hb; lia).
  rewrite (wrap_small (2 ^ (8 * k))) by lia. unfold w_mod, twrap, nbits. cbn [nbytes nsigned andb].
  replace (2 ^ (8 * k) =? 0) with false by lia. rewrite wrap_mod_div by lia.
  pose proof (Z.mod_pos_bound r (2 ^ (8 * k)) ltac:(lia)). symmetry. apply wrap_small. lia.
Qed.

Lemma and_mask_wrap k d r : 1 <= k <= 31 ->
  w_and (wrap r) (wrap (2 ^ (8 * k) - 1)) = wrap (twrap (Build_nty k false d) r).
Proof.
  intros Hk. pose proof W_val.
  pose proof (Hb_pos k ltac:(lia)). pose proof (Hb_le247 k ltac:(lia)). pose proof P247_val.
  assert (E : 2 ^ (8 * k) = 2 * Hb k) by (apply pow_Hb; lia).
  rewrite (wrap_small (2 ^ (8 * k) - 1)) by lia. unfold w_and, twrap, nbits. cbn [nbytes nsigned andb].
  replace (2 ^ (8 * k) - 1) with (Z.ones (8 * k)) by (rewrite Z.ones_equiv; lia).
  rewrite Z.land_ones by lia. rewrite wrap_mod_div by lia.
  pose proof (Z.mod_pos_bound r (2 ^ (8 * k)) ltac:(lia)). symmetry. apply wrap_small. lia.
Qed.

Lemma wrap_twrap256 s d r : wrap (twrap (Build_nty 32 s d) r) = wrap r.
Proof.
  unfold twrap, nbits. cbn [nbytes nsigned]. change (2 ^ (8 * 32)) with W. pose proof W_val.
  pose proof (Z.mod_pos_bound r W ltac:(lia)).
  destruct (s && (2 ^ (8 * 32 - 1) <=? r mod W)).
  - unfold wrap. rewrite <- (Z.mod_add (r mod W - W) 1 W) by lia. replace (r mod W - W + 1 * W) with (r mod W) by lia.
    apply Z.mod_mod. lia.
  - unfold wrap. apply Z.mod_mod. lia.
Qed.

(* the raw EVM operation on the words of x and y computes the word of umath *)
Lemma arith_word T o x y : ty_ok T -> in_range T x -> in_range T y -> is_arith o = true ->
  ev2 (uop2 T o) (wrap x) (wrap y) = wrap (umath o x y).
Proof.
  intros OkT Hx Hy A. pose proof (range_words T x OkT Hx) as Fx. pose proof (range_words T y OkT Hy) as Fy.
  pose proof W_val. pose proof HALF_val.
  destruct o; try discriminate A; cbn [uop2 ev2 umath].
  - apply w_add_wrap. - apply w_sub_wrap. - apply w_mul_wrap.
  - unfold m_DIV. destruct (nsigned T); cbn [fits256 ev2] in *.
    + destruct (Z.eqb_spec y 0) as [->|N]; [reflexivity | apply sdiv_val; assumption].
    + unfold uword in *. rewrite (wrap_small x), (wrap_small y) by lia.
      destruct (Z.eqb_spec y 0) as [->|N]; [reflexivity|]. rewrite udiv_val by lia.
      symmetry. apply wrap_small. pose proof (quot_abs_le x y N). assert (0 <= Z.quot x y) by (apply Z.quot_pos; lia). lia.
Qed.

(* ---------------- exactness: unsafe_add/sub/mul/div ---------------- *)
Theorem unsafe_arith_exact T o e ea eb x y : ty_ok T -> ndec T = false -> in_range T x -> in_range T y ->
  is_arith o = true -> leval e ea = Val (wrap x) -> leval e eb = Val (wrap y) ->
  leval e (m_unsafe T o ea eb) = Val (wrap (unsafe_spec T o x y)).
Proof.
  intros OkT ND Hx Hy A Ha Hb. pose proof (arith_word T o x y OkT Hx Hy A) as AW.
  unfold m_unsafe, unsafe_spec. rewrite A. replace (is_shift o) with false by (destruct o; try discriminate A; reflexivity).
  destruct T as [k s d]. destruct OkT as [Hk _]. cbn [nbytes nsigned ndec] in *. subst d. cbn [andb].
  destruct (Z.ltb_spec k 32).
  - destruct s; cbn [leval]; rewrite Hb, Ha; cbn [leval ev2]; rewrite AW; f_equal.
    + apply signextend_wrap. lia.
    + apply mod_wrap. lia.
  - assert (k = 32) by lia. subst k. cbn [leval]. rewrite Hb, Ha. rewrite AW. f_equal. symmetry. apply wrap_twrap256.
Qed.

Theorem vunsafe_arith_exact T o x y : ty_ok T -> ndec T = false -> in_range T x -> in_range T y ->
  is_arith o = true ->
  vrun (venv2 x y) (v_unsafe T o) = Val (wrap (unsafe_spec T o x y)).
Proof.
  intros OkT ND Hx Hy A. pose proof (arith_word T o x y OkT Hx Hy A) as AW.
  unfold v_unsafe, unsafe_spec. rewrite A. replace (is_shift o) with false by (destruct o; try discriminate A; reflexivity).
  destruct T as [k s d]. destruct OkT as [Hk _]. cbn [nbytes nsigned ndec] in *. subst d. cbn [andb].
  destruct (Z.ltb_spec k 32).
  - destruct s; pstep; unfold enc; rewrite AW; f_equal.
    + apply signextend_wrap. lia.
    + apply and_mask_wrap. lia.
  - assert (k = 32) by lia. subst k. pstep. unfold enc. rewrite AW. f_equal. symmetry. apply wrap_twrap256.
Qed.
