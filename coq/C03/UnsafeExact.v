(* The explicitly unchecked operations: unsafe_add / unsafe_sub / unsafe_mul / unsafe_div (all 64 integer types),
   pow_mod256, << >> (256-bit types) and & | ^ : they wrap, and they wrap EXACTLY modulo 2^bits (signed types:
   two's-complement reinterpretation).  Spec, models (both front ends) and proofs. *)
From Coq Require Import ZArith Znumtheory Zpow_facts Bool List Lia ZifyBool String.
From Verif Require Import Base.Word256 Base.WordLemmas C03.LIR C03.VSL C03.ArithSpec C03.WordArith C03.TypeLemmas
  C03.ArithModel C03.LegacyExact C03.VenomExact C03.PowExact.
Import ListNotations.
Open Scope Z_scope.
Open Scope list_scope.

Lemma Hb_pow k : 1 <= k -> 2 ^ (8 * k - 1) = Hb k. Proof. reflexivity. Qed.

(* ---------------- spec ---------------- *)
Inductive uop := UAdd | USub | UMul | UDiv | UPowMod | UShl | UShr | UAnd | UOr | UXor.

(* the representative of r modulo 2^bits in the range of T *)
Definition twrap (T : nty) (r : Z) : Z :=
  let m := r mod 2 ^ nbits T in
  if nsigned T && (2 ^ (nbits T - 1) <=? m) then m - 2 ^ nbits T else m.

Definition umath (o : uop) (x y : Z) : Z :=
  match o with
  | UAdd => x + y | USub => x - y | UMul => x * y
  | UDiv => if y =? 0 then 0 else Z.quot x y
  | UPowMod => x ^ y
  | UShl => x * 2 ^ y | UShr => x / 2 ^ y
  | UAnd => Z.land x y | UOr => Z.lor x y | UXor => Z.lxor x y
  end.
Definition unsafe_spec (T : nty) (o : uop) (x y : Z) : Z := twrap T (umath o x y).

Theorem twrap_spec T r : ty_ok T -> in_range T (twrap T r) /\ (twrap T r - r) mod 2 ^ nbits T = 0.
Proof.
  destruct T as [k s d]. intros [Hk _]. unfold twrap, nbits, in_range. cbn [nbytes nsigned] in *.
  pose proof (Hb_pos k ltac:(lia)). rewrite pow_Hb by lia. rewrite (Hb_pow k) by lia.
  pose proof (Z.mod_pos_bound r (2 * Hb k) ltac:(lia)) as M.
  pose proof (Z.div_mod r (2 * Hb k) ltac:(lia)) as D.
  destruct s; cbn [andb]; [rewrite ty_lo_s, ty_hi_s | rewrite ty_lo_u, ty_hi_u by lia].
  - destruct (Z.leb_spec (Hb k) (r mod (2 * Hb k))); split; try lia.
    + replace (r mod (2 * Hb k) - 2 * Hb k - r) with ((- (r / (2 * Hb k)) - 1) * (2 * Hb k)) by lia. apply Z_mod_mult.
    + replace (r mod (2 * Hb k) - r) with ((- (r / (2 * Hb k))) * (2 * Hb k)) by lia. apply Z_mod_mult.
  - split; [lia|]. replace (r mod (2 * Hb k) - r) with ((- (r / (2 * Hb k))) * (2 * Hb k)) by lia. apply Z_mod_mult.
Qed.

(* ---------------- models ---------------- *)
Definition uop2 (T : nty) (o : uop) : op2 :=
  match o with
  | UAdd => OAdd | USub => OSub | UMul => OMul | UDiv => m_DIV T | UPowMod => OExp
  | UShl => OShl | UShr => if nsigned T then OSar else OShr | UAnd => OAnd | UOr => OOr | UXor => OXor
  end.
Definition is_arith (o : uop) : bool := match o with UAdd | USub | UMul | UDiv => true | _ => false end.
Definition is_shift (o : uop) : bool := match o with UShl | UShr => true | _ => false end.
Definition is_bitop (o : uop) : bool := match o with UAnd | UOr | UXor => true | _ => false end.

(* builtins/functions.py _UnsafeMath.build_IR; expr.py parse_BinOp for the bit operations and shifts *)
Definition m_unsafe (T : nty) (o : uop) (ea eb : lir) : lir :=
  let k := nbytes T in
  (* the commutative bit operations list their operands in reverse (IR arguments are evaluated last-to-first) *)
  let r := if is_shift o || is_bitop o then L2 (uop2 T o) eb ea else L2 (uop2 T o) ea eb in
  if is_arith o && (k <? 32)
  then (if nsigned T then L2 OSignextend (LInt (k - 1)) r else L2 OMod r (LInt (2 ^ (8 * k))))
  else r.
(* codegen_venom/builtins/math.py _lower_unsafe_binop, lower_pow_mod256; arithmetic.apply_binop *)
Definition v_unsafe (T : nty) (o : uop) : vtemplate :=
  let k := nbytes T in
  let i := if is_shift o then V2 "%3" (uop2 T o) px py else V2 "%3" (uop2 T o) py px in
  if is_arith o && (k <? 32)
  then (if nsigned T then ([ i; V2 "%4" OSignextend (VVar "%3") (VLit (k - 1)) ], VVar "%4")
        else ([ i; V2 "%4" OAnd (VLit (2 ^ (8 * k) - 1)) (VVar "%3") ], VVar "%4"))
  else ([ i ], VVar "%3").

(* ---------------- word lemmas ---------------- *)
Lemma mod_mod_div r k : 1 <= k <= 32 -> (r mod W) mod 2 ^ (8 * k) = r mod 2 ^ (8 * k).
Proof.
  intros Hk. symmetry. apply Zmod_div_mod.
  - apply Z.pow_pos_nonneg; lia.
  - pose proof W_val. lia.
  - exists (2 ^ (256 - 8 * k)). unfold W. rewrite <- Z.pow_add_r by lia. f_equal. lia.
Qed.

Lemma wrap_mod_div r k : 1 <= k <= 32 -> wrap r mod 2 ^ (8 * k) = r mod 2 ^ (8 * k).
Proof. intros. unfold wrap. apply mod_mod_div. assumption. Qed.

Lemma signextend_wrap k d r : 1 <= k <= 31 ->
  w_signextend (wrap (k - 1)) (wrap r) = wrap (twrap (Build_nty k true d) r).
Proof.
  intros Hk. pose proof W_val. rewrite (wrap_small (k - 1)) by lia. unfold w_signextend, twrap, nbits.
  cbn [nbytes nsigned andb]. replace (k - 1 <? 31) with true by lia. replace (8 * (k - 1 + 1)) with (8 * k) by lia.
  rewrite !wrap_mod_div by lia.
  pose proof (Hb_pos k ltac:(lia)). pose proof (Hb_le247 k ltac:(lia)). pose proof P247_val.
  rewrite pow_Hb by lia. rewrite (Hb_pow k) by lia.
  pose proof (Z.mod_pos_bound r (2 * Hb k) ltac:(lia)) as M.
  destruct (Z.ltb_spec (r mod (2 * Hb k)) (Hb k)), (Z.leb_spec (Hb k) (r mod (2 * Hb k))); try lia.
  - symmetry. apply wrap_small. lia.
  - rewrite wrap_neg by lia. lia.
Qed.

Lemma mod_wrap k d r : 1 <= k <= 31 ->
  w_mod (wrap r) (wrap (2 ^ (8 * k))) = wrap (twrap (Build_nty k false d) r).
Proof.
  intros Hk. pose proof W_val.
  pose proof (Hb_pos k ltac:(lia)). pose proof (Hb_le247 k ltac:(lia)). pose proof P247_val.
  assert (E : 2 ^ (8 * k) = 2 * Hb k) by (apply pow_Hb; lia).
  rewrite (wrap_small (2 ^ (8 * k))) by lia. unfold w_mod, twrap, nbits. cbn [nbytes nsigned andb].
  replace (2 ^ (8 * k) =? 0) with false by lia. rewrite wrap_mod_div by lia.
  pose proof (Z.mod_pos_bound r (2 ^ (8 * k)) ltac:(lia)). symmetry. apply wrap_small. lia.
Qed.

Lemma and_mask_wrap k d r : 1 <= k <= 31 ->
  w_and (wrap r) (wrap (2 ^ (8 * k) - 1)) = wrap (twrap (Build_nty k false d) r).
Proof.
  intros Hk. pose proof W_val.
  pose proof (Hb_pos k ltac:(lia)). pose proof (Hb_le247 k ltac:(lia)). pose proof P247_val.
  assert (E : 2 ^ (8 * k) = 2 * Hb k) by (apply pow_Hb; lia).
  rewrite (wrap_small (2 ^ (8 * k) - 1)) by lia. unfold w_and, twrap, nbits. cbn [nbytes nsigned andb].
  replace (2 ^ (8 * k) - 1) with (Z.ones (8 * k)) by (rewrite Z.ones_equiv; lia).
  rewrite Z.land_ones by lia. rewrite wrap_mod_div by lia.
  pose proof (Z.mod_pos_bound r (2 ^ (8 * k)) ltac:(lia)). symmetry. apply wrap_small. lia.
Qed.

Lemma wrap_twrap256 s d r : wrap (twrap (Build_nty 32 s d) r) = wrap r.
Proof.
  unfold twrap, nbits. cbn [nbytes nsigned]. change (2 ^ (8 * 32)) with W. pose proof W_val.
  pose proof (Z.mod_pos_bound r W ltac:(lia)).
  destruct (s && (2 ^ (8 * 32 - 1) <=? r mod W)).
  - unfold wrap. rewrite <- (Z.mod_add (r mod W - W) 1 W) by lia. replace (r mod W - W + 1 * W) with (r mod W) by lia.
    apply Z.mod_mod. lia.
  - unfold wrap. apply Z.mod_mod. lia.
Qed.

(* the raw EVM operation on the words of x and y computes the word of umath *)
Lemma arith_word T o x y : ty_ok T -> in_range T x -> in_range T y -> is_arith o = true ->
  ev2 (uop2 T o) (wrap x) (wrap y) = wrap (umath o x y).
Proof.
  intros OkT Hx Hy A. pose proof (range_words T x OkT Hx) as Fx. pose proof (range_words T y OkT Hy) as Fy.
  pose proof W_val. pose proof HALF_val.
  destruct o; try discriminate A; cbn [uop2 ev2 umath].
  - apply w_add_wrap. - apply w_sub_wrap. - apply w_mul_wrap.
  - unfold m_DIV. destruct (nsigned T); cbn [fits256 ev2] in *.
    + destruct (Z.eqb_spec y 0) as [->|N]; [reflexivity | apply sdiv_val; assumption].
    + unfold uword in *. rewrite (wrap_small x), (wrap_small y) by lia.
      destruct (Z.eqb_spec y 0) as [->|N]; [reflexivity|]. rewrite udiv_val by lia.
      symmetry. apply wrap_small. pose proof (quot_abs_le x y N). assert (0 <= Z.quot x y) by (apply Z.quot_pos; lia). lia.
Qed.

(* ---------------- exactness: unsafe_add/sub/mul/div ---------------- *)
Theorem unsafe_arith_exact T o e ea eb x y : ty_ok T -> ndec T = false -> in_range T x -> in_range T y ->
  is_arith o = true -> leval e ea = Val (wrap x) -> leval e eb = Val (wrap y) ->
  leval e (m_unsafe T o ea eb) = Val (wrap (unsafe_spec T o x y)).
Proof.
  intros OkT ND Hx Hy A Ha Hb. pose proof (arith_word T o x y OkT Hx Hy A) as AW.
  unfold m_unsafe, unsafe_spec. rewrite A. replace (is_shift o || is_bitop o) with false by (destruct o; try discriminate A; reflexivity).
  destruct T as [k s d]. destruct OkT as [Hk _]. cbn [nbytes nsigned ndec] in *. subst d. cbn [andb].
  destruct (Z.ltb_spec k 32).
  - destruct s; cbn [leval]; rewrite Hb, Ha; cbn [leval ev2]; rewrite AW; f_equal.
    + apply signextend_wrap. lia.
    + apply mod_wrap. lia.
  - assert (k = 32) by lia. subst k. cbn [leval]. rewrite Hb, Ha. rewrite AW. f_equal. symmetry. apply wrap_twrap256.
Qed.

Theorem vunsafe_arith_exact T o x y : ty_ok T -> ndec T = false -> in_range T x -> in_range T y ->
  is_arith o = true ->
  vrun (venv2 x y) (v_unsafe T o) = Val (wrap (unsafe_spec T o x y)).
Proof.
  intros OkT ND Hx Hy A. pose proof (arith_word T o x y OkT Hx Hy A) as AW.
  unfold v_unsafe, unsafe_spec. rewrite A. replace (is_shift o) with false by (destruct o; try discriminate A; reflexivity).
  destruct T as [k s d]. destruct OkT as [Hk _]. cbn [nbytes nsigned ndec] in *. subst d. cbn [andb].
  destruct (Z.ltb_spec k 32).
  - destruct s; pstep; unfold enc; rewrite AW; f_equal.
    + apply signextend_wrap. lia.
    + apply and_mask_wrap. lia.
  - assert (k = 32) by lia. subst k. pstep. unfold enc. rewrite AW. f_equal. symmetry. apply wrap_twrap256.
Qed.

(* ---------------- pow_mod256, shifts, bit operations: the word of the exact (unbounded) result ---------------- *)
Lemma bitop_mod (f : Z -> Z -> Z) (g : bool -> bool -> bool) n x y :
  0 <= n -> g false false = false ->
  (forall a b i, Z.testbit (f a b) i = g (Z.testbit a i) (Z.testbit b i)) ->
  f (x mod 2 ^ n) (y mod 2 ^ n) = (f x y) mod 2 ^ n.
Proof.
  intros Hn G S. apply Z.bits_inj'. intros i Hi. rewrite S.
  destruct (Z_lt_dec i n).
  - rewrite !Z.mod_pow2_bits_low by lia. rewrite S. reflexivity.
  - rewrite !Z.mod_pow2_bits_high by lia. exact G.
Qed.
Lemma w_and_wrap x y : w_and (wrap x) (wrap y) = wrap (Z.land x y).
Proof. unfold w_and, wrap, W. apply (bitop_mod Z.land andb); [lia | reflexivity | intros; apply Z.land_spec]. Qed.
Lemma w_or_wrap x y : w_or (wrap x) (wrap y) = wrap (Z.lor x y).
Proof. unfold w_or, wrap, W. apply (bitop_mod Z.lor orb); [lia | reflexivity | intros; apply Z.lor_spec]. Qed.
Lemma w_xor_wrap x y : w_xor (wrap x) (wrap y) = wrap (Z.lxor x y).
Proof. unfold w_xor, wrap, W. apply (bitop_mod Z.lxor xorb); [lia | reflexivity | intros; apply Z.lxor_spec]. Qed.

Lemma W_div_pow y : 256 <= y -> exists c, 2 ^ y = c * W.
Proof. intros H. exists (2 ^ (y - 256)). unfold W. rewrite <- Z.pow_add_r by lia. f_equal. lia. Qed.

Lemma w_shl_wrap x y : 0 <= y < W -> w_shl y (wrap x) = wrap (x * 2 ^ y).
Proof.
  intros Hy. pose proof W_val. unfold w_shl. destruct (Z.ltb_spec y 256).
  - unfold wrap. rewrite Zmult_mod_idemp_l. reflexivity.
  - destruct (W_div_pow y H0) as [c E]. unfold wrap. rewrite E, Z.mul_assoc. rewrite Z_mod_mult. reflexivity.
Qed.
Lemma w_shr_wrap x y : 0 <= y < W -> 0 <= x < W -> w_shr y x = wrap (x / 2 ^ y).
Proof.
  intros Hy Hx. pose proof W_val. unfold w_shr.
  assert (P : 0 < 2 ^ y) by (apply Z.pow_pos_nonneg; lia).
  assert (Q : 0 <= x / 2 ^ y <= x) by (split; [apply Z.div_pos; lia | apply Z.div_le_upper_bound; nia]).
  destruct (Z.ltb_spec y 256).
  - symmetry. apply wrap_small. lia.
  - destruct (W_div_pow y H0) as [c E]. assert (1 <= c) by nia.
    rewrite Z.div_small by nia. reflexivity.
Qed.
Lemma w_sar_wrap x y : 0 <= y < W -> sword x -> w_sar y (wrap x) = wrap (x / 2 ^ y).
Proof.
  intros Hy Hx. pose proof W_val. pose proof HALF_val. unfold w_sar, of_signed. rewrite (ts_wrap x Hx).
  destruct (Z.ltb_spec y 256); [reflexivity|].
  destruct (W_div_pow y H1) as [c E]. assert (P : 0 < 2 ^ y) by (apply Z.pow_pos_nonneg; lia). assert (1 <= c) by nia.
  unfold sword, MINS, MAXS in Hx.
  destruct (Z.ltb_spec x 0).
  - assert (DV : x / 2 ^ y = -1) by (symmetry; apply Z.div_unique with (r := x + 2 ^ y); nia). rewrite DV. reflexivity.
  - rewrite Z.div_small by nia. reflexivity.
Qed.

Definition bits_ok (T : nty) (o : uop) (y : Z) : Prop :=
  match o with
  | UPowMod => T = Build_nty 32 false false
  | UShl | UShr => nbytes T = 32 /\ ndec T = false /\ 0 <= y < W
  | UAnd | UOr | UXor => True
  | _ => False
  end.

Lemma bits_word T o x y : ty_ok T -> in_range T x -> (is_shift o = false -> in_range T y) -> bits_ok T o y ->
  (if is_shift o then ev2 (uop2 T o) (wrap y) (wrap x) else ev2 (uop2 T o) (wrap x) (wrap y)) = wrap (umath o x y).
Proof.
  intros OkT Hx Hy B. pose proof W_val. pose proof HALF_val. pose proof (range_words T x OkT Hx) as Fx.
  destruct o; cbn [bits_ok] in B; try contradiction; cbn [is_shift uop2 umath ev2] in *.
  - subst T. specialize (Hy eq_refl). pose proof (range_words _ y OkT Hy) as Fy. cbn in Fy. apply w_exp_wrap. exact Fy.
  - destruct B as [_ [_ By]]. rewrite (wrap_small y) by exact By. apply w_shl_wrap. exact By.
  - destruct B as [K [_ By]]. rewrite (wrap_small y) by exact By.
    destruct (nsigned T); cbn [fits256 ev2] in *.
    + apply w_sar_wrap; assumption.
    + unfold uword in Fx. rewrite (wrap_small x) by exact Fx. apply w_shr_wrap; assumption.
  - apply w_and_wrap. - apply w_or_wrap. - apply w_xor_wrap.
Qed.

Theorem unsafe_bits_exact T o e ea eb x y : ty_ok T -> in_range T x -> (is_shift o = false -> in_range T y) ->
  bits_ok T o y -> leval e ea = Val (wrap x) -> leval e eb = Val (wrap y) ->
  leval e (m_unsafe T o ea eb) = Val (wrap (umath o x y)).
Proof.
  intros OkT Hx Hy B Ha Hb. pose proof (bits_word T o x y OkT Hx Hy B) as BW.
  unfold m_unsafe. replace (is_arith o) with false by (destruct o; cbn in B; try contradiction; reflexivity).
  cbn [andb].
  assert (COMM : is_bitop o = true -> ev2 (uop2 T o) (wrap y) (wrap x) = ev2 (uop2 T o) (wrap x) (wrap y)).
  { destruct o; try discriminate; intros _; cbn [uop2 ev2]; unfold w_and, w_or, w_xor;
      [apply Z.land_comm | apply Z.lor_comm | apply Z.lxor_comm]. }
  destruct (is_shift o) eqn:S; cbn [orb].
  - cbn [leval]. rewrite Ha, Hb. rewrite BW. reflexivity.
  - destruct (is_bitop o) eqn:BO; cbn [leval]; rewrite ?Ha, ?Hb; cbn [leval]; rewrite ?Ha, ?Hb.
    + rewrite (COMM eq_refl), BW. reflexivity.
    + rewrite BW. reflexivity.
Qed.

Theorem vunsafe_bits_exact T o x y : ty_ok T -> in_range T x -> (is_shift o = false -> in_range T y) ->
  bits_ok T o y ->
  vrun (venv2 x y) (v_unsafe T o) = Val (wrap (umath o x y)).
Proof.
  intros OkT Hx Hy B. pose proof (bits_word T o x y OkT Hx Hy B) as BW.
  unfold v_unsafe. replace (is_arith o) with false by (destruct o; cbn in B; try contradiction; reflexivity).
  cbn [andb]. destruct (is_shift o); pstep; unfold enc; rewrite BW; reflexivity.
Qed.

(* for the 256-bit types the word of umath is also the word of the wrapped value *)
Corollary unsafe_spec_256 s d o x y : wrap (unsafe_spec (Build_nty 32 s d) o x y) = wrap (umath o x y).
Proof. apply wrap_twrap256. Qed.
