(* ConvModel: Gallina template generators mirroring vyper/builtins/_convert.py (legacy, operand = IR variable x)
   and vyper/codegen_venom/builtins/convert.py (Venom, operand = %1) for the word-sized types.  No proofs. *)
From Coq Require Import ZArith Bool List String.
From Verif Require Import Base.Word256 C03.LIR C03.VSL C03.ArithSpec C03.ConvSpec C03.ArithModel.
Import ListNotations.
Open Scope string_scope.
Open Scope Z_scope.

(* core.int_clamp(arg, bits, signed=False) body: assert (iszero (shr bits arg)) *)
Definition m_uclamp_of (bits : Z) (er : lir) : lir :=
  LSeq (LAssert (L1 OIszero (L2 OShr (LInt bits) er))) er.
(* core.int_clamp(arg, bits, signed) on a possibly complex argument *)
Definition m_iclamp (bits : Z) (signed : bool) (arg : lir) (inl : bool) : lir :=
  m_cache inl "val" arg (fun er => if signed then m_clamp_of (bits / 8) true er else m_uclamp_of bits er).
(* core.clamp(op, arg, bound) *)
Definition m_clampop (op : op2) (arg : lir) (bound : Z) (inl : bool) : lir :=
  m_cache inl "clamp_arg" arg (fun a => LSeq (LAssert (L2 op a (LInt bound))) a).
(* _convert._clamp_numeric_convert *)
Definition m_clamp_numeric (arg : lir) (alo ahi olo ohi : Z) (signed : bool) (i1 i2 : bool) : lir :=
  let a1 := if alo <? olo then m_clampop OSge arg olo i1 else arg in
  if ohi <? ahi then m_clampop (if signed then OSle else OLe) a1 ohi i2 else a1.

Definition m_int_to_int (S T : nty) (x : lir) : lir :=
  if nsigned S && negb (nsigned T) then
    (if nbits T <? nbits S then m_uclamp_of (nbits T) x else m_clampop OSge x 0 true)
  else if negb (nsigned S) && nsigned T then m_uclamp_of (nbits T - 1) x
  else if nbits T <? nbits S then (if nsigned T then m_clamp_of (nbytes T) true x else m_uclamp_of (nbits T) x)
  else x.

Definition m_bytes_to_num (m : Z) (signed : bool) (x : lir) : lir :=
  L2 (if signed then OSar else OShr) (LInt (8 * (32 - m))) x.

Definition m_to_int (Tin : cty) (T : nty) (x : lir) (i1 i2 : bool) : lir :=
  match Tin with
  | CNum S0 =>
      if ndec S0
      then L2 OSdiv (m_clamp_numeric x (ty_lo S0) (ty_hi S0) (ty_lo T * DIVISOR) (ty_hi T * DIVISOR) true i1 i2)
                    (LInt DIVISOR)
      else m_int_to_int S0 T x
  | CBool => x
  | CAddr => if nbits T <? 160 then m_uclamp_of (nbits T) x else x
  | CFlag _ => m_int_to_int uint256_t T x
  | CBytes m =>
      let n := m_bytes_to_num m (nsigned T) x in
      if nbits T <? 8 * m then m_iclamp (nbits T) (nsigned T) n i1 else n
  end.

Definition m_to_decimal (Tin : cty) (T : nty) (x : lir) (i1 i2 : bool) : lir :=
  match Tin with
  | CNum S0 => L2 OMul (m_clamp_numeric x (ty_lo S0) (ty_hi S0) (Z.quot (ty_lo T) DIVISOR) (Z.quot (ty_hi T) DIVISOR)
                                        (nsigned S0) i1 i2) (LInt DIVISOR)
  | CBool => L2 OMul x (LInt DIVISOR)
  | CBytes m =>
      let n := m_bytes_to_num m true x in
      if 168 <? 8 * m then m_iclamp 168 true n i1 else n
  | _ => x
  end.

Definition m_to_bytes (Tin : cty) (M : Z) (x : lir) : lir :=
  match Tin with
  | CBytes m => if M <? m then LSeq (LAssert (L1 OIszero (L2 OShl (LInt (8 * M)) x))) x else x
  | CFlag _ => x
  | _ => L2 OShl (LInt (256 - 8 * M)) x
  end.

Definition m_convert (Tin Tout : cty) (i1 i2 : bool) : lir :=
  let x := vx in
  match Tout with
  | CBool => L1 OIszero (L1 OIszero x)
  | CNum T => if ndec T then m_to_decimal Tin T x i1 i2 else m_to_int Tin T x i1 i2
  | CAddr => m_to_int Tin uint160_t x i1 i2
  | CBytes M => m_to_bytes Tin M x
  | CFlag n => if n <? 256 then m_uclamp_of n x else x
  end.
