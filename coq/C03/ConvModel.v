(* ConvModel: Gallina template generators mirroring vyper/builtins/_convert.py (legacy, operand = IR variable x)
   and vyper/codegen_venom/builtins/convert.py (Venom, operand = %1) for the word-sized types.  No proofs. *)
From Coq Require Import ZArith Bool List String.
From Verif Require Import Base.Word256 C03.LIR C03.VSL C03.ArithSpec C03.ConvSpec C03.ArithModel.
Import ListNotations.
Open Scope string_scope.
Open Scope Z_scope.

(* core.int_clamp(arg, bits, signed=False) body: assert (iszero (shr bits arg)) *)
Definition m_uclamp_of (bits : Z) (er : lir) : lir :=
  LSeq (LAssert (L1 OIszero (L2 OShr (LInt bits) er))) er.
(* core.int_clamp(arg, bits, signed) on a possibly complex argument *)
Definition m_iclamp (bits : Z) (signed : bool) (arg : lir) (inl : bool) : lir :=
  m_cache inl "val" arg (fun er => if signed then m_clamp_of (bits / 8) true er else m_uclamp_of bits er).
(* core.clamp(op, arg, bound) *)
Definition m_clampop (op : op2) (arg : lir) (bound : Z) (inl : bool) : lir :=
  m_cache inl "clamp_arg" arg (fun a => LSeq (LAssert (L2 op a (LInt bound))) a).
(* _convert._clamp_numeric_convert *)
Definition m_clamp_numeric (arg : lir) (alo ahi olo ohi : Z) (signed : bool) (i1 i2 : bool) : lir :=
  let a1 := if alo <? olo then m_clampop OSge arg olo i1 else arg in
  if ohi <? ahi then m_clampop (if signed then OSle else OLe) a1 ohi i2 else a1.

Definition m_int_to_int (S T : nty) (x : lir) : lir :=
  if nsigned S && negb (nsigned T) then
    (if nbits T <? nbits S then m_uclamp_of (nbits T) x else m_clampop OSge x 0 true)
  else if negb (nsigned S) && nsigned T then m_uclamp_of (nbits T - 1) x
  else if nbits T <? nbits S then (if nsigned T then m_clamp_of (nbytes T) true x else m_uclamp_of (nbits T) x)
  else x.

Definition m_bytes_to_num (m : Z) (signed : bool) (x : lir) : lir :=
  L2 (if signed then OSar else OShr) (LInt (8 * (32 - m))) x.

Definition m_to_int (Tin : cty) (T : nty) (x : lir) (i1 i2 : bool) : lir :=
  match Tin with
  | CNum S0 =>
      if ndec S0
      then L2 OSdiv (m_clamp_numeric x (ty_lo S0) (ty_hi S0) (ty_lo T * DIVISOR) (ty_hi T * DIVISOR) true i1 i2)
                    (LInt DIVISOR)
      else m_int_to_int S0 T x
  | CBool => x
  | CAddr => if nbits T <? 160 then m_uclamp_of (nbits T) x else x
  | CFlag _ => m_int_to_int uint256_t T x
  | CBytes m =>
      let n := m_bytes_to_num m (nsigned T) x in
      if nbits T <? 8 * m then m_iclamp (nbits T) (nsigned T) n i1 else n
  end.

Definition m_to_decimal (Tin : cty) (T : nty) (x : lir) (i1 i2 : bool) : lir :=
  match Tin with
  | CNum S0 => L2 OMul (m_clamp_numeric x (ty_lo S0) (ty_hi S0) (Z.quot (ty_lo T) DIVISOR) (Z.quot (ty_hi T) DIVISOR)
                                        (nsigned S0) i1 i2) (LInt DIVISOR)
  | CBool => L2 OMul x (LInt DIVISOR)
  | CBytes m =>
      let n := m_bytes_to_num m true x in
      if 168 <? 8 * m then m_iclamp 168 true n i1 else n
  | _ => x
  end.

Definition m_to_bytes (Tin : cty) (M : Z) (x : lir) : lir :=
  match Tin with
  | CBytes m => if M <? m then LSeq (LAssert (L1 OIszero (L2 OShl (LInt (8 * M)) x))) x else x
  | CFlag _ => x
  | _ => L2 OShl (LInt (256 - 8 * M)) x
  end.

Definition m_convert (Tin Tout : cty) (i1 i2 : bool) : lir :=
  let x := vx in
  match Tout with
  | CBool => L1 OIszero (L1 OIszero x)
  | CNum T => if ndec T then m_to_decimal Tin T x i1 i2 else m_to_int Tin T x i1 i2
  | CAddr => m_to_int Tin uint160_t x i1 i2
  | CBytes M => m_to_bytes Tin M x
  | CFlag n => if n <? 256 then m_uclamp_of n x else x
  end.

(* ------------------------------------------------------------------------------------------
   Venom: vyper/codegen_venom/builtins/convert.py on the operand %1 (fresh names from %3). *)
Local Infix "+++" := (@app vinstr) (right associativity, at level 60).

(* assert (val <= hi) unsigned: gt, iszero, assert *)
Definition v_assert_ule (hi : Z) (v : vop) (n : nat) : list vinstr :=
  [ V2 (pn n) OGt (VLit hi) v; V1 (pn (n + 1)) OIszero (VVar (pn n)); VAssert (VVar (pn (n + 1))) ].
Definition v_assert_sge (lo : Z) (v : vop) (n : nat) : list vinstr :=
  [ V2 (pn n) OSlt (VLit lo) v; V1 (pn (n + 1)) OIszero (VVar (pn n)); VAssert (VVar (pn (n + 1))) ].
Definition v_assert_sle (hi : Z) (v : vop) (n : nat) : list vinstr :=
  [ V2 (pn n) OSgt (VLit hi) v; V1 (pn (n + 1)) OIszero (VVar (pn n)); VAssert (VVar (pn (n + 1))) ].

(* _clamp_numeric_convert *)
Definition v_clamp_numeric (v : vop) (alo ahi olo ohi : Z) (signed : bool) (n : nat) : list vinstr :=
  let l1 := if alo <? olo then v_assert_sge olo v n else [] in
  let n2 := if alo <? olo then Nat.add n 2 else n in
  let l2 := if ohi <? ahi then (if signed then v_assert_sle ohi v n2 else v_assert_ule ohi v n2) else [] in
  l1 +++ l2.
Definition v_cn_next (alo ahi olo ohi : Z) (n : nat) : nat :=
  Nat.add (if alo <? olo then Nat.add n 2 else n) (if ohi <? ahi then 2%nat else 0%nat).

Definition v_int_to_int (S T : nty) (v : vop) (n : nat) : list vinstr :=
  if nsigned S && negb (nsigned T) then
    (if nbits T <? nbits S then
       [ V2 (pn n) OGt (VLit (2 ^ nbits T - 1)) v; V1 (pn (n + 1)) OIszero (VVar (pn n));
         V2 (pn (n + 2)) OSlt (VLit 0) v; V1 (pn (n + 3)) OIszero (VVar (pn (n + 2)));
         V2 (pn (n + 4)) OAnd (VVar (pn (n + 3))) (VVar (pn (n + 1))); VAssert (VVar (pn (n + 4))) ]
     else v_assert_sge 0 v n)
  else if negb (nsigned S) && nsigned T then v_assert_ule (2 ^ (nbits T - 1) - 1) v n
  else if nbits T <? nbits S then v_clamp T v n
  else [].

Definition v_to_int (Tin : cty) (T : nty) : vtemplate :=
  match Tin with
  | CNum S0 =>
      if ndec S0 then
        let olo := ty_lo T * DIVISOR in let ohi := ty_hi T * DIVISOR in
        let n := v_cn_next (ty_lo S0) (ty_hi S0) olo ohi 3 in
        (v_clamp_numeric px (ty_lo S0) (ty_hi S0) olo ohi true 3 +++ [ V2 (pn n) OSdiv (VLit DIVISOR) px ], VVar (pn n))
      else (v_int_to_int S0 T px 3, px)
  | CBool => ([], px)
  | CAddr => (if nbits T <? 160 then v_clamp T px 3 else [], px)
  | CFlag _ => (v_int_to_int uint256_t T px 3, px)
  | CBytes m =>
      ( V2 "%3" (if nsigned T then OSar else OShr) px (VLit (8 * (32 - m)))
          :: (if nbits T <? 8 * m then v_clamp T (VVar "%3") 4 else []), VVar "%3")
  end.

Definition v_to_decimal (Tin : cty) (T : nty) : vtemplate :=
  match Tin with
  | CNum S0 =>
      let olo := Z.quot (ty_lo T) DIVISOR in let ohi := Z.quot (ty_hi T) DIVISOR in
      let n := v_cn_next (ty_lo S0) (ty_hi S0) olo ohi 3 in
      (v_clamp_numeric px (ty_lo S0) (ty_hi S0) olo ohi (nsigned S0) 3 +++ [ V2 (pn n) OMul (VLit DIVISOR) px ], VVar (pn n))
  | CBool => ([ V2 "%3" OMul (VLit DIVISOR) px ], VVar "%3")
  | CBytes m =>
      ( V2 "%3" OSar px (VLit (8 * (32 - m))) :: (if 168 <? 8 * m then v_clamp T (VVar "%3") 4 else []), VVar "%3")
  | _ => ([], px)
  end.

Definition v_to_bytes (Tin : cty) (M : Z) : vtemplate :=
  match Tin with
  | CBytes m =>
      if M <? m then ([ V2 "%3" OShl px (VLit (8 * M)); V1 "%4" OIszero (VVar "%3"); VAssert (VVar "%4") ], px)
      else ([], px)
  | _ => ([ V2 "%3" OShl px (VLit (8 * (32 - M))) ], VVar "%3")
  end.

Definition v_convert (Tin Tout : cty) : vtemplate :=
  match Tout with
  | CBool => ([ V1 "%3" OIszero px; V1 "%4" OIszero (VVar "%3") ], VVar "%4")
  | CNum T => if ndec T then v_to_decimal Tin T else v_to_int Tin T
  | CAddr => v_to_int Tin uint160_t
  | CBytes M => v_to_bytes Tin M
  | CFlag n => (if n <? 256 then v_assert_ule (2 ^ n - 1) px 3 else [], px)
  end.
