(* Exactness of the legacy safe-arithmetic templates (ArithModel.v) w.r.t. ArithSpec.arith_spec,
   for every numeric type, all operand values. *)
From Coq Require Import ZArith Bool List Lia ZifyBool String.
From Verif Require Import Base.Word256 C03.LIR C03.ArithSpec C03.WordArith C03.TypeLemmas C03.ArithModel.
Import ListNotations.
Open Scope Z_scope.
Ltac Zify.zify_post_hook ::= Z.to_euclidean_division_equations.

Ltac lstep := cbn [leval lookup env2 String.eqb Ascii.eqb Bool.eqb ev1 ev2 ev3 vx vy m_nonzero_y m_min256
                   nbytes nsigned ndec m_DIV andb orb].

Lemma clamp_var_eval e v k s d w : 1 <= k <= 31 -> lookup e v = Some w -> uword w ->
  leval e (m_clamp_var k s v) = if in_rangeb (Build_nty k s d) (sval s w) then Val w else Revert.
Proof.
  intros Hk Hl Hw. unfold m_clamp_var. destruct s; lstep; rewrite Hl; lstep.
  - pose proof (sclamp_iff k w Hk Hw) as I. rewrite <- (in_rangeb_iff (Build_nty k true false)) in I.
    cbn [sval]. change (in_rangeb (Build_nty k true d)) with (in_rangeb (Build_nty k true false)).
    unfold w_eq, b2z. destruct (w =? w_signextend (wrap (k - 1)) w) eqn:E;
    destruct (in_rangeb (Build_nty k true false) (to_signed w)); cbn; try reflexivity; lia.
  - pose proof (uclamp_iff k w Hk Hw) as I. rewrite <- (in_rangeb_iff (Build_nty k false false)) in I.
    cbn [sval]. change (in_rangeb (Build_nty k false d)) with (in_rangeb (Build_nty k false false)).
    unfold w_iszero, b2z. destruct (w_shr (wrap (8 * k)) w =? 0) eqn:E;
    destruct (in_rangeb (Build_nty k false false) w); cbn; try reflexivity; lia.
Qed.

Lemma chk_enc T r : 1 <= nbytes T <= 32 -> fits256 (nsigned T) r ->
  (if in_rangeb T (sval (nsigned T) (wrap r)) then Val (wrap r) else Revert) = enc_out (chk T r).
Proof. intros Hk Hf. rewrite sval_wrap by exact Hf. unfold chk. destruct (in_rangeb T r); reflexivity. Qed.

(* clamp of a complex expression that evaluates to the word of r *)
Lemma int_clamp_eval e arg k s d r : 1 <= k <= 31 -> leval e arg = Val (wrap r) -> fits256 s r ->
  leval e (m_int_clamp k s arg) = enc_out (chk (Build_nty k s d) r).
Proof.
  intros Hk Ha Hf. unfold m_int_clamp. cbn [leval]. rewrite Ha.
  rewrite (clamp_var_eval _ _ k s d (wrap r)); [| exact Hk | cbn; reflexivity | apply wrap_range].
  apply (chk_enc (Build_nty k s d)); cbn; [lia | exact Hf].
Qed.

Lemma enc_out_chk T r : enc_out (chk T r) = if in_rangeb T r then Val (wrap r) else Revert.
Proof. unfold chk. destruct (in_rangeb T r); reflexivity. Qed.

Ltac range_facts k :=
  pose proof (Hb_pos k ltac:(lia)); pose proof W_val; pose proof HALF_val; pose proof P247_val;
  try pose proof (Hb_le247 k ltac:(lia)).

Lemma range_bounds k s d v : 1 <= k -> in_range (Build_nty k s d) v ->
  if s then - Hb k <= v <= Hb k - 1 else 0 <= v <= 2 * Hb k - 1.
Proof. intros Hk H. unfold in_range in H. destruct s; [rewrite ty_lo_s, ty_hi_s in H | rewrite ty_lo_u, ty_hi_u in H by lia]; exact H. Qed.

Theorem safe_add_exact T x y : ty_ok T -> in_range T x -> in_range T y ->
  leval (env2 x y) (m_safe_add T) = enc_out (arith_spec T AAdd x y).
Proof.
  destruct T as [k s d]. intros [Hk _] Hx Hy. cbn [nbytes] in Hk.
  pose proof (range_bounds k s d x ltac:(lia) Hx) as Bx. pose proof (range_bounds k s d y ltac:(lia) Hy) as By.
  unfold m_safe_add, m_safe_addsub. cbn [nbytes nsigned arith_spec].
  destruct (k <? 32) eqn:E.
  - apply int_clamp_eval; [lia | lstep; unfold enc; f_equal; apply w_add_wrap |].
    range_facts k. destruct s; cbn [fits256]; unfold sword, uword, MINS, MAXS; lia.
  - assert (k = 32) by lia. subst k. rewrite Hb_32 in *.
    pose proof W_val; pose proof HALF_val.
    destruct s; lstep; unfold enc; rewrite w_add_wrap.
    + (* int256 *)
      assert (Sx : sword x) by (unfold sword, MINS, MAXS; lia).
      assert (Sy : sword y) by (unfold sword, MINS, MAXS; lia).
      unfold w_slt, w_eq. rewrite (ts_wrap x Sx), (ts_wrap y Sy).
      change (to_signed (wrap 0)) with 0.
      rewrite enc_out_chk. unfold in_rangeb. rewrite ty_lo_s, ty_hi_s, Hb_32.
      destruct (wrap_cases (x + y) ltac:(lia)) as [[C ->]|[[C ->]|[C ->]]]; unfold to_signed; bsolve.
    + (* uint256 *)
      rewrite ?(wrap_small x), ?(wrap_small y) by lia.
      rewrite enc_out_chk. unfold in_rangeb. rewrite ty_lo_u, ty_hi_u, Hb_32 by lia.
      unfold w_iszero, w_lt.
      destruct (wrap_cases (x + y) ltac:(lia)) as [[C ->]|[[C ->]|[C ->]]]; bsolve.
Qed.

Lemma int_clamp_eval_uneg e arg k d r : 1 <= k <= 31 -> leval e arg = Val (wrap r) -> - HALF <= r < 0 ->
  leval e (m_int_clamp k false arg) = enc_out (chk (Build_nty k false d) r).
Proof.
  intros Hk Ha Hr. unfold m_int_clamp. cbn [leval]. rewrite Ha.
  rewrite (clamp_var_eval _ _ k false d (wrap r)); [| exact Hk | cbn; reflexivity | apply wrap_range].
  cbn [sval]. range_facts k. rewrite wrap_neg by lia.
  unfold chk, in_rangeb. rewrite ty_lo_u, ty_hi_u by lia. bsolve.
Qed.

Theorem safe_sub_exact T x y : ty_ok T -> in_range T x -> in_range T y ->
  leval (env2 x y) (m_safe_sub T) = enc_out (arith_spec T ASub x y).
Proof.
  destruct T as [k s d]. intros [Hk _] Hx Hy. cbn [nbytes] in Hk.
  pose proof (range_bounds k s d x ltac:(lia) Hx) as Bx. pose proof (range_bounds k s d y ltac:(lia) Hy) as By.
  unfold m_safe_sub, m_safe_addsub. cbn [nbytes nsigned arith_spec].
  destruct (k <? 32) eqn:E.
  - range_facts k. destruct s.
    + apply int_clamp_eval; [lia | lstep; unfold enc; f_equal; apply w_sub_wrap |].
      cbn [fits256]; unfold sword, MINS, MAXS; lia.
    + destruct (Z_lt_dec (x - y) 0).
      * apply int_clamp_eval_uneg; [lia | lstep; unfold enc; f_equal; apply w_sub_wrap | lia].
      * apply int_clamp_eval; [lia | lstep; unfold enc; f_equal; apply w_sub_wrap |].
        cbn [fits256]; unfold uword; lia.
  - assert (k = 32) by lia. subst k. rewrite Hb_32 in *.
    pose proof W_val; pose proof HALF_val.
    destruct s; lstep; unfold enc; rewrite w_sub_wrap.
    + assert (Sx : sword x) by (unfold sword, MINS, MAXS; lia).
      assert (Sy : sword y) by (unfold sword, MINS, MAXS; lia).
      unfold w_slt, w_sgt, w_eq. rewrite (ts_wrap x Sx), (ts_wrap y Sy).
      change (to_signed (wrap 0)) with 0.
      rewrite enc_out_chk. unfold in_rangeb. rewrite ty_lo_s, ty_hi_s, Hb_32.
      destruct (wrap_cases (x - y) ltac:(lia)) as [[C ->]|[[C ->]|[C ->]]]; unfold to_signed; bsolve.
    + rewrite ?(wrap_small x), ?(wrap_small y) by lia.
      rewrite enc_out_chk. unfold in_rangeb. rewrite ty_lo_u, ty_hi_u, Hb_32 by lia.
      unfold w_iszero, w_gt.
      destruct (wrap_cases (x - y) ltac:(lia)) as [[C ->]|[[C ->]|[C ->]]]; bsolve.
Qed.

(* evaluation of  (seq (assert (gt y 0)) y) *)
Lemma nonzero_y_eval x y : - W < y < W ->
  leval (env2 x y) m_nonzero_y = if y =? 0 then Revert else Val (wrap y).
Proof.
  intros H. lstep. unfold enc. rewrite gt0_val by exact H. rewrite b2z_eq0, negb_involutive.
  destruct (y =? 0); reflexivity.
Qed.

Theorem safe_mod_exact T x y : ty_ok T -> in_range T x -> in_range T y ->
  leval (env2 x y) (m_safe_mod T) = enc_out (arith_spec T AMod x y).
Proof.
  destruct T as [k s d]. intros [Hk _] Hx Hy. cbn [nbytes] in Hk.
  pose proof (in_range_fits k s d x Hk Hx) as Fx. pose proof (in_range_fits k s d y Hk Hy) as Fy.
  pose proof (range_bounds k s d x ltac:(lia) Hx) as Bx.
  pose proof W_val; pose proof HALF_val.
  unfold m_safe_mod. cbn [nsigned arith_spec]. cbn [leval].
  rewrite nonzero_y_eval by (destruct s; cbn in Fy; unfold sword, uword, MINS, MAXS in Fy; lia).
  destruct (Z.eqb_spec y 0) as [->|N]; [reflexivity|].
  pose proof (rem_abs_le x y N) as [R1 [R2 R3]].
  assert (IR : in_rangeb (Build_nty k s d) (Z.rem x y) = true).
  { apply in_rangeb_iff. unfold in_range. destruct s;
    [rewrite ty_lo_s, ty_hi_s | rewrite ty_lo_u, ty_hi_u by lia]; lia. }
  unfold chk. rewrite IR. cbn [enc_out].
  destruct s; lstep; unfold enc; f_equal.
  - apply smod_val; assumption.
  - cbn in Fx, Fy. unfold uword in *. rewrite (wrap_small x), (wrap_small y) by lia.
    rewrite umod_val by lia. symmetry. apply wrap_small. lia.
Qed.

Theorem usub_exact T x y : ty_ok T -> nsigned T = true -> in_range T x ->
  leval (env2 x y) (m_usub T) = enc_out (arith_spec T AUSub x y).
Proof.
  destruct T as [k s d]. cbn [nsigned]. intros [Hk _] -> Hx. cbn [nbytes] in Hk.
  pose proof (in_range_fits k true d x Hk Hx) as Fx. cbn in Fx.
  pose proof (range_bounds k true d x ltac:(lia) Hx) as Bx.
  assert (Sl : sword (- Hb k)).
  { pose proof (in_range_fits k true d (- Hb k) Hk) as F. apply F. unfold in_range. rewrite ty_lo_s, ty_hi_s.
    pose proof (Hb_pos k ltac:(lia)). lia. }
  unfold m_usub. rewrite ty_lo_s. lstep. unfold enc, w_sgt.
  rewrite (ts_wrap x Fx), (ts_wrap _ Sl).
  cbn [arith_spec]. rewrite enc_out_chk. unfold in_rangeb. rewrite ty_lo_s, ty_hi_s.
  rewrite b2z_eq0. cbv iota in Bx.
  destruct (x >? - Hb k) eqn:G; cbn [negb]; cbv iota.
  - rewrite w_sub_wrap. bsolve.
  - bsolve.
Qed.

Lemma DIVISOR_val : DIVISOR = 10000000000. Proof. reflexivity. Qed.
Definition P167 : Z := 2 ^ 167.
Lemma P167_val : P167 = 187072209578355573530071658587684226515959365500928. Proof. reflexivity. Qed.
Lemma Hb_21 : Hb 21 = P167. Proof. reflexivity. Qed.

Theorem safe_div_exact T x y : ty_ok T -> in_range T x -> in_range T y ->
  leval (env2 x y) (m_safe_div T) = enc_out (arith_spec T ADiv x y).
Proof.
  destruct T as [k s d]. intros [Hk Hd] Hx Hy. cbn [nbytes nsigned ndec] in Hk, Hd.
  pose proof (in_range_fits k s d x Hk Hx) as Fx. pose proof (in_range_fits k s d y Hk Hy) as Fy.
  pose proof (range_bounds k s d x ltac:(lia) Hx) as Bx. pose proof (range_bounds k s d y ltac:(lia) Hy) as By.
  pose proof W_val; pose proof HALF_val; pose proof DIVISOR_val.
  assert (Wy : - W < y < W) by (destruct s; cbn in Fy; unfold sword, uword, MINS, MAXS in Fy; lia).
  unfold m_safe_div. cbn [nbytes nsigned ndec arith_spec].
  cbn [leval]. rewrite nonzero_y_eval by exact Wy.
  destruct (Z.eqb_spec y 0) as [->|N]; [destruct d; reflexivity|].
  destruct d.
  - (* decimal: k = 21, signed *)
    destruct (Hd eq_refl) as [-> ->]. cbn in Fx, Fy. rewrite Hb_21 in *. pose proof P167_val.
    lstep. unfold enc. rewrite w_mul_wrap.
    assert (Sx : sword (x * DIVISOR)) by (unfold sword, MINS, MAXS; lia).
    rewrite sdiv_val by assumption.
    change (21 <? 32) with true. change (21 =? 32) with false. lstep.
    change (wrap 1 =? 0) with false. cbv iota.
    rewrite (clamp_var_eval _ _ 21 true true (wrap (Z.quot (x * DIVISOR) y)));
      [| lia | cbn; reflexivity | apply wrap_range].
    apply (chk_enc (Build_nty 21 true true)); [cbn; lia|]. cbn.
    pose proof (quot_abs_le (x * DIVISOR) y N). unfold sword, MINS, MAXS. lia.
  - destruct s.
    + (* signed integer *)
      cbn in Fx, Fy. lstep. unfold enc. rewrite sdiv_val by assumption.
      destruct (Z.eqb_spec k 32) as [->|N32].
      * (* int256 *)
        change (32 <? 32) with false. lstep. unfold enc.
        rewrite min256_val. unfold w_eq. rewrite !w_iszero_b2z, w_or_b2z, b2z_eq0.
        change (wrap 0) with 0. change (w_not 0) with MAXU. rewrite <- wrap_m1.
        rewrite Hb_32 in *.
        rewrite enc_out_chk. unfold in_rangeb. rewrite ty_lo_s, ty_hi_s, Hb_32.
        destruct (Z.eq_dec x MINS) as [->|Nx]; [destruct (Z.eq_dec y (-1)) as [->|Ny]|].
        -- vm_compute. reflexivity.
        -- assert (Q : sword (Z.quot MINS y)) by (apply quot_sword; try assumption; tauto).
           assert (wrap y <> wrap (-1)) by (intros C; apply Ny; apply wrap_inj_s; [assumption | unfold sword; wl | exact C]).
           unfold sword, MINS, MAXS in Q. fold MINS in Q |- *. bsolve.
        -- assert (Q : sword (Z.quot x y)) by (apply quot_sword; try assumption; tauto).
           assert (wrap x <> HALF) by (rewrite <- wrap_MINS; intros C; apply Nx; apply wrap_inj_s; [assumption | unfold sword; wl | exact C]).
           unfold sword, MINS, MAXS in Q. bsolve.
      * assert (k <? 32 = true) as -> by lia. lstep.
        change (wrap 1 =? 0) with false. cbv iota.
        rewrite (clamp_var_eval _ _ k true false (wrap (Z.quot x y)));
          [| lia | cbn; reflexivity | apply wrap_range].
        apply (chk_enc (Build_nty k true false)); [cbn; lia|]. cbn.
        pose proof (quot_abs_le x y N). range_facts k. unfold sword, MINS, MAXS. lia.
    + (* unsigned integer: no clamp *)
      cbn in Fx, Fy. unfold uword in Fx, Fy. lstep. unfold enc.
      rewrite (wrap_small x), (wrap_small y) by lia. rewrite udiv_val by lia.
      change (wrap 1 =? 0) with false. cbv iota.
      pose proof (quot_abs_le x y N). assert (0 <= Z.quot x y) by (apply Z.quot_pos; lia).
      rewrite enc_out_chk. unfold in_rangeb. rewrite ty_lo_u, ty_hi_u by lia.
      rewrite wrap_small by lia. bsolve.
Qed.

Lemma in_range_sword T v : 1 <= nbytes T <= 32 -> nsigned T = true -> in_range T v -> sword v.
Proof. destruct T as [k s d]. cbn. intros Hk -> H. exact (in_range_fits k true d v Hk H). Qed.

Lemma not_sword_chk T v : 1 <= nbytes T <= 32 -> fits256 (nsigned T) v \/ chk T v = Revert.
Proof.
  intros Hk. unfold chk. destruct (in_rangeb T v) eqn:E; [left | right; reflexivity].
  apply in_rangeb_iff in E. destruct T as [k s d]. exact (in_range_fits k s d v Hk E).
Qed.

Theorem safe_mul_exact T x y : ty_ok T -> in_range T x -> in_range T y ->
  leval (env2 x y) (m_safe_mul T) = enc_out (arith_spec T AMul x y).
Proof.
  destruct T as [k s d]. intros [Hk Hd] Hx Hy. cbn [nbytes nsigned ndec] in Hk, Hd.
  pose proof (in_range_fits k s d x Hk Hx) as Fx. pose proof (in_range_fits k s d y Hk Hy) as Fy.
  pose proof (range_bounds k s d x ltac:(lia) Hx) as Bx. pose proof (range_bounds k s d y ltac:(lia) Hy) as By.
  pose proof W_val; pose proof HALF_val; pose proof DIVISOR_val.
  unfold m_safe_mul. cbn [nbytes nsigned ndec arith_spec].
  destruct d.
  - (* decimal *)
    destruct (Hd eq_refl) as [-> ->]. cbn in Fx, Fy. rewrite Hb_21 in *. pose proof P167_val.
    change (16 <? 21) with true. change (21 =? 32) with false. change (21 <? 32) with true.
    lstep. unfold enc. rewrite w_mul_wrap. rewrite smul_ok_val by assumption. rewrite b2z_eq0.
    assert (Nsp : (x =? MINS) && (y =? -1) = false) by (unfold MINS; lia). rewrite Nsp, orb_false_r.
    destruct (Z.eqb_spec y 0) as [->|N].
    + rewrite orb_true_r. cbn [negb]. cbv iota.
      replace (x * 0) with 0 by lia. vm_compute. reflexivity.
    + rewrite orb_false_r. destruct (swordb (x * y)) eqn:S; cbn [negb]; cbv iota.
      * apply swordb_iff in S.
        apply (int_clamp_eval _ _ 21 true true (Z.quot (x * y) DIVISOR)); [lia | |].
        -- lstep. f_equal. apply sdiv_val; [assumption | unfold sword; wl | lia].
        -- cbn. pose proof (quot_abs_le (x * y) DIVISOR ltac:(lia)). unfold sword, MINS, MAXS in *. lia.
      * assert (~ sword (x * y)) by (rewrite <- swordb_iff; congruence).
        rewrite enc_out_chk. unfold in_rangeb. rewrite ty_lo_s, ty_hi_s, Hb_21.
        assert (~ (- P167 <= Z.quot (x * y) DIVISOR <= P167 - 1)).
        { intros C. apply H3. unfold sword, MINS, MAXS. rewrite H2 in C. clear - C H0 H1 H2.
          pose proof (Z.quot_rem' (x * y) DIVISOR). pose proof (Z.rem_bound_abs (x * y) DIVISOR ltac:(lia)). lia. }
        bsolve.
  - destruct (Z.ltb_spec 16 k) as [L|L]; [destruct (Z.eqb_spec k 32) as [->|N32]|].
    + (* 256 bits *)
      change (32 <? 32) with false. rewrite Hb_32 in *.
      destruct s; cbn [andb]; lstep; unfold enc; rewrite w_mul_wrap.
      * cbn in Fx, Fy. rewrite min256_val. rewrite smul_ok_val by assumption.
        unfold w_eq. rewrite !w_iszero_b2z, w_or_b2z, w_and_b2z, b2z_eq0.
        change (wrap 0) with 0.
        rewrite (wrap_eq_MINS x Fx). rewrite (wrap_eq_m1 y Fy).
        rewrite enc_out_chk. unfold in_rangeb. rewrite ty_lo_s, ty_hi_s, Hb_32.
        fold MINS. fold MAXS. fold (swordb (x * y)).
        destruct (Z.eqb_spec y 0) as [->|N].
        -- replace (x * 0) with 0 by lia. rewrite !orb_true_r. destruct (x =? MINS); reflexivity.
        -- rewrite !orb_false_r.
           destruct (swordb (x * y)) eqn:S.
           ++ assert (Nsp : (x =? MINS) && (y =? -1) = false).
              { apply swordb_iff in S. unfold sword, MINS, MAXS in S. unfold MINS. bsolve. }
              rewrite Nsp. cbn [orb]. destruct (x =? MINS), (y =? -1); try discriminate; reflexivity.
           ++ cbn [orb]. destruct (x =? MINS), (y =? -1); reflexivity.
      * cbn in Fx, Fy. unfold uword in Fx, Fy.
        rewrite (wrap_small x), (wrap_small y) by lia. rewrite umul_ok_val by assumption.
        rewrite b2z_eq0.
        rewrite enc_out_chk. unfold in_rangeb. rewrite ty_lo_u, ty_hi_u, Hb_32 by lia.
        destruct (Z.eqb_spec y 0) as [->|N].
        -- replace (x * 0) with 0 by lia. reflexivity.
        -- rewrite orb_false_r. assert (0 <= x * y) by nia.
           destruct (Z.ltb_spec (x * y) W); cbn [negb]; cbv iota; bsolve.
    + (* 128 < bits < 256 *)
      assert (k <? 32 = true) as -> by lia. rewrite andb_false_r.
      range_facts k.
      destruct s; lstep; unfold enc; rewrite w_mul_wrap.
      * cbn in Fx, Fy. rewrite smul_ok_val by assumption.
        assert (Nsp : (x =? MINS) && (y =? -1) = false) by (unfold MINS; lia). rewrite Nsp, orb_false_r.
        rewrite b2z_eq0.
        destruct (Z.eqb_spec y 0) as [->|N].
        -- rewrite orb_true_r. cbn [negb]. cbv iota. replace (x * 0) with 0 by lia.
           rewrite (clamp_var_eval _ _ k true false (wrap 0)); [| lia | cbn; reflexivity | apply wrap_range].
           apply (chk_enc (Build_nty k true false)); [cbn; lia | cbn; unfold sword; wl].
        -- rewrite orb_false_r. destruct (swordb (x * y)) eqn:S; cbn [negb]; cbv iota.
           ++ apply swordb_iff in S.
              rewrite (clamp_var_eval _ _ k true false (wrap (x * y))); [| lia | cbn; reflexivity | apply wrap_range].
              apply (chk_enc (Build_nty k true false)); [cbn; lia | exact S].
           ++ destruct (not_sword_chk (Build_nty k true false) (x * y) ltac:(cbn; lia)) as [F|F].
              ** cbn in F. apply swordb_iff in F. congruence.
              ** rewrite F. reflexivity.
      * cbn in Fx, Fy. unfold uword in Fx, Fy.
        rewrite (wrap_small x), (wrap_small y) by lia. rewrite umul_ok_val by assumption.
        rewrite b2z_eq0.
        destruct (Z.eqb_spec y 0) as [->|N].
        -- rewrite orb_true_r. cbn [negb]. cbv iota. replace (x * 0) with 0 by lia.
           rewrite (clamp_var_eval _ _ k false false (wrap 0)); [| lia | cbn; reflexivity | apply wrap_range].
           apply (chk_enc (Build_nty k false false)); [cbn; lia | cbn; unfold uword; wl].
        -- rewrite orb_false_r. assert (0 <= x * y) by nia.
           destruct (Z.ltb_spec (x * y) W); cbn [negb]; cbv iota.
           ++ rewrite (clamp_var_eval _ _ k false false (wrap (x * y))); [| lia | cbn; reflexivity | apply wrap_range].
              apply (chk_enc (Build_nty k false false)); [cbn; lia | cbn; unfold uword; lia].
           ++ destruct (not_sword_chk (Build_nty k false false) (x * y) ltac:(cbn; lia)) as [F|F].
              ** cbn in F. unfold uword in F. lia.
              ** rewrite F. reflexivity.
    + (* bits <= 128: the product cannot overflow 256 bits *)
      assert (k <? 32 = true) as -> by lia. assert (k =? 32 = false) as -> by lia. rewrite andb_false_r.
      lstep. unfold enc. rewrite w_mul_wrap.
      change (wrap 1 =? 0) with false. cbv iota.
      rewrite (clamp_var_eval _ _ k s false (wrap (x * y))); [| lia | cbn; reflexivity | apply wrap_range].
      apply (chk_enc (Build_nty k s false)); [cbn; lia |]. cbn [nsigned].
      pose proof (Hb_le127 k L). pose proof P127_val. pose proof (Hb_pos k ltac:(lia)).
      destruct s; cbn [fits256]; unfold sword, uword, MINS, MAXS; nia.
Qed.

(* core.clamp_basetype on a word held in variable x: passes (returning the word unchanged) iff the word is
   the canonical representation of a value of the type *)
Theorem clamp_basetype_iff T w : ty_ok T -> uword w ->
  leval [("x"%string, w)] (m_clamp_basetype T)
  = if in_rangeb T (sval (nsigned T) w) then Val w else Revert.
Proof.
  destruct T as [k s d]. intros [Hk _] Hw. cbn [nbytes nsigned] in *. unfold m_clamp_basetype. cbn [nbytes nsigned].
  destruct (Z.ltb_spec k 32).
  - apply clamp_var_eval; [lia | reflexivity | exact Hw].
  - assert (k = 32) by lia. subst k. cbn [leval lookup String.eqb Ascii.eqb Bool.eqb vx].
    replace (in_rangeb _ _) with true; [reflexivity|]. symmetry. apply in_rangeb_iff. unfold in_range.
    pose proof W_val. pose proof HALF_val.
    destruct s; cbn [sval]; [rewrite ty_lo_s, ty_hi_s, Hb_32 | rewrite ty_lo_u, ty_hi_u, Hb_32 by lia].
    + pose proof (ts_range w Hw). unfold sword, MINS, MAXS in *. lia.
    + unfold uword in Hw. lia.
Qed.
