(* Exactness of the legacy safe-arithmetic templates (ArithModel.v) w.r.t. ArithSpec.arith_spec,
   for every numeric type, all operand values, every operand shape (IR variable or literal, incl. the
   literal-dependent "evil value" branches) and both outcomes of every cache_when_complex decision. *)
From Coq Require Import ZArith Bool List Lia ZifyBool String.
From Verif Require Import Base.Word256 C03.LIR C03.ArithSpec C03.WordArith C03.TypeLemmas C03.ArithModel.
Import ListNotations.
Open Scope Z_scope.
Open Scope list_scope.
Ltac Zify.zify_post_hook ::= Z.to_euclidean_division_equations.

Ltac lstep := cbn [leval lookup env2 String.eqb Ascii.eqb Bool.eqb ev1 ev2 ev3 vx vy m_nonzero m_min256 m_clamp_of
                   nbytes nsigned ndec m_DIV andb orb is_lit].

(* ---- operands: non-complex terms whose value is stable under the template's own bindings ---- *)
Definition tmpn (n : string) : Prop := n = "ans"%string \/ n = "val"%string \/ n = "res"%string.
Definition tmp_env (pre : env) : Prop := Forall (fun p => tmpn (fst p)) pre.
Definition opd (e : env) (t : lir) (v : Z) : Prop :=
  (forall pre, tmp_env pre -> leval (pre ++ e) t = Val (wrap v)) /\ (forall l, t = LInt l -> l = v).

Lemma opd_here e t v : opd e t v -> leval e t = Val (wrap v).
Proof. intros [H _]. exact (H [] (Forall_nil _)). Qed.
Lemma opd_ext e t v n w : opd e t v -> tmpn n -> opd ((n, w) :: e) t v.
Proof.
  intros [H L] Hn. split; [|exact L]. intros pre Hp.
  replace (pre ++ (n, w) :: e) with ((pre ++ [(n, w)]) ++ e) by (rewrite <- app_assoc; reflexivity).
  apply H. apply Forall_app. split; [exact Hp | constructor; [exact Hn | constructor]].
Qed.
Lemma opd_at e e' n w t v : opd e t v -> tmpn n -> (e' = e \/ e' = (n, w) :: e) -> leval e' t = Val (wrap v).
Proof. intros H Hn [->| ->]; [apply opd_here; exact H | apply opd_here; apply opd_ext; assumption]. Qed.
Lemma opd_lit e v : opd e (LInt v) v.
Proof. split; [intros; reflexivity | intros l E; inversion E; reflexivity]. Qed.
Lemma opd_islit e t v l : opd e t v -> is_lit t = Some l -> l = v.
Proof. intros [_ L] E. destruct t; try discriminate E. inversion E; subst. apply L. reflexivity. Qed.
Lemma lookup_tmp pre e s : tmp_env pre -> s = "x"%string \/ s = "y"%string -> lookup (pre ++ e) s = lookup e s.
Proof.
  induction pre as [|[n w] pre IH]; intros Hp Hs; [reflexivity|]. inversion Hp; subst. cbn [app lookup].
  replace (String.eqb n s) with false; [apply IH; assumption|].
  symmetry. apply String.eqb_neq. cbn in H1. unfold tmpn in H1. intros ->.
  destruct Hs as [-> | ->]; destruct H1 as [C|[C|C]]; discriminate C.
Qed.
Lemma opd_x x y : opd (env2 x y) vx x.
Proof.
  split; [|intros l E; discriminate E]. intros pre Hp. unfold vx. cbn [leval].
  rewrite lookup_tmp by (try assumption; left; reflexivity). reflexivity.
Qed.
Lemma opd_y x y : opd (env2 x y) vy y.
Proof.
  split; [|intros l E; discriminate E]. intros pre Hp. unfold vy. cbn [leval].
  rewrite lookup_tmp by (try assumption; right; reflexivity). reflexivity.
Qed.

Lemma tmpn_ans : tmpn "ans". Proof. left; reflexivity. Qed.
Lemma tmpn_val : tmpn "val". Proof. right; left; reflexivity. Qed.
Lemma tmpn_res : tmpn "res". Proof. right; right; reflexivity. Qed.

(* ---- cache_when_complex: inlined or bound by `with`, the body sees a term evaluating to the cached word ---- *)
Lemma cache_eval inl n e arg body w out :
  leval e arg = Val w ->
  (forall e' er, leval e' er = Val w -> (e' = e \/ e' = (n, w) :: e) -> leval e' (body er) = out) ->
  leval e (m_cache inl n arg body) = out.
Proof.
  intros Ha Hb. unfold m_cache. destruct inl.
  - apply Hb; [exact Ha | left; reflexivity].
  - cbn [leval]. rewrite Ha. apply Hb; [|right; reflexivity].
    cbn [leval lookup]. rewrite String.eqb_refl. reflexivity.
Qed.

Lemma clamp_of_eval e er k s d w : 1 <= k <= 31 -> leval e er = Val w -> uword w ->
  leval e (m_clamp_of k s er) = if in_rangeb (Build_nty k s d) (sval s w) then Val w else Revert.
Proof.
  intros Hk Hl Hw. unfold m_clamp_of. destruct s; cbn [leval]; rewrite !Hl; cbn [leval ev1 ev2].
  - pose proof (sclamp_iff k w Hk Hw) as I. rewrite <- (in_rangeb_iff (Build_nty k true false)) in I.
    cbn [sval]. change (in_rangeb (Build_nty k true d)) with (in_rangeb (Build_nty k true false)).
    unfold w_eq, b2z. destruct (w =? w_signextend (wrap (k - 1)) w) eqn:E;
    destruct (in_rangeb (Build_nty k true false) (to_signed w)); cbn; try reflexivity; lia.
  - pose proof (uclamp_iff k w Hk Hw) as I. rewrite <- (in_rangeb_iff (Build_nty k false false)) in I.
    cbn [sval]. change (in_rangeb (Build_nty k false d)) with (in_rangeb (Build_nty k false false)).
    unfold w_iszero, b2z. destruct (w_shr (wrap (8 * k)) w =? 0) eqn:E;
    destruct (in_rangeb (Build_nty k false false) w); cbn; try reflexivity; lia.
Qed.
Lemma clamp_var_eval e v k s d w : 1 <= k <= 31 -> lookup e v = Some w -> uword w ->
  leval e (m_clamp_var k s v) = if in_rangeb (Build_nty k s d) (sval s w) then Val w else Revert.
Proof. intros Hk Hl Hw. apply clamp_of_eval; [exact Hk | cbn [leval]; rewrite Hl; reflexivity | exact Hw]. Qed.

Lemma chk_enc T r : 1 <= nbytes T <= 32 -> fits256 (nsigned T) r ->
  (if in_rangeb T (sval (nsigned T) (wrap r)) then Val (wrap r) else Revert) = enc_out (chk T r).
Proof. intros Hk Hf. rewrite sval_wrap by exact Hf. unfold chk. destruct (in_rangeb T r); reflexivity. Qed.

(* clamp of a term that evaluates to the word of r *)
Lemma clamp_of_exact e er k s d r : 1 <= k <= 31 -> leval e er = Val (wrap r) -> fits256 s r ->
  leval e (m_clamp_of k s er) = enc_out (chk (Build_nty k s d) r).
Proof.
  intros Hk Ha Hf. rewrite (clamp_of_eval _ _ k s d (wrap r)); [| exact Hk | exact Ha | apply wrap_range].
  apply (chk_enc (Build_nty k s d)); cbn; [lia | exact Hf].
Qed.
Lemma int_clamp_eval e arg k s d r inl : 1 <= k <= 31 -> leval e arg = Val (wrap r) -> fits256 s r ->
  leval e (m_int_clamp k s arg inl) = enc_out (chk (Build_nty k s d) r).
Proof.
  intros Hk Ha Hf. unfold m_int_clamp. apply (cache_eval _ _ _ _ _ (wrap r)); [exact Ha|].
  intros e' er Her _. apply clamp_of_exact; assumption.
Qed.

Lemma enc_out_chk T r : enc_out (chk T r) = if in_rangeb T r then Val (wrap r) else Revert.
Proof. unfold chk. destruct (in_rangeb T r); reflexivity. Qed.

Ltac range_facts k :=
  pose proof (Hb_pos k ltac:(lia)); pose proof W_val; pose proof HALF_val; pose proof P247_val;
  try pose proof (Hb_le247 k ltac:(lia)).

Lemma range_bounds k s d v : 1 <= k -> in_range (Build_nty k s d) v ->
  if s then - Hb k <= v <= Hb k - 1 else 0 <= v <= 2 * Hb k - 1.
Proof. intros Hk H. unfold in_range in H. destruct s; [rewrite ty_lo_s, ty_hi_s in H | rewrite ty_lo_u, ty_hi_u in H by lia]; exact H. Qed.

Lemma int_clamp_eval_uneg e arg k d r inl : 1 <= k <= 31 -> leval e arg = Val (wrap r) -> - HALF <= r < 0 ->
  leval e (m_int_clamp k false arg inl) = enc_out (chk (Build_nty k false d) r).
Proof.
  intros Hk Ha Hr. unfold m_int_clamp. apply (cache_eval _ _ _ _ _ (wrap r)); [exact Ha|].
  intros e' er Her _.
  rewrite (clamp_of_eval _ _ k false d (wrap r)); [| exact Hk | exact Her | apply wrap_range].
  cbn [sval]. range_facts k. rewrite wrap_neg by lia.
  unfold chk, in_rangeb. rewrite ty_lo_u, ty_hi_u by lia. bsolve.
Qed.

(* evaluate a binary op on two operands *)
Lemma l2_eval e o ea eb x y : leval e ea = Val x -> leval e eb = Val y -> leval e (L2 o ea eb) = Val (ev2 o x y).
Proof. intros Ha Hb. cbn [leval]. rewrite Hb, Ha. reflexivity. Qed.

Theorem safe_add_exact T e ea eb inl x y : ty_ok T -> in_range T x -> in_range T y -> opd e ea x -> opd e eb y ->
  leval e (m_safe_add T ea eb inl) = enc_out (arith_spec T AAdd x y).
Proof.
  destruct T as [k s d]. intros [Hk _] Hx Hy Oa Ob. cbn [nbytes] in Hk.
  pose proof (range_bounds k s d x ltac:(lia) Hx) as Bx. pose proof (range_bounds k s d y ltac:(lia) Hy) as By.
  assert (Harg : leval e (L2 OAdd ea eb) = Val (wrap (x + y))).
  { rewrite (l2_eval _ _ _ _ _ _ (opd_here _ _ _ Oa) (opd_here _ _ _ Ob)). cbn [ev2]. f_equal. apply w_add_wrap. }
  unfold m_safe_add, m_safe_addsub. cbn [nbytes nsigned arith_spec].
  destruct (k <? 32) eqn:E.
  - apply int_clamp_eval; [lia | exact Harg |].
    range_facts k. destruct s; cbn [fits256]; unfold sword, uword, MINS, MAXS; lia.
  - assert (k = 32) by lia. subst k. rewrite Hb_32 in *.
    pose proof W_val; pose proof HALF_val.
    apply (cache_eval _ _ _ _ _ _ _ Harg). intros e' er Her He'.
    pose proof (opd_at _ _ _ _ _ _ Oa tmpn_ans He') as Ha. pose proof (opd_at _ _ _ _ _ _ Ob tmpn_ans He') as Hb'.
    destruct s; cbn [leval]; rewrite ?Her, ?Ha, ?Hb'; cbn [leval ev1 ev2].
    + (* int256 *)
      assert (Sx : sword x) by (unfold sword, MINS, MAXS; lia).
      assert (Sy : sword y) by (unfold sword, MINS, MAXS; lia).
      unfold w_slt, w_eq. rewrite (ts_wrap x Sx), (ts_wrap y Sy).
      change (to_signed (wrap 0)) with 0.
      rewrite enc_out_chk. unfold in_rangeb. rewrite ty_lo_s, ty_hi_s, Hb_32.
      destruct (wrap_cases (x + y) ltac:(lia)) as [[C ->]|[[C ->]|[C ->]]]; unfold to_signed; bsolve.
    + (* uint256 *)
      rewrite ?(wrap_small x), ?(wrap_small y) by lia.
      rewrite enc_out_chk. unfold in_rangeb. rewrite ty_lo_u, ty_hi_u, Hb_32 by lia.
      unfold w_iszero, w_lt.
      destruct (wrap_cases (x + y) ltac:(lia)) as [[C ->]|[[C ->]|[C ->]]]; bsolve.
Qed.

Theorem safe_sub_exact T e ea eb inl x y : ty_ok T -> in_range T x -> in_range T y -> opd e ea x -> opd e eb y ->
  leval e (m_safe_sub T ea eb inl) = enc_out (arith_spec T ASub x y).
Proof.
  destruct T as [k s d]. intros [Hk _] Hx Hy Oa Ob. cbn [nbytes] in Hk.
  pose proof (range_bounds k s d x ltac:(lia) Hx) as Bx. pose proof (range_bounds k s d y ltac:(lia) Hy) as By.
  assert (Harg : leval e (L2 OSub ea eb) = Val (wrap (x - y))).
  { rewrite (l2_eval _ _ _ _ _ _ (opd_here _ _ _ Oa) (opd_here _ _ _ Ob)). cbn [ev2]. f_equal. apply w_sub_wrap. }
  unfold m_safe_sub, m_safe_addsub. cbn [nbytes nsigned arith_spec].
  destruct (k <? 32) eqn:E.
  - range_facts k. destruct s.
    + apply int_clamp_eval; [lia | exact Harg |].
      cbn [fits256]; unfold sword, MINS, MAXS; lia.
    + destruct (Z_lt_dec (x - y) 0).
      * apply int_clamp_eval_uneg; [lia | exact Harg | lia].
      * apply int_clamp_eval; [lia | exact Harg |].
        cbn [fits256]; unfold uword; lia.
  - assert (k = 32) by lia. subst k. rewrite Hb_32 in *.
    pose proof W_val; pose proof HALF_val.
    apply (cache_eval _ _ _ _ _ _ _ Harg). intros e' er Her He'.
    pose proof (opd_at _ _ _ _ _ _ Oa tmpn_ans He') as Ha. pose proof (opd_at _ _ _ _ _ _ Ob tmpn_ans He') as Hb'.
    destruct s; cbn [leval]; rewrite ?Her, ?Ha, ?Hb'; cbn [leval ev1 ev2].
    + assert (Sx : sword x) by (unfold sword, MINS, MAXS; lia).
      assert (Sy : sword y) by (unfold sword, MINS, MAXS; lia).
      unfold w_slt, w_sgt, w_eq. rewrite (ts_wrap x Sx), (ts_wrap y Sy).
      change (to_signed (wrap 0)) with 0.
      rewrite enc_out_chk. unfold in_rangeb. rewrite ty_lo_s, ty_hi_s, Hb_32.
      destruct (wrap_cases (x - y) ltac:(lia)) as [[C ->]|[[C ->]|[C ->]]]; unfold to_signed; bsolve.
    + rewrite ?(wrap_small x), ?(wrap_small y) by lia.
      rewrite enc_out_chk. unfold in_rangeb. rewrite ty_lo_u, ty_hi_u, Hb_32 by lia.
      unfold w_iszero, w_gt.
      destruct (wrap_cases (x - y) ltac:(lia)) as [[C ->]|[[C ->]|[C ->]]]; bsolve.
Qed.

(* evaluation of  (seq (assert (gt y 0)) y) *)
Lemma nonzero_eval e eb y : - W < y < W -> leval e eb = Val (wrap y) ->
  leval e (m_nonzero eb) = if y =? 0 then Revert else Val (wrap y).
Proof.
  intros H Hb. unfold m_nonzero. cbn [leval]. rewrite !Hb. cbn [leval ev2].
  rewrite gt0_val by exact H. rewrite b2z_eq0, negb_involutive.
  destruct (y =? 0); reflexivity.
Qed.

Theorem safe_mod_exact T e ea eb x y : ty_ok T -> in_range T x -> in_range T y -> opd e ea x -> opd e eb y ->
  leval e (m_safe_mod T ea eb) = enc_out (arith_spec T AMod x y).
Proof.
  destruct T as [k s d]. intros [Hk _] Hx Hy Oa Ob. cbn [nbytes] in Hk.
  pose proof (in_range_fits k s d x Hk Hx) as Fx. pose proof (in_range_fits k s d y Hk Hy) as Fy.
  pose proof (range_bounds k s d x ltac:(lia) Hx) as Bx.
  pose proof W_val; pose proof HALF_val.
  unfold m_safe_mod. cbn [nsigned arith_spec]. cbn [leval].
  rewrite (nonzero_eval _ _ y) by (try apply opd_here; try assumption; destruct s; cbn in Fy; unfold sword, uword, MINS, MAXS in Fy; lia).
  destruct (Z.eqb_spec y 0) as [->|N]; [reflexivity|].
  rewrite (opd_here _ _ _ Oa).
  pose proof (rem_abs_le x y N) as [R1 [R2 R3]].
  assert (IR : in_rangeb (Build_nty k s d) (Z.rem x y) = true).
  { apply in_rangeb_iff. unfold in_range. destruct s;
    [rewrite ty_lo_s, ty_hi_s | rewrite ty_lo_u, ty_hi_u by lia]; lia. }
  unfold chk. rewrite IR. cbn [enc_out].
  destruct s; cbn [ev2]; unfold enc; f_equal.
  - apply smod_val; assumption.
  - cbn in Fx, Fy. unfold uword in *. rewrite (wrap_small x), (wrap_small y) by lia.
    rewrite umod_val by lia. symmetry. apply wrap_small. lia.
Qed.

Theorem usub_exact T x y : ty_ok T -> nsigned T = true -> in_range T x ->
  leval (env2 x y) (m_usub T) = enc_out (arith_spec T AUSub x y).
Proof.
  destruct T as [k s d]. cbn [nsigned]. intros [Hk _] -> Hx. cbn [nbytes] in Hk.
  pose proof (in_range_fits k true d x Hk Hx) as Fx. cbn in Fx.
  pose proof (range_bounds k true d x ltac:(lia) Hx) as Bx.
  assert (Sl : sword (- Hb k)).
  { pose proof (in_range_fits k true d (- Hb k) Hk) as F. apply F. unfold in_range. rewrite ty_lo_s, ty_hi_s.
    pose proof (Hb_pos k ltac:(lia)). lia. }
  unfold m_usub. rewrite ty_lo_s. lstep. unfold enc, w_sgt.
  rewrite (ts_wrap x Fx), (ts_wrap _ Sl).
  cbn [arith_spec]. rewrite enc_out_chk. unfold in_rangeb. rewrite ty_lo_s, ty_hi_s.
  rewrite b2z_eq0. cbv iota in Bx.
  destruct (x >? - Hb k) eqn:G; cbn [negb]; cbv iota.
  - rewrite w_sub_wrap. bsolve.
  - bsolve.
Qed.

Lemma DIVISOR_val : DIVISOR = 10000000000. Proof. reflexivity. Qed.
Definition P167 : Z := 2 ^ 167.
Lemma P167_val : P167 = 187072209578355573530071658587684226515959365500928. Proof. reflexivity. Qed.
Lemma Hb_21 : Hb 21 = P167. Proof. reflexivity. Qed.


Lemma clamp_of_revert e er k s : leval e er = Revert -> leval e (m_clamp_of k s er) = Revert.
Proof. intros H. unfold m_clamp_of. destruct s; cbn [leval]; rewrite !H; reflexivity. Qed.

Definition lit_ok (t : lir) (v : Z) : Prop := forall l, is_lit t = Some l -> l = v.
Lemma opd_lit_ok e t v : opd e t v -> lit_ok t v.
Proof. intros H l E. exact (opd_islit _ _ _ _ H E). Qed.

Lemma b2z_and_or_ne a b : w_or (w_iszero (b2z a)) (w_iszero (b2z b)) = b2z (negb (a && b)).
Proof. destruct a, b; reflexivity. Qed.

(* value of the int256 `not (x == MIN and y == -1)` guard of safe_div, for every literal-ness of the operands *)
Lemma div_ok_eval T e ea eb x y :
  leval e ea = Val (wrap x) -> leval e eb = Val (wrap y) -> lit_ok ea x -> lit_ok eb y ->
  (nsigned T = true -> sword x) -> (nsigned T = true -> sword y) ->
  exists c, leval e (m_div_ok T ea eb) = Val c /\
            (c =? 0) = (nsigned T && (nbytes T =? 32) && ((x =? MINS) && (y =? -1))).
Proof.
  intros Ha Hb La Lb Sx Sy. unfold m_div_ok.
  destruct (nsigned T); [|exists (wrap 1); split; reflexivity].
  specialize (Sx eq_refl). specialize (Sy eq_refl).
  destruct (nbytes T =? 32); [|exists (wrap 1); split; reflexivity].
  cbn [andb].
  assert (NX : leval e (L2 ONe ea m_min256) = Val (b2z (negb (x =? MINS)))).
  { cbn [leval m_min256]. rewrite Ha. cbn [leval ev2]. rewrite min256_wrap, (w_eq_wrap x MINS Sx sword_MINS).
    rewrite w_iszero_b2z. reflexivity. }
  assert (NY : leval e (L2 ONe eb (L1 ONot (LInt 0))) = Val (b2z (negb (y =? -1)))).
  { cbn [leval]. rewrite Hb. cbn [leval ev1 ev2]. rewrite w_not0, (w_eq_wrap y (-1) Sy sword_m1).
    rewrite w_iszero_b2z. reflexivity. }
  unfold lit_ok in La, Lb.
  destruct (is_lit ea) as [v|] eqn:Ea; [specialize (La v eq_refl); subst v|];
    (destruct (is_lit eb) as [u|] eqn:Eb; [specialize (Lb u eq_refl); subst u|]).
  4: { eexists; split.
       - cbn [leval m_min256]. cbn [leval m_min256] in NX, NY. rewrite Ha, Hb in *. cbn [leval ev1 ev2] in *.
         injection NX as NX. injection NY as NY. rewrite NX, NY. cbn [leval ev2]. reflexivity.
       - rewrite w_or_b2z, b2z_eq0. destruct (x =? MINS), (y =? -1); reflexivity. }
  all: change (- 2 ^ 255) with MINS; destruct (x =? MINS) eqn:EX; destruct (y =? -1) eqn:EY;
    eexists; (split; [first [exact NX | exact NY | reflexivity] | reflexivity]).
Qed.

Theorem safe_div_exact T e ea eb i1 x y : ty_ok T -> in_range T x -> in_range T y -> opd e ea x -> opd e eb y ->
  leval e (m_safe_div T ea eb i1) = enc_out (arith_spec T ADiv x y).
Proof.
  destruct T as [k s d]. intros [Hk Hd] Hx Hy Oa Ob. cbn [nbytes nsigned ndec] in Hk, Hd.
  pose proof (in_range_fits k s d x Hk Hx) as Fx. pose proof (in_range_fits k s d y Hk Hy) as Fy.
  pose proof (range_bounds k s d x ltac:(lia) Hx) as Bx. pose proof (range_bounds k s d y ltac:(lia) Hy) as By.
  pose proof W_val; pose proof HALF_val; pose proof DIVISOR_val.
  assert (Wy : - W < y < W) by (destruct s; cbn in Fy; unfold sword, uword, MINS, MAXS in Fy; lia).
  unfold m_safe_div. cbn [nbytes nsigned ndec arith_spec].
  set (x' := if d then L2 OMul ea (LInt DIVISOR) else ea).
  set (arg := L2 (m_DIV (Build_nty k s d)) x' (m_nonzero eb)).
  pose proof (opd_here _ _ _ Oa) as Ha0. pose proof (opd_here _ _ _ Ob) as Hb0.
  (* divisor zero: the division node itself reverts *)
  destruct (Z.eqb_spec y 0) as [->|N].
  { assert (Rv : leval e arg = Revert).
    { unfold arg. cbn [leval]. rewrite (nonzero_eval _ _ 0) by (try lia; exact Hb0). reflexivity. }
    unfold m_cache. destruct i1; [|cbn [leval]; rewrite Rv; reflexivity].
    cbn [leval].
    destruct (div_ok_eval (Build_nty k s d) e ea eb x 0) as [c [Hc _]];
      try assumption; try (eapply opd_lit_ok; eassumption);
      try (cbn [nsigned]; intros ->; cbn in Fx; try exact Fx; exact sword_0).
    rewrite Hc. destruct (c =? 0); [reflexivity|].
      unfold m_div_res. cbn [nbytes nsigned ndec].
      repeat match goal with |- context [if ?b then _ else _] => destruct b end;
        first [apply clamp_of_revert; exact Rv | exact Rv]. }
  (* divisor non-zero *)
  set (xv := if d then x * DIVISOR else x).
  assert (Sxv : if s then sword xv else 0 <= xv < W).
  { unfold xv. destruct d.
    - destruct (Hd eq_refl) as [-> ->]. cbn in Fx. rewrite Hb_21 in *. pose proof P167_val.
      unfold sword, MINS, MAXS. lia.
    - destruct s; cbn in Fx; [exact Fx | exact Fx]. }
  assert (Hx' : leval e x' = Val (wrap xv)).
  { unfold x', xv. destruct d; [|exact Ha0]. cbn [leval]. rewrite Ha0. cbn [leval ev2]. f_equal. apply w_mul_wrap. }
  set (q := Z.quot xv y).
  assert (Harg : leval e arg = Val (wrap q)).
  { unfold arg. cbn [leval]. rewrite (nonzero_eval _ _ y) by (try assumption).
    replace (y =? 0) with false by (symmetry; apply Z.eqb_neq; exact N). rewrite Hx'.
    destruct s; cbn [m_DIV nsigned ev2].
    - f_equal. apply sdiv_val; [exact Sxv | exact Fy | exact N].
    - cbn in Fy. unfold uword in Fy. rewrite (wrap_small xv), (wrap_small y) by lia.
      rewrite udiv_val by lia. f_equal. symmetry. apply wrap_small.
      pose proof (quot_abs_le xv y N). assert (0 <= Z.quot xv y) by (apply Z.quot_pos; lia). unfold q. lia. }
  apply (cache_eval _ _ _ _ _ _ _ Harg). intros e' er Her He'.
  pose proof (opd_at _ _ _ _ _ _ Oa tmpn_res He') as Ha. pose proof (opd_at _ _ _ _ _ _ Ob tmpn_res He') as Hb'.
  cbn [leval].
  destruct (div_ok_eval (Build_nty k s d) e' ea eb x y) as [c [Hc Hc0]];
    try assumption; try (eapply opd_lit_ok; eassumption);
    try (cbn [nsigned]; intros ->; cbn in Fx, Fy; assumption).
  rewrite Hc, Hc0. cbn [nsigned nbytes].
  replace (if d then chk (Build_nty k s d) (Z.quot (x * DIVISOR) y) else chk (Build_nty k s d) (Z.quot x y))
    with (chk (Build_nty k s d) q) by (unfold q, xv; destruct d; reflexivity).
  pose proof (quot_abs_le xv y N) as QA. fold q in QA.
  unfold m_div_res. cbn [nbytes nsigned ndec].
  destruct d.
  - (* decimal *)
    destruct (Hd eq_refl) as [-> ->]. change (21 =? 32) with false. cbn [andb]. change (21 <? 32) with true.
    cbv iota. apply clamp_of_exact; [lia | exact Her |]. cbn. unfold sword, MINS, MAXS in *. lia.
  - unfold xv in *. destruct s.
    + cbn in Fx, Fy. cbn [andb].
      destruct (Z.eqb_spec k 32) as [->|N32].
      * (* int256 *)
        change (32 <? 32) with false. cbn [andb]. rewrite Hb_32 in *.
        rewrite enc_out_chk. unfold in_rangeb. rewrite ty_lo_s, ty_hi_s, Hb_32.
        destruct ((x =? MINS) && (y =? -1)) eqn:S.
        -- assert (x = MINS /\ y = -1) as [-> ->] by lia. vm_compute. reflexivity.
        -- assert (Q : sword q) by (apply quot_sword; try assumption; lia).
           unfold sword, MINS, MAXS in Q. rewrite Her. bsolve.
      * assert (k <? 32 = true) as -> by lia. cbn [andb]. cbv iota.
        range_facts k.
        destruct (m_div_skip (Build_nty k true false) ea eb) eqn:SK; cbn [negb]; cbv iota.
        -- (* clamp skipped: a literal operand excludes MIN / -1 *)
           assert (NS : x <> - Hb k \/ y <> -1).
           { unfold m_div_skip in SK. apply orb_true_iff in SK. destruct SK as [SK|SK].
             - destruct (is_lit ea) as [v|] eqn:E1; [|discriminate SK].
               pose proof (opd_islit _ _ _ _ Oa E1). subst v. rewrite ty_lo_s in SK. left. lia.
             - destruct (is_lit eb) as [u|] eqn:E1; [|discriminate SK].
               pose proof (opd_islit _ _ _ _ Ob E1). subst u. right. lia. }
           pose proof (quot_bound (Hb k) x y ltac:(lia) Bx N NS) as QB. fold q in QB.
           rewrite Her. rewrite enc_out_chk. unfold in_rangeb. rewrite ty_lo_s, ty_hi_s. bsolve.
        -- apply clamp_of_exact; [lia | exact Her |]. cbn. unfold sword, MINS, MAXS. lia.
    + (* unsigned: never clamped *)
      cbn in Fx, Fy. unfold uword in Fx, Fy. cbn [andb]. cbv iota. rewrite Her.
      assert (0 <= q) by (apply Z.quot_pos; lia).
      rewrite enc_out_chk. unfold in_rangeb. rewrite ty_lo_u, ty_hi_u by lia. bsolve.
Qed.

Lemma not_sword_chk T v : 1 <= nbytes T <= 32 -> fits256 (nsigned T) v \/ chk T v = Revert.
Proof.
  intros Hk. unfold chk. destruct (in_rangeb T v) eqn:E; [left | right; reflexivity].
  apply in_rangeb_iff in E. destruct T as [k s d]. exact (in_range_fits k s d v Hk E).
Qed.

(* ---- safe_mul ---- *)
Definition sp (x y : Z) : bool := (x =? MINS) && (y =? -1).
Definition mul_A (T : nty) (x y : Z) : bool :=
  if 16 <? nbytes T
  then (if nsigned T then (swordb (x * y) || sp x y) || (y =? 0) else (x * y <? W) || (y =? 0))
  else true.
Definition mul_pass (T : nty) (x y : Z) : bool :=
  mul_A T x y && (if nsigned T && (nbytes T =? 32) then negb (sp x y) else true).

Lemma mul_ok_eval T e ea eb er x y :
  leval e ea = Val (wrap x) -> leval e eb = Val (wrap y) -> leval e er = Val (wrap (x * y)) ->
  lit_ok ea x -> lit_ok eb y -> fits256 (nsigned T) x -> fits256 (nsigned T) y ->
  exists c, leval e (m_mul_ok T ea eb er) = Val c /\ (c =? 0) = negb (mul_pass T x y).
Proof.
  intros Ha Hb Her La Lb Fx Fy. unfold m_mul_ok, mul_pass, mul_A.
  set (ok0 := if 16 <? nbytes T then L2 OOr (L2 OEq (L2 (m_DIV T) er eb) ea) (L1 OIszero eb) else LInt 1).
  set (A := if 16 <? nbytes T
            then (if nsigned T then (swordb (x * y) || sp x y) || (y =? 0) else (x * y <? W) || (y =? 0))
            else true).
  assert (OK0 : leval e ok0 = Val (b2z A)).
  { unfold ok0, A. destruct (16 <? nbytes T); [|reflexivity].
    cbn [leval]. rewrite Hb, Her, Ha. cbn [leval ev1 ev2]. f_equal.
    unfold m_DIV, sp. destruct (nsigned T); cbn [ev2 fits256] in *.
    - apply smul_ok_val; assumption.
    - unfold uword in *. rewrite (wrap_small x), (wrap_small y) by lia. apply umul_ok_val; assumption. }
  destruct (nsigned T) eqn:SG; cbn [andb];
    [|exists (b2z A); split; [exact OK0 | rewrite b2z_eq0, andb_true_r; reflexivity]].
  destruct (nbytes T =? 32) eqn:K32;
    [|exists (b2z A); split; [exact OK0 | rewrite b2z_eq0, andb_true_r; reflexivity]].
  cbn [fits256] in Fx, Fy.
  assert (NX : leval e (L2 ONe ea m_min256) = Val (b2z (negb (x =? MINS)))).
  { cbn [leval m_min256]. rewrite Ha. cbn [leval ev2]. rewrite min256_wrap, (w_eq_wrap x MINS Fx sword_MINS).
    rewrite w_iszero_b2z. reflexivity. }
  assert (NY : leval e (L2 ONe (L1 ONot eb) (LInt 0)) = Val (b2z (negb (y =? -1)))).
  { cbn [leval]. rewrite Hb. cbn [leval ev1 ev2]. rewrite (w_not_eq0 y Fy), w_iszero_b2z. reflexivity. }
  assert (AND : forall t B, leval e t = Val (b2z B) -> leval e (L2 OAnd ok0 t) = Val (b2z (A && B))).
  { intros t B Ht. cbn [leval]. rewrite Ht, OK0. cbn [ev2]. rewrite w_and_b2z. reflexivity. }
  unfold lit_ok in La, Lb. unfold sp.
  destruct (is_lit ea) as [v|] eqn:Ea; [specialize (La v eq_refl); subst v|];
    (destruct (is_lit eb) as [u|] eqn:Eb; [specialize (Lb u eq_refl); subst u|]).
  4: { eexists; split.
       - apply AND. cbn [leval]. cbn [leval] in NX, NY. rewrite Ha, Hb in *. cbn [leval ev1 ev2 m_min256] in *.
         injection NX as NX. injection NY as NY. rewrite NX, NY. rewrite w_or_b2z. reflexivity.
       - rewrite b2z_eq0. destruct A, (x =? MINS), (y =? -1); reflexivity. }
  all: change (- 2 ^ 255) with MINS; destruct (x =? MINS) eqn:EX; destruct (y =? -1) eqn:EY;
    eexists; (split; [first [apply AND; first [exact NX | exact NY] | exact OK0]
                     | rewrite b2z_eq0; destruct A; reflexivity]).
Qed.

Lemma mul_pass_fits T x y : ty_ok T -> in_range T x -> in_range T y ->
  (mul_pass T x y = true <-> fits256 (nsigned T) (x * y)).
Proof.
  destruct T as [k s d]. intros [Hk _] Hx Hy. cbn [nbytes nsigned] in *.
  pose proof (range_bounds k s d x ltac:(lia) Hx) as Bx. pose proof (range_bounds k s d y ltac:(lia) Hy) as By.
  pose proof W_val; pose proof HALF_val.
  unfold mul_pass, mul_A, sp. cbn [nbytes nsigned].
  destruct (Z.ltb_spec 16 k) as [L|L].
  - destruct s; cbn [fits256 andb].
    + rewrite <- swordb_iff.
      assert (F1 : x = MINS -> y = -1 -> swordb (x * y) = false) by (intros -> ->; reflexivity).
      assert (F2 : y = 0 -> swordb (x * y) = true) by (intros ->; rewrite Z.mul_0_r; reflexivity).
      assert (F3 : k <> 32 -> x <> MINS) by (intros; range_facts k; unfold MINS; lia).
      destruct (Z.eqb_spec k 32), (Z.eqb_spec x MINS), (Z.eqb_spec y (-1)), (Z.eqb_spec y 0), (swordb (x * y));
        cbn [andb orb negb]; try lia; intuition (try congruence; try lia).
    + rewrite andb_true_r. unfold uword. assert (0 <= x * y) by nia.
      destruct (Z.eqb_spec y 0) as [->|]; [rewrite Z.mul_0_r, orb_true_r; split; [lia | reflexivity]|].
      rewrite orb_false_r. lia.
  - replace (k =? 32) with false by lia. rewrite andb_false_r. cbn [andb].
    pose proof (Hb_le127 k L). pose proof P127_val. pose proof (Hb_pos k ltac:(lia)).
    split; [intros _ | reflexivity].
    destruct s; cbn [fits256]; unfold sword, uword, MINS, MAXS; nia.
Qed.

Theorem mul_core_exact T e ea eb i1 i2 x y : ty_ok T -> in_range T x -> in_range T y -> opd e ea x -> opd e eb y ->
  leval e (m_mul_core T ea eb i1 i2) = enc_out (arith_spec T AMul x y).
Proof.
  intros OkT Hx Hy Oa Ob. pose proof (mul_pass_fits T x y OkT Hx Hy) as PF.
  destruct T as [k s d]. destruct OkT as [Hk Hd]. cbn [nbytes nsigned ndec] in Hk, Hd, PF.
  pose proof (in_range_fits k s d x Hk Hx) as Fx. pose proof (in_range_fits k s d y Hk Hy) as Fy.
  pose proof W_val; pose proof HALF_val; pose proof DIVISOR_val.
  assert (Harg : leval e (L2 OMul ea eb) = Val (wrap (x * y))).
  { rewrite (l2_eval _ _ _ _ _ _ (opd_here _ _ _ Oa) (opd_here _ _ _ Ob)). cbn [ev2]. f_equal. apply w_mul_wrap. }
  unfold m_mul_core. apply (cache_eval _ _ _ _ _ _ _ Harg). intros e' er Her He'.
  pose proof (opd_at _ _ _ _ _ _ Oa tmpn_ans He') as Ha. pose proof (opd_at _ _ _ _ _ _ Ob tmpn_ans He') as Hb'.
  cbn [leval].
  destruct (mul_ok_eval (Build_nty k s d) e' ea eb er x y) as [c [Hc Hc0]];
    try assumption; try (eapply opd_lit_ok; eassumption).
  rewrite Hc, Hc0. cbn [arith_spec ndec].
  destruct (mul_pass (Build_nty k s d) x y) eqn:P; cbn [negb]; cbv iota.
  - (* the checks pass: the product did not overflow 256 bits *)
    assert (F : fits256 s (x * y)) by (apply PF; reflexivity).
    unfold m_mul_res. cbn [nbytes nsigned ndec].
    destruct d.
    + destruct (Hd eq_refl) as [-> ->]. change (21 <? 32) with true. cbv iota. cbn [fits256] in F.
      apply (int_clamp_eval _ _ 21 true true (Z.quot (x * y) DIVISOR)); [lia | |].
      * cbn [leval]. rewrite Her. cbn [leval ev2 m_DIV nsigned]. f_equal.
        apply sdiv_val; [exact F | unfold sword; wl | lia].
      * cbn. pose proof (quot_abs_le (x * y) DIVISOR ltac:(lia)). unfold sword, MINS, MAXS in *. lia.
    + destruct (Z.ltb_spec k 32).
      * apply clamp_of_exact; [lia | exact Her | exact F].
      * assert (k = 32) by lia. subst k. rewrite Her.
        rewrite enc_out_chk. replace (in_rangeb _ _) with true; [reflexivity|].
        symmetry. apply in_rangeb_iff. unfold in_range.
        destruct s; cbn [fits256] in F; [rewrite ty_lo_s, ty_hi_s, Hb_32 | rewrite ty_lo_u, ty_hi_u, Hb_32 by lia];
          unfold sword, uword, MINS, MAXS in F; lia.
  - (* a check fails: the product does not fit in 256 bits, a fortiori not in T *)
    assert (NF : ~ fits256 s (x * y)) by (intros F; apply PF in F; congruence).
    destruct d.
    + destruct (Hd eq_refl) as [-> ->]. cbn [fits256] in NF.
      rewrite enc_out_chk. unfold in_rangeb. rewrite ty_lo_s, ty_hi_s, Hb_21. pose proof P167_val.
      assert (~ (- P167 <= Z.quot (x * y) DIVISOR <= P167 - 1)).
      { intros C. apply NF. unfold sword, MINS, MAXS.
        pose proof (Z.quot_rem' (x * y) DIVISOR). pose proof (Z.rem_bound_abs (x * y) DIVISOR ltac:(lia)). lia. }
      bsolve.
    + destruct (not_sword_chk (Build_nty k s false) (x * y) ltac:(cbn; lia)) as [F|F]; [contradiction|].
      rewrite F. reflexivity.
Qed.

Theorem safe_mul_exact T e ea eb i1 i2 x y : ty_ok T -> in_range T x -> in_range T y -> opd e ea x -> opd e eb y ->
  leval e (m_safe_mul T ea eb i1 i2) = enc_out (arith_spec T AMul x y).
Proof.
  intros OkT Hx Hy Oa Ob. unfold m_safe_mul. destruct (is_lit ea).
  - rewrite (mul_core_exact T e eb ea i1 i2 y x) by assumption.
    unfold arith_spec. rewrite (Z.mul_comm y x). reflexivity.
  - apply mul_core_exact; assumption.
Qed.

(* core.clamp_basetype on a word held in variable x: passes (returning the word unchanged) iff the word is
   the canonical representation of a value of the type *)
Theorem clamp_basetype_iff T w : ty_ok T -> uword w ->
  leval [("x"%string, w)] (m_clamp_basetype T)
  = if in_rangeb T (sval (nsigned T) w) then Val w else Revert.
Proof.
  destruct T as [k s d]. intros [Hk _] Hw. cbn [nbytes nsigned] in *. unfold m_clamp_basetype. cbn [nbytes nsigned].
  destruct (Z.ltb_spec k 32).
  - apply clamp_var_eval; [lia | reflexivity | exact Hw].
  - assert (k = 32) by lia. subst k. cbn [leval lookup String.eqb Ascii.eqb Bool.eqb vx].
    replace (in_rangeb _ _) with true; [reflexivity|]. symmetry. apply in_rangeb_iff. unfold in_range.
    pose proof W_val. pose proof HALF_val.
    destruct s; cbn [sval]; [rewrite ty_lo_s, ty_hi_s, Hb_32 | rewrite ty_lo_u, ty_hi_u, Hb_32 by lia].
    + pose proof (ts_range w Hw). unfold sword, MINS, MAXS in *. lia.
    + unfold uword in Hw. lia.
Qed.
