(* ArithSpec: the *mathematical* statement of C03 for vyper's numeric types.  No proofs here.
   A numeric type is (bytes k, signed?, decimal?): bits = 8k, 1 <= k <= 32; decimal = (21, signed, true),
   whose values are integers scaled by 10^10 (168-bit signed).
   arith_spec T op x y = exact result if representable in T, else Revert.  // and % truncate toward zero /
   take the sign of the dividend (Z.quot / Z.rem); division or modulo by zero reverts. *)
From Coq Require Import ZArith Bool List String.
From Verif Require Import Base.Word256 C03.LIR.
Import ListNotations.
Open Scope Z_scope.

Record nty := { nbytes : Z; nsigned : bool; ndec : bool }.
Definition nbits (T : nty) : Z := 8 * nbytes T.

Definition ty_lo (T : nty) : Z := if nsigned T then - 2 ^ (nbits T - 1) else 0.
Definition ty_hi (T : nty) : Z := if nsigned T then 2 ^ (nbits T - 1) - 1 else 2 ^ nbits T - 1.
Definition in_range (T : nty) (v : Z) : Prop := ty_lo T <= v <= ty_hi T.
Definition in_rangeb (T : nty) (v : Z) : bool := (ty_lo T <=? v) && (v <=? ty_hi T).

Definition ty_ok (T : nty) : Prop :=
  1 <= nbytes T <= 32 /\ (ndec T = true -> nbytes T = 21 /\ nsigned T = true).

Definition DIVISOR : Z := 10 ^ 10.

Inductive aop := AAdd | ASub | AMul | ADiv | AMod | AUSub | APow.
(* ADiv: `//` on integers, `/` on decimals.  AUSub ignores y. *)

Definition chk (T : nty) (v : Z) : outcome := if in_rangeb T v then Val v else Revert.

Definition arith_spec (T : nty) (op : aop) (x y : Z) : outcome :=
  match op with
  | AAdd => chk T (x + y)
  | ASub => chk T (x - y)
  | AMul => if ndec T then chk T (Z.quot (x * y) DIVISOR) else chk T (x * y)
  | ADiv => if y =? 0 then Revert
            else if ndec T then chk T (Z.quot (x * DIVISOR) y) else chk T (Z.quot x y)
  | AMod => if y =? 0 then Revert else chk T (Z.rem x y)
  | AUSub => chk T (- x)
  | APow => if y <? 0 then Revert else chk T (x ^ y)
  end.

(* encoding of a mathematical value as an EVM word, and of outcomes *)
Definition enc (v : Z) : Z := wrap v.
Definition enc_out (o : outcome) : outcome := match o with Val v => Val (enc v) | o => o end.

Definition env2 (x y : Z) : env := [("x"%string, enc x); ("y"%string, enc y)].

(* the type family: all 64 integer types + decimal *)
Definition int_types : list nty :=
  flat_map (fun k => [ {| nbytes := k; nsigned := false; ndec := false |};
                       {| nbytes := k; nsigned := true; ndec := false |} ])
           (map Z.of_nat (seq 1 32)).
Definition decimal_t : nty := {| nbytes := 21; nsigned := true; ndec := true |}.
Definition num_types : list nty := int_types ++ [decimal_t].
