(* Gen-independent definitions for the O-tie of the family of BxModel.v (as_wei_value, floor, ceil, min, max) and the general
   theorems "tied template => exact" used by PropsBx.v. *)
From Coq Require Import ZArith Bool List String Lia.
From Verif Require Import Base.Word256 C03.LIR C03.VSL C03.ArithSpec C03.WordArith C03.TypeLemmas C03.TieBase
  C03.BuiltinExact C03.BxModel C03.BxExact.
Import ListNotations.
Open Scope Z_scope.

Definition xtie_l (p : xfn * lir) : bool := x_okb (fst p) && lir_eqb (snd p) (m_bx (fst p)).
Definition xtie_v (p : xfn * vtemplate) : bool := x_okb (fst p) && vtemplate_eqb (snd p) (v_bx (fst p)).

Theorem m_bx_exact f vs : x_okb f = true -> x_domb f vs = true -> leval (xlenv vs) (m_bx f) = enc_out (x_spec f vs).
Proof.
  intros Ok Dom. destruct f as [T dn| | |mx T]; cbn [x_domb] in Dom.
  - destruct vs as [|v [|? ?]]; try discriminate Dom. cbn [x_okb] in Ok.
    apply andb_true_iff in Ok. destruct Ok as [Ok H2]. apply andb_true_iff in Ok. destruct Ok as [OkT H1].
    apply ty_okb_ok in OkT. apply in_rangeb_iff in Dom. cbn [m_bx x_spec].
    apply wei_exact; [exact OkT | lia | exact Dom].
  - destruct vs as [|v [|? ?]]; try discriminate Dom. apply in_rangeb_iff in Dom. exact (floor_exact v Dom).
  - destruct vs as [|v [|? ?]]; try discriminate Dom. apply in_rangeb_iff in Dom. exact (ceil_exact v Dom).
  - destruct vs as [|a [|b [|? ?]]]; try discriminate Dom. cbn [x_okb] in Ok. apply ty_okb_ok in Ok.
    apply andb_true_iff in Dom. destruct Dom as [Ha Hb]. apply in_rangeb_iff in Ha. apply in_rangeb_iff in Hb.
    exact (minmax_exact mx T a b Ok Ha Hb).
Qed.

Theorem v_bx_exact f vs : x_okb f = true -> x_domb f vs = true -> vrun (xvenv vs) (v_bx f) = enc_out (x_spec f vs).
Proof.
  intros Ok Dom. destruct f as [T dn| | |mx T]; cbn [x_domb] in Dom.
  - destruct vs as [|v [|? ?]]; try discriminate Dom. cbn [x_okb] in Ok.
    apply andb_true_iff in Ok. destruct Ok as [Ok H2]. apply andb_true_iff in Ok. destruct Ok as [OkT H1].
    apply ty_okb_ok in OkT. apply in_rangeb_iff in Dom. cbn [v_bx x_spec].
    apply vwei_exact; [exact OkT | lia | exact Dom].
  - destruct vs as [|v [|? ?]]; try discriminate Dom. apply in_rangeb_iff in Dom. exact (vfloor_exact v Dom).
  - destruct vs as [|v [|? ?]]; try discriminate Dom. apply in_rangeb_iff in Dom. exact (vceil_exact v Dom).
  - destruct vs as [|a [|b [|? ?]]]; try discriminate Dom. cbn [x_okb] in Ok. apply ty_okb_ok in Ok.
    apply andb_true_iff in Dom. destruct Dom as [Ha Hb]. apply in_rangeb_iff in Ha. apply in_rangeb_iff in Hb.
    exact (vminmax_exact mx T a b Ok Ha Hb).
Qed.

Theorem bx_exact_legacy f t vs : xtie_l (f, t) = true -> x_domb f vs = true -> leval (xlenv vs) t = enc_out (x_spec f vs).
Proof.
  intros Tie Dom. unfold xtie_l in Tie. cbn [fst snd] in Tie. apply andb_true_iff in Tie. destruct Tie as [Ok E].
  apply lir_eqb_eq in E. subst t. apply m_bx_exact; assumption.
Qed.
Theorem bx_exact_venom f t vs : xtie_v (f, t) = true -> x_domb f vs = true -> vrun (xvenv vs) t = enc_out (x_spec f vs).
Proof.
  intros Tie Dom. unfold xtie_v in Tie. cbn [fst snd] in Tie. apply andb_true_iff in Tie. destruct Tie as [Ok E].
  apply vtemplate_eqb_eq in E. subst t. apply v_bx_exact; assumption.
Qed.

(* ---------------- the expected family: every numeric type x every unit name; floor; ceil; min / max of every type ---------------- *)
Definition xkeys : list xfn :=
  flat_map (fun T => map (fun u => XWei T (snd u)) wei_units) num_types
  ++ [XFloor; XCeil]
  ++ flat_map (fun T => [XMinMax false T; XMinMax true T]) num_types.

Definition nty_eqb' (a b : nty) : bool :=
  (nbytes a =? nbytes b) && Bool.eqb (nsigned a) (nsigned b) && Bool.eqb (ndec a) (ndec b).
Definition xfn_eqb (a b : xfn) : bool :=
  match a, b with
  | XWei T d, XWei T' d' => nty_eqb' T T' && (d =? d')
  | XFloor, XFloor | XCeil, XCeil => true
  | XMinMax m T, XMinMax m' T' => Bool.eqb m m' && nty_eqb' T T'
  | _, _ => false
  end.
Fixpoint xkeys_eqb (l m : list xfn) : bool :=
  match l, m with
  | [], [] => true
  | a :: l', b :: m' => xfn_eqb a b && xkeys_eqb l' m'
  | _, _ => false
  end.

(* evaluable form of the spec rows for the differential (same function; kept separate so that the check never depends on how
   the theorems are proved) *)
Definition xoc (o : outcome) : Z := match o with Val v => v | Revert => -1 | Stuck => -2 | Unit => -3 end.
Definition xspecs (f : xfn) (P : list (list Z)) : list Z := map (fun vs => xoc (enc_out (x_spec f vs))) P.
Definition xlevs (t : lir) (P : list (list Z)) : list Z := map (fun vs => xoc (leval (xlenv vs) t)) P.
Definition xvevs (t : vtemplate) (P : list (list Z)) : list Z := map (fun vs => xoc (vrun (xvenv vs) t)) P.
