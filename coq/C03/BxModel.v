(* C03 extension (session 3): the arithmetic builtins with their own overflow / rounding logic that were outside C03's
   theorems: as_wei_value(value, unit), floor(d), ceil(d), min(a, b), max(a, b).  Specification and the parametric template
   models of both front ends.  No proofs here.
     vyper/builtins/functions.py        AsWeiValue.build_IR, Floor.build_IR, Ceil.build_IR, _MinMax.build_IR
     vyper/codegen_venom/builtins/misc.py lower_as_wei_value, lower_floor, lower_ceil; builtins/simple.py _lower_minmax
   SOURCE-LEVEL SEMANTICS (docs/built-in-functions.rst; the folding code `_try_fold` of each builtin is the reference for
   literal arguments and defines the same function):
     as_wei_value(v, unit) : uint256.  "the value cannot be negative"; the result is "the integer quantity of wei equivalent
       to that amount", i.e. v * denom(unit); for a decimal "the result might be rounded down to the nearest integer"
       (`int(value * denom)` in _try_fold with value >= 0 = floor).  A decimal is its integer representation d = value * 10^10,
       so the result is floor(d * denom / 10^10).  The result type is uint256: every product in [0, 2^256) is representable
       and must be returned; a negative value or a product >= 2^256 reverts.
       denom: wei 1 | femtoether kwei babbage 10^3 | picoether mwei lovelace 10^6 | nanoether gwei shannon 10^9 |
              microether szabo 10^12 | milliether finney 10^15 | ether 10^18 | kether grand 10^21   (wei_units below)
     floor(d) : int256 = math.floor(value) = floor(d / 10^10);   ceil(d) : int256 = math.ceil(value) = -floor(-d / 10^10)
     min(a, b), max(a, b) : T for two operands of the same numeric type T: the smaller / larger VALUE. *)
From Coq Require Import ZArith Bool List String.
From Verif Require Import Base.Word256 C03.LIR C03.VSL C03.ArithSpec C03.TieBase C03.BuiltinExact.
Import ListNotations.
Open Scope Z_scope.

Inductive xfn := XWei (T : nty) (dn : Z) | XFloor | XCeil | XMinMax (mx : bool) (T : nty).

(* ---------------- specification on values ---------------- *)
Definition wei_spec (T : nty) (dn v : Z) : outcome :=
  if v <? 0 then Revert
  else let r := if ndec T then (v * dn) / DIVISOR else v * dn in
       if r <? W then Val r else Revert.

Definition x_spec (f : xfn) (vs : list Z) : outcome :=
  match f, vs with
  | XWei T dn, [v] => wei_spec T dn v
  | XFloor, [v] => Val (v / DIVISOR)
  | XCeil, [v] => Val (- ((- v) / DIVISOR))
  | XMinMax mx _, [a; b] => Val (if mx then Z.max a b else Z.min a b)
  | _, _ => Stuck
  end.

Definition MAXDENOM : Z := 1000000000000000000000.
Definition x_okb (f : xfn) : bool :=
  match f with
  | XWei T dn => ty_okb T && (1 <=? dn) && (dn <=? MAXDENOM)
  | XMinMax _ T => ty_okb T
  | _ => true
  end.
(* operand values the type system allows *)
Definition x_domb (f : xfn) (vs : list Z) : bool :=
  match f, vs with
  | XWei T _, [v] => in_rangeb T v
  | XFloor, [v] | XCeil, [v] => in_rangeb decimal_t v
  | XMinMax _ T, [a; b] => in_rangeb T a && in_rangeb T b
  | _, _ => false
  end.

(* the unit names, in the order of the exporter (tools/vlib/c03_bx.py UNITS), with their denominations *)
Definition wei_units : list (string * Z) :=
  [("wei", 1); ("femtoether", 10 ^ 3); ("kwei", 10 ^ 3); ("babbage", 10 ^ 3); ("picoether", 10 ^ 6); ("mwei", 10 ^ 6);
   ("lovelace", 10 ^ 6); ("nanoether", 10 ^ 9); ("gwei", 10 ^ 9); ("shannon", 10 ^ 9); ("microether", 10 ^ 12);
   ("szabo", 10 ^ 12); ("milliether", 10 ^ 15); ("finney", 10 ^ 15); ("ether", 10 ^ 18); ("kether", 10 ^ 21);
   ("grand", 10 ^ 21)]%string.

(* ---------------- legacy models (operand: the IR variable x / x, y) ---------------- *)
Definition lx : lir := LVar "x".
Definition ly : lir := LVar "y".
(* (product / value == denom) or value == 0 : UNSIGNED division whatever the type of value (the result is a uint256) *)
Definition m_mulok (p : lir) (dn : Z) : lir := L2 OOr (L2 OEq (L2 ODiv p lx) (LInt dn)) (L1 OIszero lx).
Definition m_wei_body (sg : bool) (p : lir) (dn : Z) : lir :=
  LSeq (LAssert (if sg then L2 OAnd (L2 OSge lx (LInt 0)) (m_mulok p dn) else m_mulok p dn)) p.
Definition m_wei (T : nty) (dn : Z) : lir :=
  if ndec T then LSeq (LAssert (L2 OSge lx (LInt 0))) (L2 ODiv (L2 OMul lx (LInt dn)) (LInt DIVISOR))
  else if dn =? 1 then m_wei_body (nsigned T) (L2 OMul lx (LInt dn)) dn      (* `mul x 1` is not cached (folds to x) *)
  else LWith "ans" (L2 OMul lx (LInt dn)) (m_wei_body (nsigned T) (LVar "ans") dn).
Definition m_floor : lir :=
  LIf (L2 OSlt lx (LInt 0)) (L2 OSdiv (L2 OSub lx (LInt (DIVISOR - 1))) (LInt DIVISOR)) (L2 OSdiv lx (LInt DIVISOR)).
Definition m_ceil : lir :=
  LIf (L2 OSlt lx (LInt 0)) (L2 OSdiv lx (LInt DIVISOR)) (L2 OSdiv (L2 OAdd lx (LInt (DIVISOR - 1))) (LInt DIVISOR)).
Definition is_u256 (T : nty) : bool := (nbytes T =? 32) && negb (nsigned T) && negb (ndec T).
Definition mm_cmp (mx : bool) (T : nty) : op2 :=
  if is_u256 T then (if mx then OGt else OLt) else (if mx then OSgt else OSlt).
Definition m_minmax (mx : bool) (T : nty) : lir := L3 OSelect (L2 (mm_cmp mx T) lx ly) lx ly.

Definition m_bx (f : xfn) : lir :=
  match f with
  | XWei T dn => m_wei T dn | XFloor => m_floor | XCeil => m_ceil | XMinMax mx T => m_minmax mx T
  end.

(* ---------------- Venom models (operands %1 / %1, %2) ---------------- *)
Definition v_nonneg (r1 r2 : string) : list vinstr :=
  [V2 r1 OSlt (VLit 0) p1; V1 r2 OIszero (VVar r1); VAssert (VVar r2)].
Definition v_wei (T : nty) (dn : Z) : vtemplate :=
  if dn =? 1 then
    (if ndec T then (v_nonneg "%2" "%3" ++ [V2 "%4" ODiv (VLit DIVISOR) p1], VVar "%4")
     else if nsigned T then (v_nonneg "%2" "%3", p1) else ([], p1))
  else if ndec T then
    (v_nonneg "%2" "%3" ++ [V2 "%4" OMul (VLit dn) p1; V2 "%5" ODiv (VLit DIVISOR) (VVar "%4")], VVar "%5")
  else
    ([V2 "%2" OMul (VLit dn) p1; V2 "%3" ODiv p1 (VVar "%2"); V2 "%4" OEq (VLit dn) (VVar "%3"); V1 "%5" OIszero p1;
      V2 "%6" OOr (VVar "%5") (VVar "%4")]
     ++ (if nsigned T then [V2 "%7" OSlt (VLit 0) p1; V1 "%8" OIszero (VVar "%7"); V2 "%9" OAnd (VVar "%6") (VVar "%8");
                             VAssert (VVar "%9")]
         else [VAssert (VVar "%6")]), VVar "%2").
Definition v_floor : vtemplate :=
  ([V2 "%2" OSlt (VLit 0) p1; V2 "%3" OSub (VLit (DIVISOR - 1)) p1] ++ v_select "%4" "%5" "%6" (VVar "%2") (VVar "%3") p1
   ++ [V2 "%7" OSdiv (VLit DIVISOR) (VVar "%6")], VVar "%7").
Definition v_ceil : vtemplate :=
  ([V2 "%2" OSlt (VLit 0) p1; V2 "%3" OAdd (VLit (DIVISOR - 1)) p1] ++ v_select "%4" "%5" "%6" (VVar "%2") p1 (VVar "%3")
   ++ [V2 "%7" OSdiv (VLit DIVISOR) (VVar "%6")], VVar "%7").
Definition v_minmax (mx : bool) (T : nty) : vtemplate :=
  ([V2 "%3" (mm_cmp mx T) p2 p1] ++ v_select "%4" "%5" "%6" (VVar "%3") p1 p2, VVar "%6").

Definition v_bx (f : xfn) : vtemplate :=
  match f with
  | XWei T dn => v_wei T dn | XFloor => v_floor | XCeil => v_ceil | XMinMax mx T => v_minmax mx T
  end.

(* environments: operand values encoded as words *)
Definition xlenv (vs : list Z) : env :=
  match vs with
  | [a] => [("x"%string, wrap a)]
  | [a; b] => [("x"%string, wrap a); ("y"%string, wrap b)]
  | _ => []
  end.
Definition xvenv (vs : list Z) : env :=
  match vs with [a] => benv1 a | [a; b] => benv2 a b | _ => [] end.
