(* O-tie for convert(), Venom: exported templates = model; family = all allowed pairs. *)
From Coq Require Import ZArith Bool List String.
From Verif Require Import C03.LIR C03.VSL C03.ArithSpec C03.ConvSpec C03.ConvModel C03.TieModels C03.ConvTie C03.GenConvVenom.
Import ListNotations.
Lemma tie_convert_venom : forallb vctie_one venom_converts = true.
Proof. vm_compute. reflexivity. Qed.
Lemma family_complete_convert_venom : ckeys_eqb (ckeys venom_converts) conv_pairs = true.
Proof. vm_compute. reflexivity. Qed.
