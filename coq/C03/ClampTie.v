(* Gen-independent definitions for the clamp / venom-usub O-ties. *)
From Coq Require Import ZArith Bool List String Lia.
From Verif Require Import Base.Word256 C03.LIR C03.VSL C03.ArithSpec C03.ConvSpec C03.ArithModel C03.ConvModel
  C03.TieBase C03.TieModels C03.ConvExact C03.ConvTie C03.ClampExact.
Import ListNotations.
Open Scope Z_scope.

Definition flag_lt256 (T : cty) : bool := match T with CFlag n => n <? 256 | _ => true end.
Definition not_flag (T : cty) : bool := match T with CFlag _ => false | _ => true end.
Definition cltie_one (p : cty * lir) : bool :=
  match p with (T, t) => cty_okb T && flag_lt256 T && lir_eqb t (m_cclamp T) end.
Definition vcatie_one (p : cty * vtemplate) : bool :=
  match p with (T, t) => cty_okb T && not_flag T && vtemplate_eqb t (v_cclamp_arith T) end.
Definition vcbtie_one (p : cty * vtemplate) : bool :=
  match p with (T, t) => cty_okb T && flag_lt256 T && vtemplate_eqb t (v_cclamp_abi T) end.
Definition vustie_one (p : nty * vtemplate) : bool :=
  match p with (T, t) => ty_okb T && nsigned T && vtemplate_eqb t (v_usub T) end.

Definition clamp_ctypes : list cty := filter (fun T => negb (cty_eqb T (CFlag 256))) conv_types.
Fixpoint ctys_eqb (l m : list cty) : bool :=
  match l, m with [], [] => true | a :: l', b :: m' => cty_eqb a b && ctys_eqb l' m' | _, _ => false end.
Fixpoint ntys_eqb (l m : list nty) : bool :=
  match l, m with [], [] => true | a :: l', b :: m' => nty_eqb a b && ntys_eqb l' m' | _, _ => false end.
