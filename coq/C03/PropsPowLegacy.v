(* C03, x ** y with a literal base or a literal exponent, legacy front end (arithmetic.safe_pow with the bounds
   computed by the real calculate_largest_power / calculate_largest_base): exact power if representable, else
   revert; negative exponents revert.  For ALL values of the non-literal operand, for every exported (type, literal). *)
From Coq Require Import ZArith Bool List String Lia.
From Verif Require Import Base.Word256 C03.LIR C03.ArithSpec C03.TypeLemmas C03.TieBase C03.TieModels C03.PowExact C03.PowTie
  C03.GenPowLegacy C03.TiePowLegacy.
Import ListNotations.
Open Scope Z_scope.

Lemma ptie_parts kind T lit p1 p2 : pow_side_okb kind T lit p1 p2 = true ->
  ty_ok T /\ in_range T lit /\
  (kind = 0 -> if special_base lit then True else pow_bound_okb T lit p1 = true) /\
  (kind <> 0 -> 0 <= lit /\ if special_exp lit then True else base_bounds_okb T lit p1 p2 = true).
Proof.
  unfold pow_side_okb. intros H.
  destruct (ty_okb T) eqn:O; [|discriminate H]. destruct (ndec T); [discriminate H|].
  destruct (in_rangeb T lit) eqn:R; [|discriminate H]. cbn [andb negb] in H.
  split; [apply ty_okb_ok; exact O|]. split; [apply in_rangeb_iff; exact R|]. split.
  - intros ->. change (0 =? 0) with true in H. cbv iota in H. destruct (special_base lit); [exact I | exact H].
  - intros N. replace (kind =? 0) with false in H by lia. apply andb_true_iff in H. destruct H as [H1 H2].
    split; [lia|]. destruct (special_exp lit); [exact I | exact H2].
Qed.

Theorem legacy_pow_base_exact : forall T a r p2 t, In (0, T, a, r, p2, t) legacy_pows ->
  forall y, in_range T y -> leval (env2 a y) t = enc_out (arith_spec T APow a y).
Proof.
  intros T a r p2 t HIn y Hy.
  pose proof tie_pow_legacy as Tie. rewrite forallb_forall in Tie. specialize (Tie _ HIn).
  unfold ptie_one in Tie. apply andb_true_iff in Tie. destruct Tie as [Tie E]. apply andb_true_iff in Tie. destruct Tie as [_ S].
  destruct (ptie_parts _ _ _ _ _ S) as [OkT [Ra [B _]]].
  change (0 =? 0) with true in E. cbv iota in E. apply lir_eqb_eq in E. subst t.
  apply pow_base_exact; try assumption. apply B. reflexivity.
Qed.
Print Assumptions legacy_pow_base_exact.

Theorem legacy_pow_exp_exact : forall T b lo hi t, In (1, T, b, lo, hi, t) legacy_pows ->
  forall x, in_range T x -> leval (env2 x b) t = enc_out (arith_spec T APow x b).
Proof.
  intros T b lo hi t HIn x Hx.
  pose proof tie_pow_legacy as Tie. rewrite forallb_forall in Tie. specialize (Tie _ HIn).
  unfold ptie_one in Tie. apply andb_true_iff in Tie. destruct Tie as [Tie E]. apply andb_true_iff in Tie. destruct Tie as [_ S].
  destruct (ptie_parts _ _ _ _ _ S) as [OkT [Rb [_ B]]]. destruct (B ltac:(lia)) as [Pb BB].
  change (1 =? 0) with false in E. cbv iota in E. apply lir_eqb_eq in E. subst t.
  apply pow_exp_exact; assumption.
Qed.
Print Assumptions legacy_pow_exp_exact.

Theorem legacy_pow_family_complete : pkeys_eqb (map pkey legacy_pows) pow_keys = true.
Proof. exact family_complete_pow_legacy. Qed.

Example legacy_pow_nonvacuous :
  arith_spec (Build_nty 1 false false) APow 2 7 = Val 128 /\ arith_spec (Build_nty 1 false false) APow 2 8 = Revert /\
  arith_spec (Build_nty 1 true false) APow (-2) 7 = Val (-128) /\ arith_spec (Build_nty 1 true false) APow 2 7 = Revert /\
  existsb (fun p => pkey_eqb (pkey p) (0, Build_nty 1 true false, -2)) legacy_pows = true.
Proof. repeat split; vm_compute; reflexivity. Qed.
