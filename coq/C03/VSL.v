(* VSL: straight-line fragment of Venom IR (vyper/venom/basicblock.py IRInstruction) as emitted by
   vyper/codegen_venom/arithmetic.py through VenomBuilder, and its evaluator.  No proofs here.
   Operands are kept in Venom *storage* order, i.e. reversed w.r.t. the EVM argument order
   (VenomBuilder._emit1_evm reverses); [vstep] undoes the reversal.  Pure EVM ops only + assert + assign. *)
From Coq Require Import ZArith Bool List String.
From Verif Require Import Base.Word256 C03.LIR.
Import ListNotations.
Open Scope Z_scope.

Inductive vop := VLit (n : Z) | VVar (s : string).

Inductive vinstr :=
  | V1 (out : string) (o : op1) (a : vop)
  | V2 (out : string) (o : op2) (a b : vop)        (* storage order: denotes  o b a  *)
  | V3 (out : string) (o : op3) (a b c : vop)      (* storage order: denotes  o c b a *)
  | VAssign (out : string) (a : vop)
  | VAssert (a : vop).

Definition vval (e : env) (a : vop) : option Z :=
  match a with VLit n => Some (wrap n) | VVar s => lookup e s end.

Inductive vres := VOk (e : env) | VRevert | VStuck.

Definition vstep (e : env) (i : vinstr) : vres :=
  match i with
  | V1 out o a =>
      match vval e a with Some x => VOk ((out, ev1 o x) :: e) | None => VStuck end
  | V2 out o a b =>
      match vval e a, vval e b with
      | Some x, Some y => VOk ((out, ev2 o y x) :: e) | _, _ => VStuck end
  | V3 out o a b c =>
      match vval e a, vval e b, vval e c with
      | Some x, Some y, Some z => VOk ((out, ev3 o z y x) :: e) | _, _, _ => VStuck end
  | VAssign out a =>
      match vval e a with Some x => VOk ((out, x) :: e) | None => VStuck end
  | VAssert a =>
      match vval e a with Some x => if x =? 0 then VRevert else VOk e | None => VStuck end
  end.

Fixpoint vsl (e : env) (l : list vinstr) : vres :=
  match l with
  | [] => VOk e
  | i :: r => match vstep e i with VOk e' => vsl e' r | VRevert => VRevert | VStuck => VStuck end
  end.

(* a template = instruction list + the operand holding the result *)
Definition vtemplate := (list vinstr * vop)%type.

Definition vrun (e : env) (t : vtemplate) : outcome :=
  match vsl e (fst t) with
  | VOk e' => match vval e' (snd t) with Some v => Val v | None => Stuck end
  | VRevert => Revert
  | VStuck => Stuck
  end.

Definition vop_eqb (a b : vop) : bool :=
  match a, b with
  | VLit x, VLit y => x =? y
  | VVar x, VVar y => String.eqb x y
  | _, _ => false
  end.
Definition vinstr_eqb (i j : vinstr) : bool :=
  match i, j with
  | V1 o1 p a, V1 o2 q b => String.eqb o1 o2 && op1_eqb p q && vop_eqb a b
  | V2 o1 p a a', V2 o2 q b b' => String.eqb o1 o2 && op2_eqb p q && vop_eqb a b && vop_eqb a' b'
  | V3 o1 p a a' a'', V3 o2 q b b' b'' =>
      String.eqb o1 o2 && op3_eqb p q && vop_eqb a b && vop_eqb a' b' && vop_eqb a'' b''
  | VAssign o1 a, VAssign o2 b => String.eqb o1 o2 && vop_eqb a b
  | VAssert a, VAssert b => vop_eqb a b
  | _, _ => false
  end.
Fixpoint vlist_eqb (l m : list vinstr) : bool :=
  match l, m with
  | [], [] => true
  | i :: l', j :: m' => vinstr_eqb i j && vlist_eqb l' m'
  | _, _ => false
  end.
Definition vtemplate_eqb (s t : vtemplate) : bool := vlist_eqb (fst s) (fst t) && vop_eqb (snd s) (snd t).
