(* O-tie, legacy front end: every template exported from the real generators (GenLegacy.v, regenerated
   each run) is syntactically equal to the hand-written parametric model (ArithModel.v) for some choice of
   the cache_when_complex flags, and the exported family is exactly the expected one.  Kernel-checked by
   computation. *)
From Coq Require Import ZArith Bool List String Lia.
From Verif Require Import Base.Word256 C03.LIR C03.ArithSpec C03.ArithModel C03.TieBase C03.TieModels C03.GenLegacy.
Import ListNotations.
Open Scope Z_scope.

Lemma tie_arith_legacy : forallb tie_one legacy_templates = true.
Proof. vm_compute. reflexivity. Qed.

Lemma tie_clamp_legacy : forallb tie_clamp_one legacy_clamps = true.
Proof. vm_compute. reflexivity. Qed.

Lemma family_complete_legacy : map fst legacy_templates = expected_keys.
Proof. vm_compute. reflexivity. Qed.
Lemma family_complete_legacy_clamps : map fst legacy_clamps = num_types.
Proof. vm_compute. reflexivity. Qed.
