(* O-tie, legacy front end: every template exported from the real generators (GenLegacy.v, regenerated
   each run) is syntactically equal to the hand-written parametric model (ArithModel.v), and the exported
   family is exactly the expected one.  Kernel-checked by computation. *)
From Coq Require Import ZArith Bool List String Lia.
From Verif Require Import Base.Word256 C03.LIR C03.ArithSpec C03.ArithModel C03.TieBase C03.GenLegacy.
Import ListNotations.
Open Scope Z_scope.

Definition model (op : aop) (T : nty) : option lir :=
  match op with
  | AAdd => Some (m_safe_add T) | ASub => Some (m_safe_sub T) | AMul => Some (m_safe_mul T)
  | ADiv => Some (m_safe_div T) | AMod => Some (m_safe_mod T)
  | AUSub => if nsigned T then Some (m_usub T) else None
  | APow => None
  end.

Definition tie_one (p : aop * nty * lir) : bool :=
  match p with (op, T, t) =>
    ty_okb T && match model op T with Some m => lir_eqb t m | None => false end end.

Lemma tie_arith_legacy : forallb tie_one legacy_templates = true.
Proof. vm_compute. reflexivity. Qed.

Definition tie_clamp_one (p : nty * lir) : bool :=
  match p with (T, t) => ty_okb T && lir_eqb t (m_clamp_basetype T) end.
Lemma tie_clamp_legacy : forallb tie_clamp_one legacy_clamps = true.
Proof. vm_compute. reflexivity. Qed.

(* the exported family is the complete one: 65 numeric types x {+,-,*,/,%} plus unary minus on the 33 signed types *)
Definition expected_keys : list (aop * nty) :=
  flat_map (fun T => app [(AAdd, T); (ASub, T); (AMul, T); (ADiv, T); (AMod, T)]
                           (if nsigned T then [(AUSub, T)] else [])) num_types.
Lemma family_complete_legacy : map fst legacy_templates = expected_keys.
Proof. vm_compute. reflexivity. Qed.
Lemma family_complete_legacy_clamps : map fst legacy_clamps = num_types.
Proof. vm_compute. reflexivity. Qed.
