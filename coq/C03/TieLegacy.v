(* O-tie, legacy front end: every template exported from the real generators (GenLegacy.v, regenerated
   each run) is syntactically equal to the hand-written parametric model (ArithModel.v) for some choice of
   the cache_when_complex flags, and the exported family is exactly the expected one.  Kernel-checked by
   computation. *)
From Coq Require Import ZArith Bool List String Lia.
From Verif Require Import Base.Word256 C03.LIR C03.ArithSpec C03.ArithModel C03.TieBase C03.GenLegacy.
Import ListNotations.
Open Scope Z_scope.

Definition bools : list bool := [false; true].
(* operand shape: 0 = both operands are IR variables, 1 = x is the literal [lit], 2 = y is the literal [lit] *)
Definition ea_of (sh lit : Z) : lir := if sh =? 1 then LInt lit else vx.
Definition eb_of (sh lit : Z) : lir := if sh =? 2 then LInt lit else vy.

Definition models (op : aop) (T : nty) (sh lit : Z) : list lir :=
  let ea := ea_of sh lit in
  let eb := eb_of sh lit in
  match op with
  | AAdd => map (m_safe_add T ea eb) bools
  | ASub => map (m_safe_sub T ea eb) bools
  | AMul => flat_map (fun i1 => map (m_safe_mul T ea eb i1) bools) bools
  | ADiv => map (m_safe_div T ea eb) bools
  | AMod => [m_safe_mod T ea eb]
  | AUSub => if nsigned T && (sh =? 0) then [m_usub T] else []
  | APow => []
  end.

Definition tie_one (p : aop * nty * Z * Z * lir) : bool :=
  match p with (op, T, sh, lit, t) =>
    ty_okb T && shape_okb T sh lit && existsb (lir_eqb t) (models op T sh lit) end.

Lemma tie_arith_legacy : forallb tie_one legacy_templates = true.
Proof. vm_compute. reflexivity. Qed.

Definition tie_clamp_one (p : nty * lir) : bool :=
  match p with (T, t) => ty_okb T && lir_eqb t (m_clamp_basetype T) end.
Lemma tie_clamp_legacy : forallb tie_clamp_one legacy_clamps = true.
Proof. vm_compute. reflexivity. Qed.

(* the exported family is the complete expected one: 65 numeric types x {+,-,*,/,%} with both operands
   variable, unary minus on the 33 signed types, and for every literal of [lit_values T] both literal
   positions (a literal zero divisor of safe_div is rejected by the IR optimiser at template time and has no template) *)
Definition zero_div (op : aop) (sh lit : Z) : bool :=
  match op with ADiv => (sh =? 2) && (lit =? 0) | _ => false end.
Definition expected_keys : list (aop * nty * Z * Z) :=
  flat_map (fun T =>
    app (map (fun op => (op, T, 0, 0)) ops5)
   (app (if nsigned T then [(AUSub, T, 0, 0)] else [])
        (flat_map (fun lit =>
           flat_map (fun op => filter (fun k => match k with (o, _, sh, l) => negb (zero_div o sh l) end)
                                      [(op, T, 1, lit); (op, T, 2, lit)]) ops5)
           (lit_values T)))) num_types.
Lemma family_complete_legacy : map fst legacy_templates = expected_keys.
Proof. vm_compute. reflexivity. Qed.
Lemma family_complete_legacy_clamps : map fst legacy_clamps = num_types.
Proof. vm_compute. reflexivity. Qed.
