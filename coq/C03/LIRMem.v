(* LIRMem: the pure LIR (LIR.v, unchanged) extended with read-only memory loads, for the templates that take a
   bytestring operand (pointer to [length word][data ...]).  No proofs here.
   Memory is abstracted to its read function  mem : address -> the 32-byte word that MLOAD returns there
   (0 <= mem a < 2^256).  Any byte-addressed memory induces such a function, so a theorem for all [mem] holds for
   every concrete memory; the templates only read.  [MP t] embeds a load-free subterm (evaluated by [leval]). *)
From Coq Require Import ZArith Bool List String.
From Verif Require Import Base.Word256 C03.LIR.
Import ListNotations.
Open Scope Z_scope.

Inductive mlir :=
  | MP (t : lir)
  | MLoad (a : mlir)
  | M1 (o : op1) (a : mlir)
  | M2 (o : op2) (a b : mlir)
  | MWith (v : string) (a body : mlir)
  | MSeq (a b : mlir)
  | MAssert (c : mlir).

Fixpoint mleval (mem : Z -> Z) (e : env) (t : mlir) : outcome :=
  match t with
  | MP p => leval e p
  | MLoad a => match mleval mem e a with Val x => Val (mem x) | Revert => Revert | _ => Stuck end
  | M1 o a => match mleval mem e a with Val x => Val (ev1 o x) | Revert => Revert | _ => Stuck end
  | M2 o a b =>
      match mleval mem e b with
      | Val y => match mleval mem e a with Val x => Val (ev2 o x y) | Revert => Revert | _ => Stuck end
      | Revert => Revert | _ => Stuck end
  | MWith v a body =>
      match mleval mem e a with Val x => mleval mem ((v, x) :: e) body | Revert => Revert | _ => Stuck end
  | MSeq a b => match mleval mem e a with Revert => Revert | Stuck => Stuck | _ => mleval mem e b end
  | MAssert c =>
      match mleval mem e c with Val x => if x =? 0 then Revert else Unit | Revert => Revert | _ => Stuck end
  end.

Fixpoint mlir_eqb (s t : mlir) : bool :=
  match s, t with
  | MP a, MP b => lir_eqb a b
  | MLoad a, MLoad b => mlir_eqb a b
  | M1 o a, M1 o' a' => op1_eqb o o' && mlir_eqb a a'
  | M2 o a b, M2 o' a' b' => op2_eqb o o' && mlir_eqb a a' && mlir_eqb b b'
  | MWith v a b, MWith v' a' b' => String.eqb v v' && mlir_eqb a a' && mlir_eqb b b'
  | MSeq a b, MSeq a' b' => mlir_eqb a a' && mlir_eqb b b'
  | MAssert a, MAssert a' => mlir_eqb a a'
  | _, _ => false
  end.
