(* Facts about the numeric type family (powers of two, ranges, clamps as range tests). *)
From Coq Require Import ZArith Bool List Lia ZifyBool String.
From Verif Require Import Base.Word256 C03.LIR C03.ArithSpec C03.WordArith.
Open Scope Z_scope.
Ltac Zify.zify_post_hook ::= Z.to_euclidean_division_equations.

Definition P247 : Z := 2 ^ 247.
Lemma P247_val : P247 = 226156424291633194186662080095093570025917938800079226639565593765455331328.
Proof. reflexivity. Qed.
Definition P127 : Z := 2 ^ 127.
Lemma P127_val : P127 = 170141183460469231731687303715884105728.
Proof. reflexivity. Qed.

(* Hb k = 2^(8k-1), the "half" of a k-byte type *)
Definition Hb (k : Z) : Z := 2 ^ (8 * k - 1).
Lemma pow_Hb k : 1 <= k -> 2 ^ (8 * k) = 2 * Hb k.
Proof. intros. unfold Hb. replace (8 * k) with (1 + (8 * k - 1)) at 1 by lia. rewrite Z.pow_add_r by lia. reflexivity. Qed.
Lemma Hb_pos k : 1 <= k -> 128 <= Hb k.
Proof. intros. unfold Hb. change 128 with (2 ^ 7). apply Z.pow_le_mono_r; lia. Qed.
Lemma Hb_le247 k : k <= 31 -> Hb k <= P247.
Proof. intros. unfold Hb, P247. apply Z.pow_le_mono_r; lia. Qed.
Lemma Hb_le127 k : k <= 16 -> Hb k <= P127.
Proof. intros. unfold Hb, P127. apply Z.pow_le_mono_r; lia. Qed.
Lemma Hb_32 : Hb 32 = HALF. Proof. reflexivity. Qed.
Lemma Hb_W k : 1 <= k <= 32 -> exists c, 1 <= c /\ W = c * (2 * Hb k).
Proof.
  intros. exists (2 ^ (256 - 8 * k)). split.
  - change 1 with (2 ^ 0). apply Z.pow_le_mono_r; lia.
  - rewrite <- pow_Hb by lia. rewrite <- Z.pow_add_r by lia. replace (256 - 8 * k + 8 * k) with 256 by lia. reflexivity.
Qed.

(* signed value of a word, by signedness *)
Definition sval (s : bool) (w : Z) : Z := if s then to_signed w else w.
Definition fits256 (s : bool) (r : Z) : Prop := if s then sword r else uword r.

Lemma sval_wrap s r : fits256 s r -> sval s (wrap r) = r.
Proof. destruct s; cbn; intros; [apply ts_wrap | apply wrap_small]; assumption. Qed.

Lemma ty_lo_s k d : ty_lo (Build_nty k true d) = - Hb k. Proof. reflexivity. Qed.
Lemma ty_hi_s k d : ty_hi (Build_nty k true d) = Hb k - 1. Proof. reflexivity. Qed.
Lemma ty_lo_u k d : ty_lo (Build_nty k false d) = 0. Proof. reflexivity. Qed.
Lemma ty_hi_u k d : 1 <= k -> ty_hi (Build_nty k false d) = 2 * Hb k - 1.
Proof. intros. unfold ty_hi, nbits. cbn [nsigned nbytes]. rewrite pow_Hb by lia. reflexivity. Qed.

Lemma in_rangeb_iff T v : in_rangeb T v = true <-> in_range T v.
Proof. unfold in_rangeb, in_range. lia. Qed.

Lemma in_range_fits k s d v : 1 <= k <= 32 -> in_range (Build_nty k s d) v -> fits256 s v.
Proof.
  intros Hk H. unfold in_range in H. destruct (Hb_W k Hk) as [c [Hc HW]]. pose proof (Hb_pos k ltac:(lia)).
  destruct s; cbn [fits256].
  - rewrite ty_lo_s, ty_hi_s in H. unfold sword. pose proof W_HALF. unfold MINS, MAXS. nia.
  - rewrite ty_lo_u, ty_hi_u in H by lia. unfold uword. nia.
Qed.

(* ---- clamps as range tests ---- *)
Lemma uclamp_iff k w : 1 <= k <= 31 -> uword w ->
  (w_shr (wrap (8 * k)) w = 0 <-> in_range (Build_nty k false false) w).
Proof.
  intros Hk Hw. unfold in_range. rewrite ty_lo_u, ty_hi_u by lia.
  rewrite wrap_small by wl. unfold w_shr.
  destruct (8 * k <? 256) eqn:E; [|lia].
  rewrite pow_Hb by lia. pose proof (Hb_pos k ltac:(lia)). unfold uword in Hw.
  rewrite Z.div_small_iff by lia. lia.
Qed.

Lemma sclamp_iff k w : 1 <= k <= 31 -> uword w ->
  (w = w_signextend (wrap (k - 1)) w <-> in_range (Build_nty k true false) (to_signed w)).
Proof.
  intros Hk Hw. unfold in_range. rewrite ty_lo_s, ty_hi_s.
  rewrite wrap_small by wl. unfold w_signextend.
  destruct (k - 1 <? 31) eqn:E; [|lia].
  replace (8 * (k - 1 + 1)) with (8 * k) by lia. fold (Hb k). rewrite pow_Hb by lia.
  destruct (Hb_W k ltac:(lia)) as [c [Hc HW]]. pose proof (Hb_pos k ltac:(lia)) as HP.
  pose proof (Hb_le247 k ltac:(lia)) as H247. pose proof P247_val. pose proof W_val. pose proof HALF_val.
  assert (HBH : 2 * Hb k <= HALF) by lia.
  set (B := 2 * Hb k) in *. set (h := Hb k) in *. unfold uword in Hw.
  assert (HBh : B = 2 * h) by reflexivity. clearbody B h.
  pose proof (Z.mod_pos_bound w B ltac:(lia)) as Hm.
  pose proof (Z.div_mod w B ltac:(lia)) as Hd.
  set (q := w / B) in *. set (m := w mod B) in *. clearbody q m.
  assert (Hq : 0 <= q <= c - 1) by (clear - Hd Hm Hw HW Hc HP HBh; nia).
  assert (Hq0 : w < B -> q = 0) by (clear - Hd Hm HP HBh Hq; nia).
  assert (Hq1 : (c - 1) * B <= w -> q = c - 1) by (clear - Hd Hm HP HBh Hq; nia).
  assert (HWB : W - B = (c - 1) * B) by lia.
  unfold to_signed.
  destruct (m <? h) eqn:E1; destruct (w <? HALF) eqn:E2; split; intros HH; try lia.
Qed.
