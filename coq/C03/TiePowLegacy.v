(* O-tie for safe_pow, legacy: template = model, and the literal bound in every template is RE-CHECKED by the kernel
   (a^r fits, a^(r+1) does not; resp. the four powers around the base interval). *)
From Coq Require Import ZArith Bool List String.
From Verif Require Import C03.LIR C03.VSL C03.ArithSpec C03.TieModels C03.PowExact C03.PowTie C03.GenPowLegacy.
Import ListNotations.
Lemma tie_pow_legacy : forallb ptie_one legacy_pows = true.
Proof. vm_compute. reflexivity. Qed.
Lemma family_complete_pow_legacy : pkeys_eqb (map pkey legacy_pows) pow_keys = true.
Proof. vm_compute. reflexivity. Qed.
