(* VSLMem: straight-line Venom (VSL.v, unchanged) plus read-only `mload`.  Memory abstracted as in LIRMem.v. *)
From Coq Require Import ZArith Bool List String.
From Verif Require Import Base.Word256 C03.LIR C03.VSL.
Import ListNotations.
Open Scope Z_scope.

Inductive mvinstr := MV (i : vinstr) | MVLoad (out : string) (a : vop).

Definition mvstep (mem : Z -> Z) (e : env) (i : mvinstr) : vres :=
  match i with
  | MV i => vstep e i
  | MVLoad out a => match vval e a with Some x => VOk ((out, mem x) :: e) | None => VStuck end
  end.
Fixpoint mvsl (mem : Z -> Z) (e : env) (l : list mvinstr) : vres :=
  match l with
  | [] => VOk e
  | i :: r => match mvstep mem e i with VOk e' => mvsl mem e' r | VRevert => VRevert | VStuck => VStuck end
  end.
Definition mvtemplate := (list mvinstr * vop)%type.
Definition mvrun (mem : Z -> Z) (e : env) (t : mvtemplate) : outcome :=
  match mvsl mem e (fst t) with
  | VOk e' => match vval e' (snd t) with Some v => Val v | None => Stuck end
  | VRevert => Revert
  | VStuck => Stuck
  end.
Definition mvinstr_eqb (i j : mvinstr) : bool :=
  match i, j with
  | MV a, MV b => vinstr_eqb a b
  | MVLoad o a, MVLoad o' a' => String.eqb o o' && vop_eqb a a'
  | _, _ => false
  end.
Fixpoint mvlist_eqb (l m : list mvinstr) : bool :=
  match l, m with [], [] => true | i :: l', j :: m' => mvinstr_eqb i j && mvlist_eqb l' m' | _, _ => false end.
Definition mvtemplate_eqb (s t : mvtemplate) : bool := mvlist_eqb (fst s) (fst t) && vop_eqb (snd s) (snd t).
