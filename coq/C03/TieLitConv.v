(* O-tie for convert() with literal sources (the family is the run's seeded sample of literal x target type; thorough: all) *)
From Coq Require Import ZArith Bool List String.
From Verif Require Import C03.LIR C03.VSL C03.ArithSpec C03.ConvSpec C03.ConvTie C03.LitConvTie C03.GenLitConv.
Import ListNotations.
Lemma tie_litconverts_legacy : forallb lit_tie_l legacy_litconverts = true.
Proof. vm_compute. reflexivity. Qed.
Lemma tie_litconverts_venom : forallb lit_tie_v venom_litconverts = true.
Proof. vm_compute. reflexivity. Qed.
