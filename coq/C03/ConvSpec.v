(* ConvSpec: the mathematical statement of convert(x, T) on word-sized types.  No proofs here.
   Values: numeric types - the integer (decimal: scaled by 10^10); bool - 0/1; address - 0 .. 2^160-1;
   bytesM - the M bytes read as an unsigned big-endian integer b (the EVM word is b * 2^(8(32-M)), left-aligned);
   flag with n members - 0 .. 2^n-1.
   conv_spec Tin Tout v = the converted value if the conversion is defined and representable, else Revert:
   * to bool: v <> 0;
   * int -> int, bool/address/flag -> int: the same number, if in range;
   * decimal -> int: truncation toward zero, but the input is bounds-checked BEFORE truncation
     (convert(255.1, uint8) reverts: _fixed_to_int);
   * int/bool -> decimal: v * 10^10 if in range;
   * bytesM -> int / decimal: the bytes read as an unsigned (unsigned target) or two's-complement (signed target,
     decimal) number, if in range; for decimal the number is the scaled representation (a bit cast);
   * int/decimal/address/bool -> bytesM (only allowed if the source width fits): the two's-complement
     representation truncated to M bytes; bytesM' -> bytesM: right-pad with zeros (widening) or drop trailing
     zero bytes, reverting if a dropped byte is non-zero;
   * uint/bytesM -> address: as to uint160; uint256 -> flag: the same number if < 2^n. *)
From Coq Require Import ZArith Bool List String.
From Verif Require Import Base.Word256 C03.LIR C03.ArithSpec.
Import ListNotations.
Open Scope Z_scope.

Inductive cty := CNum (T : nty) | CBool | CAddr | CBytes (m : Z) | CFlag (n : Z).

Definition c_lo (T : cty) : Z := match T with CNum T => ty_lo T | _ => 0 end.
Definition c_hi (T : cty) : Z :=
  match T with
  | CNum T => ty_hi T | CBool => 1 | CAddr => 2 ^ 160 - 1 | CBytes m => 2 ^ (8 * m) - 1 | CFlag n => 2 ^ n - 1
  end.
Definition c_in_range (T : cty) (v : Z) : Prop := c_lo T <= v <= c_hi T.
Definition c_in_rangeb (T : cty) (v : Z) : bool := (c_lo T <=? v) && (v <=? c_hi T).
Definition c_chk (T : cty) (v : Z) : outcome := if c_in_rangeb T v then Val v else Revert.

(* EVM word of a value *)
Definition c_enc (T : cty) (v : Z) : Z :=
  match T with CBytes m => v * 2 ^ (8 * (32 - m)) | _ => wrap v end.
Definition c_enc_out (T : cty) (o : outcome) : outcome := match o with Val v => Val (c_enc T v) | o => o end.

Definition uint160_t : nty := {| nbytes := 20; nsigned := false; ndec := false |}.
Definition uint256_t : nty := {| nbytes := 32; nsigned := false; ndec := false |}.

(* two's-complement reading of an m-byte string *)
Definition sbytes (m b : Z) : Z := if b <? 2 ^ (8 * m - 1) then b else b - 2 ^ (8 * m).

Definition conv_spec (Tin Tout : cty) (v : Z) : outcome :=
  match Tout with
  | CBool => Val (if v =? 0 then 0 else 1)
  | CNum T =>
      if ndec T then
        match Tin with
        | CNum S0 => c_chk Tout (v * DIVISOR)
        | CBool => Val (v * DIVISOR)
        | CBytes m => c_chk Tout (sbytes m v)
        | _ => Stuck
        end
      else
        match Tin with
        | CNum S0 => if ndec S0
                    then (if (ty_lo T * DIVISOR <=? v) && (v <=? ty_hi T * DIVISOR) then Val (Z.quot v DIVISOR) else Revert)
                    else c_chk Tout v
        | CBool | CAddr | CFlag _ => c_chk Tout v
        | CBytes m => c_chk Tout (if nsigned T then sbytes m v else v)
        end
  | CAddr =>
      match Tin with
      | CNum _ | CBytes _ => c_chk CAddr v
      | _ => Stuck
      end
  | CBytes M =>
      match Tin with
      | CBytes m => if m <=? M then Val (v * 2 ^ (8 * (M - m)))
                    else if v mod 2 ^ (8 * (m - M)) =? 0 then Val (v / 2 ^ (8 * (m - M))) else Revert
      | _ => Val (v mod 2 ^ (8 * M))
      end
  | CFlag n => c_chk Tout v
  end.

(* which pairs convert() accepts (vyper/builtins/_convert.py: _input_types and the _FAIL calls) *)
Definition is_int (T : cty) : bool := match T with CNum T => negb (ndec T) | _ => false end.
Definition is_dec (T : cty) : bool := match T with CNum T => ndec T | _ => false end.
Definition c_bits (T : cty) : Z :=
  match T with CNum T => nbits T | CBool => 1 | CAddr => 160 | CBytes m => 8 * m | CFlag n => 256 end.
Definition nty_eqb (a b : nty) : bool :=
  (nbytes a =? nbytes b) && Bool.eqb (nsigned a) (nsigned b) && Bool.eqb (ndec a) (ndec b).
Definition cty_eqb (a b : cty) : bool :=
  match a, b with
  | CNum x, CNum y => nty_eqb x y | CBool, CBool => true | CAddr, CAddr => true
  | CBytes m, CBytes n => m =? n | CFlag m, CFlag n => m =? n | _, _ => false
  end.
Definition is_256int (T : cty) : bool :=
  match T with CNum T => negb (ndec T) && (nbytes T =? 32) | _ => false end.
Definition conv_allowed (Tin Tout : cty) : bool :=
  (negb (cty_eqb Tin Tout) || is_256int Tin) &&
  match Tout with
  | CBool => match Tin with CFlag _ => false | _ => true end
  | CNum T =>
      if ndec T then match Tin with CNum S0 => negb (ndec S0) | CBool | CBytes _ => true | _ => false end
      else match Tin with
           | CNum _ | CBool | CBytes _ => true
           | CAddr => negb (nsigned T)
           | CFlag _ => nty_eqb T uint256_t
           end
  | CAddr => match Tin with CNum S0 => negb (ndec S0) && negb (nsigned S0) | CBytes _ => true | _ => false end
  | CBytes M =>
      match Tin with
      | CNum _ | CAddr => c_bits Tin <=? 8 * M
      | CBool | CBytes _ => true
      | CFlag _ => M =? 32
      end
  | CFlag _ => match Tin with CNum S0 => nty_eqb S0 uint256_t | _ => false end
  end.

Definition conv_types : list cty :=
  map CNum num_types ++ [CBool; CAddr] ++ map CBytes (map Z.of_nat (seq 1 32)) ++ map CFlag [1; 3; 255; 256].
Definition conv_pairs : list (cty * cty) :=
  filter (fun p => conv_allowed (fst p) (snd p)) (list_prod conv_types conv_types).
