(* Exactness of the legacy convert() templates (ConvModel.v) w.r.t. ConvSpec.conv_spec. *)
From Coq Require Import ZArith Bool List Lia ZifyBool String.
From Verif Require Import Base.Word256 C03.LIR C03.ArithSpec C03.ConvSpec C03.WordArith C03.TypeLemmas
  C03.ArithModel C03.ConvModel C03.LegacyExact.
Import ListNotations.
Open Scope Z_scope.
Open Scope list_scope.
Ltac Zify.zify_post_hook ::= Z.to_euclidean_division_equations.

(* ---- building blocks ---- *)
Lemma pow2_le_W n : 0 <= n <= 256 -> 0 < 2 ^ n <= W.
Proof. intros H. split; [apply Z.pow_pos_nonneg; lia|]. unfold W. apply Z.pow_le_mono_r; lia. Qed.

Lemma uclamp_bits n w : 0 <= n < 256 -> uword w -> (w_shr (wrap n) w =? 0) = (w <? 2 ^ n).
Proof.
  intros Hn Hw. pose proof W_val. rewrite wrap_small by lia. unfold w_shr.
  replace (n <? 256) with true by lia. pose proof (pow2_le_W n ltac:(lia)). unfold uword in Hw.
  destruct (Z.ltb_spec w (2 ^ n)).
  - rewrite Z.div_small by lia. reflexivity.
  - apply Z.eqb_neq. intros E. apply Z.div_small_iff in E; lia.
Qed.

Lemma uclamp_of_eval e er n w : 0 <= n < 256 -> leval e er = Val w -> uword w ->
  leval e (m_uclamp_of n er) = if w <? 2 ^ n then Val w else Revert.
Proof.
  intros Hn He Hw. unfold m_uclamp_of. cbn [leval]. rewrite !He. cbn [leval ev1 ev2].
  unfold w_iszero. rewrite uclamp_bits by assumption. destruct (w <? 2 ^ n); reflexivity.
Qed.
Lemma uclamp_of_revert e er n : leval e er = Revert -> leval e (m_uclamp_of n er) = Revert.
Proof. intros H. unfold m_uclamp_of. cbn [leval]. rewrite !H. reflexivity. Qed.

Lemma cache_revert inl n e arg body :
  leval e arg = Revert -> leval e (body arg) = Revert -> leval e (m_cache inl n arg body) = Revert.
Proof. intros Ha Hb. unfold m_cache. destruct inl; [exact Hb | cbn [leval]; rewrite Ha; reflexivity]. Qed.

Lemma clampop_eval e arg op bound inl w : leval e arg = Val w ->
  leval e (m_clampop op arg bound inl) = if ev2 op w (wrap bound) =? 0 then Revert else Val w.
Proof.
  intros Ha. unfold m_clampop. apply (cache_eval _ _ _ _ _ w); [exact Ha|].
  intros e' er Her _. cbn [leval]. rewrite !Her. cbn [leval]. destruct (ev2 op w (wrap bound) =? 0); reflexivity.
Qed.
Lemma clampop_revert e arg op bound inl : leval e arg = Revert -> leval e (m_clampop op arg bound inl) = Revert.
Proof. intros Ha. unfold m_clampop. apply cache_revert; [exact Ha|]. cbn [leval]. rewrite !Ha. reflexivity. Qed.

(* signed / unsigned comparison against a literal bound *)
Lemma sge_val v b : sword v -> sword b -> (ev2 OSge (wrap v) (wrap b) =? 0) = (v <? b).
Proof. intros Hv Hb. cbn [ev2]. unfold w_slt. rewrite w_iszero_b2z, b2z_eq0, negb_involutive, !ts_wrap by assumption. reflexivity. Qed.
Lemma sle_val v b : sword v -> sword b -> (ev2 OSle (wrap v) (wrap b) =? 0) = (b <? v).
Proof.
  intros Hv Hb. cbn [ev2]. unfold w_sgt. rewrite w_iszero_b2z, b2z_eq0, negb_involutive, !ts_wrap by assumption.
  rewrite Z.gtb_ltb. reflexivity.
Qed.
Lemma le_val v b : uword v -> uword b -> (ev2 OLe (wrap v) (wrap b) =? 0) = (b <? v).
Proof.
  intros Hv Hb. cbn [ev2]. unfold w_gt. rewrite w_iszero_b2z, b2z_eq0, negb_involutive, !wrap_small by assumption.
  rewrite Z.gtb_ltb. reflexivity.
Qed.

(* _clamp_numeric_convert: passes iff the value is within the output bounds (those that can be violated) *)
Lemma clamp_numeric_eval e arg alo ahi olo ohi (s : bool) i1 i2 v :
  leval e arg = Val (wrap v) -> alo <= v <= ahi ->
  (if s then sword v /\ sword olo /\ sword ohi else uword v /\ uword ohi /\ olo <= alo) ->
  leval e (m_clamp_numeric arg alo ahi olo ohi s i1 i2)
  = if (olo <=? v) && (v <=? ohi) then Val (wrap v) else Revert.
Proof.
  intros Ha Hr Hs. unfold m_clamp_numeric.
  assert (A1 : leval e (if alo <? olo then m_clampop OSge arg olo i1 else arg)
               = if olo <=? v then Val (wrap v) else Revert).
  { destruct (Z.ltb_spec alo olo).
    - destruct s; [|lia]. destruct Hs as [Sv [So _]].
      rewrite (clampop_eval _ _ _ _ _ _ Ha), sge_val by assumption.
      destruct (Z.ltb_spec v olo), (Z.leb_spec olo v); try lia; reflexivity.
    - rewrite Ha. replace (olo <=? v) with true by lia. reflexivity. }
  destruct (Z.ltb_spec ohi ahi).
  - destruct (Z.leb_spec olo v); cbn [andb].
    + rewrite (clampop_eval _ _ _ _ _ _ A1).
      destruct s; [destruct Hs as [Sv [_ Sh]]; rewrite sle_val by assumption
                  | destruct Hs as [Sv [Sh _]]; rewrite le_val by assumption];
        destruct (Z.ltb_spec ohi v), (Z.leb_spec v ohi); try lia; reflexivity.
    + apply clampop_revert. exact A1.
  - rewrite A1. replace (v <=? ohi) with true by lia. rewrite andb_true_r. reflexivity.
Qed.

Definition cty_ok (T : cty) : Prop :=
  match T with CNum T => ty_ok T | CBytes m => 1 <= m <= 32 | CFlag n => 1 <= n <= 256 | _ => True end.

Lemma Hb_mono a b : 1 <= a <= b -> Hb a <= Hb b.
Proof. intros H. unfold Hb. apply Z.pow_le_mono_r; lia. Qed.
Lemma Hb_pow k : 1 <= k -> 2 ^ (8 * k - 1) = Hb k. Proof. reflexivity. Qed.
Lemma pow8k k : 1 <= k -> 2 ^ (8 * k) = 2 * Hb k. Proof. apply pow_Hb. Qed.
Lemma Hb_le_HALF k : 1 <= k <= 32 -> Hb k <= HALF.
Proof. intros H. rewrite <- Hb_32. apply Hb_mono. lia. Qed.

Lemma chk_val T v : in_range T v -> chk T v = Val v.
Proof. intros H. unfold chk. apply in_rangeb_iff in H. rewrite H. reflexivity. Qed.
Lemma chk_rev T v : ~ in_range T v -> chk T v = Revert.
Proof. intros H. unfold chk. destruct (in_rangeb T v) eqn:E; [apply in_rangeb_iff in E; contradiction | reflexivity]. Qed.

(* _int_to_int: all four sign cases, all width pairs *)
Theorem int_to_int_exact S T e x v : ty_ok S -> ty_ok T -> in_range S v -> leval e x = Val (wrap v) ->
  leval e (m_int_to_int S T x) = enc_out (chk T v).
Proof.
  destruct S as [ks ss ds], T as [kt st dt]. intros [Hks _] [Hkt _] Hv Hx. cbn [nbytes] in *.
  pose proof (range_bounds ks ss ds v ltac:(lia) Hv) as Bv.
  pose proof (in_range_fits ks ss ds v Hks Hv) as Fv.
  pose proof W_val. pose proof HALF_val.
  pose proof (Hb_pos ks ltac:(lia)). pose proof (Hb_pos kt ltac:(lia)).
  pose proof (Hb_le_HALF ks Hks). pose proof (Hb_le_HALF kt Hkt).
  unfold m_int_to_int, nbits. cbn [nbytes nsigned].
  destruct ss, st; cbn [andb negb].
  - (* signed -> signed *)
    cbn [fits256] in Fv.
    destruct (Z.ltb_spec (8 * kt) (8 * ks)).
    + apply clamp_of_exact; [lia | exact Hx | exact Fv].
    + rewrite Hx. rewrite chk_val; [reflexivity|]. unfold in_range. rewrite ty_lo_s, ty_hi_s.
      pose proof (Hb_mono ks kt ltac:(lia)). lia.
  - (* signed -> unsigned *)
    cbn [fits256] in Fv.
    destruct (Z.ltb_spec (8 * kt) (8 * ks)).
    + rewrite (uclamp_of_eval _ _ _ (wrap v)); [| lia | exact Hx | apply wrap_range].
      rewrite pow8k by lia. rewrite enc_out_chk. unfold in_rangeb. rewrite ty_lo_u, ty_hi_u by lia.
      pose proof (Hb_le247 kt ltac:(lia)). pose proof P247_val.
      destruct (Z_lt_dec v 0); [rewrite wrap_neg by lia | rewrite wrap_small by lia]; bsolve.
    + rewrite (clampop_eval _ _ _ _ _ _ Hx), sge_val by (try assumption; apply sword_0).
      rewrite enc_out_chk. unfold in_rangeb. rewrite ty_lo_u, ty_hi_u by lia.
      pose proof (Hb_mono ks kt ltac:(lia)). bsolve.
  - (* unsigned -> signed *)
    cbn [fits256] in Fv. unfold uword in Fv.
    rewrite (uclamp_of_eval _ _ _ (wrap v)); [| lia | exact Hx | apply wrap_range].
    rewrite Hb_pow by lia. rewrite wrap_small by lia.
    rewrite enc_out_chk. unfold in_rangeb. rewrite ty_lo_s, ty_hi_s. rewrite wrap_small by lia. bsolve.
  - (* unsigned -> unsigned *)
    cbn [fits256] in Fv. unfold uword in Fv.
    destruct (Z.ltb_spec (8 * kt) (8 * ks)).
    + rewrite (uclamp_of_eval _ _ _ (wrap v)); [| lia | exact Hx | apply wrap_range].
      rewrite pow8k by lia. rewrite wrap_small by lia.
      rewrite enc_out_chk. unfold in_rangeb. rewrite ty_lo_u, ty_hi_u by lia. rewrite wrap_small by lia. bsolve.
    + rewrite Hx. rewrite chk_val; [reflexivity|]. unfold in_range. rewrite ty_lo_u, ty_hi_u by lia.
      pose proof (Hb_mono ks kt ltac:(lia)). lia.
Qed.
