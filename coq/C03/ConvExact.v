(* Exactness of the legacy convert() templates (ConvModel.v) w.r.t. ConvSpec.conv_spec. *)
From Coq Require Import ZArith Znumtheory Bool List Lia ZifyBool String.
From Verif Require Import Base.Word256 C03.LIR C03.ArithSpec C03.ConvSpec C03.WordArith C03.TypeLemmas
  C03.ArithModel C03.ConvModel C03.LegacyExact.
Import ListNotations.
Open Scope Z_scope.
Open Scope list_scope.
Ltac Zify.zify_post_hook ::= Z.to_euclidean_division_equations.

(* ---- building blocks ---- *)
Lemma pow2_le_W n : 0 <= n <= 256 -> 0 < 2 ^ n <= W.
Proof. intros H. split; [apply Z.pow_pos_nonneg; lia|]. unfold W. apply Z.pow_le_mono_r; lia. Qed.

Lemma uclamp_bits n w : 0 <= n < 256 -> uword w -> (w_shr (wrap n) w =? 0) = (w <? 2 ^ n).
Proof.
  intros Hn Hw. pose proof W_val. rewrite wrap_small by lia. unfold w_shr.
  replace (n <? 256) with true by lia. pose proof (pow2_le_W n ltac:(lia)). unfold uword in Hw.
  destruct (Z.ltb_spec w (2 ^ n)).
  - rewrite Z.div_small by lia. reflexivity.
  - apply Z.eqb_neq. intros E. apply Z.div_small_iff in E; lia.
Qed.

Lemma uclamp_of_eval e er n w : 0 <= n < 256 -> leval e er = Val w -> uword w ->
  leval e (m_uclamp_of n er) = if w <? 2 ^ n then Val w else Revert.
Proof.
  intros Hn He Hw. unfold m_uclamp_of. cbn [leval]. rewrite !He. cbn [leval ev1 ev2].
  unfold w_iszero. rewrite uclamp_bits by assumption. destruct (w <? 2 ^ n); reflexivity.
Qed.
Lemma uclamp_of_revert e er n : leval e er = Revert -> leval e (m_uclamp_of n er) = Revert.
Proof. intros H. unfold m_uclamp_of. cbn [leval]. rewrite !H. reflexivity. Qed.

Lemma cache_revert inl n e arg body :
  leval e arg = Revert -> leval e (body arg) = Revert -> leval e (m_cache inl n arg body) = Revert.
Proof. intros Ha Hb. unfold m_cache. destruct inl; [exact Hb | cbn [leval]; rewrite Ha; reflexivity]. Qed.

Lemma clampop_eval e arg op bound inl w : leval e arg = Val w ->
  leval e (m_clampop op arg bound inl) = if ev2 op w (wrap bound) =? 0 then Revert else Val w.
Proof.
  intros Ha. unfold m_clampop. apply (cache_eval _ _ _ _ _ w); [exact Ha|].
  intros e' er Her _. cbn [leval]. rewrite !Her. cbn [leval]. destruct (ev2 op w (wrap bound) =? 0); reflexivity.
Qed.
Lemma clampop_revert e arg op bound inl : leval e arg = Revert -> leval e (m_clampop op arg bound inl) = Revert.
Proof. intros Ha. unfold m_clampop. apply cache_revert; [exact Ha|]. cbn [leval]. rewrite !Ha. reflexivity. Qed.

(* signed / unsigned comparison against a literal bound *)
Lemma sge_val v b : sword v -> sword b -> (ev2 OSge (wrap v) (wrap b) =? 0) = (v <? b).
Proof. intros Hv Hb. cbn [ev2]. unfold w_slt. rewrite w_iszero_b2z, b2z_eq0, negb_involutive, !ts_wrap by assumption. reflexivity. Qed.
Lemma sle_val v b : sword v -> sword b -> (ev2 OSle (wrap v) (wrap b) =? 0) = (b <? v).
Proof.
  intros Hv Hb. cbn [ev2]. unfold w_sgt. rewrite w_iszero_b2z, b2z_eq0, negb_involutive, !ts_wrap by assumption.
  rewrite Z.gtb_ltb. reflexivity.
Qed.
Lemma le_val v b : uword v -> uword b -> (ev2 OLe (wrap v) (wrap b) =? 0) = (b <? v).
Proof.
  intros Hv Hb. cbn [ev2]. unfold w_gt. rewrite w_iszero_b2z, b2z_eq0, negb_involutive, !wrap_small by assumption.
  rewrite Z.gtb_ltb. reflexivity.
Qed.

(* _clamp_numeric_convert: passes iff the value is within the output bounds (those that can be violated) *)
Lemma clamp_numeric_eval e arg alo ahi olo ohi (s : bool) i1 i2 v :
  leval e arg = Val (wrap v) -> alo <= v <= ahi ->
  (if s then sword v /\ (alo < olo -> sword olo) /\ (ohi < ahi -> sword ohi)
   else uword v /\ (ohi < ahi -> uword ohi) /\ olo <= alo) ->
  leval e (m_clamp_numeric arg alo ahi olo ohi s i1 i2)
  = if (olo <=? v) && (v <=? ohi) then Val (wrap v) else Revert.
Proof.
  intros Ha Hr Hs. unfold m_clamp_numeric.
  assert (A1 : leval e (if alo <? olo then m_clampop OSge arg olo i1 else arg)
               = if olo <=? v then Val (wrap v) else Revert).
  { destruct (Z.ltb_spec alo olo).
    - destruct s; [|lia]. destruct Hs as [Sv [So _]].
      rewrite (clampop_eval _ _ _ _ _ _ Ha), sge_val by (try assumption; apply So; assumption).
      destruct (Z.ltb_spec v olo), (Z.leb_spec olo v); try lia; reflexivity.
    - rewrite Ha. replace (olo <=? v) with true by lia. reflexivity. }
  destruct (Z.ltb_spec ohi ahi).
  - destruct (Z.leb_spec olo v); cbn [andb].
    + rewrite (clampop_eval _ _ _ _ _ _ A1).
      destruct s; [destruct Hs as [Sv [_ Sh]]; rewrite sle_val by (try assumption; apply Sh; assumption)
                  | destruct Hs as [Sv [Sh _]]; rewrite le_val by (try assumption; apply Sh; assumption)];
        destruct (Z.ltb_spec ohi v), (Z.leb_spec v ohi); try lia; reflexivity.
    + apply clampop_revert. exact A1.
  - rewrite A1. replace (v <=? ohi) with true by lia. rewrite andb_true_r. reflexivity.
Qed.

Definition cty_ok (T : cty) : Prop :=
  match T with CNum T => ty_ok T | CBytes m => 1 <= m <= 32 | CFlag n => 1 <= n <= 256 | _ => True end.

Lemma Hb_mono a b : 1 <= a <= b -> Hb a <= Hb b.
Proof. intros H. unfold Hb. apply Z.pow_le_mono_r; lia. Qed.
Lemma Hb_pow k : 1 <= k -> 2 ^ (8 * k - 1) = Hb k. Proof. reflexivity. Qed.
Lemma pow8k k : 1 <= k -> 2 ^ (8 * k) = 2 * Hb k. Proof. apply pow_Hb. Qed.
Lemma Hb_le_HALF k : 1 <= k <= 32 -> Hb k <= HALF.
Proof. intros H. rewrite <- Hb_32. apply Hb_mono. lia. Qed.

Lemma chk_val T v : in_range T v -> chk T v = Val v.
Proof. intros H. unfold chk. apply in_rangeb_iff in H. rewrite H. reflexivity. Qed.
Lemma chk_rev T v : ~ in_range T v -> chk T v = Revert.
Proof. intros H. unfold chk. destruct (in_rangeb T v) eqn:E; [apply in_rangeb_iff in E; contradiction | reflexivity]. Qed.

(* _int_to_int: all four sign cases, all width pairs *)
Theorem int_to_int_exact S T e x v : ty_ok S -> ty_ok T -> in_range S v -> leval e x = Val (wrap v) ->
  leval e (m_int_to_int S T x) = enc_out (chk T v).
Proof.
  destruct S as [ks ss ds], T as [kt st dt]. intros [Hks _] [Hkt _] Hv Hx. cbn [nbytes] in *.
  pose proof (range_bounds ks ss ds v ltac:(lia) Hv) as Bv.
  pose proof (in_range_fits ks ss ds v Hks Hv) as Fv.
  pose proof W_val. pose proof HALF_val.
  pose proof (Hb_pos ks ltac:(lia)). pose proof (Hb_pos kt ltac:(lia)).
  pose proof (Hb_le_HALF ks Hks). pose proof (Hb_le_HALF kt Hkt).
  unfold m_int_to_int, nbits. cbn [nbytes nsigned].
  destruct ss, st; cbn [andb negb].
  - (* signed -> signed *)
    cbn [fits256] in Fv.
    destruct (Z.ltb_spec (8 * kt) (8 * ks)).
    + apply clamp_of_exact; [lia | exact Hx | exact Fv].
    + rewrite Hx. rewrite chk_val; [reflexivity|]. unfold in_range. rewrite ty_lo_s, ty_hi_s.
      pose proof (Hb_mono ks kt ltac:(lia)). lia.
  - (* signed -> unsigned *)
    cbn [fits256] in Fv.
    destruct (Z.ltb_spec (8 * kt) (8 * ks)).
    + rewrite (uclamp_of_eval _ _ _ (wrap v)); [| lia | exact Hx | apply wrap_range].
      rewrite pow8k by lia. rewrite enc_out_chk. unfold in_rangeb. rewrite ty_lo_u, ty_hi_u by lia.
      pose proof (Hb_le247 kt ltac:(lia)). pose proof P247_val.
      destruct (Z_lt_dec v 0); [rewrite wrap_neg by lia | rewrite wrap_small by lia]; bsolve.
    + rewrite (clampop_eval _ _ _ _ _ _ Hx), sge_val by (try assumption; apply sword_0).
      rewrite enc_out_chk. unfold in_rangeb. rewrite ty_lo_u, ty_hi_u by lia.
      pose proof (Hb_mono ks kt ltac:(lia)). bsolve.
  - (* unsigned -> signed *)
    cbn [fits256] in Fv. unfold uword in Fv.
    rewrite (uclamp_of_eval _ _ _ (wrap v)); [| lia | exact Hx | apply wrap_range].
    rewrite Hb_pow by lia. rewrite wrap_small by lia.
    rewrite enc_out_chk. unfold in_rangeb. rewrite ty_lo_s, ty_hi_s. rewrite wrap_small by lia. bsolve.
  - (* unsigned -> unsigned *)
    cbn [fits256] in Fv. unfold uword in Fv.
    destruct (Z.ltb_spec (8 * kt) (8 * ks)).
    + rewrite (uclamp_of_eval _ _ _ (wrap v)); [| lia | exact Hx | apply wrap_range].
      rewrite pow8k by lia. rewrite wrap_small by lia.
      rewrite enc_out_chk. unfold in_rangeb. rewrite ty_lo_u, ty_hi_u by lia. rewrite wrap_small by lia. bsolve.
    + rewrite Hx. rewrite chk_val; [reflexivity|]. unfold in_range. rewrite ty_lo_u, ty_hi_u by lia.
      pose proof (Hb_mono ks kt ltac:(lia)). lia.
Qed.

Lemma ty_lo_hi_sign T : ty_ok T -> ty_lo T <= 0 <= ty_hi T.
Proof.
  destruct T as [k s d]. intros [Hk _]. cbn [nbytes] in Hk. pose proof (Hb_pos k ltac:(lia)).
  destruct s; [rewrite ty_lo_s, ty_hi_s | rewrite ty_lo_u, ty_hi_u by lia]; lia.
Qed.

(* ---- decimal <-> int ---- *)
Lemma dec_bounds : ty_lo decimal_t = - P167 /\ ty_hi decimal_t = P167 - 1.
Proof. split; reflexivity. Qed.

Theorem fixed_to_int_exact T e x i1 i2 v : ty_ok T -> ndec T = false -> in_range decimal_t v -> leval e x = Val (wrap v) ->
  leval e (L2 OSdiv (m_clamp_numeric x (ty_lo decimal_t) (ty_hi decimal_t) (ty_lo T * DIVISOR) (ty_hi T * DIVISOR) true i1 i2)
                    (LInt DIVISOR))
  = enc_out (if (ty_lo T * DIVISOR <=? v) && (v <=? ty_hi T * DIVISOR) then Val (Z.quot v DIVISOR) else Revert).
Proof.
  intros OkT ND Hv Hx. unfold in_range in Hv. destruct dec_bounds as [L H]. rewrite L, H in *.
  pose proof P167_val. pose proof W_val. pose proof HALF_val. pose proof DIVISOR_val.
  assert (Sv : sword v) by (unfold sword, MINS, MAXS; lia).
  cbn [leval].
  rewrite (clamp_numeric_eval _ _ _ _ _ _ true _ _ v); [| exact Hx | lia |].
  - destruct ((ty_lo T * DIVISOR <=? v) && (v <=? ty_hi T * DIVISOR)); [|reflexivity].
    cbn [ev2 enc_out]. unfold enc. f_equal. apply sdiv_val; [exact Sv | unfold sword; wl | lia].
  - pose proof (ty_lo_hi_sign T OkT). split; [exact Sv|]. split; intros C; unfold sword, MINS, MAXS; nia.
Qed.

Theorem int_to_fixed_exact S e x i1 i2 v : ty_ok S -> ndec S = false -> in_range S v -> leval e x = Val (wrap v) ->
  leval e (L2 OMul (m_clamp_numeric x (ty_lo S) (ty_hi S) (Z.quot (ty_lo decimal_t) DIVISOR) (Z.quot (ty_hi decimal_t) DIVISOR)
                                    (nsigned S) i1 i2) (LInt DIVISOR))
  = enc_out (chk decimal_t (v * DIVISOR)).
Proof.
  destruct S as [k s d]. intros [Hk _] ND Hv Hx. cbn [nbytes nsigned ndec] in *. subst d.
  pose proof (range_bounds k s false v ltac:(lia) Hv) as Bv.
  pose proof (in_range_fits k s false v Hk Hv) as Fv.
  pose proof P167_val. pose proof W_val. pose proof HALF_val. pose proof DIVISOR_val.
  pose proof (Hb_pos k ltac:(lia)). pose proof (Hb_le_HALF k Hk).
  change (Z.quot (ty_lo decimal_t) DIVISOR) with (-18707220957835557353007165858768422651595).
  change (Z.quot (ty_hi decimal_t) DIVISOR) with 18707220957835557353007165858768422651595.
  cbn [leval].
  rewrite (clamp_numeric_eval _ _ _ _ _ _ s _ _ v); [| exact Hx | exact Hv |].
  - rewrite enc_out_chk. unfold in_rangeb. destruct dec_bounds as [L H']. rewrite L, H'.
    destruct ((-18707220957835557353007165858768422651595 <=? v) && (v <=? 18707220957835557353007165858768422651595)) eqn:E.
    + cbn [ev2]. rewrite w_mul_wrap. replace ((- P167 <=? v * DIVISOR) && (v * DIVISOR <=? P167 - 1)) with true by lia.
      reflexivity.
    + replace ((- P167 <=? v * DIVISOR) && (v * DIVISOR <=? P167 - 1)) with false by lia. reflexivity.
  - destruct s; cbn [fits256] in Fv.
    + split; [exact Fv|]. split; intros _; unfold sword; wl.
    + split; [exact Fv|]. split; [intros _; unfold uword; wl|]. rewrite ty_lo_u. lia.
Qed.

(* ---- bytesM: left-aligned words and shifts ---- *)
Lemma W_split s : 0 <= s <= 256 -> W = 2 ^ s * 2 ^ (256 - s).
Proof. intros H. unfold W. rewrite <- Z.pow_add_r by lia. f_equal. lia. Qed.

Lemma mul_pow_mod v s : 0 <= s <= 256 -> (v * 2 ^ s) mod W = (v mod 2 ^ (256 - s)) * 2 ^ s.
Proof.
  intros H. rewrite (W_split s H). rewrite (Z.mul_comm (2 ^ s) (2 ^ (256 - s))).
  rewrite Z.mul_mod_distr_r; [reflexivity | apply Z.pow_nonzero; lia | apply Z.pow_nonzero; lia].
Qed.

Lemma bytes_word_range m v : 1 <= m <= 32 -> 0 <= v < 2 ^ (8 * m) -> uword (v * 2 ^ (8 * (32 - m))).
Proof.
  intros Hm Hv. unfold uword. rewrite (W_split (8 * (32 - m))) by lia.
  replace (256 - 8 * (32 - m)) with (8 * m) by lia.
  pose proof (Z.pow_pos_nonneg 2 (8 * (32 - m)) ltac:(lia) ltac:(lia)). nia.
Qed.

Lemma shr_bytes m v : 1 <= m <= 32 -> 0 <= v ->
  w_shr (wrap (8 * (32 - m))) (v * 2 ^ (8 * (32 - m))) = v.
Proof.
  intros Hm Hv. pose proof W_val. rewrite wrap_small by lia. unfold w_shr.
  replace (8 * (32 - m) <? 256) with true by lia. apply Z.div_mul. apply Z.pow_nonzero; lia.
Qed.

Lemma sar_bytes m v : 1 <= m <= 32 -> 0 <= v < 2 ^ (8 * m) ->
  w_sar (wrap (8 * (32 - m))) (v * 2 ^ (8 * (32 - m))) = wrap (sbytes m v).
Proof.
  intros Hm Hv. pose proof W_val. rewrite wrap_small by lia. unfold w_sar, of_signed.
  replace (8 * (32 - m) <? 256) with true by lia. fold (wrap (to_signed (v * 2 ^ (8 * (32 - m))) / 2 ^ (8 * (32 - m)))).
  f_equal. set (s := 8 * (32 - m)) in *.
  assert (HP : 0 < 2 ^ s) by (apply Z.pow_pos_nonneg; lia).
  assert (HW : W = 2 ^ s * 2 ^ (8 * m)).
  { rewrite (W_split s) by lia. f_equal. f_equal. lia. }
  assert (HH : HALF = 2 ^ s * 2 ^ (8 * m - 1)).
  { unfold HALF. rewrite <- Z.pow_add_r by lia. f_equal. lia. }
  assert (HB : 2 ^ (8 * m) = 2 * 2 ^ (8 * m - 1)).
  { replace (8 * m) with (1 + (8 * m - 1)) at 1 by lia. rewrite Z.pow_add_r by lia. reflexivity. }
  unfold to_signed, sbytes.
  destruct (Z.ltb_spec v (2 ^ (8 * m - 1))).
  - replace (v * 2 ^ s <? HALF) with true by (symmetry; apply Z.ltb_lt; nia).
    apply Z.div_mul. lia.
  - replace (v * 2 ^ s <? HALF) with false by (symmetry; apply Z.ltb_ge; nia).
    replace (v * 2 ^ s - W) with ((v - 2 ^ (8 * m)) * 2 ^ s) by nia.
    apply Z.div_mul. lia.
Qed.

Lemma shl_num M v : 1 <= M <= 32 ->
  w_shl (wrap (256 - 8 * M)) (wrap v) = (v mod 2 ^ (8 * M)) * 2 ^ (8 * (32 - M)).
Proof.
  intros HM. pose proof W_val. rewrite (wrap_small (256 - 8 * M)) by lia. unfold w_shl.
  replace (256 - 8 * M <? 256) with true by lia.
  rewrite mul_pow_mod by lia. replace (256 - (256 - 8 * M)) with (8 * M) by lia.
  replace (8 * (32 - M)) with (256 - 8 * M) by lia. f_equal.
  unfold wrap. symmetry. apply Znumtheory.Zmod_div_mod.
  - apply Z.pow_pos_nonneg; lia.
  - lia.
  - exists (2 ^ (256 - 8 * M)). rewrite (W_split (8 * M)) by lia. apply Z.mul_comm.
Qed.

Lemma shl_bytes_check m M v : 1 <= M -> M < m <= 32 -> 0 <= v < 2 ^ (8 * m) ->
  (w_shl (wrap (8 * M)) (v * 2 ^ (8 * (32 - m))) =? 0) = (v mod 2 ^ (8 * (m - M)) =? 0).
Proof.
  intros HM Hm Hv. pose proof W_val. rewrite wrap_small by lia. unfold w_shl.
  replace (8 * M <? 256) with true by lia.
  rewrite <- Z.mul_assoc, <- Z.pow_add_r by lia.
  rewrite mul_pow_mod by lia.
  replace (256 - (8 * (32 - m) + 8 * M)) with (8 * (m - M)) by lia.
  assert (0 < 2 ^ (8 * (32 - m) + 8 * M)) by (apply Z.pow_pos_nonneg; lia).
  pose proof (Z.mod_pos_bound v (2 ^ (8 * (m - M))) ltac:(apply Z.pow_pos_nonneg; lia)).
  destruct (Z.eqb_spec (v mod 2 ^ (8 * (m - M))) 0) as [E|E]; [rewrite E; reflexivity|].
  apply Z.eqb_neq. nia.
Qed.

(* ---- facts about source values ---- *)
Lemma sbytes_range m v : 1 <= m <= 32 -> 0 <= v < 2 ^ (8 * m) -> - Hb m <= sbytes m v <= Hb m - 1.
Proof.
  intros Hm Hv. unfold sbytes. rewrite pow8k in * by lia. rewrite Hb_pow by lia.
  destruct (v <? Hb m) eqn:E; lia.
Qed.

Lemma nty_eqb_eq a b : nty_eqb a b = true -> a = b.
Proof.
  destruct a as [k s d], b as [k' s' d']. unfold nty_eqb. cbn. intros H.
  apply andb_true_iff in H. destruct H as [H H3]. apply andb_true_iff in H. destruct H as [H1 H2].
  apply Z.eqb_eq in H1. apply Bool.eqb_prop in H2. apply Bool.eqb_prop in H3. subst. reflexivity.
Qed.

Lemma dec_is_decimal_t S0 : ty_ok S0 -> ndec S0 = true -> S0 = decimal_t.
Proof. destruct S0 as [k s d]. intros [_ H] D. cbn in *. subst d. destruct (H eq_refl) as [-> ->]. reflexivity. Qed.

(* the word of a source value is a word *)
Lemma c_enc_uword T v : cty_ok T -> c_in_range T v -> uword (c_enc T v).
Proof.
  intros Ok Hv. destruct T; cbn [c_enc]; try apply wrap_range.
  cbn in Ok. unfold c_in_range in Hv. cbn [c_lo c_hi] in Hv. apply bytes_word_range; [exact Ok | lia].
Qed.

(* ---- to_int ---- *)
Definition to_int_ok (Tin : cty) (T : nty) : Prop :=
  match Tin with CAddr => nsigned T = false | CFlag _ => T = uint256_t | _ => True end.
Lemma allowed_to_int_ok Tin T : ndec T = false -> conv_allowed Tin (CNum T) = true -> to_int_ok Tin T.
Proof.
  intros ND Al. unfold conv_allowed in Al. apply andb_true_iff in Al. destruct Al as [_ Al]. rewrite ND in Al.
  destruct Tin; cbn [to_int_ok]; try exact I.
  - destruct (nsigned T); [discriminate Al | reflexivity].
  - apply nty_eqb_eq. exact Al.
Qed.

Theorem to_int_exact Tin T i1 i2 e x v :
  cty_ok Tin -> ty_ok T -> ndec T = false -> to_int_ok Tin T -> c_in_range Tin v ->
  leval e x = Val (c_enc Tin v) ->
  leval e (m_to_int Tin T x i1 i2) = enc_out (conv_spec Tin (CNum T) v).
Proof.
  intros OkI OkT ND Al Hv Hx. unfold conv_spec. rewrite ND.
  pose proof W_val. pose proof HALF_val.
  destruct Tin as [S0| | |m|n]; cbn [m_to_int c_enc] in *.
  - (* numeric source *)
    cbn in OkI. destruct (ndec S0) eqn:DS.
    + pose proof (dec_is_decimal_t S0 OkI DS). subst S0. apply fixed_to_int_exact; assumption.
    + apply int_to_int_exact; assumption.
  - (* bool *)
    rewrite Hx. unfold c_in_range in Hv. cbn [c_lo c_hi] in Hv. change (c_chk (CNum T) v) with (chk T v).
    rewrite chk_val; [reflexivity|]. pose proof (ty_lo_hi_sign T OkT).
    destruct T as [k s d]. destruct OkT as [Hk _]. cbn in Hk. pose proof (Hb_pos k ltac:(lia)).
    unfold in_range. destruct s; [rewrite ty_lo_s, ty_hi_s | rewrite ty_lo_u, ty_hi_u by lia]; lia.
  - (* address *)
    unfold c_in_range in Hv. cbn [c_lo c_hi] in Hv. change (c_chk (CNum T) v) with (chk T v).
    destruct T as [k s d]. destruct OkT as [Hk _]. cbn in Hk, ND, Al. subst d.
    cbn in Al. subst s.
    unfold nbits. cbn [nbytes].
    assert (P160 : 2 ^ 160 = 1461501637330902918203684832716283019655932542976) by reflexivity.
    destruct (Z.ltb_spec (8 * k) 160).
    + rewrite (uclamp_of_eval _ _ _ (wrap v)); [| lia | exact Hx | apply wrap_range].
      rewrite wrap_small by lia. rewrite pow8k by lia.
      rewrite enc_out_chk. unfold in_rangeb. rewrite ty_lo_u, ty_hi_u by lia. rewrite wrap_small by lia. bsolve.
    + rewrite Hx. rewrite chk_val; [reflexivity|]. unfold in_range. rewrite ty_lo_u, ty_hi_u by lia.
      assert (Hb 20 <= Hb k) by (apply Hb_mono; lia). change (Hb 20) with (2 ^ 159) in *.
      assert (2 ^ 160 = 2 * 2 ^ 159) by reflexivity. lia.
  - (* bytesM *)
    cbn in OkI. unfold c_in_range in Hv. cbn [c_lo c_hi] in Hv.
    change (c_chk (CNum T) (if nsigned T then sbytes m v else v)) with (chk T (if nsigned T then sbytes m v else v)).
    set (r := if nsigned T then sbytes m v else v).
    pose proof (sbytes_range m v OkI ltac:(lia)) as SR. pose proof (Hb_pos m ltac:(lia)). pose proof (Hb_le_HALF m OkI).
    assert (HB : 2 ^ (8 * m) = 2 * Hb m) by (apply pow8k; lia).
    assert (Hn : leval e (m_bytes_to_num m (nsigned T) x) = Val (wrap r)).
    { unfold m_bytes_to_num, r. cbn [leval]. rewrite Hx. cbn [leval]. destruct (nsigned T); cbn [ev2]; f_equal.
      - apply sar_bytes; [exact OkI | lia].
      - rewrite shr_bytes by lia. symmetry. apply wrap_small. lia. }
    destruct T as [k s d]. destruct OkT as [Hk _]. cbn in Hk, ND. subst d. unfold nbits. cbn [nbytes nsigned] in *.
    pose proof (Hb_pos k ltac:(lia)).
    destruct (Z.ltb_spec (8 * k) (8 * m)).
    + unfold m_iclamp. apply (cache_eval _ _ _ _ _ _ _ Hn). intros e' er Her _.
      destruct s.
      * replace (8 * k / 8) with k by (rewrite Z.mul_comm, Z.div_mul; lia).
        apply clamp_of_exact; [lia | exact Her |]. cbn. unfold r, sword, MINS, MAXS. lia.
      * rewrite (uclamp_of_eval _ _ _ (wrap r)); [| lia | exact Her | apply wrap_range].
        unfold r. rewrite wrap_small by lia. rewrite pow8k by lia.
        rewrite enc_out_chk. unfold in_rangeb. rewrite ty_lo_u, ty_hi_u by lia. rewrite wrap_small by lia. bsolve.
    + rewrite Hn. rewrite chk_val; [reflexivity|]. unfold in_range, r.
      pose proof (Hb_mono m k ltac:(lia)).
      destruct s; [rewrite ty_lo_s, ty_hi_s | rewrite ty_lo_u, ty_hi_u by lia]; lia.
  - (* flag: only to uint256 *)
    cbn in OkI. unfold c_in_range in Hv. cbn [c_lo c_hi] in Hv.
    cbn in Al. subst T.
    change (c_chk (CNum uint256_t) v) with (chk uint256_t v).
    assert (2 ^ n <= W) by (apply pow2_le_W; lia).
    apply (int_to_int_exact uint256_t uint256_t); try assumption.
    unfold in_range. change (ty_lo uint256_t) with 0. change (ty_hi uint256_t) with (W - 1). lia.
Qed.

(* ---- to_decimal ---- *)
Theorem to_decimal_exact Tin T i1 i2 e x v :
  cty_ok Tin -> ty_ok T -> ndec T = true -> conv_allowed Tin (CNum T) = true -> c_in_range Tin v ->
  leval e x = Val (c_enc Tin v) ->
  leval e (m_to_decimal Tin T x i1 i2) = enc_out (conv_spec Tin (CNum T) v).
Proof.
  intros OkI OkT DT Al Hv Hx. pose proof (dec_is_decimal_t T OkT DT). subst T.
  unfold conv_spec. cbn [ndec decimal_t].
  pose proof W_val. pose proof HALF_val. pose proof DIVISOR_val. pose proof P167_val.
  destruct Tin as [S0| | |m|n]; cbn [m_to_decimal c_enc] in *;
    try (unfold conv_allowed in Al; cbn in Al; discriminate Al).
  - (* int -> decimal *)
    cbn in OkI. unfold conv_allowed in Al. cbn in Al.
    assert (NS : ndec S0 = false).
    { destruct (ndec S0); [|reflexivity]. rewrite andb_false_r in Al. discriminate Al. }
    change (c_chk (CNum decimal_t) (v * DIVISOR)) with (chk decimal_t (v * DIVISOR)).
    apply int_to_fixed_exact; assumption.
  - (* bool -> decimal *)
    unfold c_in_range in Hv. cbn [c_lo c_hi] in Hv. cbn [leval]. rewrite Hx. cbn [leval ev2 enc_out].
    rewrite w_mul_wrap. reflexivity.
  - (* bytesM -> decimal: the bytes are the scaled representation *)
    cbn in OkI. unfold c_in_range in Hv. cbn [c_lo c_hi] in Hv.
    change (c_chk (CNum decimal_t) (sbytes m v)) with (chk decimal_t (sbytes m v)).
    pose proof (sbytes_range m v OkI ltac:(lia)) as SR. pose proof (Hb_pos m ltac:(lia)). pose proof (Hb_le_HALF m OkI).
    assert (Hn : leval e (m_bytes_to_num m true x) = Val (wrap (sbytes m v))).
    { unfold m_bytes_to_num. cbn [leval]. rewrite Hx. cbn [leval ev2]. f_equal. apply sar_bytes; [exact OkI | lia]. }
    destruct (Z.ltb_spec 168 (8 * m)).
    + unfold m_iclamp. apply (cache_eval _ _ _ _ _ _ _ Hn). intros e' er Her _.
      change (168 / 8) with 21.
      apply (clamp_of_exact _ _ 21 true true); [lia | exact Her |]. cbn. unfold sword, MINS, MAXS. lia.
    + rewrite Hn. rewrite chk_val; [reflexivity|]. unfold in_range. destruct dec_bounds as [-> ->].
      pose proof (Hb_mono m 21 ltac:(lia)). rewrite Hb_21 in *. lia.
Qed.

(* ---- to_bytesM ---- *)
Theorem to_bytes_exact Tin M e x v :
  cty_ok Tin -> 1 <= M <= 32 -> conv_allowed Tin (CBytes M) = true -> c_in_range Tin v ->
  leval e x = Val (c_enc Tin v) ->
  leval e (m_to_bytes Tin M x) = c_enc_out (CBytes M) (conv_spec Tin (CBytes M) v).
Proof.
  intros OkI HM Al Hv Hx. unfold conv_spec. pose proof W_val.
  assert (NUM : forall w, c_enc Tin v = wrap w -> leval e (L2 OShl (LInt (256 - 8 * M)) x)
                           = c_enc_out (CBytes M) (Val (w mod 2 ^ (8 * M)))).
  { intros w E. cbn [leval]. rewrite Hx, E. cbn [leval ev2 c_enc_out c_enc]. f_equal. apply shl_num. exact HM. }
  destruct Tin as [S0| | |m|n]; cbn [m_to_bytes].
  - apply (NUM v). reflexivity.
  - apply (NUM v). reflexivity.
  - apply (NUM v). reflexivity.
  - (* bytesM' -> bytesM *)
    cbn in OkI. unfold c_in_range in Hv. cbn [c_lo c_hi] in Hv. cbn [c_enc] in Hx.
    destruct (Z.ltb_spec M m) as [L|L].
    + replace (m <=? M) with false by lia.
      cbn [leval]. rewrite !Hx. cbn [leval ev1 ev2]. unfold w_iszero.
      rewrite shl_bytes_check by lia. rewrite b2z_eq0.
      destruct (Z.eqb_spec (v mod 2 ^ (8 * (m - M))) 0) as [E|E]; cbn [negb]; [|reflexivity].
      cbn [c_enc_out c_enc]. f_equal.
      assert (P : 0 < 2 ^ (8 * (m - M))) by (apply Z.pow_pos_nonneg; lia).
      replace (8 * (32 - M)) with (8 * (m - M) + 8 * (32 - m)) by lia. rewrite Z.pow_add_r by lia.
      pose proof (Z.div_mod v (2 ^ (8 * (m - M))) ltac:(lia)). nia.
    + replace (m <=? M) with true by lia. rewrite Hx. cbn [c_enc_out c_enc]. f_equal.
      replace (8 * (32 - m)) with (8 * (M - m) + 8 * (32 - M)) by lia. rewrite Z.pow_add_r by lia. ring.
  - (* flag -> bytes32 *)
    cbn in OkI. unfold c_in_range in Hv. cbn [c_lo c_hi] in Hv. cbn [c_enc] in Hx.
    unfold conv_allowed in Al. cbn in Al. assert (M = 32) by lia. subst M.
    assert (2 ^ n <= W) by (apply pow2_le_W; lia).
    rewrite Hx. cbn [c_enc_out c_enc]. f_equal. change (8 * (32 - 32)) with 0. change (8 * 32) with 256.
    rewrite Z.pow_0_r, Z.mul_1_r. fold W. rewrite wrap_small by lia. symmetry. apply Z.mod_small. lia.
Qed.

(* ---- to_bool ---- *)
Lemma c_enc_zero T v : cty_ok T -> c_in_range T v -> (c_enc T v =? 0) = (v =? 0).
Proof.
  intros Ok Hv. pose proof W_val. pose proof HALF_val. unfold c_in_range in Hv.
  destruct T as [S0| | |m|n]; cbn [c_enc c_lo c_hi] in *.
  - cbn in Ok. destruct S0 as [k s d]. destruct Ok as [Hk _]. cbn in Hk.
    pose proof (in_range_fits k s d v Hk Hv) as F. apply wrap_eqb0.
    destruct s; cbn in F; unfold sword, uword, MINS, MAXS in F; lia.
  - apply wrap_eqb0. lia.
  - assert (2 ^ 160 <= W) by (apply pow2_le_W; lia). apply wrap_eqb0. lia.
  - cbn in Ok. assert (0 < 2 ^ (8 * (32 - m))) by (apply Z.pow_pos_nonneg; lia).
    destruct (Z.eqb_spec v 0) as [->|N]; [reflexivity|]. apply Z.eqb_neq. nia.
  - cbn in Ok. assert (2 ^ n <= W) by (apply pow2_le_W; lia). apply wrap_eqb0. lia.
Qed.

(* ---- all of convert() on word types ---- *)
Theorem convert_exact Tin Tout i1 i2 v :
  cty_ok Tin -> cty_ok Tout -> conv_allowed Tin Tout = true -> c_in_range Tin v ->
  leval [("x"%string, c_enc Tin v)] (m_convert Tin Tout i1 i2) = c_enc_out Tout (conv_spec Tin Tout v).
Proof.
  intros OkI OkO Al Hv.
  assert (Hx : leval [("x"%string, c_enc Tin v)] vx = Val (c_enc Tin v)) by reflexivity.
  pose proof W_val.
  destruct Tout as [T| | |M|n]; cbn [m_convert].
  - cbn in OkO. destruct (ndec T) eqn:D.
    + change (c_enc_out (CNum T)) with enc_out. apply to_decimal_exact; assumption.
    + change (c_enc_out (CNum T)) with enc_out. apply to_int_exact; try assumption.
      apply allowed_to_int_ok; assumption.
  - (* bool *)
    cbn [leval]. rewrite Hx. cbn [leval ev1 conv_spec c_enc_out c_enc]. f_equal.
    unfold w_iszero at 2. rewrite w_iszero_b2z. rewrite (c_enc_zero Tin v OkI Hv).
    destruct (v =? 0); reflexivity.
  - (* address: as uint160 *)
    assert (OkU : ty_ok uint160_t) by (split; cbn; [lia | intros C; discriminate C]).
    assert (Al' : to_int_ok Tin uint160_t).
    { unfold conv_allowed in Al. destruct Tin as [S0| | |m|n]; cbn in *; try exact I;
        rewrite ?andb_false_r in Al; discriminate Al. }
    rewrite (to_int_exact Tin uint160_t i1 i2 _ _ v OkI OkU eq_refl Al' Hv Hx).
    unfold conv_spec. cbn [ndec uint160_t].
    destruct Tin as [S0| | |m|n]; try (unfold conv_allowed in Al; cbn in Al; rewrite ?andb_false_r in Al; discriminate Al).
    + unfold conv_allowed in Al. cbn in Al. destruct (ndec S0); cbn in Al;
        [rewrite ?andb_false_r in Al; discriminate Al | reflexivity].
    + cbn [nsigned uint160_t]. reflexivity.
  - (* bytesM *)
    cbn in OkO. apply to_bytes_exact; assumption.
  - (* flag *)
    cbn in OkO. unfold conv_allowed in Al. apply andb_true_iff in Al. destruct Al as [_ Al].
    destruct Tin as [S0| | |m|n']; try discriminate Al. apply nty_eqb_eq in Al. subst S0.
    unfold c_in_range in Hv. cbn [c_lo c_hi] in Hv. change (ty_lo uint256_t) with 0 in Hv. change (ty_hi uint256_t) with (W - 1) in Hv.
    cbn [c_enc] in *. cbn [conv_spec]. unfold c_chk, c_in_rangeb. cbn [c_lo c_hi].
    assert (2 ^ n <= W) by (apply pow2_le_W; lia).
    destruct (Z.ltb_spec n 256).
    + rewrite (uclamp_of_eval _ _ _ (wrap v)); [| lia | exact Hx | apply wrap_range].
      rewrite wrap_small by lia. bsolve; cbn [c_enc_out c_enc]; rewrite ?wrap_small by lia; reflexivity.
    + assert (n = 256) by lia. subst n. rewrite Hx. fold W. bsolve.
Qed.
