(* Gen-independent definitions of the O-ties: which model a key maps to, and the per-entry boolean checks.
   (Static, so that the Search can ask Coq which exported templates differ from the model when a tie breaks.) *)
From Coq Require Import ZArith Bool List String Lia.
From Verif Require Import Base.Word256 C03.LIR C03.VSL C03.ArithSpec C03.ArithModel C03.TieBase C03.VSubst.
Import ListNotations.
Open Scope Z_scope.

Definition bools : list bool := [false; true].
(* operand shape: 0 = both operands are IR variables, 1 = x is the literal [lit], 2 = y is the literal [lit] *)
Definition ea_of (sh lit : Z) : lir := if sh =? 1 then LInt lit else vx.
Definition eb_of (sh lit : Z) : lir := if sh =? 2 then LInt lit else vy.

Definition models (op : aop) (T : nty) (sh lit : Z) : list lir :=
  let ea := ea_of sh lit in
  let eb := eb_of sh lit in
  match op with
  | AAdd => map (m_safe_add T ea eb) bools
  | ASub => map (m_safe_sub T ea eb) bools
  | AMul => flat_map (fun i1 => map (m_safe_mul T ea eb i1) bools) bools
  | ADiv => map (m_safe_div T ea eb) bools
  | AMod => [m_safe_mod T ea eb]
  | AUSub => if nsigned T && (sh =? 0) then [m_usub T] else []
  | APow => []
  end.

Definition tie_one (p : aop * nty * Z * Z * lir) : bool :=
  match p with (op, T, sh, lit, t) =>
    ty_okb T && shape_okb T sh lit && existsb (lir_eqb t) (models op T sh lit) end.

Definition tie_clamp_one (p : nty * lir) : bool :=
  match p with (T, t) => ty_okb T && lir_eqb t (m_clamp_basetype T) end.
(* the exported family is the complete expected one: 65 numeric types x {+,-,*,/,%} with both operands
   variable, unary minus on the 33 signed types, and for every literal of [lit_values T] both literal
   positions (a literal zero divisor of safe_div is rejected by the IR optimiser at template time and has no template) *)
Definition zero_div (op : aop) (sh lit : Z) : bool :=
  match op with ADiv => (sh =? 2) && (lit =? 0) | _ => false end.
Definition expected_keys : list (aop * nty * Z * Z) :=
  flat_map (fun T =>
    app (map (fun op => (op, T, 0, 0)) ops5)
   (app (if nsigned T then [(AUSub, T, 0, 0)] else [])
        (flat_map (fun lit =>
           flat_map (fun op => filter (fun k => match k with (o, _, sh, l) => negb (zero_div o sh l) end)
                                      [(op, T, 1, lit); (op, T, 2, lit)]) ops5)
           (lit_values T)))) num_types.

(* ---- venom ---- *)
Definition vmodel (op : aop) (T : nty) : option vtemplate :=
  match op with
  | AAdd => Some (v_safe_add T) | ASub => Some (v_safe_sub T) | AMul => Some (v_safe_mul T)
  | ADiv => Some (v_safe_div T) | AMod => Some (v_safe_mod T)
  | _ => None
  end.

Definition vshape (sh lit : Z) (m : vtemplate) : vtemplate :=
  if sh =? 1 then vsub "%1" lit m else if sh =? 2 then vsub "%2" lit m else m.

Definition vtie_one (p : aop * nty * Z * Z * vtemplate) : bool :=
  match p with (op, T, sh, lit, t) =>
    ty_okb T && shape_okb T sh lit &&
    match vmodel op T with
    | Some m => vtemplate_eqb t (vshape sh lit m) && no_write "%1" (fst m) && no_write "%2" (fst m)
    | None => false end end.
Definition vtie_clamp_one (p : nty * vtemplate) : bool :=
  match p with (T, t) => ty_okb T && vtemplate_eqb t (v_clamp_basetype T) end.
Definition vexpected_keys : list (aop * nty * Z * Z) :=
  flat_map (fun T =>
    app (map (fun op => (op, T, 0, 0)) ops5)
        (flat_map (fun lit => flat_map (fun op => [(op, T, 1, lit); (op, T, 2, lit)]) ops5) (lit_values T)))
    num_types.

(* indices of the entries failing a check (for the Search) *)
Fixpoint bad_idx {A} (f : A -> bool) (i : Z) (l : list A) : list Z :=
  match l with [] => [] | x :: r => if f x then bad_idx f (i + 1) r else i :: bad_idx f (i + 1) r end.
