(* C03 extension: as_wei_value, floor, ceil, min, max -- about the REAL exported templates (GenBx.v is regenerated from /repo on
   every run by running both generators over the whole family: 65 numeric types x 17 unit names, floor, ceil, min / max x 65
   types), for ALL operand values of the argument type:
     as_wei_value(v, unit) = v * denom(unit)                 when v >= 0 and the product is < 2^256   (any integer type)
                           = floor(d * denom(unit) / 10^10)  when d >= 0                              (decimal, d = value * 10^10)
                           reverts otherwise (negative value; product >= 2^256)
     floor(d) = floor(d / 10^10), ceil(d) = -floor(-d / 10^10); min / max = the smaller / larger value. *)
From Coq Require Import ZArith Bool List String Lia.
From Verif Require Import Base.Word256 C03.LIR C03.VSL C03.ArithSpec C03.WordArith C03.TypeLemmas C03.TieBase
  C03.BuiltinExact C03.BxModel C03.BxExact C03.BxTie C03.GenBx C03.TieBx.
Import ListNotations.
Open Scope Z_scope.

Theorem legacy_bx_exact : forall f t, In (f, t) legacy_bx ->
  forall vs, x_domb f vs = true -> leval (xlenv vs) t = enc_out (x_spec f vs).
Proof.
  intros f t HIn vs Dom. pose proof tie_bx_legacy as Tie. rewrite forallb_forall in Tie.
  exact (bx_exact_legacy f t vs (Tie _ HIn) Dom).
Qed.
Print Assumptions legacy_bx_exact.

Theorem venom_bx_exact : forall f t, In (f, t) venom_bx ->
  forall vs, x_domb f vs = true -> vrun (xvenv vs) t = enc_out (x_spec f vs).
Proof.
  intros f t HIn vs Dom. pose proof tie_bx_venom as Tie. rewrite forallb_forall in Tie.
  exact (bx_exact_venom f t vs (Tie _ HIn) Dom).
Qed.
Print Assumptions venom_bx_exact.

(* the specification of as_wei_value, spelled out *)
Theorem as_wei_value_cases : forall T dn v,
  (v < 0 -> wei_spec T dn v = Revert) /\
  (0 <= v -> ndec T = false -> v * dn < W -> wei_spec T dn v = Val (v * dn)) /\
  (0 <= v -> ndec T = false -> W <= v * dn -> wei_spec T dn v = Revert) /\
  (0 <= v -> ndec T = true -> v * dn / DIVISOR < W -> wei_spec T dn v = Val (v * dn / DIVISOR)).
Proof.
  intros T dn v. unfold wei_spec. repeat split; intros.
  - replace (v <? 0) with true by lia. reflexivity.
  - replace (v <? 0) with false by lia. rewrite H0. replace (v * dn <? W) with true by lia. reflexivity.
  - replace (v <? 0) with false by lia. rewrite H0. replace (v * dn <? W) with false by lia. reflexivity.
  - replace (v <? 0) with false by lia. rewrite H0. replace (v * dn / DIVISOR <? W) with true by lia. reflexivity.
Qed.
Print Assumptions as_wei_value_cases.

(* a product in [2^255, 2^256) of a SIGNED argument is a legitimate result (the seeded change C01_m5 made the guard a signed
   division, under which this input reverts) *)
Theorem as_wei_value_signed_high :
  let v := HALF / 10 ^ 18 + 1 in
  in_range (Build_nty 32 true false) v /\ HALF <= v * 10 ^ 18 < W /\
  wei_spec (Build_nty 32 true false) (10 ^ 18) v = Val (v * 10 ^ 18) /\ wei_sdiv_guard v (10 ^ 18) = 0.
Proof. exact wei_signed_high. Qed.
Print Assumptions as_wei_value_signed_high.

Theorem bx_family_complete :
  xkeys_eqb (map fst legacy_bx) xkeys = true /\ xkeys_eqb (map fst venom_bx) xkeys = true /\
  Z.of_nat (List.length legacy_bx) = 1237 /\ Z.of_nat (List.length venom_bx) = 1237 /\
  Z.of_nat (List.length wei_units) = 17 /\ Z.of_nat (List.length num_types) = 65.
Proof. destruct family_complete_bx as [A B]. repeat split; try assumption; reflexivity. Qed.
Print Assumptions bx_family_complete.

Example bx_nonvacuous :
  x_domb (XWei (Build_nty 32 true false) (10 ^ 18)) [HALF / 10 ^ 18 + 1] = true /\
  x_spec (XWei (Build_nty 16 true false) (10 ^ 18)) [-1] = Revert /\
  x_spec (XWei (Build_nty 32 false false) (10 ^ 3)) [MAXU / 1000] = Val (MAXU / 1000 * 1000) /\
  x_spec (XWei (Build_nty 32 false false) (10 ^ 3)) [MAXU / 1000 + 1] = Revert /\
  x_spec (XWei decimal_t (10 ^ 18)) [13370000000] = Val 1337000000000000000 /\
  x_spec (XWei decimal_t 1) [122000000000] = Val 12 /\
  x_spec XFloor [-5000000000] = Val (-1) /\ x_spec XCeil [-5000000000] = Val 0 /\
  x_spec XFloor [15000000000] = Val 1 /\ x_spec XCeil [15000000001] = Val 2 /\
  x_spec (XMinMax false (Build_nty 32 false false)) [HALF; 1] = Val 1 /\
  x_spec (XMinMax true (Build_nty 1 true false)) [-128; 127] = Val 127 /\
  (exists p, In p legacy_bx /\ fst p = XWei (Build_nty 32 true false) (10 ^ 18)).
Proof.
  repeat split; try (vm_compute; reflexivity).
  assert (E : existsb (fun p => xfn_eqb (fst p) (XWei (Build_nty 32 true false) (10 ^ 18))) legacy_bx = true) by (vm_compute; reflexivity).
  apply existsb_exists in E. destruct E as [p [I E]]. exists p. split; [exact I|].
  destruct p as [f t]. cbn [fst] in *. destruct f as [T d| | |m T]; cbn [xfn_eqb] in E; try discriminate E.
  apply andb_true_iff in E. destruct E as [E1 E2]. apply Z.eqb_eq in E2. subst d.
  destruct T as [k s dd]. unfold nty_eqb' in E1. cbn [nbytes nsigned ndec] in E1.
  apply andb_true_iff in E1. destruct E1 as [E1 E3]. apply andb_true_iff in E1. destruct E1 as [E1 E4].
  apply Z.eqb_eq in E1. apply Bool.eqb_prop in E3. apply Bool.eqb_prop in E4. subst. reflexivity.
Qed.
