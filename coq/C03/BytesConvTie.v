(* Gen-independent definitions for the bytestring -> word conversion O-ties. *)
From Coq Require Import ZArith Bool List String Lia.
From Verif Require Import Base.Word256 C03.LIR C03.VSL C03.LIRMem C03.VSLMem C03.ArithSpec C03.ConvSpec C03.ArithModel
  C03.ConvModel C03.TieBase C03.TieModels C03.ConvExact C03.ConvTie C03.BytesConv.
Import ListNotations.
Open Scope Z_scope.

Lemma mlir_eqb_eq s : forall u, mlir_eqb s u = true -> s = u.
Proof.
  induction s; intros u; destruct u; cbn [mlir_eqb]; intros H; try discriminate H;
    repeat match goal with H : _ && _ = true |- _ => apply andb_true_iff in H; destruct H end.
  - f_equal. apply lir_eqb_eq. assumption.
  - f_equal. apply IHs. assumption.
  - f_equal; [apply op1_eqb_eq | apply IHs]; assumption.
  - f_equal; [apply op2_eqb_eq | apply IHs1 | apply IHs2]; assumption.
  - f_equal; [apply String.eqb_eq | apply IHs1 | apply IHs2]; assumption.
  - f_equal; [apply IHs1 | apply IHs2]; assumption.
  - f_equal. apply IHs. assumption.
Qed.
Lemma mvinstr_eqb_eq i j : mvinstr_eqb i j = true -> i = j.
Proof.
  destruct i, j; cbn; intros H; try discriminate H.
  - f_equal. apply vinstr_eqb_eq. exact H.
  - apply andb_true_iff in H. destruct H as [H1 H2]. apply String.eqb_eq in H1. apply vop_eqb_eq in H2. subst. reflexivity.
Qed.
Lemma mvlist_eqb_eq l : forall m, mvlist_eqb l m = true -> l = m.
Proof.
  induction l as [|i l IH]; destruct m as [|j m]; cbn; intros H; try discriminate H; [reflexivity|].
  apply andb_true_iff in H. destruct H as [H1 H2]. f_equal; [apply mvinstr_eqb_eq | apply IH]; assumption.
Qed.
Lemma mvtemplate_eqb_eq s t : mvtemplate_eqb s t = true -> s = t.
Proof.
  destruct s, t. unfold mvtemplate_eqb. cbn [fst snd]. intros H. apply andb_true_iff in H. destruct H.
  f_equal; [apply mvlist_eqb_eq | apply vop_eqb_eq]; assumption.
Qed.

Definition btie_one (p : Z * Z * cty * mlir) : bool :=
  match p with (s, N, T, t) =>
    ((s =? 0) || (s =? 1)) && bconv_allowed (s =? 1) N T && cty_okb T && mlir_eqb t (m_bconvert N T) end.
Definition vbtie_one (p : Z * Z * cty * mvtemplate) : bool :=
  match p with (s, N, T, t) =>
    ((s =? 0) || (s =? 1)) && bconv_allowed (s =? 1) N T && cty_okb T && mvtemplate_eqb t (v_bconvert N T) end.

Definition bconv_keys : list (Z * Z * cty) :=
  flat_map (fun s => flat_map (fun N => map (fun T => (s, N, T)) (filter (bconv_allowed (s =? 1) N) conv_types))
                              (map Z.of_nat (seq 1 32))) [0; 1].
Definition bkey {A} (p : Z * Z * cty * A) : Z * Z * cty := fst p.
Fixpoint bkeys_eqb (l m : list (Z * Z * cty)) : bool :=
  match l, m with
  | [], [] => true
  | (s, n, T) :: l', (s', n', T') :: m' => (s =? s') && (n =? n') && cty_eqb T T' && bkeys_eqb l' m'
  | _, _ => false
  end.
