(* C03, Venom front end: every arithmetic template that vyper/codegen_venom/arithmetic.py emits for the
   65 numeric types (operands in SSA variables %1, %2) evaluates to exactly the mathematical result if
   representable, else reverts; for ALL operand values of the type.  GenVenom.v is regenerated every run. *)
From Coq Require Import ZArith Bool List String Lia.
From Verif Require Import Base.Word256 C03.LIR C03.VSL C03.ArithSpec C03.WordArith C03.TypeLemmas C03.ArithModel
  C03.TieBase C03.TieModels C03.VSubst C03.GenVenom C03.LegacyExact C03.VenomExact C03.TieVenom.
Import ListNotations.
Open Scope Z_scope.

(* shape sh: 0 = operands in %1, %2; 1 = x is the literal lit; 2 = y is the literal lit *)
Theorem venom_arith_exact : forall op T sh lit t, In (op, T, sh, lit, t) venom_templates ->
  forall x y, in_range T x -> in_range T y -> (sh = 1 -> x = lit) -> (sh = 2 -> y = lit) ->
  vrun (venv2 x y) t = enc_out (arith_spec T op x y).
Proof.
  intros op T sh lit t HIn x y Hx Hy Lx Ly.
  pose proof tie_arith_venom as Tie. rewrite forallb_forall in Tie. specialize (Tie _ HIn).
  unfold vtie_one in Tie. apply andb_true_iff in Tie. destruct Tie as [Ok M].
  apply andb_true_iff in Ok. destruct Ok as [Ok _]. apply ty_okb_ok in Ok.
  assert (E : exists m, vmodel op T = Some m /\ vrun (venv2 x y) t = vrun (venv2 x y) m).
  { destruct (vmodel op T) as [m|]; [|discriminate M]. exists m. split; [reflexivity|].
    apply andb_true_iff in M. destruct M as [M N2]. apply andb_true_iff in M. destruct M as [M N1].
    apply vtemplate_eqb_eq in M. subst t. unfold vshape.
    destruct (Z.eqb_spec sh 1) as [S1|S1]; [|destruct (Z.eqb_spec sh 2) as [S2|S2]]; [| |reflexivity].
    - rewrite <- (Lx S1). apply vrun_sub; [reflexivity | exact N1].
    - rewrite <- (Ly S2). apply vrun_sub; [reflexivity | exact N2]. }
  destruct E as [m [Em ->]].
  destruct op; cbn [vmodel] in Em; try discriminate Em; injection Em as <-.
  - apply vsafe_add_exact; assumption.
  - apply vsafe_sub_exact; assumption.
  - apply vsafe_mul_exact; assumption.
  - apply vsafe_div_exact; assumption.
  - apply vsafe_mod_exact; assumption.
Qed.
Print Assumptions venom_arith_exact.

Theorem venom_family_complete :
  map fst venom_templates = vexpected_keys /\ List.length venom_templates = 3605%nat.
Proof. split; [exact family_complete_venom | reflexivity]. Qed.

Theorem vclamp_basetype_iff_real : forall T t, In (T, t) venom_clamps ->
  forall w, uword w ->
  vrun [("%1"%string, w)] t = if in_rangeb T (sval (nsigned T) w) then Val w else Revert.
Proof.
  intros T t HIn w Hw.
  pose proof tie_clamp_venom as Tie. rewrite forallb_forall in Tie. specialize (Tie _ HIn).
  unfold vtie_clamp_one in Tie. apply andb_true_iff in Tie. destruct Tie as [Ok M].
  apply ty_okb_ok in Ok. apply vtemplate_eqb_eq in M. subst t. apply vclamp_basetype_iff; assumption.
Qed.
Print Assumptions vclamp_basetype_iff_real.

Definition vkey_eqb (a b : aop * nty) : bool :=
  match fst a, fst b with
  | AAdd, AAdd | ASub, ASub | AMul, AMul | ADiv, ADiv | AMod, AMod => true | _, _ => false end
  && (nbytes (snd a) =? nbytes (snd b))
  && Bool.eqb (nsigned (snd a)) (nsigned (snd b)) && Bool.eqb (ndec (snd a)) (ndec (snd b)).
Definition voutcome_eqb (a b : outcome) : bool :=
  match a, b with Val x, Val y => x =? y | Revert, Revert => true | _, _ => false end.
Definition vhas_case (op : aop) (T : nty) (x y : Z) (o : outcome) : bool :=
  existsb (fun p => match p with (o', T', sh, _, t) =>
                      vkey_eqb (o', T') (op, T) && (sh =? 0) && voutcome_eqb (vrun (venv2 x y) t) o end) venom_templates.

Example venom_nonvacuous :
  let i8 := Build_nty 1 true false in
  in_range i8 (-128) /\ in_range i8 127 /\
  vhas_case AMul i8 (-128) (-1) Revert = true /\ vhas_case AMul i8 (-128) 1 (Val (W - 128)) = true /\
  vhas_case ADiv (Build_nty 32 true false) MINS (-1) Revert = true /\
  vhas_case ADiv decimal_t 10000000000 30000000000 (Val 3333333333) = true.
Proof.
  cbv zeta. split; [unfold in_range; cbn; lia|]. split; [unfold in_range; cbn; lia|].
  repeat split; vm_compute; reflexivity.
Qed.
