(* Shared, Gen-independent lemmas for the O-ties: boolean syntactic equality reflects Leibniz equality;
   boolean well-formedness of a numeric type reflects ty_ok. *)
From Coq Require Import ZArith Bool List String Lia.
From Verif Require Import Base.Word256 C03.LIR C03.VSL C03.ArithSpec.
Import ListNotations.
Open Scope Z_scope.

Lemma op2_eqb_eq a b : op2_eqb a b = true -> a = b.
Proof. destruct a, b; try reflexivity; intros H; discriminate H. Qed.
Lemma op1_eqb_eq a b : op1_eqb a b = true -> a = b.
Proof. destruct a, b; try reflexivity; intros H; discriminate H. Qed.
Lemma op3_eqb_eq a b : op3_eqb a b = true -> a = b.
Proof. destruct a, b; try reflexivity; intros H; discriminate H. Qed.

Lemma lir_eqb_eq s : forall t, lir_eqb s t = true -> s = t.
Proof.
  induction s; destruct t; cbn [lir_eqb]; intros H; try discriminate H;
    repeat match goal with H : _ && _ = true |- _ => apply andb_true_iff in H; destruct H end.
  - f_equal. apply Z.eqb_eq. assumption.
  - f_equal. apply String.eqb_eq. assumption.
  - f_equal; [apply op1_eqb_eq | apply IHs]; assumption.
  - f_equal; [apply op2_eqb_eq | apply IHs1 | apply IHs2]; assumption.
  - f_equal; [apply op3_eqb_eq | apply IHs1 | apply IHs2 | apply IHs3]; assumption.
  - f_equal; [apply String.eqb_eq | apply IHs1 | apply IHs2]; assumption.
  - f_equal; [apply IHs1 | apply IHs2]; assumption.
  - reflexivity.
  - f_equal. apply IHs. assumption.
  - f_equal; [apply IHs1 | apply IHs2 | apply IHs3]; assumption.
Qed.

Definition ty_okb (T : nty) : bool :=
  (1 <=? nbytes T) && (nbytes T <=? 32) && (if ndec T then (nbytes T =? 21) && nsigned T else true).
Lemma ty_okb_ok T : ty_okb T = true -> ty_ok T.
Proof.
  unfold ty_okb, ty_ok. intros H. apply andb_true_iff in H. destruct H as [H1 H2].
  split; [lia|]. intros D. rewrite D in H2. apply andb_true_iff in H2. destruct H2. split; [lia | assumption].
Qed.

Lemma vop_eqb_eq a b : vop_eqb a b = true -> a = b.
Proof.
  destruct a, b; cbn; intros H; try discriminate H; f_equal; [apply Z.eqb_eq | apply String.eqb_eq]; assumption.
Qed.
Lemma vinstr_eqb_eq i j : vinstr_eqb i j = true -> i = j.
Proof.
  destruct i, j; cbn [vinstr_eqb]; intros H; try discriminate H;
    repeat match goal with H : _ && _ = true |- _ => apply andb_true_iff in H; destruct H end;
    repeat match goal with
           | H : String.eqb _ _ = true |- _ => apply String.eqb_eq in H; subst
           | H : vop_eqb _ _ = true |- _ => apply vop_eqb_eq in H; subst
           | H : op1_eqb _ _ = true |- _ => apply op1_eqb_eq in H; subst
           | H : op2_eqb _ _ = true |- _ => apply op2_eqb_eq in H; subst
           | H : op3_eqb _ _ = true |- _ => apply op3_eqb_eq in H; subst
           end; reflexivity.
Qed.
Lemma vlist_eqb_eq l : forall m, vlist_eqb l m = true -> l = m.
Proof.
  induction l as [|i l IH]; destruct m as [|j m]; cbn; intros H; try discriminate H; [reflexivity|].
  apply andb_true_iff in H. destruct H as [H1 H2]. f_equal; [apply vinstr_eqb_eq | apply IH]; assumption.
Qed.
Lemma vtemplate_eqb_eq s t : vtemplate_eqb s t = true -> s = t.
Proof.
  destruct s, t. unfold vtemplate_eqb. cbn [fst snd]. intros H. apply andb_true_iff in H. destruct H.
  f_equal; [apply vlist_eqb_eq | apply vop_eqb_eq]; assumption.
Qed.


(* literal operands exported for the literal-shape families (mirrors c03_export.lit_values) *)
Fixpoint dedup (l : list Z) (seen : list Z) : list Z :=
  match l with
  | [] => []
  | v :: r => if existsb (Z.eqb v) seen then dedup r seen else v :: dedup r (v :: seen)
  end.
Definition lit_values (T : nty) : list Z :=
  dedup (filter (in_rangeb T)
                (app [ty_lo T; -1; 0; 1; 7; ty_hi T] (if ndec T then [10 ^ 10; - 10 ^ 10] else []))) [].
Definition ops5 : list aop := [AAdd; ASub; AMul; ADiv; AMod].

Definition shape_okb (T : nty) (sh lit : Z) : bool :=
  (sh =? 0) || (((sh =? 1) || (sh =? 2)) && in_rangeb T lit).
