(* convert() with LITERAL sources: vyper/builtins/_convert.py takes the compile-time paths _literal_int / _literal_decimal
   (the result is a constant) or runs the ordinary template on a literal operand; the venom lowering always emits the
   ordinary template on a literal operand (plus _check_literal_int_bounds).  An exported case is
     (type of the literal as inferred by the REAL front end, target type, value, Some closed template | None = rejected).
   Tie (decided by the kernel on closed terms): an accepted case is an allowed pair and evaluates to exactly conv_spec of
   the literal's value (a value, or a revert when conv_spec is Revert); a rejected case is a disallowed pair or has no value. *)
From Coq Require Import ZArith Bool List String Lia.
From Verif Require Import Base.Word256 C03.LIR C03.VSL C03.ArithSpec C03.ConvSpec C03.ConvExact C03.ConvTie.
Import ListNotations.
Open Scope Z_scope.

Definition oeqb (a b : outcome) : bool :=
  match a, b with Val x, Val y => x =? y | Revert, Revert => true | _, _ => false end.
Lemma oeqb_eq a b : oeqb a b = true -> a = b.
Proof. destruct a, b; cbn; intros H; try discriminate H; try reflexivity. apply Z.eqb_eq in H. subst. reflexivity. Qed.
Definition no_value (o : outcome) : bool := match o with Val _ => false | _ => true end.

Definition lit_ok (Tin Tout : cty) (v : Z) : bool := cty_okb Tin && cty_okb Tout && c_in_rangeb Tin v.
Definition lit_tie_l (p : cty * cty * Z * option lir) : bool :=
  match p with (Tin, Tout, v, r) =>
    lit_ok Tin Tout v &&
    match r with
    | Some t => conv_allowed Tin Tout && oeqb (leval [] t) (c_enc_out Tout (conv_spec Tin Tout v))
    | None => negb (conv_allowed Tin Tout) || no_value (conv_spec Tin Tout v)
    end end.
Definition lit_tie_v (p : cty * cty * Z * option vtemplate) : bool :=
  match p with (Tin, Tout, v, r) =>
    lit_ok Tin Tout v &&
    match r with
    | Some t => conv_allowed Tin Tout && oeqb (vrun [] t) (c_enc_out Tout (conv_spec Tin Tout v))
    | None => negb (conv_allowed Tin Tout) || no_value (conv_spec Tin Tout v)
    end end.

Theorem lit_tie_l_sound Tin Tout v t : lit_tie_l (Tin, Tout, v, Some t) = true ->
  conv_allowed Tin Tout = true /\ c_in_range Tin v /\ leval [] t = c_enc_out Tout (conv_spec Tin Tout v).
Proof.
  unfold lit_tie_l, lit_ok. intros H. apply andb_true_iff in H. destruct H as [Ok H].
  apply andb_true_iff in H. destruct H as [Al E]. apply andb_true_iff in Ok. destruct Ok as [_ R].
  split; [exact Al|]. split; [unfold c_in_rangeb in R; unfold c_in_range; lia | apply oeqb_eq; exact E].
Qed.
Theorem lit_tie_v_sound Tin Tout v t : lit_tie_v (Tin, Tout, v, Some t) = true ->
  conv_allowed Tin Tout = true /\ c_in_range Tin v /\ vrun [] t = c_enc_out Tout (conv_spec Tin Tout v).
Proof.
  unfold lit_tie_v, lit_ok. intros H. apply andb_true_iff in H. destruct H as [Ok H].
  apply andb_true_iff in H. destruct H as [Al E]. apply andb_true_iff in Ok. destruct Ok as [_ R].
  split; [exact Al|]. split; [unfold c_in_rangeb in R; unfold c_in_range; lia | apply oeqb_eq; exact E].
Qed.
