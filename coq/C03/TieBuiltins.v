(* O-tie for the builtin family and the flag conversions with 1..256 members: exported templates = models; family = expected keys. *)
From Coq Require Import ZArith Bool List String.
From Verif Require Import C03.LIR C03.VSL C03.ArithSpec C03.ConvSpec C03.ConvModel C03.TieModels C03.ConvTie C03.BuiltinExact
  C03.BuiltinTie C03.GenBuiltins.
Import ListNotations.
Lemma tie_builtins_legacy : forallb btie_l legacy_builtins = true.
Proof. vm_compute. reflexivity. Qed.
Lemma tie_builtins_venom : forallb btie_v venom_builtins = true.
Proof. vm_compute. reflexivity. Qed.
Lemma family_complete_builtins :
  bkeys_eqb' (map fst legacy_builtins) bkeys = true /\ bkeys_eqb' (map fst venom_builtins) bkeys = true.
Proof. split; vm_compute; reflexivity. Qed.
Lemma tie_flag_converts_legacy : forallb ctie_one legacy_flag_converts = true.
Proof. vm_compute. reflexivity. Qed.
Lemma tie_flag_converts_venom : forallb vctie_one venom_flag_converts = true.
Proof. vm_compute. reflexivity. Qed.
Lemma family_complete_flag_converts :
  ckeys_eqb (ckeys legacy_flag_converts) flag_pairs = true /\ ckeys_eqb (ckeys venom_flag_converts) flag_pairs = true.
Proof. split; vm_compute; reflexivity. Qed.
