(* C03 extension (session 3): exactness of the template models of BxModel.v, for ALL operand values:
     as_wei_value : returns exactly value * denom (decimal: floor(d * denom / 10^10)) when value >= 0 and the result is
                    < 2^256, reverts otherwise -- in particular the overflow test must be an UNSIGNED division: a product in
                    [2^255, 2^256) is a legitimate uint256 result also when the argument type is signed (wei_signed_high).
     floor / ceil : floor(d / 10^10), -floor(-d / 10^10) for every decimal d (never revert)
     min / max    : the smaller / larger VALUE (signed comparison for every type but uint256, whose values need lt / gt). *)
From Coq Require Import ZArith Bool List String Lia.
From Verif Require Import Base.Word256 C03.LIR C03.VSL C03.ArithSpec C03.WordArith C03.TypeLemmas C03.TieBase
  C03.PowExact C03.BuiltinExact C03.BxModel.
Import ListNotations.
Open Scope Z_scope.
Ltac Zify.zify_post_hook ::= Z.to_euclidean_division_equations.

Lemma DIVISOR_val : DIVISOR = 10000000000. Proof. reflexivity. Qed.
Lemma Hb21_val : Hb 21 = 187072209578355573530071658587684226515959365500928. Proof. reflexivity. Qed.
Lemma MAXDENOM_val : MAXDENOM = 1000000000000000000000. Proof. reflexivity. Qed.

Lemma dec_range v : in_range decimal_t v -> - Hb 21 <= v <= Hb 21 - 1.
Proof. unfold in_range. unfold decimal_t. rewrite ty_lo_s, ty_hi_s. trivial. Qed.
Lemma dec_sword v : in_range decimal_t v -> sword v.
Proof. intros H. apply dec_range in H. rewrite Hb21_val in H. unfold sword. wl. Qed.

Lemma sge0_val v : sword v -> w_iszero (w_slt (wrap v) (wrap 0)) = b2z (negb (v <? 0)).
Proof. intros S. rewrite (slt0_val v S). apply w_iszero_b2z. Qed.

(* ---------------- as_wei_value: the word-level facts ---------------- *)
(* integer argument, v >= 0: the guard (p / v == dn) | (v == 0) with p = v * dn mod 2^256 holds iff v * dn < 2^256 *)
Lemma wei_guard v dn : uword v -> 1 <= dn < W ->
  w_or (w_eq (w_div (w_mul (wrap v) (wrap dn)) (wrap v)) (wrap dn)) (w_iszero (wrap v)) = b2z (v * dn <? W).
Proof.
  intros Hv Hd. assert (Ud : uword dn) by (unfold uword; lia).
  rewrite w_mul_wrap. rewrite (wrap_small v Hv), (wrap_small dn Ud).
  replace (v * dn) with (dn * v) by lia. rewrite (umul_ok_val dn v Ud Hv). f_equal.
  unfold uword in *. destruct (Z.eqb_spec v 0) as [->|N]; [|apply orb_false_r].
  rewrite Z.mul_0_r, orb_true_r. symmetry. apply Z.ltb_lt. lia.
Qed.

(* the guard is a boolean word whatever the operands *)
Lemma wei_guard_bool a b c : exists g, w_or (w_eq a b) (w_iszero c) = b2z g.
Proof. exists ((a =? b) || (c =? 0)). unfold w_eq, w_iszero. apply w_or_b2z. Qed.

Lemma int_word T v : ty_ok T -> ndec T = false -> in_range T v ->
  (nsigned T = true -> sword v) /\ (nsigned T = false -> uword v) /\ (0 <= v -> uword v).
Proof.
  intros Ok D H. pose proof (range_words T v Ok H) as F. pose proof W_val. pose proof HALF_val.
  destruct (nsigned T); cbn [fits256] in F; repeat split; intros; try discriminate; try assumption;
    unfold sword, uword, MINS, MAXS in *; lia.
Qed.

(* ---------------- as_wei_value: legacy ---------------- *)
(* the body `seq (assert guard) p` under any environment binding x, for any term p evaluating to the product word *)
Lemma wei_body_exact T dn v e p : ty_ok T -> ndec T = false -> 1 <= dn <= MAXDENOM -> in_range T v ->
  lookup e "x"%string = Some (wrap v) -> leval e p = Val (w_mul (wrap v) (wrap dn)) ->
  leval e (m_wei_body (nsigned T) p dn) = enc_out (wei_spec T dn v).
Proof.
  intros Ok D Hd Hv Lx Lp. pose proof W_val. rewrite MAXDENOM_val in Hd.
  destruct (int_word T v Ok D Hv) as [Ss [Su Sp]].
  unfold m_wei_body, m_mulok, wei_spec, lx. rewrite D.
  destruct (nsigned T) eqn:Sg.
  - specialize (Ss eq_refl). cbn [leval]. rewrite Lx, Lp. cbn [ev1 ev2].
    rewrite (sge0_val v Ss).
    destruct (Z.ltb_spec v 0); cbn [negb].
    + destruct (wei_guard_bool (w_div (w_mul (wrap v) (wrap dn)) (wrap v)) (wrap dn) (wrap v)) as [g ->].
      rewrite w_and_b2z. cbn [andb b2z Z.eqb]. reflexivity.
    + rewrite (wei_guard v dn (Sp ltac:(lia)) ltac:(lia)), w_and_b2z, b2z_eq0. cbn [andb].
      destruct (v * dn <? W); cbn [negb enc_out]; [rewrite w_mul_wrap|]; reflexivity.
  - specialize (Su eq_refl). replace (v <? 0) with false by (unfold uword in Su; lia).
    cbn [leval]. rewrite Lx, Lp. cbn [ev1 ev2]. rewrite (wei_guard v dn Su ltac:(lia)), b2z_eq0.
    destruct (v * dn <? W); cbn [negb enc_out]; [rewrite w_mul_wrap|]; reflexivity.
Qed.

Lemma wei_dec_word dn v : 1 <= dn <= MAXDENOM -> 0 <= v <= Hb 21 - 1 ->
  w_div (w_mul (wrap v) (wrap dn)) (wrap DIVISOR) = wrap (v * dn / DIVISOR) /\ v * dn / DIVISOR < W.
Proof.
  intros Hd Hv. pose proof W_val. rewrite MAXDENOM_val in Hd. rewrite Hb21_val in Hv.
  assert (P : 0 <= v * dn < W) by nia.
  rewrite w_mul_wrap. rewrite (wrap_small (v * dn) P). change (wrap DIVISOR) with DIVISOR.
  unfold w_div. rewrite DIVISOR_val. change (10000000000 =? 0) with false. cbv iota.
  assert (Q : 0 <= v * dn / 10000000000 < W) by lia.
  split; [symmetry; apply wrap_small; exact Q | lia].
Qed.

Theorem wei_exact T dn v : ty_ok T -> 1 <= dn <= MAXDENOM -> in_range T v ->
  leval (xlenv [v]) (m_wei T dn) = enc_out (wei_spec T dn v).
Proof.
  intros Ok Hd Hv. unfold m_wei, xlenv. destruct (ndec T) eqn:D.
  - destruct Ok as [_ Od]. destruct (Od D) as [Kb Sg].
    assert (Hv' : in_range decimal_t v) by (destruct T as [k s d]; cbn in *; subst; exact Hv).
    pose proof (dec_sword v Hv') as Sv. pose proof (dec_range v Hv') as Rv.
    unfold wei_spec, lx. rewrite D. cbn [leval lookup String.eqb Ascii.eqb Bool.eqb ev1 ev2].
    rewrite (sge0_val v Sv), b2z_eq0, negb_involutive.
    destruct (Z.ltb_spec v 0); [reflexivity|].
    destruct (wei_dec_word dn v Hd ltac:(lia)) as [E L]. rewrite E.
    replace (v * dn / DIVISOR <? W) with true by lia. reflexivity.
  - destruct (dn =? 1).
    + apply (wei_body_exact T dn v); try assumption; reflexivity.
    + cbn [leval lx lookup String.eqb Ascii.eqb Bool.eqb ev2].
      apply (wei_body_exact T dn v); try assumption; reflexivity.
Qed.

(* ---------------- as_wei_value: Venom ---------------- *)
Ltac xstep := unfold vrun; cbn [vsl vstep vval lookup benv2 benv1 String.eqb Ascii.eqb Bool.eqb ev1 ev2 ev3 fst snd app
                                 p1 p2 v_select v_nonneg].

Theorem vwei_exact T dn v : ty_ok T -> 1 <= dn <= MAXDENOM -> in_range T v ->
  vrun (xvenv [v]) (v_wei T dn) = enc_out (wei_spec T dn v).
Proof.
  intros Ok Hd Hv. pose proof W_val. unfold v_wei, xvenv, wei_spec.
  destruct (ndec T) eqn:D.
  - (* decimal *)
    destruct Ok as [_ Od]. destruct (Od D) as [Kb Sg].
    assert (Hv' : in_range decimal_t v) by (destruct T as [k s d]; cbn in *; subst; exact Hv).
    pose proof (dec_sword v Hv') as Sv. pose proof (dec_range v Hv') as Rv.
    destruct (Z.eqb_spec dn 1) as [->|N1]; xstep; rewrite (sge0_val v Sv), b2z_eq0, negb_involutive;
      (destruct (Z.ltb_spec v 0); [reflexivity|]); xstep.
    + destruct (wei_dec_word 1 v ltac:(rewrite MAXDENOM_val; lia) ltac:(lia)) as [E L].
      rewrite w_mul_wrap, Z.mul_1_r in E. rewrite Z.mul_1_r in *.
      rewrite (wrap_small v) in E by (rewrite Hb21_val in Rv; lia).
      rewrite (wrap_small v) by (rewrite Hb21_val in Rv; lia).
      rewrite E. replace (v / DIVISOR <? W) with true by lia. reflexivity.
    + destruct (wei_dec_word dn v Hd ltac:(lia)) as [E L]. rewrite E.
      replace (v * dn / DIVISOR <? W) with true by lia. reflexivity.
  - (* integers *)
    destruct (int_word T v Ok D Hv) as [Ss [Su Sp]]. rewrite MAXDENOM_val in Hd.
    destruct (Z.eqb_spec dn 1) as [->|N1].
    + rewrite Z.mul_1_r. destruct (nsigned T) eqn:Sg.
      * specialize (Ss eq_refl). xstep. rewrite (sge0_val v Ss), b2z_eq0, negb_involutive.
        destruct (Z.ltb_spec v 0); [reflexivity|]. xstep.
        replace (v <? W) with true by (specialize (Sp ltac:(lia)); unfold uword in Sp; lia). reflexivity.
      * specialize (Su eq_refl). unfold uword in Su. xstep.
        replace (v <? 0) with false by lia. replace (v <? W) with true by lia. reflexivity.
    + destruct (nsigned T) eqn:Sg.
      * specialize (Ss eq_refl). xstep. rewrite (sge0_val v Ss).
        destruct (Z.ltb_spec v 0); cbn [negb].
        -- destruct (wei_guard_bool (w_div (w_mul (wrap v) (wrap dn)) (wrap v)) (wrap dn) (wrap v)) as [g ->].
           rewrite w_and_b2z. cbn [andb b2z Z.eqb]. reflexivity.
        -- rewrite (wei_guard v dn (Sp ltac:(lia)) ltac:(lia)), w_and_b2z, b2z_eq0. cbn [andb].
           destruct (v * dn <? W); cbn [negb enc_out]; [xstep; rewrite w_mul_wrap|]; reflexivity.
      * specialize (Su eq_refl). replace (v <? 0) with false by (unfold uword in Su; lia).
        xstep. rewrite (wei_guard v dn Su ltac:(lia)), b2z_eq0.
        destruct (v * dn <? W); cbn [negb enc_out]; [xstep; rewrite w_mul_wrap|]; reflexivity.
Qed.

(* the seeded change C01_m5: with a SIGNED division in the guard a product in [2^255, 2^256) is refused.
   Witness: int256 v = 2^255 / 10^18 + 1, "ether": the spec (and the real templates) return v * 10^18; the sdiv guard is 0. *)
Definition wei_sdiv_guard (v dn : Z) : Z :=
  w_or (w_eq (w_sdiv (w_mul (wrap v) (wrap dn)) (wrap v)) (wrap dn)) (w_iszero (wrap v)).
Lemma wei_signed_high :
  let v := HALF / 10 ^ 18 + 1 in
  in_range (Build_nty 32 true false) v /\ HALF <= v * 10 ^ 18 < W /\
  wei_spec (Build_nty 32 true false) (10 ^ 18) v = Val (v * 10 ^ 18) /\ wei_sdiv_guard v (10 ^ 18) = 0.
Proof. vm_compute. repeat split; intro; discriminate. Qed.

(* ---------------- floor / ceil ---------------- *)
Lemma floor_word v : in_range decimal_t v ->
  (if v <? 0 then w_sdiv (w_sub (wrap v) (wrap (DIVISOR - 1))) (wrap DIVISOR) else w_sdiv (wrap v) (wrap DIVISOR))
  = wrap (v / DIVISOR).
Proof.
  intros Hv. pose proof (dec_sword v Hv) as Sv. pose proof (dec_range v Hv) as Rv. rewrite Hb21_val in Rv.
  pose proof W_val. pose proof HALF_val. rewrite DIVISOR_val.
  assert (SD : sword 10000000000) by (unfold sword; wl).
  destruct (Z.ltb_spec v 0).
  - rewrite w_sub_wrap. rewrite sdiv_val; [f_equal; lia | unfold sword; wl | exact SD | lia].
  - rewrite sdiv_val; [f_equal; lia | exact Sv | exact SD | lia].
Qed.
Lemma ceil_word v : in_range decimal_t v ->
  (if v <? 0 then w_sdiv (wrap v) (wrap DIVISOR) else w_sdiv (w_add (wrap v) (wrap (DIVISOR - 1))) (wrap DIVISOR))
  = wrap (- ((- v) / DIVISOR)).
Proof.
  intros Hv. pose proof (dec_sword v Hv) as Sv. pose proof (dec_range v Hv) as Rv. rewrite Hb21_val in Rv.
  pose proof W_val. pose proof HALF_val. rewrite DIVISOR_val.
  assert (SD : sword 10000000000) by (unfold sword; wl).
  destruct (Z.ltb_spec v 0).
  - rewrite sdiv_val; [f_equal; lia | exact Sv | exact SD | lia].
  - rewrite w_add_wrap. rewrite sdiv_val; [f_equal; lia | unfold sword; wl | exact SD | lia].
Qed.

Theorem floor_exact v : in_range decimal_t v -> leval (xlenv [v]) m_floor = Val (wrap (v / DIVISOR)).
Proof.
  intros Hv. pose proof (dec_sword v Hv) as Sv. rewrite <- (floor_word v Hv).
  unfold m_floor, xlenv, lx. cbn [leval lookup String.eqb Ascii.eqb Bool.eqb ev2].
  rewrite (slt0_val v Sv), b2z_eq0. destruct (v <? 0); cbn [negb leval lookup String.eqb Ascii.eqb Bool.eqb ev2]; reflexivity.
Qed.
Theorem ceil_exact v : in_range decimal_t v -> leval (xlenv [v]) m_ceil = Val (wrap (- ((- v) / DIVISOR))).
Proof.
  intros Hv. pose proof (dec_sword v Hv) as Sv. rewrite <- (ceil_word v Hv).
  unfold m_ceil, xlenv, lx. cbn [leval lookup String.eqb Ascii.eqb Bool.eqb ev2].
  rewrite (slt0_val v Sv), b2z_eq0. destruct (v <? 0); cbn [negb leval lookup String.eqb Ascii.eqb Bool.eqb ev2]; reflexivity.
Qed.

Lemma w_add_uword a b : uword (w_add a b).
Proof. unfold w_add, uword. pose proof W_val. apply Z.mod_pos_bound. lia. Qed.
Lemma w_sub_uword a b : uword (w_sub a b).
Proof. unfold w_sub, uword. pose proof W_val. apply Z.mod_pos_bound. lia. Qed.

Theorem vfloor_exact v : in_range decimal_t v -> vrun (xvenv [v]) v_floor = Val (wrap (v / DIVISOR)).
Proof.
  intros Hv. pose proof (dec_sword v Hv) as Sv. rewrite <- (floor_word v Hv).
  unfold v_floor, xvenv. xstep. rewrite (slt0_val v Sv).
  rewrite select_val by (try apply w_sub_uword; apply wrap_range). destruct (v <? 0); reflexivity.
Qed.
Theorem vceil_exact v : in_range decimal_t v -> vrun (xvenv [v]) v_ceil = Val (wrap (- ((- v) / DIVISOR))).
Proof.
  intros Hv. pose proof (dec_sword v Hv) as Sv. rewrite <- (ceil_word v Hv).
  unfold v_ceil, xvenv. xstep. rewrite (slt0_val v Sv).
  rewrite select_val by (try apply w_add_uword; apply wrap_range). destruct (v <? 0); reflexivity.
Qed.

(* ---------------- min / max ---------------- *)
Lemma select3_val (c : bool) a b : uword a -> uword b -> ev3 OSelect (b2z c) a b = if c then a else b.
Proof.
  intros Ha Hb. cbn [ev3]. rewrite <- (select_val c a b Ha Hb). unfold w_mul, w_xor.
  rewrite (Z.mul_comm (Z.lxor a b)). reflexivity.
Qed.

(* every value of a numeric type other than uint256 is a signed word *)
Lemma non_u256_sword T v : ty_ok T -> is_u256 T = false -> in_range T v -> sword v.
Proof.
  intros Ok NU H. pose proof (range_words T v Ok H) as F. destruct T as [k s d]. destruct Ok as [Hk Od].
  cbn [nsigned nbytes ndec] in *. destruct s; [exact F|]. cbn [fits256] in F.
  unfold is_u256 in NU. cbn [nbytes nsigned ndec negb andb] in NU.
  destruct d; [destruct (Od eq_refl); discriminate|]. rewrite andb_true_r in NU.
  assert (k <= 31) by lia. unfold in_range in H. rewrite ty_lo_u, ty_hi_u in H by lia.
  pose proof (Hb_le247 k ltac:(lia)). pose proof P247_val. unfold sword. wl.
Qed.

Lemma cmp_word mx T a b : ty_ok T -> in_range T a -> in_range T b ->
  ev2 (mm_cmp mx T) (wrap a) (wrap b) = b2z (if mx then b <? a else a <? b).
Proof.
  intros Ok Ha Hb. unfold mm_cmp. destruct (is_u256 T) eqn:U.
  - assert (nsigned T = false) by (unfold is_u256 in U; destruct (nsigned T); [rewrite andb_false_r in U; discriminate | reflexivity]).
    pose proof (uword_of_range T a Ok H Ha) as Ua. pose proof (uword_of_range T b Ok H Hb) as Ub.
    rewrite (wrap_small a Ua), (wrap_small b Ub). destruct mx; cbn [ev2]; unfold w_gt, w_lt; f_equal; lia.
  - pose proof (non_u256_sword T a Ok U Ha) as Sa. pose proof (non_u256_sword T b Ok U Hb) as Sb.
    destruct mx; cbn [ev2]; unfold w_sgt, w_slt; rewrite (ts_wrap a Sa), (ts_wrap b Sb); f_equal; lia.
Qed.

Lemma minmax_pick (mx : bool) a b :
  (if (if mx then b <? a else a <? b) then wrap a else wrap b) = wrap (if mx then Z.max a b else Z.min a b).
Proof. destruct mx; [destruct (Z.ltb_spec b a) | destruct (Z.ltb_spec a b)]; f_equal; lia. Qed.

Theorem minmax_exact mx T a b : ty_ok T -> in_range T a -> in_range T b ->
  leval (xlenv [a; b]) (m_minmax mx T) = Val (wrap (if mx then Z.max a b else Z.min a b)).
Proof.
  intros Ok Ha Hb. unfold m_minmax, xlenv, lx, ly. cbn [leval lookup String.eqb Ascii.eqb Bool.eqb].
  rewrite (cmp_word mx T a b Ok Ha Hb). rewrite select3_val by apply wrap_range. rewrite minmax_pick. reflexivity.
Qed.
Theorem vminmax_exact mx T a b : ty_ok T -> in_range T a -> in_range T b ->
  vrun (xvenv [a; b]) (v_minmax mx T) = Val (wrap (if mx then Z.max a b else Z.min a b)).
Proof.
  intros Ok Ha Hb. unfold v_minmax, xvenv. xstep.
  rewrite (cmp_word mx T a b Ok Ha Hb). rewrite select_val by apply wrap_range. rewrite minmax_pick. reflexivity.
Qed.

(* why uint256 needs the unsigned comparison: with slt, min(2^255, 1) would be 2^255 *)
Lemma minmax_u256_needs_unsigned :
  in_range (Build_nty 32 false false) HALF /\ w_slt (wrap HALF) (wrap 1) = 1 /\ w_lt (wrap HALF) (wrap 1) = 0.
Proof. vm_compute. repeat split; intro; discriminate. Qed.
