From Coq Require Import ZArith Bool List String.
From Verif Require Import C03.LIR C03.VSL C03.ArithSpec C03.TieModels C03.UnsafeExact C03.UnsafeTie C03.GenUnsafeVenom.
Import ListNotations.
Lemma tie_unsafe_venom : forallb vutie_one venom_unsafes = true.
Proof. vm_compute. reflexivity. Qed.
Lemma family_complete_unsafe_venom : ukeys_eqb (map fst venom_unsafes) unsafe_keys = true.
Proof. vm_compute. reflexivity. Qed.
