From Verif Require Import Base.Word256 C14.Venom C14.VenomCall.
From Coq Require Import ZArith List.
Import ListNotations.
Open Scope Z_scope.
Definition f_02f3af7196585805 : func := func_of 1%positive
  [(1%positive, [Inst [7%positive] O_assign [OLit 0x20];
    Inst [2%positive] O_calldataload [OVar 7];
    Inst [8%positive] O_assign [OVar 2];
    Inst [9%positive] O_assign [OLit 0x0];
    Inst [1%positive] O_calldataload [OVar 9];
    Inst [] O_jnz [OVar 1; OLab 5; OLab 3]]);
   (3%positive, [Inst [10%positive] O_assign [OVar 2];
    Inst [11%positive] O_assign [OLit 0x1];
    Inst [3%positive] O_add [OVar 11; OVar 10];
    Inst [] O_jmp [OLab 4]]);
   (4%positive, [Inst [4%positive] O_phi [OLab 5; OVar 8; OLab 3; OVar 3];
    Inst [12%positive] O_assign [OLit 0x0];
    Inst [] O_mstore [OVar 12; OVar 4];
    Inst [13%positive] O_assign [OLit 0x20];
    Inst [14%positive] O_assign [OLit 0x0];
    Inst [] O_return [OVar 14; OVar 13]]);
   (5%positive, [Inst [] O_jmp [OLab 4]])]
  [].
Definition f_24adbae40dffdaa5 : func := func_of 1%positive
  [(1%positive, [Inst [1%positive] O_calldataload [OLit 0x0];
    Inst [2%positive] O_calldataload [OLit 0x20];
    Inst [] O_jnz [OVar 1; OLab 4; OLab 3]]);
   (3%positive, [Inst [3%positive] O_add [OLit 0x1; OVar 2];
    Inst [] O_jmp [OLab 4]]);
   (4%positive, [Inst [4%positive] O_phi [OLab 1; OVar 2; OLab 3; OVar 3];
    Inst [5%positive] O_assign [OLit 0x0];
    Inst [] O_mstore [OVar 5; OVar 4];
    Inst [] O_return [OVar 5; OLit 0x20]])]
  [].
Definition f_2f787cab7168ef2a : func := func_of 1%positive
  [(1%positive, [Inst [1%positive] O_calldataload [OLit 0x0];
    Inst [2%positive] O_calldataload [OLit 0x20];
    Inst [] O_jnz [OVar 1; OLab 2; OLab 3]]);
   (2%positive, [Inst [] O_jmp [OLab 4]]);
   (3%positive, [Inst [3%positive] O_add [OVar 2; OLit 0x1];
    Inst [] O_jmp [OLab 4]]);
   (4%positive, [Inst [4%positive] O_phi [OLab 2; OVar 2; OLab 3; OVar 3];
    Inst [5%positive] O_alloca [OLit 0x10001500000000];
    Inst [] O_mstore [OVar 5; OVar 4];
    Inst [] O_return [OVar 5; OLit 0x20]])]
  [].
Definition f_59b57f08a72e2d1f : func := func_of 1%positive
  [(1%positive, [Inst [1%positive] O_calldataload [OLit 0x0];
    Inst [2%positive] O_calldataload [OLit 0x20];
    Inst [] O_jnz [OVar 1; OLab 4; OLab 3]]);
   (3%positive, [Inst [3%positive] O_add [OLit 0x1; OVar 2];
    Inst [] O_jmp [OLab 4]]);
   (4%positive, [Inst [4%positive] O_phi [OLab 1; OVar 2; OLab 3; OVar 3];
    Inst [5%positive] O_alloca [OLit 0x10001500000000];
    Inst [] O_mstore [OVar 5; OVar 4];
    Inst [] O_return [OVar 5; OLit 0x20]])]
  [].
Definition f_76b65ce000eb3297 : func := func_of 1%positive
  [(1%positive, [Inst [1%positive] O_calldataload [OLit 0x0];
    Inst [2%positive] O_calldataload [OLit 0x20];
    Inst [] O_jnz [OVar 1; OLab 4; OLab 3]]);
   (3%positive, [Inst [3%positive] O_add [OVar 2; OLit 0x1];
    Inst [] O_jmp [OLab 4]]);
   (4%positive, [Inst [4%positive] O_phi [OLab 1; OVar 2; OLab 3; OVar 3];
    Inst [5%positive] O_alloca [OLit 0x10001500000000];
    Inst [6%positive] O_assign [OVar 4];
    Inst [] O_mstore [OVar 5; OVar 6];
    Inst [] O_return [OVar 5; OLit 0x20]])]
  [].
Definition f_7e97a64618ad7348 : func := func_of 1%positive
  [(1%positive, [Inst [1%positive] O_calldataload [OLit 0x0];
    Inst [2%positive] O_calldataload [OLit 0x20];
    Inst [] O_jnz [OVar 1; OLab 4; OLab 3]]);
   (3%positive, [Inst [3%positive] O_add [OVar 2; OLit 0x1];
    Inst [] O_jmp [OLab 4]]);
   (4%positive, [Inst [4%positive] O_phi [OLab 1; OVar 2; OLab 3; OVar 3];
    Inst [5%positive] O_alloca [OLit 0x10001500000000];
    Inst [] O_mstore [OVar 5; OVar 4];
    Inst [] O_return [OVar 5; OLit 0x20]])]
  [].
Definition f_a36a98e19d593e27 : func := func_of 1%positive
  [(1%positive, [Inst [1%positive] O_calldataload [OLit 0x0];
    Inst [2%positive] O_calldataload [OLit 0x20];
    Inst [] O_jnz [OVar 1; OLab 4; OLab 3]]);
   (3%positive, [Inst [3%positive] O_add [OLit 0x1; OVar 2];
    Inst [] O_jmp [OLab 4]]);
   (4%positive, [Inst [4%positive] O_phi [OLab 1; OVar 2; OLab 3; OVar 3];
    Inst [5%positive] O_alloca [OLit 0x10001500000000];
    Inst [6%positive] O_assign [OVar 4];
    Inst [] O_mstore [OVar 5; OVar 6];
    Inst [] O_return [OVar 5; OLit 0x20]])]
  [].
Definition f_bc177a0278abbb0e : func := func_of 1%positive
  [(1%positive, [Inst [1%positive] O_calldataload [OLit 0x0];
    Inst [2%positive] O_calldataload [OLit 0x20];
    Inst [] O_jnz [OVar 1; OLab 4; OLab 3]]);
   (3%positive, [Inst [3%positive] O_add [OLit 0x1; OVar 2];
    Inst [] O_jmp [OLab 4]]);
   (4%positive, [Inst [4%positive] O_phi [OLab 1; OVar 2; OLab 3; OVar 3];
    Inst [5%positive] O_assign [OLit 0x0];
    Inst [] O_mstore [OVar 5; OVar 4];
    Inst [] O_return [OVar 5; OLit 0x20]])]
  [].
Definition f_c425760b4d4059ef : func := func_of 1%positive
  [(1%positive, [Inst [7%positive] O_assign [OLit 0x20];
    Inst [2%positive] O_calldataload [OVar 7];
    Inst [8%positive] O_assign [OVar 2];
    Inst [9%positive] O_assign [OLit 0x0];
    Inst [1%positive] O_calldataload [OVar 9];
    Inst [] O_jnz [OVar 1; OLab 4; OLab 3]]);
   (3%positive, [Inst [10%positive] O_assign [OVar 2];
    Inst [11%positive] O_assign [OLit 0x1];
    Inst [3%positive] O_add [OVar 11; OVar 10];
    Inst [] O_jmp [OLab 4]]);
   (4%positive, [Inst [4%positive] O_phi [OLab 1; OVar 8; OLab 3; OVar 3];
    Inst [12%positive] O_assign [OLit 0x0];
    Inst [] O_mstore [OVar 12; OVar 4];
    Inst [13%positive] O_assign [OLit 0x20];
    Inst [14%positive] O_assign [OLit 0x0];
    Inst [] O_return [OVar 14; OVar 13]])]
  [].
Definition f_d45355c6b784a118 : func := func_of 1%positive
  [(1%positive, [Inst [1%positive] O_calldataload [OLit 0x0];
    Inst [2%positive] O_calldataload [OLit 0x20];
    Inst [] O_jnz [OVar 1; OLab 2; OLab 3]]);
   (2%positive, [Inst [] O_jmp [OLab 4]]);
   (3%positive, [Inst [3%positive] O_add [OLit 0x1; OVar 2];
    Inst [] O_jmp [OLab 4]]);
   (4%positive, [Inst [4%positive] O_phi [OLab 2; OVar 2; OLab 3; OVar 3];
    Inst [5%positive] O_alloca [OLit 0x10001500000000];
    Inst [] O_mstore [OVar 5; OVar 4];
    Inst [] O_return [OVar 5; OLit 0x20]])]
  [].
Definition f_e0c09a680b4bbcf1 : func := func_of 1%positive
  [(1%positive, [Inst [1%positive] O_calldataload [OLit 0x0];
    Inst [2%positive] O_calldataload [OLit 0x20];
    Inst [] O_jnz [OVar 1; OLab 4; OLab 3]]);
   (3%positive, [Inst [3%positive] O_add [OLit 0x1; OVar 2];
    Inst [] O_jmp [OLab 4]]);
   (4%positive, [Inst [4%positive] O_phi [OLab 1; OVar 2; OLab 3; OVar 3];
    Inst [5%positive] O_assign [OLit 0x0];
    Inst [] O_mstore [OLit 0x0; OVar 4];
    Inst [] O_return [OLit 0x0; OLit 0x20]])]
  [].
Definition C_da39a3ee5e : ctxt := ctxt_of [].
