From Verif Require Import Base.Word256 C14.Venom C14.VenomCall.
From Coq Require Import ZArith List.
Import ListNotations.
Open Scope Z_scope.
Definition f_01cd0d1287c1dce7 : func := func_of 1%positive
  [(1%positive, [Inst [1%positive] O_calldataload [OLit 0x0];
    Inst [2%positive] O_calldataload [OLit 0x20];
    Inst [3%positive] O_add [OVar 2; OLit 0x7];
    Inst [] O_jnz [OVar 1; OLab 2; OLab 3]]);
   (2%positive, [Inst [] O_jmp [OLab 3]]);
   (3%positive, [Inst [4%positive] O_phi [OLab 1; OVar 3; OLab 2; OVar 2];
    Inst [5%positive] O_alloca [OLit 0x10001500000000];
    Inst [] O_mstore [OVar 5; OVar 4];
    Inst [] O_return [OVar 5; OLit 0x20]])]
  [].
Definition f_04b2020d604400a2 : func := func_of 1%positive
  [(1%positive, [Inst [1%positive] O_calldataload [OLit 0x0];
    Inst [2%positive] O_calldataload [OLit 0x20];
    Inst [3%positive] O_add [OLit 0x7; OVar 2];
    Inst [] O_jnz [OVar 1; OLab 2; OLab 3]]);
   (2%positive, [Inst [] O_jmp [OLab 3]]);
   (3%positive, [Inst [4%positive] O_phi [OLab 1; OVar 3; OLab 2; OVar 2];
    Inst [5%positive] O_assign [OLit 0x0];
    Inst [] O_mstore [OVar 5; OVar 4];
    Inst [] O_return [OVar 5; OLit 0x20]])]
  [].
Definition f_080ab852b75d7c1f : func := func_of 1%positive
  [(1%positive, [Inst [1%positive] O_calldataload [OLit 0x0];
    Inst [2%positive] O_calldataload [OLit 0x20];
    Inst [3%positive] O_add [OLit 0x7; OVar 2];
    Inst [] O_jnz [OVar 1; OLab 2; OLab 3]]);
   (2%positive, [Inst [] O_jmp [OLab 3]]);
   (3%positive, [Inst [4%positive] O_phi [OLab 1; OVar 3; OLab 2; OVar 2];
    Inst [5%positive] O_assign [OLit 0x0];
    Inst [] O_mstore [OLit 0x0; OVar 4];
    Inst [] O_return [OLit 0x0; OLit 0x20]])]
  [].
Definition f_1cba6c5b0a9aaf53 : func := func_of 1%positive
  [(1%positive, [Inst [1%positive] O_calldataload [OLit 0x0];
    Inst [2%positive] O_calldataload [OLit 0x20];
    Inst [3%positive] O_add [OLit 0x7; OVar 2];
    Inst [6%positive] O_iszero [OVar 1];
    Inst [] O_jnz [OVar 6; OLab 3; OLab 2]]);
   (2%positive, [Inst [] O_jmp [OLab 3]]);
   (3%positive, [Inst [4%positive] O_phi [OLab 1; OVar 3; OLab 2; OVar 2];
    Inst [] O_mstore [OLit 0x0; OVar 4];
    Inst [] O_return [OLit 0x0; OLit 0x20]])]
  [].
Definition f_3d7284b10c522a4f : func := func_of 1%positive
  [(1%positive, [Inst [1%positive] O_calldataload [OLit 0x0];
    Inst [2%positive] O_calldataload [OLit 0x20];
    Inst [3%positive] O_add [OLit 0x7; OVar 2];
    Inst [] O_jnz [OVar 1; OLab 2; OLab 3]]);
   (2%positive, [Inst [] O_jmp [OLab 3]]);
   (3%positive, [Inst [4%positive] O_phi [OLab 1; OVar 3; OLab 2; OVar 2];
    Inst [5%positive] O_alloca [OLit 0x10001500000000];
    Inst [] O_mstore [OVar 5; OVar 4];
    Inst [] O_return [OVar 5; OLit 0x20]])]
  [].
Definition f_4ec667cd25d301b7 : func := func_of 1%positive
  [(1%positive, [Inst [8%positive] O_assign [OLit 0x20];
    Inst [2%positive] O_calldataload [OVar 8];
    Inst [9%positive] O_assign [OVar 2];
    Inst [10%positive] O_assign [OLit 0x7];
    Inst [3%positive] O_add [OVar 10; OVar 9];
    Inst [11%positive] O_assign [OLit 0x0];
    Inst [1%positive] O_calldataload [OVar 11];
    Inst [6%positive] O_iszero [OVar 1];
    Inst [] O_jnz [OVar 6; OLab 3; OLab 2]]);
   (2%positive, [Inst [12%positive] O_assign [OVar 2];
    Inst [] O_jmp [OLab 3]]);
   (3%positive, [Inst [4%positive] O_phi [OLab 1; OVar 3; OLab 2; OVar 12];
    Inst [13%positive] O_assign [OLit 0x0];
    Inst [] O_mstore [OVar 13; OVar 4];
    Inst [14%positive] O_assign [OLit 0x20];
    Inst [15%positive] O_assign [OLit 0x0];
    Inst [] O_return [OVar 15; OVar 14]])]
  [].
Definition f_93116c796e4b943c : func := func_of 1%positive
  [(1%positive, [Inst [1%positive] O_calldataload [OLit 0x0];
    Inst [2%positive] O_calldataload [OLit 0x20];
    Inst [3%positive] O_add [OVar 2; OLit 0x7];
    Inst [] O_jnz [OVar 1; OLab 2; OLab 3]]);
   (2%positive, [Inst [] O_jmp [OLab 3]]);
   (3%positive, [Inst [4%positive] O_phi [OLab 1; OVar 3; OLab 2; OVar 2];
    Inst [5%positive] O_alloca [OLit 0x10001500000000];
    Inst [7%positive] O_assign [OVar 4];
    Inst [] O_mstore [OVar 5; OVar 7];
    Inst [] O_return [OVar 5; OLit 0x20]])]
  [].
Definition f_94f3be9a12da442c : func := func_of 1%positive
  [(1%positive, [Inst [1%positive] O_calldataload [OLit 0x0];
    Inst [2%positive] O_calldataload [OLit 0x20];
    Inst [3%positive] O_add [OLit 0x7; OVar 2];
    Inst [] O_jnz [OVar 1; OLab 2; OLab 3]]);
   (2%positive, [Inst [] O_jmp [OLab 3]]);
   (3%positive, [Inst [4%positive] O_phi [OLab 1; OVar 3; OLab 2; OVar 2];
    Inst [] O_mstore [OLit 0x0; OVar 4];
    Inst [] O_return [OLit 0x0; OLit 0x20]])]
  [].
Definition f_9b8da428480188fa : func := func_of 1%positive
  [(1%positive, [Inst [1%positive] O_calldataload [OLit 0x0];
    Inst [2%positive] O_calldataload [OLit 0x20];
    Inst [3%positive] O_add [OLit 0x7; OVar 2];
    Inst [] O_jnz [OVar 1; OLab 2; OLab 3]]);
   (2%positive, [Inst [] O_jmp [OLab 3]]);
   (3%positive, [Inst [4%positive] O_phi [OLab 1; OVar 3; OLab 2; OVar 2];
    Inst [5%positive] O_assign [OLit 0x0];
    Inst [] O_mstore [OVar 5; OVar 4];
    Inst [] O_return [OVar 5; OLit 0x20]])]
  [].
Definition f_b4420b4621c8deea : func := func_of 1%positive
  [(1%positive, [Inst [8%positive] O_assign [OLit 0x20];
    Inst [2%positive] O_calldataload [OVar 8];
    Inst [9%positive] O_assign [OVar 2];
    Inst [10%positive] O_assign [OLit 0x7];
    Inst [3%positive] O_add [OVar 10; OVar 9];
    Inst [11%positive] O_assign [OLit 0x0];
    Inst [1%positive] O_calldataload [OVar 11];
    Inst [6%positive] O_iszero [OVar 1];
    Inst [] O_jnz [OVar 6; OLab 4; OLab 2]]);
   (2%positive, [Inst [12%positive] O_assign [OVar 2];
    Inst [] O_jmp [OLab 3]]);
   (3%positive, [Inst [4%positive] O_phi [OLab 4; OVar 3; OLab 2; OVar 12];
    Inst [13%positive] O_assign [OLit 0x0];
    Inst [] O_mstore [OVar 13; OVar 4];
    Inst [14%positive] O_assign [OLit 0x20];
    Inst [15%positive] O_assign [OLit 0x0];
    Inst [] O_return [OVar 15; OVar 14]]);
   (4%positive, [Inst [] O_jmp [OLab 3]])]
  [].
Definition f_bce16a24dc678c77 : func := func_of 1%positive
  [(1%positive, [Inst [1%positive] O_calldataload [OLit 0x0];
    Inst [2%positive] O_calldataload [OLit 0x20];
    Inst [3%positive] O_add [OLit 0x7; OVar 2];
    Inst [] O_jnz [OVar 1; OLab 2; OLab 3]]);
   (2%positive, [Inst [] O_jmp [OLab 3]]);
   (3%positive, [Inst [4%positive] O_phi [OLab 1; OVar 3; OLab 2; OVar 2];
    Inst [5%positive] O_alloca [OLit 0x10001500000000];
    Inst [7%positive] O_assign [OVar 4];
    Inst [] O_mstore [OVar 5; OVar 7];
    Inst [] O_return [OVar 5; OLit 0x20]])]
  [].
Definition f_e50c9df33ff0bdf0 : func := func_of 1%positive
  [(1%positive, [Inst [1%positive] O_calldataload [OLit 0x0];
    Inst [2%positive] O_calldataload [OLit 0x20];
    Inst [3%positive] O_add [OVar 2; OLit 0x7];
    Inst [6%positive] O_iszero [OVar 1];
    Inst [] O_jnz [OVar 6; OLab 3; OLab 2]]);
   (2%positive, [Inst [] O_jmp [OLab 3]]);
   (3%positive, [Inst [4%positive] O_phi [OLab 1; OVar 3; OLab 2; OVar 2];
    Inst [5%positive] O_alloca [OLit 0x10001500000000];
    Inst [] O_mstore [OVar 5; OVar 4];
    Inst [] O_return [OVar 5; OLit 0x20]])]
  [].
Definition C_da39a3ee5e : ctxt := ctxt_of [].
