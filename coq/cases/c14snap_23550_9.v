From Verif Require Import Base.Word256 C14.Venom C14.VenomCall.
From Coq Require Import ZArith List.
Import ListNotations.
Open Scope Z_scope.
Definition f_126e5a210c700403 : func := func_of 1%positive
  [(1%positive, [Inst [1%positive] O_calldataload [OLit 0x0];
    Inst [2%positive] O_calldataload [OLit 0x20];
    Inst [3%positive] O_and [OLit 0xfc0; OVar 2];
    Inst [4%positive] O_add [OLit 0x40; OVar 3];
    Inst [] O_istore [OVar 4; OVar 1];
    Inst [5%positive] O_add [OLit 0x20; OVar 4];
    Inst [6%positive] O_add [OLit 0x7; OVar 1];
    Inst [] O_istore [OVar 5; OVar 6];
    Inst [7%positive] O_iload [OVar 4];
    Inst [8%positive] O_iload [OVar 5];
    Inst [9%positive] O_add [OVar 7; OVar 8];
    Inst [10%positive] O_assign [OLit 0x0];
    Inst [] O_mstore [OVar 10; OVar 9];
    Inst [] O_return [OVar 10; OLit 0x20]])]
  [].
Definition f_338f4b95cbbaf7b3 : func := func_of 1%positive
  [(1%positive, [Inst [1%positive] O_calldataload [OLit 0x0];
    Inst [2%positive] O_calldataload [OLit 0x20];
    Inst [3%positive] O_and [OLit 0xfc0; OVar 2];
    Inst [4%positive] O_add [OLit 0x40; OVar 3];
    Inst [] O_istore [OVar 4; OVar 1];
    Inst [5%positive] O_add [OLit 0x20; OVar 4];
    Inst [6%positive] O_add [OLit 0x7; OVar 1];
    Inst [] O_istore [OVar 5; OVar 6];
    Inst [7%positive] O_iload [OVar 4];
    Inst [8%positive] O_iload [OVar 5];
    Inst [9%positive] O_add [OVar 7; OVar 8];
    Inst [10%positive] O_alloca [OLit 0x10001a00000000];
    Inst [11%positive] O_assign [OVar 9];
    Inst [] O_mstore [OVar 10; OVar 11];
    Inst [] O_return [OVar 10; OLit 0x20]])]
  [].
Definition f_b3bc74021315991d : func := func_of 1%positive
  [(1%positive, [Inst [12%positive] O_assign [OLit 0x0];
    Inst [1%positive] O_calldataload [OVar 12];
    Inst [13%positive] O_assign [OLit 0x20];
    Inst [2%positive] O_calldataload [OVar 13];
    Inst [14%positive] O_assign [OLit 0xfc0];
    Inst [3%positive] O_and [OVar 14; OVar 2];
    Inst [15%positive] O_assign [OLit 0x40];
    Inst [4%positive] O_add [OVar 15; OVar 3];
    Inst [16%positive] O_assign [OVar 4];
    Inst [17%positive] O_assign [OVar 1];
    Inst [] O_istore [OVar 16; OVar 17];
    Inst [18%positive] O_assign [OVar 4];
    Inst [19%positive] O_assign [OLit 0x20];
    Inst [5%positive] O_add [OVar 19; OVar 18];
    Inst [20%positive] O_assign [OVar 1];
    Inst [21%positive] O_assign [OLit 0x7];
    Inst [6%positive] O_add [OVar 21; OVar 20];
    Inst [22%positive] O_assign [OVar 5];
    Inst [] O_istore [OVar 22; OVar 6];
    Inst [23%positive] O_assign [OVar 4];
    Inst [7%positive] O_iload [OVar 23];
    Inst [24%positive] O_assign [OVar 5];
    Inst [8%positive] O_iload [OVar 24];
    Inst [9%positive] O_add [OVar 7; OVar 8];
    Inst [25%positive] O_assign [OLit 0x0];
    Inst [] O_mstore [OVar 25; OVar 9];
    Inst [26%positive] O_assign [OLit 0x20];
    Inst [27%positive] O_assign [OLit 0x0];
    Inst [] O_return [OVar 27; OVar 26]])]
  [].
Definition f_b48f6504cbd592bc : func := func_of 1%positive
  [(1%positive, [Inst [1%positive] O_calldataload [OLit 0x0];
    Inst [2%positive] O_calldataload [OLit 0x20];
    Inst [3%positive] O_and [OLit 0xfc0; OVar 2];
    Inst [4%positive] O_add [OLit 0x40; OVar 3];
    Inst [] O_istore [OVar 4; OVar 1];
    Inst [5%positive] O_add [OLit 0x20; OVar 4];
    Inst [6%positive] O_add [OLit 0x7; OVar 1];
    Inst [] O_istore [OVar 5; OVar 6];
    Inst [7%positive] O_iload [OVar 4];
    Inst [8%positive] O_iload [OVar 5];
    Inst [9%positive] O_add [OVar 7; OVar 8];
    Inst [10%positive] O_assign [OLit 0x0];
    Inst [] O_mstore [OLit 0x0; OVar 9];
    Inst [] O_return [OLit 0x0; OLit 0x20]])]
  [].
Definition f_b55ce7fd6b0bf1db : func := func_of 1%positive
  [(1%positive, [Inst [13%positive] O_assign [OLit 0x20];
    Inst [2%positive] O_calldataload [OVar 13];
    Inst [14%positive] O_assign [OLit 0xfc0];
    Inst [3%positive] O_and [OVar 14; OVar 2];
    Inst [15%positive] O_assign [OLit 0x40];
    Inst [4%positive] O_add [OVar 15; OVar 3];
    Inst [16%positive] O_assign [OVar 4];
    Inst [12%positive] O_assign [OLit 0x0];
    Inst [1%positive] O_calldataload [OVar 12];
    Inst [17%positive] O_assign [OVar 1];
    Inst [] O_istore [OVar 16; OVar 17];
    Inst [18%positive] O_assign [OVar 4];
    Inst [19%positive] O_assign [OLit 0x20];
    Inst [5%positive] O_add [OVar 19; OVar 18];
    Inst [22%positive] O_assign [OVar 5];
    Inst [20%positive] O_assign [OVar 1];
    Inst [21%positive] O_assign [OLit 0x7];
    Inst [6%positive] O_add [OVar 21; OVar 20];
    Inst [] O_istore [OVar 22; OVar 6];
    Inst [23%positive] O_assign [OVar 4];
    Inst [7%positive] O_iload [OVar 23];
    Inst [24%positive] O_assign [OVar 5];
    Inst [8%positive] O_iload [OVar 24];
    Inst [9%positive] O_add [OVar 7; OVar 8];
    Inst [25%positive] O_assign [OLit 0x0];
    Inst [] O_mstore [OVar 25; OVar 9];
    Inst [26%positive] O_assign [OLit 0x20];
    Inst [27%positive] O_assign [OLit 0x0];
    Inst [] O_return [OVar 27; OVar 26]])]
  [].
Definition f_b7de63f5e98a3359 : func := func_of 1%positive
  [(1%positive, [Inst [1%positive] O_calldataload [OLit 0x0];
    Inst [2%positive] O_calldataload [OLit 0x20];
    Inst [3%positive] O_and [OVar 2; OLit 0xfc0];
    Inst [4%positive] O_add [OLit 0x40; OVar 3];
    Inst [] O_istore [OVar 4; OVar 1];
    Inst [5%positive] O_add [OVar 4; OLit 0x20];
    Inst [6%positive] O_add [OVar 1; OLit 0x7];
    Inst [] O_istore [OVar 5; OVar 6];
    Inst [7%positive] O_iload [OVar 4];
    Inst [8%positive] O_iload [OVar 5];
    Inst [9%positive] O_add [OVar 7; OVar 8];
    Inst [10%positive] O_alloca [OLit 0x10001a00000000];
    Inst [11%positive] O_assign [OVar 9];
    Inst [] O_mstore [OVar 10; OVar 11];
    Inst [] O_return [OVar 10; OLit 0x20]])]
  [].
Definition f_b87532fa755543d3 : func := func_of 1%positive
  [(1%positive, [Inst [1%positive] O_calldataload [OLit 0x0];
    Inst [2%positive] O_calldataload [OLit 0x20];
    Inst [3%positive] O_and [OLit 0xfc0; OVar 2];
    Inst [4%positive] O_add [OLit 0x40; OVar 3];
    Inst [] O_istore [OVar 4; OVar 1];
    Inst [5%positive] O_add [OLit 0x20; OVar 4];
    Inst [6%positive] O_add [OLit 0x7; OVar 1];
    Inst [] O_istore [OVar 5; OVar 6];
    Inst [7%positive] O_iload [OVar 4];
    Inst [8%positive] O_iload [OVar 5];
    Inst [9%positive] O_add [OVar 7; OVar 8];
    Inst [10%positive] O_assign [OLit 0x0];
    Inst [] O_mstore [OVar 10; OVar 9];
    Inst [] O_return [OVar 10; OLit 0x20]])]
  [].
Definition f_e4c95d5d5f51a953 : func := func_of 1%positive
  [(1%positive, [Inst [1%positive] O_calldataload [OLit 0x0];
    Inst [2%positive] O_calldataload [OLit 0x20];
    Inst [3%positive] O_and [OLit 0xfc0; OVar 2];
    Inst [4%positive] O_add [OLit 0x40; OVar 3];
    Inst [] O_istore [OVar 4; OVar 1];
    Inst [5%positive] O_add [OLit 0x20; OVar 4];
    Inst [6%positive] O_add [OLit 0x7; OVar 1];
    Inst [] O_istore [OVar 5; OVar 6];
    Inst [7%positive] O_iload [OVar 4];
    Inst [8%positive] O_iload [OVar 5];
    Inst [9%positive] O_add [OVar 7; OVar 8];
    Inst [10%positive] O_alloca [OLit 0x10001a00000000];
    Inst [] O_mstore [OVar 10; OVar 9];
    Inst [] O_return [OVar 10; OLit 0x20]])]
  [].
Definition f_e805c491e5b680b0 : func := func_of 1%positive
  [(1%positive, [Inst [1%positive] O_calldataload [OLit 0x0];
    Inst [2%positive] O_calldataload [OLit 0x20];
    Inst [3%positive] O_and [OVar 2; OLit 0xfc0];
    Inst [4%positive] O_add [OLit 0x40; OVar 3];
    Inst [] O_istore [OVar 4; OVar 1];
    Inst [5%positive] O_add [OVar 4; OLit 0x20];
    Inst [6%positive] O_add [OVar 1; OLit 0x7];
    Inst [] O_istore [OVar 5; OVar 6];
    Inst [7%positive] O_iload [OVar 4];
    Inst [8%positive] O_iload [OVar 5];
    Inst [9%positive] O_add [OVar 7; OVar 8];
    Inst [10%positive] O_alloca [OLit 0x10001a00000000];
    Inst [] O_mstore [OVar 10; OVar 9];
    Inst [] O_return [OVar 10; OLit 0x20]])]
  [].
Definition C_da39a3ee5e : ctxt := ctxt_of [].
