(* C14S: VenomCompiler._emit_input_operands.  For ANY stack map and operand list (labels, literals, variables on the
   stack at any depth or spilled; distinct variables) the procedure succeeds and appends to the stack map, operand by
   operand and in order: the label / literal itself; for a variable: one copy if it had to be restored from its spill
   slot and one (more) copy (DUP, spill-assisted beyond 16) if it stays live after the instruction.  A variable that
   is on the stack and dies at the instruction emits nothing (the reorder that follows consumes it in place).  The
   emitted code realises the new map, restored operands leave the spilled dict, every other spilled word is preserved. *)
From Coq Require Import ZArith List Bool Lia.
From Verif Require Import Base.PyInt C14S.PyList C14S.StackSpec C14S.StackSpecProofs C14S.Spill C14S.SpillProofs C14S.SpillInv
  C14S.ReorderProofs C14S.ReorderFull.
Import ListNotations.
Open Scope Z_scope.

Definition is_spilled (d : spilled) (op : Z) : bool := negb (opt_is_none (sp_lookup d op)).
Fixpoint emitted (ops live : list Z) (d : spilled) : list Z :=
  match ops with
  | [] => []
  | op :: r =>
    (if is_label op || is_lit op then [op]
     else (if is_spilled d op then [op] else []) ++ (if py_in op live then [op] else [])) ++ emitted r live d
  end.

Lemma label_not_var : forall x, is_label x = true -> is_var x = false.
Proof. intros x H. unfold is_label, is_var in *. apply Z.eqb_eq in H. apply Z.eqb_neq. lia. Qed.
Lemma lit_not_var : forall x, is_lit x = true -> is_var x = false.
Proof. intros x H. unfold is_lit, is_var in *. apply Z.eqb_eq in H. apply Z.eqb_neq. lia. Qed.
Lemma var_not_label_lit : forall x, is_var x = true -> is_label x = false /\ is_lit x = false.
Proof. intros x H. unfold is_lit, is_label, is_var in *. apply Z.eqb_eq in H. split; apply Z.eqb_neq; lia. Qed.

Lemma mem_ok_subset : forall mm d d', (forall p, In p d' -> In p d) -> mem_ok mm d -> mem_ok mm d'.
Proof. intros mm d d' H M x o Hin. apply M. apply H. exact Hin. Qed.

Lemma view_push : forall m x, view (m ++ [x]) = x :: view m.
Proof. intros. unfold view. rewrite rev_app_distr. reflexivity. Qed.

Lemma lookup_remove_same : forall d op, NoDup (map fst d) -> sp_lookup (sp_remove d op) op = None.
Proof.
  induction d as [|[y o] r IH]; intros op K; [reflexivity|]. simpl in *. inversion K; subst.
  destruct (Z.eqb_spec y op).
  - subst. destruct (sp_lookup r op) eqn:Lr; [|reflexivity]. exfalso. apply H1.
    apply lookup_in in Lr. apply (in_map fst) in Lr. exact Lr.
  - simpl. destruct (Z.eqb_spec y op); [contradiction|]. apply IH. assumption.
Qed.

(* the DUP of an operand that stays live *)
Lemma dup_if_live : forall op live a m s d,
  live_inv s d -> In op m ->
  exists new s',
    (if py_in op live then
       match spec_get_depth m op with
       | None => Err AssertFail
       | Some dp => match sp_dup false dp a m s with Ok (a2, m2, s2, _) => Ok (a2, m2, s2) | Err e => Err e end
       end
     else Ok (a, m, s)) = Ok (a ++ new, m ++ (if py_in op live then [op] else []), s') /\
    forallb depth_ok new = true /\ live_inv s' d /\
    forall mm, mem_ok mm d -> exists mm',
      run new (view m, mm) = Some (view (m ++ (if py_in op live then [op] else [])), mm') /\ mem_ok mm' d.
Proof.
  intros op live a m s d L Hin. destruct (py_in op live).
  - destruct (spec_get_depth m op) as [dp|] eqn:G.
    + destruct (proj1 (get_depth_spec m op) dp G) as [V [Pk _]].
      destruct (spill_dup_correct_thm dp a m s (proj1 L) V) as [new [s' [c [E [D [I [Mn [F R]]]]]]]].
      rewrite E. exists new, s'. unfold st_dup. rewrite Pk. split; [reflexivity|]. split; [exact D|].
      split; [exact (dup_keeps_live_thm dp a m s d _ _ _ _ L V E)|].
      intros mm Hm. destruct (R mm) as [mm' [R1 R2]]. exists mm'. unfold st_dup in R1. rewrite Pk in R1. split; [exact R1|].
      intros x o Hxo. destruct L as [_ [_ [_ Lo]]].
      destruct (Lo o) as [Lo1 Lo2]; [apply in_map_iff; exists (x, o); split; auto|]. rewrite R2 by assumption. apply Hm. exact Hxo.
    + exfalso. apply (proj2 (get_depth_spec m op)) in G. contradiction.
  - exists [], s. rewrite !app_nil_r. split; [reflexivity|]. split; [reflexivity|]. split; [exact L|].
    intros mm Hm. exists mm. split; [reflexivity|exact Hm].
Qed.

Lemma emitted_ext : forall ops live d d',
  (forall x, In x ops -> is_var x = true -> sp_lookup d' x = sp_lookup d x) ->
  (forall x, In x ops -> is_label x = true \/ is_lit x = true \/ is_var x = true) ->
  emitted ops live d' = emitted ops live d.
Proof.
  induction ops as [|op r IH]; intros live d d' H T; [reflexivity|]. simpl.
  rewrite (IH live d d'); [|intros x Hx Hv; apply H; [right; exact Hx|exact Hv]|intros x Hx; apply T; right; exact Hx]. f_equal.
  destruct (T op (or_introl eq_refl)) as [Hl|[Hl|Hv]].
  - rewrite Hl. reflexivity.
  - rewrite Hl, orb_true_r. reflexivity.
  - unfold is_spilled. rewrite (H op (or_introl eq_refl) Hv). reflexivity.
Qed.

Theorem emit_inputs_correct_gen : forall ops live seen a m s d,
  live_inv s d ->
  NoDup (filter is_var ops) ->
  (forall x, In x ops -> is_var x = true -> ~ In x seen) ->
  (forall x, In x ops -> is_label x = true \/ is_lit x = true \/ is_var x = true) ->
  (forall x, In x ops -> is_var x = true -> In x m \/ sp_lookup d x <> None) ->
  exists new s' d',
    emit_inputs_r false ops live seen a m s d = Ok (a ++ new, m ++ emitted ops live d, s', d') /\
    forallb depth_ok new = true /\ live_inv s' d' /\
    (forall p, In p d' -> In p d) /\
    (forall x, In x ops -> is_var x = true -> sp_lookup d' x = None) /\
    (forall x, ~ In x ops -> sp_lookup d' x = sp_lookup d x) /\
    forall mm, mem_ok mm d -> exists mm',
      run new (view m, mm) = Some (view (m ++ emitted ops live d), mm') /\ mem_ok mm' d'.
Proof.
  induction ops as [|op r IH]; intros live seen a m s d L Nd Hs T Hav.
  - exists [], s, d. simpl. rewrite !app_nil_r. split; [reflexivity|]. split; [reflexivity|]. split; [exact L|].
    split; [auto|]. split; [intros x []|]. split; [auto|]. intros mm Hm. exists mm. split; [reflexivity|exact Hm].
  - assert (Tr : forall x, In x r -> is_label x = true \/ is_lit x = true \/ is_var x = true) by (intros; apply T; right; assumption).
    destruct (T op (or_introl eq_refl)) as [Hl|[Hl|Hv]].
    + (* label *)
      simpl. rewrite (label_not_var op Hl), Hl. simpl orb. cbv iota.
      simpl in Nd. rewrite (label_not_var op Hl) in Nd.
      destruct (IH live seen (a ++ [APushLabel op]) (st_push m op) s d L Nd) as [new [s' [d' [E [D [L' [Sub [Gone [Keep R]]]]]]]]].
      { intros x Hx Hxv. apply Hs; [right; exact Hx|exact Hxv]. }
      { exact Tr. }
      { intros x Hx Hxv. destruct (Hav x (or_intror Hx) Hxv) as [H|H]; [left; unfold st_push; apply in_or_app; left; exact H|right; exact H]. }
      exists ([APushLabel op] ++ new), s', d'. unfold st_push in *. rewrite <- !app_assoc in *. simpl in *.
      split; [exact E|]. split; [exact D|]. split; [exact L'|]. split; [exact Sub|].
      split; [intros x [Ex|Hx] Hxv; [subst; rewrite (label_not_var _ Hl) in Hxv; discriminate|apply Gone; assumption]|].
      split; [intros x Hx; apply Keep; intro; apply Hx; right; assumption|].
      intros mm Hm. destruct (R mm Hm) as [mm' [R1 R2]]. exists mm'. split; [|exact R2].
      rewrite view_push in R1. exact R1.
    + (* literal *)
      simpl. rewrite (lit_not_var op Hl), Hl. rewrite orb_true_r.
      destruct (is_label op) eqn:Hlab.
      { exfalso. unfold is_label, is_lit in *. apply Z.eqb_eq in Hlab. apply Z.eqb_eq in Hl. lia. }
      simpl in Nd. rewrite (lit_not_var op Hl) in Nd.
      destruct (IH live seen (a ++ [APush op]) (st_push m op) s d L Nd) as [new [s' [d' [E [D [L' [Sub [Gone [Keep R]]]]]]]]].
      { intros x Hx Hxv. apply Hs; [right; exact Hx|exact Hxv]. }
      { exact Tr. }
      { intros x Hx Hxv. destruct (Hav x (or_intror Hx) Hxv) as [H|H]; [left; unfold st_push; apply in_or_app; left; exact H|right; exact H]. }
      exists ([APush op] ++ new), s', d'. unfold st_push in *. rewrite <- !app_assoc in *. simpl in *.
      split; [exact E|]. split; [exact D|]. split; [exact L'|]. split; [exact Sub|].
      split; [intros x [Ex|Hx] Hxv; [subst; rewrite (lit_not_var _ Hl) in Hxv; discriminate|apply Gone; assumption]|].
      split; [intros x Hx; apply Keep; intro; apply Hx; right; assumption|].
      intros mm Hm. destruct (R mm Hm) as [mm' [R1 R2]]. exists mm'. split; [|exact R2].
      rewrite view_push in R1. exact R1.
    + (* variable *)
      destruct (var_not_label_lit op Hv) as [Nl Nt].
      simpl in Nd. rewrite Hv in Nd. inversion Nd as [|? ? Nop Ndr]; subst.
      assert (Hne : forall x, In x r -> is_var x = true -> x <> op).
      { intros x Hx Hxv Ex. subst. apply Nop. apply filter_In. split; assumption. }
      assert (Hseen : py_in op seen = false).
      { destruct (py_in op seen) eqn:P; [|reflexivity]. exfalso. apply (Hs op (or_introl eq_refl) Hv).
        unfold py_in in P. apply existsb_exists in P. destruct P as [y [Hy Ey]]. apply Z.eqb_eq in Ey. subst. exact Hy. }
      (* phase 1: restore if spilled *)
      assert (Ph1 : exists new1 s1 d1,
                (match sp_lookup d op with Some _ => restore_spilled false op a m s d | None => Ok (a, m, s, d) end) =
                  Ok (a ++ new1, m ++ (if is_spilled d op then [op] else []), s1, d1) /\
                forallb depth_ok new1 = true /\ live_inv s1 d1 /\ (forall p, In p d1 -> In p d) /\
                sp_lookup d1 op = None /\ (forall x, x <> op -> sp_lookup d1 x = sp_lookup d x) /\
                In op (m ++ (if is_spilled d op then [op] else [])) /\
                forall mm, mem_ok mm d -> exists mm',
                  run new1 (view m, mm) = Some (view (m ++ (if is_spilled d op then [op] else [])), mm') /\ mem_ok mm' d1).
      { unfold is_spilled. destruct (sp_lookup d op) as [off|] eqn:Lk; simpl.
        - destruct (restore_spilled false op a m s d) as [[[[a1 m1] s1] d1]|e] eqn:Rs;
            [|unfold restore_spilled in Rs; rewrite Lk in Rs; discriminate].
          destruct (restore_reads_slot_thm _ _ _ _ _ _ _ _ _ _ Lk Rs) as [Ea [Em Rr]].
          destruct (restore_spilled_eq _ _ _ _ _ _ _ _ _ Rs) as [off' [Lk' [Es Ed]]].
          exists [APush off; AMload], s1, d1. subst a1 m1. unfold st_push. split; [reflexivity|]. split; [reflexivity|].
          split; [exact (restore_keeps_live_thm _ _ _ _ _ _ _ _ _ L Rs)|].
          split; [intros p Hp; subst d1; exact (remove_subset d op p Hp)|].
          split.
          { subst d1. destruct L as [_ [K _]]. apply lookup_remove_same. exact K. }
          split; [intros x Hx; subst d1; apply lookup_remove_other; exact Hx|].
          split; [apply in_or_app; right; left; reflexivity|].
          intros mm Hm. exists mm. rewrite Rr. rewrite view_push. rewrite (Hm op off (lookup_in d op off Lk)).
          split; [reflexivity|]. eapply mem_ok_subset; [|exact Hm]. intros p Hp. subst d1. exact (remove_subset d op p Hp).
        - exists [], s, d. rewrite !app_nil_r. split; [reflexivity|]. split; [reflexivity|]. split; [exact L|].
          split; [auto|]. split; [exact Lk|]. split; [auto|].
          split; [destruct (Hav op (or_introl eq_refl) Hv) as [H|H]; [exact H|congruence]|].
          intros mm Hm. exists mm. split; [reflexivity|exact Hm]. }
      destruct Ph1 as [new1 [s1 [d1 [E1 [D1 [L1 [Sub1 [Gone1 [Keep1 [In1 R1]]]]]]]]]].
      set (m1 := m ++ (if is_spilled d op then [op] else [])) in *.
      destruct (dup_if_live op live (a ++ new1) m1 s1 d1 L1 In1) as [new2 [s2 [E2 [D2 [L2 R2]]]]].
      set (m2 := m1 ++ (if py_in op live then [op] else [])) in *.
      destruct (IH live (op :: seen) ((a ++ new1) ++ new2) m2 s2 d1 L2 Ndr) as [new3 [s3 [d3 [E3 [D3 [L3 [Sub3 [Gone3 [Keep3 R3]]]]]]]]].
      { intros x Hx Hxv [Ex|Hi]; [exact (Hne x Hx Hxv (eq_sym Ex))|exact (Hs x (or_intror Hx) Hxv Hi)]. }
      { exact Tr. }
      { intros x Hx Hxv. destruct (Hav x (or_intror Hx) Hxv) as [H|H].
        - left. unfold m2, m1. apply in_or_app. left. apply in_or_app. left. exact H.
        - right. rewrite (Keep1 x (Hne x Hx Hxv)). exact H. }
      exists (new1 ++ new2 ++ new3), s3, d3.
      assert (Eem : emitted r live d1 = emitted r live d).
      { apply emitted_ext; [|exact Tr]. intros x Hx Hxv. apply Keep1. exact (Hne x Hx Hxv). }
      split.
      { simpl. rewrite Hv. rewrite E1. rewrite Nl, Nt. simpl orb. cbv iota.
        rewrite E2. rewrite Hseen. rewrite E3. rewrite Eem. unfold m2, m1. rewrite <- !app_assoc. reflexivity. }
      split; [rewrite !forallb_app, D1, D2, D3; reflexivity|]. split; [exact L3|].
      split; [intros p Hp; apply Sub1, Sub3; exact Hp|].
      split.
      { intros x [Ex|Hx] Hxv; [|apply Gone3; assumption]. subst x.
        destruct (in_dec Z.eq_dec op r) as [Hr|Hr]; [apply Gone3; assumption|]. rewrite (Keep3 op Hr). exact Gone1. }
      split.
      { intros x Hx. rewrite Keep3 by (intro; apply Hx; right; assumption). apply Keep1. intro; subst. apply Hx. left. reflexivity. }
      intros mm Hm. destruct (R1 mm Hm) as [mm1 [Ra Rb]]. destruct (R2 mm1 Rb) as [mm2 [Rc Rd]]. destruct (R3 mm2 Rd) as [mm3 [Re Rf]].
      exists mm3. split; [|exact Rf].
      rewrite run_app, Ra. rewrite run_app, Rc. rewrite Eem in Re. simpl emitted. rewrite Nl, Nt. simpl orb. cbv iota.
      unfold m2, m1 in *. rewrite <- !app_assoc in *. exact Re.
Qed.

Theorem emit_inputs_correct_thm : forall ops live a m s d,
  live_inv s d ->
  NoDup (filter is_var ops) ->
  (forall x, In x ops -> is_label x = true \/ is_lit x = true \/ is_var x = true) ->
  (forall x, In x ops -> is_var x = true -> In x m \/ sp_lookup d x <> None) ->
  exists new s' d',
    emit_inputs false ops live a m s d = Ok (a ++ new, m ++ emitted ops live d, s', d') /\
    forallb depth_ok new = true /\ live_inv s' d' /\
    (forall p, In p d' -> In p d) /\
    (forall x, In x ops -> is_var x = true -> sp_lookup d' x = None) /\
    (forall x, ~ In x ops -> sp_lookup d' x = sp_lookup d x) /\
    forall mm, mem_ok mm d -> exists mm',
      run new (view m, mm) = Some (view (m ++ emitted ops live d), mm') /\ mem_ok mm' d'.
Proof.
  intros ops live a m s d L Nd T Hav. unfold emit_inputs.
  apply emit_inputs_correct_gen; auto.
Qed.
