(* C14S: spill regions of different functions never alias each other nor any static frame.
   Background (defect c14s:spill-region-aliases-caller-frame): the cursor used to start at fn_eom[fn], which covers only
   fn's own allocas and its callees'; a spilling callee overwrote its caller's frame (memory-passed arguments, locals
   live across the invoke).  With the rule modelled by Spill.start_fn the regions are disjoint for ANY sequence of
   functions and ANY sequence of slot requests / releases inside each of them. *)
From Coq Require Import ZArith List Bool Lia.
From Verif Require Import Base.PyInt C14S.PyList C14S.StackSpec C14S.Spill.
Import ListNotations.
Open Scope Z_scope.

Lemma max_eom_ge : forall eoms e, In e eoms -> e <= max_eom eoms.
Proof.
  induction eoms as [|x r IH]; intros e H; simpl in *; [tauto|].
  destruct H as [H|H]; [subst; lia|]. specialize (IH e H). lia.
Qed.

Definition finv (lo : Z) (s : sp) (used : list Z) : Prop :=
  lo <= sp_next s /\ forall o, In o (sp_free s) \/ In o used -> lo <= o /\ o + 32 <= sp_peak s.

Lemma subset_b_spec : forall xs ys, subset_b xs ys = true -> forall x, In x xs -> In x ys.
Proof.
  intros xs ys H x Hx. unfold subset_b in H. rewrite forallb_forall in H. specialize (H x Hx).
  rewrite existsb_exists in H. destruct H as [y [Hy E]]. apply Z.eqb_eq in E. subst. exact Hy.
Qed.

Lemma run_ops_inv : forall ops lo s used s' used',
  finv lo s used -> run_ops ops s used = Some (s', used') ->
  finv lo s' used' /\ sp_peak s <= sp_peak s'.
Proof.
  induction ops as [|op r IH]; intros lo s used s' used' Hi H; simpl in H.
  - inversion H; subst. split; [exact Hi|lia].
  - destruct op as [|offs].
    + destruct (get_slot false s) as [s1 o] eqn:G.
      assert (Hi1 : finv lo s1 (o :: used) /\ sp_peak s <= sp_peak s1).
      { destruct Hi as [Hlo Hb]. unfold get_slot in G. destruct (sp_free s) as [|x fr] eqn:E.
        - inversion G; subst; clear G. unfold finv; simpl. split; [split; [lia|]|lia].
          intros o [[]|[Ho|Ho]].
          + subst. lia.
          + destruct (Hb o (or_intror Ho)). lia.
        - inversion G; subst; clear G. unfold finv; simpl. split; [split; [exact Hlo|]|lia].
          intros o' [Ho|[Ho|Ho]].
          + apply Hb. left. right. exact Ho.
          + subst. apply Hb. left. left. reflexivity.
          + apply Hb. right. exact Ho. }
      destruct Hi1 as [Hi1 Hp1]. destruct (IH _ _ _ _ _ Hi1 H) as [Hi2 Hp2]. split; [exact Hi2|lia].
    + destruct (subset_b offs used) eqn:Sb; [|discriminate].
      assert (Hi1 : finv lo (free_slots false s offs) used).
      { destruct Hi as [Hlo Hb]. unfold finv, free_slots; simpl. split; [exact Hlo|].
        intros o [Ho|Ho].
        - apply in_app_or in Ho. destruct Ho as [Ho|Ho].
          + rewrite <- in_rev in Ho. apply Hb. right. exact (subset_b_spec _ _ Sb o Ho).
          + apply Hb. left. exact Ho.
        - apply Hb. right. exact Ho. }
      destruct (IH _ _ _ _ _ Hi1 H) as [Hi2 Hp2]. split; [exact Hi2|]. unfold free_slots in Hp2. simpl in Hp2. exact Hp2.
Qed.

Lemma run_fns_regions : forall eoms fns s us,
  run_fns eoms fns s = Some us ->
  (forall u o, In u us -> In o u -> Z.max (max_eom eoms) (sp_peak s) <= o) /\ regions_ordered us.
Proof.
  induction fns as [|ops r IH]; intros s us H; simpl in H.
  - inversion H; subst. split; [intros u o []|exact I].
  - destruct (run_ops ops (start_fn eoms s) []) as [[s1 used]|] eqn:R; [|discriminate].
    destruct (run_fns eoms r s1) as [us1|] eqn:F; [|discriminate]. inversion H; subst; clear H.
    assert (Hi0 : finv (Z.max (max_eom eoms) (sp_peak s)) (start_fn eoms s) []).
    { unfold finv, start_fn; simpl. split; [lia|]. intros o [[]|[]]. }
    destruct (run_ops_inv _ _ _ _ _ _ Hi0 R) as [[Hlo Hb] Hp]. simpl in Hp.
    destruct (IH _ _ F) as [Hge Hord].
    split.
    + intros u o [Hu|Hu] Ho.
      * subst. apply Hb. right. exact Ho.
      * specialize (Hge u o Hu Ho). lia.
    + simpl. split; [|exact Hord].
      intros o o' Ho Ho'. apply in_concat in Ho'. destruct Ho' as [u [Hu Hou]].
      specialize (Hge u o' Hu Hou). destruct (Hb o (or_intror Ho)). lia.
Qed.

(* every slot of every function is at or above the end of EVERY function's static frame, and the regions of
   different functions are disjoint (ordered), whatever the functions do with the spiller *)
Theorem spill_regions_disjoint_across_calls_thm : forall eoms fns s us,
  run_fns eoms fns s = Some us ->
  (forall u o e, In u us -> In o u -> In e eoms -> e <= o) /\ regions_ordered us.
Proof.
  intros eoms fns s us H. destruct (run_fns_regions _ _ _ _ H) as [Hge Hord]. split; [|exact Hord].
  intros u o e Hu Ho He. specialize (Hge u o Hu Ho). pose proof (max_eom_ge _ _ He). lia.
Qed.
