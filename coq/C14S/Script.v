(* C14S harness: a command interpreter over the Spill.v model, so that seeded operation sequences can be run
   both on the real classes and (vm_compute) on the model.  No theorems. *)
From Coq Require Import ZArith List Bool.
From Verif Require Import Base.PyInt C14S.PyList C14S.StackSpec C14S.Spill.
Import ListNotations.
Open Scope Z_scope.

Inductive cmd :=
| CSwap (d : Z) | CDup (d : Z) | CSpill (d : Z) | CRestore (op : Z) | CRelease (live : list Z)
| CReorder (dry : bool) (ops : list Z) | CPop (n : Z) | CPush (x : Z) | CSwapOp (x : Z) | CDupOp (x : Z)
| CEmit (invoke : bool) (ops live : list Z) | CPopMany (xs : list Z)
| CClean (layout inputs : list Z) (bound promise : option Z) | CStartFn (eoms : list Z)
| CInst (kind code : Z) (ops outs live : list Z) (next_term skip_pops : bool).

Record world := mkW { w_a : list ainstr; w_m : list Z; w_s : sp; w_d : spilled; w_costs : list Z }.

Definition rep_of (classes : list (Z * Z)) (x : Z) : Z :=
  match sp_lookup classes x with Some r => r | None => x end.
Definition equiv_of (classes : list (Z * Z)) (x y : Z) : bool :=
  (x =? y) || (is_var x && is_var y && (rep_of classes x =? rep_of classes y)).

Definition run_cmd (classes : list (Z * Z)) (c : cmd) (w : world) : res world :=
  let '(mkW a m s d costs) := w in
  match c with
  | CSwap dp => match sp_swap false dp a m s with Ok (a', m', s', c') => Ok (mkW a' m' s' d (costs ++ [c'])) | Err e => Err e end
  | CDup dp => match sp_dup false dp a m s with Ok (a', m', s', c') => Ok (mkW a' m' s' d (costs ++ [c'])) | Err e => Err e end
  | CSpill dp => match spill_operand false dp a m s d with Ok (a', m', s', d') => Ok (mkW a' m' s' d' costs) | Err e => Err e end
  | CRestore op => match restore_spilled false op a m s d with Ok (a', m', s', d') => Ok (mkW a' m' s' d' costs) | Err e => Err e end
  | CRelease live => let '(s', d') := release_dead live s d in Ok (mkW a m s' d' costs)
  | CReorder dry ops =>
    match stack_reorder (equiv_of classes) dry ops (if dry then [] else a) m s d with
    | Ok (a', m', s', d', c') => if dry then Ok (mkW a m s d (costs ++ [c'])) else Ok (mkW a' m' s' d' (costs ++ [c']))
    | Err e => Err e
    end
  | CPop n => if (0 <=? n) && (n <=? zlen m) then Ok (mkW (a ++ repeat APop (Z.to_nat n)) (st_pop m n) s d costs) else Err BadIndex
  | CPush x => Ok (mkW (a ++ [APush x]) (st_push m x) s d costs)
  | CStartFn eoms => Ok (mkW a m (start_fn eoms s) [] costs)
  | CSwapOp x => match spec_get_depth m x with
                 | None => Err AssertFail
                 | Some dp => match sp_swap false dp a m s with Ok (a', m', s', c') => Ok (mkW a' m' s' d (costs ++ [c'])) | Err e => Err e end
                 end
  | CEmit inv ops live => match emit_inputs inv ops live a m s d with Ok (a', m', s', d') => Ok (mkW a' m' s' d' costs) | Err e => Err e end
  | CInst kind code ops outs live nt sk =>
    match gen_inst (equiv_of classes) kind code ops outs live nt sk a m s d with Ok (a', m', s', d') => Ok (mkW a' m' s' d' costs) | Err e => Err e end
  | CClean layout inputs bound promise =>
    match clean_from_cfg_in layout inputs bound promise a m s with
    | Ok (a', m', s', b') => Ok (mkW a' m' s' d (costs ++ [match b' with Some b => b | None => -1 end])) | Err e => Err e end
  | CPopMany xs => match popmany xs a m s with Ok (a', m', s') => Ok (mkW a' m' s' d costs) | Err e => Err e end
  | CDupOp x => match spec_get_depth m x with
                | None => Err AssertFail
                | Some dp => match sp_dup false dp a m s with Ok (a', m', s', c') => Ok (mkW a' m' s' d costs) | Err e => Err e end
                end
  end.
Fixpoint run_cmds (classes : list (Z * Z)) (cs : list cmd) (w : world) (n : Z) : (Z * res world) :=
  match cs with
  | [] => (n, Ok w)
  | c :: r => match run_cmd classes c w with Ok w' => run_cmds classes r w' (n + 1) | Err e => (n, Err e) end
  end.

Definition sect (l : list Z) : list Z := zlen l :: l.
(* [1; sections...] or [0; index of the failing command; error code] *)
Definition observe (classes : list (Z * Z)) (cs : list cmd) (m0 : list Z) (next : Z) : list Z :=
  match run_cmds classes cs (mkW [] m0 (mkSp [] next 0) [] []) 0 with
  | (_, Ok w) => 1 :: sect (flat_map enc_instr (w_a w)) ++ sect (w_m w) ++ sect (sp_free (w_s w)) ++
                 [sp_next (w_s w); sp_peak (w_s w)] ++ sect (flat_map (fun p => [fst p; snd p]) (w_d w)) ++ sect (w_costs w) ++
                 (* executing the emitted assembly from the initial stack gives the final stack map *)
                 [match run (w_a w) (view m0, fun _ => 0) with
                  | Some (s', _) => (* up to the DFG equivalence used by the "virtual swap" of _stack_reorder *)
                    (* ... and up to retained dead slots, whose physical content is arbitrary *)
                    if (length s' =? length (w_m w))%nat &&
                       forallb (fun p => is_dead (snd p) || (rep_of classes (fst p) =? rep_of classes (snd p))) (combine s' (view (w_m w))) then 1 else 0
                  | None => -1 end;
                  if forallb depth_ok (w_a w) then 1 else 0]
  | (n, Err e) => [0; n; err_code e]
  end.
