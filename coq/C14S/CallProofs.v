(* C14S: internal-call convention of the venom back end on the stack machine.
   caller (venom_to_assembly, `invoke`): arrange the non-label operands as the top of the stack (operands[-1] on top),
       PUSHLABEL return_label; PUSHLABEL target; JUMP; return_label:
   callee entry (_prepare_stack_for_function): the stack map is the `param` outputs in instruction order, the
       return-pc param last (on top);  `ret`: arrange (values ..., return_pc) with return_pc on top; JUMP.
   Frame rule: code that runs on a stack runs identically on any extension of it below (the callee cannot touch the
   caller's frame).  invoke_ret_correct composes caller arrangement (stack_reorder_full), frame rule and the
   callee's own correctness. *)
From Coq Require Import ZArith List Bool Lia.
From Verif Require Import Base.PyInt C14S.PyList C14S.StackSpec C14S.StackSpecProofs C14S.Spill C14S.SpillProofs C14S.SpillInv
  C14S.ReorderProofs C14S.ReorderFull.
Import ListNotations.
Open Scope Z_scope.

(* ---------- frame rule ---------- *)
Lemma set_nth_app_keep : forall (s below : list Z) n v, (n < length s)%nat -> set_nth (s ++ below) n v = set_nth s n v ++ below.
Proof. intros. apply set_nth_app_l. assumption. Qed.

Lemma step_frame : forall i s mm s' mm' below,
  step i (s, mm) = Some (s', mm') -> step i (s ++ below, mm) = Some (s' ++ below, mm').
Proof.
  intros i s mm s' mm' below H. destruct i; simpl in *.
  - inversion H; subst. reflexivity.
  - destruct s as [|o [|v r]]; try discriminate. inversion H; subst. reflexivity.
  - destruct s as [|o r]; try discriminate. inversion H; subst. reflexivity.
  - (* swap *)
    unfold evm_swap in *.
    destruct ((1 <=? n) && (n <=? 16) && (n <? zlen s)) eqn:G; [|discriminate].
    apply andb_prop in G. destruct G as [G12 G3]. apply Z.ltb_lt in G3.
    apply andb_prop in G12. destruct G12 as [G1 G2]. apply Z.leb_le in G1. apply Z.leb_le in G2.
    assert (Hl : (Z.to_nat n < length s)%nat) by (unfold zlen in G3; lia).
    assert (G' : (1 <=? n) && (n <=? 16) && (n <? zlen (s ++ below)) = true).
    { rewrite !andb_true_iff. repeat split; [apply Z.leb_le; lia|apply Z.leb_le; lia|].
      apply Z.ltb_lt. unfold zlen in *. rewrite app_length. lia. }
    rewrite G'. inversion H; subst. f_equal. f_equal.
    assert (H0 : (0 < length s)%nat) by lia.
    rewrite !app_nth1 by lia.
    rewrite set_nth_app_keep by lia. rewrite set_nth_app_keep by (rewrite length_set_nth; lia). reflexivity.
  - (* dup *)
    unfold evm_dup in *.
    destruct ((1 <=? n) && (n <=? 16) && (n <=? zlen s)) eqn:G; [|discriminate].
    apply andb_prop in G. destruct G as [G12 G3]. apply Z.leb_le in G3.
    apply andb_prop in G12. destruct G12 as [G1 G2]. apply Z.leb_le in G1. apply Z.leb_le in G2.
    assert (G' : (1 <=? n) && (n <=? 16) && (n <=? zlen (s ++ below)) = true).
    { rewrite !andb_true_iff. repeat split; [apply Z.leb_le; lia|apply Z.leb_le; lia|].
      apply Z.leb_le. unfold zlen in *. rewrite app_length. lia. }
    rewrite G'. inversion H; subst. rewrite app_nth1 by (unfold zlen in G3; lia). reflexivity.
  - destruct s; try discriminate. inversion H; subst. reflexivity.
  - inversion H; subst. reflexivity.
  - destruct s; try discriminate. inversion H; subst. reflexivity.
  - inversion H; subst. reflexivity.
  - discriminate.
Qed.

Theorem run_frame_thm : forall code s mm s' mm' below,
  run code (s, mm) = Some (s', mm') -> run code (s ++ below, mm) = Some (s' ++ below, mm').
Proof.
  induction code as [|i r IH]; intros s mm s' mm' below H; cbn [run] in *.
  - inversion H; subst. reflexivity.
  - destruct (step i (s, mm)) as [[s1 mm1]|] eqn:E; [|discriminate].
    rewrite (step_frame _ _ _ _ _ below E). apply IH. exact H.
Qed.

(* ---------- the call protocol ---------- *)
(* JUMP to the address on top of the stack: defined when the top is the expected label; pops it *)
Definition jump_to (lbl : Z) (s : list Z) : option (list Z) :=
  match s with x :: t => if x =? lbl then Some t else None | [] => None end.

(* what the stack map does for `invoke` (Step 4 of _generate_evm_for_instruction): pop the operands, push the outputs *)
Definition invoke_map (m : list Z) (nargs : nat) (outs : list Z) : list Z := st_pop m (Z.of_nat nargs) ++ outs.

Lemma view_app : forall a b : list Z, view (a ++ b) = view b ++ view a.
Proof. intros. unfold view. apply rev_app_distr. Qed.

Lemma split_top : forall (m ops : list Z), skipn (length m - length ops) m = ops -> (length ops <= length m)%nat ->
  m = st_pop m (zlen ops) ++ ops.
Proof.
  intros m ops H Hl. unfold st_pop.
  replace (Z.to_nat (zlen m - zlen ops)) with (length m - length ops)%nat by (unfold zlen; lia).
  rewrite <- H at 2. symmetry. apply firstn_skipn.
Qed.

(* invoke_ret_correct.
   Caller: stack map m, spiller s, spilled dict d; the call's arguments `args` (duplicate-free, each on the stack or
   spilled); RL = the return label.  Callee: any code `body` that is correct on its OWN frame: started on the stack map
   (args as params, in order, then the return pc) it ends on the stack map (rets ..., return pc) -- exactly that frame,
   nothing else.  Then: the emitted caller code, followed by PUSHLABEL RL, the callee code and the return JUMP,
   (1) binds the callee's i-th param to the caller's i-th argument value (the callee starts on args ++ [RL]),
   (2) leaves the caller's stack below the call frame unchanged,
   (3) delivers the return values in declared order: the caller's new stack map is (m' minus the args) ++ rets,
   (4) consumes the return pc exactly once (the JUMP pops RL; the machine stack after the call is the view of (3)). *)
Theorem invoke_ret_correct_thm : forall args a m s d RL rets body,
  args <> [] -> live_inv s d -> NoDup args ->
  (forall x, In x args -> In x m \/ sp_lookup d x <> None) ->
  (forall mm, exists mm', run body (view (args ++ [RL]), mm) = Some (view (rets ++ [RL]), mm')) ->
  exists new m' s' d' cost,
    stack_reorder Z.eqb false args a m s d = Ok (a ++ new, m', s', d', cost) /\
    (* the callee is entered on: its params = the arguments, in order, return pc on top, caller frame below *)
    (forall mm, mem_ok mm d -> exists mm1,
       run (new ++ [APushLabel RL]) (view m, mm) = Some (view (args ++ [RL]) ++ view (st_pop m' (zlen args)), mm1)) /\
    (* whole call *)
    (forall mm, mem_ok mm d -> exists mm2 s2,
       run (new ++ [APushLabel RL] ++ body) (view m, mm) = Some (s2, mm2) /\
       jump_to RL s2 = Some (view (invoke_map m' (length args) rets))) /\
    live_inv s' d' /\ forallb depth_ok new = true.
Proof.
  intros args a m s d RL rets body Hne L Hnd Hav Hbody.
  destruct (stack_reorder_full_thm args a m s d Hne L Hnd Hav) as [new [m' [s' [d' [cost [E [Sk [L' [D R]]]]]]]]].
  exists new, m', s', d', cost. split; [exact E|].
  assert (Hlen : (length args <= length m')%nat).
  { rewrite <- Sk at 1. rewrite skipn_length. lia. }
  pose proof (split_top m' args Sk Hlen) as Hm'.
  set (below := st_pop m' (zlen args)) in *.
  assert (Ventry : forall mm, mem_ok mm d -> exists mm1,
            run (new ++ [APushLabel RL]) (view m, mm) = Some (view (args ++ [RL]) ++ view below, mm1)).
  { intros mm Hm. destruct (R mm Hm) as [mm1 Q]. exists mm1. rewrite run_app, Q. cbn [run step].
    rewrite Hm' at 1. rewrite !view_app. rewrite <- app_assoc. reflexivity. }
  split; [exact Ventry|]. split; [|split; [exact L'|exact D]].
  intros mm Hm. destruct (Ventry mm Hm) as [mm1 Q1]. destruct (Hbody mm1) as [mm2 Q2].
  exists mm2, (view (rets ++ [RL]) ++ view below). split.
  - rewrite app_assoc, run_app, Q1. apply run_frame_thm. exact Q2.
  - rewrite view_app. cbn [view rev app]. unfold jump_to. simpl. rewrite Z.eqb_refl.
    unfold invoke_map. rewrite view_app. reflexivity.
Qed.
