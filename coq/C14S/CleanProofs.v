(* C14S: VenomCompiler.clean_stack_from_cfg_in (entry of a block whose single predecessor is a splitter).
   Invariant of the dead-prefix elision: every item that is not a _DeadStackItem is live at block entry, and the retained
   (dead) prefix is never above a live item.  clean_correct: for ANY incoming stack map that satisfies the invariant's
   input side (dead slots form a prefix; the other items are distinct members of the predecessor's output layout), ANY
   layout / inputs / stack height / height promise, the procedure succeeds (no CompilerPanic, no assertion) and
   establishes the invariant: dead prefix, every other item is a live-in, no live-in lost, and the emitted code realises
   the new map (dead slots may hold anything).  The dead-phi defect (ac6097c) violated exactly the input side: a dead phi
   output that is neither in the layout nor a _DeadStackItem. *)
From Coq Require Import ZArith List Bool Lia Permutation.
From Verif Require Import Base.PyInt C14S.PyList C14S.StackSpec C14S.StackSpecProofs C14S.Spill C14S.SpillProofs C14S.SpillInv
  C14S.ReorderProofs C14S.ReorderFull C14S.PopProofs.
Import ListNotations.
Open Scope Z_scope.

Definition alive (x : Z) : Prop := is_dead x = false.
Definition deads (k : nat) : list Z := repeat dead_item k.

Lemma is_dead_iff : forall x, is_dead x = true <-> x = dead_item.
Proof. intros. unfold is_dead. apply Z.eqb_eq. Qed.
Lemma alive_not_in_deads : forall x k, alive x -> ~ In x (deads k).
Proof. intros x k H Hin. apply repeat_spec in Hin. subst. unfold alive in H. simpl in H. discriminate. Qed.

Lemma prefix_true_alive : forall m, dead_prefix_ok m true = true -> forall x, In x m -> alive x.
Proof.
  induction m as [|y r IH]; intros H x Hx; [destruct Hx|]. simpl in H. destruct (is_dead y) eqn:D; [discriminate|].
  destruct Hx as [E|Hx]; [subst; exact D|apply IH; assumption].
Qed.
Lemma alive_prefix_true : forall m, (forall x, In x m -> alive x) -> dead_prefix_ok m true = true.
Proof.
  induction m as [|y r IH]; intros H; [reflexivity|]. simpl. rewrite (H y (or_introl eq_refl)).
  apply IH. intros x Hx. apply H. right. exact Hx.
Qed.
Lemma prefix_decompose : forall m, dead_prefix_ok m false = true ->
  exists k nd, m = deads k ++ nd /\ forall x, In x nd -> alive x.
Proof.
  induction m as [|y r IH]; intros H.
  - exists 0%nat, []. split; [reflexivity|intros x []].
  - simpl in H. destruct (is_dead y) eqn:D.
    + destruct (IH H) as [k [nd [E A]]]. exists (S k), nd. apply is_dead_iff in D. subst. split; [reflexivity|exact A].
    + exists 0%nat, (y :: r). split; [reflexivity|]. intros x [E|Hx]; [subst; exact D|].
      exact (prefix_true_alive r H x Hx).
Qed.
Lemma prefix_compose : forall k nd, (forall x, In x nd -> alive x) -> dead_prefix_ok (deads k ++ nd) false = true.
Proof.
  induction k as [|k IH]; intros nd H; simpl.
  - destruct nd as [|y r]; [reflexivity|]. simpl. rewrite (H y (or_introl eq_refl)).
    apply alive_prefix_true. intros x Hx. apply H. right. exact Hx.
  - apply IH. exact H.
Qed.

(* poking a unique operand *)
Lemma map_id_notin : forall (v : Z) l, ~ In v l -> map (fun x => if x =? v then dead_item else x) l = l.
Proof.
  induction l as [|y r IH]; intros H; [reflexivity|]. simpl. destruct (Z.eqb_spec y v).
  - exfalso. apply H. left. exact e.
  - f_equal. apply IH. intro. apply H. right. assumption.
Qed.
Lemma poke_unique : forall l1 v l2, ~ In v l2 ->
  exists dp, spec_get_depth (l1 ++ v :: l2) v = Some dp /\ st_poke (l1 ++ v :: l2) dp dead_item = l1 ++ dead_item :: l2.
Proof.
  intros l1 v l2 H2.
  destruct (depth_in_high l1 (v :: l2) v (or_introl eq_refl)) as [dp [G [V [Pq [Nq _]]]]].
  exists dp. split; [exact G|].
  assert (Hp : pos dp = length l2).
  { assert (Nv : nth (length l2) (view (v :: l2)) 0 = v).
    { unfold view. simpl. rewrite app_nth2 by (rewrite rev_length; lia). rewrite rev_length, Nat.sub_diag. reflexivity. }
    destruct (Nat.eq_dec (pos dp) (length l2)) as [E|E]; [exact E|]. exfalso.
    assert (Hlt : (pos dp < length l2)%nat) by (simpl in Pq; lia).
    apply H2. rewrite <- Nq. unfold view. simpl. rewrite app_nth1 by (rewrite rev_length; exact Hlt).
    apply in_rev. apply nth_In. rewrite rev_length. exact Hlt. }
  unfold st_poke. destruct (idx_lt _ _ V) as [_ Ei]. rewrite Ei, Hp, app_length. simpl.
  replace (length l1 + S (length l2) - 1 - length l2)%nat with (length l1 + 0)%nat by lia.
  rewrite set_nth_app_r by lia. replace (length l1 + 0 - length l1)%nat with 0%nat by lia. reflexivity.
Qed.

Definition aliveb (x : Z) : bool := negb (is_dead x).
Lemma aliveb_iff : forall x, aliveb x = true <-> alive x.
Proof. intros. unfold aliveb, alive. destruct (is_dead x); simpl; split; congruence. Qed.

Lemma all_dead_repeat : forall L, (forall x, In x L -> ~ alive x) -> L = deads (length L).
Proof.
  induction L as [|y r IH]; intros H; [reflexivity|].
  assert (D : is_dead y = true) by (destruct (is_dead y) eqn:D; [reflexivity|exfalso; apply (H y (or_introl eq_refl)); exact D]).
  apply is_dead_iff in D. subst y. simpl. unfold deads in *. simpl. f_equal.
  apply IH. intros x Hx. apply H. right. exact Hx.
Qed.

Lemma poke_dead_step : forall m v r, 
  fold_left (fun acc v => match acc with
                          | Err e => Err e
                          | Ok mm => match spec_get_depth mm v with
                                     | Some dp => Ok (st_poke mm dp dead_item)
                                     | None => Err AssertFail end
                          end) (v :: r) (Ok m) =
  match spec_get_depth m v with
  | Some dp => poke_dead (st_poke m dp dead_item) r
  | None => fold_left (fun acc v => match acc with
                          | Err e => Err e
                          | Ok mm => match spec_get_depth mm v with
                                     | Some dp => Ok (st_poke mm dp dead_item)
                                     | None => Err AssertFail end
                          end) r (Err AssertFail)
  end.
Proof. intros. simpl. destruct (spec_get_depth m v); reflexivity. Qed.

(* poking every alive item of the lower part turns it into dead slots *)
Lemma poke_dead_spec : forall vars L high,
  NoDup vars -> (forall v, In v vars -> alive v /\ ~ In v high /\ In v L) ->
  (forall x, In x L -> alive x -> In x vars) -> NoDup (filter aliveb L) ->
  poke_dead (L ++ high) vars = Ok (deads (length L) ++ high).
Proof.
  induction vars as [|v r IH]; intros L high Hn Hv Hall Hu.
  - unfold poke_dead. simpl. rewrite <- (all_dead_repeat L); [reflexivity|]. intros x Hx Ha. exact (Hall x Hx Ha).
  - inversion Hn as [|? ? Hvr Hr]; subst. destruct (Hv v (or_introl eq_refl)) as [Av [Nh Hl]].
    apply in_split in Hl. destruct Hl as [l1 [l2 El]]. subst L.
    rewrite filter_app in Hu. simpl in Hu. rewrite (proj2 (aliveb_iff v) Av) in Hu.
    assert (N1 : ~ In v l1).
    { intro H. apply NoDup_remove_2 in Hu. apply Hu. apply in_or_app. left. apply filter_In. split; [exact H|apply aliveb_iff; exact Av]. }
    assert (N2 : ~ In v l2).
    { intro H. apply NoDup_remove_2 in Hu. apply Hu. apply in_or_app. right. apply filter_In. split; [exact H|apply aliveb_iff; exact Av]. }
    assert (N2h : ~ In v (l2 ++ high)) by (intro H; apply in_app_or in H; tauto).
    destruct (poke_unique l1 v (l2 ++ high) N2h) as [dp [G P]].
    unfold poke_dead. rewrite <- app_assoc. simpl app. rewrite poke_dead_step, G, P.
    change (l1 ++ dead_item :: l2 ++ high) with (l1 ++ (dead_item :: l2) ++ high). rewrite app_assoc.
    rewrite (IH (l1 ++ dead_item :: l2) high Hr).
    + rewrite !app_length. simpl. reflexivity.
    + intros w Hw. destruct (Hv w (or_intror Hw)) as [Aw [Nw Lw]]. split; [exact Aw|]. split; [exact Nw|].
      apply in_app_or in Lw. apply in_or_app. destruct Lw as [Lw|[Lw|Lw]]; [left; exact Lw|subst; contradiction|right; right; exact Lw].
    + intros x Hx Ax. assert (Hx' : In x (l1 ++ v :: l2)).
      { apply in_app_or in Hx. apply in_or_app. destruct Hx as [Hx|[Hx|Hx]]; [left; exact Hx| |right; right; exact Hx].
        subst x. unfold alive in Ax. simpl in Ax. discriminate. }
      destruct (Hall x Hx' Ax) as [E|Hr']; [|exact Hr']. subst x.
      apply in_app_or in Hx. destruct Hx as [Hx|[Hx|Hx]]; [contradiction| |contradiction].
      unfold alive in Av. rewrite <- Hx in Av. simpl in Av. discriminate.
    + rewrite filter_app. simpl. apply NoDup_remove_1 in Hu. exact Hu.
Qed.

Lemma nodup_app_r : forall (a b : list Z), NoDup (a ++ b) -> NoDup b.
Proof. induction a; intros b H; [exact H|]. simpl in H. inversion H; subst. apply IHa. assumption. Qed.
Lemma nodup_app_l : forall (a b : list Z), NoDup (a ++ b) -> NoDup a.
Proof.
  induction a; intros b H; [constructor|]. simpl in H. inversion H; subst. constructor.
  - intro Hi. apply H2. apply in_or_app. left. exact Hi.
  - eapply IHa. eassumption.
Qed.
Lemma nodup_app_disjoint : forall (a b : list Z) x, NoDup (a ++ b) -> In x a -> In x b -> False.
Proof.
  induction a as [|y t IH]; intros b x H Ha Hb; [destruct Ha|]. simpl in H. inversion H; subst.
  destruct Ha as [E|Ha]; [subst; apply H2; apply in_or_app; right; exact Hb|eapply IH; eassumption].
Qed.

(* split the alive part at the deepest live-in item: everything below is deeper than every live-in, everything from it
   upward is at its depth or shallower *)
Lemma deepest_split : forall k nd LP,
  NoDup nd -> (forall x, In x nd -> alive x) -> LP <> [] -> (forall x, In x LP -> In x nd) ->
  let m := deads k ++ nd in
  let dl := fold_left Z.min (depths_of m LP) 0 in
  exists nl nh, nd = nl ++ nh /\ (forall x, In x LP -> In x nh) /\
    (forall x dp, In x nh -> spec_get_depth m x = Some dp -> dl <= dp) /\
    (forall x dp, In x nl -> spec_get_depth m x = Some dp -> dp < dl).
Proof.
  intros k nd LP Hn Ha Hne Hin m dl.
  assert (Hinm : forall x, In x LP -> In x m) by (intros x Hx; unfold m; apply in_or_app; right; apply Hin; exact Hx).
  destruct (depths_of_spec m LP Hinm) as [Ld Id].
  (* dl is the depth of a live-in *)
  assert (Hdl : exists xs, In xs LP /\ spec_get_depth m xs = Some dl).
  { destruct (fold_min_spec (depths_of m LP) 0) as [_ [F2 [F|F]]]; fold dl in F, F2.
    - destruct LP as [|x0 r]; [congruence|].
      assert (Hx0 : In x0 (x0 :: r)) by (left; reflexivity).
      destruct (depth_in_high (deads k) nd x0 (Hin x0 Hx0)) as [dp [G [[V _] _]]]. fold m in G.
      assert (Hd : In dp (depths_of m (x0 :: r))) by (apply Id; exists x0; split; assumption).
      specialize (F2 dp Hd). assert (dp = 0) by lia. subst dp. exists x0. split; [exact Hx0|]. rewrite F. exact G.
    - apply Id in F. exact F. }
  destruct Hdl as [xs [Hxs Gs]].
  destruct (in_split xs nd (Hin xs Hxs)) as [nl [rest End]].
  exists nl, (xs :: rest). split; [exact End|].
  assert (Em : m = (deads k ++ nl) ++ xs :: rest) by (unfold m; rewrite End, app_assoc; reflexivity).
  assert (Nh : NoDup (xs :: rest)) by (rewrite End in Hn; apply nodup_app_r in Hn; exact Hn).
  (* the position of xs *)
  assert (Pxs : pos dl = length rest).
  { destruct (depth_in_high (deads k ++ nl) (xs :: rest) xs (or_introl eq_refl)) as [dp [G [_ [Pq [Nq _]]]]].
    rewrite <- Em in G. assert (dp = dl) by congruence. subst dp.
    assert (Nv : nth (length rest) (view (xs :: rest)) 0 = xs).
    { unfold view. simpl. rewrite app_nth2 by (rewrite rev_length; lia). rewrite rev_length, Nat.sub_diag. reflexivity. }
    assert (Nvd : NoDup (view (xs :: rest))) by (unfold view; apply NoDup_rev; exact Nh).
    apply (proj1 (NoDup_nth (view (xs :: rest)) 0) Nvd); [rewrite length_view; exact Pq|rewrite length_view; simpl; lia|].
    rewrite Nq, Nv. reflexivity. }
  assert (Hdl0 : dl <= 0).
  { destruct (depth_in_high (deads k) nd xs (Hin xs Hxs)) as [dp [G [[V _] _]]]. fold m in G. congruence. }
  assert (Upper : forall x dp, In x (xs :: rest) -> spec_get_depth m x = Some dp -> dl <= dp).
  { intros x dp Hx G. destruct (depth_in_high (deads k ++ nl) (xs :: rest) x Hx) as [dp' [G' [[V _] [Pq _]]]].
    rewrite <- Em in G'. assert (dp' = dp) by congruence. subst dp'. simpl in Pq. unfold pos in *. lia. }
  assert (Lower : forall x dp, In x nl -> spec_get_depth m x = Some dp -> dp < dl).
  { intros x dp Hx G.
    assert (Hxnd : In x nd) by (rewrite End; apply in_or_app; left; exact Hx).
    destruct (depth_in_high (deads k) nd x Hxnd) as [dp' [G' [[V _] [Pq [Nq _]]]]]. fold m in G'.
    assert (dp' = dp) by congruence. subst dp'.
    destruct (Nat.lt_ge_cases (pos dp) (length (xs :: rest))) as [Hlt|Hge]; [|simpl in Hge; unfold pos in *; lia].
    exfalso. rewrite End, view_app in Nq. rewrite app_nth1 in Nq by (rewrite length_view; exact Hlt).
    assert (Hxh : In x (xs :: rest)).
    { apply in_view. rewrite <- Nq. apply nth_In. rewrite length_view. exact Hlt. }
    rewrite End in Hn. exact (nodup_app_disjoint _ _ _ Hn Hx Hxh). }
  split; [|split; [exact Upper|exact Lower]].
  intros x Hx. assert (Hxnd := Hin x Hx). rewrite End in Hxnd. apply in_app_or in Hxnd. destruct Hxnd as [Hl|Hh]; [|exact Hh].
  exfalso. destruct (depth_in_high (deads k) nd x (Hin x Hx)) as [dp [G _]]. fold m in G.
  assert (Hd : In dp (depths_of m LP)) by (apply Id; exists x; split; assumption).
  destruct (fold_min_spec (depths_of m LP) 0) as [_ [F2 _]]. specialize (F2 dp Hd). fold dl in F2.
  specialize (Lower x dp Hl G). lia.
Qed.

Lemma py_in_iff : forall x l, py_in x l = true <-> In x l.
Proof.
  intros x l. unfold py_in. rewrite existsb_exists. split.
  - intros [y [Hy E]]. apply Z.eqb_eq in E. subst. exact Hy.
  - intros H. exists x. split; [exact H|apply Z.eqb_refl].
Qed.
Lemma npy_in_iff : forall x l, negb (py_in x l) = true <-> ~ In x l.
Proof. intros. rewrite negb_true_iff. rewrite <- py_in_iff. destruct (py_in x l); split; congruence. Qed.
Lemma present_in : forall m x, present m x = true <-> In x m.
Proof. intros. unfold present. apply present_iff. Qed.
Lemma match_nonnil : forall {A B} (l : list A) (x y : B), l <> [] -> match l with [] => x | _ :: _ => y end = y.
Proof. intros A B l x y H. destruct l; [congruence|reflexivity]. Qed.

Lemma filter_deads : forall k, filter aliveb (deads k) = [].
Proof. induction k; simpl; auto. Qed.
Lemma filter_alive_id : forall nd, (forall x, In x nd -> alive x) -> filter aliveb nd = nd.
Proof.
  induction nd as [|y r IH]; intros H; [reflexivity|]. simpl. rewrite (proj2 (aliveb_iff y) (H y (or_introl eq_refl))).
  f_equal. apply IH. intros x Hx. apply H. right. exact Hx.
Qed.
Lemma view_deads : forall k, view (deads k) = deads k.
Proof.
  induction k as [|k IH]; [reflexivity|]. unfold view, deads in *. simpl. rewrite IH.
  clear. induction k; simpl; [reflexivity|]. f_equal. exact IHk.
Qed.

(* the machine stack realises a stack map up to the contents of dead slots *)
Definition realises (v : list Z) (m : list Z) : Prop :=
  length v = length m /\ forall k, (k < length m)%nat -> is_dead (nth k (view m) 0) = true \/ nth k v 0 = nth k (view m) 0.
Lemma realises_refl : forall m, realises (view m) m.
Proof. intros m. split; [apply length_view|]. intros k _. right. reflexivity. Qed.

Definition clean_post (inputs : list Z) (a : list ainstr) (m : list Z) (s : sp)
  (r : res (list ainstr * list Z * sp * option Z)) : Prop :=
  exists new m' s' b',
    r = Ok (a ++ new, m', s', b') /\
    forallb depth_ok new = true /\ sp_inv s' /\ (forall d, live_inv s d -> live_inv s' d) /\
    dead_prefix_ok m' false = true /\
    (forall y, In y m' -> alive y -> In y inputs) /\
    (forall y, In y inputs -> In y m -> In y m') /\
    NoDup (filter aliveb m') /\
    forall mm, exists mm' v', run new (view m, mm) = Some (v', mm') /\ realises v' m' /\
                              forall d, live_inv s d -> mem_ok mm d -> mem_ok mm' d.

Section Clean.
Variables (layout inputs : list Z) (k : nat) (nd : list Z) (s : sp) (a : list ainstr).
Hypothesis Hi : sp_inv s.
Hypothesis Hnd : NoDup nd.
Hypothesis Hal : forall x, In x nd -> alive x.
Hypothesis P2 : forall x, In x nd -> In x layout.
Hypothesis NL : NoDup layout.
Hypothesis AL : forall x, In x layout -> alive x.
Hypothesis AI : forall x, In x inputs -> alive x.

Definition cm := deads k ++ nd.
Definition c_to_pop := filter (fun v => negb (py_in v inputs)) layout.
Definition c_physical := filter (present cm) c_to_pop.

Lemma in_cm_alive : forall x, In x cm -> alive x -> In x nd.
Proof. intros x H A. unfold cm in H. apply in_app_or in H. destruct H as [H|H]; [exfalso; exact (alive_not_in_deads x k A H)|exact H]. Qed.
Lemma nd_in_cm : forall x, In x nd -> In x cm.
Proof. intros. unfold cm. apply in_or_app. right. assumption. Qed.

Lemma phys_iff : forall x, In x c_physical <-> In x layout /\ ~ In x inputs /\ In x nd.
Proof.
  intros x. unfold c_physical, c_to_pop. rewrite !filter_In, present_in, npy_in_iff. split.
  - intros [[H1 H2] H3]. split; [exact H1|]. split; [exact H2|]. apply in_cm_alive; [exact H3|apply AL; exact H1].
  - intros [H1 [H2 H3]]. split; [split; assumption|apply nd_in_cm; exact H3].
Qed.
Lemma nodup_phys : NoDup c_physical.
Proof. unfold c_physical, c_to_pop. apply NoDup_filter, NoDup_filter. exact NL. Qed.
Lemma nd_cover : forall x, In x nd -> In x inputs \/ In x c_physical.
Proof.
  intros x H. destruct (in_dec Z.eq_dec x inputs) as [Hin|Hin]; [left; exact Hin|right].
  apply phys_iff. split; [apply P2; exact H|]. split; assumption.
Qed.
Lemma filter_cm : filter aliveb cm = nd.
Proof. unfold cm. rewrite filter_app, filter_deads. simpl. apply filter_alive_id. exact Hal. Qed.

(* nothing to pop *)
Lemma case_nothing : forall bound, c_physical = [] -> clean_post inputs a cm s (Ok (a, cm, s, bound)).
Proof.
  intros bound E. exists [], cm, s, bound. rewrite app_nil_r.
  split; [reflexivity|]. split; [reflexivity|]. split; [exact Hi|]. split; [auto|].
  split; [unfold cm; apply prefix_compose; exact Hal|].
  split.
  { intros y Hy Ay. destruct (nd_cover y (in_cm_alive y Hy Ay)) as [H|H]; [exact H|]. rewrite E in H. destruct H. }
  split; [auto|]. split; [rewrite filter_cm; exact Hnd|].
  intros mm. exists mm, (view cm). split; [reflexivity|]. split; [apply realises_refl|auto].
Qed.

(* every physical operand is popped *)
Lemma case_pop_all : forall bound,
  clean_post inputs a cm s (match popmany c_physical a cm s with Ok (a', m', s') => Ok (a', m', s', bound) | Err e => Err e end).
Proof.
  intros bound.
  destruct (popmany_correct_thm c_physical a (deads k) nd s Hi Hnd nodup_phys) as [new [h' [s' [E [D [I [L [N [In' R]]]]]]]]].
  { intros x Hx _. apply phys_iff in Hx. tauto. }
  fold cm in E, R. rewrite E.
  assert (Ah : forall x, In x h' -> alive x) by (intros x Hx; apply Hal; apply In'; exact Hx).
  exists new, (deads k ++ h'), s', bound.
  split; [reflexivity|]. split; [exact D|]. split; [exact I|]. split; [exact L|].
  split; [apply prefix_compose; exact Ah|].
  split.
  { intros y Hy Ay. apply in_app_or in Hy. destruct Hy as [Hy|Hy]; [exfalso; exact (alive_not_in_deads y k Ay Hy)|].
    apply In' in Hy. destruct Hy as [Hy Hn]. destruct (nd_cover y Hy) as [H|H]; [exact H|contradiction]. }
  split.
  { intros y Hy Hm. apply in_or_app. right. apply In'. split; [apply in_cm_alive; [exact Hm|apply AI; exact Hy]|].
    intro Hp. apply phys_iff in Hp. tauto. }
  split; [rewrite filter_app, filter_deads; simpl; rewrite (filter_alive_id h' Ah); exact N|].
  intros mm. destruct (R mm) as [mm' [Ra Rb]]. exists mm', (view (deads k ++ h')). split; [exact Ra|]. split; [apply realises_refl|exact Rb].
Qed.

(* the dead-prefix elision: pop only what sits among / above the live-ins, turn the rest into dead slots *)
Lemma case_elide : forall nl nh retainable to_cleanup p,
  nd = nl ++ nh -> (forall x, In x inputs -> In x nd -> In x nh) ->
  NoDup retainable -> NoDup to_cleanup ->
  (forall x, In x retainable <-> In x c_physical /\ In x nl) ->
  (forall x, In x to_cleanup <-> In x c_physical /\ In x nh) ->
  clean_post inputs a cm s
    (match popmany to_cleanup a cm s with
     | Err e => Err e
     | Ok (a', m', s') =>
       if negb (zlen m' =? zlen cm - zlen to_cleanup) then Err AssertFail else
       match poke_dead m' retainable with
       | Err e => Err e
       | Ok m'' => if dead_prefix_ok m'' false then Ok (a', m'', s', Some p) else Err Raised
       end
     end).
Proof.
  intros nl nh retainable to_cleanup p End Hinp NR NC IR IC.
  assert (Nnh : NoDup nh) by (rewrite End in Hnd; exact (nodup_app_r _ _ Hnd)).
  assert (Nnl : NoDup nl) by (rewrite End in Hnd; exact (nodup_app_l _ _ Hnd)).
  assert (Disj : forall x, In x nl -> In x nh -> False) by (intros x; rewrite End in Hnd; exact (nodup_app_disjoint _ _ x Hnd)).
  assert (Ecm : cm = (deads k ++ nl) ++ nh) by (unfold cm; rewrite End, app_assoc; reflexivity).
  destruct (popmany_correct_thm to_cleanup a (deads k ++ nl) nh s Hi Nnh NC) as [new [h' [s' [E [D [I [L [N [In' R]]]]]]]]].
  { intros x Hx _. apply IC in Hx. tauto. }
  rewrite <- Ecm in E, R. rewrite E.
  (* the height assertion *)
  assert (Pn : Permutation nh (to_cleanup ++ h')).
  { apply NoDup_Permutation; [exact Nnh| |].
    - apply nodup_app; [exact NC|exact N|]. intros x Hx Hh'. apply In' in Hh'. tauto.
    - intros x. rewrite in_app_iff, In'. split.
      + intros Hx. destruct (in_dec Z.eq_dec x to_cleanup) as [Ht|Ht]; [left; exact Ht|right; split; assumption].
      + intros [H|[H _]]; [apply IC in H; tauto|exact H]. }
  assert (Hh : zlen ((deads k ++ nl) ++ h') =? zlen cm - zlen to_cleanup = true).
  { apply Z.eqb_eq. rewrite Ecm. unfold zlen. rewrite !app_length. apply Permutation_length in Pn. rewrite app_length in Pn. lia. }
  rewrite Hh. simpl negb. cbv iota.
  (* the pokes *)
  assert (Ah : forall x, In x h' -> alive x).
  { intros x Hx. apply Hal. rewrite End. apply in_or_app. right. apply In'. exact Hx. }
  assert (Anl : forall x, In x nl -> alive x) by (intros x Hx; apply Hal; rewrite End; apply in_or_app; left; exact Hx).
  rewrite (poke_dead_spec retainable (deads k ++ nl) h' NR).
  2:{ intros v Hv. apply IR in Hv. destruct Hv as [Hp Hl]. split; [apply Anl; exact Hl|].
      split; [intro Hh'; apply In' in Hh'; destruct Hh' as [Hh' _]; exact (Disj v Hl Hh')|apply in_or_app; right; exact Hl]. }
  2:{ intros x Hx Ax. apply in_app_or in Hx. destruct Hx as [Hx|Hx]; [exfalso; exact (alive_not_in_deads x k Ax Hx)|].
      apply IR. split; [|exact Hx].
      assert (Hxnd : In x nd) by (rewrite End; apply in_or_app; left; exact Hx).
      destruct (nd_cover x Hxnd) as [H|H]; [|exact H]. exfalso. exact (Disj x Hx (Hinp x H Hxnd)). }
  2:{ rewrite filter_app, filter_deads. simpl. rewrite (filter_alive_id nl Anl). exact Nnl. }
  set (n := length (deads k ++ nl)).
  rewrite (prefix_compose n h' Ah).
  exists new, (deads n ++ h'), s', (Some p).
  split; [reflexivity|]. split; [exact D|]. split; [exact I|]. split; [exact L|].
  split; [apply prefix_compose; exact Ah|].
  split.
  { intros y Hy Ay. apply in_app_or in Hy. destruct Hy as [Hy|Hy]; [exfalso; exact (alive_not_in_deads y n Ay Hy)|].
    apply In' in Hy. destruct Hy as [Hy Hn].
    assert (Hynd : In y nd) by (rewrite End; apply in_or_app; right; exact Hy).
    destruct (nd_cover y Hynd) as [H|H]; [exact H|]. exfalso. apply Hn. apply IC. split; assumption. }
  split.
  { intros y Hy Hm. apply in_or_app. right. apply In'.
    assert (Hynd : In y nd) by (apply in_cm_alive; [exact Hm|apply AI; exact Hy]).
    split; [apply Hinp; assumption|]. intro Hc. apply IC in Hc. destruct Hc as [Hp _]. apply phys_iff in Hp. tauto. }
  split; [rewrite filter_app, filter_deads; simpl; rewrite (filter_alive_id h' Ah); exact N|].
  intros mm. destruct (R mm) as [mm' [Ra Rb]]. exists mm', (view ((deads k ++ nl) ++ h')). split; [exact Ra|]. split; [|exact Rb].
  split.
  - rewrite length_view, !app_length. unfold n, deads. rewrite !repeat_length, !app_length, !repeat_length. reflexivity.
  - intros j Hj. rewrite !view_app, view_deads.
    destruct (Nat.lt_ge_cases j (length (view h'))) as [Hlt|Hge].
    + right. rewrite !app_nth1 by exact Hlt. reflexivity.
    + left. rewrite app_nth2 by exact Hge. apply is_dead_iff.
      apply (repeat_spec n dead_item). apply nth_In. unfold deads. rewrite repeat_length.
      rewrite app_length in Hj. unfold deads in Hj. rewrite repeat_length in Hj. rewrite length_view in *. lia.
Qed.
End Clean.

Theorem clean_correct_thm : forall layout inputs bound promise a m s,
  sp_inv s ->
  dead_prefix_ok m false = true ->
  (forall x, In x m -> alive x -> In x layout) ->
  NoDup (filter aliveb m) ->
  NoDup layout -> (forall x, In x layout -> alive x) -> (forall x, In x inputs -> alive x) ->
  clean_post inputs a m s (clean_from_cfg_in layout inputs bound promise a m s).
Proof.
  intros layout inputs bound promise a m s Hi P1 P2 P3 NL AL AI.
  destruct (prefix_decompose m P1) as [k [nd [Em Hal]]].
  assert (Hnd : NoDup nd).
  { rewrite Em, filter_app, filter_deads in P3. simpl in P3. rewrite (filter_alive_id nd Hal) in P3. exact P3. }
  assert (P2' : forall x, In x nd -> In x layout).
  { intros x Hx. apply P2; [rewrite Em; apply in_or_app; right; exact Hx|apply Hal; exact Hx]. }
  assert (Ecm : m = cm k nd) by exact Em.
  unfold clean_from_cfg_in. cbv zeta. rewrite P1. simpl negb. cbv iota.
  change (filter (fun v => negb (py_in v inputs)) layout) with (c_to_pop layout inputs).
  rewrite Ecm.
  change (filter (present (cm k nd)) (c_to_pop layout inputs)) with (c_physical layout inputs k nd).
  remember (c_physical layout inputs k nd) as phys eqn:Ephys.
  assert (PI : forall x, In x phys <-> In x layout /\ ~ In x inputs /\ In x nd) by (rewrite Ephys; apply phys_iff; exact AL).
  assert (NP : NoDup phys) by (rewrite Ephys; apply nodup_phys; exact NL).
  assert (Hcase : phys = [] \/ phys <> []) by (destruct phys; [left; reflexivity|right; discriminate]).
  destruct Hcase as [EP|Hne].
  { rewrite EP. apply (case_nothing layout inputs k nd s a Hi Hnd Hal P2' AL). rewrite <- Ephys. exact EP. }
  rewrite !(match_nonnil phys _ _ Hne).
  remember (filter (present (cm k nd)) inputs) as LP eqn:ELPdef.
  set (dl := fold_left Z.min (depths_of (cm k nd) LP) 0).
  assert (HLP : forall x, In x LP <-> In x inputs /\ In x nd).
  { intros x. rewrite ELPdef, filter_In, present_in. split.
    - intros [H1 H2]. split; [exact H1|]. apply (in_cm_alive k nd); [exact H2|apply AI; exact H1].
    - intros [H1 H2]. split; [exact H1|apply nd_in_cm; exact H2]. }
  (* split of the alive part and the meaning of the retainable test *)
  assert (Split : exists nl nh, nd = nl ++ nh /\ (forall x, In x inputs -> In x nd -> In x nh) /\
            forall x, In x phys ->
              ((match depths_of (cm k nd) LP with
                | [] => true
                | _ :: _ => match spec_get_depth (cm k nd) x with Some dp => dp <? dl | None => false end
                end) = true <-> In x nl)).
  { assert (Lcase : LP = [] \/ LP <> []) by (destruct LP; [left; reflexivity|right; discriminate]).
    destruct Lcase as [ELP|LPne].
    - exists nd, []. split; [rewrite app_nil_r; reflexivity|]. split.
      + intros x H1 H2. exfalso. assert (H : In x LP) by (apply HLP; split; assumption). rewrite ELP in H. destruct H.
      + intros x Hx. rewrite ELP. simpl. split; [intros _; apply PI in Hx; tauto|reflexivity].
    - destruct (deepest_split k nd LP Hnd Hal LPne (fun x Hx => proj2 (proj1 (HLP x) Hx))) as [nl [nh [E1 [E2 [E3 E4]]]]].
      fold (cm k nd) in E3, E4. fold dl in E3, E4.
      exists nl, nh. split; [exact E1|]. split; [intros x H1 H2; apply E2; apply HLP; split; assumption|].
      intros x Hx.
      assert (Dne : depths_of (cm k nd) LP <> []).
      { intro Hd. destruct (depths_of_spec (cm k nd) LP) as [Ld _].
        - intros y Hy. apply nd_in_cm. apply HLP in Hy. tauto.
        - rewrite Hd in Ld. destruct LP; [congruence|simpl in Ld; lia]. }
      rewrite (match_nonnil _ _ _ Dne).
      assert (Hxnd : In x nd) by (apply PI in Hx; tauto).
      destruct (depth_in_high (deads k) nd x Hxnd) as [dp [G _]]. fold (cm k nd) in G. rewrite G.
      rewrite E1 in Hxnd. apply in_app_or in Hxnd. destruct Hxnd as [Hl|Hh].
      + specialize (E4 x dp Hl G). split; [intros _; exact Hl|intros _; apply Z.ltb_lt; exact E4].
      + specialize (E3 x dp Hh G). split; [intros Hlt; apply Z.ltb_lt in Hlt; lia|].
        intros Hl. exfalso. rewrite E1 in Hnd. exact (nodup_app_disjoint _ _ x Hnd Hl Hh). }
  destruct Split as [nl [nh [End [Hinp Htest]]]].
  set (retainable := filter (fun v => match depths_of (cm k nd) LP with
                                      | [] => true
                                      | _ :: _ => match spec_get_depth (cm k nd) v with Some dp => dp <? dl | None => false end
                                      end) phys).
  assert (IR : forall x, In x retainable <-> In x phys /\ In x nl).
  { intros x. unfold retainable. rewrite filter_In. split; intros [H1 H2]; (split; [exact H1|]); apply (Htest x H1); exact H2. }
  assert (NR : NoDup retainable) by (apply NoDup_filter; exact NP).
  assert (Rcase : retainable = [] \/ retainable <> []) by (destruct retainable; [left; reflexivity|right; discriminate]).
  destruct Rcase as [ER|Rne].
  { rewrite ER. rewrite Ephys. apply (case_pop_all layout inputs k nd s a Hi Hnd Hal P2' NL AL AI). }
  rewrite (match_nonnil retainable _ _ Rne).
  destruct (match bound with Some b => Some b | None => promise end) as [p|].
  2:{ rewrite Ephys. apply (case_pop_all layout inputs k nd s a Hi Hnd Hal P2' NL AL AI). }
  set (to_cleanup := filter (fun v => negb (py_in v retainable)) phys).
  assert (IC : forall x, In x to_cleanup <-> In x phys /\ In x nh).
  { intros x. unfold to_cleanup. rewrite filter_In, npy_in_iff, IR. split.
    - intros [H1 H2]. split; [exact H1|]. assert (Hxnd : In x nd) by (apply PI in H1; tauto).
      rewrite End in Hxnd. apply in_app_or in Hxnd. destruct Hxnd as [Hl|Hh]; [exfalso; apply H2; split; assumption|exact Hh].
    - intros [H1 H2]. split; [exact H1|]. intros [_ Hl]. rewrite End in Hnd. exact (nodup_app_disjoint _ _ x Hnd Hl H2). }
  assert (NC : NoDup to_cleanup) by (apply NoDup_filter; exact NP).
  rewrite Ephys in IR, IC.
  exact (case_elide layout inputs k nd s a Hi Hnd Hal P2' AL AI nl nh retainable to_cleanup p End Hinp NR NC IR IC).
Qed.
