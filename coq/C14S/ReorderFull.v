(* C14S: _stack_reorder in full generality of target positions (DFG equivalence = identity): targets may be spilled
   (restored first) and arbitrarily deep (brought within reach by _reduce_depth_via_spill, which spills non-target
   variables from the top 17 slots); any stack height. *)
From Coq Require Import ZArith List Bool Lia.
From Verif Require Import Base.PyInt C14S.PyList C14S.StackSpec C14S.StackSpecProofs C14S.Spill C14S.SpillProofs C14S.SpillInv
  C14S.ReorderProofs.
Import ListNotations.
Open Scope Z_scope.

Definition mem_ok (mm : mem) (d : spilled) : Prop := forall x o, In (x, o) d -> mm o = x.

(* ---- spill_operand ---- *)
Lemma view_tl_pop : forall m, 0 < zlen m -> view (st_pop m 1) = tl (view m).
Proof. intros m H. rewrite pop_view by lia. destruct (view m); reflexivity. Qed.

Lemma spill_operand_spec : forall cd a m s d,
  sp_inv s -> valid_depth m cd -> is_var (st_peek m cd) = true ->
  exists new m1 s1 d1,
    spill_operand false cd a m s d = Ok (a ++ new, m1, s1, d1) /\
    view m1 = tl (swap_view (pos cd) (view m)) /\
    forallb depth_ok new = true /\
    forall mm, exists mm', run new (view m, mm) = Some (view m1, mm').
Proof.
  intros cd a m s d Hi Hv Hvar. unfold spill_operand.
  destruct Hv as [Hv1 Hv2].
  destruct (Z.leb_spec cd 0); [|lia]. destruct (Z.ltb_spec (- cd) (zlen m)); [|lia]. cbn [andb negb].
  rewrite Hvar. cbn [negb].
  destruct (sp_swap_any cd a m s Hi (conj Hv1 Hv2)) as [new1 [s1 [c1 [E1 [V1 [D1 [I1 [_ R1]]]]]]]].
  set (m1 := if cd =? 0 then m else st_swap m cd) in *.
  assert (Hmid : (if cd =? 0 then Ok (a, m, s, 0) else sp_swap false cd a m s) =
                 Ok (a ++ (if cd =? 0 then [] else new1), m1, (if cd =? 0 then s else s1), (if cd =? 0 then 0 else c1))).
  { unfold m1. destruct (cd =? 0); [rewrite app_nil_r; reflexivity|exact E1]. }
  rewrite Hmid.
  destruct (get_slot false (if cd =? 0 then s else s1)) as [s2 off] eqn:G.
  assert (Lm1 : zlen m1 = zlen m).
  { unfold zlen. f_equal. rewrite <- (length_view m1), V1, length_swap_view, length_view. reflexivity. }
  assert (Hpos : 0 < zlen m1) by lia.
  eexists. exists (st_pop m1 1), s2. eexists.
  split. { rewrite <- app_assoc. reflexivity. }
  split. { rewrite view_tl_pop by exact Hpos. rewrite V1. reflexivity. }
  split. { rewrite forallb_app. destruct (cd =? 0); [reflexivity|rewrite D1; reflexivity]. }
  intros mm.
  assert (Hrun1 : exists mm1, run (if cd =? 0 then [] else new1) (view m, mm) = Some (view m1, mm1)).
  { destruct (Z.eqb_spec cd 0) as [E0|E0].
    - exists mm. subst cd. reflexivity.
    - destruct (R1 mm) as [mm1 Q]. exists mm1. rewrite Q, <- V1. reflexivity. }
  destruct Hrun1 as [mm1 Q1].
  destruct (view m1) as [|x t] eqn:Vm.
  { exfalso. rewrite <- zlen_view, Vm in Hpos. unfold zlen in Hpos. simpl in Hpos. lia. }
  exists (mset mm1 off x). rewrite run_app, Q1. rewrite view_tl_pop by exact Hpos. rewrite Vm. reflexivity.
Qed.

(* ---- candidate selection ---- *)
Lemma select_candidate_spec : forall m forb offs cd, select_candidate m forb offs = Some cd ->
  exists o, In o offs /\ cd = - o /\ is_var (st_peek m cd) = true /\ py_in (st_peek m cd) forb = false.
Proof.
  induction offs as [|o r IH]; intros cd H; simpl in H; [discriminate|].
  destruct (py_in (st_peek m (- o)) forb) eqn:F.
  - destruct (IH cd H) as [o' [Hi Q]]. exists o'. split; [right; exact Hi|exact Q].
  - destruct (is_var (st_peek m (- o))) eqn:Vr; simpl in H.
    + inversion H; subst. exists o. split; [left; reflexivity|]. split; [reflexivity|]. split; assumption.
    + destruct (IH cd H) as [o' [Hi Q]]. exists o'. split; [right; exact Hi|exact Q].
Qed.
Lemma in_zrange : forall n o, In o (zrange n) -> 0 <= o < n.
Proof.
  intros n o H. unfold zrange in H. apply in_map_iff in H. destruct H as [k [E Hk]]. apply in_seq in Hk. lia.
Qed.

Lemma py_in_false : forall x l, py_in x l = false -> ~ In x l.
Proof.
  intros x l H Hin. unfold py_in in H.
  assert (existsb (Z.eqb x) l = true) by (apply existsb_exists; exists x; split; [exact Hin|apply Z.eqb_refl]). congruence.
Qed.

Lemma in_tl_swap_view : forall q s x, (q < length s)%nat -> In x s -> x <> nth q s 0 -> In x (tl (swap_view q s)).
Proof.
  intros q s x Hq Hin Hne.
  pose proof (in_swap_view q s x Hq Hin) as H.
  destruct (swap_view q s) as [|y t] eqn:E; [contradiction|].
  assert (Hy : y = nth q s 0).
  { pose proof (nth_swap_view q s 0 Hq) as N. rewrite E in N. simpl in N.
    destruct q; [exact N|exact N]. }
  destruct H as [H|H]; [subst; contradiction|exact H].
Qed.

(* ---- _reduce_depth_via_spill ---- *)
Lemma reduce_depth_spec : forall fuel stack_ops target depth a m s d,
  (length m <= fuel)%nat -> live_inv s d -> In target stack_ops ->
  spec_get_depth m target = Some depth -> (forall x, In x stack_ops -> In x m) ->
  exists new m' s' d',
    reduce_depth fuel false stack_ops target depth a m s d = Ok (a ++ new, m', s', d') /\
    live_inv s' d' /\ (forall x, In x stack_ops -> In x m') /\ (length m' <= length m)%nat /\
    forallb depth_ok new = true /\
    forall mm, exists mm', run new (view m, mm) = Some (view m', mm').
Proof.
  induction fuel as [|k IH]; intros stack_ops target depth a m s d Hf L Ht G Hin.
  - (* fuel 0: the stack is empty, impossible since target is on it *)
    exfalso. assert (In target m) by (apply Hin; exact Ht). destruct m; [contradiction|simpl in Hf; lia].
  - cbn [reduce_depth].
    destruct (Z.ltb_spec depth (-16)) as [Hdeep|Hok]; cbn [negb].
    2:{ exists [], m, s, d. rewrite app_nil_r. split; [reflexivity|]. split; [exact L|]. split; [exact Hin|]. split; [lia|].
        split; [reflexivity|]. intros mm. exists mm. reflexivity. }
    destruct (proj1 (get_depth_spec m target) depth G) as [[Vd1 Vd2] _].
    set (mo := Z.min 16 (Z.min (- depth - 1) (zlen m - 1))).
    assert (Hmo : 0 <= mo <= 16 /\ mo < zlen m) by (unfold mo; lia).
    destruct (Z.ltb_spec mo 0); [lia|].
    destruct (select_candidate m stack_ops (zrange (mo + 1))) as [cd|] eqn:S.
    2:{ exists [], m, s, d. rewrite app_nil_r. split; [reflexivity|]. split; [exact L|]. split; [exact Hin|]. split; [lia|].
        split; [reflexivity|]. intros mm. exists mm. reflexivity. }
    destruct (select_candidate_spec _ _ _ _ S) as [o [Ho [Ecd [Hvar Hforb]]]].
    apply in_zrange in Ho.
    assert (Vcd : valid_depth m cd) by (subst cd; split; lia).
    destruct (spill_operand_spec cd a m s d (proj1 L) Vcd Hvar) as [new1 [m1 [s1 [d1 [E1 [V1 [D1 R1]]]]]]].
    rewrite E1.
    assert (L1 : live_inv s1 d1) by (exact (spill_operand_keeps_live_thm cd a m s d _ _ _ _ L E1)).
    assert (Lq : (pos cd < length (view m))%nat).
    { rewrite length_view. destruct Vcd. unfold pos, zlen in *. lia. }
    assert (Hin1 : forall x, In x stack_ops -> In x m1).
    { intros x Hx. apply in_view. rewrite V1. apply in_tl_swap_view; [exact Lq|apply in_view; apply Hin; exact Hx|].
      intro Ex. apply (py_in_false _ _ Hforb). rewrite (peek_view m cd Vcd). rewrite <- Ex. exact Hx. }
    assert (Len1 : length m1 = (length m - 1)%nat).
    { rewrite <- (length_view m1), V1.
      pose proof (length_swap_view (pos cd) (view m)) as LS. rewrite length_view in LS.
      destruct (swap_view (pos cd) (view m)); simpl in *; lia. }
    assert (Ht1 : In target m1) by (apply Hin1; exact Ht).
    destruct (spec_get_depth m1 target) as [depth'|] eqn:G1.
    2:{ exfalso. apply (proj2 (get_depth_spec m1 target)) in G1. contradiction. }
    assert (Hlen_pos : (1 <= length m)%nat) by (destruct Vcd; unfold zlen in *; lia).
    destruct (IH stack_ops target depth' (a ++ new1) m1 s1 d1) as [new2 [m' [s' [d' [E2 [L2 [Hin2 [Len2 [D2 R2]]]]]]]]]; auto; [lia|].
    exists (new1 ++ new2), m', s', d'. rewrite <- app_assoc in E2.
    split; [exact E2|]. split; [exact L2|]. split; [exact Hin2|]. split; [lia|].
    split; [rewrite forallb_app, D1, D2; reflexivity|].
    intros mm. destruct (R1 mm) as [mm1 Q1]. destruct (R2 mm1) as [mm2 Q2]. exists mm2. rewrite run_app, Q1. exact Q2.
Qed.

Lemma reduce_all_spec : forall order stack_ops a m s d,
  live_inv s d -> (forall x, In x order -> In x stack_ops) -> (forall x, In x stack_ops -> In x m) ->
  exists new m' s' d',
    reduce_all false stack_ops order a m s d = Ok (a ++ new, m', s', d') /\
    live_inv s' d' /\ (forall x, In x stack_ops -> In x m') /\
    forallb depth_ok new = true /\
    forall mm, exists mm', run new (view m, mm) = Some (view m', mm').
Proof.
  induction order as [|op r IH]; intros stack_ops a m s d L Hsub Hin; simpl.
  - exists [], m, s, d. rewrite app_nil_r. split; [reflexivity|]. split; [exact L|]. split; [exact Hin|].
    split; [reflexivity|]. intros mm. exists mm. reflexivity.
  - assert (Hop : In op stack_ops) by (apply Hsub; left; reflexivity).
    destruct (spec_get_depth m op) as [depth|] eqn:G.
    2:{ exfalso. apply (proj2 (get_depth_spec m op)) in G. apply G. apply Hin. exact Hop. }
    destruct (reduce_depth_spec (length m) stack_ops op depth a m s d (le_n _) L Hop G Hin)
      as [new1 [m1 [s1 [d1 [E1 [L1 [Hin1 [_ [D1 R1]]]]]]]]].
    rewrite E1.
    destruct (IH stack_ops (a ++ new1) m1 s1 d1 L1) as [new2 [m' [s' [d' [E2 [L2 [Hin2 [D2 R2]]]]]]]].
    { intros x Hx. apply Hsub. right. exact Hx. } { exact Hin1. }
    exists (new1 ++ new2), m', s', d'. rewrite <- app_assoc in E2.
    split; [exact E2|]. split; [exact L2|]. split; [exact Hin2|].
    split; [rewrite forallb_app, D1, D2; reflexivity|].
    intros mm. destruct (R1 mm) as [mm1 Q1]. destruct (R2 mm1) as [mm2 Q2]. exists mm2. rewrite run_app, Q1. exact Q2.
Qed.

(* ---- restoring spilled targets ---- *)
Lemma lookup_remove_other : forall d op x, x <> op -> sp_lookup (sp_remove d op) x = sp_lookup d x.
Proof.
  induction d as [|[y v] r IH]; intros op x H; simpl; [reflexivity|].
  destruct (Z.eqb_spec y op).
  - subst y. destruct (Z.eqb_spec op x); [congruence|reflexivity].
  - simpl. destruct (y =? x); [reflexivity|]. apply IH. exact H.
Qed.

Lemma restore_all_spec : forall ops a m s d, live_inv s d -> NoDup ops ->
  exists new m1 s1 d1,
    restore_all false ops a m s d = Ok (a ++ new, m1, s1, d1) /\
    live_inv s1 d1 /\ (forall x, In x m -> In x m1) /\
    (forall x, In x ops -> sp_lookup d x <> None -> In x m1) /\
    forallb depth_ok new = true /\
    forall mm, mem_ok mm d -> run new (view m, mm) = Some (view m1, mm).
Proof.
  induction ops as [|op r IH]; intros a m s d L Hnd; simpl.
  - exists [], m, s, d. rewrite app_nil_r. split; [reflexivity|]. split; [exact L|]. split; [auto|].
    split; [intros x []|]. split; [reflexivity|]. intros mm _. reflexivity.
  - inversion Hnd as [|? ? Hnotin Hnd']; subst.
    destruct (sp_lookup d op) as [off|] eqn:E.
    + assert (ER : restore_spilled false op a m s d =
                   Ok (a ++ [APush off; AMload], st_push m op, free_slots false s [off], sp_remove d op)).
      { unfold restore_spilled. rewrite E. reflexivity. }
      rewrite ER.
      assert (L1 : live_inv (free_slots false s [off]) (sp_remove d op))
        by (exact (restore_keeps_live_thm op a m s d _ _ _ _ L ER)).
      destruct (IH (a ++ [APush off; AMload]) (st_push m op) (free_slots false s [off]) (sp_remove d op) L1 Hnd')
        as [new2 [m1 [s1 [d1 [E2 [L2 [In2 [Sp2 [D2 R2]]]]]]]]].
      exists ([APush off; AMload] ++ new2), m1, s1, d1. rewrite <- app_assoc in E2.
      split; [exact E2|]. split; [exact L2|].
      split. { intros x Hx. apply In2. unfold st_push. apply in_or_app. left. exact Hx. }
      split. { intros x [Hx|Hx] Hl.
               - subst x. apply In2. unfold st_push. apply in_or_app. right. left. reflexivity.
               - apply Sp2; [exact Hx|]. rewrite lookup_remove_other; [exact Hl|]. intro Q. subst. contradiction. }
      split; [exact D2|].
      intros mm Hm. rewrite run_app. cbn [run step].
      assert (Hoff : mm off = op) by (apply Hm; apply lookup_in; exact E). rewrite Hoff.
      change (op :: view m) with (evm_push op (view m)). rewrite <- push_view.
      apply R2. intros x o Hx. apply Hm. apply (remove_subset d op (x, o) Hx).
    + destruct (IH a m s d L Hnd') as [new2 [m1 [s1 [d1 [E2 [L2 [In2 [Sp2 [D2 R2]]]]]]]]].
      exists new2, m1, s1, d1. split; [exact E2|]. split; [exact L2|]. split; [exact In2|].
      split. { intros x [Hx|Hx] Hl; [subst x; congruence|apply Sp2; assumption]. }
      split; [exact D2|exact R2].
Qed.

(* ---- the whole _stack_reorder ---- *)
Theorem stack_reorder_full_thm : forall ops a m s d,
  ops <> [] -> live_inv s d -> NoDup ops ->
  (forall x, In x ops -> In x m \/ sp_lookup d x <> None) ->
  exists new m' s' d' cost,
    stack_reorder Z.eqb false ops a m s d = Ok (a ++ new, m', s', d', cost) /\
    skipn (length m' - length ops) m' = ops /\
    live_inv s' d' /\ forallb depth_ok new = true /\
    forall mm, mem_ok mm d -> exists mm', run new (view m, mm) = Some (view m', mm').
Proof.
  intros ops a m s d Hne L Hnd Hav.
  unfold stack_reorder. destruct ops as [|o ops']; [congruence|]. set (ops := o :: ops') in *.
  rewrite (proj2 (nodupb_spec ops) Hnd). cbn [negb].
  destruct (restore_all_spec ops a m s d L Hnd) as [new1 [m1 [s1 [d1 [E1 [L1 [In1 [Sp1 [D1 R1]]]]]]]]].
  rewrite E1.
  assert (Hin1 : forall x, In x ops -> In x m1).
  { intros x Hx. destruct (Hav x Hx) as [Q|Q]; [apply In1; exact Q|apply Sp1; assumption]. }
  destruct (sort_by_depth_ok m1 ops [] Hin1) as [order [Es Ho]]. rewrite Es.
  destruct (reduce_all_spec order ops (a ++ new1) m1 s1 d1 L1) as [new2 [m2 [s2 [d2 [E2 [L2 [Hin2 [D2 R2]]]]]]]].
  { intros x Hx. apply Ho in Hx. destruct Hx as [Hx|[]]. exact Hx. } { exact Hin1. }
  rewrite E2.
  assert (Hlen : (length ops <= length m2)%nat) by (apply NoDup_incl_length; [exact Hnd|exact Hin2]).
  destruct (reorder_place_correct_thm ops ((a ++ new1) ++ new2) m2 s2 (proj1 L2) Hnd Hin2 Hlen)
    as [new3 [m' [s' [cost [E3 [Sk [Len3 [In3 [D3 [I3 [K3 R3]]]]]]]]]]].
  rewrite E3. destruct (list_eq_dec Z.eq_dec (skipn (length m' - length ops) m') ops) as [_|N]; [|contradiction].
  exists (new1 ++ new2 ++ new3), m', s', d2, cost.
  split. { rewrite <- !app_assoc. reflexivity. }
  split; [exact Sk|].
  split; [apply K3; exact L2|].
  split. { rewrite !forallb_app, D1, D2, D3. reflexivity. }
  intros mm Hm. rewrite run_app, (R1 mm Hm). destruct (R2 mm) as [mm2 Q2]. destruct (R3 mm2) as [mm3 Q3].
  exists mm3. rewrite run_app, Q2. exact Q3.
Qed.
