(* C14S property theorems: stack scheduling kernels of the venom back end.
   GenStackModel.v is regenerated from vyper/venom/stack_model.py on every run (T-tie); Spill.v is a hand model of
   stack_spiller.py / _stack_reorder tied by exact-output differential + EVM execution. *)
From Coq Require Import ZArith List Bool.
From Verif Require Import Base.PyInt C14S.PyList C14S.StackSpec C14S.StackSpecProofs C14S.GenStackModel C14S.TieStackModel
  C14S.Spill C14S.SpillProofs C14S.SpillInv C14S.ReorderProofs C14S.ReorderFull C14S.PopProofs C14S.CleanProofs C14S.EmitProofs C14S.JoinProofs C14S.CallProofs C14S.FrameProofs.
Import ListNotations.
Open Scope Z_scope.

(* (a) every StackModel method, as translated from the source, mirrors the EVM stack effect of the opcode emitted
   alongside (view = the stack map read top-first): dup d <-> DUP(1-d), swap d <-> SWAP(-d), pop n <-> n POPs,
   push <-> PUSH; peek/poke address position -d from the top; get_depth returns the (non-positive) depth of the
   occurrence closest to the top, or NOT_IN_STACK iff absent.  Out-of-range depths raise (no silent wrap-around). *)
Theorem stack_model_refines_evm :
  (forall m x, exists m', sm_push m x = Ok (m', tt) /\ view m' = evm_push x (view m)) /\
  (forall m n, 0 <= n <= zlen m -> exists m', sm_pop m n = Ok (m', tt) /\ view m' = skipn (Z.to_nat n) (view m)) /\
  (forall m d, valid_depth m d -> 1 - d <= 16 ->
     exists m', sm_dup m d = Ok (m', tt) /\ evm_dup (1 - d) (view m) = Some (view m')) /\
  (forall m d, valid_depth m d -> exists m', sm_dup m d = Ok (m', tt) /\ view m' = nth (pos d) (view m) 0 :: view m) /\
  (forall m d, valid_depth m d -> d < 0 -> - d <= 16 ->
     exists m', sm_swap m d = Ok (m', tt) /\ evm_swap (- d) (view m) = Some (view m')) /\
  (forall m d, valid_depth m d -> d < 0 -> exists m', sm_swap m d = Ok (m', tt) /\ view m' = swap_view (pos d) (view m)) /\
  (forall m d, valid_depth m d -> sm_peek m d = Ok (m, nth (pos d) (view m) 0)) /\
  (forall m d x, valid_depth m d -> exists m', sm_poke m d x = Ok (m', tt) /\ view m' = set_nth (view m) (pos d) x) /\
  (forall (m : list Z) d, (0 < d \/ zlen m <= - d) -> is_ok (sm_dup m d) = false) /\
  (forall (m : list Z) d, (0 <= d \/ zlen m <= - d) -> is_ok (sm_swap m d) = false) /\
  (forall m x, sm_get_depth m x = Ok (m, spec_get_depth m x)) /\
  (forall m x,
     (forall d, spec_get_depth m x = Some d ->
        valid_depth m d /\ nth (pos d) (view m) 0 = x /\ forall k, (k < pos d)%nat -> nth k (view m) 0 <> x) /\
     (spec_get_depth m x = None <-> ~ In x m)).
Proof.
  split. { intros m x. exists (st_push m x). split; [apply tie_push|apply push_view]. }
  split. { intros m n H. exists (st_pop m n). split; [apply tie_pop; exact H|apply pop_view; exact H]. }
  split. { intros m d V H. exists (st_dup m d). split; [apply tie_dup; exact V|apply dup_view; assumption]. }
  split. { intros m d V. exists (st_dup m d). split; [apply tie_dup; exact V|apply dup_view_any; exact V]. }
  split. { intros m d V N H. exists (st_swap m d). split; [apply tie_swap; assumption|apply swap_view_evm; assumption]. }
  split. { intros m d V N. exists (st_swap m d). split; [apply tie_swap; assumption|apply swap_view_any; assumption]. }
  split. { intros m d V. rewrite (tie_peek m d V), (peek_view m d V). reflexivity. }
  split. { intros m d x V. exists (st_poke m d x). split; [apply tie_poke; exact V|apply poke_view; exact V]. }
  split. { exact tie_dup_fails. }
  split. { exact tie_swap_fails. }
  split. { exact tie_get_depth. }
  intros m x. destruct (get_depth_spec m x) as [A B]. split; [|exact B].
  intros d H. destruct (A d H) as [V [P Q]]. split; [exact V|]. split; [|exact Q].
  rewrite <- (peek_view m d V). exact P.
Qed.
Print Assumptions stack_model_refines_evm.

(* get_phi_depth: the depth of the unique stack item among phis; NOT_IN_STACK iff none; assertion failure if several *)
Theorem get_phi_depth_spec : forall m phis,
  sm_get_phi_depth m phis = match phi_scan phis (view m) 0 None with Ok r => Ok (m, r) | Err e => Err e end.
Proof. exact tie_get_phi_depth. Qed.

(* (b) the spiller: for ANY stack height the emitted sequence performs the requested swap / dup on the machine
   stack and on the stack map, every emitted SWAPn/DUPn has 1 <= n <= 16, memory at live slots is not written *)
Theorem spill_swap_correct : forall depth a m s,
  sp_inv s -> valid_depth m depth -> depth < 0 ->
  exists new s' cost,
    sp_swap false depth a m s = Ok (a ++ new, st_swap m depth, s', cost) /\
    forallb depth_ok new = true /\
    sp_inv s' /\ sp_next s <= sp_next s' /\
    (forall f, In f (sp_free s) -> In f (sp_free s')) /\
    (forall f, In f (sp_free s') -> In f (sp_free s) \/ sp_next s <= f < sp_next s') /\
    forall mm, exists mm',
      run new (view m, mm) = Some (view (st_swap m depth), mm') /\
      (forall o, o < sp_next s -> ~ In o (sp_free s) -> mm' o = mm o).
Proof. exact spill_swap_correct_thm. Qed.
Print Assumptions spill_swap_correct.

Theorem spill_dup_correct : forall depth a m s,
  sp_inv s -> valid_depth m depth ->
  exists new s' cost,
    sp_dup false depth a m s = Ok (a ++ new, st_dup m depth, s', cost) /\
    forallb depth_ok new = true /\
    sp_inv s' /\ sp_next s <= sp_next s' /\
    (forall f, In f (sp_free s') -> In f (sp_free s) \/ sp_next s <= f < sp_next s') /\
    forall mm, exists mm',
      run new (view m, mm) = Some (view (st_dup m depth), mm') /\
      (forall o, o < sp_next s -> ~ In o (sp_free s) -> mm' o = mm o).
Proof. exact spill_dup_correct_thm. Qed.
Print Assumptions spill_dup_correct.

(* spill_swap_depth_le16 is the second conjunct of the two theorems above (forallb depth_ok new = true). *)

(* spill_slots_no_alias: live spilled slots are pairwise distinct, below the cursor and never in the free list;
   preserved by swap, dup, spill_operand, restore_spilled_operand and release_dead_spills (and by _stack_reorder:
   stack_reorder_full) *)
Theorem spill_slots_no_alias :
  (forall depth a m s d a' m' s' c, live_inv s d -> valid_depth m depth -> depth < 0 ->
     sp_swap false depth a m s = Ok (a', m', s', c) -> live_inv s' d) /\
  (forall depth a m s d a' m' s' c, live_inv s d -> valid_depth m depth ->
     sp_dup false depth a m s = Ok (a', m', s', c) -> live_inv s' d) /\
  (forall depth a m s d a' m' s' d', live_inv s d ->
     spill_operand false depth a m s d = Ok (a', m', s', d') -> live_inv s' d') /\
  (forall op a m s d a' m' s' d', live_inv s d ->
     restore_spilled false op a m s d = Ok (a', m', s', d') -> live_inv s' d') /\
  (forall live s d, live_inv s d -> live_inv (fst (release_dead live s d)) (snd (release_dead live s d))) /\
  live_inv (mkSp [] 0 0) [].
Proof.
  split; [exact swap_keeps_live_thm|]. split; [exact dup_keeps_live_thm|].
  split; [exact spill_operand_keeps_live_thm|]. split; [exact restore_keeps_live_thm|].
  split; [exact release_dead_keeps_live_thm|].
  repeat split; simpl; try constructor; intros; contradiction.
Qed.
Print Assumptions spill_slots_no_alias.

(* (c) _stack_reorder.  Placement loop: for ANY stack height and any duplicate-free target whose operands are on the
   stack, the loop terminates without error, leaves the target as the top |target| items in order, keeps the height
   and every operand of the stack, emits only SWAPs with index <= 16 (deep ones through spilling) and the emitted
   code realises the new stack map on the machine. *)
Theorem reorder_place_correct : forall ops a m s,
  sp_inv s -> NoDup ops -> (forall x, In x ops -> In x m) -> (length ops <= length m)%nat ->
  exists new m' s' cost,
    place Z.eqb false (zlen ops) ops 0 a m s 0 = Ok (a ++ new, m', s', cost) /\
    skipn (length m' - length ops) m' = ops /\
    length m' = length m /\ (forall x, In x m -> In x m') /\
    forallb depth_ok new = true /\ sp_inv s' /\ (forall d, live_inv s d -> live_inv s' d) /\
    forall mm, exists mm', run new (view m, mm) = Some (view m', mm').
Proof. exact reorder_place_correct_thm. Qed.
Print Assumptions reorder_place_correct.

(* the whole _stack_reorder (restore / sort / reduce / place / final assertion) when no target is spilled and every
   target is within SWAP16 reach -- the documented preconditions of the common path; any stack height *)
Theorem stack_reorder_correct : forall ops a m s d,
  ops <> [] -> sp_inv s -> NoDup ops ->
  (forall x, In x ops -> sp_lookup d x = None) ->
  (forall x, In x ops -> exists dp, spec_get_depth m x = Some dp /\ -16 <= dp) ->
  exists new m' s' cost,
    stack_reorder Z.eqb false ops a m s d = Ok (a ++ new, m', s', d, cost) /\
    skipn (length m' - length ops) m' = ops /\
    length m' = length m /\ (forall x, In x m -> In x m') /\
    forallb depth_ok new = true /\ sp_inv s' /\
    forall mm, exists mm', run new (view m, mm) = Some (view m', mm').
Proof. exact stack_reorder_correct_thm. Qed.
Print Assumptions stack_reorder_correct.

(* ... and in full generality of target positions: targets may be spilled (restored first; memory must hold them in
   their slots: mem_ok) and arbitrarily deep (_reduce_depth_via_spill); any stack height.  DFG equivalence = identity. *)
Theorem stack_reorder_full : forall ops a m s d,
  ops <> [] -> live_inv s d -> NoDup ops ->
  (forall x, In x ops -> In x m \/ sp_lookup d x <> None) ->
  exists new m' s' d' cost,
    stack_reorder Z.eqb false ops a m s d = Ok (a ++ new, m', s', d', cost) /\
    skipn (length m' - length ops) m' = ops /\
    live_inv s' d' /\ forallb depth_ok new = true /\
    forall mm, mem_ok mm d -> exists mm', run new (view m, mm) = Some (view m', mm').
Proof. exact stack_reorder_full_thm. Qed.
Print Assumptions stack_reorder_full.

(* ---- popmany, block-entry cleanup, _emit_input_operands, join blocks ---- *)
(* popmany: for ANY stack map low ++ high (any height; `low` arbitrary: dead slots, duplicates) in which the operands to pop
   that are present all lie in `high` (distinct items), popmany succeeds on both of its paths (contiguous run below the
   top: one SWAP + POPs; general: SWAP-to-top + POP per operand, spill-assisted beyond 16), leaves `low` untouched
   position by position, the new upper part is the old one minus the popped operands, the code realises the new map
   and every live spilled word survives. *)
Theorem popmany_correct : forall to_pop a low high s,
  sp_inv s -> NoDup high -> NoDup to_pop ->
  (forall x, In x to_pop -> In x (low ++ high) -> In x high) ->
  exists new high' s',
    popmany to_pop a (low ++ high) s = Ok (a ++ new, low ++ high', s') /\
    forallb depth_ok new = true /\ sp_inv s' /\ (forall d, live_inv s d -> live_inv s' d) /\
    NoDup high' /\ (forall y, In y high' <-> In y high /\ ~ In y to_pop) /\
    forall mm, exists mm', run new (view (low ++ high), mm) = Some (view (low ++ high'), mm') /\
                           forall d, live_inv s d -> mem_ok mm d -> mem_ok mm' d.
Proof. exact popmany_correct_thm. Qed.
Print Assumptions popmany_correct.

(* clean_stack_from_cfg_in (the dead-prefix elision; defect ac6097c lived here).  Invariant: every item that is not a
   _DeadStackItem is live at block entry and the retained prefix is never above a live item.  For ANY incoming stack map
   whose dead slots form a prefix and whose other items are distinct members of the predecessor's output layout, ANY
   layout / inputs / height / height promise: no CompilerPanic, no failed assertion, and afterwards (clean_post):
   dead slots form a prefix, every other item is a live-in of the block, no live-in that was on the stack is lost, the
   items stay distinct, the emitted code realises the map up to the contents of dead slots, live spilled words survive.
   (The dead phi output of ac6097c violated the hypothesis "every non-dead item is in the layout": a theorem with this
   hypothesis shows exactly which caller obligation was broken.) *)
Theorem clean_correct : forall layout inputs bound promise a m s,
  sp_inv s ->
  dead_prefix_ok m false = true ->
  (forall x, In x m -> alive x -> In x layout) ->
  NoDup (filter aliveb m) ->
  NoDup layout -> (forall x, In x layout -> alive x) -> (forall x, In x inputs -> alive x) ->
  clean_post inputs a m s (clean_from_cfg_in layout inputs bound promise a m s).
Proof. exact clean_correct_thm. Qed.
Print Assumptions clean_correct.

(* _emit_input_operands (not an invoke): for ANY stack map and operand list (labels, literals, distinct variables that
   are on the stack at any depth or spilled) the new map is the old one followed, operand by operand, by: the label /
   literal; for a variable one copy if it was restored from its slot and one (more) if it stays live (DUP, spill-assisted
   beyond 16); nothing for a variable on the stack that dies here.  Restored operands leave the spilled dict, all other
   spilled words are preserved, the code realises the map. *)
Theorem emit_inputs_correct : forall ops live a m s d,
  live_inv s d ->
  NoDup (filter is_var ops) ->
  (forall x, In x ops -> is_label x = true \/ is_lit x = true \/ is_var x = true) ->
  (forall x, In x ops -> is_var x = true -> In x m \/ sp_lookup d x <> None) ->
  exists new s' d',
    emit_inputs false ops live a m s d = Ok (a ++ new, m ++ emitted ops live d, s', d') /\
    forallb depth_ok new = true /\ live_inv s' d' /\
    (forall p, In p d' -> In p d) /\
    (forall x, In x ops -> is_var x = true -> sp_lookup d' x = None) /\
    (forall x, ~ In x ops -> sp_lookup d' x = sp_lookup d x) /\
    forall mm, mem_ok mm d -> exists mm',
      run new (view m, mm) = Some (view (m ++ emitted ops live d), mm') /\ mem_ok mm' d'.
Proof. exact emit_inputs_correct_thm. Qed.
Print Assumptions emit_inputs_correct.

(* join blocks: every predecessor reorders to the same target list; whatever its own stack map / spilled dict / spiller
   state, the list ends up on top in that order (stack_reorder_full); maps of equal height that hold nothing else are equal *)
Theorem join_layouts_agree : forall tgt a1 m1 s1 d1 a2 m2 s2 d2,
  tgt <> [] -> NoDup tgt ->
  live_inv s1 d1 -> (forall x, In x tgt -> In x m1 \/ sp_lookup d1 x <> None) ->
  live_inv s2 d2 -> (forall x, In x tgt -> In x m2 \/ sp_lookup d2 x <> None) ->
  exists new1 m1' s1' d1' c1 new2 m2' s2' d2' c2,
    stack_reorder Z.eqb false tgt a1 m1 s1 d1 = Ok (a1 ++ new1, m1', s1', d1', c1) /\
    stack_reorder Z.eqb false tgt a2 m2 s2 d2 = Ok (a2 ++ new2, m2', s2', d2', c2) /\
    skipn (length m1' - length tgt) m1' = tgt /\ skipn (length m2' - length tgt) m2' = tgt /\
    (length m1' = length m2' -> length m1' = length tgt -> m1' = m2') /\
    (forall mm, mem_ok mm d1 -> exists mm', run new1 (view m1, mm) = Some (view m1', mm')) /\
    (forall mm, mem_ok mm d2 -> exists mm', run new2 (view m2, mm) = Some (view m2', mm')).
Proof. exact join_layouts_agree_thm. Qed.
Print Assumptions join_layouts_agree.

(* non-vacuity: the contiguous and the general path of popmany; a cleanup that retains a dead prefix (items 5, 9 are below
   the deepest live-in 13 and become dead slots, 17 is popped); emit with a literal, a label, a live and a dying variable *)
Example popmany_examples :
  (match popmany [5; 9] [] [1; 5; 9; 13] (mkSp [] 4096 0) with
   | Ok (a, m, _) => (length a =? 3)%nat && (if list_eq_dec Z.eq_dec m [1; 13] then true else false) | Err _ => false end) = true /\
  (match popmany [5; 13] [] [1; 5; 9; 13; 17] (mkSp [] 4096 0) with
   | Ok (a, m, _) => forallb depth_ok a && (if list_eq_dec Z.eq_dec m [1; 17; 9] then true else false) | Err _ => false end) = true.
Proof. vm_compute. split; reflexivity. Qed.
Example clean_example :
  match clean_from_cfg_in [5; 9; 13; 17; 21] [13; 21] None (Some 7) [] [3; 5; 9; 13; 17; 21] (mkSp [] 4096 0) with
  | Ok (a, m, _, b) => (if list_eq_dec Z.eq_dec m [3; 3; 3; 13; 21] then true else false) && (length a =? 2)%nat
                       && (match b with Some 7 => true | _ => false end)
  | Err _ => false end = true.
Proof. vm_compute. reflexivity. Qed.
Example emit_example :
  match emit_inputs false [8; 6; 5; 9] [5] [] [5; 9] (mkSp [] 4096 0) [] with
  | Ok (a, m, _, _) => (if list_eq_dec Z.eq_dec m [5; 9; 8; 6; 5] then true else false) && (length a =? 3)%nat
  | Err _ => false end = true.
Proof. vm_compute. reflexivity. Qed.

(* ---- internal-call convention ---- *)
(* frame rule: code that runs on a stack runs identically on any extension of it below: the callee cannot read or
   write the caller's frame (every DUP/SWAP/POP it executes is within its own stack map) *)
Theorem run_frame : forall code s mm s' mm' below,
  run code (s, mm) = Some (s', mm') -> run code (s ++ below, mm) = Some (s' ++ below, mm').
Proof. exact run_frame_thm. Qed.
Print Assumptions run_frame.

(* invoke_ret_correct: for every argument count (any stack height; deep and spilled arguments included) the callee is
   entered with its i-th param = the caller's i-th argument and the return pc on top; whatever code the callee runs,
   if it is correct on its own frame and ends on exactly (return values, return pc), then after the return JUMP the
   caller's stack is (stack below the call frame, unchanged) ++ (return values in declared order) and the return pc has
   been consumed by that JUMP. *)
Theorem invoke_ret_correct : forall args a m s d RL rets body,
  args <> [] -> live_inv s d -> NoDup args ->
  (forall x, In x args -> In x m \/ sp_lookup d x <> None) ->
  (forall mm, exists mm', run body (view (args ++ [RL]), mm) = Some (view (rets ++ [RL]), mm')) ->
  exists new m' s' d' cost,
    stack_reorder Z.eqb false args a m s d = Ok (a ++ new, m', s', d', cost) /\
    (forall mm, mem_ok mm d -> exists mm1,
       run (new ++ [APushLabel RL]) (view m, mm) = Some (view (args ++ [RL]) ++ view (st_pop m' (zlen args)), mm1)) /\
    (forall mm, mem_ok mm d -> exists mm2 s2,
       run (new ++ [APushLabel RL] ++ body) (view m, mm) = Some (s2, mm2) /\
       jump_to RL s2 = Some (view (invoke_map m' (length args) rets))) /\
    live_inv s' d' /\ forallb depth_ok new = true.
Proof. exact invoke_ret_correct_thm. Qed.
Print Assumptions invoke_ret_correct.

(* spill regions across functions (defect c14s:spill-region-aliases-caller-frame: the cursor started at fn_eom[fn], inside
   the caller's frame).  With set_current_function's rule  cursor = max(max fn_eom, peak_spill_end)  (Spill.start_fn),
   whatever each function does with the spiller (any sequence of slot requests and releases of its own slots):
   every spill word of every function starts at or above the end of EVERY function's static frame (frames lie in
   [0, fn_eom[g])), and the words of different functions are disjoint (an earlier function's words end below every
   later function's slots).  Hence a callee can never overwrite a caller's memory-passed arguments, memory locals or
   spilled operands, for any call graph. *)
Theorem spill_regions_disjoint_across_calls : forall eoms fns s us,
  run_fns eoms fns s = Some us ->
  (forall u o e, In u us -> In o u -> In e eoms -> e <= o) /\ regions_ordered us.
Proof. exact spill_regions_disjoint_across_calls_thm. Qed.
Print Assumptions spill_regions_disjoint_across_calls.
Example regions_example :
  run_fns [0; 480] [[SGet; SGet; SFree [480]; SGet]; [SGet]] (mkSp [] 0 0) = Some [[480; 512; 480]; [544]].
Proof. vm_compute. reflexivity. Qed.

(* non-vacuity: a 40-deep swap and a 30-deep dup on concrete stacks *)
Definition big := map Z.of_nat (seq 1 41).
Example deep_examples :
  (match sp_swap false (-39) [] big (mkSp [] 4096 0) with
   | Ok (a, m, _, _) => forallb depth_ok a && (length a =? 160)%nat && (nth 1 m 0 =? 41) && (nth 40 m 0 =? 2) | Err _ => false end) = true /\
  (match sp_dup false (-29) [] big (mkSp [] 4096 0) with
   | Ok (a, m, _, _) => forallb depth_ok a && (nth 41 m 0 =? 12) && (length m =? 42)%nat | Err _ => false end) = true.
Proof. vm_compute. split; reflexivity. Qed.
Example reorder_example :
  match stack_reorder Z.eqb false [5; 9; 1] [] [1; 5; 7; 9; 11] (mkSp [] 4096 0) [] with
  | Ok (a, m, _, _, _) => forallb depth_ok a && (if list_eq_dec Z.eq_dec m [7; 11; 5; 9; 1] then true else false) | Err _ => false end = true.
Proof. vm_compute. reflexivity. Qed.
