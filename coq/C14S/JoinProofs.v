(* C14S: join-block stack agreement.  Every predecessor of a join block ends with `_stack_reorder` to the SAME target
   list input_vars_from(pred, succ) (phi-normalised).  By stack_reorder_full (any height, deep and spilled targets) each
   predecessor's final stack map has exactly that list on top, in that order, whatever its incoming stack map / spilled
   dict / spiller state was; when the maps hold nothing else (dead items were popped: the checker on real compiles
   observes equal heights) the two maps are equal. *)
From Coq Require Import ZArith List Bool Lia.
From Verif Require Import Base.PyInt C14S.PyList C14S.StackSpec C14S.StackSpecProofs C14S.Spill C14S.SpillProofs C14S.SpillInv
  C14S.ReorderProofs C14S.ReorderFull.
Import ListNotations.
Open Scope Z_scope.

Theorem join_layouts_agree_thm : forall tgt a1 m1 s1 d1 a2 m2 s2 d2,
  tgt <> [] -> NoDup tgt ->
  live_inv s1 d1 -> (forall x, In x tgt -> In x m1 \/ sp_lookup d1 x <> None) ->
  live_inv s2 d2 -> (forall x, In x tgt -> In x m2 \/ sp_lookup d2 x <> None) ->
  exists new1 m1' s1' d1' c1 new2 m2' s2' d2' c2,
    stack_reorder Z.eqb false tgt a1 m1 s1 d1 = Ok (a1 ++ new1, m1', s1', d1', c1) /\
    stack_reorder Z.eqb false tgt a2 m2 s2 d2 = Ok (a2 ++ new2, m2', s2', d2', c2) /\
    skipn (length m1' - length tgt) m1' = tgt /\ skipn (length m2' - length tgt) m2' = tgt /\
    (length m1' = length m2' -> length m1' = length tgt -> m1' = m2') /\
    (forall mm, mem_ok mm d1 -> exists mm', run new1 (view m1, mm) = Some (view m1', mm')) /\
    (forall mm, mem_ok mm d2 -> exists mm', run new2 (view m2, mm) = Some (view m2', mm')).
Proof.
  intros tgt a1 m1 s1 d1 a2 m2 s2 d2 Hne Hnd L1 A1 L2 A2.
  destruct (stack_reorder_full_thm tgt a1 m1 s1 d1 Hne L1 Hnd A1) as [new1 [m1' [s1' [d1' [c1 [E1 [T1 [_ [_ R1]]]]]]]]].
  destruct (stack_reorder_full_thm tgt a2 m2 s2 d2 Hne L2 Hnd A2) as [new2 [m2' [s2' [d2' [c2 [E2 [T2 [_ [_ R2]]]]]]]]].
  exists new1, m1', s1', d1', c1, new2, m2', s2', d2', c2.
  split; [exact E1|]. split; [exact E2|]. split; [exact T1|]. split; [exact T2|]. split; [|split; assumption].
  intros H12 H1. rewrite H1, Nat.sub_diag in T1. rewrite <- H12, H1, Nat.sub_diag in T2. simpl in T1, T2. congruence.
Qed.
