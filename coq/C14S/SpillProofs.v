(* C14S proofs about the spiller model (Spill.v), for ANY stack height (dry_run = false):
   - every emitted SWAPn/DUPn has 1 <= n <= 16                    (swap_depth_le16, dup_depth_le16)
   - the emitted sequence, executed on the EVM stack + memory, performs exactly the requested swap / dup,
     and so does the stack map                                    (spill_swap_correct, spill_dup_correct)
   - the free-slot list never contains a slot holding a live spilled operand, slots are pairwise distinct,
     and memory at live spilled slots is never written            (slot invariant) *)
From Coq Require Import ZArith List Bool Lia.
From Verif Require Import Base.PyInt C14S.PyList C14S.StackSpec C14S.StackSpecProofs C14S.Spill.
Import ListNotations.
Open Scope Z_scope.

(* ---------- view-level facts about the stack-map operations ---------- *)
Lemma view_inv : forall m, rev (view m) = m. Proof. intros. unfold view. apply rev_involutive. Qed.
Lemma zlen_view : forall m : list Z, zlen (view m) = zlen m. Proof. intros. unfold view. apply zlen_rev. Qed.

Lemma view_cons_peek0 : forall m x s, view m = x :: s -> st_peek m 0 = x /\ view (st_pop m 1) = s /\ 0 < zlen m.
Proof.
  intros m x s H.
  assert (L : 0 < zlen m) by (rewrite <- zlen_view, H; unfold zlen; simpl; lia).
  assert (V : valid_depth m 0) by (split; lia).
  split; [|split; [|exact L]].
  - rewrite (peek_view m 0 V), H. reflexivity.
  - rewrite pop_view by lia. rewrite H. reflexivity.
Qed.

(* ---------- slots ---------- *)
Definition sp_inv (s : sp) : Prop := NoDup (sp_free s) /\ forall f, In f (sp_free s) -> f < sp_next s.

Fixpoint take_slots (n : nat) (s : sp) : list Z * sp :=
  match n with
  | O => ([], s)
  | S k => let '(s1, o) := get_slot false s in let '(os, s2) := take_slots k s1 in (o :: os, s2)
  end.

Lemma get_slot_spec : forall s s1 o, sp_inv s -> get_slot false s = (s1, o) ->
  sp_inv s1 /\ ~ In o (sp_free s1) /\ o < sp_next s1 /\ sp_next s <= sp_next s1 /\
  (In o (sp_free s) \/ sp_next s <= o) /\
  (forall f, In f (sp_free s1) -> In f (sp_free s)).
Proof.
  intros s s1 o [Hn Hb] H. unfold get_slot in H. destruct (sp_free s) as [|x r] eqn:E.
  - inversion H; subst; simpl. repeat split; try constructor; simpl; intros; try tauto; lia.
  - inversion H; subst; simpl. inversion Hn; subst.
    assert (Hx : o < sp_next s) by (apply Hb; left; reflexivity).
    split; [split; [assumption|intros f Hf; apply Hb; right; exact Hf]|].
    split; [assumption|]. split; [exact Hx|]. split; [lia|]. split; [left; left; reflexivity|].
    intros f Hf. right. exact Hf.
Qed.

Lemma take_slots_spec : forall n s offs s', sp_inv s -> take_slots n s = (offs, s') ->
  sp_inv s' /\ length offs = n /\ NoDup offs /\ sp_next s <= sp_next s' /\
  (forall o, In o offs -> ~ In o (sp_free s') /\ o < sp_next s' /\ (In o (sp_free s) \/ sp_next s <= o)) /\
  (forall f, In f (sp_free s') -> In f (sp_free s)).
Proof.
  induction n as [|k IH]; intros s offs s' Hi H; simpl in H.
  - inversion H; subst.
    split; [exact Hi|]. split; [reflexivity|]. split; [constructor|]. split; [lia|].
    split; [intros o []|auto].
  - destruct (get_slot false s) as [s1 o] eqn:G. destruct (take_slots k s1) as [os s2] eqn:T. inversion H; subst.
    destruct (get_slot_spec _ _ _ Hi G) as [I1 [N1 [B1 [M1 [O1 S1]]]]].
    destruct (IH _ _ _ I1 T) as [I2 [L2 [D2 [M2 [P2 S2]]]]].
    split; [exact I2|]. split; [simpl; lia|].
    split.
    { constructor; auto. intro Hin. destruct (P2 o Hin) as [_ [_ [Hf|Hge]]]; [contradiction|lia]. }
    split; [lia|]. split.
    { intros o0 [E|Hin].
      - subst o0. split; [intro Hf; apply N1; apply S2; exact Hf|]. split; [lia|exact O1].
      - destruct (P2 o0 Hin) as [Q1 [Q2 Q3]]. split; [exact Q1|]. split; [exact Q2|].
        destruct Q3 as [Hf|Hge]; [left; apply S1; exact Hf|right; lia]. }
    intros f Hf. apply S1. apply S2. exact Hf.
Qed.

Lemma nodup_app : forall (a b : list Z), NoDup a -> NoDup b -> (forall x, In x a -> ~ In x b) -> NoDup (a ++ b).
Proof.
  induction a as [|x a IH]; intros b Ha Hb Hd; simpl; [exact Hb|].
  inversion Ha; subst. constructor.
  - intro Hin. apply in_app_or in Hin. destruct Hin as [Hin|Hin]; [contradiction|]. apply (Hd x (or_introl eq_refl) Hin).
  - apply IH; auto. intros y Hy. apply Hd. right. exact Hy.
Qed.

Lemma free_slots_inv : forall s offs,
  sp_inv s -> NoDup offs -> (forall o, In o offs -> ~ In o (sp_free s) /\ o < sp_next s) ->
  sp_inv (free_slots false s offs).
Proof.
  intros s offs [Hn Hb] Hd Ho. unfold free_slots, sp_inv. simpl. split.
  - apply nodup_app.
    + apply NoDup_rev. exact Hd.
    + exact Hn.
    + intros x Hx. rewrite <- in_rev in Hx. apply (Ho x Hx).
  - intros f Hf. apply in_app_or in Hf. destruct Hf as [Hf|Hf]; [rewrite <- in_rev in Hf; apply (Ho f Hf)|apply Hb; exact Hf].
Qed.

(* ---------- spilling a segment ---------- *)
Definition code_spill (offs : list Z) : list ainstr := flat_map (fun o => [APush o; AMstore]) offs.
Fixpoint mem_after (mm : mem) (offs ops : list Z) : mem :=
  match offs, ops with
  | o :: os, x :: xs => mem_after (mset mm o x) os xs
  | _, _ => mm
  end.

Lemma run_app : forall l1 l2 sm, run (l1 ++ l2) sm = match run l1 sm with Some sm' => run l2 sm' | None => None end.
Proof. induction l1; intros; simpl; auto. destruct (step a sm); auto. Qed.

Lemma spill_segment_spec : forall count a m s ops restv offs s',
  view m = ops ++ restv -> length ops = count -> take_slots count s = (offs, s') ->
  exists m', spill_segment count false a m s = Ok (a ++ code_spill offs, m', s', ops, offs) /\ view m' = restv /\
  forall mm, run (code_spill offs) (view m, mm) = Some (restv, mem_after mm offs ops).
Proof.
  induction count as [|k IH]; intros a m s ops restv offs s' Hv Hl Ht.
  - destruct ops; [|discriminate]. simpl in Hv, Ht. inversion Ht; subst offs s'. exists m.
    simpl. rewrite app_nil_r. split; [reflexivity|]. split; [exact Hv|]. intros mm. rewrite Hv. reflexivity.
  - destruct ops as [|x ops]; [discriminate|]. simpl in Hl. inversion Hl as [Hl'].
    simpl in Ht. destruct (get_slot false s) as [s1 o] eqn:G. destruct (take_slots k s1) as [os s2] eqn:T.
    inversion Ht; subst offs s'. simpl in Hv.
    destruct (view_cons_peek0 m x (ops ++ restv) Hv) as [Hp [Hpop Hpos]].
    destruct (IH (a ++ [APush o; AMstore]) (st_pop m 1) s1 ops restv os s2 Hpop Hl' T) as [m' [E [Vm R]]].
    exists m'. split; [|split; [exact Vm|]].
    + cbn [spill_segment]. destruct (Z.leb_spec (zlen m) 0); [lia|]. rewrite G. cbv beta iota zeta. rewrite Hl', E, Hp.
      rewrite <- app_assoc. reflexivity.
    + intros mm. simpl. rewrite Hv. simpl. rewrite <- Hpop. apply R.
Qed.

Lemma mem_after_other : forall offs ops mm o, ~ In o offs -> mem_after mm offs ops o = mm o.
Proof.
  induction offs as [|x os IH]; intros ops mm o H; destruct ops; simpl; auto.
  rewrite IH by (intro; apply H; right; assumption).
  unfold mset. destruct (Z.eqb_spec o x); [exfalso; apply H; left; auto|reflexivity].
Qed.
Lemma mem_after_nth : forall offs ops mm i, NoDup offs -> length offs = length ops -> (i < length offs)%nat ->
  mem_after mm offs ops (nth i offs 0) = nth i ops 0.
Proof.
  induction offs as [|x os IH]; intros ops mm i Hd Hl Hi; destruct ops; simpl in *; try lia.
  inversion Hd; subst. destruct i.
  - rewrite mem_after_other by assumption. unfold mset. rewrite Z.eqb_refl. reflexivity.
  - apply IH; auto; lia.
Qed.

(* ---------- restoring by index list ---------- *)
Definition code_restore (offs : list Z) (order : list nat) : list ainstr :=
  flat_map (fun i => [APush (nth i offs 0); AMload]) order.

Lemma restore_indices_spec : forall order ops offs a m,
  restore_indices order ops offs a m = (a ++ code_restore offs order, m ++ map (fun i => nth i ops 0) order).
Proof.
  unfold restore_indices. induction order as [|i r IH]; intros ops offs a m; simpl.
  - rewrite !app_nil_r. reflexivity.
  - rewrite IH. simpl. unfold st_push. rewrite <- !app_assoc. reflexivity.
Qed.
Lemma run_restore : forall order offs s mm,
  run (code_restore offs order) (s, mm) = Some (rev (map (fun i => mm (nth i offs 0)) order) ++ s, mm).
Proof.
  induction order as [|i r IH]; intros offs s mm; simpl; [reflexivity|].
  rewrite IH. simpl. rewrite <- app_assoc. reflexivity.
Qed.

(* ---------- list facts for the permuted restore ---------- *)
Lemma map_nth_seq_mid : forall (mid pre tail : list Z),
  map (fun i => nth i (pre ++ mid ++ tail) 0) (seq (length pre) (length mid)) = mid.
Proof.
  induction mid as [|y mid IH]; intros pre tail; simpl; [reflexivity|].
  f_equal.
  - rewrite app_nth2 by lia. rewrite Nat.sub_diag. reflexivity.
  - specialize (IH (pre ++ [y]) tail). rewrite app_length in IH. simpl in IH.
    rewrite Nat.add_1_r in IH. rewrite <- app_assoc in IH. simpl in IH. exact IH.
Qed.

Lemma split_ends : forall (l : list Z) k, length l = S (S k) ->
  exists x0 mid xk, l = x0 :: mid ++ [xk] /\ length mid = k.
Proof.
  intros l k H. destruct l as [|x0 t]; [discriminate|]. simpl in H. inversion H as [H'].
  destruct (exists_last (l := t)) as [mid [xk E]]; [intro E; subst; discriminate|].
  subst t. rewrite app_length in H'. simpl in H'. exists x0, mid, xk. split; [reflexivity|lia].
Qed.

Lemma swap_view_ends : forall x0 mid xk rest,
  swap_view (S (length mid)) (x0 :: mid ++ xk :: rest) = xk :: mid ++ x0 :: rest.
Proof.
  intros. unfold swap_view. simpl.
  rewrite app_nth2 by lia. rewrite Nat.sub_diag. simpl.
  rewrite set_nth_app_r by lia. rewrite Nat.sub_diag. reflexivity.
Qed.

Lemma code_spill_ok : forall offs, forallb depth_ok (code_spill offs) = true.
Proof. induction offs; simpl; auto. Qed.
Lemma code_restore_ok : forall offs order, forallb depth_ok (code_restore offs order) = true.
Proof. induction order; simpl; auto. Qed.

Lemma view_injective : forall a b : list Z, view a = view b -> a = b.
Proof. intros a b H. rewrite <- (view_inv a), <- (view_inv b), H. reflexivity. Qed.

Lemma map_ext_in_nat : forall (f g : nat -> Z) l, (forall i, In i l -> f i = g i) -> map f l = map g l.
Proof. intros. apply map_ext_in. assumption. Qed.

(* ---------- StackSpiller.swap ---------- *)
Theorem spill_swap_correct_thm : forall depth a m s,
  sp_inv s -> valid_depth m depth -> depth < 0 ->
  exists new s' cost,
    sp_swap false depth a m s = Ok (a ++ new, st_swap m depth, s', cost) /\
    forallb depth_ok new = true /\
    sp_inv s' /\ sp_next s <= sp_next s' /\
    (forall f, In f (sp_free s) -> In f (sp_free s')) /\
    (forall f, In f (sp_free s') -> In f (sp_free s) \/ sp_next s <= f < sp_next s') /\
    forall mm, exists mm',
      run new (view m, mm) = Some (view (st_swap m depth), mm') /\
      (forall o, o < sp_next s -> ~ In o (sp_free s) -> mm' o = mm o).
Proof.
  intros depth a m s Hinv Hv Hneg. unfold sp_swap.
  destruct (Z.eqb_spec depth 0); [lia|].
  destruct (Z.leb_spec (- depth) 16) as [H16|Hdeep].
  - (* SWAPn *)
    destruct Hv as [Hv1 Hv2].
    destruct (Z.ltb_spec depth 0); [|lia]. destruct (Z.ltb_spec (- depth) (zlen m)); [|lia]. simpl.
    exists [ASwap (- depth)], s, 1. split; [reflexivity|].
    split. { simpl. destruct (Z.leb_spec 1 (- depth)); [|lia]. destruct (Z.leb_spec (- depth) 16); [reflexivity|lia]. }
    split; [exact Hinv|]. split; [lia|]. split; [auto|]. split; [auto|].
    intros mm. exists mm. split; [|auto].
    simpl. rewrite (swap_view_evm m depth (conj Hv1 Hv2) Hneg H16). reflexivity.
  - (* spill the chunk, restore permuted *)
    set (k := Z.to_nat (- depth)).
    assert (Hk : (2 <= k)%nat) by (unfold k; lia).
    replace (Z.to_nat (- depth + 1)) with (S k) by (unfold k; lia).
    destruct Hv as [Hv1 Hv2].
    assert (Hlen : (S k <= length (view m))%nat).
    { unfold view. rewrite rev_length. unfold zlen, k in *. lia. }
    set (ops := firstn (S k) (view m)). set (restv := skipn (S k) (view m)).
    assert (Hsplit : view m = ops ++ restv) by (unfold ops, restv; symmetry; apply firstn_skipn).
    assert (Hlo : length ops = S k) by (unfold ops; rewrite firstn_length; lia).
    destruct (take_slots (S k) s) as [offs s1] eqn:T.
    destruct (take_slots_spec _ _ _ _ Hinv T) as [I1 [L1 [D1 [M1 [P1 S1]]]]].
    destruct (spill_segment_spec (S k) a m s ops restv offs s1 Hsplit Hlo T) as [m1 [E [Vm1 R]]].
    rewrite E.
    replace (S k - 1)%nat with k by lia.
    rewrite restore_indices_spec.
    set (order := (0%nat :: rev (seq 1 (k - 1))) ++ [k]).
    (* shape of ops *)
    destruct (split_ends ops (k - 1)) as [x0 [mid [xk [Eops Lmid]]]]; [lia|].
    assert (Hnk : nth k ops 0 = xk).
    { rewrite Eops. replace k with (S (length mid)) by lia. simpl. rewrite app_nth2 by lia. rewrite Nat.sub_diag. reflexivity. }
    assert (Hmid : map (fun i => nth i ops 0) (seq 1 (k - 1)) = mid).
    { rewrite Eops, <- Lmid. apply (map_nth_seq_mid mid [x0] [xk]). }
    assert (Hmap : map (fun i => nth i ops 0) order = x0 :: rev mid ++ [xk]).
    { unfold order. rewrite map_app. simpl. rewrite map_rev, Hmid, Hnk. rewrite Eops. reflexivity. }
    assert (Hfinal : view (m1 ++ map (fun i => nth i ops 0) order) = view (st_swap m depth)).
    { rewrite (swap_view_any m depth (conj Hv1 Hv2) Hneg). unfold view at 1. rewrite rev_app_distr. fold (view m1).
      rewrite Vm1, Hmap. rewrite Hsplit, Eops.
      replace (pos depth) with (S (length mid)) by (unfold pos; unfold k in *; lia).
      simpl. rewrite rev_app_distr. simpl. rewrite rev_involutive.
      rewrite <- app_assoc. simpl. rewrite <- (swap_view_ends x0 mid xk restv). 
      rewrite <- app_assoc. reflexivity. }
    apply view_injective in Hfinal. rewrite Hfinal.
    eexists. exists (free_slots false s1 offs). eexists.
    split. { rewrite <- app_assoc. reflexivity. }
    split. { rewrite forallb_app, code_spill_ok, code_restore_ok. reflexivity. }
    split. { apply free_slots_inv; auto. intros o Ho. destruct (P1 o Ho) as [Q1 [Q2 _]]. split; assumption. }
    split. { simpl. exact M1. }
    split. { intros f Hf. simpl. apply in_or_app.
             destruct (in_dec Z.eq_dec f (sp_free s1)) as [Hin|Hnin]; [right; exact Hin|].
             left. rewrite <- in_rev.
             (* f was taken out of the free list, hence is one of the offsets *)
             clear - T Hf Hnin Hinv. revert s offs s1 T Hf Hnin Hinv. generalize (S k) as n.
             induction n as [|n IHn]; intros s offs s1 T Hf Hnin Hinv; simpl in T.
             - inversion T; subst. contradiction.
             - destruct (get_slot false s) as [s0 o] eqn:G. destruct (take_slots n s0) as [os s2] eqn:T2.
               inversion T; subst. destruct (get_slot_spec _ _ _ Hinv G) as [I0 _].
               unfold get_slot in G. destruct (sp_free s) as [|y r] eqn:Ef; [contradiction|].
               inversion G; subst. destruct Hf as [Hf|Hf]; [left; exact Hf|right].
               apply (IHn _ _ _ T2); auto. }
    split. { intros f Hf. simpl in Hf. apply in_app_or in Hf. destruct Hf as [Hf|Hf].
             - rewrite <- in_rev in Hf. destruct (P1 f Hf) as [_ [Q2 [Q3|Q3]]]; [left; exact Q3|right; simpl; lia].
             - left. apply S1. exact Hf. }
    intros mm. exists (mem_after mm offs ops). split.
    + rewrite run_app, R. rewrite run_restore. f_equal. f_equal.
      rewrite <- Hfinal. unfold view. rewrite rev_app_distr. change (rev m1) with (view m1). rewrite Vm1. f_equal. f_equal.
      apply map_ext_in_nat. intros i Hi. apply mem_after_nth; auto; try lia.
      rewrite L1. unfold order in Hi. apply in_app_or in Hi. destruct Hi as [[Hi|Hi]|[Hi|[]]]; try lia.
      rewrite <- in_rev in Hi. apply in_seq in Hi. lia.
    + intros o Ho Hnf. apply mem_after_other. intro Hin. destruct (P1 o Hin) as [_ [_ [Q|Q]]]; [contradiction|lia].
Qed.

(* ---------- StackSpiller.dup ---------- *)
Lemma map_nth_seq_all : forall (l : list Z), map (fun i => nth i l 0) (seq 0 (length l)) = l.
Proof. intros l. pose proof (map_nth_seq_mid l [] []) as H. simpl in H. rewrite app_nil_r in H. exact H. Qed.

Definition code_restore_swap1 (offs : list Z) (ids : list nat) : list ainstr :=
  flat_map (fun i => [APush (nth i offs 0); AMload; ASwap 1]) ids.

Definition swap1_step (ops offs : list Z) (am : list ainstr * list Z) (i : nat) : list ainstr * list Z :=
  ((fst am ++ [APush (nth i offs 0); AMload]) ++ [ASwap 1], st_swap (st_push (snd am) (nth i ops 0)) (-1)).

Lemma fold_swap1_spec : forall ids (ops offs : list Z) a m x acc s0,
  view m = x :: acc ++ s0 ->
  exists m', fold_left (swap1_step ops offs) ids (a, m) = (a ++ code_restore_swap1 offs ids, m') /\
    view m' = x :: rev (map (fun i => nth i ops 0) ids) ++ acc ++ s0.
Proof.
  induction ids as [|i r IH]; intros ops offs a m x acc s0 Hv; cbn [fold_left].
  - exists m. simpl. rewrite app_nil_r. split; [reflexivity|exact Hv].
  - unfold swap1_step at 2. cbn [fst snd].
    set (m1 := st_swap (st_push m (nth i ops 0)) (-1)).
    assert (V1 : view m1 = x :: (nth i ops 0 :: acc) ++ s0).
    { unfold m1. rewrite swap_view_any; try lia.
      - rewrite push_view, Hv. reflexivity.
      - split; [lia|]. rewrite <- zlen_view, push_view, Hv. unfold evm_push, zlen. simpl. lia. }
    destruct (IH ops offs ((a ++ [APush (nth i offs 0); AMload]) ++ [ASwap 1]) m1 x (nth i ops 0 :: acc) s0 V1) as [m' [E V']].
    exists m'. split.
    + rewrite E. simpl. rewrite <- !app_assoc. reflexivity.
    + rewrite V'. simpl. rewrite <- !app_assoc. reflexivity.
Qed.

Lemma run_restore_swap1 : forall ids offs x t mm,
  run (code_restore_swap1 offs ids) (x :: t, mm) = Some (x :: rev (map (fun i => mm (nth i offs 0)) ids) ++ t, mm).
Proof.
  induction ids as [|i r IH]; intros offs x t mm; simpl; [reflexivity|].
  unfold evm_swap. simpl.
  replace (1 <? zlen (mm (nth i offs 0) :: x :: t)) with true
    by (symmetry; apply Z.ltb_lt; unfold zlen; simpl; lia).
  simpl. rewrite IH. rewrite <- app_assoc. reflexivity.
Qed.
Lemma code_restore_swap1_ok : forall offs ids, forallb depth_ok (code_restore_swap1 offs ids) = true.
Proof. induction ids; simpl; auto. Qed.

Lemma nth_skipn : forall (l : list Z) n i, nth i (skipn n l) 0 = nth (n + i) l 0.
Proof. induction l; intros [|n] i; simpl; auto. destruct i; reflexivity. Qed.

Lemma run_dup16 : forall restv mm code, (16 <= length restv)%nat ->
  run (ADup 16 :: code) (restv, mm) = run code (nth 15 restv 0 :: restv, mm).
Proof.
  intros restv mm code H. cbn [run step]. unfold evm_dup.
  replace ((1 <=? 16) && (16 <=? 16) && (16 <=? zlen restv)) with true
    by (symmetry; apply andb_true_iff; split; [reflexivity|apply Z.leb_le; unfold zlen; lia]).
  reflexivity.
Qed.

Theorem spill_dup_correct_thm : forall depth a m s,
  sp_inv s -> valid_depth m depth ->
  exists new s' cost,
    sp_dup false depth a m s = Ok (a ++ new, st_dup m depth, s', cost) /\
    forallb depth_ok new = true /\
    sp_inv s' /\ sp_next s <= sp_next s' /\
    (forall f, In f (sp_free s') -> In f (sp_free s) \/ sp_next s <= f < sp_next s') /\
    forall mm, exists mm',
      run new (view m, mm) = Some (view (st_dup m depth), mm') /\
      (forall o, o < sp_next s -> ~ In o (sp_free s) -> mm' o = mm o).
Proof.
  intros depth a m s Hinv Hv. unfold sp_dup. destruct Hv as [Hv1 Hv2].
  destruct (Z.leb_spec (1 - depth) 16) as [H16|Hdeep].
  - destruct (Z.leb_spec depth 0); [|lia]. destruct (Z.ltb_spec (- depth) (zlen m)); [|lia]. simpl.
    exists [ADup (1 - depth)], s, 1. split; [reflexivity|].
    split. { cbn [forallb depth_ok]. rewrite andb_true_r. apply andb_true_iff; split; apply Z.leb_le; lia. }
    split; [exact Hinv|]. split; [lia|]. split; [auto|].
    intros mm. exists mm. split; [|auto]. cbn [run step]. rewrite (dup_view m depth (conj Hv1 Hv2) H16). reflexivity.
  - set (c := Z.to_nat (1 - depth - 16)). assert (Hc : (1 <= c)%nat) by (unfold c; lia).
    assert (Hlen : (c + 16 <= length (view m))%nat) by (unfold view; rewrite rev_length; unfold zlen, c in *; lia).
    set (ops := firstn c (view m)). set (restv := skipn c (view m)).
    assert (Hsplit : view m = ops ++ restv) by (unfold ops, restv; symmetry; apply firstn_skipn).
    assert (Hlo : length ops = c) by (unfold ops; rewrite firstn_length; lia).
    assert (Hlr : (16 <= length restv)%nat) by (unfold restv; rewrite skipn_length; lia).
    destruct (take_slots c s) as [offs s1] eqn:T.
    destruct (take_slots_spec _ _ _ _ Hinv T) as [I1 [L1 [D1 [M1 [P1 S1]]]]].
    destruct (spill_segment_spec c a m s ops restv offs s1 Hsplit Hlo T) as [m1 [E [Vm1 R]]].
    rewrite E.
    assert (Zm1 : zlen m1 = Z.of_nat (length restv)) by (rewrite <- zlen_view, Vm1; reflexivity).
    set (reach := depth + Z.of_nat c). assert (Hreach : reach = -15) by (unfold reach, c; lia).
    assert (Vreach : valid_depth m1 reach) by (split; [lia|rewrite Zm1; lia]).
    destruct (Z.leb_spec reach 0); [|lia]. destruct (Z.ltb_spec (- reach) (zlen m1)); [|lia]. cbn [negb andb].
    set (x := nth (pos depth) (view m) 0).
    assert (Hx : st_peek m1 reach = x).
    { rewrite (peek_view m1 reach Vreach), Vm1. unfold x, restv. rewrite nth_skipn. f_equal. unfold pos, reach, c in *. lia. }
    assert (V2 : view (st_dup m1 reach) = x :: restv).
    { rewrite (dup_view_any m1 reach Vreach). rewrite <- (peek_view m1 reach Vreach), Hx, Vm1. reflexivity. }
    assert (Hgoal : view (st_dup m depth) = x :: ops ++ restv).
    { rewrite (dup_view_any m depth (conj Hv1 Hv2)). rewrite <- Hsplit. reflexivity. }
    assert (Hmem : forall mm i, (i < c)%nat -> mem_after mm offs ops (nth i offs 0) = nth i ops 0).
    { intros mm i Hi. apply mem_after_nth; auto; lia. }
    assert (Hdup16 : 1 - reach = 16) by lia. rewrite Hdup16.
    destruct (Nat.leb_spec c 16) as [Hsingle|Hmulti].
    + (* restore with a single SWAPc *)
      set (ids := tl (rev (seq 0 c)) ++ firstn 1 (rev (seq 0 c))).
      pose proof (restore_indices_spec ids ops offs (a ++ code_spill offs ++ [ADup 16]) (st_dup m1 reach)) as RI.
      unfold restore_indices in RI.
      match goal with |- context [fold_left ?f ids ?init] =>
        replace (fold_left f ids init) with
          ((a ++ code_spill offs ++ [ADup 16]) ++ code_restore offs ids, st_dup m1 reach ++ map (fun i => nth i ops 0) ids)
      end.
      2:{ rewrite <- RI. rewrite <- app_assoc. reflexivity. }
      (* ids = [c-2 .. 0] ++ [c-1] *)
      destruct c as [|c']; [lia|].
      assert (Eids : ids = rev (seq 0 c') ++ [c']).
      { unfold ids. rewrite seq_S. rewrite rev_app_distr. simpl. reflexivity. }
      destruct (exists_last (l := ops)) as [front [xl Eops]]; [intro E0; rewrite E0 in Hlo; discriminate|].
      assert (Lf : length front = c') by (rewrite Eops, app_length in Hlo; simpl in Hlo; lia).
      assert (Hmapids : map (fun i => nth i ops 0) ids = rev front ++ [xl]).
      { rewrite Eids, map_app, map_rev. simpl. f_equal.
        - f_equal. rewrite Eops. rewrite <- Lf. apply (map_nth_seq_mid front [] [xl]).
        - rewrite Eops. rewrite app_nth2 by lia. rewrite Lf, Nat.sub_diag. reflexivity. }
      set (m3 := st_dup m1 reach ++ map (fun i => nth i ops 0) ids).
      assert (V3 : view m3 = xl :: front ++ x :: restv).
      { unfold m3, view. rewrite rev_app_distr. change (rev (st_dup m1 reach)) with (view (st_dup m1 reach)).
        rewrite V2, Hmapids. rewrite rev_app_distr. simpl. rewrite rev_involutive. reflexivity. }
      assert (Vd3 : valid_depth m3 (- Z.of_nat (S c'))).
      { split; [lia|]. rewrite <- zlen_view, V3. unfold zlen. simpl. rewrite app_length. simpl. lia. }
      assert (V4 : view (st_swap m3 (- Z.of_nat (S c'))) = x :: ops ++ restv).
      { rewrite (swap_view_any m3 _ Vd3) by lia. rewrite V3.
        replace (pos (- Z.of_nat (S c'))) with (S (length front)) by (unfold pos; lia).
        rewrite swap_view_ends. rewrite Eops. rewrite <- app_assoc. reflexivity. }
      assert (Hfin : st_swap m3 (- Z.of_nat (S c')) = st_dup m depth).
      { apply view_injective. rewrite V4, Hgoal. reflexivity. }
      cbv beta iota zeta. rewrite Hfin.
      eexists. exists (free_slots false s1 offs). eexists.
      split. { rewrite <- !app_assoc. reflexivity. }
      assert (Hsw : forallb depth_ok [ASwap (Z.of_nat (S c'))] = true).
      { cbn [forallb depth_ok]. rewrite andb_true_r. apply andb_true_iff; split; apply Z.leb_le; lia. }
      split. { rewrite !forallb_app, code_spill_ok, code_restore_ok, Hsw. reflexivity. }
      split. { apply free_slots_inv; auto. intros o Ho. destruct (P1 o Ho) as [Q1 [Q2 _]]. split; assumption. }
      split. { simpl. exact M1. }
      split. { intros f Hf. simpl in Hf. apply in_app_or in Hf. destruct Hf as [Hf|Hf].
               - rewrite <- in_rev in Hf. destruct (P1 f Hf) as [_ [Q2 [Q3|Q3]]]; [left; exact Q3|right; simpl; lia].
               - left. apply S1. exact Hf. }
      intros mm. exists (mem_after mm offs ops). split.
      * assert (Hx' : nth 15 restv 0 = x).
        { unfold x, restv. rewrite nth_skipn. f_equal. unfold pos in *. lia. }
        rewrite run_app, R. cbn [app]. rewrite run_dup16 by lia. rewrite Hx'. rewrite run_app, run_restore.
        assert (Hm' : map (fun i => mem_after mm offs ops (nth i offs 0)) ids = map (fun i => nth i ops 0) ids).
        { apply map_ext_in_nat. intros i Hi. apply Hmem. rewrite Eids in Hi. apply in_app_or in Hi.
          destruct Hi as [Hi|[Hi|[]]]; [rewrite <- in_rev in Hi; apply in_seq in Hi; lia|lia]. }
        rewrite Hm', Hmapids. rewrite rev_app_distr, rev_involutive. cbn [rev app].
        pose proof (swap_view_evm m3 (- Z.of_nat (S c')) Vd3) as SE.
        rewrite V3 in SE. rewrite Z.opp_involutive in SE. cbn [run step].
        rewrite SE by lia. rewrite V4, Hgoal. reflexivity.
      * intros o Ho Hnf. apply mem_after_other. intro Hin. destruct (P1 o Hin) as [_ [_ [Q|Q]]]; [contradiction|lia].
    + (* restore one by one below the duplicate *)
      destruct (fold_swap1_spec (rev (seq 0 c)) ops offs (a ++ code_spill offs ++ [ADup 16]) (st_dup m1 reach) x [] restv V2)
        as [m3 [E3 V3]].
      match goal with |- context [fold_left ?f (rev (seq 0 c)) ?init] => change f with (swap1_step ops offs) end.
      rewrite <- app_assoc. rewrite E3. cbv beta iota zeta.
      assert (Hmapall : rev (map (fun i => nth i ops 0) (rev (seq 0 c))) = ops).
      { rewrite map_rev, rev_involutive. rewrite <- Hlo. apply map_nth_seq_all. }
      assert (Hfin : m3 = st_dup m depth).
      { apply view_injective. rewrite V3, Hgoal, Hmapall. reflexivity. }
      rewrite Hfin.
      eexists. exists (free_slots false s1 offs). eexists.
      split. { rewrite <- !app_assoc. reflexivity. }
      split. { rewrite !forallb_app, code_spill_ok, code_restore_swap1_ok. reflexivity. }
      split. { apply free_slots_inv; auto. intros o Ho. destruct (P1 o Ho) as [Q1 [Q2 _]]. split; assumption. }
      split. { simpl. exact M1. }
      split. { intros f Hf. simpl in Hf. apply in_app_or in Hf. destruct Hf as [Hf|Hf].
               - rewrite <- in_rev in Hf. destruct (P1 f Hf) as [_ [Q2 [Q3|Q3]]]; [left; exact Q3|right; simpl; lia].
               - left. apply S1. exact Hf. }
      intros mm. exists (mem_after mm offs ops). split.
      * assert (Hx' : nth 15 restv 0 = x).
        { unfold x, restv. rewrite nth_skipn. f_equal. unfold pos in *. lia. }
        rewrite run_app, R. cbn [app]. rewrite run_dup16 by lia.
        rewrite Hx'. rewrite run_restore_swap1.
        assert (Hm' : map (fun i => mem_after mm offs ops (nth i offs 0)) (rev (seq 0 c)) = map (fun i => nth i ops 0) (rev (seq 0 c))).
        { apply map_ext_in_nat. intros i Hi. apply Hmem. rewrite <- in_rev in Hi. apply in_seq in Hi. lia. }
        rewrite Hm', Hmapall, Hgoal. reflexivity.
      * intros o Ho Hnf. apply mem_after_other. intro Hin. destruct (P1 o Hin) as [_ [_ [Q|Q]]]; [contradiction|lia].
Qed.

