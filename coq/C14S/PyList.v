(* Python list semantics used by translated list-manipulating code (tools/vlib/c14s_translate.py):
   indexing with negative indices (IndexError -> Err BadIndex), item assignment, `del l[start:]` with
   Python's slice clamping, append, enumerate(reversed(l)) loops with early return.
   Specification, validated against CPython by the check (differential).  No proofs here. *)
From Coq Require Import ZArith List Bool.
From Verif Require Import Base.PyInt.
Import ListNotations.
Open Scope Z_scope.

Definition zlen {A} (l : list A) : Z := Z.of_nat (length l).

Definition py_norm_index (n i : Z) : option Z :=
  let j := if i <? 0 then i + n else i in
  if (0 <=? j) && (j <? n) then Some j else None.

Definition py_get (l : list Z) (i : Z) : res Z :=
  match py_norm_index (zlen l) i with
  | Some j => Ok (nth (Z.to_nat j) l 0)
  | None => Err BadIndex
  end.

Fixpoint set_nth (l : list Z) (n : nat) (v : Z) : list Z :=
  match l, n with
  | [], _ => []
  | _ :: t, O => v :: t
  | x :: t, S k => x :: set_nth t k v
  end.
Definition py_set (l : list Z) (i v : Z) : res (list Z) :=
  match py_norm_index (zlen l) i with
  | Some j => Ok (set_nth l (Z.to_nat j) v)
  | None => Err BadIndex
  end.

(* del l[start:] : start < 0 -> max(0, len+start); start > len -> len *)
Definition py_clamp_start (n start : Z) : Z :=
  let s := if start <? 0 then Z.max 0 (start + n) else start in Z.min s n.
Definition py_del_from (l : list Z) (start : Z) : list Z :=
  firstn (Z.to_nat (py_clamp_start (zlen l) start)) l.

Definition py_append (l : list Z) (x : Z) : list Z := l ++ [x].

(* for i, x in enumerate(l): body   -- body returns inl state (continue) or inr r (return r) *)
Fixpoint py_for_enum {S R} (l : list Z) (i : Z) (body : Z -> Z -> S -> res (S + R)) (s : S) : res (S + R) :=
  match l with
  | [] => Ok (inl s)
  | x :: t =>
    match body i x s with
    | Ok (inl s') => py_for_enum t (i + 1) body s'
    | Ok (inr r) => Ok (inr r)
    | Err e => Err e
    end
  end.

Definition py_in (x : Z) (l : list Z) : bool := existsb (Z.eqb x) l.
Definition opt_is_none {A} (o : option A) : bool := match o with None => true | Some _ => false end.
