(* C14S: VenomCompiler.popmany.  For ANY stack map low ++ high (any height; `low` arbitrary -- it may hold dead slots and
   duplicates) in which the operands to pop that are present all occur in `high` (NoDup), popmany succeeds, leaves `low`
   untouched (positionally), and the new upper part holds exactly the old upper part minus the popped operands; the
   emitted code (contiguous fast path: one SWAP + POPs; general path: SWAP-to-top + POP per operand, deep swaps through
   the spiller) realises the new map on the machine and preserves every live spilled word. *)
From Coq Require Import ZArith List Bool Lia Permutation.
From Verif Require Import Base.PyInt C14S.PyList C14S.StackSpec C14S.StackSpecProofs C14S.Spill C14S.SpillProofs C14S.SpillInv
  C14S.ReorderProofs C14S.ReorderFull.
Import ListNotations.
Open Scope Z_scope.

(* ---- view level: bring position q to the top and drop it ---- *)
Definition vstep (q : nat) (v : list Z) : list Z := tl (swap_view q v).

Lemma vstep_0 : forall x0 t, vstep 0 (x0 :: t) = t.
Proof. intros. reflexivity. Qed.
Lemma vstep_S : forall x0 t q, vstep (S q) (x0 :: t) = set_nth t q x0.
Proof. intros. reflexivity. Qed.

Lemma vstep_app : forall q hi lo, (q < length hi)%nat -> vstep q (hi ++ lo) = vstep q hi ++ lo.
Proof.
  intros q hi lo H. destruct hi as [|x0 t]; [simpl in H; lia|]. destruct q as [|q].
  - reflexivity.
  - simpl app. rewrite !vstep_S. apply set_nth_app_l. simpl in H. lia.
Qed.

Lemma set_nth_perm : forall t q x0, (q < length t)%nat -> Permutation (x0 :: t) (nth q t 0 :: set_nth t q x0).
Proof.
  induction t as [|y t IH]; intros q x0 H; [simpl in H; lia|]. destruct q as [|q]; simpl.
  - apply perm_swap.
  - simpl in H. assert (Hq : (q < length t)%nat) by lia. specialize (IH q x0 Hq).
    eapply perm_trans; [apply perm_swap|]. eapply perm_trans; [apply perm_skip; exact IH|]. apply perm_swap.
Qed.

Lemma vstep_perm : forall q v, (q < length v)%nat -> Permutation v (nth q v 0 :: vstep q v).
Proof.
  intros q v H. destruct v as [|x0 t]; [simpl in H; lia|]. destruct q as [|q].
  - simpl. apply Permutation_refl.
  - rewrite vstep_S. simpl nth. apply set_nth_perm. simpl in H. lia.
Qed.

Lemma find_top_app : forall x hi lo i, In x hi -> find_top x (hi ++ lo) i = find_top x hi i.
Proof.
  induction hi as [|y t IH]; intros lo i H; [destruct H|]. simpl. destruct (Z.eqb_spec y x); [reflexivity|].
  apply IH. destruct H; [congruence|assumption].
Qed.

Lemma view_app : forall a b : list Z, view (a ++ b) = view b ++ view a.
Proof. intros. unfold view. apply rev_app_distr. Qed.

(* the depth found for an operand of the upper part lies inside the upper part *)
Lemma depth_in_high : forall low high x, In x high ->
  exists dp, spec_get_depth (low ++ high) x = Some dp /\ valid_depth (low ++ high) dp /\ (pos dp < length high)%nat /\
             nth (pos dp) (view high) 0 = x /\ spec_get_depth high x = Some dp.
Proof.
  intros low high x H. unfold spec_get_depth. rewrite view_app.
  assert (Hv : In x (view high)) by (apply in_view; exact H).
  rewrite (find_top_app x (view high) (view low) 0 Hv).
  destruct (find_top x (view high) 0) as [r|] eqn:F.
  - destruct (find_top_spec _ _ _ _ F) as [H1 [H2 [H3 _]]]. rewrite Z.sub_0_r in *.
    exists (- r). split; [reflexivity|]. unfold pos. rewrite Z.opp_involutive.
    assert (L : zlen (view high) = zlen high) by apply zlen_view.
    split; [|split; [|split; [exact H2|reflexivity]]].
    + split; [lia|]. rewrite zlen_app. pose proof (zlen_nonneg low). lia.
    + unfold zlen in *. rewrite length_view in L. rewrite length_view in H3. lia.
  - apply find_top_none in F. contradiction.
Qed.

(* sp_swap at any depth, with the fate of the live spilled words *)
Lemma sp_swap_mem : forall depth a m s,
  sp_inv s -> valid_depth m depth ->
  exists new s' c m1,
    sp_swap false depth a m s = Ok (a ++ new, m1, s', c) /\
    view m1 = swap_view (pos depth) (view m) /\
    forallb depth_ok new = true /\ sp_inv s' /\
    (forall d, live_inv s d -> live_inv s' d) /\
    forall mm, exists mm', run new (view m, mm) = Some (view m1, mm') /\
                           forall d, live_inv s d -> mem_ok mm d -> mem_ok mm' d.
Proof.
  intros depth a m s Hi Hv. destruct (Z.eqb_spec depth 0) as [E|E].
  - subst. exists [], s, 0, m. unfold sp_swap. simpl. rewrite app_nil_r. split; [reflexivity|].
    assert (Hs : swap_view (pos 0) (view m) = view m).
    { unfold swap_view, pos. simpl. destruct (view m) eqn:V; [|reflexivity].
      exfalso. destruct Hv as [_ H]. rewrite <- zlen_view, V in H. unfold zlen in H. simpl in H. lia. }
    rewrite Hs. split; [reflexivity|]. split; [reflexivity|]. split; [exact Hi|]. split; [auto|].
    intros mm. exists mm. split; [reflexivity|auto].
  - assert (Hneg : depth < 0) by (destruct Hv; lia).
    destruct (spill_swap_correct_thm depth a m s Hi Hv Hneg) as [new [s' [c [E1 [D [I' [_ [_ [_ R]]]]]]]]].
    exists new, s', c, (st_swap m depth). split; [exact E1|]. split; [apply swap_view_any; assumption|]. split; [exact D|].
    split; [exact I'|].
    split; [intros d Ld; exact (swap_keeps_live_thm depth a m s d _ _ _ _ Ld Hv Hneg E1)|].
    intros mm. destruct (R mm) as [mm' [R1 R2]]. exists mm'. split; [exact R1|].
    intros d [_ [_ [_ Hl]]] Hm x o Hin. rewrite R2; [apply Hm; exact Hin| |];
      apply (Hl o); apply in_map_iff; exists (x, o); split; auto.
Qed.

Lemma swap_or_skip : forall dp a m s,
  (if dp =? 0 then Ok (a, m, s, 0) else sp_swap false dp a m s) = sp_swap false dp a m s.
Proof. intros. destruct (Z.eqb_spec dp 0); [subst; reflexivity|reflexivity]. Qed.

Lemma nodup_perm_cons : forall (x : Z) l l', NoDup l -> Permutation l (x :: l') ->
  NoDup l' /\ forall y, In y l' <-> In y l /\ y <> x.
Proof.
  intros x l l' Hn Hp. assert (Hn' : NoDup (x :: l')) by (eapply Permutation_NoDup; eauto).
  inversion Hn'; subst. split; [assumption|]. intros y. split.
  - intros Hy. split; [eapply Permutation_in; [apply Permutation_sym; exact Hp|right; exact Hy]|]. intro; subst; contradiction.
  - intros [Hy Hne]. apply (Permutation_in _ Hp) in Hy. destruct Hy; [congruence|assumption].
Qed.

(* ---- the general path: one operand after the other ---- *)
Lemma pop_each_spec : forall xs a low high s,
  sp_inv s -> NoDup high -> NoDup xs -> (forall x, In x xs -> In x high) ->
  exists new high' s',
    pop_each xs a (low ++ high) s = Ok (a ++ new, low ++ high', s') /\
    forallb depth_ok new = true /\ sp_inv s' /\ (forall d, live_inv s d -> live_inv s' d) /\
    NoDup high' /\ (forall y, In y high' <-> In y high /\ ~ In y xs) /\
    forall mm, exists mm', run new (view (low ++ high), mm) = Some (view (low ++ high'), mm') /\
                           forall d, live_inv s d -> mem_ok mm d -> mem_ok mm' d.
Proof.
  induction xs as [|x r IH]; intros a low high s Hi Hnd Hx Hin.
  - exists [], high, s. simpl. rewrite app_nil_r.
    split; [reflexivity|]. split; [reflexivity|]. split; [exact Hi|]. split; [auto|]. split; [exact Hnd|].
    split; [intros y; tauto|]. intros mm. exists mm. split; [reflexivity|auto].
  - inversion Hx as [|? ? Hxr Hr]; subst.
    destruct (depth_in_high low high x (Hin x (or_introl eq_refl))) as [dp [G [V [Pq [Nq _]]]]].
    simpl. rewrite G.
    destruct (sp_swap_mem dp a (low ++ high) s Hi V) as [new1 [s1 [c1 [m1 [E1 [V1 [D1 [I1 [L1 R1]]]]]]]]].
    rewrite swap_or_skip, E1.
    assert (Lm1 : length (view m1) = length (low ++ high)).
    { rewrite V1, length_swap_view, length_view. reflexivity. }
    assert (Hpos : 0 < zlen m1).
    { unfold zlen. rewrite <- (length_view m1), Lm1. rewrite app_length. lia. }
    destruct (Z.leb_spec (zlen m1) 0); [lia|].
    (* the new stack map *)
    set (hv := vstep (pos dp) (view high)).
    assert (Vm2 : view (st_pop m1 1) = hv ++ view low).
    { rewrite (view_tl_pop m1 Hpos), V1, view_app. unfold hv. rewrite <- vstep_app; [reflexivity|].
      rewrite length_view. exact Pq. }
    assert (Em2 : st_pop m1 1 = low ++ rev hv).
    { apply view_injective. rewrite Vm2, view_app. f_equal. unfold view. rewrite rev_involutive. reflexivity. }
    assert (Pv : Permutation (view high) (x :: hv)).
    { unfold hv. rewrite <- Nq. apply vstep_perm. rewrite length_view. exact Pq. }
    assert (Nv : NoDup (view high)) by (unfold view; apply NoDup_rev; exact Hnd).
    destruct (nodup_perm_cons x (view high) hv Nv Pv) as [Nhv Ihv].
    assert (Nh2 : NoDup (rev hv)) by (apply NoDup_rev; exact Nhv).
    assert (Ih2 : forall y, In y (rev hv) <-> In y high /\ y <> x).
    { intros y. rewrite <- in_rev. rewrite Ihv. rewrite in_view. tauto. }
    rewrite Em2.
    destruct (IH (a ++ new1 ++ [APop]) low (rev hv) s1 I1 Nh2 Hr) as [new2 [high' [s2 [E2 [D2 [I2 [L2 [N2 [In2 R2]]]]]]]]].
    { intros y Hy. apply Ih2. split; [apply Hin; right; exact Hy|]. intro; subst. contradiction. }
    exists (new1 ++ [APop] ++ new2), high', s2.
    split; [rewrite <- !app_assoc in *; simpl in *; exact E2|].
    split; [rewrite !forallb_app, D1, D2; reflexivity|].
    split; [exact I2|]. split; [intros d Ld; apply L2, L1, Ld|]. split; [exact N2|].
    split.
    { intros y. rewrite In2, Ih2. simpl. split.
      - intros [[H1 H2] H3]. split; [exact H1|]. intros [H4|H4]; [congruence|contradiction].
      - intros [H1 H2]. split; [split; [exact H1|]|]; intro; apply H2; [left; congruence|right; assumption]. }
    intros mm. destruct (R1 mm) as [mm1 [Ra Rb]]. destruct (R2 mm1) as [mm2 [Rc Rd]].
    exists mm2. split.
    + rewrite run_app, Ra. change ([APop] ++ new2) with (APop :: new2).
      assert (Rp : run (APop :: new2) (view m1, mm1) = run new2 (tl (view m1), mm1)).
      { destruct (view m1) eqn:Vv; [simpl in Lm1; rewrite app_length in Lm1; lia|]. reflexivity. }
      rewrite Rp, <- (view_tl_pop m1 Hpos), Em2. exact Rc.
    + intros d Ld Hm. apply (Rd d (L1 d Ld)), (Rb d Ld Hm).
Qed.

(* ---- helpers for the contiguous fast path ---- *)
Lemma run_pops : forall k v mm, (k <= length v)%nat -> run (repeat APop k) (v, mm) = Some (skipn k v, mm).
Proof.
  induction k as [|k IH]; intros v mm H; [reflexivity|]. destruct v as [|x t]; [simpl in H; lia|].
  simpl. apply IH. simpl in H. lia.
Qed.

Lemma skipn_set_nth : forall (t : list Z) q x, (q < length t)%nat -> skipn q (set_nth t q x) = x :: skipn (S q) t.
Proof.
  induction t as [|y t IH]; intros q x H; [simpl in H; lia|]. destruct q as [|q]; [reflexivity|].
  simpl. apply IH. simpl in H. lia.
Qed.

Lemma insert_z_perm : forall k l, Permutation (insert_z k l) (k :: l).
Proof.
  induction l as [|y r IH]; simpl; [apply Permutation_refl|]. destruct (k <? y); [apply Permutation_refl|].
  eapply perm_trans; [apply perm_skip; exact IH|]. apply perm_swap.
Qed.
Lemma sort_z_perm_gen : forall l acc, Permutation (fold_left (fun acc k => insert_z k acc) l acc) (l ++ acc).
Proof.
  induction l as [|k r IH]; intros acc; simpl; [apply Permutation_refl|].
  eapply perm_trans; [apply IH|]. eapply perm_trans; [apply Permutation_app_head; apply insert_z_perm|].
  apply Permutation_sym. apply Permutation_middle.
Qed.
Lemma sort_z_perm : forall l, Permutation (sort_z l) l.
Proof. intros. unfold sort_z. eapply perm_trans; [apply sort_z_perm_gen|]. rewrite app_nil_r. apply Permutation_refl. Qed.

Lemma fold_min_spec : forall l a, fold_left Z.min l a <= a /\ (forall x, In x l -> fold_left Z.min l a <= x) /\
  (fold_left Z.min l a = a \/ In (fold_left Z.min l a) l).
Proof.
  induction l as [|y r IH]; intros a; simpl; [split; [lia|]; split; [intros x []|left; reflexivity]|].
  destruct (IH (Z.min a y)) as [H1 [H2 H3]]. split; [lia|]. split.
  - intros x [E|Hx]; [subst; lia|apply H2; exact Hx].
  - destruct H3 as [H3|H3]; [|right; right; exact H3].
    destruct (Z.min_spec a y) as [[_ E]|[_ E]]; [left; rewrite H3; exact E|right; left; rewrite H3, E; reflexivity].
Qed.

Lemma depths_of_spec : forall m xs, (forall x, In x xs -> In x m) ->
  length (depths_of m xs) = length xs /\
  forall dp, In dp (depths_of m xs) <-> exists x, In x xs /\ spec_get_depth m x = Some dp.
Proof.
  induction xs as [|x r IH]; intros H; simpl.
  - split; [reflexivity|]. intros dp. split; [intros []|intros [x [[] _]]].
  - destruct (IH (fun y Hy => H y (or_intror Hy))) as [L I].
    destruct (spec_get_depth m x) as [d|] eqn:G.
    + simpl. split; [lia|]. intros dp. split.
      * intros [E|Hd]; [subst; exists x; split; [left; reflexivity|exact G]|].
        apply I in Hd. destruct Hd as [y [Hy Gy]]. exists y. split; [right; exact Hy|exact Gy].
      * intros [y [[E|Hy] Gy]]; [subst; left; congruence|right; apply I; exists y; split; assumption].
    + exfalso. apply (proj2 (get_depth_spec m x)) in G. apply G. apply H. left. reflexivity.
Qed.

Lemma in_expected : forall deepest dp,
  In dp (map (fun i => deepest + Z.of_nat i) (seq 0 (Z.to_nat (- deepest)))) <-> deepest <= dp < 0.
Proof.
  intros deepest dp. rewrite in_map_iff. split.
  - intros [i [E Hi]]. apply in_seq in Hi. lia.
  - intros H. exists (Z.to_nat (dp - deepest)). split; [lia|]. apply in_seq. lia.
Qed.

Lemma in_skipn : forall (l : list Z) n x, In x (skipn n l) -> In x l.
Proof. intros l n x H. rewrite <- (firstn_skipn n l). apply in_or_app. right. exact H. Qed.
Lemma nodup_skipn : forall (l : list Z) n, NoDup l -> NoDup (skipn n l).
Proof.
  induction l as [|y t IH]; intros n H; destruct n; simpl; auto. inversion H; subst. apply IH. assumption.
Qed.

Lemma present_iff : forall m x, negb (opt_is_none (spec_get_depth m x)) = true <-> In x m.
Proof.
  intros m x. destruct (spec_get_depth m x) eqn:G; simpl.
  - split; [intros _|reflexivity]. destruct (in_dec Z.eq_dec x m) as [H|H]; [exact H|].
    apply (proj2 (get_depth_spec m x)) in H. congruence.
  - split; [discriminate|]. intros H. apply (proj2 (get_depth_spec m x)) in G. contradiction.
Qed.

(* the part of popmany after the filter *)
Definition popmany_body (present : list Z) (a : list ainstr) (m : list Z) (s : sp) : res (list ainstr * list Z * sp) :=
  let depths := depths_of m present in
  let deepest := fold_left Z.min depths 0 in
  let expected := map (fun i => deepest + Z.of_nat i) (seq 0 (Z.to_nat (- deepest))) in
  if (deepest <? 0) && (- deepest <=? 16) && (if list_eq_dec Z.eq_dec (sort_z depths) expected then true else false) then
    match sp_swap false deepest a m s with
    | Err e => Err e
    | Ok (a1, m1, s1, _) => let n := zlen present in Ok (a1 ++ repeat APop (Z.to_nat n), st_pop m1 n, s1)
    end
  else
    let keyed := fold_left (fun acc x => match spec_get_depth m x with Some dp => insert_by (- dp) x acc | None => acc end) present [] in
    pop_each (map snd keyed) a m s.
Lemma popmany_unfold : forall to_pop a m s,
  popmany to_pop a m s =
  match filter (fun x => negb (opt_is_none (spec_get_depth m x))) to_pop with
  | [] => Ok (a, m, s)
  | p => popmany_body p a m s
  end.
Proof. intros. unfold popmany, popmany_body. destruct (filter _ to_pop); reflexivity. Qed.

Lemma keyed_perm : forall m xs acc, (forall x, In x xs -> In x m) ->
  Permutation (map snd (fold_left (fun acc x => match spec_get_depth m x with Some dp => insert_by (- dp) x acc | None => acc end) xs acc))
              (xs ++ map snd acc).
Proof.
  induction xs as [|x r IH]; intros acc H; simpl; [apply Permutation_refl|].
  destruct (spec_get_depth m x) as [dp|] eqn:G.
  - eapply perm_trans; [apply IH; intros y Hy; apply H; right; exact Hy|].
    assert (P : forall k l, Permutation (map snd (insert_by k x l)) (x :: map snd l)).
    { intros k. induction l as [|[k' y] l IHl]; simpl; [apply Permutation_refl|].
      destruct (k <? k'); simpl; [apply Permutation_refl|].
      eapply perm_trans; [apply perm_skip; exact IHl|]. apply perm_swap. }
    eapply perm_trans; [apply Permutation_app_head; apply P|]. apply Permutation_sym. apply Permutation_middle.
  - exfalso. apply (proj2 (get_depth_spec m x)) in G. apply G, H. left. reflexivity.
Qed.

Lemma popmany_body_spec : forall present a low high s,
  sp_inv s -> NoDup high -> NoDup present -> present <> [] -> (forall x, In x present -> In x high) ->
  exists new high' s',
    popmany_body present a (low ++ high) s = Ok (a ++ new, low ++ high', s') /\
    forallb depth_ok new = true /\ sp_inv s' /\ (forall d, live_inv s d -> live_inv s' d) /\
    NoDup high' /\ (forall y, In y high' <-> In y high /\ ~ In y present) /\
    forall mm, exists mm', run new (view (low ++ high), mm) = Some (view (low ++ high'), mm') /\
                           forall d, live_inv s d -> mem_ok mm d -> mem_ok mm' d.
Proof.
  intros present a low high s Hi Hnd Hnp Hne Hin. unfold popmany_body.
  set (m := low ++ high).
  assert (Hinm : forall x, In x present -> In x m) by (intros x Hx; unfold m; apply in_or_app; right; apply Hin; exact Hx).
  destruct (depths_of_spec m present Hinm) as [Ld Id].
  set (depths := depths_of m present) in *.
  set (deepest := fold_left Z.min depths 0).
  set (expected := map (fun i => deepest + Z.of_nat i) (seq 0 (Z.to_nat (- deepest)))).
  destruct ((deepest <? 0) && (- deepest <=? 16) && (if list_eq_dec Z.eq_dec (sort_z depths) expected then true else false)) eqn:C.
  - (* contiguous fast path *)
    apply andb_true_iff in C. destruct C as [C C3]. apply andb_true_iff in C. destruct C as [C1 C2].
    apply Z.ltb_lt in C1. apply Z.leb_le in C2.
    destruct (list_eq_dec Z.eq_dec (sort_z depths) expected) as [Es|]; [clear C3|discriminate].
    assert (Pd : Permutation depths expected) by (rewrite <- Es; apply Permutation_sym, sort_z_perm).
    set (q := Z.to_nat (- deepest)).
    assert (Lq : length present = q).
    { rewrite <- Ld, (Permutation_length Pd). unfold expected. rewrite map_length, seq_length. reflexivity. }
    assert (Hq1 : (1 <= q)%nat) by (unfold q; lia).
    (* the deepest depth is the depth of a present operand *)
    destruct (fold_min_spec depths 0) as [_ [_ [F|F]]]; [unfold deepest in C1; lia|]. fold deepest in F.
    apply Id in F. destruct F as [xd [Hxd Gd]].
    destruct (depth_in_high low high xd (Hin xd Hxd)) as [dp [G [V [Pq _]]]]. fold m in G, V.
    assert (dp = deepest) by congruence. subst dp. change (pos deepest) with q in Pq.
    destruct (sp_swap_mem deepest a m s Hi V) as [new1 [s1 [c1 [m1 [E1 [V1 [D1 [I1 [L1 R1]]]]]]]]].
    rewrite E1. change (pos deepest) with q in V1.
    assert (Lm1 : length (view m1) = length m) by (rewrite V1, length_swap_view, length_view; reflexivity).
    assert (Zn : Z.to_nat (zlen present) = q) by (unfold zlen; lia).
    (* shape of the views *)
    destruct (view high) as [|x0 th] eqn:Vh; [rewrite <- (length_view high), Vh in Pq; simpl in Pq; lia|].
    assert (Lth : (q <= length th)%nat) by (rewrite <- (length_view high), Vh in Pq; simpl in Pq; lia).
    assert (Vm : view m = x0 :: th ++ view low) by (unfold m; rewrite view_app, Vh; reflexivity).
    assert (Vres : view (st_pop m1 (zlen present)) = (x0 :: skipn q th) ++ view low).
    { rewrite pop_view.
      - rewrite Zn, V1, Vm. destruct q as [|q']; [lia|].
        unfold swap_view. simpl. rewrite skipn_set_nth by (rewrite app_length; lia).
        rewrite skipn_app. replace (S q' - length th)%nat with 0%nat by lia. reflexivity.
      - unfold zlen. rewrite <- (length_view m1), Lm1. unfold m. rewrite app_length. rewrite <- (length_view high), Vh. simpl. lia. }
    set (high' := rev (x0 :: skipn q th)).
    assert (Eres : st_pop m1 (zlen present) = low ++ high').
    { apply view_injective. rewrite Vres, view_app. f_equal. unfold high', view. rewrite rev_involutive. reflexivity. }
    assert (Nv : NoDup (x0 :: th)) by (rewrite <- Vh; unfold view; apply NoDup_rev; exact Hnd).
    exists (new1 ++ repeat APop q), high', s1. rewrite Zn, Eres.
    split; [rewrite app_assoc; reflexivity|].
    split; [rewrite forallb_app, D1; simpl; clear; induction q; simpl; auto|].
    split; [exact I1|]. split; [exact L1|].
    split.
    { unfold high'. apply NoDup_rev. inversion Nv; subst. constructor.
      - intro Hx. apply H1. eapply in_skipn. exact Hx.
      - apply nodup_skipn. assumption. }
    split.
    { intros y. unfold high'. rewrite <- in_rev. rewrite <- (in_view high), Vh.
      (* every present operand sits at a position 1..q of the view of high *)
      assert (Ppos : forall x, In x present -> exists p, (1 <= p <= q)%nat /\ nth p (x0 :: th) 0 = x).
      { intros x Hx. destruct (depth_in_high low high x (Hin x Hx)) as [dp [G2 [_ [_ [N2 _]]]]]. fold m in G2.
        assert (Hd : In dp depths) by (apply Id; exists x; split; assumption).
        apply (Permutation_in _ Pd) in Hd. apply in_expected in Hd. exists (pos dp). rewrite Vh in N2.
        split; [unfold pos, q; lia|exact N2]. }
      assert (Pall : forall p, (1 <= p <= q)%nat -> In (nth p (x0 :: th) 0) present).
      { intros p Hp. assert (Hd : In (- Z.of_nat p) expected) by (apply in_expected; unfold q in Hp; lia).
        apply (Permutation_in _ (Permutation_sym Pd)) in Hd. apply Id in Hd. destruct Hd as [x [Hx Gx]].
        destruct (depth_in_high low high x (Hin x Hx)) as [dp [G2 [_ [_ [N2 _]]]]]. fold m in G2.
        assert (dp = - Z.of_nat p) by congruence. subst dp. rewrite Vh in N2. unfold pos in N2.
        replace (Z.to_nat (- - Z.of_nat p)) with p in N2 by lia. rewrite N2. exact Hx. }
      split.
      - intros Hy. split; [destruct Hy as [E|Hy]; [left; exact E|right; eapply in_skipn; exact Hy]|].
        intros Hp. destruct (Ppos y Hp) as [p [Hp1 Hp2]].
        assert (Lp : (p < length (x0 :: th))%nat) by (simpl; lia).
        destruct Hy as [E|Hy].
        + subst y. assert (p = 0%nat); [|lia].
          apply (proj1 (NoDup_nth (x0 :: th) 0) Nv); [exact Lp|simpl; lia|simpl; simpl in Hp2; exact Hp2].
        + apply (In_nth _ _ 0) in Hy. destruct Hy as [k [Hk Ek]]. rewrite nth_skipn in Ek. rewrite skipn_length in Hk.
          assert (p = S (q + k)); [|lia].
          apply (proj1 (NoDup_nth (x0 :: th) 0) Nv); [exact Lp|simpl; lia|]. rewrite Hp2. simpl. symmetry. exact Ek.
      - intros [Hy Hnp']. apply (In_nth _ _ 0) in Hy. destruct Hy as [p [Hp Ep]].
        destruct p as [|p]; [left; simpl in Ep; exact Ep|].
        destruct (Nat.le_gt_cases (S p) q) as [Hle|Hgt].
        + exfalso. apply Hnp'. rewrite <- Ep. apply Pall. lia.
        + right. simpl in Ep. simpl in Hp. rewrite <- Ep.
          replace p with (q + (p - q))%nat by lia. rewrite <- nth_skipn. apply nth_In. rewrite skipn_length. lia. }
    intros mm. destruct (R1 mm) as [mm1 [Ra Rb]]. exists mm1. split; [|exact Rb].
    rewrite run_app. fold m. rewrite Ra. rewrite run_pops by (rewrite Lm1; unfold m; rewrite app_length, <- (length_view high), Vh; simpl; lia).
    rewrite <- Eres, pop_view.
    + rewrite Zn. reflexivity.
    + unfold zlen. rewrite <- (length_view m1), Lm1. unfold m. rewrite app_length. rewrite <- (length_view high), Vh. simpl. lia.
  - (* general path *)
    clear C.
    set (keyed := fold_left (fun acc x => match spec_get_depth m x with Some dp => insert_by (- dp) x acc | None => acc end) present []).
    assert (Pk : Permutation (map snd keyed) present).
    { unfold keyed. eapply perm_trans; [apply keyed_perm; exact Hinm|]. simpl. rewrite app_nil_r. apply Permutation_refl. }
    destruct (pop_each_spec (map snd keyed) a low high s Hi Hnd) as [new [high' [s' [E [D [I [L [N [In' R]]]]]]]]].
    { eapply Permutation_NoDup; [apply Permutation_sym; exact Pk|exact Hnp]. }
    { intros x Hx. apply Hin. eapply Permutation_in; [exact Pk|exact Hx]. }
    exists new, high', s'. split; [exact E|]. split; [exact D|]. split; [exact I|]. split; [exact L|]. split; [exact N|].
    split; [|exact R]. intros y. rewrite In'. split; intros [H1 H2]; (split; [exact H1|]); intro H3; apply H2.
    + eapply Permutation_in; [apply Permutation_sym; exact Pk|exact H3].
    + eapply Permutation_in; [exact Pk|exact H3].
Qed.

Theorem popmany_correct_thm : forall to_pop a low high s,
  sp_inv s -> NoDup high -> NoDup to_pop ->
  (forall x, In x to_pop -> In x (low ++ high) -> In x high) ->
  exists new high' s',
    popmany to_pop a (low ++ high) s = Ok (a ++ new, low ++ high', s') /\
    forallb depth_ok new = true /\ sp_inv s' /\ (forall d, live_inv s d -> live_inv s' d) /\
    NoDup high' /\ (forall y, In y high' <-> In y high /\ ~ In y to_pop) /\
    forall mm, exists mm', run new (view (low ++ high), mm) = Some (view (low ++ high'), mm') /\
                           forall d, live_inv s d -> mem_ok mm d -> mem_ok mm' d.
Proof.
  intros to_pop a low high s Hi Hnd Hnt Hin. rewrite popmany_unfold.
  set (m := low ++ high) in *.
  set (P := filter (fun x => negb (opt_is_none (spec_get_depth m x))) to_pop).
  assert (HP : forall x, In x P <-> In x to_pop /\ In x m).
  { intros x. unfold P. rewrite filter_In, present_iff. tauto. }
  assert (NP : NoDup P) by (apply NoDup_filter; exact Hnt).
  assert (Eq : forall y, In y high -> (~ In y P <-> ~ In y to_pop)).
  { intros y Hy. rewrite HP. split; intros H H'; apply H; [split; [exact H'|unfold m; apply in_or_app; right; exact Hy]|tauto]. }
  destruct P as [|p0 pr] eqn:EP.
  - exists [], high, s. rewrite app_nil_r. split; [reflexivity|]. split; [reflexivity|]. split; [exact Hi|]. split; [auto|].
    split; [exact Hnd|]. split.
    + intros y. split; [intros Hy; split; [exact Hy|apply (Eq y Hy); intros []]|tauto].
    + intros mm. exists mm. split; [reflexivity|auto].
  - destruct (popmany_body_spec (p0 :: pr) a low high s Hi Hnd NP) as [new [high' [s' [E [D [I [L [N [In' R]]]]]]]]].
    { discriminate. }
    { intros x Hx. apply HP in Hx. destruct Hx. apply Hin; assumption. }
    exists new, high', s'. split; [exact E|]. split; [exact D|]. split; [exact I|]. split; [exact L|]. split; [exact N|].
    split; [|exact R]. intros y. rewrite In'. split; intros [H1 H2]; (split; [exact H1|]); apply (Eq y H1); exact H2.
Qed.
