(* C14S: VenomCompiler.popmany.  For ANY stack map low ++ high (any height; `low` arbitrary -- it may hold dead slots and
   duplicates) in which the operands to pop that are present all occur in `high` (NoDup), popmany succeeds, leaves `low`
   untouched (positionally), and the new upper part holds exactly the old upper part minus the popped operands; the
   emitted code (contiguous fast path: one SWAP + POPs; general path: SWAP-to-top + POP per operand, deep swaps through
   the spiller) realises the new map on the machine and preserves every live spilled word. *)
From Coq Require Import ZArith List Bool Lia Permutation.
From Verif Require Import Base.PyInt C14S.PyList C14S.StackSpec C14S.StackSpecProofs C14S.Spill C14S.SpillProofs C14S.SpillInv
  C14S.ReorderProofs C14S.ReorderFull.
Import ListNotations.
Open Scope Z_scope.

(* ---- view level: bring position q to the top and drop it ---- *)
Definition vstep (q : nat) (v : list Z) : list Z := tl (swap_view q v).

Lemma vstep_0 : forall x0 t, vstep 0 (x0 :: t) = t.
Proof. intros. reflexivity. Qed.
Lemma vstep_S : forall x0 t q, vstep (S q) (x0 :: t) = set_nth t q x0.
Proof. intros. reflexivity. Qed.

Lemma vstep_app : forall q hi lo, (q < length hi)%nat -> vstep q (hi ++ lo) = vstep q hi ++ lo.
Proof.
  intros q hi lo H. destruct hi as [|x0 t]; [simpl in H; lia|]. destruct q as [|q].
  - reflexivity.
  - simpl app. rewrite !vstep_S. apply set_nth_app_l. simpl in H. lia.
Qed.

Lemma set_nth_perm : forall t q x0, (q < length t)%nat -> Permutation (x0 :: t) (nth q t 0 :: set_nth t q x0).
Proof.
  induction t as [|y t IH]; intros q x0 H; [simpl in H; lia|]. destruct q as [|q]; simpl.
  - apply perm_swap.
  - simpl in H. assert (Hq : (q < length t)%nat) by lia. specialize (IH q x0 Hq).
    eapply perm_trans; [apply perm_swap|]. eapply perm_trans; [apply perm_skip; exact IH|]. apply perm_swap.
Qed.

Lemma vstep_perm : forall q v, (q < length v)%nat -> Permutation v (nth q v 0 :: vstep q v).
Proof.
  intros q v H. destruct v as [|x0 t]; [simpl in H; lia|]. destruct q as [|q].
  - simpl. apply Permutation_refl.
  - rewrite vstep_S. simpl nth. apply set_nth_perm. simpl in H. lia.
Qed.

Lemma find_top_app : forall x hi lo i, In x hi -> find_top x (hi ++ lo) i = find_top x hi i.
Proof.
  induction hi as [|y t IH]; intros lo i H; [destruct H|]. simpl. destruct (Z.eqb_spec y x); [reflexivity|].
  apply IH. destruct H; [congruence|assumption].
Qed.

Lemma view_app : forall a b : list Z, view (a ++ b) = view b ++ view a.
Proof. intros. unfold view. apply rev_app_distr. Qed.

(* the depth found for an operand of the upper part lies inside the upper part *)
Lemma depth_in_high : forall low high x, In x high ->
  exists dp, spec_get_depth (low ++ high) x = Some dp /\ valid_depth (low ++ high) dp /\ (pos dp < length high)%nat /\
             nth (pos dp) (view high) 0 = x /\ spec_get_depth high x = Some dp.
Proof.
  intros low high x H. unfold spec_get_depth. rewrite view_app.
  assert (Hv : In x (view high)) by (apply in_view; exact H).
  rewrite (find_top_app x (view high) (view low) 0 Hv).
  destruct (find_top x (view high) 0) as [r|] eqn:F.
  - destruct (find_top_spec _ _ _ _ F) as [H1 [H2 [H3 _]]]. rewrite Z.sub_0_r in *.
    exists (- r). split; [reflexivity|]. unfold pos. rewrite Z.opp_involutive.
    assert (L : zlen (view high) = zlen high) by apply zlen_view.
    split; [|split; [|split; [exact H2|reflexivity]]].
    + split; [lia|]. rewrite zlen_app. pose proof (zlen_nonneg low). lia.
    + unfold zlen in *. rewrite length_view in L. rewrite length_view in H3. lia.
  - apply find_top_none in F. contradiction.
Qed.

(* sp_swap at any depth, with the fate of the live spilled words *)
Lemma sp_swap_mem : forall depth a m s,
  sp_inv s -> valid_depth m depth ->
  exists new s' c m1,
    sp_swap false depth a m s = Ok (a ++ new, m1, s', c) /\
    view m1 = swap_view (pos depth) (view m) /\
    forallb depth_ok new = true /\ sp_inv s' /\
    (forall d, live_inv s d -> live_inv s' d) /\
    forall mm, exists mm', run new (view m, mm) = Some (view m1, mm') /\
                           forall d, live_inv s d -> mem_ok mm d -> mem_ok mm' d.
Proof.
  intros depth a m s Hi Hv. destruct (Z.eqb_spec depth 0) as [E|E].
  - subst. exists [], s, 0, m. unfold sp_swap. simpl. rewrite app_nil_r. split; [reflexivity|].
    assert (Hs : swap_view (pos 0) (view m) = view m).
    { unfold swap_view, pos. simpl. destruct (view m) eqn:V; [|reflexivity].
      exfalso. destruct Hv as [_ H]. rewrite <- zlen_view, V in H. unfold zlen in H. simpl in H. lia. }
    rewrite Hs. split; [reflexivity|]. split; [reflexivity|]. split; [exact Hi|]. split; [auto|].
    intros mm. exists mm. split; [reflexivity|auto].
  - assert (Hneg : depth < 0) by (destruct Hv; lia).
    destruct (spill_swap_correct_thm depth a m s Hi Hv Hneg) as [new [s' [c [E1 [D [I' [_ [_ [_ R]]]]]]]]].
    exists new, s', c, (st_swap m depth). split; [exact E1|]. split; [apply swap_view_any; assumption|]. split; [exact D|].
    split; [exact I'|].
    split; [intros d Ld; exact (swap_keeps_live_thm depth a m s d _ _ _ _ Ld Hv Hneg E1)|].
    intros mm. destruct (R mm) as [mm' [R1 R2]]. exists mm'. split; [exact R1|].
    intros d [_ [_ [_ Hl]]] Hm x o Hin. rewrite R2; [apply Hm; exact Hin| |];
      apply (Hl o); apply in_map_iff; exists (x, o); split; auto.
Qed.

Lemma swap_or_skip : forall dp a m s,
  (if dp =? 0 then Ok (a, m, s, 0) else sp_swap false dp a m s) = sp_swap false dp a m s.
Proof. intros. destruct (Z.eqb_spec dp 0); [subst; reflexivity|reflexivity]. Qed.

Lemma nodup_perm_cons : forall (x : Z) l l', NoDup l -> Permutation l (x :: l') ->
  NoDup l' /\ forall y, In y l' <-> In y l /\ y <> x.
Proof.
  intros x l l' Hn Hp. assert (Hn' : NoDup (x :: l')) by (eapply Permutation_NoDup; eauto).
  inversion Hn'; subst. split; [assumption|]. intros y. split.
  - intros Hy. split; [eapply Permutation_in; [apply Permutation_sym; exact Hp|right; exact Hy]|]. intro; subst; contradiction.
  - intros [Hy Hne]. apply (Permutation_in _ Hp) in Hy. destruct Hy; [congruence|assumption].
Qed.

(* ---- the general path: one operand after the other ---- *)
Lemma pop_each_spec : forall xs a low high s,
  sp_inv s -> NoDup high -> NoDup xs -> (forall x, In x xs -> In x high) ->
  exists new high' s',
    pop_each xs a (low ++ high) s = Ok (a ++ new, low ++ high', s') /\
    forallb depth_ok new = true /\ sp_inv s' /\ (forall d, live_inv s d -> live_inv s' d) /\
    NoDup high' /\ (forall y, In y high' <-> In y high /\ ~ In y xs) /\
    forall mm, exists mm', run new (view (low ++ high), mm) = Some (view (low ++ high'), mm') /\
                           forall d, live_inv s d -> mem_ok mm d -> mem_ok mm' d.
Proof.
  induction xs as [|x r IH]; intros a low high s Hi Hnd Hx Hin.
  - exists [], high, s. simpl. rewrite app_nil_r.
    split; [reflexivity|]. split; [reflexivity|]. split; [exact Hi|]. split; [auto|]. split; [exact Hnd|].
    split; [intros y; tauto|]. intros mm. exists mm. split; [reflexivity|auto].
  - inversion Hx as [|? ? Hxr Hr]; subst.
    destruct (depth_in_high low high x (Hin x (or_introl eq_refl))) as [dp [G [V [Pq [Nq _]]]]].
    simpl. rewrite G.
    destruct (sp_swap_mem dp a (low ++ high) s Hi V) as [new1 [s1 [c1 [m1 [E1 [V1 [D1 [I1 [L1 R1]]]]]]]]].
    rewrite swap_or_skip, E1.
    assert (Lm1 : length (view m1) = length (low ++ high)).
    { rewrite V1, length_swap_view, length_view. reflexivity. }
    assert (Hpos : 0 < zlen m1).
    { unfold zlen. rewrite <- (length_view m1), Lm1. rewrite app_length. lia. }
    destruct (Z.leb_spec (zlen m1) 0); [lia|].
    (* the new stack map *)
    set (hv := vstep (pos dp) (view high)).
    assert (Vm2 : view (st_pop m1 1) = hv ++ view low).
    { rewrite (view_tl_pop m1 Hpos), V1, view_app. unfold hv. rewrite <- vstep_app; [reflexivity|].
      rewrite length_view. exact Pq. }
    assert (Em2 : st_pop m1 1 = low ++ rev hv).
    { apply view_injective. rewrite Vm2, view_app. f_equal. unfold view. rewrite rev_involutive. reflexivity. }
    assert (Pv : Permutation (view high) (x :: hv)).
    { unfold hv. rewrite <- Nq. apply vstep_perm. rewrite length_view. exact Pq. }
    assert (Nv : NoDup (view high)) by (unfold view; apply NoDup_rev; exact Hnd).
    destruct (nodup_perm_cons x (view high) hv Nv Pv) as [Nhv Ihv].
    assert (Nh2 : NoDup (rev hv)) by (apply NoDup_rev; exact Nhv).
    assert (Ih2 : forall y, In y (rev hv) <-> In y high /\ y <> x).
    { intros y. rewrite <- in_rev. rewrite Ihv. rewrite in_view. tauto. }
    rewrite Em2.
    destruct (IH (a ++ new1 ++ [APop]) low (rev hv) s1 I1 Nh2 Hr) as [new2 [high' [s2 [E2 [D2 [I2 [L2 [N2 [In2 R2]]]]]]]]].
    { intros y Hy. apply Ih2. split; [apply Hin; right; exact Hy|]. intro; subst. contradiction. }
    exists (new1 ++ [APop] ++ new2), high', s2.
    split; [rewrite <- !app_assoc in *; simpl in *; exact E2|].
    split; [rewrite !forallb_app, D1, D2; reflexivity|].
    split; [exact I2|]. split; [intros d Ld; apply L2, L1, Ld|]. split; [exact N2|].
    split.
    { intros y. rewrite In2, Ih2. simpl. split.
      - intros [[H1 H2] H3]. split; [exact H1|]. intros [H4|H4]; [congruence|contradiction].
      - intros [H1 H2]. split; [split; [exact H1|]|]; intro; apply H2; [left; congruence|right; assumption]. }
    intros mm. destruct (R1 mm) as [mm1 [Ra Rb]]. destruct (R2 mm1) as [mm2 [Rc Rd]].
    exists mm2. split.
    + rewrite run_app, Ra. change ([APop] ++ new2) with (APop :: new2).
      assert (Rp : run (APop :: new2) (view m1, mm1) = run new2 (tl (view m1), mm1)).
      { destruct (view m1) eqn:Vv; [simpl in Lm1; rewrite app_length in Lm1; lia|]. reflexivity. }
      rewrite Rp, <- (view_tl_pop m1 Hpos), Em2. exact Rc.
    + intros d Ld Hm. apply (Rd d (L1 d Ld)), (Rb d Ld Hm).
Qed.
