(* C14S: the dynamic-allocation region starts above every static frame and every spill slot.
   `VenomCompiler._initial_fmp_value` = ceil32 (max (max fn_eom) spiller.peak_spill_end), read after all code generation.
   With the spiller model of Spill.v (start_fn / get_slot / free_slots) every slot any function was ever handed ends at or
   below the final peak, hence below the initial FMP; `bump` only moves the FMP upwards and restores go back to earlier
   bump outputs (C14/FmpLifo.v), so no dalloca'd buffer can alias a spilled value or a static allocation.
   Tie: c14s_frames.FrameRecorder._check_initial_fmp compares the constant in the EMITTED assembly with every slot handed out
   and every static allocation of the observed compiles (seeded change C14_m4: peak_spill_end ignored). *)
From Coq Require Import ZArith List Bool Lia.
From Verif Require Import Base.PyInt C14S.PyList C14S.StackSpec C14S.Spill C14S.FrameProofs.
Import ListNotations.
Open Scope Z_scope.

Fixpoint final_state (eoms : list Z) (fns : list (list sop)) (s : sp) : option sp :=
  match fns with
  | [] => Some s
  | ops :: r => match run_ops ops (start_fn eoms s) [] with
                | None => None
                | Some (s1, _) => final_state eoms r s1
                end
  end.

Definition c32 (x : Z) : Z := ((x + 31) / 32) * 32.
Definition initial_fmp (eoms : list Z) (peak : Z) : Z := c32 (Z.max (max_eom eoms) peak).

Lemma c32_ge x : x <= c32 x.
Proof. unfold c32. pose proof (Z.div_mod (x + 31) 32 ltac:(lia)). pose proof (Z.mod_pos_bound (x + 31) 32 ltac:(lia)). lia. Qed.

Lemma run_fns_final : forall eoms fns s us, run_fns eoms fns s = Some us ->
  exists sf, final_state eoms fns s = Some sf /\ sp_peak s <= sp_peak sf /\
             forall u o, In u us -> In o u -> o + 32 <= sp_peak sf.
Proof.
  induction fns as [|ops r IH]; intros s us H; simpl in H.
  - inversion H; subst. exists s. split; [reflexivity|]. split; [lia|]. intros u o [].
  - simpl. destruct (run_ops ops (start_fn eoms s) []) as [[s1 used]|] eqn:R; [|discriminate].
    destruct (run_fns eoms r s1) as [us1|] eqn:F; [|discriminate]. inversion H; subst; clear H.
    assert (Hi0 : finv (Z.max (max_eom eoms) (sp_peak s)) (start_fn eoms s) []).
    { unfold finv, start_fn; simpl. split; [lia|]. intros o [[]|[]]. }
    destruct (run_ops_inv _ _ _ _ _ _ Hi0 R) as [[_ Hb] Hp]. simpl in Hp.
    destruct (IH _ _ F) as [sf [Hf [Hm Hs]]]. exists sf. split; [exact Hf|]. split; [lia|].
    intros u o [Hu|Hu] Ho.
    + subst. destruct (Hb o (or_intror Ho)). lia.
    + exact (Hs u o Hu Ho).
Qed.

Theorem initial_fmp_above_frames_and_spills : forall eoms fns s us sf,
  run_fns eoms fns s = Some us -> final_state eoms fns s = Some sf ->
  (forall e, In e eoms -> e <= initial_fmp eoms (sp_peak sf)) /\
  (forall u o, In u us -> In o u -> o + 32 <= initial_fmp eoms (sp_peak sf)).
Proof.
  intros eoms fns s us sf H Hf. destruct (run_fns_final _ _ _ _ H) as [sf' [Hf' [_ Hs]]].
  rewrite Hf in Hf'. inversion Hf'; subst sf'. unfold initial_fmp. split.
  - intros e He. pose proof (max_eom_ge _ _ He). pose proof (c32_ge (Z.max (max_eom eoms) (sp_peak sf))). lia.
  - intros u o Hu Ho. pose proof (Hs u o Hu Ho). pose proof (c32_ge (Z.max (max_eom eoms) (sp_peak sf))). lia.
Qed.
Print Assumptions initial_fmp_above_frames_and_spills.
