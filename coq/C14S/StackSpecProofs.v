(* The stack-map specification mirrors the EVM stack effect of the opcode emitted alongside:
   dup d   <->  DUP(1-d)      swap d  <->  SWAP(-d)      pop n <-> n x POP      push <-> PUSH
   and get_depth returns the (negated) position of the first occurrence from the top. *)
From Coq Require Import ZArith List Bool Lia.
From Verif Require Import Base.PyInt C14S.PyList C14S.StackSpec.
Import ListNotations.
Open Scope Z_scope.

Lemma zlen_nonneg {A} (l : list A) : 0 <= zlen l. Proof. unfold zlen; lia. Qed.
Lemma zlen_app {A} (a b : list A) : zlen (a ++ b) = zlen a + zlen b.
Proof. unfold zlen. rewrite app_length. lia. Qed.
Lemma zlen_rev {A} (l : list A) : zlen (rev l) = zlen l.
Proof. unfold zlen. rewrite rev_length. reflexivity. Qed.
Lemma length_set_nth : forall l n v, length (set_nth l n v) = length l.
Proof. induction l; destruct n; simpl; auto. Qed.
Lemma nth_set_nth_same : forall l n v, (n < length l)%nat -> nth n (set_nth l n v) 0 = v.
Proof. induction l; destruct n; simpl; intros; try lia; auto. apply IHl. lia. Qed.
Lemma nth_set_nth_other : forall l n k v, n <> k -> nth k (set_nth l n v) 0 = nth k l 0.
Proof. induction l; destruct n; destruct k; simpl; intros; try congruence; auto. Qed.

Lemma set_nth_app_l : forall a b n v, (n < length a)%nat -> set_nth (a ++ b) n v = set_nth a n v ++ b.
Proof. induction a; destruct n; simpl; intros; try lia; auto. rewrite IHa by lia. reflexivity. Qed.
Lemma set_nth_app_r : forall a b n v, (length a <= n)%nat -> set_nth (a ++ b) n v = a ++ set_nth b (n - length a) v.
Proof.
  induction a; intros b n v H; simpl in *.
  - rewrite Nat.sub_0_r. reflexivity.
  - destruct n; [lia|]. simpl. rewrite IHa by lia. reflexivity.
Qed.

(* set_nth commutes with rev *)
Lemma rev_set_nth : forall l n v, (n < length l)%nat ->
  rev (set_nth l n v) = set_nth (rev l) (length l - 1 - n) v.
Proof.
  induction l as [|x t IH]; intros n v H; simpl in H; [lia|].
  destruct n; simpl.
  - rewrite set_nth_app_r by (rewrite rev_length; lia).
    rewrite rev_length. replace (length t - 0 - 0 - length t)%nat with 0%nat by lia. reflexivity.
  - rewrite IH by lia. rewrite set_nth_app_l by (rewrite rev_length; lia).
    f_equal. f_equal. lia.
Qed.

Lemma nth_rev : forall (l : list Z) n, (n < length l)%nat -> nth n (rev l) 0 = nth (length l - 1 - n) l 0.
Proof. intros. rewrite rev_nth by lia. f_equal. lia. Qed.

Lemma idx_lt : forall m d, valid_depth m d -> (idx m d < length m)%nat /\ idx m d = (length m - 1 - pos d)%nat.
Proof. intros m d [H1 H2]. unfold idx, pos, zlen in *. split; lia. Qed.

(* peek d reads position -d from the top *)
Theorem peek_view : forall m d, valid_depth m d -> st_peek m d = nth (pos d) (view m) 0.
Proof.
  intros m d H. destruct (idx_lt m d H) as [H1 H2]. unfold st_peek, view.
  rewrite nth_rev by (destruct H; unfold pos, zlen in *; lia). f_equal.
  destruct H; unfold pos, zlen in *; lia.
Qed.

Theorem push_view : forall m x, view (st_push m x) = evm_push x (view m).
Proof. intros. unfold view, st_push, evm_push. rewrite rev_app_distr. reflexivity. Qed.

(* dup d is DUP(1-d): defined by the EVM exactly when the depth is valid and 1-d <= 16 *)
Theorem dup_view : forall m d, valid_depth m d -> 1 - d <= 16 ->
  evm_dup (1 - d) (view m) = Some (view (st_dup m d)).
Proof.
  intros m d H H16. unfold evm_dup. unfold view at 1 2. rewrite zlen_rev.
  destruct H as [Hd Hl]. 
  replace ((1 <=? 1 - d) && (1 - d <=? 16) && (1 - d <=? zlen m)) with true
    by (symmetry; rewrite !andb_true_iff; repeat split; apply Z.leb_le; lia).
  unfold st_dup, view. rewrite rev_app_distr. cbn [rev app]. f_equal. f_equal.
  rewrite (peek_view m d (conj Hd Hl)). unfold view, pos. f_equal. lia.
Qed.

(* the deep (spilled) case: dup still copies the item at position -d to the top, for any depth *)
Theorem dup_view_any : forall m d, valid_depth m d -> view (st_dup m d) = nth (pos d) (view m) 0 :: view m.
Proof.
  intros m d H. unfold st_dup, view. rewrite rev_app_distr. cbn [rev app]. f_equal. apply (peek_view m d H).
Qed.

Definition swap_view (n : nat) (s : list Z) : list Z := set_nth (set_nth s 0 (nth n s 0)) n (nth 0 s 0).

Theorem swap_view_any : forall m d, valid_depth m d -> d < 0 -> view (st_swap m d) = swap_view (pos d) (view m).
Proof.
  intros m d H Hneg. destruct (idx_lt m d H) as [H1 H2].
  assert (H0 : valid_depth m 0) by (destruct H; split; lia).
  destruct (idx_lt m 0 H0) as [H3 H4].
  unfold st_swap, view, swap_view.
  rewrite rev_set_nth by (rewrite length_set_nth; exact H1).
  rewrite rev_set_nth by exact H3.
  rewrite length_set_nth.
  rewrite (peek_view m d H), (peek_view m 0 H0). unfold view.
  replace (pos 0) with 0%nat by reflexivity.
  f_equal; [f_equal|]; unfold pos in *; destruct H; unfold zlen in *; lia.
Qed.

Theorem swap_view_evm : forall m d, valid_depth m d -> d < 0 -> - d <= 16 ->
  evm_swap (- d) (view m) = Some (view (st_swap m d)).
Proof.
  intros m d H Hneg H16. unfold evm_swap. unfold view at 1. rewrite zlen_rev. destruct H as [Hd Hl].
  replace ((1 <=? - d) && (- d <=? 16) && (- d <? zlen m)) with true
    by (symmetry; rewrite !andb_true_iff; repeat split; try apply Z.leb_le; try apply Z.ltb_lt; lia).
  rewrite (swap_view_any m d (conj Hd Hl) Hneg). reflexivity.
Qed.

Theorem pop_view : forall m n, 0 <= n <= zlen m -> view (st_pop m n) = skipn (Z.to_nat n) (view m).
Proof.
  intros m n H. unfold st_pop, view. rewrite skipn_rev. f_equal. f_equal. unfold zlen in *. lia.
Qed.

Theorem poke_view : forall m d x, valid_depth m d -> view (st_poke m d x) = set_nth (view m) (pos d) x.
Proof.
  intros m d x H. destruct (idx_lt m d H) as [H1 H2]. unfold st_poke, view.
  rewrite rev_set_nth by exact H1. f_equal. destruct H; unfold pos, zlen in *; lia.
Qed.

(* get_depth: (negated) position of the first occurrence from the top, None iff absent *)
Lemma find_top_spec : forall x s i r, find_top x s i = Some r ->
  i <= r /\ nth (Z.to_nat (r - i)) s 0 = x /\ (r - i < zlen s) /\
  forall k, (k < Z.to_nat (r - i))%nat -> nth k s 0 <> x.
Proof.
  induction s as [|y t IH]; intros i r H; simpl in H; [discriminate|].
  destruct (Z.eqb_spec y x).
  - inversion H; subst. rewrite Z.sub_diag. simpl. repeat split; try lia; unfold zlen; simpl; lia.
  - destruct (IH (i + 1) r H) as [H1 [H2 [H3 H4]]].
    assert (E : Z.to_nat (r - i) = S (Z.to_nat (r - (i + 1)))) by lia.
    rewrite E. simpl. repeat split; auto; try lia.
    + unfold zlen in *. simpl. lia.
    + intros [|k] Hk; simpl; [exact n|]. apply H4. lia.
Qed.
Lemma find_top_none : forall x s i, find_top x s i = None <-> ~ In x s.
Proof.
  induction s as [|y t IH]; intros i; simpl; [tauto|].
  destruct (Z.eqb_spec y x).
  - split; [discriminate|]. intro H; exfalso; apply H; auto.
  - rewrite IH. split; intros H; [intros [E|E]; [congruence|auto]|auto].
Qed.

Theorem get_depth_spec : forall m x,
  (forall d, spec_get_depth m x = Some d ->
     valid_depth m d /\ st_peek m d = x /\ forall k, (k < pos d)%nat -> nth k (view m) 0 <> x) /\
  (spec_get_depth m x = None <-> ~ In x m).
Proof.
  intros m x. unfold spec_get_depth. split.
  - intros d H. destruct (find_top x (view m) 0) as [r|] eqn:F; [|discriminate]. inversion H; subst.
    destruct (find_top_spec _ _ _ _ F) as [H1 [H2 [H3 H4]]]. rewrite Z.sub_0_r in *.
    assert (V : valid_depth m (- r)) by (split; [lia|unfold view in H3; rewrite zlen_rev in H3; lia]).
    split; [exact V|]. split.
    + rewrite (peek_view m (- r) V). unfold pos. rewrite Z.opp_involutive. exact H2.
    + unfold pos. rewrite Z.opp_involutive. exact H4.
  - destruct (find_top x (view m) 0) eqn:F.
    + split; [discriminate|]. intro H. exfalso.
      assert (E : find_top x (view m) 0 = None) by (apply find_top_none; unfold view; rewrite <- in_rev; exact H).
      congruence.
    + split; auto. intros _. apply find_top_none in F. unfold view in F. rewrite <- in_rev in F. exact F.
Qed.
