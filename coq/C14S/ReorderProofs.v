(* C14S: the placement loop of VenomCompiler._stack_reorder (Spill.place): for ANY stack height, any duplicate-free
   target list whose operands are all on the stack, the emitted swaps leave the target as the top |target| items
   (in order), keep every operand of the stack available (same length, same members), and the emitted code
   realises the new stack map on the machine with all SWAP indices <= 16. *)
From Coq Require Import ZArith List Bool Lia.
From Verif Require Import Base.PyInt C14S.PyList C14S.StackSpec C14S.StackSpecProofs C14S.Spill C14S.SpillProofs C14S.SpillInv.
Import ListNotations.
Open Scope Z_scope.

(* ---- swap on views ---- *)
Lemma length_swap_view : forall q s, length (swap_view q s) = length s.
Proof. intros. unfold swap_view. rewrite !length_set_nth. reflexivity. Qed.

Lemma nth_swap_view : forall q s k, (q < length s)%nat ->
  nth k (swap_view q s) 0 = if Nat.eqb k q then nth 0 s 0 else if Nat.eqb k 0 then nth q s 0 else nth k s 0.
Proof.
  intros q s k Hq. unfold swap_view.
  destruct (Nat.eqb_spec k q).
  - subst. apply nth_set_nth_same. rewrite length_set_nth. exact Hq.
  - rewrite nth_set_nth_other by congruence.
    destruct (Nat.eqb_spec k 0).
    + subst. apply nth_set_nth_same. lia.
    + apply nth_set_nth_other. congruence.
Qed.

Lemma in_nth_iff : forall (l : list Z) x, In x l <-> exists k, (k < length l)%nat /\ nth k l 0 = x.
Proof.
  intros l x. split.
  - intro H. destruct (In_nth l x 0 H) as [k [H1 H2]]. exists k. auto.
  - intros [k [H1 H2]]. subst. apply nth_In. exact H1.
Qed.

Lemma in_swap_view : forall q s x, (q < length s)%nat -> In x s -> In x (swap_view q s).
Proof.
  intros q s x Hq H. apply in_nth_iff in H. destruct H as [k [Hk E]]. apply in_nth_iff.
  rewrite length_swap_view.
  destruct (Nat.eqb_spec k 0) as [K0|K0].
  - exists q. split; [exact Hq|]. rewrite nth_swap_view by exact Hq. rewrite Nat.eqb_refl. subst. reflexivity.
  - destruct (Nat.eqb_spec k q) as [Kq|Kq].
    + exists 0%nat. split; [lia|]. rewrite nth_swap_view by exact Hq.
      destruct (Nat.eqb_spec 0 q); [subst; congruence|]. simpl. subst. reflexivity.
    + exists k. split; [exact Hk|]. rewrite nth_swap_view by exact Hq.
      destruct (Nat.eqb_spec k q); [contradiction|]. destruct (Nat.eqb_spec k 0); [contradiction|]. exact E.
Qed.

Lemma in_view : forall (m : list Z) x, In x (view m) <-> In x m.
Proof. intros. unfold view. symmetry. apply in_rev. Qed.
Lemma length_view : forall m : list Z, length (view m) = length m.
Proof. intros. unfold view. apply rev_length. Qed.

(* sp_swap at any depth (0 allowed): the stack map becomes the view-level swap *)
Lemma sp_swap_any : forall depth a m s,
  sp_inv s -> valid_depth m depth ->
  exists new s' c,
    sp_swap false depth a m s = Ok (a ++ new, (if depth =? 0 then m else st_swap m depth), s', c) /\
    view (if depth =? 0 then m else st_swap m depth) = swap_view (pos depth) (view m) /\
    forallb depth_ok new = true /\ sp_inv s' /\
    (forall d, live_inv s d -> live_inv s' d) /\
    forall mm, exists mm', run new (view m, mm) = Some (swap_view (pos depth) (view m), mm').
Proof.
  intros depth a m s Hi Hv. destruct (Z.eqb_spec depth 0) as [E|E].
  - subst. exists [], s, 0. unfold sp_swap. simpl. rewrite app_nil_r. split; [reflexivity|].
    assert (Hs : swap_view (pos 0) (view m) = view m).
    { unfold swap_view, pos. simpl. destruct (view m) eqn:V; [|reflexivity].
      exfalso. destruct Hv as [_ H]. rewrite <- zlen_view, V in H. unfold zlen in H. simpl in H. lia. }
    rewrite Hs. split; [reflexivity|]. split; [reflexivity|]. split; [exact Hi|]. split; [auto|]. intros mm. exists mm. reflexivity.
  - assert (Hneg : depth < 0) by (destruct Hv; lia).
    destruct (spill_swap_correct_thm depth a m s Hi Hv Hneg) as [new [s' [c [E1 [D [I' [_ [_ [_ R]]]]]]]]].
    exists new, s', c. split; [exact E1|]. split; [apply swap_view_any; assumption|]. split; [exact D|]. split; [exact I'|].
    split; [intros d Ld; exact (swap_keeps_live_thm depth a m s d _ _ _ _ Ld Hv Hneg E1)|].
    intros mm. destruct (R mm) as [mm' [R1 _]]. exists mm'. rewrite R1. rewrite (swap_view_any m depth Hv Hneg). reflexivity.
Qed.

Lemma set_nth_same_value : forall (l : list Z) k, set_nth l k (nth k l 0) = l.
Proof. induction l; destruct k; simpl; auto. f_equal. apply IHl. Qed.

(* ---- the placement loop ---- *)
Definition placed (n : nat) (done : list Z) (s : list Z) : Prop :=
  forall j, (j < length done)%nat -> nth (n - 1 - j) s 0 = nth j done 0.

Theorem place_correct_gen : forall rest done a m s cost,
  let allops := done ++ rest in
  let n := length allops in
  sp_inv s -> NoDup allops -> (forall x, In x rest -> In x m) -> (n <= length m)%nat ->
  placed n done (view m) ->
  exists new m' s' cost',
    place Z.eqb false (Z.of_nat n) rest (Z.of_nat (length done)) a m s cost = Ok (a ++ new, m', s', cost') /\
    placed n allops (view m') /\ length m' = length m /\ (forall x, In x m -> In x m') /\
    forallb depth_ok new = true /\ sp_inv s' /\ (forall d, live_inv s d -> live_inv s' d) /\
    forall mm, exists mm', run new (view m, mm) = Some (view m', mm').
Proof.
  induction rest as [|op rest IH]; intros done a m s cost allops n Hi Hnd Hin Hlen Hpl.
  - exists [], m, s, cost. simpl. rewrite app_nil_r.
    split; [reflexivity|]. split; [unfold allops; rewrite app_nil_r; exact Hpl|]. split; [reflexivity|].
    split; [auto|]. split; [reflexivity|]. split; [exact Hi|]. split; [auto|]. intros mm. exists mm. reflexivity.
  - set (i := length done).
    assert (Hn : n = (i + S (length rest))%nat) by (unfold n, allops, i; rewrite app_length; reflexivity).
    assert (Hop_in : In op m) by (apply Hin; left; reflexivity).
    destruct (spec_get_depth m op) as [depth|] eqn:G.
    2:{ exfalso. apply (proj2 (get_depth_spec m op)) in G. contradiction. }
    destruct (proj1 (get_depth_spec m op) depth G) as [Vd [Pk Pfirst]].
    rewrite (peek_view m depth Vd) in Pk.
    set (final := - (Z.of_nat n - Z.of_nat i - 1)).
    assert (Vf : valid_depth m final) by (unfold valid_depth, final, zlen; split; lia).
    assert (Hposf : pos final = (n - 1 - i)%nat) by (unfold pos, final; lia).
    (* what the remaining iterations need, for a new stack map m1 *)
    assert (Step : forall a1 m1 s1 cost1 new1,
      sp_inv s1 -> length m1 = length m -> (forall x, In x m -> In x m1) ->
      placed n (done ++ [op]) (view m1) -> forallb depth_ok new1 = true -> a1 = a ++ new1 ->
      (forall d, live_inv s d -> live_inv s1 d) ->
      (forall mm, exists mm', run new1 (view m, mm) = Some (view m1, mm')) ->
      exists new m' s' cost',
        place Z.eqb false (Z.of_nat n) rest (Z.of_nat i + 1) a1 m1 s1 cost1 = Ok (a ++ new, m', s', cost') /\
        placed n allops (view m') /\ length m' = length m /\ (forall x, In x m -> In x m') /\
        forallb depth_ok new = true /\ sp_inv s' /\ (forall d, live_inv s d -> live_inv s' d) /\
        forall mm, exists mm', run new (view m, mm) = Some (view m', mm')).
    { intros a1 m1 s1 cost1 new1 I1 L1 In1 P1 D1 Ea K1 R1.
      assert (Eall : (done ++ [op]) ++ rest = allops) by (unfold allops; rewrite <- app_assoc; reflexivity).
      destruct (IH (done ++ [op]) a1 m1 s1 cost1) as [new2 [m' [s' [cost' [E2 [P2 [L2 [In2 [D2 [I2 [K2 R2]]]]]]]]]]].
      - exact I1.
      - rewrite Eall. exact Hnd.
      - intros x Hx. apply In1. apply Hin. right. exact Hx.
      - rewrite Eall. fold n. lia.
      - rewrite Eall. fold n. exact P1.
      - rewrite Eall in *. fold n in E2, P2.
        replace (Z.of_nat (length (done ++ [op]))) with (Z.of_nat i + 1) in E2
          by (rewrite app_length; simpl; unfold i; lia).
        exists (new1 ++ new2), m', s', cost'. subst a1. rewrite <- app_assoc in E2.
        split; [exact E2|]. split; [exact P2|]. split; [lia|]. split; [intros x Hx; apply In2; apply In1; exact Hx|].
        split; [rewrite forallb_app, D1, D2; reflexivity|]. split; [exact I2|].
        split; [intros d0 Ld; apply K2; apply K1; exact Ld|].
        intros mm. destruct (R1 mm) as [mm1 Q1]. destruct (R2 mm1) as [mm2 Q2]. exists mm2.
        rewrite run_app, Q1. exact Q2. }
    (* extend `placed` by one position *)
    assert (Ext : forall s1, (forall j, (j < i)%nat -> nth (n - 1 - j) s1 0 = nth (n - 1 - j) (view m) 0) ->
                             nth (n - 1 - i) s1 0 = op -> placed n (done ++ [op]) s1).
    { intros s1 Hsame Hnew j Hj. rewrite app_length in Hj. simpl in Hj.
      destruct (Nat.eq_dec j i) as [Ej|Ej].
      - subst j. rewrite app_nth2 by (unfold i; lia). unfold i. rewrite Nat.sub_diag. exact Hnew.
      - assert (Hji : (j < i)%nat) by lia. rewrite app_nth1 by (unfold i in Hji; exact Hji).
        rewrite Hsame by exact Hji. apply Hpl. exact Hji. }
    cbn [place]. fold final. rewrite G.
    destruct (Z.eqb_spec depth final) as [Edf|Edf].
    + (* already in place *)
      apply (Step a m s cost []); auto.
      * apply Ext; [auto|]. rewrite <- Hposf, <- Edf. exact Pk.
      * rewrite app_nil_r. reflexivity.
      * intros mm. exists mm. reflexivity.
    + destruct Vf as [Vf1 Vf2].
      destruct (Z.leb_spec final 0); [|lia]. destruct (Z.ltb_spec (- final) (zlen m)); [|lia]. cbn [negb andb].
      assert (Vf : valid_depth m final) by (split; assumption).
      destruct (Z.eqb_spec op (st_peek m final)) as [Eeq|Eeq].
      * (* "virtual swap" of identical operands: the pokes rewrite the same values *)
        assert (Hsame : st_poke (st_poke m final op) depth (st_peek m final) = m).
        { rewrite <- Eeq. unfold st_poke.
          assert (E1 : set_nth m (idx m final) op = m).
          { rewrite Eeq at 1. unfold st_peek. apply set_nth_same_value. }
          rewrite E1.
          assert (E2 : nth (idx m depth) m 0 = op).
          { change (st_peek m depth = op). rewrite (peek_view m depth Vd). exact Pk. }
          rewrite <- E2. apply set_nth_same_value. }
        rewrite Hsame.
        apply (Step a m s cost []); auto.
        -- apply Ext; [auto|]. rewrite <- Hposf. rewrite <- (peek_view m final Vf). symmetry. exact Eeq.
        -- rewrite app_nil_r. reflexivity.
        -- intros mm. exists mm. reflexivity.
      * (* swap the operand to the top, then into its final position *)
        destruct (sp_swap_any depth a m s Hi Vd) as [new1 [s1 [c1 [E1 [V1 [D1 [I1 [K1 R1]]]]]]]].
        set (m1 := if depth =? 0 then m else st_swap m depth) in *.
        assert (Lv : (pos depth < length (view m))%nat).
        { rewrite length_view. destruct Vd. unfold pos, zlen in *. lia. }
        assert (L1 : length m1 = length m).
        { rewrite <- (length_view m1), V1, length_swap_view, length_view. reflexivity. }
        assert (Vf1' : valid_depth m1 final) by (destruct Vf; split; [assumption|unfold zlen in *; rewrite L1; assumption]).
        rewrite E1.
        destruct (sp_swap_any final (a ++ new1) m1 s1 I1 Vf1') as [new2 [s2 [c2 [E2 [V2 [D2 [I2 [K2 R2]]]]]]]].
        set (m2 := if final =? 0 then m1 else st_swap m1 final) in *.
        rewrite E2.
        assert (Lv1 : (pos final < length (view m1))%nat).
        { rewrite length_view, L1. destruct Vf. unfold pos, zlen in *. lia. }
        assert (L2 : length m2 = length m).
        { rewrite <- (length_view m2), V2, length_swap_view, length_view. exact L1. }
        apply (Step ((a ++ new1) ++ new2) m2 s2 (cost + c1 + c2) (new1 ++ new2)); auto.
        -- intros x Hx. apply in_view. rewrite V2. apply in_swap_view; [exact Lv1|].
           rewrite V1. apply in_swap_view; [exact Lv|]. apply in_view. exact Hx.
        -- (* positions *)
           assert (Hq_ne : forall j, (j < i)%nat -> (n - 1 - j)%nat <> pos depth).
           { intros j Hj Hc. specialize (Hpl j Hj). rewrite Hc, Pk in Hpl.
             (* op = done[j] contradicts NoDup *)
             unfold allops in Hnd. apply NoDup_remove_2 in Hnd.
             apply Hnd. apply in_or_app. left. rewrite Hpl. apply nth_In. exact Hj. }
           apply Ext.
           ++ intros j Hj. rewrite V2, nth_swap_view by exact Lv1. rewrite Hposf.
              destruct (Nat.eqb_spec (n - 1 - j) (n - 1 - i)); [lia|].
              destruct (Nat.eqb_spec (n - 1 - j) 0); [lia|].
              rewrite V1, nth_swap_view by exact Lv.
              destruct (Nat.eqb_spec (n - 1 - j) (pos depth)); [exfalso; apply (Hq_ne j Hj); assumption|].
              destruct (Nat.eqb_spec (n - 1 - j) 0); [lia|]. reflexivity.
           ++ rewrite V2, nth_swap_view by exact Lv1. rewrite Hposf, Nat.eqb_refl.
              rewrite V1, nth_swap_view by exact Lv.
              destruct (Nat.eqb_spec 0 (pos depth)) as [Z0|Z0].
              ** rewrite <- Z0 in Pk. exact Pk.
              ** simpl. exact Pk.
        -- rewrite forallb_app, D1, D2. reflexivity.
        -- rewrite <- app_assoc. reflexivity.
        -- intros mm. destruct (R1 mm) as [mm1 Q1]. rewrite <- V1 in Q1.
           destruct (R2 mm1) as [mm2 Q2]. rewrite <- V2 in Q2. exists mm2. rewrite run_app, Q1. exact Q2.
Qed.

(* the statement for a whole target list *)
Theorem reorder_place_correct_thm : forall ops a m s,
  sp_inv s -> NoDup ops -> (forall x, In x ops -> In x m) -> (length ops <= length m)%nat ->
  exists new m' s' cost,
    place Z.eqb false (zlen ops) ops 0 a m s 0 = Ok (a ++ new, m', s', cost) /\
    skipn (length m' - length ops) m' = ops /\
    length m' = length m /\ (forall x, In x m -> In x m') /\
    forallb depth_ok new = true /\ sp_inv s' /\ (forall d, live_inv s d -> live_inv s' d) /\
    forall mm, exists mm', run new (view m, mm) = Some (view m', mm').
Proof.
  intros ops a m s Hi Hnd Hin Hlen.
  destruct (place_correct_gen ops [] a m s 0 Hi Hnd Hin Hlen) as [new [m' [s' [cost [E [P [L [In' [D [I' [K R]]]]]]]]]]].
  { intros j Hj. simpl in Hj. lia. }
  simpl in E, P. exists new, m', s', cost. split; [exact E|].
  split; [|split; [exact L|split; [exact In'|split; [exact D|split; [exact I'|split; [exact K|exact R]]]]]].
  (* the top |ops| items, read bottom-first, are ops *)
  set (n := length ops) in *.
  apply nth_ext with (d := 0) (d' := 0).
  - rewrite skipn_length. lia.
  - intros k Hk. rewrite skipn_length in Hk. rewrite nth_skipn.
    assert (Hkn : (k < n)%nat) by lia.
    specialize (P k Hkn). unfold view in P. rewrite rev_nth in P by lia. rewrite <- P. f_equal. lia.
Qed.

(* ---- the whole _stack_reorder when no target is spilled and every target is within SWAP16 reach
        (any stack height; deeper targets go through _reduce_depth_via_spill: executable model + exact tie) ---- *)
Lemma nodupb_spec : forall l, nodupb l = true <-> NoDup l.
Proof.
  induction l as [|x r IH]; simpl; [split; [constructor|reflexivity]|].
  rewrite andb_true_iff, IH, negb_true_iff. split.
  - intros [H1 H2]. constructor; [|exact H2]. intro Hin. unfold py_in in H1.
    assert (existsb (Z.eqb x) r = true) by (apply existsb_exists; exists x; split; [exact Hin|apply Z.eqb_refl]). congruence.
  - intro H. inversion H; subst. split; [|assumption]. unfold py_in.
    destruct (existsb (Z.eqb x) r) eqn:E; [|reflexivity]. apply existsb_exists in E. destruct E as [y [Hy Ey]].
    apply Z.eqb_eq in Ey. subst. contradiction.
Qed.

Lemma restore_all_id : forall ops a m s d, (forall x, In x ops -> sp_lookup d x = None) ->
  restore_all false ops a m s d = Ok (a, m, s, d).
Proof.
  induction ops as [|x r IH]; intros a m s d H; simpl; [reflexivity|].
  rewrite (H x (or_introl eq_refl)). apply IH. intros y Hy. apply H. right. exact Hy.
Qed.

Lemma in_insert_by : forall k x l y, In y (map snd (insert_by k x l)) <-> x = y \/ In y (map snd l).
Proof.
  induction l as [|[k' z] r IH]; intros y; simpl; [tauto|].
  destruct (k <? k'); simpl; [tauto|]. rewrite IH. tauto.
Qed.
Lemma sort_by_depth_ok : forall m ops acc, (forall x, In x ops -> In x m) ->
  exists order, sort_by_depth m ops acc = Ok order /\
    forall y, In y order <-> In y ops \/ In y (map snd acc).
Proof.
  induction ops as [|x r IH]; intros acc H; simpl.
  - exists (map snd acc). split; [reflexivity|tauto].
  - destruct (spec_get_depth m x) as [k|] eqn:G.
    2:{ exfalso. apply (proj2 (get_depth_spec m x)) in G. apply G. apply H. left. reflexivity. }
    destruct (IH (insert_by k x acc)) as [order [E Hin]]; [intros y Hy; apply H; right; exact Hy|].
    exists order. split; [exact E|]. intros y. rewrite Hin, in_insert_by. simpl. tauto.
Qed.

Lemma reduce_all_id : forall order stack_ops a m s d,
  (forall x, In x order -> exists dp, spec_get_depth m x = Some dp /\ -16 <= dp) ->
  reduce_all false stack_ops order a m s d = Ok (a, m, s, d).
Proof.
  induction order as [|x r IH]; intros stack_ops a m s d H; simpl; [reflexivity|].
  destruct (H x (or_introl eq_refl)) as [dp [G Hd]]. rewrite G.
  assert (R : reduce_depth (length m) false stack_ops x dp a m s d = Ok (a, m, s, d)).
  { destruct (length m); simpl; destruct (Z.ltb_spec dp (-16)); try lia; reflexivity. }
  rewrite R. apply IH. intros y Hy. apply H. right. exact Hy.
Qed.

Theorem stack_reorder_correct_thm : forall ops a m s d,
  ops <> [] -> sp_inv s -> NoDup ops ->
  (forall x, In x ops -> sp_lookup d x = None) ->
  (forall x, In x ops -> exists dp, spec_get_depth m x = Some dp /\ -16 <= dp) ->
  exists new m' s' cost,
    stack_reorder Z.eqb false ops a m s d = Ok (a ++ new, m', s', d, cost) /\
    skipn (length m' - length ops) m' = ops /\
    length m' = length m /\ (forall x, In x m -> In x m') /\
    forallb depth_ok new = true /\ sp_inv s' /\
    forall mm, exists mm', run new (view m, mm) = Some (view m', mm').
Proof.
  intros ops a m s d Hne Hi Hnd Hsp Hdp.
  assert (Hin : forall x, In x ops -> In x m).
  { intros x Hx. destruct (Hdp x Hx) as [dp [G _]]. destruct (in_dec Z.eq_dec x m) as [Y|N]; [exact Y|].
    apply (proj2 (get_depth_spec m x)) in N. congruence. }
  assert (Hlen : (length ops <= length m)%nat) by (apply NoDup_incl_length; [exact Hnd|exact Hin]).
  unfold stack_reorder. destruct ops as [|o ops']; [congruence|]. set (ops := o :: ops') in *.
  rewrite (proj2 (nodupb_spec ops) Hnd). cbn [negb].
  rewrite (restore_all_id ops a m s d Hsp).
  destruct (sort_by_depth_ok m ops [] Hin) as [order [Es Ho]]. rewrite Es.
  rewrite (reduce_all_id order ops a m s d).
  2:{ intros x Hx. apply Hdp. apply Ho in Hx. destruct Hx as [Hx|[]]. exact Hx. }
  destruct (reorder_place_correct_thm ops a m s Hi Hnd Hin Hlen) as [new [m' [s' [cost [E [Sk [L [In' [D [I' [_ R]]]]]]]]]]].
  rewrite E. destruct (list_eq_dec Z.eq_dec (skipn (length m' - length ops) m') ops) as [_|N]; [|contradiction].
  exists new, m', s', cost.
  split; [reflexivity|]. split; [exact Sk|]. split; [exact L|]. split; [exact In'|]. split; [exact D|]. split; [exact I'|exact R].
Qed.
