(* C14S: the free-slot list never contains a slot holding a live spilled operand, live slots are pairwise
   distinct and below the allocation cursor -- invariant over operation sequences of the spiller model. *)
From Coq Require Import ZArith List Bool Lia.
From Verif Require Import Base.PyInt C14S.PyList C14S.StackSpec C14S.StackSpecProofs C14S.Spill C14S.SpillProofs.
Import ListNotations.
Open Scope Z_scope.

Definition live_inv (s : sp) (d : spilled) : Prop :=
  sp_inv s /\ NoDup (map fst d) /\ NoDup (map snd d) /\
  forall o, In o (map snd d) -> o < sp_next s /\ ~ In o (sp_free s).

Lemma live_inv_step : forall s s' d,
  live_inv s d -> sp_inv s' -> sp_next s <= sp_next s' ->
  (forall f, In f (sp_free s') -> In f (sp_free s) \/ sp_next s <= f < sp_next s') ->
  live_inv s' d.
Proof.
  intros s s' d [I [K [N L]]] I' M F. split; [exact I'|]. split; [exact K|]. split; [exact N|].
  intros o Ho. destruct (L o Ho) as [L1 L2]. split; [lia|].
  intro Hf. destruct (F o Hf) as [Q|Q]; [contradiction|lia].
Qed.

Theorem swap_keeps_live_thm : forall depth a m s d a' m' s' c,
  live_inv s d -> valid_depth m depth -> depth < 0 ->
  sp_swap false depth a m s = Ok (a', m', s', c) -> live_inv s' d.
Proof.
  intros depth a m s d a' m' s' c L V Hn H.
  destruct (spill_swap_correct_thm depth a m s (proj1 L) V Hn) as [new [s2 [c2 [E [_ [I2 [M2 [_ [F2 _]]]]]]]]].
  rewrite E in H. inversion H; subst. eapply live_inv_step; eauto.
Qed.
Theorem dup_keeps_live_thm : forall depth a m s d a' m' s' c,
  live_inv s d -> valid_depth m depth ->
  sp_dup false depth a m s = Ok (a', m', s', c) -> live_inv s' d.
Proof.
  intros depth a m s d a' m' s' c L V H.
  destruct (spill_dup_correct_thm depth a m s (proj1 L) V) as [new [s2 [c2 [E [_ [I2 [M2 [F2 _]]]]]]]].
  rewrite E in H. inversion H; subst. eapply live_inv_step; eauto.
Qed.

(* ---- dictionary facts ---- *)
Lemma lookup_none : forall d x, sp_lookup d x = None -> ~ In x (map fst d).
Proof.
  induction d as [|[y v] r IH]; intros x H; simpl in *; [tauto|].
  destruct (Z.eqb_spec y x); [discriminate|]. intros [E|E]; [congruence|apply (IH x H E)].
Qed.
Lemma lookup_split : forall d x v, sp_lookup d x = Some v ->
  exists d1 d2, d = d1 ++ (x, v) :: d2 /\ ~ In x (map fst d1).
Proof.
  induction d as [|[y w] r IH]; intros x v H; simpl in H; [discriminate|].
  destruct (Z.eqb_spec y x).
  - inversion H; subst. exists [], r. split; [reflexivity|tauto].
  - destruct (IH x v H) as [d1 [d2 [E N]]]. exists ((y, w) :: d1), d2. subst r. split; [reflexivity|].
    simpl. intros [Q|Q]; [congruence|auto].
Qed.
Lemma map_replace_notin : forall d x o, ~ In x (map fst d) ->
  map (fun p : Z * Z => if fst p =? x then (x, o) else p) d = d.
Proof.
  induction d as [|[y w] r IH]; intros x o H; simpl in *; [reflexivity|].
  destruct (Z.eqb_spec y x); [exfalso; apply H; left; auto|]. f_equal. apply IH. tauto.
Qed.
Lemma nodup_insert : forall (l l' : list Z) o, NoDup (l ++ l') -> ~ In o (l ++ l') -> NoDup (l ++ o :: l').
Proof.
  induction l as [|x l IH]; intros l' o N H; simpl in *.
  - constructor; assumption.
  - inversion N; subst. constructor.
    + intro Q. apply in_app_or in Q. destruct Q as [Q|[Q|Q]].
      * apply H2. apply in_or_app. left. exact Q.
      * subst. apply H. left. reflexivity.
      * apply H2. apply in_or_app. right. exact Q.
    + apply IH; auto.
Qed.

Lemma sp_set_shape : forall d x o, NoDup (map fst d) ->
  (exists d1 d2 v, d = d1 ++ (x, v) :: d2 /\ sp_set d x o = d1 ++ (x, o) :: d2) \/
  (~ In x (map fst d) /\ sp_set d x o = d ++ [(x, o)]).
Proof.
  intros d x o K. unfold sp_set. destruct (sp_lookup d x) as [v|] eqn:E.
  - left. destruct (lookup_split d x v E) as [d1 [d2 [Ed N1]]]. exists d1, d2, v. split; [exact Ed|].
    subst d. rewrite map_app in K. simpl in K. apply NoDup_remove_2 in K.
    rewrite map_app. simpl. rewrite Z.eqb_refl.
    rewrite map_replace_notin by exact N1.
    rewrite map_replace_notin; [reflexivity|]. intro Q. apply K. apply in_or_app. right. exact Q.
  - right. split; [apply lookup_none; exact E|reflexivity].
Qed.

Lemma sp_set_live : forall s d x o,
  live_inv s d -> o < sp_next s -> ~ In o (sp_free s) -> ~ In o (map snd d) -> live_inv s (sp_set d x o).
Proof.
  intros s d x o [I [K [N L]]] Ho Hf Hn.
  destruct (sp_set_shape d x o K) as [[d1 [d2 [v [Ed Es]]]]|[Nx Es]]; rewrite Es.
  - subst d. split; [exact I|]. rewrite !map_app in *. simpl in *. split; [exact K|]. split.
    + apply nodup_insert.
      * apply NoDup_remove_1 in N. exact N.
      * intro Q. apply Hn. apply in_app_or in Q. apply in_or_app. destruct Q; [left|right; right]; assumption.
    + intros y Hy. apply in_app_or in Hy. destruct Hy as [Hy|[Hy|Hy]].
      * apply L. apply in_or_app. left. exact Hy.
      * subst. split; assumption.
      * apply L. apply in_or_app. right. right. exact Hy.
  - assert (One : forall z : Z, NoDup [z]) by (intro z; constructor; [intros []|constructor]).
    split; [exact I|]. rewrite !map_app. simpl. split.
    { apply nodup_app; auto. intros y Hy [Q|[]]. subst. contradiction. }
    split.
    { apply nodup_app; auto. intros y Hy [Q|[]]. subst. contradiction. }
    intros y Hy. apply in_app_or in Hy. destruct Hy as [Hy|[Hy|[]]]; [apply L; exact Hy|subst; split; assumption].
Qed.

(* ---- spill_operand ---- *)
Theorem spill_operand_keeps_live_thm : forall depth a m s d a' m' s' d',
  live_inv s d -> spill_operand false depth a m s d = Ok (a', m', s', d') -> live_inv s' d'.
Proof.
  intros depth a m s d a' m' s' d' L H. unfold spill_operand in H.
  destruct ((depth <=? 0) && (- depth <? zlen m)) eqn:G; [|discriminate]. cbn [negb] in H.
  apply andb_prop in G. destruct G as [G1 G2]. apply Z.leb_le in G1. apply Z.ltb_lt in G2.
  destruct (is_var (st_peek m depth)); [|discriminate]. cbn [negb] in H.
  assert (Hmid : exists a1 m1 s1 c1, (if depth =? 0 then Ok (a, m, s, 0) else sp_swap false depth a m s) = Ok (a1, m1, s1, c1) /\ live_inv s1 d).
  { destruct (Z.eqb_spec depth 0).
    - exists a, m, s, 0. split; [reflexivity|exact L].
    - destruct (spill_swap_correct_thm depth a m s (proj1 L) (conj G1 G2)) as [new [s2 [c2 [E _]]]]; [lia|].
      exists (a ++ new), (st_swap m depth), s2, c2. split; [exact E|].
      assert (Hneg : depth < 0) by lia.
      exact (swap_keeps_live_thm depth a m s d _ _ _ _ L (conj G1 G2) Hneg E). }
  destruct Hmid as [a1 [m1 [s1 [c1 [E1 L1]]]]]. rewrite E1 in H.
  destruct (get_slot false s1) as [s2 off] eqn:GS. inversion H; subst.
  destruct (get_slot_spec _ _ _ (proj1 L1) GS) as [I2 [N2 [B2 [M2 [O2 S2]]]]].
  assert (L2 : live_inv s' d).
  { apply (live_inv_step s1 s' d L1 I2 M2). intros f Hf. left. apply S2. exact Hf. }
  apply sp_set_live; auto.
  destruct L1 as [_ [_ [_ Q]]]. intro Hin. destruct (Q off Hin) as [Q1 Q2]. destruct O2 as [O2|O2]; [contradiction|lia].
Qed.

(* ---- restore_spilled_operand ---- *)
Lemma remove_subset : forall d x p, In p (sp_remove d x) -> In p d.
Proof.
  induction d as [|[y v] r IH]; intros x p H; simpl in *; [exact H|].
  destruct (y =? x); [right; exact H|]. destruct H as [H|H]; [left; exact H|right; apply (IH x p H)].
Qed.
Lemma remove_nodup_map : forall (f : Z * Z -> Z) d x, NoDup (map f d) -> NoDup (map f (sp_remove d x)).
Proof.
  induction d as [|[y v] r IH]; intros x N; simpl in *; [exact N|].
  inversion N; subst. destruct (y =? x); [assumption|]. simpl. constructor; [|apply IH; assumption].
  intro Q. apply H1. apply in_map_iff in Q. destruct Q as [p [E Hp]]. apply in_map_iff. exists p. split; [exact E|].
  apply (remove_subset r x p Hp).
Qed.
Lemma lookup_in : forall d x o, sp_lookup d x = Some o -> In (x, o) d.
Proof.
  induction d as [|[y v] r IH]; intros x o H; simpl in *; [discriminate|].
  destruct (Z.eqb_spec y x); [inversion H; subst; left; reflexivity|right; apply IH; exact H].
Qed.
Lemma remove_drops : forall d x o, NoDup (map snd d) -> sp_lookup d x = Some o -> ~ In o (map snd (sp_remove d x)).
Proof.
  induction d as [|[y v] r IH]; intros x o N H; simpl in *; [discriminate|].
  inversion N; subst. destruct (Z.eqb_spec y x).
  - inversion H; subst. exact H2.
  - simpl. intros [Q|Q].
    + subst v. apply H2. apply lookup_in in H. apply (in_map snd) in H. exact H.
    + apply (IH x o H3 H Q).
Qed.

Lemma restore_spilled_eq : forall op a m s d a' m' s' d',
  restore_spilled false op a m s d = Ok (a', m', s', d') ->
  exists off, sp_lookup d op = Some off /\ s' = free_slots false s [off] /\ d' = sp_remove d op.
Proof.
  intros op a m s d a' m' s' d' H. unfold restore_spilled in H.
  destruct (sp_lookup d op) as [off|]; [|discriminate]. exists off. inversion H. repeat split.
Qed.

Theorem restore_keeps_live_thm : forall op a m s d a' m' s' d',
  live_inv s d -> restore_spilled false op a m s d = Ok (a', m', s', d') -> live_inv s' d'.
Proof.
  intros op a m s d a' m' s' d' [I [K [N L]]] H.
  destruct (restore_spilled_eq _ _ _ _ _ _ _ _ _ H) as [off [E [Es Ed]]]. subst s' d'.
  assert (Hoff : In off (map snd d)) by (apply lookup_in in E; apply (in_map snd) in E; exact E).
  destruct (L off Hoff) as [Lo1 Lo2].
  split.
  - apply free_slots_inv; auto. { constructor; [intros []|constructor]. } intros o [Q|[]]. subst. split; assumption.
  - split; [apply remove_nodup_map; exact K|]. split; [apply remove_nodup_map; exact N|].
    intros o Ho. assert (Ho' : In o (map snd d)).
    { apply in_map_iff in Ho. destruct Ho as [p [Ep Hp]]. apply in_map_iff. exists p. split; [exact Ep|apply (remove_subset d op p Hp)]. }
    destruct (L o Ho') as [Q1 Q2]. split; [simpl; exact Q1|].
    simpl. intros [Q|Q]; [|contradiction]. subst o. apply (remove_drops d op off N E Ho).
Qed.

(* the executed code of a restore reads exactly the slot the operand was spilled to *)
Theorem restore_reads_slot_thm : forall op a m s d a' m' s' d' off,
  sp_lookup d op = Some off -> restore_spilled false op a m s d = Ok (a', m', s', d') ->
  a' = a ++ [APush off; AMload] /\ m' = st_push m op /\
  forall st mm, run [APush off; AMload] (st, mm) = Some (mm off :: st, mm).
Proof.
  intros op a m s d a' m' s' d' off E H. unfold restore_spilled in H. rewrite E in H. inversion H; subst.
  repeat split.
Qed.

(* ---- release_dead_spills ---- *)
Lemma lookup_of_in : forall d x o, NoDup (map fst d) -> In (x, o) d -> sp_lookup d x = Some o.
Proof.
  induction d as [|[y v] r IH]; intros x o N H; simpl in *; [contradiction|].
  inversion N; subst. destruct H as [H|H].
  - inversion H; subst. rewrite Z.eqb_refl. reflexivity.
  - destruct (Z.eqb_spec y x).
    + subst. exfalso. apply H2. apply (in_map fst) in H. exact H.
    + apply IH; assumption.
Qed.
Lemma in_remove_other : forall d x y v, y <> x -> In (y, v) d -> In (y, v) (sp_remove d x).
Proof.
  induction d as [|[z w] r IH]; intros x y v Hne H; simpl in *; [contradiction|].
  destruct (Z.eqb_spec z x).
  - destruct H as [H|H]; [inversion H; subst; contradiction|exact H].
  - destruct H as [H|H]; [left; exact H|right; apply IH; assumption].
Qed.

Lemma release_fold_keeps_live : forall live l s d,
  live_inv s d -> NoDup (map fst l) -> (forall p, In p l -> In p d) ->
  let r := fold_left (fun sd p =>
      if is_var (fst p) && py_in (fst p) live then sd
      else (free_slots false (fst sd) [snd p], sp_remove (snd sd) (fst p))) l (s, d) in
  live_inv (fst r) (snd r).
Proof.
  induction l as [|[x o] l IH]; intros s d L N Hin; simpl; [exact L|].
  inversion N; subst.
  destruct (is_var x && py_in x live).
  - apply IH; auto. intros p Hp. apply Hin. right. exact Hp.
  - simpl.
    assert (Hxo : In (x, o) d) by (apply Hin; left; reflexivity).
    assert (El : sp_lookup d x = Some o) by (apply lookup_of_in; [exact (proj1 (proj2 L))|exact Hxo]).
    assert (ER : restore_spilled false x [] [] s d = Ok ([] ++ [APush o; AMload], st_push [] x, free_slots false s [o], sp_remove d x)).
    { unfold restore_spilled. rewrite El. reflexivity. }
    apply IH.
    + exact (restore_keeps_live_thm x [] [] s d _ _ _ _ L ER).
    + assumption.
    + intros [y v] Hp. apply in_remove_other.
      * intro E. subst y. apply H1. apply (in_map fst) in Hp. exact Hp.
      * apply Hin. right. exact Hp.
Qed.

Theorem release_dead_keeps_live_thm : forall live s d,
  live_inv s d -> live_inv (fst (release_dead live s d)) (snd (release_dead live s d)).
Proof.
  intros live s d L. unfold release_dead. apply release_fold_keeps_live; auto.
  exact (proj1 (proj2 L)).
Qed.
