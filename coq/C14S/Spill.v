(* C14S hand model of vyper/venom/stack_spiller.py (StackSpiller) and of VenomCompiler._stack_reorder /
   _reduce_depth_via_spill / _select_spill_candidate / swap_op / dup_op / pop (venom_to_assembly.py),
   written statement by statement after the Python; tied by exact-output differential (tools/vlib/c14s_part.py).
   Operands are ids; id mod 4 = 1 marks an IRVariable.  The free-slot list is kept with Python's LAST element
   first (pop() = head, append = cons).  No proofs in this file. *)
From Coq Require Import ZArith List Bool.
From Verif Require Import Base.PyInt C14S.PyList C14S.StackSpec.
Import ListNotations.
Open Scope Z_scope.

Inductive ainstr := APush (v : Z) | AMstore | AMload | ASwap (n : Z) | ADup (n : Z) | APop | APushLabel (x : Z)
  | AJump | ALabelDef | AOp (code : Z).    (* JUMP; a label definition; the instruction's own opcode (opaque) *)

Record sp := mkSp { sp_free : list Z; sp_next : Z; sp_peak : Z }.
Definition spilled := list (Z * Z).          (* operand -> offset, insertion order *)
Definition is_var (x : Z) : bool := x mod 4 =? 1.

(* _get_spill_slot *)
Definition get_slot (dry : bool) (s : sp) : sp * Z :=
  match sp_free s with
  | x :: r => if dry then (s, x) else (mkSp r (sp_next s) (sp_peak s), x)
  | [] => let off := sp_next s in
          if dry then (s, off) else (mkSp [] (off + 32) (Z.max (sp_peak s) (off + 32)), off)
  end.
Definition free_slots (dry : bool) (s : sp) (offs : list Z) : sp :=
  if dry then s else mkSp (rev offs ++ sp_free s) (sp_next s) (sp_peak s).

(* state threaded through: (assembly so far (appended at the end), stack map, spiller) *)
Definition st := (list ainstr * list Z * sp)%type.

(* _spill_stack_segment: returns spilled operands and offsets in spill order (top first) *)
Fixpoint spill_segment (count : nat) (dry : bool) (a : list ainstr) (m : list Z) (s : sp)
  : res (list ainstr * list Z * sp * list Z * list Z) :=
  match count with
  | O => Ok (a, m, s, [], [])
  | S k =>
    if zlen m <=? 0 then Err BadIndex else
    let op := st_peek m 0 in
    let '(s1, off) := get_slot dry s in
    match spill_segment k dry (a ++ [APush off; AMstore]) (st_pop m 1) s1 with
    | Ok (a', m', s', ops, offs) => Ok (a', m', s', op :: ops, off :: offs)
    | Err e => Err e
    end
  end.

Definition restore_indices (ids : list nat) (ops offs : list Z) (a : list ainstr) (m : list Z) : list ainstr * list Z :=
  fold_left (fun am i => (fst am ++ [APush (nth i offs 0); AMload], st_push (snd am) (nth i ops 0))) ids (a, m).

(* StackSpiller.swap; returns cost *)
Definition sp_swap (dry : bool) (depth : Z) (a : list ainstr) (m : list Z) (s : sp) : res (list ainstr * list Z * sp * Z) :=
  if depth =? 0 then Ok (a, m, s, 0) else
  let swap_idx := - depth in
  if swap_idx <=? 16 then
    if (depth <? 0) && (- depth <? zlen m) then Ok (a ++ [ASwap swap_idx], st_swap m depth, s, 1)
    else (if depth <? 0 then Err BadIndex else Err AssertFail)
  else
    let chunk := Z.to_nat (swap_idx + 1) in
    match spill_segment chunk dry a m s with
    | Err e => Err e
    | Ok (a1, m1, s1, ops, offs) =>
      (* desired = [k] ++ [1..k-1] ++ [0]; pushes happen for reversed(desired) *)
      let k := (chunk - 1)%nat in
      let order := (0%nat :: rev (seq 1 (k - 1))) ++ [k] in
      let '(a2, m2) := restore_indices order ops offs a1 m1 in
      Ok (a2, m2, free_slots dry s1 offs, 2 * Z.of_nat chunk + 2 * Z.of_nat chunk)
    end.

(* StackSpiller.dup *)
Definition sp_dup (dry : bool) (depth : Z) (a : list ainstr) (m : list Z) (s : sp) : res (list ainstr * list Z * sp * Z) :=
  let dup_idx := 1 - depth in
  if dup_idx <=? 16 then
    if (depth <=? 0) && (- depth <? zlen m) then Ok (a ++ [ADup dup_idx], st_dup m depth, s, 1)
    else (if depth <=? 0 then Err BadIndex else Err AssertFail)
  else
    let spill_count := Z.to_nat (dup_idx - 16) in
    match spill_segment spill_count dry a m s with
    | Err e => Err e
    | Ok (a1, m1, s1, ops, offs) =>
      let reach := depth + Z.of_nat spill_count in
      if negb ((reach <=? 0) && (- reach <? zlen m1)) then Err BadIndex else
      let a2 := a1 ++ [ADup (1 - reach)] in
      let m2 := st_dup m1 reach in
      let single := (spill_count <=? 16)%nat in
      let base := rev (seq 0 spill_count) in
      let ids := if single then tl base ++ firstn 1 base else base in
      let '(a3, m3) :=
        fold_left (fun am i =>
          let a' := fst am ++ [APush (nth i offs 0); AMload] in
          let m' := st_push (snd am) (nth i ops 0) in
          if single then (a', m') else (a' ++ [ASwap 1], st_swap m' (-1))) ids (a2, m2) in
      let '(a4, m4) := if single then (a3 ++ [ASwap (Z.of_nat spill_count)], st_swap m3 (- Z.of_nat spill_count)) else (a3, m3) in
      Ok (a4, m4, free_slots dry s1 offs,
          2 * Z.of_nat spill_count + 1 + (if single then 2 * Z.of_nat spill_count + 1 else 3 * Z.of_nat spill_count))
    end.

(* ---- spilled-operand bookkeeping ---- *)
Fixpoint sp_lookup (d : spilled) (x : Z) : option Z :=
  match d with [] => None | (y, o) :: r => if y =? x then Some o else sp_lookup r x end.
Fixpoint sp_remove (d : spilled) (x : Z) : spilled :=
  match d with [] => [] | (y, o) :: r => if y =? x then r else (y, o) :: sp_remove r x end.
Definition sp_set (d : spilled) (x o : Z) : spilled :=
  match sp_lookup d x with
  | Some _ => map (fun p => if fst p =? x then (x, o) else p) d
  | None => d ++ [(x, o)]
  end.

(* spill_operand *)
Definition spill_operand (dry : bool) (depth : Z) (a : list ainstr) (m : list Z) (s : sp) (d : spilled)
  : res (list ainstr * list Z * sp * spilled) :=
  if negb ((depth <=? 0) && (- depth <? zlen m)) then Err BadIndex else
  let operand := st_peek m depth in
  if negb (is_var operand) then Err AssertFail else
  match (if depth =? 0 then Ok (a, m, s, 0) else sp_swap dry depth a m s) with
  | Err e => Err e
  | Ok (a1, m1, s1, _) =>
    let '(s2, off) := get_slot dry s1 in
    Ok (a1 ++ [APush off; AMstore], st_pop m1 1, s2, sp_set d operand off)
  end.

(* restore_spilled_operand *)
Definition restore_spilled (dry : bool) (op : Z) (a : list ainstr) (m : list Z) (s : sp) (d : spilled)
  : res (list ainstr * list Z * sp * spilled) :=
  match sp_lookup d op with
  | None => Err KeyErr
  | Some off => Ok (a ++ [APush off; AMload], st_push m op, free_slots dry s [off], sp_remove d op)
  end.

(* release_dead_spills: live = list of live variables *)
Definition release_dead (live : list Z) (s : sp) (d : spilled) : sp * spilled :=
  fold_left (fun sd p =>
      if is_var (fst p) && py_in (fst p) live then sd
      else (free_slots false (fst sd) [snd p], sp_remove (snd sd) (fst p)))
    d (s, d).

(* ---- _select_spill_candidate / _reduce_depth_via_spill ---- *)
Fixpoint select_candidate (m forbidden : list Z) (offsets : list Z) : option Z :=
  match offsets with
  | [] => None
  | o :: r => let c := st_peek m (- o) in
              if py_in c forbidden then select_candidate m forbidden r
              else if negb (is_var c) then select_candidate m forbidden r
              else Some (- o)
  end.
Definition zrange (n : Z) : list Z := map Z.of_nat (seq 0 (Z.to_nat n)).   (* range(0, n) *)

Fixpoint reduce_depth (fuel : nat) (dry : bool) (stack_ops : list Z) (target depth : Z)
  (a : list ainstr) (m : list Z) (s : sp) (d : spilled) : res (list ainstr * list Z * sp * spilled) :=
  if negb (depth <? -16) then Ok (a, m, s, d) else
  match fuel with
  | O => Err OutOfFuel
  | S k =>
    let max_offset := Z.min 16 (Z.min (- depth - 1) (zlen m - 1)) in
    if max_offset <? 0 then Err AssertFail else
    match select_candidate m stack_ops (zrange (max_offset + 1)) with
    | None => Ok (a, m, s, d)
    | Some cd =>
      match spill_operand dry cd a m s d with
      | Err e => Err e
      | Ok (a1, m1, s1, d1) =>
        match spec_get_depth m1 target with
        | None => Err AssertFail
        | Some depth' => reduce_depth k dry stack_ops target depth' a1 m1 s1 d1
        end
      end
    end
  end.

(* stable insertion sort by an optional integer key; a missing key is Python's TypeError in list.sort *)
Fixpoint insert_by (k : Z) (x : Z) (l : list (Z * Z)) : list (Z * Z) :=
  match l with
  | [] => [(k, x)]
  | (k', y) :: r => if k <? k' then (k, x) :: l else (k', y) :: insert_by k x r
  end.
Fixpoint sort_by_depth (m : list Z) (ops : list Z) (acc : list (Z * Z)) : res (list Z) :=
  match ops with
  | [] => Ok (map snd acc)
  | x :: r => match spec_get_depth m x with
              | None => Err TypeErr
              | Some k => sort_by_depth m r (insert_by k x acc)
              end
  end.

Fixpoint nodupb (l : list Z) : bool :=
  match l with [] => true | x :: r => negb (py_in x r) && nodupb r end.

(* the final placement loop *)
Fixpoint place (equiv : Z -> Z -> bool) (dry : bool) (n : Z) (ops : list Z) (i : Z)
  (a : list ainstr) (m : list Z) (s : sp) (cost : Z) : res (list ainstr * list Z * sp * Z) :=
  match ops with
  | [] => Ok (a, m, s, cost)
  | op :: r =>
    let final := - (n - i - 1) in
    match spec_get_depth m op with
    | None => Err AssertFail
    | Some depth =>
      if depth =? final then place equiv dry n r (i + 1) a m s cost else
      if negb ((final <=? 0) && (- final <? zlen m)) then Err BadIndex else
      let to_swap := st_peek m final in
      if equiv op to_swap then
        place equiv dry n r (i + 1) a (st_poke (st_poke m final op) depth to_swap) s cost
      else
        match sp_swap dry depth a m s with
        | Err e => Err e
        | Ok (a1, m1, s1, c1) =>
          match sp_swap dry final a1 m1 s1 with
          | Err e => Err e
          | Ok (a2, m2, s2, c2) => place equiv dry n r (i + 1) a2 m2 s2 (cost + c1 + c2)
          end
        end
    end
  end.

Fixpoint restore_all (dry : bool) (ops : list Z) (a : list ainstr) (m : list Z) (s : sp) (d : spilled)
  : res (list ainstr * list Z * sp * spilled) :=
  match ops with
  | [] => Ok (a, m, s, d)
  | op :: r => match sp_lookup d op with
               | None => restore_all dry r a m s d
               | Some _ => match restore_spilled dry op a m s d with
                           | Ok (a1, m1, s1, d1) => restore_all dry r a1 m1 s1 d1
                           | Err e => Err e
                           end
               end
  end.
Fixpoint reduce_all (dry : bool) (stack_ops order : list Z) (a : list ainstr) (m : list Z) (s : sp) (d : spilled)
  : res (list ainstr * list Z * sp * spilled) :=
  match order with
  | [] => Ok (a, m, s, d)
  | op :: r => match spec_get_depth m op with
               | None => Err TypeErr               (* `depth < -16` with the sentinel object *)
               | Some depth =>
                 match reduce_depth (length m) dry stack_ops op depth a m s d with
                 | Ok (a1, m1, s1, d1) => reduce_all dry stack_ops r a1 m1 s1 d1
                 | Err e => Err e
                 end
               end
  end.

(* _stack_reorder (non dry-run: returns the new state; dry-run: only the cost is kept by the caller) *)
Definition stack_reorder (equiv : Z -> Z -> bool) (dry : bool) (stack_ops : list Z)
  (a : list ainstr) (m : list Z) (s : sp) (d : spilled) : res (list ainstr * list Z * sp * spilled * Z) :=
  match stack_ops with
  | [] => Ok (a, m, s, d, 0)
  | _ =>
    if negb (nodupb stack_ops) then Err AssertFail else
    match restore_all dry stack_ops a m s d with
    | Err e => Err e
    | Ok (a1, m1, s1, d1) =>
      match sort_by_depth m1 stack_ops [] with
      | Err e => Err e
      | Ok order =>
        match reduce_all dry stack_ops order a1 m1 s1 d1 with
        | Err e => Err e
        | Ok (a2, m2, s2, d2) =>
          match place equiv dry (zlen stack_ops) stack_ops 0 a2 m2 s2 0 with
          | Err e => Err e
          | Ok (a3, m3, s3, cost) =>
            if list_eq_dec Z.eq_dec (skipn (length m3 - length stack_ops) m3) stack_ops
            then Ok (a3, m3, s3, d2, cost) else Err AssertFail
          end
        end
      end
    end
  end.

(* ---- VenomCompiler._emit_input_operands (literal operands are ids = their value; id mod 4 = 2 marks a label) ---- *)
Definition is_label (x : Z) : bool := x mod 4 =? 2.
Definition is_lit (x : Z) : bool := x mod 4 =? 0.
Fixpoint emit_inputs_r (invoke : bool) (ops live seen : list Z) (a : list ainstr) (m : list Z) (s : sp) (d : spilled)
  : res (list ainstr * list Z * sp * spilled) :=
  match ops with
  | [] => Ok (a, m, s, d)
  | op :: r =>
    (* restore a spilled variable first *)
    match (if is_var op then match sp_lookup d op with
                             | Some _ => restore_spilled false op a m s d
                             | None => Ok (a, m, s, d) end
           else Ok (a, m, s, d)) with
    | Err e => Err e
    | Ok (a1, m1, s1, d1) =>
      if is_label op then emit_inputs_r invoke r live seen (if invoke then a1 else a1 ++ [APushLabel op]) (st_push m1 op) s1 d1
      else if is_lit op then emit_inputs_r invoke r live seen (a1 ++ [APush op]) (st_push m1 op) s1 d1
      else
        match (if py_in op live then
                 match spec_get_depth m1 op with
                 | None => Err AssertFail
                 | Some dp => match sp_dup false dp a1 m1 s1 with Ok (a2, m2, s2, _) => Ok (a2, m2, s2) | Err e => Err e end
                 end
               else Ok (a1, m1, s1)) with
        | Err e => Err e
        | Ok (a2, m2, s2) => if py_in op seen then Err AssertFail else emit_inputs_r invoke r live (op :: seen) a2 m2 s2 d1
        end
    end
  end.
Definition emit_inputs (invoke : bool) (ops live : list Z) := emit_inputs_r invoke ops live [].

(* ---- VenomCompiler.popmany ---- *)
Fixpoint depths_of (m : list Z) (xs : list Z) : list Z :=
  match xs with [] => [] | x :: r => match spec_get_depth m x with Some dp => dp :: depths_of m r | None => depths_of m r end end.
Fixpoint insert_z (k : Z) (l : list Z) : list Z :=
  match l with [] => [k] | y :: r => if k <? y then k :: l else y :: insert_z k r end.
Definition sort_z (l : list Z) : list Z := fold_left (fun acc k => insert_z k acc) l [].
Fixpoint pop_each (xs : list Z) (a : list ainstr) (m : list Z) (s : sp) : res (list ainstr * list Z * sp) :=
  match xs with
  | [] => Ok (a, m, s)
  | x :: r => match spec_get_depth m x with
              | None => Err TypeErr
              | Some dp =>
                match (if dp =? 0 then Ok (a, m, s, 0) else sp_swap false dp a m s) with
                | Err e => Err e
                | Ok (a1, m1, s1, _) => if zlen m1 <=? 0 then Err BadIndex else pop_each r (a1 ++ [APop]) (st_pop m1 1) s1
                end
              end
  end.
Definition popmany (to_pop : list Z) (a : list ainstr) (m : list Z) (s : sp) : res (list ainstr * list Z * sp) :=
  let present := filter (fun x => negb (opt_is_none (spec_get_depth m x))) to_pop in
  match present with
  | [] => Ok (a, m, s)
  | _ =>
    let depths := depths_of m present in
    let deepest := fold_left Z.min depths 0 in
    let expected := map (fun i => deepest + Z.of_nat i) (seq 0 (Z.to_nat (- deepest))) in
    if (deepest <? 0) && (- deepest <=? 16) && (if list_eq_dec Z.eq_dec (sort_z depths) expected then true else false) then
      match sp_swap false deepest a m s with
      | Err e => Err e
      | Ok (a1, m1, s1, _) =>
        let n := zlen present in
        Ok (a1 ++ repeat APop (Z.to_nat n), st_pop m1 n, s1)
      end
    else
      (* to_pop.sort(key=-depth): shallowest first, stable *)
      let keyed := fold_left (fun acc x => match spec_get_depth m x with Some dp => insert_by (- dp) x acc | None => acc end) present [] in
      pop_each (map snd keyed) a m s
  end.

(* ---- VenomCompiler.clean_stack_from_cfg_in (entry of a block with a single predecessor that is a splitter) ----
   layout = liveness.out_vars(in_bb), inputs = liveness.input_vars_from(in_bb, bb); bound = the stack-height promise
   inherited from an earlier elision; promise = StackCleanupSafety.stack_height_bound(bb, projected) (an oracle here).
   A retained dead slot is the operand id 3 (_DeadStackItem). *)
Definition dead_item : Z := 3.
Definition is_dead (x : Z) : bool := x =? dead_item.
Fixpoint dead_prefix_ok (m : list Z) (live_seen : bool) : bool :=
  match m with
  | [] => true
  | x :: r => if is_dead x then (if live_seen then false else dead_prefix_ok r false) else dead_prefix_ok r true
  end.
Definition present (m : list Z) (x : Z) : bool := negb (opt_is_none (spec_get_depth m x)).
Definition poke_dead (m : list Z) (vars : list Z) : res (list Z) :=
  fold_left (fun acc v => match acc with
                          | Err e => Err e
                          | Ok mm => match spec_get_depth mm v with
                                     | Some dp => Ok (st_poke mm dp dead_item)
                                     | None => Err AssertFail end
                          end) vars (Ok m).

Definition clean_from_cfg_in (layout inputs : list Z) (bound promise : option Z)
  (a : list ainstr) (m : list Z) (s : sp) : res (list ainstr * list Z * sp * option Z) :=
  let to_pop := filter (fun v => negb (py_in v inputs)) layout in
  if negb (dead_prefix_ok m false) then Err Raised else
  let physical := filter (present m) to_pop in
  match physical with
  | [] => Ok (a, m, s, bound)
  | _ =>
    let live_depths := depths_of m (filter (present m) inputs) in
    let deepest_live := fold_left Z.min live_depths 0 in
    let retainable := filter (fun v => match live_depths with
                                       | [] => true
                                       | _ => match spec_get_depth m v with Some dp => dp <? deepest_live | None => false end
                                       end) physical in
    let pop_all := match popmany physical a m s with Ok (a', m', s') => Ok (a', m', s', bound) | Err e => Err e end in
    match retainable with
    | [] => pop_all
    | _ =>
      let to_cleanup := filter (fun v => negb (py_in v retainable)) physical in
      let projected := zlen m - zlen to_cleanup in
      match (match bound with Some b => Some b | None => promise end) with
      | None => pop_all
      | Some p =>
        match popmany to_cleanup a m s with
        | Err e => Err e
        | Ok (a', m', s') =>
          if negb (zlen m' =? projected) then Err AssertFail else
          match poke_dead m' retainable with
          | Err e => Err e
          | Ok m'' => if dead_prefix_ok m'' false then Ok (a', m'', s', Some p) else Err Raised
          end
        end
      end
    end
  end.

(* ---- VenomCompiler._generate_evm_for_instruction for `invoke`, `ret` and plain one-to-one instructions ---- *)
Definition optimistic_swap (equiv : Z -> Z -> bool) (next_term : bool) (live outs : list Z)
  (a : list ainstr) (m : list Z) (s : sp) : res (list ainstr * list Z * sp) :=
  if next_term then Ok (a, m, s) else
  match rev live, rev outs with
  | nxt :: _, top_out :: _ =>
    if equiv top_out nxt then Ok (a, m, s) else
    match spec_get_depth m nxt with
    | None => Ok (a, m, s)
    | Some dp => match sp_swap false dp a m s with Ok (a', m', s', _) => Ok (a', m', s') | Err e => Err e end
    end
  | _, _ => Ok (a, m, s)
  end.

(* kind: 0 = invoke (ops = non-label operands), 1 = ret, 2 = plain instruction with opaque opcode `code` *)
Definition inst_tokens (kind code : Z) : list ainstr :=
  if kind =? 0 then [APushLabel 0; APushLabel 0; AJump; ALabelDef]
  else if kind =? 1 then [AJump] else [AOp code].

Definition gen_inst (equiv : Z -> Z -> bool) (kind code : Z) (ops outs live : list Z) (next_term skip_pops : bool)
  (a : list ainstr) (m : list Z) (s : sp) (d : spilled) : res (list ainstr * list Z * sp * spilled) :=
  match emit_inputs (kind =? 0) ops live a m s d with
  | Err e => Err e
  | Ok (a1, m1, s1, d1) =>
    match stack_reorder equiv false ops a1 m1 s1 d1 with
    | Err e => Err e
    | Ok (a2, m2, s2, d2, _) =>
      if zlen m2 <? zlen ops then Err BadIndex else
      let m3 := st_pop m2 (zlen ops) ++ outs in
      let a3 := a2 ++ inst_tokens kind code in
      match outs with
      | [] => let '(s4, d4) := release_dead live s2 d2 in Ok (a3, m3, s4, d4)
      | _ =>
        let dead := filter (fun o => negb (py_in o live)) outs in
        match (if negb skip_pops || (1 <? zlen outs) then popmany dead a3 m3 s2 else Ok (a3, m3, s2)) with
        | Err e => Err e
        | Ok (a4, m4, s4) =>
          if forallb (fun o => negb (py_in o live)) outs then
            let '(s5, d5) := release_dead live s4 d2 in Ok (a4, m4, s5, d5)
          else
            match optimistic_swap equiv next_term live outs a4 m4 s4 with
            | Err e => Err e
            | Ok (a5, m5, s5) => let '(s6, d6) := release_dead live s5 d2 in Ok (a5, m5, s6, d6)
            end
        end
      end
    end
  end.

(* ---- spill regions across functions ----
   StackSpiller.set_current_function(fn) for fn in mem_allocator.fn_eom, followed by reset_spill_slots()
   (generate_evm_assembly does both before every function):
       base = max(fn_eom.values());  _next_spill_offset = max(base, peak_spill_end);  _spill_free_slots = []
   `eoms` = the values of fn_eom (every static frame of function g lies inside [0, fn_eom[g])). *)
Definition max_eom (eoms : list Z) : Z := fold_right Z.max 0 eoms.
Definition start_fn (eoms : list Z) (s : sp) : sp := mkSp [] (Z.max (max_eom eoms) (sp_peak s)) (sp_peak s).

(* what code generation of one function does to the spiller, abstractly: every operation of the spiller obtains slots
   through _get_spill_slot and gives back (to the free list) only slots obtained earlier in the same function *)
Inductive sop := SGet | SFree (offs : list Z).
Definition subset_b (xs ys : list Z) : bool := forallb (fun x => existsb (Z.eqb x) ys) xs.
Fixpoint run_ops (ops : list sop) (s : sp) (used : list Z) : option (sp * list Z) :=
  match ops with
  | [] => Some (s, used)
  | SGet :: r => let '(s1, o) := get_slot false s in run_ops r s1 (o :: used)
  | SFree offs :: r => if subset_b offs used then run_ops r (free_slots false s offs) used else None
  end.
(* the functions of a context one after the other; result: the slots each function ever used *)
Fixpoint run_fns (eoms : list Z) (fns : list (list sop)) (s : sp) : option (list (list Z)) :=
  match fns with
  | [] => Some []
  | ops :: r => match run_ops ops (start_fn eoms s) [] with
                | None => None
                | Some (s1, used) => match run_fns eoms r s1 with None => None | Some us => Some (used :: us) end
                end
  end.
(* the 32-byte words of an earlier function's slots lie entirely below every slot of every later function *)
Fixpoint regions_ordered (us : list (list Z)) : Prop :=
  match us with
  | [] => True
  | u :: r => (forall o o', In o u -> In o' (concat r) -> o + 32 <= o') /\ regions_ordered r
  end.

(* ---- machine semantics of the emitted assembly: EVM stack (top first) + word memory keyed by offset ---- *)
Definition mem := Z -> Z.
Definition mset (mm : mem) (o v : Z) : mem := fun x => if x =? o then v else mm x.
Definition step (i : ainstr) (sm : list Z * mem) : option (list Z * mem) :=
  let '(s, mm) := sm in
  match i with
  | APush v => Some (v :: s, mm)
  | AMstore => match s with o :: v :: r => Some (r, mset mm o v) | _ => None end
  | AMload => match s with o :: r => Some (mm o :: r, mm) | _ => None end
  | ASwap n => match evm_swap n s with Some s' => Some (s', mm) | None => None end
  | ADup n => match evm_dup n s with Some s' => Some (s', mm) | None => None end
  | APop => match s with _ :: r => Some (r, mm) | [] => None end
  | APushLabel x => Some (x :: s, mm)
  | AJump => match s with _ :: r => Some (r, mm) | [] => None end     (* linear reading: consumes the target *)
  | ALabelDef => Some (s, mm)
  | AOp _ => None                                                     (* not executable on this machine *)
  end.
Fixpoint run (l : list ainstr) (sm : list Z * mem) : option (list Z * mem) :=
  match l with [] => Some sm | i :: r => match step i sm with Some sm' => run r sm' | None => None end end.

Definition depth_ok (i : ainstr) : bool :=
  match i with ASwap n | ADup n => (1 <=? n) && (n <=? 16) | _ => true end.

(* printing helper for the harness: encode instructions as numbers *)
Definition enc_instr (i : ainstr) : list Z :=
  match i with APush v => [1; v] | AMstore => [2] | AMload => [3] | ASwap n => [4; n] | ADup n => [5; n] | APop => [6] | APushLabel x => [7; x]
  | AJump => [9] | ALabelDef => [8] | AOp c => [10; c] end.
Definition err_code (e : err) : Z :=
  match e with AssertFail => 1 | BadIndex => 2 | KeyErr => 3 | TypeErr => 4 | OutOfFuel => 5 | Raised => 6 | _ => 9 end.
