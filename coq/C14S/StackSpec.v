(* Specification of the scheduler's stack map and of the EVM stack.
   Model stack (vyper/venom/stack_model.py): list of operand ids, BOTTOM first (top = last element);
   depths are 0 (top), -1, -2, ...  EVM stack: top first.  No proofs here. *)
From Coq Require Import ZArith List Bool.
From Verif Require Import Base.PyInt C14S.PyList.   (* zlen, set_nth *)
Import ListNotations.
Open Scope Z_scope.

(* ---- EVM stack (top first) ---- *)
Definition evm_push (x : Z) (s : list Z) : list Z := x :: s.
Definition evm_pop (s : list Z) : option (list Z) := match s with [] => None | _ :: t => Some t end.
Definition evm_dup (n : Z) (s : list Z) : option (list Z) :=
  if (1 <=? n) && (n <=? 16) && (n <=? zlen s) then Some (nth (Z.to_nat (n - 1)) s 0 :: s) else None.
Definition evm_swap (n : Z) (s : list Z) : option (list Z) :=
  if (1 <=? n) && (n <=? 16) && (n <? zlen s) then
    let a := nth 0 s 0 in let b := nth (Z.to_nat n) s 0 in
    Some (set_nth (set_nth s 0 b) (Z.to_nat n) a)
  else None.

(* ---- the scheduler's stack map, as a specification on the top-first view ---- *)
Definition view (m : list Z) : list Z := rev m.          (* model -> EVM order *)
(* depth d <= 0 designates position -d from the top *)
Definition pos (d : Z) : nat := Z.to_nat (- d).
Definition valid_depth (m : list Z) (d : Z) : Prop := d <= 0 /\ - d < zlen m.

(* first position (from the top) holding x *)
Fixpoint find_top (x : Z) (s : list Z) (i : Z) : option Z :=
  match s with
  | [] => None
  | y :: t => if y =? x then Some i else find_top x t (i + 1)
  end.
Definition spec_get_depth (m : list Z) (x : Z) : option Z :=
  match find_top x (view m) 0 with Some i => Some (- i) | None => None end.

(* ---- specification of the stack-map operations on the bottom-first list (Python's representation) ---- *)
Definition idx (m : list Z) (d : Z) : nat := Z.to_nat (zlen m - 1 + d).     (* list index of depth d *)
Definition st_peek (m : list Z) (d : Z) : Z := nth (idx m d) m 0.
Definition st_push (m : list Z) (x : Z) : list Z := m ++ [x].
Definition st_pop (m : list Z) (n : Z) : list Z := firstn (Z.to_nat (zlen m - n)) m.
Definition st_poke (m : list Z) (d x : Z) : list Z := set_nth m (idx m d) x.
Definition st_dup (m : list Z) (d : Z) : list Z := m ++ [st_peek m d].
Definition st_swap (m : list Z) (d : Z) : list Z :=
  set_nth (set_nth m (idx m 0) (st_peek m d)) (idx m d) (st_peek m 0).
