(* T-tie: the functions translated from vyper/venom/stack_model.py (GenStackModel.v, regenerated every run)
   equal the stack-map specification (StackSpec.v) on valid inputs and fail (Err) otherwise. *)
From Coq Require Import ZArith List Bool Lia.
From Verif Require Import Base.PyInt C14S.PyList C14S.StackSpec C14S.StackSpecProofs C14S.GenStackModel.
Import ListNotations.
Open Scope Z_scope.

Lemma norm_valid : forall m d, valid_depth m d -> py_norm_index (zlen m) (d - 1) = Some (zlen m - 1 + d).
Proof.
  intros m d [H1 H2]. unfold py_norm_index.
  destruct (Z.ltb_spec (d - 1) 0); [|lia].
  destruct (Z.leb_spec 0 (d - 1 + zlen m)); [|lia].
  destruct (Z.ltb_spec (d - 1 + zlen m) (zlen m)); [|lia]. simpl. f_equal. lia.
Qed.
Lemma norm_invalid : forall (m : list Z) d, d <= 0 -> zlen m <= - d -> py_norm_index (zlen m) (d - 1) = None.
Proof.
  intros m d H1 H2. unfold py_norm_index.
  destruct (Z.ltb_spec (d - 1) 0); [|lia].
  destruct (Z.leb_spec 0 (d - 1 + zlen m)); [lia|]. reflexivity.
Qed.

Lemma tie_push : forall m x, sm_push m x = Ok (st_push m x, tt).
Proof. reflexivity. Qed.

Lemma tie_pop : forall m n, 0 <= n <= zlen m -> sm_pop m n = Ok (st_pop m n, tt).
Proof.
  intros m n H. unfold sm_pop, st_pop, py_del_from, py_clamp_start.
  destruct (Z.ltb_spec (zlen m - n) 0); [lia|].
  rewrite Z.min_l by lia. reflexivity.
Qed.

Lemma tie_peek : forall m d, valid_depth m d -> sm_peek m d = Ok (m, st_peek m d).
Proof. intros m d H. unfold sm_peek, py_get. rewrite (norm_valid m d H). reflexivity. Qed.
Lemma tie_peek_fails : forall (m : list Z) d, d <= 0 -> zlen m <= - d -> is_ok (sm_peek m d) = false.
Proof. intros m d H1 H2. unfold sm_peek, py_get. rewrite (norm_invalid m d H1 H2). reflexivity. Qed.

Lemma tie_poke : forall m d x, valid_depth m d -> sm_poke m d x = Ok (st_poke m d x, tt).
Proof.
  intros m d x H. unfold sm_poke, py_set. destruct H as [H1 H2].
  destruct (Z.leb_spec d 0); [|lia]. rewrite (norm_valid m d (conj H1 H2)). reflexivity.
Qed.

Lemma tie_dup : forall m d, valid_depth m d -> sm_dup m d = Ok (st_dup m d, tt).
Proof.
  intros m d H. unfold sm_dup. destruct H as [H1 H2].
  destruct (Z.leb_spec d 0); [|lia]. rewrite (tie_peek m d (conj H1 H2)). reflexivity.
Qed.
Lemma tie_dup_fails : forall (m : list Z) d, (0 < d \/ zlen m <= - d) -> is_ok (sm_dup m d) = false.
Proof.
  intros m d H. unfold sm_dup. destruct (Z.leb_spec d 0) as [Hd|]; [|reflexivity].
  destruct H as [H|H]; [lia|]. unfold sm_peek, py_get. rewrite (norm_invalid m d Hd H). reflexivity.
Qed.

Lemma zlen_set_nth : forall l n v, zlen (set_nth l n v) = zlen l.
Proof. intros. unfold zlen. rewrite length_set_nth. reflexivity. Qed.

Lemma tie_swap : forall m d, valid_depth m d -> d < 0 -> sm_swap m d = Ok (st_swap m d, tt).
Proof.
  intros m d H Hneg. unfold sm_swap. destruct (Z.ltb_spec d 0) as [_|]; [|lia].
  assert (H0 : valid_depth m 0) by (destruct H; split; lia).
  unfold py_get, py_set.
  change (- 1) with (0 - 1). rewrite (norm_valid m 0 H0), (norm_valid m d H). cbn [bind].
  rewrite zlen_set_nth. rewrite (norm_valid m d H). cbn [bind].
  unfold st_swap, st_peek, idx. reflexivity.
Qed.
Lemma tie_swap_fails : forall (m : list Z) d, (0 <= d \/ zlen m <= - d) -> is_ok (sm_swap m d) = false.
Proof.
  intros m d H. unfold sm_swap. destruct (Z.ltb_spec d 0); [|reflexivity].
  destruct H as [H|H]; [lia|]. unfold py_get. change (- 1) with (0 - 1).
  destruct (py_norm_index (zlen m) (0 - 1)); [|reflexivity]. cbn [bind].
  rewrite (norm_invalid m d) by lia. reflexivity.
Qed.

(* get_depth: the loop over enumerate(reversed(stack)) is find_top *)
Lemma get_depth_loop : forall x s i,
  py_for_enum (S := unit) (R := option Z) s i
    (fun i0 stack_op st_ => if stack_op =? x then Ok (inr (Some (- i0))) else Ok (inl st_)) tt =
  Ok (match find_top x s i with Some r => inr (Some (- r)) | None => inl tt end).
Proof.
  induction s as [|y t IH]; intros i; simpl; [reflexivity|].
  destruct (y =? x); [reflexivity|]. apply IH.
Qed.
Lemma tie_get_depth : forall m x, sm_get_depth m x = Ok (m, spec_get_depth m x).
Proof.
  intros m x. unfold sm_get_depth, spec_get_depth, view. rewrite get_depth_loop. cbn [bind].
  destruct (find_top x (rev m) 0); reflexivity.
Qed.

(* get_phi_depth: Some d iff exactly one stack item is among phis (d its depth); None iff none; error if several *)
Fixpoint phi_scan (phis s : list Z) (i : Z) (acc : option Z) : res (option Z) :=
  match s with
  | [] => Ok acc
  | y :: t => if py_in y phis then
                match acc with None => phi_scan phis t (i + 1) (Some (- i)) | Some _ => Err AssertFail end
              else phi_scan phis t (i + 1) acc
  end.
Lemma phi_loop : forall phis s i acc,
  py_for_enum (S := option Z) (R := option Z) s i
    (fun i0 stack_item ret => if py_in stack_item phis then
        if opt_is_none ret then let ret0 := Some (- i0) in Ok (inl ret0) else Err AssertFail
      else Ok (inl ret)) acc =
  match phi_scan phis s i acc with Ok r => Ok (inl r) | Err e => Err e end.
Proof.
  induction s as [|y t IH]; intros i acc; simpl; [reflexivity|].
  destruct (py_in y phis).
  - destruct acc; simpl; [reflexivity|]. apply IH.
  - apply IH.
Qed.
Lemma tie_get_phi_depth : forall m phis,
  sm_get_phi_depth m phis = match phi_scan phis (view m) 0 None with Ok r => Ok (m, r) | Err e => Err e end.
Proof.
  intros m phis. unfold sm_get_phi_depth, view. rewrite phi_loop.
  destruct (phi_scan phis (rev m) 0 None); reflexivity.
Qed.
Lemma phi_scan_spec : forall phis s i acc r, phi_scan phis s i acc = Ok r ->
  match acc with
  | Some a => r = Some a /\ forall k, (k < length s)%nat -> py_in (nth k s 0) phis = false
  | None =>
    match r with
    | None => forall k, (k < length s)%nat -> py_in (nth k s 0) phis = false
    | Some d => i <= - d /\ (Z.to_nat (- d - i) < length s)%nat /\ py_in (nth (Z.to_nat (- d - i)) s 0) phis = true /\
                forall k, (k < length s)%nat -> k <> Z.to_nat (- d - i) -> py_in (nth k s 0) phis = false
    end
  end.
Proof.
  induction s as [|y t IH]; intros i acc r H; simpl in H.
  - inversion H; subst. destruct r; [split; auto|]; intros k Hk; simpl in Hk; lia.
  - destruct (py_in y phis) eqn:E.
    + destruct acc; [discriminate|].
      specialize (IH (i + 1) (Some (- i)) r H). simpl in IH. destruct IH as [Hr Hn]. subst r.
      replace (- - i - i) with 0 by lia. simpl. repeat split; try lia; auto.
      intros [|k] Hk Hne; [congruence|]. simpl. apply Hn. simpl in Hk. lia.
    + specialize (IH (i + 1) acc r H). destruct acc.
      * destruct IH as [Hr Hn]. split; auto. intros [|k] Hk; simpl; auto. apply Hn. simpl in Hk. lia.
      * destruct r.
        -- destruct IH as [H1 [H2 [H3 H4]]].
           assert (Ek : Z.to_nat (- z - i) = S (Z.to_nat (- z - (i + 1)))) by lia.
           rewrite Ek. simpl. repeat split; try lia; auto.
           intros [|k] Hk Hne; simpl; auto. apply H4; [simpl in Hk; lia|lia].
        -- intros [|k] Hk; simpl; auto. apply IH. simpl in Hk. lia.
Qed.
