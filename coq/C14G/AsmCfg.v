(* C14G — control-flow side of code generation (vyper/venom/venom_to_assembly.py + the jump peepholes of
   vyper/evm/assembler/optimizer.py): definitions only.

   The emitted assembly is a list of items; only the control items are interpreted: labels (JUMPDEST), PUSHLABEL, JUMP,
   JUMPI, ISZERO.  Everything else (the straight-line code of a block, scheduled by the stack model — coq/C14S) is
   opaque: `AOp name`.  The pc machine: a configuration is (pc = index into the item list, stack, machine state); the
   address of a label is the index of its ALabel item (the assembler assigns distinct byte offsets to distinct
   positions; only equality of addresses matters); JUMP/JUMPI to a value that is not the index of a label item has no
   successor (EVM: invalid jump destination).

   Validator: certificate = for every Venom block, absent or (start, tpos) = the index its code starts at and the index
   its terminator's lowering starts at.  A block may be absent only if it is transparent (`phi/assign/nop/param` and
   a final `jmp`): the jump peepholes thread and delete such blocks; references to it are resolved (`resolve`). *)
From Coq Require Import ZArith NArith Bool List String Lia.
From Verif Require Import C14G.CfgSem C14G.CfgCheck.
Import ListNotations.
Open Scope string_scope.

Inductive item :=
| ALabel (l : N) | APushLabel (l : N) | AJump | AJumpi | AIszero
| AOp (s : string)            (* any other instruction / immediate *)
| AData (l : N).              (* DATA_ITEM holding a label (jump table entry) *)

Definition item_eqb (a b : item) : bool :=
  match a, b with
  | ALabel x, ALabel y => N.eqb x y
  | APushLabel x, APushLabel y => N.eqb x y
  | AJump, AJump => true
  | AJumpi, AJumpi => true
  | AIszero, AIszero => true
  | AOp s, AOp t => String.eqb s t
  | AData x, AData y => N.eqb x y
  | _, _ => false
  end.

Fixpoint find_label_from (asm : list item) (l : N) (k : nat) : option nat :=
  match asm with
  | [] => None
  | ALabel x :: t => if N.eqb x l then Some k else find_label_from t l (S k)
  | _ :: t => find_label_from t l (S k)
  end.
Definition find_label (asm : list item) (l : N) : option nat := find_label_from asm l 0.

(* ------------------------------------------------------------------ the pc machine (control items: a function) *)
Definition aconf := (nat * list Z)%type.
Definition is_label_at (asm : list item) (p : nat) : bool :=
  match nth_error asm p with Some (ALabel _) => true | _ => false end.
Definition jump_to (asm : list item) (a : Z) (st : list Z) : option aconf :=
  if (0 <=? a)%Z && is_label_at asm (Z.to_nat a) then Some (Z.to_nat a, st) else None.
(* one step of a control item; None: not a control item, or no successor *)
Definition cstep (asm : list item) (x : aconf) : option aconf :=
  let '(pc, st) := x in
  match nth_error asm pc with
  | Some (ALabel _) => Some (S pc, st)
  | Some (APushLabel l) => match find_label asm l with Some p => Some (S pc, Z.of_nat p :: st) | None => None end
  | Some AJump => match st with a :: t => jump_to asm a t | _ => None end
  | Some AJumpi => match st with a :: c :: t => if (c =? 0)%Z then Some (S pc, t) else jump_to asm a t | _ => None end
  | Some AIszero => match st with v :: t => Some (S pc, isz v :: t) | _ => None end
  | _ => None
  end.
Fixpoint csteps (asm : list item) (n : nat) (x : aconf) : option aconf :=
  match n with O => Some x | S k => match cstep asm x with Some y => csteps asm k y | None => None end end.

Definition is_terminal (s : string) : bool :=
  String.eqb s "RETURN" || String.eqb s "REVERT" || String.eqb s "STOP" || String.eqb s "INVALID" || String.eqb s "SELFDESTRUCT".

Section ASM.
  Variable M : Type.
  Variable aosem : string -> list Z -> M -> list Z -> M -> Prop.   (* opaque instructions: any relation on stack and state *)
  (* the full machine: control items as `cstep` (they do not touch the machine state), opaque items by aosem *)
  Inductive astep (asm : list item) : (aconf * M) -> (aconf * M) -> Prop :=
  | as_ctl x y m : cstep asm x = Some y -> astep asm (x, m) (y, m)
  | as_op pc s st m st' m' : nth_error asm pc = Some (AOp s) -> is_terminal s = false -> aosem s st m st' m' ->
                             astep asm ((pc, st), m) ((S pc, st'), m').
End ASM.

(* ------------------------------------------------------------------ the validator *)
Definition pos := option (nat * nat).      (* start, position of the terminator's lowering *)
Definition pos_of (cert : list pos) (b : N) : pos := nth (N.to_nat b) cert None.
Definition start_of (cert : list pos) (b : N) : option nat := match pos_of cert b with Some (s, _) => Some s | None => None end.

Definition nocode (i : inst) : bool :=
  String.eqb (i_op i) "phi" || String.eqb (i_op i) "assign" || String.eqb (i_op i) "nop" || String.eqb (i_op i) "param".
(* a block that emits no code but a jump: Some target *)
Definition transparent (f : func) (b : N) : option N :=
  match split_last (nth_block f b) with
  | Some (pre, j) =>
    if forallb nocode pre && String.eqb (i_op j) "jmp" then match i_args j with [OLab t] => Some t | _ => None end else None
  | None => None
  end.
(* follow absent blocks *)
Fixpoint resolve (f : func) (cert : list pos) (fuel : nat) (t : N) : N :=
  match pos_of cert t with
  | Some _ => t
  | None => match fuel with
            | O => t
            | S n => match transparent f t with Some t' => resolve f cert n t' | None => t end
            end
  end.
Definition res (f : func) (cert : list pos) (t : N) : N := resolve f cert (List.length f) t.

Fixpoint match_at (asm : list item) (p : nat) (pat : list item) : bool :=
  match pat with
  | [] => true
  | x :: t => match nth_error asm p with Some y => item_eqb x y && match_at asm (S p) t | None => false end
  end.

(* block r is present, starts at index s, and carries its label there *)
Definition labelled_at (asm : list item) (cert : list pos) (r : N) : bool :=
  match start_of cert r with Some s => match_at asm s [ALabel r] | None => false end.
Definition starts_at (cert : list pos) (r : N) (p : nat) : bool :=
  match start_of cert r with Some s => Nat.eqb s p | None => false end.

(* the condition of the terminating jnz is produced by `c = iszero x`, the last code-emitting instruction of the block:
   the peephole `ISZERO ISZERO PUSHLABEL JUMPI -> PUSHLABEL JUMPI` may then fuse that ISZERO with the one of the lowering *)
Fixpoint last_code (rpre : list inst) : option inst :=
  match rpre with [] => None | i :: t => if nocode i then last_code t else Some i end.
Definition cond_is_iszero (blk : list inst) : bool :=
  match split_last blk with
  | Some (pre, T) =>
    match i_args T, last_code (rev pre) with
    | OVar c :: _, Some i => String.eqb (i_op i) "iszero" && list_eqb N.eqb (i_outs i) [c]
    | _, _ => false
    end
  | None => false
  end.

(* the lowering of the terminator T of block blk at index tb; result: number of items it occupies, and whether the value
   on top of the stack at tb is the operand x of the `c = iszero x` that produces the condition (instead of c) *)
Definition term_len (f : func) (asm : list item) (cert : list pos) (blk : list inst) (T : inst) (tb : nat) : option (nat * bool) :=
  if String.eqb (i_op T) "jmp" then
    match i_args T with
    | [OLab t] =>
      let r := res f cert t in
      if match_at asm tb [APushLabel r; AJump] && labelled_at asm cert r then Some (2%nat, false)
      else if starts_at cert r tb then Some (0%nat, false) else None
    | _ => None
    end
  else if String.eqb (i_op T) "jnz" then
    match i_args T with
    | [_; OLab t; OLab e] =>
      let rt := res f cert t in
      let re := res f cert e in
      if match_at asm tb [APushLabel rt; AJumpi; APushLabel re; AJump] && labelled_at asm cert rt && labelled_at asm cert re then Some (4%nat, false)
      else if match_at asm tb [APushLabel rt; AJumpi] && labelled_at asm cert rt && starts_at cert re (tb + 2) then Some (2%nat, false)
      else if match_at asm tb [AIszero; APushLabel re; AJumpi] && labelled_at asm cert re && starts_at cert rt (tb + 3) then Some (3%nat, false)
      else if cond_is_iszero blk && match_at asm tb [APushLabel re; AJumpi] && labelled_at asm cert re && starts_at cert rt (tb + 2) then Some (2%nat, true)
      else None
    | _ => None
    end
  else if String.eqb (i_op T) "djmp" then
    if match_at asm tb [AJump] && forallb (fun t => labelled_at asm cert (res f cert t)) (labels_of (i_args T)) then Some (1%nat, false) else None
  else
    (* halting instructions, ret, ...: one opaque item (not interpreted) *)
    match nth_error asm tb with Some (AOp _) => Some (1%nat, false) | Some AJump => Some (1%nat, false) | _ => None end.

Definition block_end (f : func) (asm : list item) (cert : list pos) (b : N) : option nat :=
  match pos_of cert b, last_inst (nth_block f b) with
  | Some (s, tb), Some T =>
    if Nat.leb s tb then match term_len f asm cert (nth_block f b) T tb with Some (k, _) => Some (tb + k)%nat | None => None end else None
  | _, _ => None
  end.

Definition labels_of_asm (asm : list item) : list N := flat_map (fun i => match i with ALabel l => [l] | _ => [] end) asm.
Fixpoint nodupb (l : list N) : bool := match l with [] => true | x :: t => negb (memN x t) && nodupb t end.

(* (block, start, end) of the present blocks *)
Definition intervals (f : func) (asm : list item) (cert : list pos) : list (N * nat * nat) :=
  flat_map (fun b => match pos_of cert b, block_end f asm cert b with
                     | Some (s, _), Some e => [(b, s, e)]
                     | _, _ => []
                     end) (map N.of_nat (seq 0 (List.length f))).

Definition asm_cfg_check (f : func) (asm : list item) (cert : list pos) : bool :=
  let n := List.length f in
  let blocks := map N.of_nat (seq 0 n) in
  nodupb (labels_of_asm asm) && Nat.eqb (List.length cert) n &&
  (match pos_of cert 0 with Some _ => true | None => false end) &&
  (* every block: present with a well-formed lowering, or absent and transparent *)
  forallb (fun b => match pos_of cert b with
                    | Some _ => match block_end f asm cert b with Some _ => true | None => false end
                    | None => match transparent f b with Some _ => true | None => false end
                    end) blocks &&
  (* the code of two blocks does not overlap: each block is emitted once *)
  (let ivs := intervals f asm cert in
   forallb (fun x => forallb (fun y => N.eqb (fst (fst x)) (fst (fst y)) || Nat.leb (snd x) (snd (fst y)) || Nat.leb (snd y) (snd (fst x))) ivs) ivs) &&
  (* the label of a block of this function occurs only where that block starts; jump-table entries have a JUMPDEST *)
  forallb (fun pi => match snd pi with
                     | ALabel l => if N.ltb l (N.of_nat n) then starts_at cert l (fst pi) else true
                     | AData l => if N.ltb l (N.of_nat n) then labelled_at asm cert (res f cert l) else true
                     | _ => true
                     end) (combine (seq 0 (List.length asm)) asm).

(* what the Venom terminator selects, given the value on top of the stack *)
Definition vsel (T : inst) (top : Z) : option N :=
  if String.eqb (i_op T) "jmp" then match i_args T with [OLab t] => Some t | _ => None end
  else if String.eqb (i_op T) "jnz" then
    match i_args T with [_; OLab t; OLab e] => Some (if (top =? 0)%Z then e else t) | _ => None end
  else None.
