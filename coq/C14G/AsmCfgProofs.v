(* C14G — asm_cfg_check f asm cert = true  ->  the control items emitted for the terminator of every block take the pc
   machine exactly to the start of the block the Venom terminator selects. *)
From Coq Require Import ZArith NArith Bool List String Lia.
From Verif Require Import C14G.CfgSem C14G.CfgCheck C14G.CfgSemProofs C14G.AsmCfg.
Import ListNotations.
Open Scope string_scope.
Open Scope list_scope.

Lemma item_eqb_eq a b : item_eqb a b = true -> a = b.
Proof.
  destruct a, b; simpl; intros H; try discriminate; auto;
    try (apply N.eqb_eq in H; congruence). apply String.eqb_eq in H. congruence.
Qed.

Lemma match_at_nth asm pat : forall p i x, match_at asm p pat = true -> nth_error pat i = Some x -> nth_error asm (p + i) = Some x.
Proof.
  induction pat as [|y t IH]; intros p i x H Hi; [destruct i; discriminate|]. simpl in H.
  destruct (nth_error asm p) as [z|] eqn:E; try discriminate. apply andb_true_iff in H as [H1 H2]. apply item_eqb_eq in H1. subst z.
  destruct i; simpl in Hi.
  - inversion Hi; subst. now rewrite Nat.add_0_r.
  - replace (p + S i)%nat with (S p + i)%nat by lia. eauto.
Qed.

Lemma find_label_from_unique asm l : forall p k, nodupb (labels_of_asm asm) = true -> nth_error asm p = Some (ALabel l) ->
  find_label_from asm l k = Some (k + p)%nat.
Proof.
  induction asm as [|x t IH]; intros p k Hn Hp; [destruct p; discriminate|]. destruct p; simpl in Hp.
  - inversion Hp; subst. simpl. rewrite N.eqb_refl. f_equal. lia.
  - assert (Hl : In l (labels_of_asm t)).
    { unfold labels_of_asm. apply in_flat_map. exists (ALabel l). split; [eapply nth_error_In; eauto | now left]. }
    assert (Hnt : nodupb (labels_of_asm t) = true).
    { destruct x; simpl in Hn; auto. apply andb_true_iff in Hn as [_ Hn]. exact Hn. }
    assert (G : find_label_from t l (S k) = Some (k + S p)%nat) by (rewrite (IH p (S k) Hnt Hp); f_equal; lia).
    destruct x; simpl; try exact G.
    destruct (N.eqb l0 l) eqn:E; [|exact G]. apply N.eqb_eq in E. subst l0. simpl in Hn.
    apply andb_true_iff in Hn as [Hm _]. apply negb_true_iff in Hm. apply memN_In in Hl. congruence.
Qed.
Lemma find_label_unique asm l p : nodupb (labels_of_asm asm) = true -> nth_error asm p = Some (ALabel l) -> find_label asm l = Some p.
Proof. intros. unfold find_label. now rewrite (find_label_from_unique asm l p 0). Qed.

Lemma labelled_at_spec asm cert r : labelled_at asm cert r = true ->
  exists s, start_of cert r = Some s /\ nth_error asm s = Some (ALabel r).
Proof.
  unfold labelled_at. destruct (start_of cert r) as [s|]; try discriminate. intros H. exists s. split; auto.
  rewrite <- (Nat.add_0_r s). apply (match_at_nth asm [ALabel r] s 0 _ H eq_refl).
Qed.
Lemma starts_at_spec cert r p : starts_at cert r p = true -> start_of cert r = Some p.
Proof. unfold starts_at. destruct (start_of cert r); try discriminate. intros H. apply Nat.eqb_eq in H. now subst. Qed.

Lemma jump_to_label asm s l st : nth_error asm s = Some (ALabel l) -> jump_to asm (Z.of_nat s) st = Some (s, st).
Proof.
  intros H. unfold jump_to, is_label_at. rewrite Nat2Z.id, H.
  destruct (0 <=? Z.of_nat s)%Z eqn:E; simpl; auto. apply Z.leb_gt in E. lia.
Qed.

Section SOUND.
  Variables (f : func) (asm : list item) (cert : list pos).
  Hypothesis HC : asm_cfg_check f asm cert = true.

  Lemma HC_nodup : nodupb (labels_of_asm asm) = true.
  Proof. unfold asm_cfg_check in HC. repeat (apply andb_true_iff in HC as [HC _]). exact HC. Qed.

  Lemma push_step tb r s st : nth_error asm tb = Some (APushLabel r) -> nth_error asm s = Some (ALabel r) ->
    cstep asm (tb, st) = Some (S tb, Z.of_nat s :: st).
  Proof. intros H1 H2. simpl. rewrite H1, (find_label_unique asm r s HC_nodup H2). reflexivity. Qed.

  Lemma block_in_range b : pos_of cert b <> None -> (N.to_nat b < List.length f)%nat.
  Proof.
    intros H. unfold asm_cfg_check in HC. do 4 (apply andb_true_iff in HC as [HC _]). apply andb_true_iff in HC as [_ HL].
    apply Nat.eqb_eq in HL. unfold pos_of in H. destruct (Nat.lt_ge_cases (N.to_nat b) (List.length f)); auto.
    rewrite nth_overflow in H by lia. congruence.
  Qed.

  Lemma HC_block b s tb : pos_of cert b = Some (s, tb) -> exists e, block_end f asm cert b = Some e.
  Proof.
    intros Hp. assert (Hr : (N.to_nat b < List.length f)%nat) by (apply block_in_range; congruence).
    unfold asm_cfg_check in HC. apply andb_true_iff in HC as [H0 _]. apply andb_true_iff in H0 as [H0 _].
    apply andb_true_iff in H0 as [_ Hall]. rewrite forallb_forall in Hall.
    specialize (Hall b). rewrite Hp in Hall. destruct (block_end f asm cert b); eauto.
    assert (false = true); [|discriminate]. apply Hall. apply in_map_iff. exists (N.to_nat b). split; [apply N2Nat.id | apply in_seq; lia].
  Qed.

  (* the main statement, per block *)
  Theorem term_lands b s tb T :
    pos_of cert b = Some (s, tb) -> last_inst (nth_block f b) = Some T ->
    exists k neg, term_len f asm cert (nth_block f b) T tb = Some (k, neg) /\
    (neg = true -> cond_is_iszero (nth_block f b) = true) /\
    (forall top st t, vsel T (if neg then isz top else top) = Some t ->
       exists n sr, start_of cert (res f cert t) = Some sr /\
         csteps asm n (tb, if String.eqb (i_op T) "jnz" then top :: st else st) = Some (sr, st)) /\
    (i_op T = "djmp" -> forall t st, In t (labels_of (i_args T)) ->
       exists sr, start_of cert (res f cert t) = Some sr /\ nth_error asm sr = Some (ALabel (res f cert t)) /\
                  cstep asm (tb, Z.of_nat sr :: st) = Some (sr, st)).
  Proof.
    intros Hp HT. destruct (HC_block _ _ _ Hp) as [e He]. unfold block_end in He. rewrite Hp, HT in He.
    destruct (Nat.leb s tb); try discriminate.
    destruct (term_len f asm cert (nth_block f b) T tb) as [[k neg]|] eqn:Ek; try discriminate. clear He.
    exists k, neg. split; auto. unfold term_len in Ek.
    destruct (String.eqb (i_op T) "jmp") eqn:Ejmp.
    - (* jmp *)
      assert (Eop : i_op T = "jmp") by now apply String.eqb_eq.
      assert (Ejnz : String.eqb (i_op T) "jnz" = false) by (rewrite Eop; reflexivity).
      destruct (i_args T) as [|[| |t0] [|]] eqn:Ea; try discriminate Ek.
      assert (Hdj : i_op T = "djmp" -> forall t st, In t (labels_of (i_args T)) ->
         exists sr, start_of cert (res f cert t) = Some sr /\ nth_error asm sr = Some (ALabel (res f cert t)) /\
                    cstep asm (tb, Z.of_nat sr :: st) = Some (sr, st)) by (intros E; rewrite Eop in E; discriminate E).
      destruct (match_at asm tb [APushLabel (res f cert t0); AJump] && labelled_at asm cert (res f cert t0)) eqn:E1.
      + inversion Ek; subst k neg. split; [discriminate|]. split; [|rewrite <- Ea; exact Hdj].
        intros top st t Hv. unfold vsel in Hv. rewrite Ejmp, Ea in Hv. inversion Hv; subst t. rewrite Ejnz.
        apply andb_true_iff in E1 as [Hm Hl]. destruct (labelled_at_spec _ _ _ Hl) as [sr [Hs Hlab]].
        exists 2%nat, sr. split; auto.
        pose proof (match_at_nth _ _ tb 0 _ Hm eq_refl) as H0. pose proof (match_at_nth _ _ tb 1 _ Hm eq_refl) as H1.
        rewrite Nat.add_0_r in H0. replace (tb + 1)%nat with (S tb) in H1 by lia.
        cbn [csteps]. rewrite (push_step _ _ _ _ H0 Hlab). cbn [cstep]. rewrite H1. now rewrite (jump_to_label _ _ _ _ Hlab).
      + destruct (starts_at cert (res f cert t0) tb) eqn:E2; try discriminate Ek. inversion Ek; subst k neg.
        split; [discriminate|]. split; [|rewrite <- Ea; exact Hdj].
        intros top st t Hv. unfold vsel in Hv. rewrite Ejmp, Ea in Hv. inversion Hv; subst t. rewrite Ejnz.
        exists 0%nat, tb. split; [now apply starts_at_spec|reflexivity].
    - destruct (String.eqb (i_op T) "jnz") eqn:Ejnz.
      + (* jnz *)
        assert (Eop : i_op T = "jnz") by now apply String.eqb_eq.
        destruct (i_args T) as [|c0 [|[| |t0] [|[| |e0] [|]]]] eqn:Ea; try discriminate Ek.
        assert (Hdj : i_op T = "djmp" -> forall t st, In t (labels_of (i_args T)) ->
           exists sr, start_of cert (res f cert t) = Some sr /\ nth_error asm sr = Some (ALabel (res f cert t)) /\
                      cstep asm (tb, Z.of_nat sr :: st) = Some (sr, st)) by (intros E; rewrite Eop in E; discriminate E).
        set (rt := res f cert t0) in *. set (re := res f cert e0) in *.
        assert (Hvs : forall v t, vsel T v = Some t -> t = (if (v =? 0)%Z then e0 else t0)).
        { intros v t Hv. unfold vsel in Hv. rewrite Ejmp, Ejnz, Ea in Hv. now inversion Hv. }
        destruct (match_at asm tb [APushLabel rt; AJumpi; APushLabel re; AJump] && labelled_at asm cert rt && labelled_at asm cert re) eqn:E1.
        { inversion Ek; subst k neg. split; [discriminate|]. split; [|rewrite <- Ea; exact Hdj].
          intros top st t Hv. apply Hvs in Hv.
          apply andb_true_iff in E1 as [E1 Hle]. apply andb_true_iff in E1 as [Hm Hlt].
          destruct (labelled_at_spec _ _ _ Hlt) as [st_ [Hst Hlabt]]. destruct (labelled_at_spec _ _ _ Hle) as [se [Hse Hlabe]].
          pose proof (match_at_nth _ _ tb 0 _ Hm eq_refl) as H0. pose proof (match_at_nth _ _ tb 1 _ Hm eq_refl) as H1.
          pose proof (match_at_nth _ _ tb 2 _ Hm eq_refl) as H2. pose proof (match_at_nth _ _ tb 3 _ Hm eq_refl) as H3.
          rewrite Nat.add_0_r in H0. replace (tb + 1)%nat with (S tb) in H1 by lia. replace (tb + 2)%nat with (S (S tb)) in H2 by lia.
          replace (tb + 3)%nat with (S (S (S tb))) in H3 by lia.
          destruct (top =? 0)%Z eqn:Ez; subst t.
          - exists 4%nat, se. split; auto. cbn [csteps]. rewrite (push_step _ _ _ _ H0 Hlabt). cbn [cstep]. rewrite H1, Ez.
            rewrite (push_step _ _ _ _ H2 Hlabe). cbn [cstep]. rewrite H3. now rewrite (jump_to_label _ _ _ _ Hlabe).
          - exists 2%nat, st_. split; auto. cbn [csteps]. rewrite (push_step _ _ _ _ H0 Hlabt). cbn [cstep]. rewrite H1, Ez.
            now rewrite (jump_to_label _ _ _ _ Hlabt). }
        destruct (match_at asm tb [APushLabel rt; AJumpi] && labelled_at asm cert rt && starts_at cert re (tb + 2)) eqn:E2.
        { inversion Ek; subst k neg. split; [discriminate|]. split; [|rewrite <- Ea; exact Hdj].
          intros top st t Hv. apply Hvs in Hv.
          apply andb_true_iff in E2 as [E2 Hse]. apply andb_true_iff in E2 as [Hm Hlt].
          destruct (labelled_at_spec _ _ _ Hlt) as [st_ [Hst Hlabt]]. apply starts_at_spec in Hse.
          pose proof (match_at_nth _ _ tb 0 _ Hm eq_refl) as H0. pose proof (match_at_nth _ _ tb 1 _ Hm eq_refl) as H1.
          rewrite Nat.add_0_r in H0. replace (tb + 1)%nat with (S tb) in H1 by lia.
          destruct (top =? 0)%Z eqn:Ez; subst t.
          - exists 2%nat, (tb + 2)%nat. split; auto. cbn [csteps]. rewrite (push_step _ _ _ _ H0 Hlabt). cbn [cstep]. rewrite H1, Ez.
            f_equal. f_equal. lia.
          - exists 2%nat, st_. split; auto. cbn [csteps]. rewrite (push_step _ _ _ _ H0 Hlabt). cbn [cstep]. rewrite H1, Ez.
            now rewrite (jump_to_label _ _ _ _ Hlabt). }
        destruct (match_at asm tb [AIszero; APushLabel re; AJumpi] && labelled_at asm cert re && starts_at cert rt (tb + 3)) eqn:E3.
        { inversion Ek; subst k neg. split; [discriminate|]. split; [|rewrite <- Ea; exact Hdj].
          intros top st t Hv. apply Hvs in Hv.
          apply andb_true_iff in E3 as [E3 Hst]. apply andb_true_iff in E3 as [Hm Hle].
          destruct (labelled_at_spec _ _ _ Hle) as [se [Hse Hlabe]]. apply starts_at_spec in Hst.
          pose proof (match_at_nth _ _ tb 0 _ Hm eq_refl) as H0. pose proof (match_at_nth _ _ tb 1 _ Hm eq_refl) as H1.
          pose proof (match_at_nth _ _ tb 2 _ Hm eq_refl) as H2.
          rewrite Nat.add_0_r in H0. replace (tb + 1)%nat with (S tb) in H1 by lia. replace (tb + 2)%nat with (S (S tb)) in H2 by lia.
          destruct (top =? 0)%Z eqn:Ez; subst t.
          - (* cond = 0: ISZERO gives 1, the JUMPI to the else-block is taken *)
            exists 3%nat, se. split; auto. cbn [csteps cstep]. rewrite H0. rewrite (push_step _ _ _ _ H1 Hlabe). cbn [cstep]. rewrite H2.
            unfold isz. rewrite Ez. simpl. now rewrite (jump_to_label _ _ _ _ Hlabe).
          - exists 3%nat, (tb + 3)%nat. split; auto. cbn [csteps cstep]. rewrite H0. rewrite (push_step _ _ _ _ H1 Hlabe). cbn [cstep]. rewrite H2.
            unfold isz. rewrite Ez. simpl. f_equal. f_equal. lia. }
        destruct (cond_is_iszero (nth_block f b) && match_at asm tb [APushLabel re; AJumpi] && labelled_at asm cert re && starts_at cert rt (tb + 2)) eqn:E4;
          try discriminate Ek.
        inversion Ek; subst k neg.
        apply andb_true_iff in E4 as [E4 Hst]. apply andb_true_iff in E4 as [E4 Hle]. apply andb_true_iff in E4 as [Hci Hm].
        split; [auto|]. split; [|rewrite <- Ea; exact Hdj].
        intros top st t Hv. apply Hvs in Hv.
        destruct (labelled_at_spec _ _ _ Hle) as [se [Hse Hlabe]]. apply starts_at_spec in Hst.
        pose proof (match_at_nth _ _ tb 0 _ Hm eq_refl) as H0. pose proof (match_at_nth _ _ tb 1 _ Hm eq_refl) as H1.
        rewrite Nat.add_0_r in H0. replace (tb + 1)%nat with (S tb) in H1 by lia.
        (* the stack holds x, the condition is c = iszero x: x <> 0 -> c = 0 -> else-block *)
        unfold isz in Hv. destruct (top =? 0)%Z eqn:Ez; simpl in Hv; subst t.
        * exists 2%nat, (tb + 2)%nat. split; auto. cbn [csteps]. rewrite (push_step _ _ _ _ H0 Hlabe). cbn [cstep]. rewrite H1, Ez.
          f_equal. f_equal. lia.
        * exists 2%nat, se. split; auto. cbn [csteps]. rewrite (push_step _ _ _ _ H0 Hlabe). cbn [cstep]. rewrite H1, Ez.
          now rewrite (jump_to_label _ _ _ _ Hlabe).
      + assert (Hnv : forall v t, vsel T v = Some t -> False).
        { intros v t Hv. unfold vsel in Hv. rewrite Ejmp, Ejnz in Hv. discriminate. }
        destruct (String.eqb (i_op T) "djmp") eqn:Edj.
        * destruct (match_at asm tb [AJump] && forallb (fun t0 => labelled_at asm cert (res f cert t0)) (labels_of (i_args T))) eqn:E; try discriminate Ek.
          inversion Ek; subst k neg. split; [discriminate|]. split; [intros top st t Hv; exfalso; eauto|].
          intros _ t st Hin. apply andb_true_iff in E as [Hm Hall]. rewrite forallb_forall in Hall.
          destruct (labelled_at_spec _ _ _ (Hall _ Hin)) as [sr [Hs Hlab]].
          exists sr. split; auto. split; auto. pose proof (match_at_nth _ _ tb 0 _ Hm eq_refl) as H0. rewrite Nat.add_0_r in H0.
          cbn [cstep]. rewrite H0. now rewrite (jump_to_label _ _ _ _ Hlab).
        * assert (neg = false) by (destruct (nth_error asm tb) as [[]|]; try discriminate Ek; inversion Ek; auto). subst neg.
          split; [discriminate|]. split; [intros top st t Hv; exfalso; eauto|].
          intros E. rewrite E in Edj. discriminate Edj.
  Qed.

  (* layout: code of distinct blocks is disjoint; a block label occurs only at the start of its block; every block is
     present or transparent *)
  Theorem layout_sound :
    (forall b b' s tb s' tb' e e', b <> b' -> pos_of cert b = Some (s, tb) -> pos_of cert b' = Some (s', tb') ->
        block_end f asm cert b = Some e -> block_end f asm cert b' = Some e' -> (e <= s' \/ e' <= s)%nat) /\
    (forall p l, nth_error asm p = Some (ALabel l) -> (N.to_nat l < List.length f)%nat -> start_of cert l = Some p) /\
    (forall b, (N.to_nat b < List.length f)%nat -> pos_of cert b = None -> exists t, transparent f b = Some t) /\
    pos_of cert 0 <> None.
  Proof.
    unfold asm_cfg_check in HC. apply andb_true_iff in HC as [H0 Hlab]. apply andb_true_iff in H0 as [H0 Hdis].
    apply andb_true_iff in H0 as [H0 Hall]. apply andb_true_iff in H0 as [H0 Hent]. apply andb_true_iff in H0 as [_ HL].
    apply Nat.eqb_eq in HL. rewrite forallb_forall in Hall, Hlab.
    assert (Hin : forall b, (N.to_nat b < List.length f)%nat -> In b (map N.of_nat (seq 0 (List.length f)))).
    { intros b Hb. apply in_map_iff. exists (N.to_nat b). split; [apply N2Nat.id | apply in_seq; lia]. }
    assert (Hrange : forall b, pos_of cert b <> None -> (N.to_nat b < List.length f)%nat).
    { intros b H. unfold pos_of in H. destruct (Nat.lt_ge_cases (N.to_nat b) (List.length f)); auto. rewrite nth_overflow in H by lia. congruence. }
    split; [|split; [|split]].
    - intros b b' s tb s' tb' e e' Hne Hp Hp' He He'. cbv zeta in Hdis. rewrite forallb_forall in Hdis.
      assert (Hiv : forall b0 s0 tb0 e0, pos_of cert b0 = Some (s0, tb0) -> block_end f asm cert b0 = Some e0 -> In (b0, s0, e0) (intervals f asm cert)).
      { intros b0 s0 tb0 e0 H1 H2. unfold intervals. apply in_flat_map. exists b0. split; [apply Hin, Hrange; congruence|].
        rewrite H1, H2. now left. }
      pose proof (Hdis _ (Hiv _ _ _ _ Hp He)) as H1. rewrite forallb_forall in H1. specialize (H1 _ (Hiv _ _ _ _ Hp' He')). simpl in H1.
      apply orb_true_iff in H1 as [H1|H1]; [|apply Nat.leb_le in H1; auto].
      apply orb_true_iff in H1 as [H1|H1]; [apply N.eqb_eq in H1; congruence | apply Nat.leb_le in H1; auto].
    - intros p l Hp Hl. assert (Hc : In (p, ALabel l) (combine (seq 0 (List.length asm)) asm)).
      { assert (G : forall (a : list item) k p0, nth_error a p0 = Some (ALabel l) -> In ((k + p0)%nat, ALabel l) (combine (seq k (List.length a)) a)).
        { induction a as [|x t IH]; intros k p0 H; [destruct p0; discriminate|]. destruct p0; simpl in *.
          - inversion H; subst. left. f_equal. lia.
          - right. replace (k + S p0)%nat with (S k + p0)%nat by lia. now apply IH. }
        apply (G asm 0%nat p Hp). }
      specialize (Hlab _ Hc). simpl in Hlab. assert (E : N.ltb l (N.of_nat (List.length f)) = true) by (apply N.ltb_lt; lia).
      rewrite E in Hlab. now apply starts_at_spec.
    - intros b Hb Hn. specialize (Hall b (Hin b Hb)). rewrite Hn in Hall. destruct (transparent f b); eauto. discriminate.
    - intros E. rewrite E in Hent. discriminate.
  Qed.
End SOUND.

(* control items never touch the machine state, and `cstep` is the whole machine on them *)
Lemma astep_ctl M aosem asm pc st m y m' i :
  nth_error asm pc = Some i -> (forall s, i <> AOp s) -> astep M aosem asm ((pc, st), m) (y, m') -> cstep asm (pc, st) = Some y /\ m' = m.
Proof.
  intros Hn Hi H. inversion H; subst; auto. rewrite Hn in *. match goal with [ E : Some _ = Some _ |- _ ] => inversion E; subst end.
  exfalso. eapply Hi; eauto.
Qed.
