(* C14G — SimplifyCFGPass: chain_check f g ch = true  ->  g and f are bisimilar (same observable traces). *)
From Coq Require Import ZArith NArith Bool List String Lia.
From Verif Require Import Base.Word256 C14G.CfgSem C14G.CfgCheck C14G.CfgSemProofs.
Import ListNotations.
Open Scope string_scope.
Open Scope list_scope.

Lemma nth_error_skipn' {A} (l : list A) : forall n k, nth_error (skipn n l) k = nth_error l (n + k).
Proof. induction l as [|a t IH]; intros [|n] k; simpl; auto. destruct k; reflexivity. Qed.
Lemma nth_error_firstn' {A} (l : list A) : forall n k, (k < n)%nat -> nth_error (firstn n l) k = nth_error l k.
Proof. induction l as [|a t IH]; intros [|n] [|k] H; simpl; auto; try lia. apply IH. lia. Qed.
Lemma skipn_skipn' {A} (l : list A) : forall n m, skipn n (skipn m l) = skipn (m + n) l.
Proof. induction l as [|a t IH]; intros n [|m]; simpl; auto. destruct n; reflexivity. Qed.
Lemma nth_app_last' {A} (pre : list A) x : nth_error (pre ++ [x]) (List.length pre) = Some x.
Proof. rewrite nth_error_app2 by lia. now rewrite Nat.sub_diag. Qed.
Lemma last_inst_spec b x : last_inst b = Some x -> exists pre, b = pre ++ [x].
Proof. unfold last_inst. destruct (split_last b) as [[p y]|] eqn:E; try discriminate. intros H; inversion H; subst. exists p. now apply split_last_spec. Qed.
Lemma last_inst_app pre x : last_inst (pre ++ [x]) = Some x.
Proof. unfold last_inst. now rewrite split_last_app. Qed.

Lemma is_phi_not_jump i : is_phi i = true -> is_jump i = false.
Proof. unfold is_phi, is_jump. intros H. apply String.eqb_eq in H. rewrite H. reflexivity. Qed.

(* ------------------------------------------------------------------ jumps *)
Section JUMPS.
  Variable lv : N -> Z.
  Lemma targets_labels ins c t : In t (targets lv ins c) -> In t (labels_of (i_args ins)).
  Proof.
    unfold targets. destruct (String.eqb (i_op ins) "jmp").
    - destruct (i_args ins) as [|[] [|]]; simpl; tauto.
    - destruct (String.eqb (i_op ins) "jnz").
      + destruct (i_args ins) as [|cond [|[] [|[] [|]]]]; simpl; try tauto.
        destruct (oval lv c cond =? 0)%Z; intros [H|[]]; subst; destruct cond; simpl; auto.
      + destruct (String.eqb (i_op ins) "djmp"); simpl; tauto.
  Qed.
  Lemma jump_total_targets ins c : jump_total ins = true -> exists t, In t (targets lv ins c).
  Proof.
    unfold jump_total, targets. destruct (String.eqb (i_op ins) "jmp").
    - destruct (i_args ins) as [|[] [|]]; try discriminate. intros _. eexists; now left.
    - destruct (String.eqb (i_op ins) "jnz").
      + destruct (i_args ins) as [|cond [|[] [|[] [|]]]]; try discriminate. intros _. eexists; now left.
      + destruct (String.eqb (i_op ins) "djmp"); try discriminate.
        destruct (labels_of (i_args ins)); try discriminate. intros _. eexists; now left.
  Qed.
  Lemma jump_total_is_jump ins : jump_total ins = true -> is_jump ins = true.
  Proof.
    unfold jump_total, is_jump. destruct (String.eqb (i_op ins) "jmp"); auto.
    destruct (String.eqb (i_op ins) "jnz"); auto. destruct (String.eqb (i_op ins) "djmp"); auto.
  Qed.
  Lemma uncond_target_spec ins t c : uncond_target ins = Some t -> is_jump ins = true /\ targets lv ins c = [t].
  Proof.
    unfold uncond_target, is_jump, targets. destruct (String.eqb (i_op ins) "jmp").
    - destruct (i_args ins) as [|[] [|]]; try discriminate. intros H; inversion H; auto.
    - destruct (String.eqb (i_op ins) "jnz"); try discriminate.
      destruct (i_args ins) as [|cond [|[] [|[] [|]]]]; try discriminate.
      destruct (N.eqb l l0) eqn:E; try discriminate. apply N.eqb_eq in E. subst. intros H; inversion H; subst.
      split; auto. destruct (oval lv c cond =? 0)%Z; reflexivity.
  Qed.

  Lemma labels_shape args_b : forall args_a,
    forall2b (fun ob oa => match ob, oa with OLab _, OLab _ => true | OLab _, _ => false | _, OLab _ => false | _, _ => operand_eqb ob oa end) args_b args_a = true ->
    List.length (labels_of args_b) = List.length (labels_of args_a).
  Proof.
    induction args_b as [|ob tb IH]; intros [|oa ta]; simpl; intros H; try discriminate; auto.
    apply andb_true_iff in H as [H1 H2]. specialize (IH _ H2). destruct ob, oa; simpl; try discriminate; auto.
  Qed.

  (* corresponding jumps choose the same position of their label lists *)
  Lemma jump_shape_targets ib ia c T :
    jump_shape ib ia = true -> In T (targets lv ia c) ->
    exists j t, nth_error (labels_of (i_args ia)) j = Some T /\ nth_error (labels_of (i_args ib)) j = Some t /\ In t (targets lv ib c).
  Proof.
    unfold jump_shape. intros H. apply andb_true_iff in H as [H Hargs]. apply andb_true_iff in H as [Hop _].
    apply String.eqb_eq in Hop. pose proof (labels_shape _ _ Hargs) as HLL. unfold targets. rewrite <- Hop.
    destruct (String.eqb (i_op ib) "jmp").
    - destruct (i_args ia) as [|[| |la] [|]]; simpl; try tauto. intros [HT|[]]; subst.
      destruct (i_args ib) as [|[| |lb] [|? ?]]; simpl in Hargs; try discriminate.
      exists 0%nat, lb. simpl. auto.
    - destruct (String.eqb (i_op ib) "jnz").
      + destruct (i_args ia) as [|ca [|[| |ta] [|[| |fa] [|]]]]; simpl; try tauto. intros [HT|[]].
        destruct (i_args ib) as [|cb [|[| |tb] [|[| |fb] [|? ?]]]]; simpl in Hargs; try discriminate;
          try (destruct cb, ca; discriminate).
        assert (cb = ca).
        { destruct cb, ca; simpl in Hargs; try discriminate; apply andb_true_iff in Hargs as [Hc _];
            [apply Z.eqb_eq in Hc | apply N.eqb_eq in Hc]; congruence. }
        subst cb. destruct ca; simpl in *;
          match goal with [ |- context [ (?v =? 0)%Z ] ] => destruct (v =? 0)%Z end; subst;
          first [ exists 1%nat, fb; simpl; now auto | exists 0%nat, tb; simpl; now auto ].
      + destruct (String.eqb (i_op ib) "djmp"); simpl; try tauto. intros HT.
        apply In_nth_error in HT as [j Hj]. destruct (nth_error (labels_of (i_args ib)) j) as [t|] eqn:Et.
        * exists j, t. split; auto. split; auto. eapply nth_error_In; eauto.
        * apply nth_error_None in Et. assert (j < List.length (labels_of (i_args ia)))%nat by (apply nth_error_Some; congruence). lia.
  Qed.
End JUMPS.
