(* C14G — SimplifyCFGPass: chain_check f g ch = true  ->  g and f are bisimilar (same observable traces). *)
From Coq Require Import ZArith NArith Bool List String Lia.
From Verif Require Import Base.Word256 C14G.CfgSem C14G.CfgCheck C14G.CfgSemProofs.
Import ListNotations.
Open Scope string_scope.
Open Scope list_scope.

Ltac bsplit :=
  repeat match goal with
         | [ H : _ && _ = true |- _ ] => let H1 := fresh "Hb" in let H2 := fresh "Hb" in apply andb_true_iff in H as [H1 H2]
         | [ H : false = true |- _ ] => discriminate H
         end.

Lemma nth_error_skipn' {A} (l : list A) : forall n k, nth_error (skipn n l) k = nth_error l (n + k).
Proof. induction l as [|a t IH]; intros [|n] k; simpl; auto. destruct k; reflexivity. Qed.
Lemma nth_error_firstn' {A} (l : list A) : forall n k, (k < n)%nat -> nth_error (firstn n l) k = nth_error l k.
Proof. induction l as [|a t IH]; intros [|n] [|k] H; simpl; auto; try lia. apply IH. lia. Qed.
Lemma skipn_skipn' {A} (l : list A) : forall n m, skipn n (skipn m l) = skipn (m + n) l.
Proof. induction l as [|a t IH]; intros n [|m]; simpl; auto. destruct n; reflexivity. Qed.
Lemma nth_app_last' {A} (pre : list A) x : nth_error (pre ++ [x]) (List.length pre) = Some x.
Proof. rewrite nth_error_app2 by lia. now rewrite Nat.sub_diag. Qed.
Lemma last_inst_spec b x : last_inst b = Some x -> exists pre, b = pre ++ [x].
Proof. unfold last_inst. destruct (split_last b) as [[p y]|] eqn:E; try discriminate. intros H; inversion H; subst. exists p. now apply split_last_spec. Qed.
Lemma last_inst_app pre x : last_inst (pre ++ [x]) = Some x.
Proof. unfold last_inst. now rewrite split_last_app. Qed.

Lemma is_phi_not_jump i : is_phi i = true -> is_jump i = false.
Proof. unfold is_phi, is_jump. intros H. apply String.eqb_eq in H. rewrite H. reflexivity. Qed.

(* ------------------------------------------------------------------ jumps *)
Section JUMPS.
  Variable lv : N -> Z.
  Lemma targets_labels ins c t : In t (targets lv ins c) -> In t (labels_of (i_args ins)).
  Proof.
    unfold targets. destruct (String.eqb (i_op ins) "jmp").
    - destruct (i_args ins) as [|[] [|]]; simpl; tauto.
    - destruct (String.eqb (i_op ins) "jnz").
      + destruct (i_args ins) as [|cond [|[] [|[] [|]]]]; simpl; try tauto.
        destruct (oval lv c cond =? 0)%Z; intros [H|[]]; subst; destruct cond; simpl; auto.
      + destruct (String.eqb (i_op ins) "djmp"); simpl; tauto.
  Qed.
  Lemma jump_total_targets ins c : jump_total ins = true -> exists t, In t (targets lv ins c).
  Proof.
    unfold jump_total, targets. destruct (String.eqb (i_op ins) "jmp").
    - destruct (i_args ins) as [|[] [|]]; try discriminate. intros _. eexists; now left.
    - destruct (String.eqb (i_op ins) "jnz").
      + destruct (i_args ins) as [|cond [|[] [|[] [|]]]]; try discriminate. intros _. eexists; now left.
      + destruct (String.eqb (i_op ins) "djmp"); try discriminate.
        destruct (labels_of (i_args ins)); try discriminate. intros _. eexists; now left.
  Qed.
  Lemma jump_total_is_jump ins : jump_total ins = true -> is_jump ins = true.
  Proof.
    unfold jump_total, is_jump. destruct (String.eqb (i_op ins) "jmp"); auto.
    destruct (String.eqb (i_op ins) "jnz"); auto. destruct (String.eqb (i_op ins) "djmp"); auto.
  Qed.
  Lemma uncond_target_spec ins t c : uncond_target ins = Some t -> is_jump ins = true /\ targets lv ins c = [t].
  Proof.
    unfold uncond_target, is_jump, targets. destruct (String.eqb (i_op ins) "jmp").
    - destruct (i_args ins) as [|[] [|]]; try discriminate. intros H; inversion H; auto.
    - destruct (String.eqb (i_op ins) "jnz"); try discriminate.
      destruct (i_args ins) as [|cond [|[] [|[] [|]]]]; try discriminate.
      destruct (N.eqb l l0) eqn:E; try discriminate. apply N.eqb_eq in E. subst. intros H; inversion H; subst.
      split; auto. destruct (oval lv c cond =? 0)%Z; reflexivity.
  Qed.

  Lemma labels_shape args_b : forall args_a,
    forall2b (fun ob oa => match ob, oa with OLab _, OLab _ => true | OLab _, _ => false | _, OLab _ => false | _, _ => operand_eqb ob oa end) args_b args_a = true ->
    List.length (labels_of args_b) = List.length (labels_of args_a).
  Proof.
    induction args_b as [|ob tb IH]; intros [|oa ta]; simpl; intros H; try discriminate; auto.
    apply andb_true_iff in H as [H1 H2]. specialize (IH _ H2). destruct ob, oa; simpl; try discriminate; auto.
  Qed.

  (* corresponding jumps choose the same position of their label lists *)
  Lemma jump_shape_targets ib ia c T :
    jump_shape ib ia = true -> In T (targets lv ia c) ->
    exists j t, nth_error (labels_of (i_args ia)) j = Some T /\ nth_error (labels_of (i_args ib)) j = Some t /\ In t (targets lv ib c).
  Proof.
    unfold jump_shape, jnz_cond_ok. intros H. apply andb_true_iff in H as [H Hargs]. apply andb_true_iff in H as [Hop Hc].
    apply String.eqb_eq in Hop. pose proof (labels_shape _ _ Hargs) as HLL. unfold targets. rewrite <- Hop.
    destruct (String.eqb (i_op ib) "jmp").
    - destruct (i_args ia) as [|[| |la] [|]]; simpl; try tauto. intros [HT|[]]; subst.
      destruct (i_args ib) as [|[| |lb] [|? ?]]; simpl in Hargs; try discriminate Hargs.
      exists 0%nat, lb. simpl. auto.
    - destruct (String.eqb (i_op ib) "jnz").
      + destruct (i_args ia) as [|ca [|[| |ta] [|[| |fa] [|]]]]; simpl; try tauto. intros [HT|[]].
        destruct (i_args ib) as [|cb [|xb [|yb [|? ?]]]]; simpl in Hargs; try discriminate Hargs; bsplit.
        destruct xb as [| |tb]; try discriminate. destruct yb as [| |fb]; try discriminate.
        rename Hb into H1.
        assert (cb = ca /\ labels_of [cb] = []) as [E EL].
        { destruct cb, ca; simpl in H1, Hc; try discriminate;
            [apply Z.eqb_eq in H1 | apply N.eqb_eq in H1]; split; auto; congruence. }
        subst cb. destruct ca; try discriminate EL; simpl in *;
          match goal with [ H : (if (?v =? 0)%Z then _ else _) = _ |- _ ] => destruct (v =? 0)%Z end; subst;
          first [ (exists 1%nat, fb; simpl; now auto) | (exists 0%nat, tb; simpl; now auto) ].
      + destruct (String.eqb (i_op ib) "djmp"); simpl; try tauto. intros HT.
        apply In_nth_error in HT as [j Hj]. destruct (nth_error (labels_of (i_args ib)) j) as [t|] eqn:Et.
        * exists j, t. split; auto. split; auto. eapply nth_error_In; eauto.
        * apply nth_error_None in Et. assert (j < List.length (labels_of (i_args ia)))%nat by (apply nth_error_Some; congruence). lia.
  Qed.

  (* the same, from the before-side *)
  Lemma jump_shape_targets_r ib ia c t :
    jump_shape ib ia = true -> In t (targets lv ib c) ->
    exists j T, nth_error (labels_of (i_args ia)) j = Some T /\ nth_error (labels_of (i_args ib)) j = Some t /\ In T (targets lv ia c).
  Proof.
    unfold jump_shape, jnz_cond_ok. intros H. apply andb_true_iff in H as [H Hargs]. apply andb_true_iff in H as [Hop Hc].
    apply String.eqb_eq in Hop. pose proof (labels_shape _ _ Hargs) as HLL. unfold targets. rewrite <- Hop.
    destruct (String.eqb (i_op ib) "jmp").
    - destruct (i_args ib) as [|[| |lb] [|]]; simpl; try tauto. intros [HT|[]]; subst.
      destruct (i_args ia) as [|[| |la] [|? ?]]; simpl in Hargs; try discriminate Hargs.
      exists 0%nat, la. simpl. auto.
    - destruct (String.eqb (i_op ib) "jnz").
      + destruct (i_args ib) as [|cb [|[| |tb] [|[| |fb] [|]]]]; simpl; try tauto. intros [HT|[]].
        destruct (i_args ia) as [|ca [|xa [|ya [|? ?]]]]; simpl in Hargs; try discriminate Hargs; bsplit.
        destruct xa as [| |ta]; try discriminate. destruct ya as [| |fa]; try discriminate.
        rename Hb into H1.
        assert (cb = ca /\ labels_of [cb] = []) as [E EL].
        { destruct cb, ca; simpl in H1, Hc; try discriminate;
            [apply Z.eqb_eq in H1 | apply N.eqb_eq in H1]; split; auto; congruence. }
        subst cb. destruct ca; try discriminate EL; simpl in *;
          match goal with [ H : (if (?v =? 0)%Z then _ else _) = _ |- _ ] => destruct (v =? 0)%Z end; subst;
          first [ (exists 1%nat, fa; simpl; now auto) | (exists 0%nat, ta; simpl; now auto) ].
      + destruct (String.eqb (i_op ib) "djmp"); simpl; try tauto. intros HT.
        apply In_nth_error in HT as [j Hj]. destruct (nth_error (labels_of (i_args ia)) j) as [T|] eqn:Et.
        * exists j, T. split; auto. split; auto. eapply nth_error_In; eauto.
        * apply nth_error_None in Et. assert (j < List.length (labels_of (i_args ib)))%nat by (apply nth_error_Some; congruence). lia.
  Qed.
End JUMPS.

Lemma last_inst_nth (l : list inst) k x : nth_error l k = Some x -> S k = List.length l -> last_inst l = Some x.
Proof.
  intros H HL. destruct (@exists_last _ l) as [p [y E]]; [intros E; subst; destruct k; discriminate|].
  subst l. rewrite app_length in HL. simpl in HL. assert (k = List.length p) by lia. subst k.
  rewrite nth_app_last' in H. inversion H; subst. apply last_inst_app.
Qed.

Lemma icorrs_spec md fb : forall ga, icorrs md fb ga = true ->
  List.length fb = List.length ga /\
  forall k ib ia, nth_error fb k = Some ib -> nth_error ga k = Some ia ->
    if Nat.eqb (S k) (List.length fb) && is_jump ib then jump_shape ib ia = true else icorr md ib ia = true.
Proof.
  induction fb as [|ib0 tb IH]; intros [|ia0 ta] H; simpl in H; try discriminate.
  - split; auto. intros [|k]; discriminate.
  - destruct tb as [|x tb'].
    + apply andb_true_iff in H as [Hn H]. destruct ta; try discriminate. split; auto.
      intros [|k] ib ia Hb Ha; simpl in *; [|destruct k; discriminate]. inversion Hb; inversion Ha; subst.
      destruct (is_jump ib); auto.
    + apply andb_true_iff in H as [H1 H2]. destruct (IH _ H2) as [HL HP]. split; [simpl in *; lia|].
      intros [|k] ib ia Hb Ha.
      * simpl in Hb, Ha. inversion Hb; inversion Ha; subst. simpl. exact H1.
      * simpl in Hb, Ha. specialize (HP k ib ia Hb Ha). exact HP.
Qed.

Lemma phis_in_ok_nth fb : forall ga a0 p' k ib, phis_in_ok fb ga a0 p' = true -> nth_error fb k = Some ib -> is_phi ib = true ->
  exists ia, nth_error ga k = Some ia /\
    if is_phi ia then phi_src (i_args ia) a0 = phi_src (i_args ib) p'
    else exists v, i_args ia = [v] /\ phi_src (i_args ib) p' = Some v.
Proof.
  induction fb as [|ib0 tb IH]; intros ga a0 p' k ib H Hn Hp; [destruct k; discriminate|].
  simpl in H. destruct ga as [|ia0 ta].
  - apply negb_true_iff in H. exfalso. assert (E : existsb is_phi (ib0 :: tb) = true); [|simpl in E; congruence].
    apply existsb_exists. exists ib. split; auto. eapply nth_error_In; eauto.
  - apply andb_true_iff in H as [H1 H2]. destruct k.
    + simpl in Hn. inversion Hn; subst ib0. exists ia0. split; auto. rewrite Hp in H1.
      destruct (is_phi ia0).
      * now apply opt_operand_eqb_eq in H1.
      * destruct (i_args ia0) as [|v [|]]; try discriminate. exists v. split; auto. now apply opt_operand_eqb_eq in H1.
    + simpl in Hn. simpl. eapply IH; eauto.
Qed.

Section CHAIN.
  Variable M : Type.
  Variable osem : string -> list Z -> M -> list Z -> M -> Prop.
  Variable lv : N -> Z.
  Variables (f g : func) (ch : list (list N)).
  Hypothesis HC : chain_check f g ch = true.
  Notation step := (step M osem lv).
  Notation steps := (steps M osem lv).

  Lemma HC_parts :
    List.length g = List.length f /\ nth_block g 0 <> [] /\ existsb is_phi (nth_block f 0) = false /\
    forall a, nth_block g a <> [] ->
      seg_ok f None a (chain_of ch a) (nth_block g a) = true /\ edges_ok f g a (last (chain_of ch a) a) = true.
  Proof.
    unfold chain_check in HC. apply andb_true_iff in HC as [H0 Hall]. apply andb_true_iff in H0 as [H0 Hf0].
    apply andb_true_iff in H0 as [HL Hg0].
    apply Nat.eqb_eq in HL. split; auto. split; [intros E; rewrite E in Hg0; discriminate|].
    split; [now apply negb_true_iff in Hf0|].
    intros a Ha. pose proof (nth_block_in_range _ _ Ha) as Hr.
    pose proof (forallb_seq _ _ Hall (N.to_nat a)) as H. cbv beta zeta in H. rewrite N2Nat.id in H.
    unfold func, block in *. specialize (H ltac:(lia)). apply orb_true_iff in H as [H|H].
    - destruct (nth_block g a); [congruence | discriminate].
    - now apply andb_true_iff in H.
  Qed.

  Lemma seg_ok_cons md b b' cs ga :
    seg_ok f md b (b' :: cs) ga =
    match split_last (nth_block f b) with
    | Some (pre, lst) =>
      jump_total lst &&
      match joint_preds f b (labels_of (i_args lst)) b' with
      | Some ps => forall2b (icorr md) pre (firstn (List.length pre) ga) && seg_ok f (Some ps) b' cs (skipn (List.length pre) ga)
      | None => false
      end
    | None => false
    end.
  Proof. reflexivity. Qed.

  Lemma seg_joint md b b' cs ga :
    seg_ok f md b (b' :: cs) ga = true ->
    exists pre lst ps, nth_block f b = pre ++ [lst] /\ jump_total lst = true /\
      joint_preds f b (labels_of (i_args lst)) b' = Some ps /\
      forall2b (icorr md) pre (firstn (List.length pre) ga) = true /\
      seg_ok f (Some ps) b' cs (skipn (List.length pre) ga) = true.
  Proof.
    rewrite seg_ok_cons. destruct (split_last (nth_block f b)) as [[pre lst]|] eqn:E; try discriminate.
    apply split_last_spec in E. intros H. apply andb_true_iff in H as [H1 H2].
    destruct (joint_preds f b (labels_of (i_args lst)) b') as [ps|] eqn:Ej; try discriminate.
    apply andb_true_iff in H2 as [H2 H3]. exists pre, lst, ps. auto.
  Qed.

  Inductive sits (a : N) : nat -> option (list N) -> N -> list N -> Prop :=
  | sits_head : nth_block g a <> [] -> sits a 0 None a (chain_of ch a)
  | sits_next off md b b' cs pre lst ps :
      sits a off md b (b' :: cs) -> nth_block f b = pre ++ [lst] ->
      joint_preds f b (labels_of (i_args lst)) b' = Some ps -> sits a (off + List.length pre) (Some ps) b' cs.

  Lemma app_last_inj {A} (p1 p2 : list A) x1 x2 : p1 ++ [x1] = p2 ++ [x2] -> p1 = p2 /\ x1 = x2.
  Proof. intros H. apply app_inj_tail in H. exact H. Qed.

  Lemma sits_seg a off md b cs :
    sits a off md b cs -> seg_ok f md b cs (skipn off (nth_block g a)) = true /\ (off <= List.length (nth_block g a))%nat.
  Proof.
    induction 1 as [Hne | off md b b' cs pre lst ps Hs [IH IHo] Hfb Hj].
    - simpl. split; [|lia]. destruct HC_parts as [_ [_ [_ H]]]. now apply H.
    - destruct (seg_joint _ _ _ _ _ IH) as [pre2 [lst2 [ps2 [E [Hjt [Hj2 [Hf2 Hs2]]]]]]].
      rewrite Hfb in E. apply app_last_inj in E as [E1 E2]. subst pre2 lst2. rewrite Hj in Hj2. inversion Hj2; subst ps2.
      rewrite skipn_skipn' in Hs2. split; auto.
      apply forall2b_length in Hf2. rewrite firstn_length, skipn_length in Hf2. lia.
  Qed.

  Lemma sits_head_inv a off b cs : sits a off None b cs -> off = 0%nat /\ b = a /\ cs = chain_of ch a /\ nth_block g a <> [].
  Proof. intros H. inversion H; subst; auto. Qed.

  Lemma sits_last a off md b cs : sits a off md b cs -> last (chain_of ch a) a = last cs b.
  Proof.
    induction 1; auto. rewrite IHsits. simpl. destruct cs as [|n cs]; [reflexivity|].
    clear. revert n. induction cs as [|x t IH]; intros n; [reflexivity|]. simpl in *. apply IH.
  Qed.

  (* positions of a block that ends the chain *)
  Lemma pos_end a off md b :
    sits a off md b [] ->
    List.length (nth_block g a) = (off + List.length (nth_block f b))%nat /\
    forall kb ib, nth_error (nth_block f b) kb = Some ib ->
      exists ia, nth_error (nth_block g a) (off + kb) = Some ia /\
        if Nat.eqb (S kb) (List.length (nth_block f b)) && is_jump ib then jump_shape ib ia = true else icorr md ib ia = true.
  Proof.
    intros Hs. destruct (sits_seg _ _ _ _ _ Hs) as [H Ho]. simpl in H. destruct (icorrs_spec _ _ _ H) as [HL HP].
    rewrite skipn_length in HL. split; [lia|].
    intros kb ib Hb. destruct (nth_error (nth_block g a) (off + kb)) as [ia|] eqn:Ea.
    - exists ia. split; auto. apply (HP kb ib ia Hb). now rewrite nth_error_skipn'.
    - apply nth_error_None in Ea. assert (kb < List.length (nth_block f b))%nat by (apply nth_error_Some; congruence). lia.
  Qed.

  (* positions of a block that is followed by another one *)
  Lemma pos_mid a off md b b' cs :
    sits a off md b (b' :: cs) ->
    exists pre lst ps, nth_block f b = pre ++ [lst] /\ jump_total lst = true /\
      joint_preds f b (labels_of (i_args lst)) b' = Some ps /\
      (off + List.length pre <= List.length (nth_block g a))%nat /\
      forall kb ib, nth_error pre kb = Some ib ->
        exists ia, nth_error (nth_block g a) (off + kb) = Some ia /\ icorr md ib ia = true.
  Proof.
    intros Hs. destruct (sits_seg _ _ _ _ _ Hs) as [H Ho].
    destruct (seg_joint _ _ _ _ _ H) as [pre [lst [ps [E [Hjt [Hj [Hf Hs2]]]]]]].
    exists pre, lst, ps. repeat split; auto.
    - apply forall2b_length in Hf. rewrite firstn_length, skipn_length in Hf. lia.
    - intros kb ib Hb. destruct (forall2b_nth_ex _ _ _ _ _ Hf Hb) as [ia [Ha Hc]].
      assert (kb < List.length pre)%nat by (apply nth_error_Some; congruence).
      rewrite nth_error_firstn', nth_error_skipn' in Ha by auto. eauto.
  Qed.

  Lemma joint_preds_spec b ls b' : forall ps, joint_preds f b ls b' = Some ps ->
    forall l, In l ls -> exists p, thread f (List.length f) b l b' = Some p /\ In p ps.
  Proof.
    induction ls as [|l0 t IH]; intros ps H l Hl; [destruct Hl|]. simpl in H.
    destruct (thread f (List.length f) b l0 b') as [p|] eqn:Et; try discriminate.
    destruct (joint_preds f b t b') as [ps'|] eqn:Ej; try discriminate. inversion H; subst.
    destruct Hl as [Hl|Hl].
    - subst. exists p. split; auto. now left.
    - destruct (IH _ eq_refl _ Hl) as [p2 [H1 H2]]. exists p2. split; auto. now right.
  Qed.

  Lemma empty_jmp_spec e t : empty_jmp f e = Some t -> exists ins, nth_block f e = [ins] /\ uncond_target ins = Some t.
  Proof. unfold empty_jmp. destruct (nth_block f e) as [|ins [|]]; try discriminate. eauto. Qed.

  Lemma thread_steps n : forall pe e b p' c m,
    thread f n pe e b = Some p' -> steps (f) (Run e 0 (Some pe) c m) [] (Run b 0 (Some p') c m).
  Proof.
    induction n as [|n IH]; intros pe e b p' c m H; simpl in H.
    - destruct (N.eqb e b) eqn:E; try discriminate. apply N.eqb_eq in E. inversion H; subst. constructor.
    - destruct (N.eqb e b) eqn:E.
      + apply N.eqb_eq in E. inversion H; subst. constructor.
      + destruct (empty_jmp f e) as [t|] eqn:Ee; try discriminate. destruct (empty_jmp_spec _ _ Ee) as [ins [Hb Hu]].
        destruct (uncond_target_spec lv ins t c Hu) as [Hj Ht].
        eapply steps_nil_trans; [|eapply IH; eauto]. apply steps_one. eapply s_jump; eauto.
        * rewrite Hb. reflexivity.
        * rewrite Hb. reflexivity.
        * rewrite Ht. now left.
  Qed.

  (* ---------------------------------------------------------------- the relation *)
  Definition predrel (a : N) (md : option (list N)) (pa pb : option N) : Prop :=
    match md with
    | Some ps => exists q, pb = Some q /\ In q ps
    | None => (pa = None /\ pb = None /\ a = 0%N) \/
              (exists a0 p', pa = Some a0 /\ pb = Some p' /\ phis_in_ok (nth_block f a) (nth_block g a) a0 p' = true)
    end.

  Inductive Rc : conf M -> conf M -> Prop :=
  | Rc_in a off md b cs kb pa pb c m :
      sits a off md b cs -> (cs <> [] -> S kb <= List.length (nth_block f b))%nat -> predrel a md pa pb ->
      Rc (Run a (off + kb) pa c m) (Run b kb pb c m)
  | Rc_tr a off md b cs pa pe e p' n c m :
      sits a off md b cs -> thread f n pe e b = Some p' -> predrel a md pa (Some p') ->
      Rc (Run a off pa c m) (Run e 0 (Some pe) c m).

  Lemma sits_mid_nonempty a off md b b' cs : sits a off md b (b' :: cs) -> (1 <= List.length (nth_block f b))%nat.
  Proof. intros H. destruct (pos_mid _ _ _ _ _ _ H) as [pre [lst [ps [E _]]]]. rewrite E, app_length. simpl. lia. Qed.

  (* the original function catches up: it leaves the positions that have no counterpart in the merged block *)
  Lemma canon : forall cs a off md b kb pa pb c m ia,
    sits a off md b cs -> (cs <> [] -> S kb <= List.length (nth_block f b))%nat -> predrel a md pa pb ->
    nth_error (nth_block g a) (off + kb) = Some ia ->
    exists off2 md2 b2 cs2 kb2 pb2,
      steps f (Run b kb pb c m) [] (Run b2 kb2 pb2 c m) /\ sits a off2 md2 b2 cs2 /\ (off + kb = off2 + kb2)%nat /\
      predrel a md2 pa pb2 /\ (exists ib, nth_error (nth_block f b2) kb2 = Some ib) /\
      (cs2 <> [] -> S kb2 < List.length (nth_block f b2))%nat.
  Proof.
    induction cs as [|b' cs IH]; intros a off md b kb pa pb c m ia Hs Hk Hp Hia.
    - exists off, md, b, [], kb, pb. split; [constructor|]. split; auto. split; auto. split; auto. split; [|congruence].
      destruct (pos_end _ _ _ _ Hs) as [HL _].
      assert (off + kb < List.length (nth_block g a))%nat by (apply nth_error_Some; congruence).
      destruct (nth_error (nth_block f b) kb) eqn:E; eauto. apply nth_error_None in E. lia.
    - destruct (pos_mid _ _ _ _ _ _ Hs) as [pre [lst [ps [E [Hjt [Hj [Hlen Hpos]]]]]]].
      specialize (Hk ltac:(congruence)). rewrite E, app_length in Hk. simpl in Hk.
      destruct (Nat.lt_ge_cases kb (List.length pre)) as [Hlt|Hge].
      + exists off, md, b, (b' :: cs), kb, pb. split; [constructor|]. split; auto. split; auto. split; auto. split.
        * destruct (nth_error pre kb) eqn:E2; [|apply nth_error_None in E2; lia]. eexists. rewrite E, nth_error_app1; eauto.
        * intros _. rewrite E, app_length. simpl. lia.
      + assert (kb = List.length pre) by lia. subst kb.
        destruct (jump_total_targets lv lst c Hjt) as [t Ht].
        destruct (joint_preds_spec _ _ _ _ Hj t (targets_labels lv _ _ _ Ht)) as [p [Hth Hin]].
        assert (Hs2 : sits a (off + List.length pre) (Some ps) b' cs) by (eapply sits_next; eauto).
        destruct (IH a (off + List.length pre)%nat (Some ps) b' 0%nat pa (Some p) c m ia Hs2) as
            [off2 [md2 [b2 [cs2 [kb2 [pb2 [Hst [Hs3 [He [Hp3 [Hib Hc]]]]]]]]]]].
        * intros Hne. destruct cs; [congruence|]. eapply sits_mid_nonempty; eauto.
        * simpl. eauto.
        * now rewrite Nat.add_0_r.
        * exists off2, md2, b2, cs2, kb2, pb2. split; [|split; auto; split; [lia|auto]].
          eapply steps_nil_trans; [|eapply steps_nil_trans; [eapply thread_steps; eauto | exact Hst]].
          apply steps_one. eapply s_jump; eauto.
          -- rewrite E. apply nth_app_last'.
          -- rewrite E, app_length. simpl. lia.
          -- now apply jump_total_is_jump.
  Qed.

  Lemma pos_corr a off md b cs kb ib :
    sits a off md b cs -> nth_error (nth_block f b) kb = Some ib -> (cs <> [] -> S kb < List.length (nth_block f b))%nat ->
    exists ia, nth_error (nth_block g a) (off + kb) = Some ia /\
      ((cs = [] /\ S kb = List.length (nth_block f b) /\ is_jump ib = true /\ jump_shape ib ia = true /\
        S (off + kb) = List.length (nth_block g a)) \/ icorr md ib ia = true).
  Proof.
    intros Hs Hb Hc. destruct cs as [|b' cs].
    - destruct (pos_end _ _ _ _ Hs) as [HL HP]. destruct (HP _ _ Hb) as [ia [Ha Hx]]. exists ia. split; auto.
      destruct (Nat.eqb (S kb) (List.length (nth_block f b))) eqn:E1; simpl in Hx; auto.
      destruct (is_jump ib) eqn:E2; auto. apply Nat.eqb_eq in E1. left. repeat split; auto. lia.
    - destruct (pos_mid _ _ _ _ _ _ Hs) as [pre [lst [ps [E [_ [_ [_ HP]]]]]]].
      specialize (Hc ltac:(congruence)). rewrite E, app_length in Hc. simpl in Hc.
      rewrite E, nth_error_app1 in Hb by lia. destruct (HP _ _ Hb) as [ia [Ha Hx]]. eauto.
  Qed.

  Lemma icorr_nonphi md ib ia : icorr md ib ia = true -> is_phi ib = false -> ia = ib /\ is_jump ib = false.
  Proof.
    unfold icorr. intros H Hp. rewrite Hp in H. apply andb_true_iff in H as [H1 H2]. apply negb_true_iff in H1.
    apply inst_eqb_eq in H2. auto.
  Qed.
  Lemma icorr_phi_joint ps ib ia : icorr (Some ps) ib ia = true -> is_phi ib = true ->
    exists o v, i_outs ib = [o] /\ ia = mkI "assign" [v] [o] /\ ps <> [] /\ (forall p, In p ps -> phi_src (i_args ib) p = Some v).
  Proof.
    unfold icorr. intros H Hp. rewrite Hp in H. destruct (i_outs ib) as [|o [|]]; try discriminate.
    destruct (i_args ia) as [|v [|]] eqn:Ea; try discriminate.
    apply andb_true_iff in H as [H H3]. apply andb_true_iff in H as [H1 H2]. apply inst_eqb_eq in H1.
    exists o, v. repeat split; auto.
    - intros E. subst. discriminate.
    - intros p Hi. rewrite forallb_forall in H3. specialize (H3 _ Hi). now apply opt_operand_eqb_eq in H3.
  Qed.
  Lemma icorr_phi_head ib ia : icorr None ib ia = true -> is_phi ib = true ->
    exists o, i_outs ib = [o] /\ i_outs ia = [o] /\ (is_phi ia = true \/ (i_op ia = "assign" /\ exists v, i_args ia = [v])).
  Proof.
    unfold icorr. intros H Hp. rewrite Hp in H. destruct (i_outs ib) as [|o [|]]; try discriminate.
    apply andb_true_iff in H as [H1 H2]. apply (list_eqb_eq _ N_eqb_eq') in H1. exists o. repeat split; auto.
    apply orb_true_iff in H2 as [H2|H2]; auto. right. apply andb_true_iff in H2 as [H2 H3]. apply String.eqb_eq in H2.
    split; auto. destruct (i_args ia) as [|v [|]]; try discriminate. eauto.
  Qed.

  Lemma head_phi_corr a pa pb kb ib ia :
    nth_block g a <> [] -> predrel a None pa pb -> nth_error (nth_block f a) kb = Some ib -> is_phi ib = true ->
    nth_error (nth_block g a) kb = Some ia ->
    exists a0 p', pa = Some a0 /\ pb = Some p' /\
      if is_phi ia then phi_src (i_args ia) a0 = phi_src (i_args ib) p'
      else exists v, i_args ia = [v] /\ phi_src (i_args ib) p' = Some v.
  Proof.
    intros Hne [[H1 [H2 H3]] | [a0 [p' [H1 [H2 H3]]]]] Hb Hp Ha.
    - subst. destruct HC_parts as [_ [_ [H0 _]]]. exfalso.
      assert (existsb is_phi (nth_block f 0) = true); [|congruence].
      apply existsb_exists. exists ib. split; auto. eapply nth_error_In; eauto.
    - exists a0, p'. split; auto. split; auto.
      destruct (phis_in_ok_nth _ _ _ _ _ _ H3 Hb Hp) as [ia' [Ha' Hc]]. rewrite Ha in Ha'. inversion Ha'; subst. exact Hc.
  Qed.

  (* the edge taken by corresponding jumps *)
  Lemma edge_corr a off md b kb ib ia j T t :
    sits a off md b [] -> nth_error (nth_block f b) kb = Some ib -> S kb = List.length (nth_block f b) -> is_jump ib = true ->
    nth_error (nth_block g a) (off + kb) = Some ia -> S (off + kb) = List.length (nth_block g a) ->
    nth_error (labels_of (i_args ia)) j = Some T -> nth_error (labels_of (i_args ib)) j = Some t ->
    exists p', thread f (List.length f) b t T = Some p' /\ nth_block g T <> [] /\
               phis_in_ok (nth_block f T) (nth_block g T) a p' = true.
  Proof.
    intros Hs Hb HLb Hj Ha HLa HT Ht.
    assert (Hne : nth_block g a <> []) by (intros E; rewrite E in Ha; destruct (off + kb)%nat; discriminate).
    destruct HC_parts as [_ [_ [_ H]]]. destruct (H _ Hne) as [_ He]. rewrite (sits_last _ _ _ _ _ Hs) in He. simpl in He.
    unfold edges_ok in He. rewrite (last_inst_nth _ _ _ Ha HLa), (last_inst_nth _ _ _ Hb HLb), Hj in He.
    pose proof (forall2b_nth _ _ _ _ _ _ He HT Ht) as Hx. unfold edge_ok in Hx.
    destruct (thread f (List.length f) b t T) as [p'|]; try discriminate. apply andb_true_iff in Hx as [H1 H2].
    exists p'. repeat split; auto. intros E. rewrite E in H1. discriminate.
  Qed.

  Lemma Rc_in_S a off md b cs kb pa pb c m :
    sits a off md b cs -> (cs <> [] -> S (S kb) <= List.length (nth_block f b))%nat -> predrel a md pa pb ->
    Rc (Run a (S (off + kb)) pa c m) (Run b (S kb) pb c m).
  Proof. intros Hs Hk Hp. rewrite <- Nat.add_succ_r. eapply Rc_in; eauto. Qed.

  (* one step of the merged function from a caught-up pair *)
  Lemma fwd_canon a off md b cs kb pa pb c m ev X' :
    sits a off md b cs -> (cs <> [] -> S kb < List.length (nth_block f b))%nat -> predrel a md pa pb ->
    (exists ib, nth_error (nth_block f b) kb = Some ib) ->
    step g (Run a (off + kb) pa c m) ev X' ->
    exists Y', steps f (Run b kb pb c m) ev Y' /\ Rc X' Y'.
  Proof.
    intros Hs Hc Hp [ib Hb] Hst.
    destruct (pos_corr _ _ _ _ _ _ _ Hs Hb Hc) as [ia [Ha [[Ecs [HLb [Hj [Hsh HLa]]]] | Hic]]].
    - (* terminating jump *)
      subst cs.
      assert (Hja : is_jump ia = true).
      { unfold jump_shape in Hsh. apply andb_true_iff in Hsh as [Hsh _]. apply andb_true_iff in Hsh as [Hop _].
        apply String.eqb_eq in Hop. unfold is_jump in *. now rewrite <- Hop. }
      destruct (jump_step_inv _ _ _ _ _ _ _ _ _ _ _ _ Ha Hja Hst) as [He [_ [T [HT HX]]]]. subst ev X'.
      destruct (jump_shape_targets lv _ _ _ _ Hsh HT) as [j [t [H1 [H2 H3]]]].
      destruct (edge_corr _ _ _ _ _ _ _ _ _ _ Hs Hb HLb Hj Ha HLa H1 H2) as [p' [Hth [Hne Hph]]].
      eexists. split; [apply steps_one; eapply s_jump; eauto|].
      eapply Rc_tr; eauto. { now apply sits_head. } simpl. right. eauto.
    - destruct (is_phi ib) eqn:Ephi.
      + destruct md as [ps|].
        * destruct (icorr_phi_joint _ _ _ Hic Ephi) as [o [v [Ho [Eia [Hne Hall]]]]]. subst ia.
          destruct (assign_step_inv _ _ _ _ _ _ _ _ _ _ _ _ _ _ Ha eq_refl eq_refl eq_refl Hst) as [He HX]. subst ev X'.
          destruct Hp as [q [Hq Hin]]. subst pb.
          eexists. split; [apply steps_one; eapply phi_step; eauto|]. eapply Rc_in_S; [exact Hs | intros Hn; specialize (Hc Hn); lia | simpl; eauto].
        * destruct (sits_head_inv _ _ _ _ Hs) as [Eo [Eb [Ecs Hne]]]. subst off b.
          destruct (icorr_phi_head _ _ Hic Ephi) as [o [Ho [Hoa Hk]]].
          destruct (head_phi_corr _ _ _ _ _ _ Hne Hp Hb Ephi Ha) as [a0 [p' [Epa [Epb Hcorr]]]]. subst pa pb.
          destruct Hk as [Hk | [Hop [v Hv]]].
          -- rewrite Hk in Hcorr. destruct (phi_step_inv _ _ _ _ _ _ _ _ _ _ _ _ Ha Hk Hst) as [q [o' [v [Hq [Ho' [Hsrc [He HX]]]]]]].
             inversion Hq; subst q. rewrite Hoa in Ho'. inversion Ho'; subst o'. subst ev X'. rewrite Hcorr in Hsrc.
             eexists. split; [apply steps_one; eapply phi_step; eauto|]. eapply Rc_in_S; [exact Hs | intros Hn; specialize (Hc Hn); lia | auto].
          -- assert (Hnp : is_phi ia = false) by (unfold is_phi; rewrite Hop; reflexivity). rewrite Hnp in Hcorr.
             destruct Hcorr as [v' [Hv' Hsrc]]. rewrite Hv in Hv'. inversion Hv'; subst v'.
             destruct (assign_step_inv _ _ _ _ _ _ _ _ _ _ _ _ _ _ Ha Hop Hv Hoa Hst) as [He HX]. subst ev X'.
             eexists. split; [apply steps_one; eapply phi_step; eauto|]. eapply Rc_in_S; [exact Hs | intros Hn; specialize (Hc Hn); lia | auto].
      + destruct (icorr_nonphi _ _ _ Hic Ephi) as [E Hnj]. subst ia.
        destruct (inst_step_inv _ _ _ _ _ _ _ _ _ _ _ _ Ha Ephi Hnj Hst) as [outv [m' [He HX]]]. subst X'.
        eexists. split; [apply steps_one; eapply s_inst; eauto|]. eapply Rc_in_S; [exact Hs | intros Hn; specialize (Hc Hn); lia | auto].
  Qed.

  Lemma chain_fwd : sim M osem lv g f Rc.
  Proof.
    intros X Y ev X' HR Hst.
    assert (exists a off md b cs kb pa pb c m,
              X = Run a (off + kb) pa c m /\ sits a off md b cs /\ (cs <> [] -> S kb <= List.length (nth_block f b))%nat /\
              predrel a md pa pb /\ steps f Y [] (Run b kb pb c m)) as
        [a [off [md [b [cs [kb [pa [pb [c [m [EX [Hs [Hk [Hp Hpre]]]]]]]]]]]]]].
    { destruct HR as [a off md b cs kb pa pb c m Hs Hk Hp | a off md b cs pa pe e p' n c m Hs Hth Hp].
      - do 10 eexists. split; [reflexivity|]. repeat split; eauto. constructor.
      - exists a, off, md, b, cs, 0%nat, pa, (Some p'), c, m. rewrite Nat.add_0_r. repeat split; auto.
        + intros Hn. destruct cs; [congruence|]. eapply sits_mid_nonempty; eauto.
        + eapply thread_steps; eauto. }
    subst X. destruct (step_pos' _ _ _ _ _ _ _ _ _ _ _ Hst) as [ia Hia].
    destruct (canon cs a off md b kb pa pb c m ia Hs Hk Hp Hia) as
        [off2 [md2 [b2 [cs2 [kb2 [pb2 [Hst2 [Hs2 [He [Hp2 [Hib Hc2]]]]]]]]]]].
    rewrite He in Hst.
    destruct (fwd_canon _ _ _ _ _ _ _ _ _ _ _ _ Hs2 Hc2 Hp2 Hib Hst) as [Y' [HY HR']].
    exists Y'. split; auto. eapply steps_nil_trans; [exact Hpre|]. eapply steps_nil_trans; eauto.
  Qed.

  (* one step of the original function from a pair related by Rc_in *)
  Lemma bwd_in a off md b cs kb pa pb c m ev Y' :
    sits a off md b cs -> (cs <> [] -> S kb <= List.length (nth_block f b))%nat -> predrel a md pa pb ->
    step f (Run b kb pb c m) ev Y' ->
    exists X', steps g (Run a (off + kb) pa c m) ev X' /\ Rc X' Y'.
  Proof.
    intros Hs Hk Hp Hst. destruct (step_pos' _ _ _ _ _ _ _ _ _ _ _ Hst) as [ib Hb].
    assert (Hcase : (cs <> [] -> S kb < List.length (nth_block f b))%nat \/
                    (exists b' cs' pre lst ps, cs = b' :: cs' /\ nth_block f b = pre ++ [lst] /\ kb = List.length pre /\
                       jump_total lst = true /\ joint_preds f b (labels_of (i_args lst)) b' = Some ps)).
    { destruct cs as [|b' cs']; [left; congruence|].
      destruct (pos_mid _ _ _ _ _ _ Hs) as [pre [lst [ps [E [Hjt [Hj _]]]]]].
      specialize (Hk ltac:(congruence)). rewrite E, app_length in *. simpl in *.
      destruct (Nat.eq_dec kb (List.length pre)); [right | left; intros _; lia].
      exists b', cs', pre, lst, ps. auto. }
    destruct Hcase as [Hc | [b' [cs' [pre [lst [ps [Ecs [Efb [Ekb [Hjt Hj]]]]]]]]]].
    - destruct (pos_corr _ _ _ _ _ _ _ Hs Hb Hc) as [ia [Ha [[Ecs [HLb [Hj [Hsh HLa]]]] | Hic]]].
      + subst cs.
        destruct (jump_step_inv _ _ _ _ _ _ _ _ _ _ _ _ Hb Hj Hst) as [He [_ [t [Ht HY]]]]. subst ev Y'.
        destruct (jump_shape_targets_r lv _ _ _ _ Hsh Ht) as [j [T [H1 [H2 H3]]]].
        destruct (edge_corr _ _ _ _ _ _ _ _ _ _ Hs Hb HLb Hj Ha HLa H1 H2) as [p' [Hth [Hne Hph]]].
        assert (Hja : is_jump ia = true).
        { unfold jump_shape in Hsh. apply andb_true_iff in Hsh as [Hsh _]. apply andb_true_iff in Hsh as [Hop _].
          apply String.eqb_eq in Hop. unfold is_jump in *. now rewrite <- Hop. }
        eexists. split; [apply steps_one; eapply s_jump; eauto|].
        eapply Rc_tr; eauto. { now apply sits_head. } simpl. right. eauto.
      + destruct (is_phi ib) eqn:Ephi.
        * destruct (phi_step_inv _ _ _ _ _ _ _ _ _ _ _ _ Hb Ephi Hst) as [q [o [v [Hq [Ho [Hsrc [He HY]]]]]]]. subst pb ev Y'.
          destruct md as [ps|].
          -- destruct (icorr_phi_joint _ _ _ Hic Ephi) as [o' [v' [Ho' [Eia [Hne Hall]]]]]. subst ia.
             rewrite Ho in Ho'. inversion Ho'; subst o'. destruct Hp as [q' [Hq' Hin]]. inversion Hq'; subst q'.
             rewrite (Hall _ Hin) in Hsrc. inversion Hsrc; subst v'.
             eexists. split; [apply steps_one; eapply (assign_step M osem lv g); eauto; reflexivity|]. eapply Rc_in_S; [exact Hs | intros Hn; specialize (Hc Hn); lia | simpl; eauto].
          -- destruct (sits_head_inv _ _ _ _ Hs) as [Eo [Eb [Ecs Hne]]]. subst off b.
             destruct (icorr_phi_head _ _ Hic Ephi) as [o' [Ho' [Hoa Hk']]]. rewrite Ho in Ho'. inversion Ho'; subst o'.
             destruct (head_phi_corr _ _ _ _ _ _ Hne Hp Hb Ephi Ha) as [a0 [p' [Epa [Epb Hcorr]]]]. subst pa. inversion Epb; subst p'.
             destruct Hk' as [Hk' | [Hop [v' Hv]]].
             ++ rewrite Hk' in Hcorr. rewrite <- Hcorr in Hsrc.
                eexists. split; [apply steps_one; eapply phi_step; eauto|]. eapply Rc_in_S; [exact Hs | intros Hn; specialize (Hc Hn); lia | auto].
             ++ assert (Hnp : is_phi ia = false) by (unfold is_phi; rewrite Hop; reflexivity). rewrite Hnp in Hcorr.
                destruct Hcorr as [v2 [Hv2 Hsrc2]]. rewrite Hv in Hv2. inversion Hv2; subst v2.
                rewrite Hsrc in Hsrc2. inversion Hsrc2; subst v'.
                eexists. split; [apply steps_one; eapply (assign_step M osem lv g); eauto|]. eapply Rc_in_S; [exact Hs | intros Hn; specialize (Hc Hn); lia | auto].
        * destruct (icorr_nonphi _ _ _ Hic Ephi) as [E Hnj]. subst ia.
          destruct (inst_step_inv _ _ _ _ _ _ _ _ _ _ _ _ Hb Ephi Hnj Hst) as [outv [m' [He HY]]]. subst Y'.
          eexists. split; [apply steps_one; eapply s_inst; eauto|]. eapply Rc_in_S; [exact Hs | intros Hn; specialize (Hc Hn); lia | auto].
    - (* the jump that was merged away: the merged function does not move *)
      subst cs kb. rewrite Efb, nth_app_last' in Hb. inversion Hb; subst ib.
      assert (Hb' : nth_error (nth_block f b) (List.length pre) = Some lst) by (rewrite Efb; apply nth_app_last').
      destruct (jump_step_inv _ _ _ _ _ _ _ _ _ _ _ _ Hb' (jump_total_is_jump _ Hjt) Hst) as [He [_ [t [Ht HY]]]]. subst ev Y'.
      destruct (joint_preds_spec _ _ _ _ Hj t (targets_labels lv _ _ _ Ht)) as [p [Hth Hin]].
      eexists. split; [constructor|].
      eapply Rc_tr; [eapply sits_next; eauto | eauto | simpl; eauto].
  Qed.

  Lemma chain_bwd : sim M osem lv f g (fun y x => Rc x y).
  Proof.
    intros Y X ev Y' HR Hst.
    destruct HR as [a off md b cs kb pa pb c m Hs Hk Hp | a off md b cs pa pe e p' n c m Hs Hth Hp].
    - eapply bwd_in; eauto.
    - destruct n as [|n]; simpl in Hth; destruct (N.eqb e b) eqn:E; try discriminate.
      + apply N.eqb_eq in E. inversion Hth; subst. rewrite <- (Nat.add_0_r off).
        eapply bwd_in; eauto. intros Hn. destruct cs; [congruence|]. eapply sits_mid_nonempty; eauto.
      + apply N.eqb_eq in E. inversion Hth; subst. rewrite <- (Nat.add_0_r off).
        eapply bwd_in; eauto. intros Hn. destruct cs; [congruence|]. eapply sits_mid_nonempty; eauto.
      + destruct (empty_jmp f e) as [t|] eqn:Ee; try discriminate. destruct (empty_jmp_spec _ _ Ee) as [ins [Hb Hu]].
        destruct (uncond_target_spec lv ins t c Hu) as [Hj Ht].
        assert (Hn : nth_error (nth_block f e) 0 = Some ins) by (rewrite Hb; reflexivity).
        destruct (jump_step_inv _ _ _ _ _ _ _ _ _ _ _ _ Hn Hj Hst) as [He [_ [t' [Ht' HY]]]]. subst ev Y'.
        rewrite Ht in Ht'. destruct Ht' as [Ht'|[]]. subst t'.
        eexists. split; [constructor|]. eapply Rc_tr; eauto.
  Qed.

  Theorem chain_bisimilar : bisimilar M osem lv g f.
  Proof.
    exists Rc. split; [|split; [apply chain_fwd | apply chain_bwd]].
    intros c m. destruct HC_parts as [_ [Hg0 _]].
    apply (Rc_in 0%N 0%nat None 0%N (chain_of ch 0) 0%nat None None c m).
    - now apply sits_head.
    - intros Hn. destruct (chain_of ch 0) eqn:E; [congruence|]. eapply sits_mid_nonempty. rewrite <- E. now apply sits_head.
    - simpl. left. auto.
  Qed.
  (* jump tables: entering the i-th table entry after the pass is related to entering the i-th entry before it *)
  Lemma chain_data_related db da :
    chain_data_check f g ch db da = true ->
    forall a Tb i tb ta c m, nth_block g a <> [] -> djmp_of (nth_block f (last (chain_of ch a) a)) = Some Tb ->
      nth_error db i = Some tb -> nth_error da i = Some ta -> In tb (labels_of (i_args Tb)) ->
      Rc (Run ta 0 (Some a) c m) (Run tb 0 (Some (last (chain_of ch a) a)) c m).
  Proof.
    intros H a Tb i tb ta c m Hne Hdj Hb Ha Hin. unfold chain_data_check in H.
    pose proof (nth_block_in_range _ _ Hne) as Hr. destruct HC_parts as [HL _].
    assert (Hr2 : (N.to_nat a < List.length f)%nat) by (clear - Hr HL; unfold func, block in *; lia).
    pose proof (forallb_seq _ _ H _ Hr2) as Hx. cbv beta zeta in Hx. rewrite N2Nat.id in Hx.
    apply orb_true_iff in Hx as [Hx|Hx]; [destruct (nth_block g a); [congruence|discriminate]|].
    rewrite Hdj in Hx. destruct (last_inst (nth_block g a)) as [Ta|]; try discriminate.
    unfold table_ok in Hx. pose proof (forall2b_nth _ _ _ _ _ _ Hx Hb Ha) as Hy. cbv beta in Hy.
    apply andb_true_iff in Hy as [_ Hy]. apply memN_In in Hin. rewrite Hin in Hy. simpl in Hy.
    unfold edge_ok in Hy. destruct (thread f (List.length f) (last (chain_of ch a) a) tb ta) as [p'|] eqn:Et; try discriminate.
    apply andb_true_iff in Hy as [H1 H2].
    eapply (Rc_tr ta 0 None ta (chain_of ch ta)); eauto.
    - apply sits_head. intros E. rewrite E in H1. discriminate.
    - simpl. right. eauto.
  Qed.

  Theorem chain_bisimulation_data db da :
    chain_data_check f g ch db da = true ->
    exists R, bisimulation M osem lv g f R /\
      forall a Tb i tb ta c m, nth_block g a <> [] -> djmp_of (nth_block f (last (chain_of ch a) a)) = Some Tb ->
        nth_error db i = Some tb -> nth_error da i = Some ta -> In tb (labels_of (i_args Tb)) ->
        R (Run ta 0 (Some a) c m) (Run tb 0 (Some (last (chain_of ch a) a)) c m).
  Proof.
    intros H. exists Rc. split; [|now apply chain_data_related].
    split; [|split; [apply chain_fwd | apply chain_bwd]].
    intros c m. destruct HC_parts as [_ [Hg0 _]].
    apply (Rc_in 0%N 0%nat None 0%N (chain_of ch 0) 0%nat None None c m).
    - now apply sits_head.
    - intros Hn. destruct (chain_of ch 0) eqn:E; [congruence|]. eapply sits_mid_nonempty. rewrite <- E. now apply sits_head.
    - simpl. left. auto.
  Qed.
End CHAIN.

Theorem chain_check_sound f g ch :
  chain_check f g ch = true -> forall M osem lv, bisimilar M osem lv g f.
Proof. intros H M osem lv. eapply chain_bisimilar; eauto. Qed.
