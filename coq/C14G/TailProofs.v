(* C14G — TailMergePass: tail_check f g al = true  ->  g and f are bisimilar (same observable traces).
   A merged block runs the keeper's code; the variables the block defines itself are renamed, everything it reads is
   defined in the block, and nothing runs after it (no jump), so the observable events are identical. *)
From Coq Require Import ZArith NArith Bool List String Lia.
From Verif Require Import Base.Word256 C14G.CfgSem C14G.CfgCheck C14G.CfgSemProofs.
Import ListNotations.
Open Scope string_scope.
Open Scope list_scope.

Lemma same_block_spec al fb : forall ga, same_block al fb ga = true ->
  List.length fb = List.length ga /\
  forall k ib ia, nth_error fb k = Some ib -> nth_error ga k = Some ia ->
    if Nat.eqb (S k) (List.length fb) && is_jump ib then jnz_cond_ok ib = true /\ ia = ren_inst al ib else ia = ib.
Proof.
  induction fb as [|ib0 tb IH]; intros [|ia0 ta] H; simpl in H; try discriminate.
  - split; auto. intros [|k]; discriminate.
  - destruct tb as [|x tb'].
    + apply andb_true_iff in H as [Hn H]. destruct ta; try discriminate. split; auto.
      intros [|k] ib ia Hb Ha; simpl in *; [|destruct k; discriminate]. inversion Hb; inversion Ha; subst.
      destruct (is_jump ib).
      * apply andb_true_iff in H as [H1 H2]. apply inst_eqb_eq in H2. auto.
      * apply inst_eqb_eq in H. auto.
    + apply andb_true_iff in H as [H1 H2]. destruct (IH _ H2) as [HL HP]. split; [simpl in *; lia|].
      intros [|k] ib ia Hb Ha.
      * simpl in Hb, Ha. inversion Hb; inversion Ha; subst. simpl. apply inst_eqb_eq in H1. auto.
      * simpl in Hb, Ha. specialize (HP k ib ia Hb Ha). exact HP.
Qed.

Lemma skipn_cons_nth {A} (l : list A) : forall k x t, skipn k l = x :: t -> nth_error l k = Some x /\ skipn (S k) l = t.
Proof.
  induction l as [|a l IH]; intros [|k] x t H; simpl in H; try discriminate.
  - inversion H; subst. auto.
  - apply IH in H as [H1 H2]. auto.
Qed.
Lemma nth_skipn_cons {A} (l : list A) : forall k x, nth_error l k = Some x -> skipn k l = x :: skipn (S k) l.
Proof.
  induction l as [|a l IH]; intros [|k] x H; simpl in H; try discriminate.
  - inversion H; subst. reflexivity.
  - apply IH in H. exact H.
Qed.

Section TAIL.
  Variable M : Type.
  Variable osem : string -> list Z -> M -> list Z -> M -> Prop.
  Variable lv : N -> Z.
  Variables (f g : func) (al : list N).
  Hypothesis HC : tail_check f g al = true.
  Notation step := (step M osem lv).
  Notation steps := (steps M osem lv).

  Definition Inv (pr : list (N * N)) (cb ca : cenv) : Prop := forall x x', In (x, x') pr -> cb x = ca x'.

  Lemma HC_parts :
    List.length g = List.length f /\ alias_of al 0 = 0%N /\
    forall b, (alias_of al b = b /\ same_block al (nth_block f b) (nth_block g b) = true) \/
              (alias_of al b <> b /\ alias_of al (alias_of al b) = alias_of al b /\
               alpha_ok [] (nth_block f b) (nth_block g (alias_of al b)) = true).
  Proof.
    unfold tail_check in HC. apply andb_true_iff in HC as [H0 Hall]. apply andb_true_iff in H0 as [H0 Ha0].
    apply andb_true_iff in H0 as [HL1 HL2]. apply Nat.eqb_eq in HL1, HL2. apply N.eqb_eq in Ha0.
    split; auto. split; auto. intros b.
    destruct (Nat.lt_ge_cases (N.to_nat b) (List.length f)) as [Hlt|Hge].
    - pose proof (forallb_seq _ _ Hall _ Hlt) as H. cbv beta zeta in H. rewrite N2Nat.id in H.
      destruct (N.eqb (alias_of al b) b) eqn:E.
      + apply N.eqb_eq in E. left. auto.
      + apply N.eqb_neq in E. right. apply andb_true_iff in H as [H H3]. apply andb_true_iff in H as [H1 H2].
        apply N.eqb_eq in H1. auto.
    - left. unfold alias_of, nth_block. unfold func, block in *. rewrite !nth_overflow by lia. auto.
  Qed.

  Inductive Rt : conf M -> conf M -> Prop :=
  | Rt_main b k p c m : alias_of al b = b -> Rt (Run b k p c m) (Run b k p c m)
  | Rt_alpha b k pa pb ca cb m pr :
      alpha_ok pr (skipn k (nth_block f b)) (skipn k (nth_block g (alias_of al b))) = true -> Inv pr cb ca ->
      Rt (Run (alias_of al b) k pa ca m) (Run b k pb cb m).

  Lemma oval_corr pr cb ca ob oa : op_corr pr ob oa = true -> Inv pr cb ca -> oval lv cb ob = oval lv ca oa.
  Proof.
    intros H HI. destruct ob, oa; simpl in H; try discriminate; simpl.
    - apply Z.eqb_eq in H. now subst.
    - apply existsb_exists in H as [[y y'] [Hin Hy]]. simpl in Hy. apply andb_true_iff in Hy as [H1 H2].
      apply N.eqb_eq in H1, H2. subst. now apply HI.
    - apply N.eqb_eq in H. now subst.
  Qed.
  Lemma ovals_corr pr cb ca args_b : forall args_a, forall2b (op_corr pr) args_b args_a = true -> Inv pr cb ca ->
    map (oval lv cb) args_b = map (oval lv ca) args_a.
  Proof.
    induction args_b as [|ob tb IH]; intros [|oa ta] H HI; simpl in H; try discriminate; auto.
    apply andb_true_iff in H as [H1 H2]. simpl. f_equal; eauto using oval_corr.
  Qed.

  (* the step of a renamed instruction *)
  Lemma alpha_step pr ib ia tb ta cb ca :
    alpha_ok pr (ib :: tb) (ia :: ta) = true -> Inv pr cb ca ->
    is_phi ib = false /\ is_jump ib = false /\ is_phi ia = false /\ is_jump ia = false /\
    (forall m outv m' ev, exec M osem lv ib cb m outv m' ev <-> exec M osem lv ia ca m outv m' ev) /\
    (forall outv, List.length outv = List.length (i_outs ib) ->
       exists pr', alpha_ok pr' tb ta = true /\ Inv pr' (upds cb (i_outs ib) outv) (upds ca (i_outs ia) outv)).
  Proof.
    intros H HI. simpl in H. apply andb_true_iff in H as [H Houts]. apply andb_true_iff in H as [H Hargs].
    apply andb_true_iff in H as [H Hnj]. apply andb_true_iff in H as [Hop Hnp]. apply String.eqb_eq in Hop.
    apply negb_true_iff in Hnp, Hnj.
    assert (Hpa : is_phi ia = false) by (unfold is_phi in *; now rewrite <- Hop).
    assert (Hja : is_jump ia = false) by (unfold is_jump in *; now rewrite <- Hop).
    pose proof (ovals_corr _ _ _ _ _ Hargs HI) as Hv.
    assert (HLo : List.length (i_outs ib) = List.length (i_outs ia)).
    { destruct (i_outs ib) as [|o [|]], (i_outs ia) as [|o' [|]]; try discriminate; reflexivity. }
    split; [auto|]. split; [auto|]. split; [auto|]. split; [auto|]. split.
    - intros m outv m' ev. split.
      + intros [HL He]. split; [congruence|]. cbv zeta in *. rewrite <- Hv, <- Hop. exact He.
      + intros [HL He]. split; [congruence|]. cbv zeta in *. rewrite Hv, Hop. exact He.
    - intros outv HLv. destruct (i_outs ib) as [|o [|]], (i_outs ia) as [|o' [|]]; try discriminate.
      + exists pr. split; auto.
      + apply andb_true_iff in Houts as [Hx Hok]. apply andb_true_iff in Hx as [Hno Hno'].
        apply negb_true_iff in Hno, Hno'. exists ((o, o') :: pr). split; auto.
        destruct outv as [|v [|]]; try discriminate. simpl. intros x x' [E|Hin].
        * inversion E; subst. unfold upd. now rewrite !N.eqb_refl.
        * unfold upd. destruct (N.eqb x o) eqn:E1.
          -- apply N.eqb_eq in E1. subst. exfalso.
             assert (memN o (map fst pr) = true); [|congruence]. apply memN_In. apply in_map_iff. exists (o, x'). auto.
          -- destruct (N.eqb x' o') eqn:E2.
             ++ apply N.eqb_eq in E2. subst. exfalso.
                assert (memN o' (map snd pr) = true); [|congruence]. apply memN_In. apply in_map_iff. exists (x, o'). auto.
             ++ now apply HI.
  Qed.

  Lemma step_same_inst_eq (f1 f2 : func) b k p c m ev X ins :
    nth_error (nth_block f1 b) k = Some ins -> nth_error (nth_block f2 b) k = Some ins ->
    (S k = List.length (nth_block f1 b) -> S k = List.length (nth_block f2 b)) ->
    step f1 (Run b k p c m) ev X -> step f2 (Run b k p c m) ev X.
  Proof.
    intros H1 H2 HL Hs. inversion Hs; subst; rewrite H1 in *;
      match goal with [ H : Some _ = Some _ |- _ ] => inversion H; subst; clear H end.
    - eapply s_phi; eauto.
    - eapply s_inst; eauto.
    - eapply s_jump; eauto.
  Qed.

  Lemma ren_targets ib c : jnz_cond_ok ib = true ->
    targets lv (ren_inst al ib) c = map (alias_of al) (targets lv ib c).
  Proof.
    unfold jnz_cond_ok, targets, ren_inst. simpl. intros Hc.
    destruct (String.eqb (i_op ib) "jmp").
    - destruct (i_args ib) as [|[] [|]]; reflexivity.
    - destruct (String.eqb (i_op ib) "jnz").
      + destruct (i_args ib) as [|cond [|[] [|[] [|]]]]; try reflexivity; destruct cond; try discriminate; simpl;
          match goal with [ |- context [ (?v =? 0)%Z ] ] => destruct (v =? 0)%Z end; reflexivity.
      + destruct (String.eqb (i_op ib) "djmp"); auto. unfold labels_of. induction (i_args ib) as [|o t IH]; simpl; auto.
        destruct o; simpl; auto. now rewrite IH.
  Qed.

  Lemma is_jump_ren ib : is_jump (ren_inst al ib) = is_jump ib.
  Proof. reflexivity. Qed.

  (* arriving at a block *)
  Lemma arrive t p c m : Rt (Run (alias_of al t) 0 p c m) (Run t 0 p c m).
  Proof.
    destruct HC_parts as [_ [_ H]]. destruct (H t) as [[E _] | [Hne [Hi Ha]]].
    - rewrite E. now apply Rt_main.
    - eapply (Rt_alpha t 0 p p c c m []); simpl; auto. intros x x' [].
  Qed.

  Lemma block_main b : alias_of al b = b ->
    List.length (nth_block f b) = List.length (nth_block g b) /\
    forall k ib ia, nth_error (nth_block f b) k = Some ib -> nth_error (nth_block g b) k = Some ia ->
      if Nat.eqb (S k) (List.length (nth_block f b)) && is_jump ib then jnz_cond_ok ib = true /\ ia = ren_inst al ib else ia = ib.
  Proof.
    intros E. destruct HC_parts as [_ [_ H]]. destruct (H b) as [[_ Hs] | [Hne _]]; [|congruence].
    now apply same_block_spec.
  Qed.

  Lemma main_common (f1 f2 : func) b k p c m ev X ins :
    alias_of al b = b -> nth_error (nth_block f1 b) k = Some ins -> nth_error (nth_block f2 b) k = Some ins ->
    List.length (nth_block f1 b) = List.length (nth_block f2 b) ->
    (is_jump ins = true -> S k <> List.length (nth_block f1 b)) ->
    step f1 (Run b k p c m) ev X -> step f2 (Run b k p c m) ev X /\ (exists k' p' c' m', X = Run b k' p' c' m').
  Proof.
    intros E H1 H2 HL Hnj Hs. split; [apply (step_same_inst_eq f1 f2 b k p c m ev X ins H1 H2); [lia | exact Hs]|].
    inversion Hs; subst; eauto. rewrite H1 in *.
    match goal with [ H : Some _ = Some _ |- _ ] => inversion H; subst; clear H end.
    exfalso. eapply Hnj; eauto.
  Qed.

  Lemma tail_fwd : sim M osem lv g f Rt.
  Proof.
    intros X Y ev X' HR Hst. destruct HR as [b k p c m E | b k pa pb ca cb m pr Hal HI].
    - destruct (block_main b E) as [HL HP]. destruct (step_pos' _ _ _ _ _ _ _ _ _ _ _ Hst) as [ia Ha].
      destruct (nth_error (nth_block f b) k) as [ib|] eqn:Hb.
      2:{ apply nth_error_None in Hb. assert (k < List.length (nth_block g b))%nat by (apply nth_error_Some; congruence). lia. }
      specialize (HP _ _ _ Hb Ha). destruct (Nat.eqb (S k) (List.length (nth_block f b)) && is_jump ib) eqn:Ec.
      + apply andb_true_iff in Ec as [Ek Ej]. apply Nat.eqb_eq in Ek. destruct HP as [Hc Eia]. subst ia.
        destruct (jump_step_inv _ _ _ _ _ _ _ _ _ _ _ _ Ha Ej Hst) as [He [_ [T [HT HX]]]]. subst ev X'.
        rewrite ren_targets in HT by auto. apply in_map_iff in HT as [t [ET Ht]]. subst T.
        exists (Run t 0 (Some b) c m). split; [apply steps_one; eapply s_jump; eauto|]. apply arrive.
      + subst ia. destruct (main_common g f b k p c m ev X' ib E Ha Hb (eq_sym HL)) as [Hs2 [k' [p' [c' [m' EX]]]]]; auto.
        * intros Hj Hk. rewrite HL, <- Hk, Nat.eqb_refl, Hj in Ec. discriminate.
        * exists X'. split; [now apply steps_one|]. subst X'. now apply Rt_main.
    - destruct (step_pos' _ _ _ _ _ _ _ _ _ _ _ Hst) as [ia Ha]. rewrite (nth_skipn_cons _ _ _ Ha) in Hal.
      destruct (skipn k (nth_block f b)) as [|ib tb] eqn:Eb; [simpl in Hal; discriminate|].
      apply skipn_cons_nth in Eb as [Hb Etb].
      destruct (alpha_step _ _ _ _ _ _ _ Hal HI) as [Hpb [Hjb [Hpa [Hja [Hex Hnext]]]]].
      destruct (inst_step_inv _ _ _ _ _ _ _ _ _ _ _ _ Ha Hpa Hja Hst) as [outv [m' [He HX]]]. subst X'.
      pose proof He as He'. apply Hex in He'. destruct He' as [HLo _]. destruct (Hnext outv HLo) as [pr' [Hal' HI']].
      eexists. split; [apply steps_one; apply (s_inst M osem lv f b k pb cb m ib outv m' ev Hb Hpb Hjb); apply Hex; exact He|].
      eapply (Rt_alpha b (S k) pa pb _ _ m' pr'); [rewrite Etb; exact Hal' | exact HI'].
  Qed.

  Lemma tail_bwd : sim M osem lv f g (fun y x => Rt x y).
  Proof.
    intros Y X ev Y' HR Hst. destruct HR as [b k p c m E | b k pa pb ca cb m pr Hal HI].
    - destruct (block_main b E) as [HL HP]. destruct (step_pos' _ _ _ _ _ _ _ _ _ _ _ Hst) as [ib Hb].
      destruct (nth_error (nth_block g b) k) as [ia|] eqn:Ha.
      2:{ apply nth_error_None in Ha. assert (k < List.length (nth_block f b))%nat by (apply nth_error_Some; congruence). lia. }
      specialize (HP _ _ _ Hb Ha). destruct (Nat.eqb (S k) (List.length (nth_block f b)) && is_jump ib) eqn:Ec.
      + apply andb_true_iff in Ec as [Ek Ej]. apply Nat.eqb_eq in Ek. destruct HP as [Hc Eia]. subst ia.
        destruct (jump_step_inv _ _ _ _ _ _ _ _ _ _ _ _ Hb Ej Hst) as [He [_ [t [Ht HY]]]]. subst ev Y'.
        exists (Run (alias_of al t) 0 (Some b) c m). split; [|apply arrive].
        apply steps_one. eapply s_jump; eauto; [lia|]. rewrite ren_targets by auto. now apply in_map.
      + subst ia. destruct (main_common f g b k p c m ev Y' ib E Hb Ha HL) as [Hs2 [k' [p' [c' [m' EY]]]]]; auto.
        * intros Hj Hk. rewrite <- Hk, Nat.eqb_refl, Hj in Ec. discriminate.
        * exists Y'. split; [now apply steps_one|]. subst Y'. now apply Rt_main.
    - destruct (step_pos' _ _ _ _ _ _ _ _ _ _ _ Hst) as [ib Hb]. rewrite (nth_skipn_cons _ _ _ Hb) in Hal.
      destruct (skipn k (nth_block g (alias_of al b))) as [|ia ta] eqn:Ea; [simpl in Hal; discriminate|].
      apply skipn_cons_nth in Ea as [Ha Eta].
      destruct (alpha_step _ _ _ _ _ _ _ Hal HI) as [Hpb [Hjb [Hpa [Hja [Hex Hnext]]]]].
      destruct (inst_step_inv _ _ _ _ _ _ _ _ _ _ _ _ Hb Hpb Hjb Hst) as [outv [m' [He HY]]]. subst Y'.
      pose proof He as He'. destruct He' as [HLo _]. destruct (Hnext outv HLo) as [pr' [Hal' HI']].
      eexists. split; [apply steps_one; apply (s_inst M osem lv g (alias_of al b) k pa ca m ia outv m' ev Ha Hpa Hja); apply Hex; exact He|].
      eapply (Rt_alpha b (S k) pa pb _ _ m' pr'); [rewrite Eta; exact Hal' | exact HI'].
  Qed.

  Theorem tail_bisimilar : bisimilar M osem lv g f.
  Proof.
    exists Rt. split; [|split; [apply tail_fwd | apply tail_bwd]].
    intros c m. apply Rt_main. now destruct HC_parts as [_ [H _]].
  Qed.
  Theorem tail_bisimulation_data db da :
    tail_data_check f al db da = true ->
    exists R, bisimulation M osem lv g f R /\
      forall b i tb ta c m, nth_error db i = Some tb -> nth_error da i = Some ta ->
        R (Run ta 0 (Some b) c m) (Run tb 0 (Some b) c m).
  Proof.
    intros H. unfold tail_data_check in H. apply (list_eqb_eq _ N_eqb_eq') in H. subst da. exists Rt. split.
    - split; [|split; [apply tail_fwd | apply tail_bwd]]. intros c m. apply Rt_main. now destruct HC_parts as [_ [H _]].
    - intros b i tb ta c m H1 H2. rewrite nth_error_map, H1 in H2. inversion H2; subst. apply arrive.
  Qed.
End TAIL.

Theorem tail_check_sound f g al :
  tail_check f g al = true -> forall M osem lv, bisimilar M osem lv g f.
Proof. intros H M osem lv. eapply tail_bisimilar; eauto. Qed.
