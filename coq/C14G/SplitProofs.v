(* C14G — CFGNormalization: split_check f g F = true  ->  g and f are bisimilar (same observable traces). *)
From Coq Require Import ZArith NArith Bool List String Lia.
From Verif Require Import Base.Word256 C14G.CfgSem C14G.CfgCheck C14G.CfgSemProofs C14G.ChainProofs.
Import ListNotations.
Open Scope string_scope.
Open Scope list_scope.

Definition fwd_inst (v n : N) : inst := mkI "assign" [OVar v] [n].

Lemma split_info_spec F Sb : forall prs t, split_info F Sb = Some (prs, t) ->
  List.length Sb = S (List.length prs) /\
  (forall i v n, nth_error prs i = Some (v, n) -> nth_error Sb i = Some (fwd_inst v n) /\ In n F /\ ~ In v F) /\
  (exists j, nth_error Sb (List.length prs) = Some j /\ i_op j = "jmp" /\ i_args j = [OLab t]) /\
  NoDup (map snd prs).
Proof.
  induction Sb as [|i rest IH]; intros prs t H; simpl in H; try discriminate.
  destruct rest as [|i2 rest'].
  - destruct (inst_eqb i (mkI "jmp" (i_args i) [])) eqn:E; try discriminate. apply inst_eqb_eq in E.
    destruct (i_args i) as [|[| |t'] [|]] eqn:Ea; try discriminate. inversion H; subst. simpl.
    split; auto. split; [intros [|k]; discriminate|]. split; [|constructor].
    eexists. split; [reflexivity|]. simpl. auto.
  - destruct (i_args i) as [|[|v|] [|]] eqn:Ea; try discriminate. destruct (i_outs i) as [|n [|]] eqn:Eo; try discriminate.
    destruct (String.eqb (i_op i) "assign" && memN n F && negb (memN v F)) eqn:Ec; try discriminate.
    destruct (split_info F (i2 :: rest')) as [[prs' t']|] eqn:Er; try discriminate.
    destruct (memN n (map snd prs')) eqn:Em; try discriminate. inversion H; subst. clear H.
    destruct (IH _ _ eq_refl) as [HL [HP [HJ HN]]].
    apply andb_true_iff in Ec as [Ec Hv]. apply andb_true_iff in Ec as [Hop Hn].
    apply String.eqb_eq in Hop. apply memN_In in Hn. apply negb_true_iff in Hv.
    simpl. split; [simpl in HL; lia|]. split; [|split; [exact HJ|]].
    + intros [|k] v0 n0 Hk; simpl in Hk.
      * inversion Hk; subst. split; [|split; auto]. { destruct i; simpl in *; subst; reflexivity. }
        intros Hi. apply memN_In in Hi. congruence.
      * apply HP; auto.
    + constructor; auto. intros Hi. apply memN_In in Hi. congruence.
Qed.

Lemma leading_nonphi (fb : list inst) : forall k ib, nth_error fb k = Some ib -> is_phi ib = false -> (List.length (leading_phis fb) <= k)%nat.
Proof.
  induction fb as [|i t IH]; intros [|k] ib H Hp; simpl in *; try discriminate; try lia.
  - inversion H; subst. rewrite Hp. simpl. lia.
  - destruct (is_phi i); simpl; [|lia]. specialize (IH _ _ H Hp). lia.
Qed.
Lemma leading_phi (fb : list inst) : phis_leading fb = true -> forall k ib, nth_error fb k = Some ib -> is_phi ib = true ->
  (k < List.length (leading_phis fb))%nat /\ forall o, In o (i_outs ib) -> In o (flat_map i_outs (leading_phis fb)).
Proof.
  unfold phis_leading. induction fb as [|i t IH]; intros HL [|k] ib H Hp; simpl in *; try discriminate.
  - inversion H; subst. rewrite Hp. simpl. split; [lia|]. intros o Ho. apply in_or_app. now left.
  - destruct (is_phi i) eqn:Ei; simpl in *.
    + destruct (IH HL _ _ H Hp) as [H1 H2]. split; [lia|]. intros o Ho. apply in_or_app. right. auto.
    + exfalso. apply negb_true_iff in HL. rewrite Ei in HL. simpl in HL.
      assert (existsb is_phi t = true); [|congruence]. apply existsb_exists. exists ib. split; auto. eapply nth_error_In; eauto.
Qed.

Lemma phis_split_ok_nth prs fb : forall ga Sb b0 k ib, phis_split_ok prs fb ga Sb b0 = true -> nth_error fb k = Some ib -> is_phi ib = true ->
  exists ia, nth_error ga k = Some ia /\ is_phi ia = true /\
    match phi_src (i_args ib) b0, phi_src (i_args ia) Sb with
    | None, None => True
    | Some vb, Some va => va = vb \/ exists v n, vb = OVar v /\ va = OVar n /\ In (v, n) prs
    | _, _ => False
    end.
Proof.
  induction fb as [|ib0 tb IH]; intros ga Sb b0 k ib H Hn Hp; [destruct k; discriminate|].
  simpl in H. destruct ga as [|ia0 ta].
  - apply negb_true_iff in H. exfalso. assert (E : existsb is_phi (ib0 :: tb) = true); [|simpl in E; congruence].
    apply existsb_exists. exists ib. split; auto. eapply nth_error_In; eauto.
  - apply andb_true_iff in H as [H1 H2]. destruct k.
    + simpl in Hn. inversion Hn; subst ib0. exists ia0. split; auto. rewrite Hp in H1. apply andb_true_iff in H1 as [Ha H1].
      split; auto. destruct (phi_src (i_args ib) b0) as [vb|], (phi_src (i_args ia0) Sb) as [va|]; try discriminate; auto.
      apply orb_true_iff in H1 as [H1|H1].
      * left. now apply operand_eqb_eq in H1.
      * right. destruct vb as [|v|], va as [|n|]; try discriminate. apply existsb_exists in H1 as [[v' n'] [Hin Hc]].
        simpl in Hc. apply andb_true_iff in Hc as [E1 E2]. apply N.eqb_eq in E1, E2. subst. eauto.
    + simpl in Hn. simpl. eapply IH; eauto.
Qed.

Section SPLIT.
  Variable M : Type.
  Variable osem : string -> list Z -> M -> list Z -> M -> Prop.
  Variable lv : N -> Z.
  Variables (f g : func) (F : list N).
  Hypothesis HC : split_check f g F = true.
  Notation step := (step M osem lv).
  Notation steps := (steps M osem lv).

  Definition inr (b : N) : Prop := (N.to_nat b < List.length f)%nat.

  Lemma HC_parts : fresh_ok F f = true /\ forall b, inr b -> split_block_ok F f g b = true.
  Proof.
    unfold split_check in HC. apply andb_true_iff in HC as [H0 Hall]. apply andb_true_iff in H0 as [_ Hf].
    split; auto. intros b Hb. pose proof (forallb_seq _ _ Hall _ Hb) as H. cbv beta in H. now rewrite N2Nat.id in H.
  Qed.

  Lemma fresh_inst b k ins : nth_error (nth_block f b) k = Some ins -> inst_fresh F ins = true.
  Proof.
    destruct HC_parts as [H1 _]. unfold fresh_ok in H1. rewrite forallb_forall in H1. intros H.
    unfold nth_block in H. destruct (nth_in_or_default (N.to_nat b) f []) as [Hi|Hd].
    - specialize (H1 _ Hi). rewrite forallb_forall in H1. apply H1. eapply nth_error_In; eauto.
    - rewrite Hd in H. destruct k; discriminate.
  Qed.
  Lemma fresh_out b k ins o : nth_error (nth_block f b) k = Some ins -> In o (i_outs ins) -> ~ In o F.
  Proof.
    intros Hn Ho Hi. pose proof (fresh_inst _ _ _ Hn) as H. unfold inst_fresh in H. apply andb_true_iff in H as [_ H].
    apply negb_true_iff in H. assert (existsb (fun o => memN o F) (i_outs ins) = true); [|congruence].
    apply existsb_exists. exists o. split; auto. now apply memN_In.
  Qed.

  (* edge facts *)
  Definition via_split (Sb b0 t : N) (prs : list (N * N)) : Prop :=
    split_info F (nth_block g Sb) = Some (prs, t) /\ inr t /\ phis_leading (nth_block f t) = true /\
    (forall v n, In (v, n) prs -> ~ In v (flat_map i_outs (leading_phis (nth_block f t)))) /\
    phis_split_ok prs (nth_block f t) (nth_block g t) Sb b0 = true.

  Lemma block_spec b : inr b ->
    List.length (nth_block f b) = List.length (nth_block g b) /\
    (forall k ib ia, nth_error (nth_block f b) k = Some ib -> nth_error (nth_block g b) k = Some ia ->
       (is_phi ib = true -> is_phi ia = true /\ exists o, i_outs ib = [o] /\ i_outs ia = [o]) /\
       (is_phi ib = false ->
          (S k = List.length (nth_block f b) /\ is_jump ib = true /\ jump_shape ib ia = true /\
           forall j T t, nth_error (labels_of (i_args ia)) j = Some T -> nth_error (labels_of (i_args ib)) j = Some t ->
              (inr T /\ T = t /\ phis_in_ok (nth_block f t) (nth_block g t) b b = true) \/
              (~ inr T /\ exists prs, via_split T b t prs))
          \/ (ia = ib /\ is_jump ib = false))).
  Proof.
    intros Hb. destruct HC_parts as [_ H]. specialize (H b Hb). unfold split_block_ok in H.
    apply andb_true_iff in H as [H He]. apply andb_true_iff in H as [Hic Hpp].
    destruct (icorrs_spec _ _ _ Hic) as [HL HP]. split; auto.
    intros k ib ia Hib Hia. specialize (HP _ _ _ Hib Hia). pose proof (forall2b_nth _ _ _ _ _ _ Hpp Hib Hia) as Hphi. cbv beta in Hphi.
    split.
    - intros Hp. rewrite Hp in Hphi. split; auto. rewrite (is_phi_not_jump _ Hp), andb_false_r in HP.
      destruct (icorr_phi_head _ _ HP Hp) as [o [H1 [H2 _]]]. eauto.
    - intros Hp. destruct (Nat.eqb (S k) (List.length (nth_block f b)) && is_jump ib) eqn:Ec.
      + left. apply andb_true_iff in Ec as [Ek Ej]. apply Nat.eqb_eq in Ek. repeat split; auto.
        intros j T t HT Ht.
        rewrite (last_inst_nth _ _ _ Hib Ek) in He. rewrite (last_inst_nth _ _ _ Hia ltac:(lia)) in He. rewrite Ej in He.
        pose proof (forall2b_nth _ _ _ _ _ _ He HT Ht) as Hx. unfold split_edge_ok in Hx.
        destruct (N.ltb T (N.of_nat (List.length f))) eqn:El.
        * apply N.ltb_lt in El. apply andb_true_iff in Hx as [H1 H2]. apply N.eqb_eq in H1. left. unfold inr. split; [lia|]. auto.
        * apply N.ltb_ge in El. right. split; [unfold inr; lia|].
          destruct (split_info F (nth_block g T)) as [[prs t']|] eqn:Es; try discriminate.
          apply andb_true_iff in Hx as [Hx H5]. apply andb_true_iff in Hx as [Hx H4]. apply andb_true_iff in Hx as [Hx H3].
          apply andb_true_iff in Hx as [H1 H2]. apply N.eqb_eq in H1. apply N.ltb_lt in H2. subst t'.
          exists prs. unfold via_split. repeat split; auto; [unfold inr; lia|].
          intros v n Hin Hv. rewrite forallb_forall in H4. specialize (H4 _ Hin). simpl in H4. apply negb_true_iff in H4.
          apply memN_In in Hv. congruence.
      + right. now apply icorr_nonphi in HP.
  Qed.

  (* the relation *)
  Definition fwd_inv (prs : list (N * N)) (ca cb : cenv) : Prop := forall v n, In (v, n) prs -> ca n = cb v.

  Definition prel (b : N) (k : nat) (pa pb : option N) (ca cb : cenv) : Prop :=
    (pa = pb /\ (pa = None \/ exists q, pa = Some q /\ phis_in_ok (nth_block f b) (nth_block g b) q q = true)) \/
    (exists Sb b0 prs, pa = Some Sb /\ pb = Some b0 /\ via_split Sb b0 b prs /\
                      ((k <= List.length (leading_phis (nth_block f b)))%nat -> fwd_inv prs ca cb)).

  Inductive Rs : conf M -> conf M -> Prop :=
  | Rs_main b k pa pb ca cb m : inr b -> agree F ca cb -> prel b k pa pb ca cb -> Rs (Run b k pa ca m) (Run b k pb cb m)
  | Rs_split Sb k b0 t prs ca cb m :
      ~ inr Sb -> via_split Sb b0 t prs -> agree F ca cb -> (k <= List.length prs)%nat ->
      (forall i v n, (i < k)%nat -> nth_error prs i = Some (v, n) -> ca n = cb v) ->
      Rs (Run Sb k (Some b0) ca m) (Run t 0 (Some b0) cb m).

  (* running the rest of a forwarding block *)
  Lemma split_run Sb b0 t prs : via_split Sb b0 t prs -> forall d k ca cb m,
    (k + d = List.length prs)%nat -> agree F ca cb ->
    (forall i v n, (i < k)%nat -> nth_error prs i = Some (v, n) -> ca n = cb v) ->
    exists ca', steps g (Run Sb k (Some b0) ca m) [] (Run t 0 (Some Sb) ca' m) /\ agree F ca' cb /\ fwd_inv prs ca' cb.
  Proof.
    intros [Hsi _]. destruct (split_info_spec _ _ _ _ Hsi) as [HL [HP [[j [Hj [Hjo Hja]]] HN]]].
    induction d as [|d IH]; intros k ca cb m Hk Ha Hinv.
    - assert (k = List.length prs) by lia. subst k. exists ca. split; [|split; auto].
      + apply steps_one. apply (s_jump M osem lv g Sb (List.length prs) (Some b0) ca m j t Hj).
        * unfold block in *. lia.
        * unfold is_jump. rewrite Hjo. reflexivity.
        * unfold targets. rewrite Hjo, Hja. simpl. now left.
      + intros v n Hin. apply In_nth_error in Hin as [i Hi]. eapply Hinv; eauto. apply nth_error_Some. congruence.
    - destruct (nth_error prs k) as [[v n]|] eqn:Ek; [|apply nth_error_None in Ek; lia].
      destruct (HP _ _ _ Ek) as [Hi [HnF HvF]].
      destruct (IH (S k) (upd ca n (oval lv ca (OVar v))) cb m) as [ca' [Hst [Ha' Hf']]]; [lia | now apply agree_upd_l | |].
      + intros i v0 n0 Hlt Hi0. unfold upd. simpl. destruct (N.eqb n0 n) eqn:E.
        * apply N.eqb_eq in E. subst n0.
          assert (i = k).
          { assert (Hm : forall a b, nth_error (map snd prs) a = Some n -> nth_error (map snd prs) b = Some n -> a = b).
            { intros a b H1 H2. eapply NoDup_nth_error; eauto. apply nth_error_Some. congruence. congruence. }
            apply Hm; rewrite nth_error_map; [rewrite Hi0 | rewrite Ek]; reflexivity. }
          subst i. rewrite Ek in Hi0. inversion Hi0; subst. now apply Ha.
        * apply Hinv with (i := i); auto. destruct (Nat.eq_dec i k); [|lia]. subst i. rewrite Ek in Hi0. inversion Hi0; subst.
          rewrite N.eqb_refl in E. discriminate.
      + exists ca'. split; auto. eapply steps_nil_trans; [|exact Hst]. apply steps_one.
        eapply (assign_step M osem lv g Sb k (Some b0) ca m (fwd_inst v n) (OVar v) n); eauto.
  Qed.

  Lemma prel_next b k pa pb ca cb ca' cb' ib :
    nth_error (nth_block f b) k = Some ib -> is_phi ib = false -> prel b k pa pb ca cb -> prel b (S k) pa pb ca' cb'.
  Proof.
    intros Hn Hp [H|[Sb [b0 [prs [H1 [H2 [H3 H4]]]]]]]; [left; auto|]. right. exists Sb, b0, prs. split; [exact H1|]. split; [exact H2|]. split; [exact H3|].
    intros Hk. pose proof (leading_nonphi _ _ _ Hn Hp). lia.
  Qed.

  Lemma arrive_direct b t ca cb m : inr t -> agree F ca cb -> phis_in_ok (nth_block f t) (nth_block g t) b b = true ->
    Rs (Run t 0 (Some b) ca m) (Run t 0 (Some b) cb m).
  Proof. intros. apply Rs_main; auto. left. split; auto. right. eauto. Qed.

  (* phi steps correspond *)
  Lemma phi_corr b k pa pb ca cb ib ia :
    inr b -> agree F ca cb -> prel b k pa pb ca cb -> nth_error (nth_block f b) k = Some ib -> nth_error (nth_block g b) k = Some ia ->
    is_phi ib = true -> is_phi ia = true ->
    (pa = None /\ pb = None) \/
    exists qa qb, pa = Some qa /\ pb = Some qb /\
      match phi_src (i_args ib) qb, phi_src (i_args ia) qa with
      | None, None => True
      | Some vb, Some va => oval lv ca va = oval lv cb vb
      | _, _ => False
      end.
  Proof.
    intros Hb Ha Hpr Hib Hia Hpb Hpa. destruct Hpr as [[E [E2|[q [E2 Hok]]]] | [Sb [b0 [prs [E1 [E2 [Hvs Hinv]]]]]]].
    - left. subst. auto.
    - right. subst pa pb. exists q, q. repeat split; auto.
      destruct (phis_in_ok_nth _ _ _ _ _ _ Hok Hib Hpb) as [ia' [Hia' Hc]]. rewrite Hia in Hia'. inversion Hia'; subst ia'.
      rewrite Hpa in Hc. rewrite Hc. destruct (phi_src (i_args ib) q) as [vb|] eqn:Es; auto.
      eapply oval_agree; eauto. eapply existsb_false_in; [apply inst_fresh_args; eapply fresh_inst; eauto|]. eapply phi_src_in; eauto.
    - right. subst pa pb. exists Sb, b0. repeat split; auto. destruct Hvs as [Hsi [Hrt [Hlead [Hnv Hok]]]].
      destruct (phis_split_ok_nth _ _ _ _ _ _ _ Hok Hib Hpb) as [ia' [Hia' [_ Hc]]]. rewrite Hia in Hia'. inversion Hia'; subst ia'.
      destruct (phi_src (i_args ib) b0) as [vb|] eqn:Es, (phi_src (i_args ia) Sb) as [va|]; auto.
      destruct Hc as [Hc | [v [n [E1 [E2 Hin]]]]].
      + subst va. eapply oval_agree; eauto. eapply existsb_false_in; [apply inst_fresh_args; eapply fresh_inst; eauto|]. eapply phi_src_in; eauto.
      + subst. simpl. apply Hinv; auto. destruct (leading_phi _ Hlead _ _ Hib Hpb) as [Hk _]. lia.
  Qed.

  Lemma prel_phi b k pa pb ca cb ib o x :
    inr b -> nth_error (nth_block f b) k = Some ib -> is_phi ib = true -> i_outs ib = [o] ->
    prel b k pa pb ca cb -> prel b (S k) pa pb (upd ca o x) (upd cb o x).
  Proof.
    intros Hb Hn Hp Ho [H|[Sb [b0 [prs [H1 [H2 [H3 H4]]]]]]]; [left; auto|]. right. exists Sb, b0, prs. split; [exact H1|]. split; [exact H2|]. split; [exact H3|].
    intros Hk v n Hin. specialize (H4 ltac:(lia) v n Hin). destruct H3 as [Hsi [Hrt [Hlead [Hnv Hok]]]].
    destruct (split_info_spec _ _ _ _ Hsi) as [_ [HP _]]. apply In_nth_error in Hin as [i Hi]. destruct (HP _ _ _ Hi) as [_ [HnF _]].
    assert (Ho1 : ~ In o F) by (eapply fresh_out; eauto; rewrite Ho; now left).
    assert (Ho2 : In o (flat_map i_outs (leading_phis (nth_block f b)))).
    { destruct (leading_phi _ Hlead _ _ Hn Hp) as [_ H]. apply H. rewrite Ho. now left. }
    unfold upd. destruct (N.eqb n o) eqn:E1; [apply N.eqb_eq in E1; subst; contradiction|].
    destruct (N.eqb v o) eqn:E2; [apply N.eqb_eq in E2; subst; exfalso; eapply Hnv; eauto; eapply nth_error_In; eauto|]. exact H4.
  Qed.

  (* a step of `after` from a pair related by Rs_main / a step of `before` *)
  Lemma main_fwd b k pa pb ca cb m ev X' :
    inr b -> agree F ca cb -> prel b k pa pb ca cb -> step g (Run b k pa ca m) ev X' ->
    exists Y', steps f (Run b k pb cb m) ev Y' /\ Rs X' Y'.
  Proof.
    intros Hb Ha Hpr Hst. destruct (block_spec b Hb) as [HL HP]. destruct (step_pos' _ _ _ _ _ _ _ _ _ _ _ Hst) as [ia Hia].
    destruct (nth_error (nth_block f b) k) as [ib|] eqn:Hib.
    2:{ apply nth_error_None in Hib. assert (k < List.length (nth_block g b))%nat by (apply nth_error_Some; congruence). lia. }
    destruct (HP _ _ _ Hib Hia) as [Hphi Hnphi]. destruct (is_phi ib) eqn:Ep.
    - destruct (Hphi eq_refl) as [Hpa [o [Ho Hoa]]].
      destruct (phi_step_inv _ _ _ _ _ _ _ _ _ _ _ _ Hia Hpa Hst) as [qa [o' [va [Eq [Ho' [Hsrc [He HX]]]]]]]. subst pa ev X'.
      rewrite Hoa in Ho'. inversion Ho'; subst o'.
      destruct (phi_corr _ _ _ _ _ _ _ _ Hb Ha Hpr Hib Hia Ep Hpa) as [[E _] | [qa' [qb [E1 [E2 Hc]]]]]; [discriminate|].
      inversion E1; subst qa' pb. rewrite Hsrc in Hc. destruct (phi_src (i_args ib) qb) as [vb|] eqn:Esb; [|contradiction].
      eexists. split; [apply steps_one; eapply phi_step; eauto|]. rewrite Hc. apply Rs_main; auto using agree_upd.
      eapply prel_phi; eauto.
    - destruct (Hnphi eq_refl) as [[Ek [Ej [Hsh Hedges]]] | [E Hnj]].
      + assert (Hja : is_jump ia = true).
        { unfold jump_shape in Hsh. apply andb_true_iff in Hsh as [Hsh _]. apply andb_true_iff in Hsh as [Hop _].
          apply String.eqb_eq in Hop. unfold is_jump in *. now rewrite <- Hop. }
        destruct (jump_step_inv _ _ _ _ _ _ _ _ _ _ _ _ Hia Hja Hst) as [He [_ [T [HT HX]]]]. subst ev X'.
        destruct (jump_shape_targets lv _ _ _ _ Hsh HT) as [j [t [H1 [H2 H3]]]].
        rewrite (targets_agree lv F ib ca cb Ha (fresh_inst _ _ _ Hib)) in H3.
        destruct (Hedges _ _ _ H1 H2) as [[HrT [ET Hok]] | [HnT [prs Hvs]]].
        * subst T. eexists. split; [apply steps_one; eapply s_jump; eauto|]. now apply arrive_direct.
        * eexists. split; [apply steps_one; eapply s_jump; eauto|]. eapply Rs_split; eauto; [lia|]. intros i v n Hi. lia.
      + subst ia. destruct (inst_step_inv _ _ _ _ _ _ _ _ _ _ _ _ Hia Ep Hnj Hst) as [outv [m' [He HX]]]. subst X'.
        eexists. split; [apply steps_one; eapply s_inst; eauto; eapply exec_agree; eauto; eapply fresh_inst; eauto|].
        apply Rs_main; auto using agree_upds. eapply prel_next; eauto.
  Qed.

  Lemma main_bwd b k pa pb ca cb m ev Y' :
    inr b -> agree F ca cb -> prel b k pa pb ca cb -> step f (Run b k pb cb m) ev Y' ->
    exists X', steps g (Run b k pa ca m) ev X' /\ Rs X' Y'.
  Proof.
    intros Hb Ha Hpr Hst. destruct (block_spec b Hb) as [HL HP]. destruct (step_pos' _ _ _ _ _ _ _ _ _ _ _ Hst) as [ib Hib].
    destruct (nth_error (nth_block g b) k) as [ia|] eqn:Hia.
    2:{ apply nth_error_None in Hia. assert (k < List.length (nth_block f b))%nat by (apply nth_error_Some; congruence). lia. }
    destruct (HP _ _ _ Hib Hia) as [Hphi Hnphi]. destruct (is_phi ib) eqn:Ep.
    - destruct (Hphi eq_refl) as [Hpa [o [Ho Hoa]]].
      destruct (phi_step_inv _ _ _ _ _ _ _ _ _ _ _ _ Hib Ep Hst) as [qb [o' [vb [Eq [Ho' [Hsrc [He HY]]]]]]]. subst pb ev Y'.
      rewrite Ho in Ho'. inversion Ho'; subst o'.
      destruct (phi_corr _ _ _ _ _ _ _ _ Hb Ha Hpr Hib Hia Ep Hpa) as [[_ E] | [qa [qb' [E1 [E2 Hc]]]]]; [discriminate|].
      inversion E2; subst qb' pa. rewrite Hsrc in Hc. destruct (phi_src (i_args ia) qa) as [va|] eqn:Esa; [|contradiction].
      eexists. split; [apply steps_one; eapply phi_step; eauto|]. rewrite Hc. apply Rs_main; auto using agree_upd.
      eapply prel_phi; eauto.
    - destruct (Hnphi eq_refl) as [[Ek [Ej [Hsh Hedges]]] | [E Hnj]].
      + assert (Hja : is_jump ia = true).
        { unfold jump_shape in Hsh. apply andb_true_iff in Hsh as [Hsh _]. apply andb_true_iff in Hsh as [Hop _].
          apply String.eqb_eq in Hop. unfold is_jump in *. now rewrite <- Hop. }
        destruct (jump_step_inv _ _ _ _ _ _ _ _ _ _ _ _ Hib Ej Hst) as [He [_ [t [Ht HY]]]]. subst ev Y'.
        rewrite <- (targets_agree lv F ib ca cb Ha (fresh_inst _ _ _ Hib)) in Ht.
        destruct (jump_shape_targets_r lv _ _ _ _ Hsh Ht) as [j [T [H1 [H2 H3]]]].
        destruct (Hedges _ _ _ H1 H2) as [[HrT [ET Hok]] | [HnT [prs Hvs]]].
        * subst T. eexists. split; [apply steps_one; eapply s_jump; eauto; lia|]. now apply arrive_direct.
        * eexists. split; [apply steps_one; eapply s_jump; eauto; lia|]. eapply Rs_split; eauto; [lia|]. intros i v n Hi. lia.
      + subst ia. destruct (inst_step_inv _ _ _ _ _ _ _ _ _ _ _ _ Hib Ep Hnj Hst) as [outv [m' [He HY]]]. subst Y'.
        eexists. split; [apply steps_one; eapply s_inst; eauto; eapply exec_agree; [apply agree_sym; eauto | eapply fresh_inst; eauto | eauto]|].
        apply Rs_main; auto using agree_upds. eapply prel_next; eauto.
  Qed.

  Lemma split_fwd : sim M osem lv g f Rs.
  Proof.
    intros X Y ev X' HR Hst. destruct HR as [b k pa pb ca cb m Hb Ha Hpr | Sb k b0 t prs ca cb m HnS Hvs Ha Hk Hinv].
    - eapply main_fwd; eauto.
    - pose proof Hvs as [Hsi [Hrt _]]. destruct (split_info_spec _ _ _ _ Hsi) as [HL [HP [[j [Hj [Hjo Hja]]] HN]]].
      destruct (Nat.eq_dec k (List.length prs)) as [E|E].
      + subst k. assert (Hjj : is_jump j = true) by (unfold is_jump; rewrite Hjo; reflexivity).
        destruct (jump_step_inv _ _ _ _ _ _ _ _ _ _ _ _ Hj Hjj Hst) as [He [_ [T [HT HX]]]]. subst ev X'.
        unfold targets in HT. rewrite Hjo, Hja in HT. simpl in HT. destruct HT as [HT|[]]. subst T.
        eexists. split; [constructor|]. apply Rs_main; auto. right. exists Sb, b0, prs. split; [reflexivity|]. split; [reflexivity|]. split; [exact Hvs|].
        intros _ v n Hin. apply In_nth_error in Hin as [i Hi]. eapply Hinv; eauto. apply nth_error_Some. congruence.
      + destruct (nth_error prs k) as [[v n]|] eqn:Ek; [|apply nth_error_None in Ek; lia].
        destruct (HP _ _ _ Ek) as [Hi [HnF HvF]].
        destruct (assign_step_inv _ _ _ _ _ _ _ _ _ _ _ _ _ _ Hi eq_refl eq_refl eq_refl Hst) as [He HX]. subst ev X'.
        eexists. split; [constructor|]. eapply Rs_split; eauto; [now apply agree_upd_l | lia |].
        intros i v0 n0 Hlt Hi0. unfold upd. simpl. destruct (N.eqb n0 n) eqn:E0.
        * apply N.eqb_eq in E0. subst n0.
          assert (i = k).
          { eapply (NoDup_nth_error (map snd prs)); eauto; [apply nth_error_Some; rewrite nth_error_map, Hi0; discriminate|].
            rewrite !nth_error_map, Hi0, Ek. reflexivity. }
          subst i. rewrite Ek in Hi0. inversion Hi0; subst. now apply Ha.
        * apply Hinv with (i := i); auto. destruct (Nat.eq_dec i k); [|lia]. subst i. rewrite Ek in Hi0. inversion Hi0; subst.
          rewrite N.eqb_refl in E0. discriminate.
  Qed.

  Lemma split_bwd : sim M osem lv f g (fun y x => Rs x y).
  Proof.
    intros Y X ev Y' HR Hst. destruct HR as [b k pa pb ca cb m Hb Ha Hpr | Sb k b0 t prs ca cb m HnS Hvs Ha Hk Hinv].
    - eapply main_bwd; eauto.
    - destruct (split_run Sb b0 t prs Hvs (List.length prs - k) k ca cb m ltac:(lia) Ha Hinv) as [ca' [Hrun [Ha' Hf']]].
      pose proof Hvs as [_ [Hrt _]].
      destruct (main_bwd t 0 (Some Sb) (Some b0) ca' cb m ev Y' Hrt Ha') as [X' [HX HR]]; auto.
      + right. exists Sb, b0, prs. split; [reflexivity|]. split; [reflexivity|]. split; [exact Hvs|]. intros _. exact Hf'.
      + exists X'. split; auto. eapply steps_nil_trans; eauto.
  Qed.

  Theorem split_bisimilar : bisimilar M osem lv g f.
  Proof.
    exists Rs. split; [|split; [apply split_fwd | apply split_bwd]].
    intros c m. apply Rs_main; [| apply agree_refl | left; auto].
    unfold split_check in HC. apply andb_true_iff in HC as [H0 _]. apply andb_true_iff in H0 as [H0 _].
    apply andb_true_iff in H0 as [H0 _]. apply Nat.leb_le in H0. unfold inr. simpl. lia.
  Qed.
  Lemma split_edge_ok_spec b T t : split_edge_ok F f g b T t = true ->
    (inr T /\ T = t /\ phis_in_ok (nth_block f t) (nth_block g t) b b = true) \/ (~ inr T /\ exists prs, via_split T b t prs).
  Proof.
    intros Hx. unfold split_edge_ok in Hx. destruct (N.ltb T (N.of_nat (List.length f))) eqn:El.
    - apply N.ltb_lt in El. apply andb_true_iff in Hx as [H1 H2]. apply N.eqb_eq in H1. left. unfold inr. split; [lia|]. auto.
    - apply N.ltb_ge in El. right. split; [unfold inr; lia|].
      destruct (split_info F (nth_block g T)) as [[prs t']|] eqn:Es; try discriminate.
      apply andb_true_iff in Hx as [Hx H5]. apply andb_true_iff in Hx as [Hx H4]. apply andb_true_iff in Hx as [Hx H3].
      apply andb_true_iff in Hx as [H1 H2]. apply N.eqb_eq in H1. apply N.ltb_lt in H2. subst t'.
      exists prs. unfold via_split. repeat split; auto; [unfold inr; lia|].
      intros v n Hin Hv. rewrite forallb_forall in H4. specialize (H4 _ Hin). simpl in H4. apply negb_true_iff in H4.
      apply memN_In in Hv. congruence.
  Qed.

  Theorem split_bisimulation_data db da :
    split_data_check F f g db da = true ->
    exists R, bisimulation M osem lv g f R /\
      forall b Tb i tb ta c m, inr b -> djmp_of (nth_block f b) = Some Tb ->
        nth_error db i = Some tb -> nth_error da i = Some ta -> In tb (labels_of (i_args Tb)) ->
        R (Run ta 0 (Some b) c m) (Run tb 0 (Some b) c m).
  Proof.
    intros Hall. unfold split_data_check in Hall. exists Rs. split.
    - split; [|split; [apply split_fwd | apply split_bwd]].
      intros c m. apply Rs_main; [| apply agree_refl | left; auto].
      unfold split_check in HC. apply andb_true_iff in HC as [H0 _]. apply andb_true_iff in H0 as [H0 _].
      apply andb_true_iff in H0 as [H0 _]. apply Nat.leb_le in H0. unfold inr. simpl. lia.
    - intros b Tb i tb ta c m Hb Hdj H1 H2 Hin.
      pose proof (forallb_seq _ _ Hall _ Hb) as Hx. cbv beta zeta in Hx. rewrite N2Nat.id, Hdj in Hx.
      destruct (last_inst (nth_block g b)) as [Ta|]; try discriminate.
      unfold table_ok in Hx. pose proof (forall2b_nth _ _ _ _ _ _ Hx H1 H2) as Hy. cbv beta in Hy.
      apply andb_true_iff in Hy as [_ Hy]. apply memN_In in Hin. rewrite Hin in Hy. simpl in Hy.
      destruct (split_edge_ok_spec _ _ _ Hy) as [[HrT [ET Hok]] | [HnT [prs Hvs]]].
      + subst ta. apply arrive_direct; auto using agree_refl.
      + eapply Rs_split; eauto using agree_refl; [lia|]. intros k v n Hk. lia.
  Qed.
End SPLIT.

Theorem split_check_sound f g F :
  split_check f g F = true -> forall M osem lv, bisimilar M osem lv g f.
Proof. intros H M osem lv. eapply split_bisimilar; eauto. Qed.
