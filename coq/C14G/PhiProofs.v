(* C14G — the phis of a block: executing them one after the other (CfgSem.v) gives the environment of the parallel
   reading (all operands read in the environment of the predecessor, C14/RangeFix.v phi_assign) whenever no phi reads the
   output of an EARLIER phi of the same block (phis_indep, tested by the validator on every instance). *)
From Coq Require Import ZArith NArith Bool List String Lia.
From Verif Require Import Base.Word256 C14G.CfgSem C14G.CfgCheck C14G.CfgSemProofs.
Import ListNotations.
Open Scope string_scope.
Open Scope list_scope.

(* the move a phi performs when control comes from q *)
Definition phi_move (q : N) (ins : inst) : option (N * operand) :=
  match i_outs ins, phi_src (i_args ins) q with
  | [o], Some v => Some (o, v)
  | _, _ => None
  end.
Fixpoint moves_of (q : N) (phis : list inst) : option (list (N * operand)) :=
  match phis with
  | [] => Some []
  | i :: t => match phi_move q i, moves_of q t with Some mv, Some r => Some (mv :: r) | _, _ => None end
  end.

Section PHI.
  Variable M : Type.
  Variable osem : string -> list Z -> M -> list Z -> M -> Prop.
  Variable lv : N -> Z.
  Notation step := (step M osem lv).
  Notation steps := (steps M osem lv).

  (* one after the other: each operand is read in the current environment *)
  Fixpoint seq_env (mv : list (N * operand)) (c : cenv) : cenv :=
    match mv with [] => c | (o, v) :: t => seq_env t (upd c o (oval lv c v)) end.
  (* all at once: every operand is read in the environment c0 control arrived with *)
  Fixpoint par_env (mv : list (N * operand)) (c0 c : cenv) : cenv :=
    match mv with [] => c | (o, v) :: t => par_env t c0 (upd c o (oval lv c0 v)) end.

  Fixpoint moves_indep (acc : list N) (mv : list (N * operand)) : Prop :=
    match mv with
    | [] => True
    | (o, v) :: t => (match v with OVar x => ~ In x acc | _ => True end) /\ moves_indep (o :: acc) t
    end.

  Lemma seq_par_gen mv : forall acc c0 c, (forall x, ~ In x acc -> c x = c0 x) -> moves_indep acc mv ->
    seq_env mv c = par_env mv c0 c.
  Proof.
    induction mv as [|[o v] t IH]; intros acc c0 c Hag Hi; simpl; auto. destruct Hi as [Hv Ht].
    assert (E : oval lv c v = oval lv c0 v) by (destruct v; simpl; auto).
    rewrite E. apply (IH (o :: acc)); auto.
    intros x Hx. unfold upd. destruct (N.eqb x o) eqn:Ex.
    - apply N.eqb_eq in Ex. subst. exfalso. apply Hx. now left.
    - apply Hag. intros Hin. apply Hx. now right.
  Qed.

  (* the syntactic condition of CfgSem.phis_indep_from implies independence of the moves for every predecessor *)
  Lemma indep_moves q phis : forall acc mv, forallb is_phi phis = true -> phis_indep_from acc phis = true ->
    moves_of q phis = Some mv -> moves_indep acc mv.
  Proof.
    induction phis as [|i t IH]; intros acc mv Hp Hi Hm; simpl in *.
    - inversion Hm. exact I.
    - apply andb_true_iff in Hp as [Hpi Hpt]. rewrite Hpi in Hi. apply andb_true_iff in Hi as [Hr Hi].
      destruct (phi_move q i) as [[o v]|] eqn:Em; try discriminate. destruct (moves_of q t) as [r|] eqn:Er; try discriminate.
      inversion Hm; subst. unfold phi_move in Em. destruct (i_outs i) as [|o' [|]] eqn:Eo; try discriminate.
      destruct (phi_src (i_args i) q) as [v'|] eqn:Es; try discriminate. inversion Em; subst. simpl. split.
      + destruct v as [|x|]; auto. intros Hin. rewrite forallb_forall in Hr.
        assert (Hx : In x (phi_reads i)).
        { unfold phi_reads. apply in_flat_map. exists (OVar x). split; [eapply phi_src_in; eauto | now left]. }
        specialize (Hr _ Hx). apply negb_true_iff in Hr.
        assert (existsb (N.eqb x) acc = true); [|congruence]. apply existsb_exists. exists x. split; auto. apply N.eqb_refl.
      + apply IH; auto.
  Qed.

  (* the leading phis of block b run as `seq_env` *)
  Lemma phis_steps (f : func) b q m : forall phis mv k c,
    (forall j ins, nth_error phis j = Some ins -> nth_error (nth_block f b) (k + j) = Some ins) ->
    forallb is_phi phis = true -> moves_of q phis = Some mv ->
    steps f (Run b k (Some q) c m) [] (Run b (k + List.length phis) (Some q) (seq_env mv c) m).
  Proof.
    induction phis as [|i t IH]; intros mv k c Hn Hp Hm; simpl in *.
    - inversion Hm; subst. rewrite Nat.add_0_r. constructor.
    - apply andb_true_iff in Hp as [Hpi Hpt].
      destruct (phi_move q i) as [[o v]|] eqn:Em; try discriminate. destruct (moves_of q t) as [r|] eqn:Er; try discriminate.
      inversion Hm; subst. unfold phi_move in Em. destruct (i_outs i) as [|o' [|]] eqn:Eo; try discriminate.
      destruct (phi_src (i_args i) q) as [v'|] eqn:Es; try discriminate. inversion Em; subst.
      eapply steps_nil_trans.
      + apply steps_one. eapply (phi_step M osem lv f b k q c m i o v); eauto.
        specialize (Hn 0%nat i eq_refl). now rewrite Nat.add_0_r in Hn.
      + replace (k + S (List.length t))%nat with (S k + List.length t)%nat by lia. simpl. apply IH; auto.
        intros j ins Hj. specialize (Hn (S j) ins Hj). replace (S k + j)%nat with (k + S j)%nat by lia. exact Hn.
  Qed.

  Lemma par_env_notin mv : forall c0 c x, ~ In x (map fst mv) -> par_env mv c0 c x = c x.
  Proof.
    induction mv as [|[o v] t IH]; intros c0 c x Hx; simpl in *; auto.
    rewrite IH by tauto. unfold upd. destruct (N.eqb x o) eqn:E; auto. apply N.eqb_eq in E. subst. tauto.
  Qed.
  Lemma par_env_in mv : forall c0 c o v, NoDup (map fst mv) -> In (o, v) mv -> par_env mv c0 c o = oval lv c0 v.
  Proof.
    induction mv as [|[o1 v1] t IH]; intros c0 c o v Hnd Hin; simpl in *; [contradiction|].
    inversion Hnd; subst. destruct Hin as [E|Hin].
    - inversion E; subst. rewrite par_env_notin by auto. unfold upd. now rewrite N.eqb_refl.
    - apply IH; auto.
  Qed.

  Lemma leading_prefix (blk : list inst) : forall j ins, nth_error (leading_phis blk) j = Some ins -> nth_error blk j = Some ins.
  Proof.
    induction blk as [|i t IH]; intros j ins H; simpl in *; [destruct j; discriminate|].
    destruct (is_phi i); [|destruct j; discriminate]. destruct j; simpl in *; auto.
  Qed.
  Lemma leading_all_phi (blk : list inst) : forallb is_phi (leading_phis blk) = true.
  Proof. induction blk as [|i t IH]; simpl; auto. destruct (is_phi i) eqn:E; simpl; auto. now rewrite E. Qed.
  Lemma leading_indep (blk : list inst) : forall acc, phis_indep_from acc blk = true -> phis_indep_from acc (leading_phis blk) = true.
  Proof.
    induction blk as [|i t IH]; intros acc H; simpl in *; auto.
    destruct (is_phi i) eqn:E; simpl; auto. rewrite E. apply andb_true_iff in H as [H1 H2]. rewrite H1. simpl. auto.
  Qed.

  (* Entering block b from q: the sequential execution of its leading phis reaches the environment of the parallel
     reading — untouched outside the phi outputs, every output = the value its operand for q had on arrival. *)
  Theorem phis_sequential_is_parallel (f : func) b q c m mv :
    phis_indep_from [] (nth_block f b) = true -> moves_of q (leading_phis (nth_block f b)) = Some mv -> NoDup (map fst mv) ->
    exists c', steps f (Run b 0 (Some q) c m) [] (Run b (List.length (leading_phis (nth_block f b))) (Some q) c' m) /\
               (forall x, ~ In x (map fst mv) -> c' x = c x) /\ (forall o v, In (o, v) mv -> c' o = oval lv c v).
  Proof.
    intros Hi Hm Hnd. exists (seq_env mv c). split; [|split].
    - apply (phis_steps f b q m (leading_phis (nth_block f b)) mv 0 c); auto using leading_all_phi.
      intros j ins Hj. simpl. now apply leading_prefix.
    - intros x Hx. rewrite (seq_par_gen mv [] c c); [now apply par_env_notin | auto |].
      eapply indep_moves; eauto using leading_all_phi, leading_indep.
    - intros o v Hin. rewrite (seq_par_gen mv [] c c); [now apply par_env_in | auto |].
      eapply indep_moves; eauto using leading_all_phi, leading_indep.
  Qed.
End PHI.
