(* C14G — control-flow passes of Venom (simplify_cfg, branch_optimization, tail_merge, cfg_normalization).

   This file: syntax of an exported Venom function (same constructors as C14/RangeFix.v so that the same export text
   is used) and a small-step semantics that is PARAMETRIC in the meaning of every instruction the validators do not
   need to understand.  Definitions only.

   Modelling assumptions (stated once, used by every theorem of C14G):
   * a configuration is (block, position in the block's instruction list, label of the block control came from,
     variable environment, the rest of the machine state M); M is an arbitrary type;
   * every instruction other than phi / assign / iszero / jmp / jnz / djmp is OPAQUE: its effect is an arbitrary
     relation `osem opcode (values of the operands) m (values written to the outputs) m'` — any semantics of the EVM
     and Venom opcodes is an instance (RangeFix.v's "unmodelled instructions write any word" is `fun _ _ _ _ _ => True`
     with M = unit); an instruction reads variables only through its operands and writes only its outputs;
   * `assign a` copies the operand, `iszero a` is 1 if a = 0 and 0 otherwise; they produce no event;
   * an opaque instruction produces the event (opcode, operand values, m, output values, m'): the observable trace of
     an execution is the sequence of these events (halting instructions stop/return/revert/... included);
   * the LAST instruction of a block, if it is jmp/jnz/djmp, transfers control (jnz c t f: t iff c <> 0; djmp: any
     listed label); a jump opcode anywhere else has no successor configuration;
   * `phi` reads the operand paired with the label of the block control came from (first match; no match or no
     predecessor: no successor configuration).  PHIS OF ONE BLOCK ARE EXECUTED ONE AFTER THE OTHER; this coincides
     with the parallel reading (C14/RangeFix.v phi_assign) when no phi of a block reads the output of another phi of
     the same block (`phis_indep` below; the exporter applies the validators only to such functions — this equivalence is
     a modelling assumption, it is not proved here). *)
From Coq Require Import ZArith NArith Bool List String Lia.
From Verif Require Import Base.Word256.
Import ListNotations.
Open Scope string_scope.
Open Scope Z_scope.

(* ------------------------------------------------------------------ syntax *)
Inductive operand := OLit (v : Z) | OVar (x : N) | OLab (l : N).
(* i_args in the order of IRInstruction.operands *)
Record inst := mkI { i_op : string; i_args : list operand; i_outs : list N }.
Definition block := list inst.
Definition func := list block.   (* block label = index; entry block = 0 *)

Definition operand_eqb (a b : operand) : bool :=
  match a, b with
  | OLit x, OLit y => Z.eqb x y
  | OVar x, OVar y => N.eqb x y
  | OLab x, OLab y => N.eqb x y
  | _, _ => false
  end.
Fixpoint list_eqb {A} (e : A -> A -> bool) (l1 l2 : list A) : bool :=
  match l1, l2 with
  | [], [] => true
  | a :: t1, b :: t2 => e a b && list_eqb e t1 t2
  | _, _ => false
  end.
Definition inst_eqb (a b : inst) : bool :=
  String.eqb (i_op a) (i_op b) && list_eqb operand_eqb (i_args a) (i_args b) && list_eqb N.eqb (i_outs a) (i_outs b).

Definition nth_block (f : func) (b : N) : block := nth (N.to_nat b) f [].
Definition is_phi (ins : inst) : bool := String.eqb (i_op ins) "phi".
Definition is_jump (ins : inst) : bool :=
  String.eqb (i_op ins) "jmp" || String.eqb (i_op ins) "jnz" || String.eqb (i_op ins) "djmp".
Definition labels_of (l : list operand) : list N :=
  flat_map (fun o => match o with OLab x => [x] | _ => [] end) l.
Fixpoint phi_src (l : list operand) (p : N) : option operand :=
  match l with
  | OLab q :: v :: t => if N.eqb q p then Some v else phi_src t p
  | _ => None
  end.

(* ------------------------------------------------------------------ semantics *)
Definition cenv := N -> Z.
Definition upd (c : cenv) (x : N) (v : Z) : cenv := fun y => if N.eqb y x then v else c y.
Fixpoint upds (c : cenv) (outs : list N) (vs : list Z) : cenv :=
  match outs, vs with
  | o :: os, v :: vt => upds (upd c o v) os vt
  | _, _ => c
  end.
Definition isz (v : Z) : Z := if v =? 0 then 1 else 0.

(* the two data-movement opcodes the validators interpret *)
Definition dsem (op : string) (argv : list Z) : option (list Z) :=
  if String.eqb op "assign" then match argv with [v] => Some [v] | _ => None end
  else if String.eqb op "iszero" then match argv with [v] => Some [isz v] | _ => None end
  else None.

Section SEM.
  Variable M : Type.
  Variable osem : string -> list Z -> M -> list Z -> M -> Prop.
  Variable lv : N -> Z.       (* value of a label used as data *)

  Definition oval (c : cenv) (o : operand) : Z :=
    match o with OLit v => v mod W | OVar x => c x | OLab l => lv l end.

  Inductive event := Ev (op : string) (argv : list Z) (m : M) (outv : list Z) (m' : M).

  Definition exec (ins : inst) (c : cenv) (m : M) (outv : list Z) (m' : M) (ev : list event) : Prop :=
    List.length outv = List.length (i_outs ins) /\
    let argv := map (oval c) (i_args ins) in
    match dsem (i_op ins) argv with
    | Some r => outv = r /\ m' = m /\ ev = []
    | None => osem (i_op ins) argv m outv m' /\ ev = [Ev (i_op ins) argv m outv m']
    end.

  Definition targets (ins : inst) (c : cenv) : list N :=
    if String.eqb (i_op ins) "jmp" then match i_args ins with [OLab l] => [l] | _ => [] end
    else if String.eqb (i_op ins) "jnz" then
      match i_args ins with
      | [cond; OLab t; OLab f] => [if oval c cond =? 0 then f else t]
      | _ => []
      end
    else if String.eqb (i_op ins) "djmp" then labels_of (i_args ins)
    else [].

  Inductive conf := Run (b : N) (k : nat) (p : option N) (c : cenv) (m : M).

  Inductive step (f : func) : conf -> list event -> conf -> Prop :=
  | s_phi b k q c m ins o v :
      nth_error (nth_block f b) k = Some ins -> is_phi ins = true -> i_outs ins = [o] ->
      phi_src (i_args ins) q = Some v ->
      step f (Run b k (Some q) c m) [] (Run b (S k) (Some q) (upd c o (oval c v)) m)
  | s_inst b k p c m ins outv m' ev :
      nth_error (nth_block f b) k = Some ins -> is_phi ins = false -> is_jump ins = false ->
      exec ins c m outv m' ev ->
      step f (Run b k p c m) ev (Run b (S k) p (upds c (i_outs ins) outv) m')
  | s_jump b k p c m ins t :
      nth_error (nth_block f b) k = Some ins -> S k = List.length (nth_block f b) -> is_jump ins = true ->
      In t (targets ins c) ->
      step f (Run b k p c m) [] (Run t 0%nat (Some b) c m).

  Inductive steps (f : func) : conf -> list event -> conf -> Prop :=
  | ss_refl x : steps f x [] x
  | ss_cons x e1 y e2 z : step f x e1 y -> steps f y e2 z -> steps f x (e1 ++ e2) z.

  Definition init (c : cenv) (m : M) : conf := Run 0%N 0%nat None c m.

  (* the observable behaviours of a function: every finite event trace some execution from (c, m) produces *)
  Definition trace_of (f : func) (c : cenv) (m : M) (tr : list event) : Prop := exists x, steps f (init c m) tr x.
End SEM.
Arguments Ev {M}.
Arguments Run {M}.

(* ------------------------------------------------------------------ independence of the phis of a block *)
(* no phi reads a variable written by an EARLIER phi of the same block: then executing the phis one after the other
   (this file) and all at once (C14/RangeFix.v phi_assign) give the same environment *)
Definition phi_reads (ins : inst) : list N :=
  flat_map (fun o => match o with OVar x => [x] | _ => [] end) (i_args ins).
Fixpoint phis_indep_from (acc : list N) (b : list inst) : bool :=
  match b with
  | [] => true
  | ins :: t =>
    if is_phi ins then forallb (fun x => negb (existsb (N.eqb x) acc)) (phi_reads ins) && phis_indep_from (i_outs ins ++ acc) t
    else phis_indep_from acc t
  end.
Definition phis_indep (f : func) : bool := forallb (phis_indep_from []) f.
